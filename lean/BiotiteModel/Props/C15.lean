import BiotiteModel.Proofs.C15List
import BiotiteModel.Gen.C15
/-!
# C15 — property theorems (geometry is rigid-motion invariant; periodic helpers act by lattice vectors)

Only property statements and their non-vacuity examples live here; helper lemmas are in
`Proofs/C15*.lean`.  `K` is the set of constants and loop ranges re-extracted from
`geometry.py` / `box.py` on every run (`Gen/C15.lean`); `C15_gen_consts` is the obligation that
they are the ones the proofs need.  Rigid-motion statements hold over every commutative ring
(in particular ℝ and ℚ); box statements are over ℚ.

Not proved (validated numerically by the correspondence and the oracle only): IEEE rounding,
`sqrt` / `arccos` / `arctan2`, the unit-cell ↔ box-vector trigonometry.
-/
namespace BiotiteModel.C15

abbrev K : Consts := BiotiteModel.Gen.C15.consts

/-! ## Obligations on the regenerated constants -/

/-- `> 0.5 ↦ -1`, `% 1`, `range(-1, 1)`³, a positive orthogonality tolerance, `range(-amount, amount+1)`. -/
theorem C15_gen_consts : Std K := by
  constructor <;> first | decide | (norm_num [K, BiotiteModel.Gen.C15.consts])

/-- `is_orthogonal` tests all three pairs of box vectors. -/
theorem C15_gen_ortho_pairs :
    ∀ p ∈ [((0 : Nat), (1 : Nat)), (0, 2), (1, 2)],
      p ∈ BiotiteModel.Gen.C15.orthoPairs ∨ (p.2, p.1) ∈ BiotiteModel.Gen.C15.orthoPairs := by
  decide

/-- `repeat_box(atoms, amount)` hands `amount` on to `repeat_box_coord`. -/
theorem C15_gen_repeat_box_amount : BiotiteModel.Gen.C15.repeatBoxPassesAmount = true := by
  decide

/-- the round-off clean-up of `vectors_from_unitcell` is not scaled by the sum of the cell lengths. -/
theorem C15_gen_unitcell_tolerance : BiotiteModel.Gen.C15.unitcellTolUsesSum = false := by
  decide

/-- `distance`, `angle`, `dihedral` take every bond vector through `displacement` with the box:
`1→2`; `1→2, 3→2`; `1→2, 2→3, 3→4` — the shape `periodicDistSq/periodicAngle/periodicDihedral` model. -/
theorem C15_gen_measure_calls :
    BiotiteModel.Gen.C15.distanceCalls = [(1, 2, true)] ∧
    BiotiteModel.Gen.C15.angleCalls = [(1, 2, true), (3, 2, true)] ∧
    BiotiteModel.Gen.C15.dihedralCalls = [(1, 2, true), (2, 3, true), (3, 4, true)] := by
  decide

/-- `unitcell_from_vectors` takes alpha, beta, gamma from the dot products `b·c`, `a·c`, `a·b` of the box vectors
(what `C15_unitcell_inverse_partial` speaks about) — not from single components. -/
theorem C15_gen_unitcell_angle_dots :
    BiotiteModel.Gen.C15.unitcellAngleDots = [(1, 2), (0, 2), (0, 1)] := by
  decide

/-! ### formulas and structure of the source, re-read on every run (pass 7) -/

/-- `_displacement_triclinic_box`: the candidate shift written in the source, `i·box[0,c] + j·box[1,c] + k·box[2,c]`
per component, IS `(i, j, k)·B` of the model (`shifts`); the candidate is chosen by `argmin` of
`vector_dot(c, c)` of `c = fraction_to_coord(fractions) + shift` (local names are alpha-normalised by the extractor). -/
theorem C15_gen_triclinic_shift (i j k : Rat) (b : Box) :
    BiotiteModel.Gen.C15.triShift i j k b = vecMul ⟨i, j, k⟩ b ∧
    BiotiteModel.Gen.C15.triSelect = ["argmin"] ∧ BiotiteModel.Gen.C15.triDiffsFrom = "fraction_to_coord" ∧
    BiotiteModel.Gen.C15.triKey = "vector_dot(c, c), c = a + s" := by
  refine ⟨?_, by decide, by decide, by decide⟩
  first
    | rfl
    | (apply V3.ext' <;> simp only [BiotiteModel.Gen.C15.triShift, vecMul] <;> ring)

/-- `vectors_from_unitcell`: the array literal of the source (locals inlined) is the model's `vectorsFromCell`, and the
radicand of `c_z` is the one `C15_unitcell_inverse_partial` assumes. -/
theorem C15_gen_unitcell_formula (la lb lc ca cb cg sg cz : Rat) :
    BiotiteModel.Gen.C15.cellBox la lb lc ca cb cg sg cz = vectorsFromCell la lb lc ca cb cg sg cz ∧
    BiotiteModel.Gen.C15.cellCzSq la lb lc ca cb cg sg =
      lc * lc - (lc * cb) * (lc * cb) - (lc * (ca - cb * cg) / sg) * (lc * (ca - cb * cg) / sg) ∧
    BiotiteModel.Gen.C15.cellDtype = "np.float32" := by
  refine ⟨?_, ?_, by decide⟩
  · first
      | rfl
      | (simp only [BiotiteModel.Gen.C15.cellBox, vectorsFromCell, M3.mk.injEq, V3.mk.injEq]
         refine ⟨⟨by ring, by ring, by ring⟩, ⟨by ring, by ring, by ring⟩, ⟨by ring, by ring, by ring⟩⟩)
  · first
      | rfl
      | (simp only [BiotiteModel.Gen.C15.cellCzSq]; ring)

/-- `dihedral`: `arctan2(first, second)` with `first = ((v1×v2)×(v2×v3))·v2 = dihYv` and `second = (v1×v2)·(v2×v3) = dihXv`
(locals `n1`, `n2`, `x`, `y` inlined), after `norm_vector` of the three bond vectors. -/
theorem C15_gen_dihedral_formula (v1 v2 v3 : Vec) :
    BiotiteModel.Gen.C15.dihArg1 v1 v2 v3 = dihYv v1 v2 v3 ∧ BiotiteModel.Gen.C15.dihArg2 v1 v2 v3 = dihXv v1 v2 v3 ∧
    BiotiteModel.Gen.C15.dihNormed = ["v1", "v2", "v3"] := by
  refine ⟨?_, ?_, by decide⟩ <;>
    first
      | rfl
      | (simp only [BiotiteModel.Gen.C15.dihArg1, BiotiteModel.Gen.C15.dihArg2, dihYv, dihXv, V3.dot, V3.cross]; ring)

/-- `angle = arccos(clip(vector_dot(v1, v2), -1, 1))` of the two normalised vectors; `distance = sqrt(vector_dot(diff, diff))`. -/
theorem C15_gen_measure_forms :
    BiotiteModel.Gen.C15.angleDot = ["v1", "v2"] ∧ BiotiteModel.Gen.C15.angleNormed = ["v1", "v2"] ∧
    BiotiteModel.Gen.C15.angleClip = ["-1", "1"] ∧ BiotiteModel.Gen.C15.distanceDot = ["v1", "v1"] := by
  decide

/-- `displacement`: both shape branches compute `v2 − v1`; every orthogonality test dispatches to
`_displacement_orthogonal_box` / `_displacement_triclinic_box`; the steps come in the order
`coord_to_fraction`, `% 1`, `is_orthogonal`; `coord_to_fraction = matmul(coord, inv(box))`,
`fraction_to_coord = matmul(fraction, box)`, `move_inside_box = fraction_to_coord ∘ (% 1) ∘ coord_to_fraction`;
`is_orthogonal` combines three strict `<` tests with `&`; `box_volume = abs(det)`. -/
theorem C15_gen_displacement_structure (v1 v2 : Vec) :
    BiotiteModel.Gen.C15.dispDiffThen v1 v2 = v2.sub v1 ∧ BiotiteModel.Gen.C15.dispDiffElse v1 v2 = v2.sub v1 ∧
    BiotiteModel.Gen.C15.dispDispatch = List.replicate 3 ("ORTHO", "TRIC") ∧
    BiotiteModel.Gen.C15.dispSteps = ["coord_to_fraction", "mod", "is_orthogonal"] ∧
    BiotiteModel.Gen.C15.orthoSteps = ["fraction_to_coord"] ∧
    BiotiteModel.Gen.C15.coordToFractionForm = ["matmul", "coord", "linalg.inv(box)"] ∧
    BiotiteModel.Gen.C15.fractionToCoordForm = ["matmul", "fraction", "box"] ∧
    BiotiteModel.Gen.C15.moveSteps = ["coord_to_fraction", "fraction_to_coord"] ∧
    BiotiteModel.Gen.C15.orthoCmp = ["Lt"] ∧ BiotiteModel.Gen.C15.orthoCombine = ["BitAnd"] ∧
    BiotiteModel.Gen.C15.volumeForm = ["abs", "det"] := by
  refine ⟨?_, ?_, by decide, by decide, by decide, by decide, by decide, by decide, by decide, by decide, by decide⟩
  · first
      | rfl
      | (apply V3.ext' <;> simp only [BiotiteModel.Gen.C15.dispDiffThen, V3.sub, V3.neg, V3.add] <;> ring)
  · first
      | rfl
      | (apply V3.ext' <;> simp only [BiotiteModel.Gen.C15.dispDiffElse, V3.sub, V3.neg, V3.add] <;> ring)

/-- `repeat_box_coord`: the shift is `sum(box * [i, j, k][:, newaxis], axis=-2)`, added to a copy, the original
coordinates come first, everything is concatenated along the atom axis, the index array is tiled `(1 + 2·amount)³`
times (the count `repeatBoxCoordE` tests), and `amount` is checked against `Integral` (`TypeError`). -/
theorem C15_gen_repeat_structure (a : Int) :
    BiotiteModel.Gen.C15.repVec = ["i", "j", "k"] ∧ BiotiteModel.Gen.C15.repSumAxis = ["-2"] ∧
    BiotiteModel.Gen.C15.repCatAxis = ["-2"] ∧ BiotiteModel.Gen.C15.repFirst = ["coord"] ∧
    BiotiteModel.Gen.C15.repCount a = (1 + 2 * a) ^ 3 ∧ BiotiteModel.Gen.C15.repTypeCheck = ["Integral"] ∧
    BiotiteModel.Gen.C15.repAdds = ["Add"] := by
  refine ⟨by decide, by decide, by decide, by decide, ?_, by decide, by decide⟩
  first
    | rfl
    | (simp only [BiotiteModel.Gen.C15.repCount]; ring)

/-- `remove_pbc_from_coord`: pairs `(i, i+1)` for `i = 0 … n−2`, `index_displacement(..., periodic=True, box=box)`,
`cumsum` along the atom axis, the first atom through `move_inside_box`, the rest `base + cumulative displacement`.
`remove_pbc`: per molecule mask (`get_molecule_masks`, chains without bonds) `mask &= selection`, then
`remove_pbc_from_coord` on the molecule's own coordinates with the structure's box, `centroid`, `move_inside_box`,
shift by `center_in_box − center` — all inside the loop. -/
theorem C15_gen_remove_pbc_structure :
    BiotiteModel.Gen.C15.rpbcPairs = [["0", "coord.shape[-2] - 1"], ["1", "coord.shape[-2]"]] ∧
    BiotiteModel.Gen.C15.rpbcDisp = ["index_displacement", "box=box", "periodic=True"] ∧
    BiotiteModel.Gen.C15.rpbcCumsum = ["cumsum", "axis=-2"] ∧
    BiotiteModel.Gen.C15.rpbcBase = ["move_inside_box", "coord[..., 0:1, :]"] ∧
    BiotiteModel.Gen.C15.rpbcAssign = [("OUT[..., 0:1, :]", "BASE"), ("OUT[..., 1:, :]", "BASE + CUM")] ∧
    BiotiteModel.Gen.C15.rpLoopCalls = ["remove_pbc_from_coord", "centroid", "move_inside_box"] ∧
    BiotiteModel.Gen.C15.rpOutsideCalls = [] ∧
    BiotiteModel.Gen.C15.rpShift = ["INBOX - CENTER"] ∧
    BiotiteModel.Gen.C15.rpSelection = ["&= selection"] ∧
    BiotiteModel.Gen.C15.rpMasks = ["get_molecule_masks", "get_chain_masks"] ∧
    BiotiteModel.Gen.C15.rpArgs = ["COPY.coord[..., MASK, :]", "atoms.box"] := by
  decide

/-- the four index wrappers: target function and index width; the width test comes first (`ValueError`), the
coordinates are gathered as `coord(atoms)[..., indices[:, i], :]`. -/
theorem C15_gen_index_wrappers :
    BiotiteModel.Gen.C15.indexWrappers = [("index_displacement", "displacement", 2), ("index_distance", "distance", 2),
      ("index_angle", "angle", 3), ("index_dihedral", "dihedral", 4)] ∧
    BiotiteModel.Gen.C15.indexFirstCheck = ["indices.shape[-1] != L1", "ValueError"] ∧
    BiotiteModel.Gen.C15.indexGather = ["coord(atoms)[..., indices[:, COL], :]"] := by
  decide

/-- default argument values the adapter and the model assume (`box=None`, `periodic=False`, `amount=1`, …). -/
theorem C15_gen_defaults :
    BiotiteModel.Gen.C15.defaults = [("displacement", "box", "None"), ("distance", "box", "None"), ("angle", "box", "None"),
      ("dihedral", "box", "None"), ("INDEX_DISPATCHER", "box", "None"), ("INDEX_DISPATCHER", "periodic", "False"),
      ("repeat_box", "amount", "1"), ("repeat_box_coord", "amount", "1"), ("remove_pbc", "selection", "None"),
      ("rotate_about_axis", "support", "None"), ("align_vectors", "origin_position", "None"),
      ("align_vectors", "target_position", "None"), ("orient_principal_components", "order", "None")] := by
  decide

/-- exception classes of the `raise` statements, in source order. -/
theorem C15_gen_raises :
    BiotiteModel.Gen.C15.raises = [("displacement", ["ValueError", "ValueError"]),
      ("INDEX_DISPATCHER", ["ValueError", "ValueError"]), ("repeat_box", ["BadStructureError"]),
      ("repeat_box_coord", ["TypeError"]), ("remove_pbc", ["BadStructureError"]), ("translate", ["ValueError"]),
      ("rotate", ["ValueError"]), ("rotate_about_axis", ["ValueError"]),
      ("align_vectors", ["ValueError", "ValueError", "ValueError", "ValueError", "ValueError"]),
      ("orient_principal_components", ["ValueError", "ValueError", "ValueError", "ValueError"])] := by
  decide

/-! ## Rigid-motion invariance (polynomial identities over any commutative ring) -/

section Rigid
variable {R : Type} [CommRing R]

/-- `RᵀR = 1 → ⟨(Ru+t) − (Rv+t), (Rw+t) − (Rz+t)⟩ = ⟨u − v, w − z⟩`. -/
theorem C15_dot_invariant (Rm : M3 R) (t u v w z : V3 R) (h : Orthogonal Rm) :
    ((rigid Rm t u).sub (rigid Rm t v)).dot ((rigid Rm t w).sub (rigid Rm t z)) = (u.sub v).dot (w.sub z) := by
  rw [rigid_sub, rigid_sub, dot_mulVec Rm h]

/-- Squared distance and the numerator / squared denominator of the angle cosine are invariant. -/
theorem C15_dist_angle_invariant (Rm : M3 R) (t a b c : V3 R) (h : Orthogonal Rm) :
    distSq (rigid Rm t a) (rigid Rm t b) = distSq a b ∧
    angleNum (rigid Rm t a) (rigid Rm t b) (rigid Rm t c) = angleNum a b c ∧
    angleDenSq (rigid Rm t a) (rigid Rm t b) (rigid Rm t c) = angleDenSq a b c := by
  simp only [distSq, angleNum, angleDenSq, V3.normSq, C15_dot_invariant Rm t _ _ _ _ h, and_self]

/-- `det R = 1 → det[Rp, Rq, Rr] = det[p, q, r]` for the difference vectors of moved points. -/
theorem C15_triple_invariant (Rm : M3 R) (t a a' b b' c c' : V3 R) (h : Rm.det = 1) :
    triple ((rigid Rm t a).sub (rigid Rm t a')) ((rigid Rm t b).sub (rigid Rm t b'))
        ((rigid Rm t c).sub (rigid Rm t c')) =
      triple (a.sub a') (b.sub b') (c.sub c') := by
  rw [rigid_sub, rigid_sub, rigid_sub, triple_mulVec, h, one_mul]

/-- Both arguments of the dihedral's `atan2` (and the scale `|v₂|²` between them) are invariant
under proper rotations + translations. -/
theorem C15_dihedral_invariant (Rm : M3 R) (t a b c d : V3 R) (h : IsRotation Rm) :
    dihX (rigid Rm t a) (rigid Rm t b) (rigid Rm t c) (rigid Rm t d) = dihX a b c d ∧
    dihY (rigid Rm t a) (rigid Rm t b) (rigid Rm t c) (rigid Rm t d) = dihY a b c d ∧
    dihAxisSq (rigid Rm t a) (rigid Rm t b) (rigid Rm t c) (rigid Rm t d) = dihAxisSq a b c d := by
  obtain ⟨ho, hd⟩ := h
  refine ⟨?_, ?_, ?_⟩
  · simp only [dihX, cross_dot_cross, C15_dot_invariant Rm t _ _ _ _ ho]
  · simp only [dihY, cross_cross_dot, C15_dot_invariant Rm t _ _ _ _ ho, C15_triple_invariant Rm t _ _ _ _ _ _ hd]
  · simp only [dihAxisSq, V3.normSq, C15_dot_invariant Rm t _ _ _ _ ho]

/-- The hypothesis `det R = 1` of `C15_dihedral_invariant` is necessary: under an improper orthogonal map
(`RᵀR = 1`, `det R = −1`, a mirror image) distances, angles and the `x` argument stay, the `y` argument changes sign —
the dihedral angle is negated. -/
theorem C15_dihedral_reflection (Rm : M3 R) (t a b c d : V3 R) (ho : Orthogonal Rm) (hd : Rm.det = -1) :
    dihX (rigid Rm t a) (rigid Rm t b) (rigid Rm t c) (rigid Rm t d) = dihX a b c d ∧
    dihY (rigid Rm t a) (rigid Rm t b) (rigid Rm t c) (rigid Rm t d) = -dihY a b c d := by
  refine ⟨?_, ?_⟩
  · simp only [dihX, cross_dot_cross, C15_dot_invariant Rm t _ _ _ _ ho]
  · simp only [dihY, cross_cross_dot, rigid_sub, triple_mulVec, hd, dot_mulVec Rm ho]
    ring

end Rigid

/-- a rational proper rotation (integer quaternion 1+2i+3j+4k) -/
def rotEx : M3 Rat := ⟨⟨-2/3, 2/15, 11/15⟩, ⟨2/3, -1/3, 2/3⟩, ⟨1/3, 14/15, 2/15⟩⟩
example : IsRotation rotEx := by
  constructor
  · simp only [Orthogonal, M3.mul, M3.transpose, vecMul, M3.one, rotEx]; norm_num
  · simp only [M3.det, triple, V3.dot, V3.cross, rotEx]; norm_num
example : dihY (rigid rotEx ⟨1, 2, 3⟩ ⟨0, 0, 0⟩) (rigid rotEx ⟨1, 2, 3⟩ ⟨1, 0, 0⟩)
    (rigid rotEx ⟨1, 2, 3⟩ ⟨1, 1, 0⟩) (rigid rotEx ⟨1, 2, 3⟩ ⟨1, 1, 1⟩) = (1 : Rat) := by
  have hr : IsRotation rotEx := by
    constructor
    · simp only [Orthogonal, M3.mul, M3.transpose, vecMul, M3.one, rotEx]; norm_num
    · simp only [M3.det, triple, V3.dot, V3.cross, rotEx]; norm_num
  rw [(C15_dihedral_invariant rotEx ⟨1, 2, 3⟩ _ _ _ _ hr).2.1]
  simp only [dihY, V3.dot, V3.cross, V3.sub]; norm_num

def orthoEx : Box := ⟨⟨0, 8, 0⟩, ⟨16, 0, 0⟩, ⟨0, 0, -4⟩⟩
def tricEx : Box := ⟨⟨8, 0, 0⟩, ⟨4, 8, 0⟩, ⟨2, 2, 8⟩⟩

/-- Planar quadruples: if the three bond vectors are coplanar (`det[v₁,v₂,v₃] = 0`, e.g. all atoms in a coordinate
plane) the `atan2` argument `y` of the dihedral is exactly 0, so the angle is 0 (cis, `x > 0`) or ±π (trans, `x < 0`)
— never a sign-dependent quantity; `x` is then the product of the two plane normals' common component. -/
theorem C15_dihedral_planar {R : Type} [CommRing R] (a b c d : V3 R)
    (h : triple (b.sub a) (c.sub b) (d.sub c) = 0) : dihY a b c d = 0 := by
  simp only [dihY, cross_cross_dot, h, mul_zero]

/-- all four atoms in the plane `z = 0`: `y = 0` and `x` is the product of the z-components of the two normals -/
theorem C15_dihedral_planar_z (ax ay bx b_y cx cy dx dy : Rat) :
    dihY (⟨ax, ay, 0⟩ : Vec) ⟨bx, b_y, 0⟩ ⟨cx, cy, 0⟩ ⟨dx, dy, 0⟩ = 0 ∧
    dihX (⟨ax, ay, 0⟩ : Vec) ⟨bx, b_y, 0⟩ ⟨cx, cy, 0⟩ ⟨dx, dy, 0⟩ =
      ((bx - ax) * (cy - b_y) - (b_y - ay) * (cx - bx)) * ((cx - bx) * (dy - cy) - (cy - b_y) * (dx - cx)) := by
  constructor <;> simp only [dihY, dihX, V3.dot, V3.cross, V3.sub] <;> ring

example : dihedralClass ⟨0, 0, 0⟩ ⟨1, 1, 0⟩ ⟨2, 0, 0⟩ ⟨3, 1, 0⟩ = some "pi" := by
  simp only [dihedralClass, dihX, dihY, V3.dot, V3.cross, V3.sub]; norm_num

/-! ## Index variants -/

/-- The box the index variants use is the documented one: nothing if `periodic=False`; with
`periodic=True` an explicit `box=` argument overrides the `box` attribute of the atoms, the attribute is
used when no box is given, and plain coordinates without a box are rejected (`ValueError`). -/
theorem C15_index_box_precedence (own : Option BoxArg) (explicit : BoxArg) :
    selectBox K.boxPrecedence false own explicit = .ok .none ∧
    (explicit.isNone = false → selectBox K.boxPrecedence true own explicit = .ok explicit) ∧
    (explicit.isNone = true → ∀ o, own = some o → selectBox K.boxPrecedence true own explicit = .ok o) ∧
    (explicit.isNone = true → own = none → selectBox K.boxPrecedence true own explicit = .error .valueError) := by
  rw [C15_gen_consts.prec]
  refine ⟨rfl, ?_, ?_, ?_⟩
  · intro h; simp [selectBox, h]
  · intro h o ho; simp [selectBox, h, ho]
  · intro h ho; simp [selectBox, h, ho]

/-- `index_displacement(atoms, indices, periodic, box)` is `displacement` of the two gathered
coordinate arrays with the box selected above (`own = none`: `atoms` is an ndarray, `own = some b`: an
`AtomArray` / `AtomArrayStack` carrying `b`); the other `index_*` functions go through the same
`_call_non_index_function`. -/
theorem C15_index_eq_coord (a : Arr) (pairs : List (Int × Int)) (periodic : Bool) (box : BoxArg)
    (own : Option BoxArg) (a1 a2 : Arr) (hr : a.rank ≠ 1)
    (h1 : gather a (pairs.map Prod.fst) = some a1) (h2 : gather a (pairs.map Prod.snd) = some a2) :
    indexDisplacement K a pairs periodic box own =
      match selectBox K.boxPrecedence periodic own box with
      | .ok bx => displacement K a1 a2 bx
      | .error e => .err e := by
  cases a with
  | v _ => simp [Arr.rank] at hr
  | l _ => simp only [indexDisplacement, h1, h2]; rfl
  | s _ => simp only [indexDisplacement, h1, h2]; rfl

/-- in particular: an explicit box on atoms that carry a different box of their own -/
example (a : Arr) (pairs : List (Int × Int)) (a1 a2 : Arr) (hr : a.rank ≠ 1)
    (h1 : gather a (pairs.map Prod.fst) = some a1) (h2 : gather a (pairs.map Prod.snd) = some a2) :
    indexDisplacement K a pairs true (.one tricEx) (some (.one orthoEx)) = displacement K a1 a2 (.one tricEx) := by
  rw [C15_index_eq_coord a pairs true _ _ a1 a2 hr h1 h2,
    (C15_index_box_precedence (some (.one orthoEx)) (.one tricEx)).2.1 rfl]

/-! ## Displacement with a box -/

/-- For every non-singular box (either branch) the displacement exists and differs from the plain
difference by a lattice vector. -/
theorem C15_displacement_lattice (d : Vec) (b : Box) (hdet : b.det ≠ 0) :
    ∃ r, displacement1 K d b = .ok r ∧ InLattice b (r.sub d) :=
  displacement1_lattice C15_gen_consts d b hdet

/-- Orthorhombic box (pairwise orthogonal box vectors, any orientation): the displacement is the
shortest periodic image — no integer shift `(i, j, k)` gives a shorter vector. -/
theorem C15_ortho_min_image (d : Vec) (b : Box) (hdet : b.det ≠ 0) (horth : OrthoBox b) :
    ∃ r, displacement1 K d b = .ok r ∧ InLattice b (r.sub d) ∧
      ∀ i j k : Int, r.normSq ≤ (d.add (vecMul (ofInts i j k) b)).normSq :=
  displacement1_ortho C15_gen_consts d b hdet horth

/-- Triclinic branch: no periodic image whose fractional components all lie in `[-1, 1)` is shorter
than the returned displacement (these are exactly the 8 candidates the code tests). -/
theorem C15_triclinic_candidates (d : Vec) (b : Box) (hdet : b.det ≠ 0) (hno : isOrthogonal K b = false) :
    ∃ r, displacement1 K d b = .ok r ∧
      ∀ i j k : Int, ∀ fe, coordToFraction (d.add (vecMul (ofInts i j k) b)) b = some fe →
        (-1 ≤ fe.x ∧ fe.x < 1) → (-1 ≤ fe.y ∧ fe.y < 1) → (-1 ≤ fe.z ∧ fe.z < 1) →
        r.normSq ≤ (d.add (vecMul (ofInts i j k) b)).normSq :=
  displacement1_tric_candidates C15_gen_consts d b hdet hno

/-- Triclinic branch, 8-candidate sufficiency: if SOME periodic image is shorter than half of every
box height (`|e|²·|recipᵢ|² < 1/4`, `hᵢ = 1/|recipᵢ|`), the returned displacement is the shortest of ALL
images. -/
theorem C15_triclinic_min_image (d : Vec) (b : Box) (hdet : b.det ≠ 0) (hno : isOrthogonal K b = false)
    (hshort : ∃ i j k : Int, Short b (d.add (vecMul (ofInts i j k) b))) :
    ∃ r, displacement1 K d b = .ok r ∧
      ∀ i j k : Int, r.normSq ≤ (d.add (vecMul (ofInts i j k) b)).normSq :=
  displacement1_tric_min C15_gen_consts d b hdet hno hshort

example : orthoEx.det ≠ 0 ∧ OrthoBox orthoEx := by
  simp only [OrthoBox, M3.det, triple, V3.dot, V3.cross, orthoEx]; norm_num
example : tricEx.det ≠ 0 ∧ isOrthogonal K tricEx = false := by
  simp only [isOrthogonal, rabs, M3.det, triple, V3.dot, V3.cross, tricEx, K, BiotiteModel.Gen.C15.consts]; norm_num
example : Short tricEx ((⟨6, 6, 1⟩ : Vec).add (vecMul (ofInts 0 (-1) 0) tricEx)) := by
  simp only [Short, recip0, recip1, recip2, M3.det, triple, V3.normSq, V3.dot, V3.cross, V3.smul, V3.add,
    vecMul, ofInts, tricEx]; norm_num

/-- Minimum image below half the smallest box height for EVERY non-singular box and whichever branch `is_orthogonal`
selects — in particular for skewed boxes that pass its absolute tolerance (tiny boxes): if some periodic image is shorter
than half of every box height, the returned displacement is the shortest of all images. -/
theorem C15_min_image_below_half_height (d : Vec) (b : Box) (hdet : b.det ≠ 0)
    (hshort : ∃ i j k : Int, Short b (d.add (vecMul (ofInts i j k) b))) :
    ∃ r, displacement1 K d b = .ok r ∧
      ∀ i j k : Int, r.normSq ≤ (d.add (vecMul (ofInts i j k) b)).normSq :=
  displacement1_min_below_half_height C15_gen_consts d b hdet hshort

/-- A singular box is refused (`LinAlgError` of `linalg.inv`) — exactly there: `det = 0 ↔` refusal. -/
theorem C15_displacement_singular_rejects (d : Vec) (b : Box) :
    (b.det = 0 → displacement1 K d b = .error .singular) ∧
    (b.det ≠ 0 → ∃ r, displacement1 K d b = .ok r) :=
  ⟨fun h => displacement1_singular d b h, fun h => by
    obtain ⟨r, hr, -⟩ := C15_displacement_lattice d b h
    exact ⟨r, hr⟩⟩

/-- The index variants refuse a single coordinate of shape `(3,)` (`IndexError`), whatever the other arguments. -/
theorem C15_index_rank1_rejects (v : Vec) (pairs : List (Int × Int)) (periodic : Bool) (box : BoxArg) (own : Option BoxArg) :
    (match indexDisplacement K (.v v) pairs periodic box own with | .err .indexError => True | _ => False) := by
  simp [indexDisplacement]

/-- `repeat_box_coord` refuses exactly the negative amounts on a non-empty coordinate array (`ValueError`). -/
theorem C15_repeat_box_negative_rejects (xs : List Vec) (b : Box) (a : Int) :
    (a < 0 → xs ≠ [] → repeatBoxCoordE K xs b a = .error .valueError) ∧
    (0 ≤ a ∨ xs = [] → ∃ r, repeatBoxCoordE K xs b a = .ok r ∧ r.1 = repeatBoxCoord K xs b a) := by
  constructor
  · intro h hx
    have : (1 + 2 * a) ^ 3 < 0 := by
      have h1 : 1 + 2 * a < 0 := by omega
      have : (1 + 2 * a) ^ 3 = (1 + 2 * a) * ((1 + 2 * a) * (1 + 2 * a)) := by ring
      rw [this]; exact mul_neg_of_neg_of_pos h1 (mul_pos_of_neg_of_neg h1 h1)
    simp [repeatBoxCoordE, this, hx]
  · intro h
    have : ¬ ((1 + 2 * a) ^ 3 < 0 ∧ xs ≠ []) := by
      rcases h with h | h
      · have : (0 : Int) ≤ (1 + 2 * a) ^ 3 := by positivity
        omega
      · simp [h]
    exact ⟨(repeatBoxCoord K xs b a, (cubeShifts K a).flatMap fun _ => List.range xs.length),
      by simp only [repeatBoxCoordE, this, if_false], rfl⟩

/-! ## Periodic measurements are functions of the atoms modulo the lattice -/

/-- `displacement(d + lattice vector, box) = displacement(d, box)` for every box, both branches. -/
theorem C15_displacement_lattice_invariant (d : Vec) (b : Box) (i j k : Int) :
    displacement1 K (d.add (vecMul (ofInts i j k) b)) b = displacement1 K d b :=
  displacement1_shift C15_gen_consts d b i j k

/-- Wrapping ANY of the atoms by ANY lattice vectors changes neither the periodic squared distance, nor the
cosine numerator / squared denominator of the periodic angle, nor the two `atan2` arguments (and `|v₂|²`)
of the periodic dihedral — no uniqueness hypothesis needed, every box. -/
theorem C15_dihedral_lattice_invariant (p1 p2 p3 p4 : Vec) (b : Box) (n1 n2 n3 n4 : Int × Int × Int) :
    periodicDihedral K (p1.add (latVec b n1)) (p2.add (latVec b n2)) (p3.add (latVec b n3)) (p4.add (latVec b n4)) b =
      periodicDihedral K p1 p2 p3 p4 b ∧
    periodicAngle K (p1.add (latVec b n1)) (p2.add (latVec b n2)) (p3.add (latVec b n3)) b = periodicAngle K p1 p2 p3 b ∧
    periodicDistSq K (p1.add (latVec b n1)) (p2.add (latVec b n2)) b = periodicDistSq K p1 p2 b := by
  simp only [periodicDihedral, periodicAngle, periodicDistSq, displacement1_latVec C15_gen_consts, and_self]

/-- The periodic dihedral is the plain dihedral of the unwrapped chain `q₁ = p₁, qₙ₊₁ = qₙ + displacement`. -/
theorem C15_periodic_dihedral_unwrapped (p1 p2 p3 p4 v1 v2 v3 : Vec) (b : Box)
    (h1 : displacement1 K (p2.sub p1) b = .ok v1) (h2 : displacement1 K (p3.sub p2) b = .ok v2)
    (h3 : displacement1 K (p4.sub p3) b = .ok v3) :
    periodicDihedral K p1 p2 p3 p4 b =
      .ok (dihX p1 (p1.add v1) ((p1.add v1).add v2) (((p1.add v1).add v2).add v3),
           dihY p1 (p1.add v1) ((p1.add v1).add v2) (((p1.add v1).add v2).add v3),
           dihAxisSq p1 (p1.add v1) ((p1.add v1).add v2) (((p1.add v1).add v2).add v3)) := by
  have e : ∀ a v : Vec, (a.add v).sub a = v := fun a v => by
    apply V3.ext' <;> simp [V3.add, V3.sub]
  simp only [periodicDihedral, h1, h2, h3, bind, Except.bind, pure, Except.pure, dihX, dihY, dihAxisSq, dihXv, dihYv, e]

/-! ## Fractions and `move_inside_box` -/

/-- `coord_to_fraction` and `fraction_to_coord` are mutually inverse for every non-singular box;
a singular box is rejected (`LinAlgError`). -/
theorem C15_fraction_inverse (b : Box) :
    (b.det ≠ 0 → ∀ f, coordToFraction (fractionToCoord f b) b = some f) ∧
    (∀ x f, coordToFraction x b = some f → fractionToCoord f b = x) ∧
    (b.det = 0 → ∀ x, coordToFraction x b = none) :=
  ⟨fun h f => coordToFraction_fractionToCoord f b h, fun x f h => fractionToCoord_coordToFraction x f b h,
   fun h x => coordToFraction_none x b h⟩

/-- `move_inside_box`: the result has fractional coordinates in `[0, 1)³`, differs from the input by a
lattice vector, and moving again changes nothing. -/
theorem C15_move_inside (x : Vec) (b : Box) (hdet : b.det ≠ 0) :
    ∃ y g, moveInside1 K x b = some y ∧ coordToFraction y b = some g ∧
      (0 ≤ g.x ∧ g.x < 1) ∧ (0 ≤ g.y ∧ g.y < 1) ∧ (0 ≤ g.z ∧ g.z < 1) ∧
      InLattice b (y.sub x) ∧ moveInside1 K y b = some y :=
  moveInside1_spec C15_gen_consts x b hdet

example : ∃ y, moveInside1 K ⟨-3, 22, 54⟩ tricEx = some y ∧ InLattice tricEx (y.sub ⟨-3, 22, 54⟩) := by
  have hd : tricEx.det ≠ 0 := by simp only [M3.det, triple, V3.dot, V3.cross, tricEx]; norm_num
  obtain ⟨y, g, h, -, -, -, -, hl, -⟩ := C15_move_inside ⟨-3, 22, 54⟩ tricEx hd
  exact ⟨y, h, hl⟩

/-! ## `repeat_box_coord` -/

/-- For `amount ≥ 0` the boxes are exactly the `(2·amount+1)³` integer shifts of the cube, each once,
the central box first; the coordinates are the originals followed by every atom translated by
every other shift. -/
theorem C15_repeat_box (xs : List Vec) (b : Box) (a : Int) (ha : 0 ≤ a) :
    (cubeShifts K a).Nodup ∧
    (∀ i j k : Int, (i, j, k) ∈ cubeShifts K a ↔ (-a ≤ i ∧ i ≤ a) ∧ (-a ≤ j ∧ j ≤ a) ∧ (-a ≤ k ∧ k ≤ a)) ∧
    (cubeShifts K a).length = (2 * a + 1).toNat ^ 3 ∧
    (repeatBoxCoord K xs b a).length = (2 * a + 1).toNat ^ 3 * xs.length ∧
    (repeatBoxCoord K xs b a).take xs.length = xs ∧
    (∀ y, y ∈ repeatBoxCoord K xs b a ↔
      ∃ x ∈ xs, ∃ i j k : Int, ((-a ≤ i ∧ i ≤ a) ∧ (-a ≤ j ∧ j ≤ a) ∧ (-a ≤ k ∧ k ≤ a)) ∧
        y = x.add (vecMul (ofInts i j k) b)) := by
  have hp := cubeShifts_perm C15_gen_consts a ha
  have hmem : ∀ i j k : Int, (i, j, k) ∈ cubeShifts K a ↔
      (-a ≤ i ∧ i ≤ a) ∧ (-a ≤ j ∧ j ≤ a) ∧ (-a ≤ k ∧ k ≤ a) :=
    fun i j k => (hp.mem_iff).trans (mem_cubeAll C15_gen_consts a i j k)
  have hlen : (cubeShifts K a).length = (2 * a + 1).toNat ^ 3 := by
    rw [hp.length_eq, length_cubeAll C15_gen_consts]
  refine ⟨(hp.nodup_iff).mpr (nodup_cubeAll K a), hmem, hlen, ?_, ?_, ?_⟩
  · simp only [repeatBoxCoord, List.length_flatMap, List.length_map, List.map_const', List.sum_replicate,
      smul_eq_mul, hlen]
  · simp only [repeatBoxCoord, cubeShifts, List.flatMap_cons, add_zero_shift, List.map_id']
    simp
  · intro y
    simp only [repeatBoxCoord, List.mem_flatMap, List.mem_map, Prod.exists]
    constructor
    · rintro ⟨i, j, k, hs, x, hx, rfl⟩
      exact ⟨x, hx, i, j, k, (hmem i j k).mp hs, rfl⟩
    · rintro ⟨x, hx, i, j, k, hr, rfl⟩
      exact ⟨i, j, k, (hmem i j k).mpr hr, x, hx, rfl⟩

example : (repeatBoxCoord K [⟨1, 5, 3⟩, ⟨-1, 2, 5⟩] orthoEx 1).length = 54 :=
  (C15_repeat_box _ orthoEx 1 (by decide)).2.2.2.1

/-! ## `remove_pbc_from_coord` -/

/-- For every non-singular box: the result exists, has one coordinate per input coordinate, every
atom is moved by a lattice vector, array neighbours end exactly at the (minimum-image)
`displacement` of their input difference, and the first atom is the one `move_inside_box` gives. -/
theorem C15_remove_pbc_lattice (xs : List Vec) (b : Box) (hdet : b.det ≠ 0) :
    ∃ ys, removePbcFromCoord K xs b = .ok ys ∧
      List.Forall₂ (fun p q => InLattice b (q.sub p)) xs ys ∧
      List.Forall₂ (fun d r => displacement1 K d b = .ok r) (pairDiffs xs) (pairDiffs ys) ∧
      (∀ x0, xs.head? = some x0 → ∃ y0, ys.head? = some y0 ∧ moveInside1 K x0 b = some y0) :=
  removePbc_spec C15_gen_consts xs b hdet

example : ∃ ys, removePbcFromCoord K [⟨1, 1, 1⟩, ⟨15, 1, 1⟩, ⟨-2, 9, 1⟩] tricEx = .ok ys ∧ ys.length = 3 := by
  have hd : tricEx.det ≠ 0 := by simp only [M3.det, triple, V3.dot, V3.cross, tricEx]; norm_num
  obtain ⟨ys, h, hl, -⟩ := C15_remove_pbc_lattice [⟨1, 1, 1⟩, ⟨15, 1, 1⟩, ⟨-2, 9, 1⟩] tricEx hd
  exact ⟨ys, h, by simpa using hl.length_eq.symm⟩

/-- The bonded-atoms clause for what the code does: after `remove_pbc_from_coord` every pair of ARRAY
neighbours is at its minimum image — its difference vector is the shortest of all its periodic images —
for orthorhombic boxes always, for triclinic boxes whenever every neighbour pair has an image shorter
than half of each box height.  The per-molecule translation of `remove_pbc` (centroid into the box)
does not change this. -/
theorem C15_remove_pbc_consecutive_min_image (xs : List Vec) (b : Box) (hdet : b.det ≠ 0)
    (h : OrthoBox b ∨ (isOrthogonal K b = false ∧
      ∀ d ∈ pairDiffs xs, ∃ i j k : Int, Short b (d.add (vecMul (ofInts i j k) b)))) :
    ∃ ys, removePbcFromCoord K xs b = .ok ys ∧ ys.length = xs.length ∧
      (∀ e ∈ pairDiffs ys, SelfMin b e) ∧
      ∀ t : Vec, ∀ e ∈ pairDiffs (ys.map (fun p => p.add t)), SelfMin b e :=
  removePbc_consecutive C15_gen_consts xs b hdet h

example : ∃ ys, removePbcFromCoord K [⟨1, 1, 1⟩, ⟨15, 1, 1⟩, ⟨-2, 9, 1⟩] orthoEx = .ok ys ∧
    ∀ e ∈ pairDiffs ys, SelfMin orthoEx e := by
  have hd : orthoEx.det ≠ 0 ∧ OrthoBox orthoEx := by
    simp only [OrthoBox, M3.det, triple, V3.dot, V3.cross, orthoEx]; norm_num
  obtain ⟨ys, h, -, hm, -⟩ := C15_remove_pbc_consecutive_min_image [⟨1, 1, 1⟩, ⟨15, 1, 1⟩, ⟨-2, 9, 1⟩] orthoEx hd.1 (.inl hd.2)
  exact ⟨ys, h, hm⟩

/-- One molecule of `remove_pbc`, given by its array positions `mol` — distinct and in range, NOT necessarily
contiguous (solvent listed as all O, then all H1, then all H2): the molecule's OWN coordinate sequence is reassembled
by `remove_pbc_from_coord` and translated as a whole (`t`, centroid into the box), so by
`C15_remove_pbc_consecutive_min_image` its array-order neighbours end at their minimum image whatever lies between
them in the array; every coordinate outside the molecule is left untouched. -/
theorem C15_remove_pbc_molecule_step (b : Box) (hdet : b.det ≠ 0) (cur : List Vec) (mol : List Nat)
    (hnd : mol.Nodup) (hlt : ∀ i ∈ mol, i < cur.length) :
    ∃ cur' san t, removePbcStep K b cur mol = .ok cur' ∧
      removePbcFromCoord K (mol.filterMap (fun i => cur[i]?)) b = .ok san ∧
      cur'.length = cur.length ∧
      (∀ i, i ∉ mol → cur'[i]? = cur[i]?) ∧
      (∀ (j i : Nat) (w : Vec), mol[j]? = some i → (san.map (fun p => p.add t))[j]? = some w → cur'[i]? = some w) :=
  removePbcStep_spec C15_gen_consts b hdet cur mol hnd hlt

example : ∃ cur', removePbcStep K orthoEx [⟨1, 1, 1⟩, ⟨15, 1, 1⟩, ⟨-2, 9, 1⟩, ⟨3, 3, 3⟩] [0, 2] = .ok cur' ∧
    cur'[1]? = some ⟨15, 1, 1⟩ ∧ cur'[3]? = some ⟨3, 3, 3⟩ := by
  have hd : orthoEx.det ≠ 0 := by simp only [M3.det, triple, V3.dot, V3.cross, orthoEx]; norm_num
  obtain ⟨cur', _, _, h, -, -, ho, -⟩ := C15_remove_pbc_molecule_step orthoEx hd
    [⟨1, 1, 1⟩, ⟨15, 1, 1⟩, ⟨-2, 9, 1⟩, ⟨3, 3, 3⟩] [0, 2] (by decide) (by decide)
  exact ⟨cur', h, by rw [ho 1 (by decide)]; rfl, by rw [ho 3 (by decide)]; rfl⟩

/-- `remove_pbc(atoms, selection)`: a molecule mask is intersected with the selection before anything else, so an
atom that is not selected keeps its coordinates in that step (and the selected part of the molecule is treated like a
molecule of its own, `C15_remove_pbc_molecule_step`). -/
theorem C15_remove_pbc_selection (b : Box) (hdet : b.det ≠ 0) (cur : List Vec) (mol : List Nat) (sel : List Bool)
    (hnd : mol.Nodup) (hlt : ∀ i ∈ mol, i < cur.length) :
    ∃ cur', removePbcStep K b cur (mol.filter (fun i => sel.getD i false)) = .ok cur' ∧ cur'.length = cur.length ∧
      ∀ i, sel.getD i false = false → cur'[i]? = cur[i]? := by
  obtain ⟨cur', _, _, h, -, hl, ho, -⟩ := C15_remove_pbc_molecule_step b hdet cur (mol.filter (fun i => sel.getD i false))
    (hnd.filter _) (fun i hi => hlt i (List.mem_filter.mp hi).1)
  refine ⟨cur', h, hl, fun i hi => ho i ?_⟩
  intro hm
  have h2 : sel.getD i false = true := (List.mem_filter.mp hm).2
  rw [hi] at h2
  cases h2

/-! ## Unit cell ↔ box vectors (partial: algebraic core only) -/

/-- `unitcell_from_vectors ∘ vectors_from_unitcell = id` up to the transcendental functions: over any
field, if the numbers used for `sin γ` and `c_z` satisfy `sin²γ = 1 − cos²γ`, `sin γ ≠ 0` and
`c_z² = c² − c_x² − c_y²`, the box has squared vector lengths `a², b², c²` and dot products
`bc·cos α, ac·cos β, ab·cos γ` — exactly what `unitcell_from_vectors` takes `sqrt` / `arccos` of.
NOT covered: `cos`/`sin`/`sqrt`/`arccos` themselves, float rounding, the zeroing of round-off. -/
theorem C15_unitcell_inverse_partial {F : Type} [Field F] (la lb lc ca cb cg sg cz : F) (hsg : sg ≠ 0)
    (hs : sg * sg = 1 - cg * cg)
    (hz : cz * cz = lc * lc - (lc * cb) * (lc * cb) - (lc * (ca - cb * cg) / sg) * (lc * (ca - cb * cg) / sg)) :
    cellSqFromVectors (vectorsFromCell la lb lc ca cb cg sg cz) =
      ⟨la * la, lb * lb, lc * lc, lb * lc * ca, la * lc * cb, la * lb * cg⟩ :=
  cellSq_vectorsFromCell la lb lc ca cb cg sg cz hsg hs hz

/-- Exact sub-case, orthorhombic cells (all angles 90°): the box is `diag(a, b, c)` and the way back gives
the three lengths and three right angles. -/
theorem C15_unitcell_inverse_ortho (la lb lc : Rat) :
    vectorsFromCell90 la lb lc = ⟨⟨la, 0, 0⟩, ⟨0, lb, 0⟩, ⟨0, 0, lc⟩⟩ ∧
    cellSqFromVectors (vectorsFromCell90 la lb lc) = ⟨la * la, lb * lb, lc * lc, 0, 0, 0⟩ := by
  constructor
  · simp [vectorsFromCell90, vectorsFromCell]
  · simp [vectorsFromCell90, vectorsFromCell, cellSqFromVectors, V3.dot]

-- non-vacuity: cos γ = 3/5, sin γ = 4/5, cos β = 3/5, cos α = 9/25, c = 1, c_z = 4/5
example : cellSqFromVectors (vectorsFromCell (2 : Rat) 3 1 (9/25) (3/5) (3/5) (4/5) (4/5)) =
    ⟨4, 9, 1, 3 * 1 * (9/25), 2 * 1 * (3/5), 2 * 3 * (3/5)⟩ := by
  have := C15_unitcell_inverse_partial (2 : Rat) 3 1 (9/25) (3/5) (3/5) (4/5) (4/5) (by norm_num) (by norm_num) (by norm_num)
  rw [this]; norm_num

end BiotiteModel.C15

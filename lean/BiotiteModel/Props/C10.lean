import BiotiteModel.Proofs.C10
import BiotiteModel.Proofs.C10Minimizer
import BiotiteModel.Proofs.C10Pickle
import BiotiteModel.Proofs.C10Ctor
import BiotiteModel.Proofs.C10Kmers
import BiotiteModel.Proofs.C10Syncmer
import BiotiteModel.Proofs.C10Sim
import BiotiteModel.Proofs.C10Mincode
import BiotiteModel.Proofs.C10Iter
import BiotiteModel.Proofs.C10Cached
import BiotiteModel.Proofs.C10Eq
import BiotiteModel.Proofs.C10Score
import BiotiteModel.Proofs.C10Api
import BiotiteModel.Proofs.C10Audit
import BiotiteModel.Proofs.C10GenExpected
import BiotiteModel.Gen.C10
/-!
# C10 — property theorems (k-mer index tables and selectors)

Helper lemmas are in `Proofs/C10.lean`.  All theorems quantify over *all* inputs (no size
bound) unless the name ends in `_defect` (a concrete witness of a deviation of the real code,
replayed on the implementation as a known finding).
-/
namespace BiotiteModel.C10

/-! ## the two-pass construction -/

/-- The second pass never writes beyond the capacity counted by the first pass and never
dereferences `NULL`: for every hash `h` into `nb` slots and every item list the construction
terminates without the model's undefined-behaviour outcome. -/
theorem C10_fill_in_capacity (h : Nat → Nat) (nb : Nat) (items : List Entry)
    (hb : ∀ e ∈ items, h e.kmer < nb) : ∃ s, build h nb items = .ok s ∧
      ∀ (b : Nat) (bk : Bucket), s[b]? = some (some bk) → bk.ents.length = bk.cap := by
  refine ⟨canon h nb items, build_eq_canon h nb items hb, ?_⟩
  intro b bk hget
  simp only [canon, List.getElem?_map] at hget
  cases hr : (List.range nb)[b]? with
  | none => simp [hr] at hget
  | some b' =>
    simp only [hr, Option.map_some, Option.some.injEq] at hget
    split at hget
    · simp at hget
    · simp only [Option.some.injEq] at hget; subst hget; rfl

/-- … and the result is exactly the specification: slot `b` = the items hashing to `b`, in order. -/
theorem C10_build_exact (h : Nat → Nat) (nb : Nat) (items : List Entry)
    (hb : ∀ e ∈ items, h e.kmer < nb) : build h nb items = .ok (canon h nb items) :=
  build_eq_canon h nb items hb

/-- `from_kmers` / `from_kmer_selection` / `from_sequences` all reduce to `mkTable`: for a direct
table (`nBuckets = none`) and for **any** bucket number `≥ 1` the table is the canonical one. -/
theorem C10_mkTable_exact (a : KAlph) (nBuckets : Option Nat) (items : List Entry)
    (hsize : 0 < a.size) (hnb : ∀ n, nBuckets = some n → 0 < n) (hq : ∀ e ∈ items, e.kmer < a.size) :
    mkTable a nBuckets items = .ok (canonTable a nBuckets.isSome (slotCount a nBuckets) items) :=
  mkTable_eq a nBuckets items hsize hnb hq

/-- `from_kmer_selection`: valid input (codes in range, equally long arrays) is never rejected and
stores exactly the given `(kmer, ref, position)` triples. -/
theorem C10_fromSelection_exact (a : KAlph) (nBuckets : Option Nat) (refs : List (Nat × List Nat × List Nat))
    (hsize : 0 < a.size) (hnb : ∀ n, nBuckets = some n → 0 < n)
    (hq : ∀ r ∈ refs, ∀ q ∈ r.2.2, q < a.size) (hl : ∀ r ∈ refs, r.2.1.length = r.2.2.length) :
    fromSelection a nBuckets refs = .ok (canonTable a nBuckets.isSome (slotCount a nBuckets)
      (refs.flatMap fun (r, ps, ks) => selItems r ps ks)) := by
  unfold fromSelection
  have h1 : (refs.all fun r => checkBounds a r.2.2) = true := by
    simp only [List.all_eq_true, checkBounds, decide_eq_true_eq]
    exact hq
  have h2 : (refs.any fun r => decide (r.2.1.length ≠ r.2.2.length)) = false := by
    simp only [List.any_eq_false, decide_eq_true_eq]
    intro r hr; simp [hl r hr]
  simp only [h1, h2, Bool.not_true, Bool.false_eq_true, if_false]
  apply mkTable_eq a nBuckets _ hsize hnb
  intro e he
  simp only [List.mem_flatMap] at he
  obtain ⟨⟨r, ps, ks⟩, hr, he⟩ := he
  simp only [selItems, List.mem_map] at he
  obtain ⟨⟨p, km⟩, hz, rfl⟩ := he
  exact hq _ hr km (List.of_mem_zip hz).2

/-! ## queries -/

/-- **Match exactness**, one theorem for "identical, or similar under a supplied rule, masked positions
excluded": for direct and bucketed tables and any number of buckets `≥ 1`, with the similarity rule
as a parameter (`sim q` = the k-mers the rule declares similar to `q`; identical k-mers are
`sim q = [q]`), `match` returns exactly the triples (query position `i`, reference id `r`, reference
position `j`) such that the **unmasked** query k-mer at `i` is similar to a stored k-mer of `r` at `j`. -/
theorem C10_match_exact (sim : Nat → List Nat) (a : KAlph) (bucketed : Bool) (nb : Nat)
    (items : List Entry) (qk : List Nat) (qm : List Bool)
    (hbk : bucketed = true → 0 < nb)
    (hd : bucketed = false → ∀ q ∈ qk, ∀ q' ∈ sim q, q' < nb) (i r j : Nat) :
    (i, r, j) ∈ matchKmersSim sim (canonTable a bucketed nb items) qk qm ↔
      ∃ q q', qk[i]? = some q ∧ qm[i]? = some true ∧ q' ∈ sim q ∧ (⟨q', r, j⟩ : Entry) ∈ items :=
  matchKmersSim_canon sim a bucketed nb items qk qm hbk hd i r j

/-- the instance without a similarity rule (`match` = `matchKmersSim (fun q => [q])`,
`matchKmers_eq_sim`): identical k-mers. -/
theorem C10_match_exact_identical (a : KAlph) (bucketed : Bool) (nb : Nat) (items : List Entry)
    (qk : List Nat) (qm : List Bool)
    (hbk : bucketed = true → 0 < nb) (hd : bucketed = false → ∀ q ∈ qk, q < nb) (i r j : Nat) :
    (i, r, j) ∈ matchKmers (canonTable a bucketed nb items) qk qm ↔
      ∃ q, qk[i]? = some q ∧ qm[i]? = some true ∧ (⟨q, r, j⟩ : Entry) ∈ items := by
  rw [matchKmers_eq_sim,
    C10_match_exact (fun q => [q]) a bucketed nb items qk qm hbk
      (fun hb q hq q' hq' => by simp only [List.mem_singleton] at hq'; rw [hq']; exact hd hb q hq)]
  constructor
  · rintro ⟨q, q', h1, h2, h3, h4⟩
    simp only [List.mem_singleton] at h3
    rw [h3] at h4
    exact ⟨q, h1, h2, h4⟩
  · rintro ⟨q, h1, h2, h4⟩
    exact ⟨q, q, h1, h2, by simp, h4⟩

/-- the instance for `ScoreThresholdRule` (specification level: all k-mers whose substitution score
with the query k-mer reaches the threshold) on a table over its own alphabet. -/
theorem C10_match_score_rule (mat : List Int) (thr : Int) (a : KAlph) (bucketed : Bool) (nb : Nat)
    (items : List Entry) (qk : List Nat) (qm : List Bool)
    (hbk : bucketed = true → 0 < nb) (hd : bucketed = false → nb = a.size) (i r j : Nat) :
    (i, r, j) ∈ matchKmersSim (scoreSim a mat thr) (canonTable a bucketed nb items) qk qm ↔
      ∃ q q', qk[i]? = some q ∧ qm[i]? = some true ∧ q' ∈ scoreSim a mat thr q ∧
        (⟨q', r, j⟩ : Entry) ∈ items :=
  C10_match_exact _ a bucketed nb items qk qm hbk
    (fun hb q _ q' hq' => by rw [hd hb]; exact scoreSim_lt a mat thr q q' hq') i r j

/-- **`KmerAlphabet.__eq__`** as written decides structural equality — same base alphabet, `k` and
spacing model (a contiguous alphabet never equals a spaced one) — and is therefore symmetric; this is
the test `from_tables` / `match_table` use to refuse tables over different k-mer alphabets. -/
theorem C10_alphabet_eq (a b : KAlph) :
    (kalphEq a b = true ↔ a = b) ∧ kalphEq a b = kalphEq b a := by
  refine ⟨kalphEq_iff a b, ?_⟩
  rw [Bool.eq_iff_iff, kalphEq_iff, kalphEq_iff]
  exact ⟨fun h => h.symm, fun h => h.symm⟩

/-- **Alphabet guard of `match`**: a result is only ever produced for a query whose alphabet the
table's base alphabet extends (a prefix alphabet of at most `n` symbols); a query over another
alphabet is refused even when all its symbol codes are in range, and for an accepted query the
result is the one `C10_match_exact` describes. -/
theorem C10_match_alphabet_guard (t : Table) (qa : QAlph) (seq : List Nat) (mask : Option (List Bool))
    (l : List (Nat × Nat × Nat)) (h : matchSeqQ t qa seq mask = .ok l) :
    qa.extendedBy t.alph.n = true ∧ matchSeq t seq mask = .ok l :=
  matchSeqQ_ok t qa seq mask l h

/-- The scan for one k-mer returns exactly the stored entries with that k-mer, with multiplicity
and in insertion order — for the direct table and for every bucket number. -/
theorem C10_lookup (a : KAlph) (bucketed : Bool) (nb : Nat) (items : List Entry) (q : Nat)
    (hbk : bucketed = true → 0 < nb) (hd : bucketed = false → q < nb) :
    lookup (canonTable a bucketed nb items) q = items.filter (fun e => e.kmer == q) :=
  lookup_canon a bucketed nb items q hbk hd

/-- `count(kmers)` agrees with the match set: the number of stored entries per k-mer. -/
theorem C10_count (a : KAlph) (bucketed : Bool) (nb : Nat) (items : List Entry) (kmers : List Nat)
    (hbk : bucketed = true → 0 < nb) (hd : bucketed = false → ∀ q ∈ kmers, q < nb)
    (hq : ∀ q ∈ kmers, q < a.size) :
    countKmers (canonTable a bucketed nb items) kmers
      = .ok (kmers.map fun q => (items.filter (fun e => e.kmer == q)).length) := by
  unfold countKmers
  have h1 : checkBounds (canonTable a bucketed nb items).alph kmers = true := by
    simp only [checkBounds, canonTable, List.all_eq_true]
    intro x hx; exact decide_eq_true (hq x hx)
  simp only [h1, Bool.not_true, Bool.false_eq_true, if_false]
  congr 1
  apply List.map_congr_left
  intro q hqm
  rw [lookup_canon a bucketed nb items q hbk (fun hb => hd hb q hqm)]

/-- `match_kmer_selection` returns exactly `(position, ref, ref position)` for equal k-mers. -/
theorem C10_match_selection (a : KAlph) (bucketed : Bool) (nb : Nat) (items : List Entry)
    (ps ks : List Nat) (hbk : bucketed = true → 0 < nb) (hd : bucketed = false → ∀ q ∈ ks, q < nb)
    (hq : ∀ q ∈ ks, q < a.size) (hl : ps.length = ks.length) :
    matchSelection (canonTable a bucketed nb items) ps ks
      = .ok ((ps.zip ks).flatMap fun (p, q) =>
          (items.filter (fun e => e.kmer == q)).map (fun e => (p, e.ref, e.pos))) := by
  unfold matchSelection
  have h1 : checkBounds (canonTable a bucketed nb items).alph ks = true := by
    simp only [checkBounds, canonTable, List.all_eq_true]
    intro x hx; exact decide_eq_true (hq x hx)
  simp only [h1, Bool.not_true, Bool.false_eq_true, if_false, hl, ne_eq, not_true_eq_false]
  congr 1
  apply flatMap_congr'
  intro ⟨p, q⟩ hz
  simp only []
  rw [lookup_canon a bucketed nb items q hbk (fun hb => hd hb q (List.of_mem_zip hz).2)]

/-- `KmerTable.count()` (no argument): one number per k-mer code = number of stored entries. -/
theorem C10_count_all (a : KAlph) (nb : Nat) (items : List Entry) :
    countAll (canonTable a false nb items)
      = (List.range nb).map fun b => (items.filter (fun e => e.kmer == b)).length :=
  countAll_canon a nb items

/-- iteration / `get_kmers()`: exactly the k-mer codes that have at least one stored entry
(membership; the ascending order of the result is exercised by the correspondence only). -/
theorem C10_get_kmers (a : KAlph) (bucketed : Bool) (nb : Nat) (items : List Entry) (q : Nat)
    (hbk : bucketed = true → 0 < nb) (hd : bucketed = false → ∀ e ∈ items, e.kmer < nb) :
    q ∈ getKmers (canonTable a bucketed nb items) ↔ ∃ e ∈ items, e.kmer = q :=
  mem_getKmers_canon a bucketed nb items q hbk hd

/-- `get_kmers()` / iteration order: strictly ascending (hence duplicate-free) for every table, direct
or bucketed; together with `C10_get_kmers` (completeness) it is *the* sorted list of stored k-mers. -/
theorem C10_get_kmers_sorted (t : Table) : (getKmers t).Pairwise (· < ·) :=
  getKmers_strict t

/-- `count()` over all k-mers is complete: the per-k-mer counts add up to the number of stored entries. -/
theorem C10_count_complete (a : KAlph) (nb : Nat) (items : List Entry) (h : ∀ e ∈ items, e.kmer < nb) :
    (countAll (canonTable a false nb items)).sum = items.length := by
  rw [countAll_canon]; exact sum_counts nb items h

/-- **`table == other` as a refinement**: for tables as the constructors produce them (`Full`),
`__eq__` holds iff both are of the same kind with the same base-alphabet size, `k`, slot number and
the same content slot by slot (same entries in the same order). -/
theorem C10_table_eq (t o : Table) (ht : t.Full) (ho : o.Full) :
    tableEq t o = true ↔ t.bucketed = o.bucketed ∧ t.alph.n = o.alph.n ∧ t.alph.k = o.alph.k ∧
      t.nb = o.nb ∧ t.slots = o.slots :=
  tableEq_iff t o ht ho

theorem C10_table_eq_constructed (a1 a2 : KAlph) (b1 b2 : Bool) (nb1 nb2 : Nat) (i1 i2 : List Entry) :
    tableEq (canonTable a1 b1 nb1 i1) (canonTable a2 b2 nb2 i2) = true ↔
      b1 = b2 ∧ a1.n = a2.n ∧ a1.k = a2.k ∧ nb1 = nb2 ∧
      canon (hashOf b1 nb1) nb1 i1 = canon (hashOf b2 nb2) nb2 i2 :=
  tableEq_iff _ _ (canonTable_full a1 b1 nb1 i1) (canonTable_full a2 b2 nb2 i2)

/-- **Defect**: the spacing model is not part of `__eq__`: two tables over *different* k-mer alphabets
(contiguous vs. spacing `101`) with the same stored codes compare equal. -/
theorem C10_eq_spacing_defect :
    tableEq (canonTable ⟨2, 2, none⟩ false 4 [⟨0, 0, 0⟩, ⟨1, 0, 1⟩])
            (canonTable ⟨2, 2, some [0, 2]⟩ false 4 [⟨0, 0, 0⟩, ⟨1, 0, 1⟩]) = true ∧
    (⟨2, 2, none⟩ : KAlph) ≠ ⟨2, 2, some [0, 2]⟩ := by
  decide

/-- `table[kmer]` for the direct table, and for the bucketed table **as long as all k-mer codes are
below 2³²** (partial: the bucketed `__getitem__` compares only the low 32-bit word). -/
theorem C10_getitem_partial (a : KAlph) (bucketed : Bool) (nb : Nat) (items : List Entry) (q : Nat)
    (hbk : bucketed = true → 0 < nb) (hd : bucketed = false → q < nb) (hq : q < a.size)
    (h32 : bucketed = true → q < 2 ^ 32 ∧ ∀ e ∈ items, e.kmer < 2 ^ 32) :
    getItem (canonTable a bucketed nb items) q
      = .ok ((items.filter (fun e => e.kmer == q)).map fun e => (e.ref, e.pos)) := by
  unfold getItem
  have hge : ¬ q ≥ (canonTable a bucketed nb items).alph.size := by simp [canonTable]; omega
  simp only [hge, if_false]
  cases bucketed with
  | false =>
    simp only [canonTable, Bool.false_eq_true, if_false]
    rw [slotEntries_canon _ _ _ _ (hd rfl)]
    simp [filt, hashOf]
  | true =>
    obtain ⟨hq32, he32⟩ := h32 rfl
    simp only [canonTable, if_true]
    rw [slotEntries_canon _ _ _ _ (Nat.mod_lt _ (hbk rfl))]
    simp only [filt, hashOf, if_true, List.filter_filter]
    congr 2
    apply List.filter_congr
    intro e he
    have := he32 e he
    rw [Nat.mod_eq_of_lt this]
    by_cases hk : e.kmer = q
    · simp [hk]
    · simp [hk]

/-- **Defect** (negation of the full statement for the bucketed table): with a k-mer code `≥ 2³²`
stored, `table[kmer]` is empty for that k-mer and `table[kmer mod 2³²]` returns foreign positions,
although `count` finds one entry each. -/
theorem C10_getitem_defect :
    let t := canonTable ⟨4, 17, none⟩ true 2 [⟨2 ^ 32 + 5, 0, 0⟩, ⟨5, 0, 1⟩, ⟨7, 0, 2⟩]
    getItem t (2 ^ 32 + 5) = .ok [] ∧ getItem t 5 = .ok [(0, 0), (0, 1)] ∧
    countKmers t [2 ^ 32 + 5, 5] = .ok [1, 1] := by
  decide

/-- **Merge = union** (`from_tables`): merging canonical tables gives the canonical table of the
concatenated item lists, without ever exceeding the counted capacity. -/
theorem C10_merge (h : Nat → Nat) (nb : Nat) (iss : List (List Entry)) :
    mergeSlots nb (iss.map (canon h nb)) = .ok (canon h nb iss.flatten) :=
  mergeSlots_canon h nb iss

/-! ## constructors -/

/-- what one reference contributes to a table: exactly the unmasked `(kmer, ref, position)` triples -/
theorem C10_items_exact (ref : Nat) (kmers : List Nat) (mask : List Bool) (e : Entry) :
    e ∈ itemsOf ref kmers mask ↔ e.ref = ref ∧ kmers[e.pos]? = some e.kmer ∧ mask[e.pos]? = some true :=
  mem_itemsOf ref kmers mask e

/-- `from_kmers`: valid input (codes in range, masks as long as their k-mer arrays) is never rejected,
never reaches `UB`, and yields the canonical table of the unmasked k-mers — direct and any
`n_buckets ≥ 1`. -/
theorem C10_fromKmers_exact (a : KAlph) (nBuckets : Option Nat)
    (refs : List (Nat × List Nat × Option (List Bool)))
    (hsize : 0 < a.size) (hnb : ∀ n, nBuckets = some n → 0 < n)
    (hq : ∀ r ∈ refs, ∀ q ∈ r.2.1, q < a.size)
    (hm : ∀ r ∈ refs, ∀ m, r.2.2 = some m → m.length = r.2.1.length) :
    fromKmers a nBuckets refs = .ok (canonTable a nBuckets.isSome (slotCount a nBuckets)
      (refs.flatMap fun (r, ks, m) => itemsOf r ks (m.getD (List.replicate ks.length true)))) :=
  fromKmers_eq a nBuckets refs hsize hnb hq hm

/-- every alphabet `KmerAlphabet.__init__` accepts (k ≥ 2, spacing sorted, distinct, of length k) is
well formed: the hypotheses of `C10_create_kmers` / `C10_fromSequences_exact` hold for it. -/
theorem C10_mkAlph_wf (n k : Nat) (spacing : Option (List Nat)) (a : KAlph) (h : mkAlph n k spacing = .ok a) :
    a.WF ∧ a.n = n ∧ a.k = k :=
  mkAlph_wf n k spacing a h

/-- `create_kmers`: the rolling update (contiguous) resp. the per-position loop (spaced) yields, for
every start position, the direct `fuse` of the window's symbol codes; all codes are below `n^k`. -/
theorem C10_create_kmers (a : KAlph) (seq : List Nat) (hwf : a.WF) (hlen : a.span ≤ seq.length)
    (hn : ∀ c ∈ seq, c < a.n) :
    createKmers a seq = .ok (kmersSpec a seq) ∧ ∀ q ∈ kmersSpec a seq, q < a.size :=
  ⟨createKmers_eq a seq hwf hlen hn, kmersSpec_lt a seq hwf hlen hn⟩

/-- `from_sequences`: for sequences at least one k-mer long over the alphabet, whenever mask
preparation succeeds (always without masks and for contiguous k-mers, `C10_prepareMask_ok`) the result
is the canonical table of the unmasked `fuse`d windows. -/
theorem C10_fromSequences_exact (a : KAlph) (nBuckets : Option Nat)
    (refs : List (Nat × List Nat × Option (List Bool))) (mk : Nat × List Nat × Option (List Bool) → List Bool)
    (hwf : a.WF) (hsize : 0 < a.size) (hnb : ∀ n, nBuckets = some n → 0 < n)
    (hlen : ∀ r ∈ refs, a.span ≤ r.2.1.length) (hn : ∀ r ∈ refs, ∀ c ∈ r.2.1, c < a.n)
    (hmask : ∀ r ∈ refs, prepareMask a r.2.2 r.2.1.length = .ok (mk r)) :
    fromSequences a nBuckets refs = .ok (canonTable a nBuckets.isSome (slotCount a nBuckets)
      (refs.flatMap fun r => itemsOf r.1 (kmersSpec a r.2.1) (mk r))) :=
  fromSequences_eq a nBuckets refs mk hwf hsize hnb hlen hn hmask

theorem C10_prepareMask_ok (a : KAlph) (mask : Option (List Bool)) (len : Nat)
    (h : ∀ m, mask = some m → m.length = len ∧ a.spacing = none) :
    ∃ l, prepareMask a mask len = .ok l :=
  prepareMask_ok a mask len h

/-- `from_positions`: a dictionary with valid, distinct keys yields the canonical direct table of
exactly the listed `(kmer, ref, position)` triples. -/
theorem C10_fromPositions_exact (a : KAlph) (dict : List (Nat × List (Nat × Nat)))
    (hnd : (dict.map (·.1)).Nodup) (hlt : ∀ x ∈ dict, x.1 < a.size) :
    fromPositions a dict = .ok (canonTable a false a.size (dictItems dict)) :=
  fromPositions_eq a dict hnd hlt

/-- `match_table` = the join over equal k-mers: `(r₂, p₂, r₁, p₁)` is reported iff the other table
stores some k-mer at `(r₂, p₂)` that this table stores at `(r₁, p₁)`. -/
theorem C10_match_table (a : KAlph) (bucketed : Bool) (nb : Nat) (itemsT itemsO : List Entry)
    (hbk : bucketed = true → 0 < nb)
    (hd : bucketed = false → ∀ e, (e ∈ itemsT ∨ e ∈ itemsO) → e.kmer < nb) (r2 p2 r1 p1 : Nat) :
    ∃ l, matchTable (canonTable a bucketed nb itemsT) (canonTable a bucketed nb itemsO) = .ok l ∧
      ((r2, p2, r1, p1) ∈ l ↔ ∃ q, (⟨q, r2, p2⟩ : Entry) ∈ itemsO ∧ (⟨q, r1, p1⟩ : Entry) ∈ itemsT) :=
  matchTable_canon a bucketed nb itemsT itemsO hbk hd r2 p2 r1 p1

/-! ## pickling -/

/-- **Pickle round trip** on the model's array layout (concatenated 32-bit words + per-slot lengths):
every table whose blocks are exactly full (and, for the direct variant, whose slot `j` holds k-mer `j`)
is restored unchanged — in particular every table a constructor or a merge produces. -/
theorem C10_pickle (t : Table) (h : t.Full) : pickleRoundTrip t = t :=
  pickleRoundTrip_eq t h

theorem C10_pickle_constructed (a : KAlph) (bucketed : Bool) (nb : Nat) (items : List Entry) :
    pickleRoundTrip (canonTable a bucketed nb items) = canonTable a bucketed nb items :=
  pickleRoundTrip_eq _ (canonTable_full a bucketed nb items)

/-! ## masks -/

/-- For spaced k-mers the k-mer mask computed by the code does not depend on the k-mer position:
it is constant (**as written**: `mask[j + offset]`). -/
theorem C10_mask_spaced_constant (a : KAlph) (sp : List Nat) (mask l : List Bool)
    (hs : a.spacing = some sp) (h : toKmerMask a mask = .ok l) : ∃ b, l = List.replicate l.length b := by
  unfold toKmerMask at h
  simp only [hs] at h
  split at h
  · cases h; exact ⟨true, rfl⟩
  · split at h
    · cases h
    · cases h; exact ⟨_, by rw [List.length_replicate]⟩

/-- **Defect** (spacing `1101`, sequence length 10): masking position 6 excludes no k-mer (the
k-mers starting at 3, 5 and 6 contain it); masking position 0 excludes all seven k-mers. -/
theorem C10_mask_spaced_defect :
    toKmerMask ⟨4, 3, some [0, 1, 3]⟩ [false, false, false, false, false, false, true, false, false, false]
      = .ok (List.replicate 7 true) ∧
    toKmerMask ⟨4, 3, some [0, 1, 3]⟩ [true, false, false, false, false, false, false, false, false, false]
      = .ok (List.replicate 7 false) := by
  decide

/-- Contiguous k-mers: the k-mer at `i` is retained iff none of the positions `i … i+k-1` is masked. -/
theorem C10_mask_contiguous (a : KAlph) (mask : List Bool) (hs : a.spacing = none) :
    toKmerMask a mask = .ok ((List.range (a.arrayLength mask.length).toNat).map fun i =>
      ! ((mask.drop i).take a.k).any id) := by
  simp [toKmerMask, hs]

/-! ## selectors -/

/-- **Defect**: a sort key equal to `INT64_MAX` at a chunk start makes the forward pass keep the
arg-min of the previous chunk; the reported minimizer 0 lies outside the window `[1, 2]`, whose
leftmost minimum is position 1 (expected positions `[0, 1, 3]`). -/
theorem C10_minimizer_defect :
    minimizerSelect 2 (.table [5, int64Max, 3, 0]) [0, 1, 1, 2] = .ok [(0, 0), (3, 2)] ∧
    leftmostArgmin [5, int64Max, int64Max, 3] 1 2 = some 1 := by
  decide

/-- **Minimizer** (`_minimize` with `include_duplicates=True`, the core of `MinimizerSelector` and
`SyncmerSelector.select`): for every window `w ≥ 1` and every key list whose keys are all below
`INT64_MAX`, the chunk-wise forward / reverse arg-cumulative-minimum combination never reads outside
its arrays and returns, for every window `[i, i+w)`, the leftmost position of the minimum — both
as the executable specification `leftmostArgmin` and as the predicate `IsLeftMin`. -/
theorem C10_minimizer (ord : List Int) (w : Nat) (hw : 1 ≤ w) (hmax : ∀ v ∈ ord, v < int64Max) :
    ∃ ps, minimizeAll ord w = .ok ps ∧ ps.map some = windowMinima ord w ∧
      (∀ i, i + w ≤ ord.length → ∃ p, ps[i]? = some p ∧ IsLeftMin (gOf ord) i (i + w) p) ∧
      ∀ p ∈ ps, p < ord.length :=
  minimizeAll_spec ord w hw hmax

/-- `MinimizerSelector.select_from_kmers`: the selected positions are the per-window leftmost minima
of the permuted keys with consecutive equal positions dropped (as the code does via
`prev_argcummin`), each paired with the k-mer at that position. -/
theorem C10_minimizer_select (w : Nat) (hw : 2 ≤ w) (p : Perm) (kmers : List Nat) (ord : List Int)
    (happly : p.apply kmers = .ok ord) (hlen : w ≤ kmers.length) (hmax : ∀ v ∈ ord, v < int64Max) :
    ∃ ps, minimizeAll ord w = .ok ps ∧ ps.map some = windowMinima ord w ∧
      minimizerSelect w p kmers = .ok ((dedupConsecutive ps).map fun i => (i, kmers[i]?.getD 0)) ∧
      ∀ i ∈ dedupConsecutive ps, kmers[i]? = some (kmers[i]?.getD 0) :=
  minimizerSelect_spec w hw p kmers ord happly hlen hmax

/-- `SyncmerSelector.select`: position `i` with k-mer `q` is selected iff the leftmost minimal
(permuted) s-mer inside the k-mer at `i` sits at one of the allowed (normalised) offsets.  Built on
`C10_minimizer`; keys must be below `INT64_MAX`. -/
theorem C10_syncmer_select (n k s : Nat) (hs : 2 ≤ s) (hsk : s < k) (p : Perm) (offsets : List Int)
    (offs : List Nat) (hoffs : syncOffsets (k - s + 1) offsets = .ok offs)
    (seq : List Nat) (hlen : k ≤ seq.length) (hn : ∀ c ∈ seq, c < n)
    (ord : List Int) (happly : p.apply (kmersSpec ⟨n, s, none⟩ seq) = .ok ord)
    (hmax : ∀ v ∈ ord, v < int64Max) :
    ∃ sel, syncmerSelect n k s p offsets seq = .ok sel ∧
      ∀ i q, (i, q) ∈ sel ↔ (kmersSpec ⟨n, k, none⟩ seq)[i]? = some q ∧
        ∃ m, leftmostArgmin ord i (k - s + 1) = some m ∧ ∃ o ∈ offs, (o : Int) = (m : Int) - (i : Int) :=
  syncmerSelect_spec n k s hs hsk p offsets offs hoffs seq hlen hn ord happly hmax

/-- **`CachedSyncmerSelector` = `SyncmerSelector`** on every input: once the cache (the boolean table
of `select_from_kmers` over all k-mer codes) has been built, looking k-mers up in it returns exactly
what the uncached selector computes, for every list of valid k-mer codes. -/
theorem C10_cached_syncmer_eq (n k s : Nat) (p : Perm) (offsets : List Int) (mask : List Bool)
    (hmask : cachedSyncmerMask n k s p offsets = .ok mask) (kmers : List Nat)
    (hk : ∀ q ∈ kmers, q < n ^ k) :
    cachedSyncmerFromKmers n k s p offsets kmers = syncmerFromKmers n k s p offsets kmers :=
  cached_eq n k s p offsets mask hmask kmers hk

/-- **`ScoreThresholdRule.similar_kmers`** (branch-and-bound search, modelled as the depth-first
recursion the `while pos != -1` loop performs): with any per-symbol bound `maxS` that dominates the
matrix rows — the pruning bound — the search returns exactly the symbol strings of length `k` over
the alphabet whose total substitution score with the query k-mer reaches the threshold; nothing is
pruned wrongly and nothing below the threshold is kept. -/
theorem C10_similar_kmers (n m : Nat) (mat : List Int) (maxS : Nat → Int) (thr : Int)
    (hb : ∀ x y, y < n → mat[x * m + y]?.getD 0 ≤ maxS x)
    (qs : List Nat) (hq : qs ≠ []) (ds : List Nat) :
    ds ∈ bbSearch n m mat maxS thr qs 0 ↔
      ds.length = qs.length ∧ (∀ d ∈ ds, d < n) ∧ pairScore m mat qs ds ≥ thr := by
  have := bbSearch_spec n m mat maxS thr hb qs 0 ds (fun h => absurd h hq)
  simpa using this

/-- the bound the code uses, `max_scores = np.max(matrix, axis=-1)` over the whole `m`-symbol matrix
row, is such a bound whenever the matrix alphabet extends the base alphabet (`n ≤ m`, the guard of
`similar_kmers`); the candidates run over the `n` base symbols only — a matrix over a larger alphabet
never contributes symbols outside the k-mer alphabet. -/
theorem C10_similar_kmers_rowmax (a : KAlph) (hk : 1 ≤ a.k) (mat : List Int) (hm : a.n ≤ matDim mat)
    (thr : Int) (q : Nat) (ds : List Nat) :
    ds ∈ bbSearch a.n (matDim mat) mat (rowMax (matDim mat) mat) thr (splitCode a.n a.k q) 0 ↔
      ds.length = a.k ∧ (∀ d ∈ ds, d < a.n) ∧
        pairScore (matDim mat) mat (splitCode a.n a.k q) ds ≥ thr := by
  have hne : splitCode a.n a.k q ≠ [] := by
    intro h
    have := splitCode_length a.n a.k q
    rw [h] at this; simp at this; omega
  rw [C10_similar_kmers a.n (matDim mat) mat _ thr
      (fun x y hy => rowMax_bound (matDim mat) mat x y (by omega)) _ hne, splitCode_length]

/-- **`select(sequence, alphabet_check)`** of the minimizer, min-code and (cached) syncmer selectors only
answers when the alphabet test passes (check switched off, or the selector's alphabet extends the
sequence's), and then it is `select_from_kmers` on `create_kmers(sequence)` — so the theorems about
`select_from_kmers` (`C10_minimizer_select`, `C10_mincode`) carry over to `select`. -/
theorem C10_select_sequence (a : KAlph) (w c : Nat) (p : Perm) (qa : QAlph) (chk : Bool) (seq : List Nat)
    (l : List (Nat × Nat)) :
    (minimizerSelectSeq a w p qa chk seq = .ok l →
      selectGuard a qa chk = true ∧ ∃ ks, createKmers a seq = .ok ks ∧ minimizerSelect w p ks = .ok l) ∧
    (mincodeSelectSeq a c p qa chk seq = .ok l →
      selectGuard a qa chk = true ∧ ∃ ks, createKmers a seq = .ok ks ∧ mincodeSelect a c p ks = .ok l) ∧
    (∀ s offsets cached, syncmerSelectSeq a.n a.k s p offsets cached qa chk seq = .ok l →
      selectGuard ⟨a.n, a.k, none⟩ qa chk = true) :=
  ⟨minimizerSelectSeq_ok a w p qa chk seq l, mincodeSelectSeq_ok a c p qa chk seq l,
   fun s offsets cached h => syncmerSelectSeq_ok a.n a.k s p offsets cached qa chk seq l h⟩

/-- `kmer in table` (direct table): true iff some stored entry has that k-mer. -/
theorem C10_contains (a : KAlph) (nb : Nat) (items : List Entry) (q : Nat) (hq : q < nb) :
    tableHas (canonTable a false nb items) q = .ok (items.any fun e => e.kmer == q) :=
  tableHas_canon a nb items q hq

/-- `split` and `encode`/`fuse` are inverse on valid k-mer codes: `split` yields `k` valid symbols
whose positional value is the code again. -/
theorem C10_split_encode (a : KAlph) (hn : 0 < a.n) (q : Nat) (hq : q < a.size) :
    ∃ ds, splitChecked a q = .ok ds ∧ encodeChecked a ds = .ok q ∧ ds.length = a.k ∧ ∀ d ∈ ds, d < a.n := by
  obtain ⟨h1, h2, h3⟩ := fuse_split a.n hn a.k q hq
  obtain ⟨ds, hs, he⟩ := encode_split a hn q hq
  have : ds = splitCode a.n a.k q := by
    have hq' : ¬ q ≥ a.size := by omega
    simp only [splitChecked, hq', if_false, Except.ok.injEq] at hs
    exact hs.symm
  subst this
  exact ⟨_, hs, he, h2, h3⟩

/-- Syncmer filter: index `i` is selected iff the relative position of its minimum s-mer is one of
the (normalised) offsets. -/
theorem C10_syncmer_filter (offs : List Nat) (rel : List Int) (i : Nat) :
    i ∈ filterSyncmer offs rel ↔ ∃ r, rel[i]? = some r ∧ ∃ o ∈ offs, (o : Int) = r := by
  unfold filterSyncmer
  simp only [List.mem_filterMap]
  constructor
  · rintro ⟨⟨i', r⟩, hm, hsel⟩
    rw [mem_zipIdx] at hm
    split at hsel
    · rename_i hany
      simp only [Option.some.injEq] at hsel; subst hsel
      simp only [List.any_eq_true, beq_iff_eq] at hany
      exact ⟨r, hm, hany⟩
    · simp at hsel
  · rintro ⟨r, hr, o, ho, heq⟩
    refine ⟨(i, r), (mem_zipIdx _ _ _).2 hr, ?_⟩
    have : (offs.any fun o => (o : Int) == r) = true := by
      simp only [List.any_eq_true, beq_iff_eq]; exact ⟨o, ho, heq⟩
    simp [this]

/-- **Min-code selection for any permutation** (none, `RandomPermutation`, `FrequencyPermutation`, a
custom table), the permutation taken as the function `p.fn` on k-mer codes: position `i` with k-mer
`q` is selected iff its permuted code `v = p.fn q` is below the threshold
`offset + range / compression`, evaluated in exact arithmetic (`(v - offset) * compression < range`,
which for `compression > 0` is the same as `v < offset + range / compression` over ℚ).
Remaining assumption (not proved, pinned by the `mincode-boundary` correspondence stream): the real
code compares against the float64 value of that threshold. -/
theorem C10_mincode (a : KAlph) (c : Nat) (hc : 1 ≤ c) (p : Perm) (kmers : List Nat) (ord : List Int)
    (hp : p.apply kmers = .ok ord) :
    ∃ l, mincodeSelect a c p kmers = .ok l ∧
      ∀ i q, (i, q) ∈ l ↔ kmers[i]? = some q ∧
        ∃ v, p.fn q = .ok v ∧ (v - p.offset) * (c : Int) < p.range a.size :=
  mincodeSelect_spec a c hc p kmers ord hp

/-- `permute` is the element-wise application of `p.fn`; `RandomPermutation` is the LCG with the
constants regenerated from `permutation.pyx`, reduced mod 2⁶⁴ and read as a signed 64-bit value, and
stays inside the `[min, max]` range the threshold is computed from. -/
theorem C10_permutation (p : Perm) (kmers : List Nat) (q : Nat) :
    p.apply kmers = mapMExcept p.fn kmers ∧
    (lcg q = if (Gen.C10.lcgA * q + Gen.C10.lcgC) % 2 ^ 64 < 2 ^ 63
        then (((Gen.C10.lcgA * q + Gen.C10.lcgC) % 2 ^ 64 : Nat) : Int)
        else (((Gen.C10.lcgA * q + Gen.C10.lcgC) % 2 ^ 64 : Nat) : Int) - 2 ^ 64) ∧
    Perm.offset .random ≤ lcg q ∧ lcg q - Perm.offset .random < Perm.range 0 .random :=
  ⟨perm_apply_eq p kmers, rfl, (lcg_range q).1, by
    have := lcg_range q
    simp only [Perm.offset, Perm.range]; omega⟩

/-- **Min-code with a fractional compression factor** `num/den ≥ 1` (the documented type is a float; the
integer case is `den = 1`, `mincodeSelect_eq_Q`): same statement with the exact threshold
`offset + range · den / num`. -/
theorem C10_mincode_fraction (a : KAlph) (num den : Nat) (hd : 0 < den) (hc : den ≤ num) (p : Perm)
    (kmers : List Nat) (ord : List Int) (hp : p.apply kmers = .ok ord) :
    ∃ l, mincodeSelectQ a num den p kmers = .ok l ∧
      ∀ i q, (i, q) ∈ l ↔ kmers[i]? = some q ∧
        ∃ v, p.fn q = .ok v ∧ (v - p.offset) * (num : Int) < p.range a.size * (den : Int) :=
  mincodeSelectQ_spec a num den hd hc p kmers ord hp

/-- the hypothesis `compression ≥ 1` is exactly where the constructor refuses. -/
theorem C10_mincode_rejects (a : KAlph) (num den : Nat) (p : Perm) (kmers : List Nat) (h : num < den) :
    mincodeSelectQ a num den p kmers = .error .valueError :=
  mincodeSelectQ_rejects a num den p kmers h

/-- reference ids: a constructor that would otherwise succeed is refused with `OverflowError` exactly
when some id does not fit `uint32` (negative or ≥ 2³²); otherwise the ids are stored unchanged. -/
theorem C10_refids_rejects (rs : List Int) (t : Table) :
    (guardRefIds rs (.ok t) = .ok t ↔ ∀ r ∈ rs, 0 ≤ r ∧ r < 2 ^ 32) ∧
    (guardRefIds rs (.ok t) = .error .overflowError ↔ ¬ ∀ r ∈ rs, 0 ≤ r ∧ r < 2 ^ 32) :=
  guardRefIds_iff rs t

/-- `ScoreThresholdRule`: the constructor accepts exactly int32 thresholds with a symmetric matrix, and
`similar_kmers` answers exactly for a matrix alphabet extending the base alphabet (`n ≤ m`, the
hypothesis of `C10_similar_kmers_rowmax`) and a valid k-mer code — with the branch-and-bound result. -/
theorem C10_rule_rejects (a : KAlph) (mat : List Int) (thr : Int) (q : Nat) :
    (ruleCtor mat thr = .ok () ↔
      (-(2 : Int) ^ 31 ≤ thr ∧ thr < (2 : Int) ^ 31) ∧ matSymmetric mat = true) ∧
    (∀ l, similarKmersChecked a mat thr q = .ok l →
      ruleCtor mat thr = .ok () ∧ a.n ≤ matDim mat ∧ q < a.size ∧ l = bbSim a mat thr q) :=
  ⟨ruleCtor_iff mat thr, fun l h => similarKmersChecked_ok a mat thr q l h⟩

/-- where the unbounded model coincides with the int64 arithmetic of the code: if the k-mer alphabet
has at most 2⁶³ symbols every k-mer code fits `int64`.  (Beyond that — DNA `k = 32` — the real
`create_kmers` wraps silently: known finding `C10/create_kmers/code-exceeds-int64`.) -/
theorem C10_kmer_codes_fit_int64 (a : KAlph) (seq : List Nat) (hwf : a.WF) (hlen : a.span ≤ seq.length)
    (hn : ∀ c ∈ seq, c < a.n) (hsz : a.size ≤ 2 ^ 63) : ∀ q ∈ kmersSpec a seq, q < 2 ^ 63 :=
  kmer_codes_fit a seq hwf hlen hn hsz

/-- **Defect**: `fuse` accepts a symbol code equal to the alphabet length (`>` instead of `>=`). -/
theorem C10_fuse_defect : fuseChecked ⟨4, 2, none⟩ [4, 0] = .ok 16 := by decide

/-! ## regenerated constants -/

/-- The constants the model hard-codes are the ones in the source (`EntrySize`, the header of two
32-bit words, the LCG, `MAX_INT_64`, lower bounds of `k` and `window`). -/
theorem C10_gen_constants :
    Gen.C10.entrySizeNoBuckets = 2 ∧ Gen.C10.entrySizeBuckets = 4 ∧ Gen.C10.headerWords = 2 ∧
    Gen.C10.allocHeaderWords = Gen.C10.headerWords ∧
    Gen.C10.lcgA = 0xd1342543de82ef95 ∧ Gen.C10.lcgC = 1 ∧ Gen.C10.maxInt64 = int64Max ∧
    Gen.C10.kMin = 2 ∧ Gen.C10.windowMin = 2 ∧ Gen.C10.lcgA % 2 = 1 := by
  decide

/-! ## regenerated structure of the source (tie 7)

Each theorem states that the logical code lines regenerated from the `.pyx` text on this run (`Gen.C10.*`: loop
domains, guards with their comparison operators, index expressions, formulas, order of steps, default values, exception
classes and the guard of every `raise`) equal the pinned lines the model was written against (`Expected.*`,
`Proofs/C10GenExpected.lean`; the map source function → model definition is in notes/C10.md "What is regenerated"). -/

theorem C10_gen_kmeralphabet :
    Gen.C10.kalInitSpacing = Expected.kalInitSpacing ∧
    Gen.C10.kalFuse = Expected.kalFuse ∧
    Gen.C10.kalSplit = Expected.kalSplit ∧
    Gen.C10.kalArrayLength = Expected.kalArrayLength ∧
    Gen.C10.kalCreate = Expected.kalCreate ∧
    Gen.C10.kalContinuous = Expected.kalContinuous ∧
    Gen.C10.kalSpaced = Expected.kalSpaced ∧
    Gen.C10.kalEq = Expected.kalEq ∧
    Gen.C10.kalLen = Expected.kalLen ∧
    Gen.C10.kalEncodeDecode = Expected.kalEncodeDecode ∧
    Gen.C10.kalDecode = Expected.kalDecode ∧
    Gen.C10.kalToArrayForm = Expected.kalToArrayForm :=
  ⟨rfl, rfl, rfl, rfl, rfl, rfl, rfl, rfl, rfl, rfl, rfl, rfl⟩

theorem C10_gen_tablebuild :
    Gen.C10.ktCinit = Expected.ktCinit ∧
    Gen.C10.bktCinit = Expected.bktCinit ∧
    Gen.C10.ktFromSequences = Expected.ktFromSequences ∧
    Gen.C10.bktFromSequences = Expected.bktFromSequences ∧
    Gen.C10.ktFromKmers = Expected.ktFromKmers ∧
    Gen.C10.bktFromKmers = Expected.bktFromKmers ∧
    Gen.C10.ktFromSelection = Expected.ktFromSelection ∧
    Gen.C10.bktFromSelection = Expected.bktFromSelection ∧
    Gen.C10.ktFromTables = Expected.ktFromTables ∧
    Gen.C10.bktFromTables = Expected.bktFromTables ∧
    Gen.C10.ktFromPositions = Expected.ktFromPositions ∧
    Gen.C10.ktCountKmers = Expected.ktCountKmers ∧
    Gen.C10.ktCountMasked = Expected.ktCountMasked ∧
    Gen.C10.bktCountKmers = Expected.bktCountKmers ∧
    Gen.C10.bktCountMasked = Expected.bktCountMasked ∧
    Gen.C10.ktAddKmers = Expected.ktAddKmers ∧
    Gen.C10.bktAddKmers = Expected.bktAddKmers ∧
    Gen.C10.ktAddSelection = Expected.ktAddSelection ∧
    Gen.C10.bktAddSelection = Expected.bktAddSelection ∧
    Gen.C10.countTableEntries = Expected.countTableEntries ∧
    Gen.C10.initCArrays = Expected.initCArrays ∧
    Gen.C10.appendEntries = Expected.appendEntries ∧
    Gen.C10.equalCArrays = Expected.equalCArrays ∧
    Gen.C10.pickleCArrays = Expected.pickleCArrays ∧
    Gen.C10.unpickleCArrays = Expected.unpickleCArrays ∧
    Gen.C10.computeRefIds = Expected.computeRefIds ∧
    Gen.C10.computeMasks = Expected.computeMasks ∧
    Gen.C10.computeAlphabet = Expected.computeAlphabet ∧
    Gen.C10.checkPositionShape = Expected.checkPositionShape ∧
    Gen.C10.checkSameAlphabet = Expected.checkSameAlphabet ∧
    Gen.C10.checkSameBuckets = Expected.checkSameBuckets :=
  ⟨rfl, rfl, rfl, rfl, rfl, rfl, rfl, rfl, rfl, rfl, rfl, rfl, rfl, rfl, rfl, rfl, rfl, rfl, rfl, rfl, rfl, rfl, rfl, rfl, rfl, rfl, rfl, rfl, rfl, rfl, rfl⟩

theorem C10_gen_tablequery :
    Gen.C10.ktMatch = Expected.ktMatch ∧
    Gen.C10.bktMatch = Expected.bktMatch ∧
    Gen.C10.ktMatchTable = Expected.ktMatchTable ∧
    Gen.C10.bktMatchTable = Expected.bktMatchTable ∧
    Gen.C10.ktMatchSelection = Expected.ktMatchSelection ∧
    Gen.C10.bktMatchSelection = Expected.bktMatchSelection ∧
    Gen.C10.ktCount = Expected.ktCount ∧
    Gen.C10.bktCount = Expected.bktCount ∧
    Gen.C10.ktGetKmers = Expected.ktGetKmers ∧
    Gen.C10.bktGetKmers = Expected.bktGetKmers ∧
    Gen.C10.ktGetItem = Expected.ktGetItem ∧
    Gen.C10.bktGetItem = Expected.bktGetItem ∧
    Gen.C10.ktContains = Expected.ktContains ∧
    Gen.C10.ktIter = Expected.ktIter ∧
    Gen.C10.ktReversed = Expected.ktReversed ∧
    Gen.C10.ktLen = Expected.ktLen ∧
    Gen.C10.ktEq = Expected.ktEq ∧
    Gen.C10.bktEq = Expected.bktEq ∧
    Gen.C10.ktState = Expected.ktState ∧
    Gen.C10.bktState = Expected.bktState ∧
    Gen.C10.toString = Expected.toString ∧
    Gen.C10.checkKmerBounds = Expected.checkKmerBounds ∧
    Gen.C10.checkMultipleKmerBounds = Expected.checkMultipleKmerBounds :=
  ⟨rfl, rfl, rfl, rfl, rfl, rfl, rfl, rfl, rfl, rfl, rfl, rfl, rfl, rfl, rfl, rfl, rfl, rfl, rfl, rfl, rfl, rfl, rfl⟩

theorem C10_gen_masks :
    Gen.C10.prepareMask = Expected.prepareMask ∧
    Gen.C10.toKmerMask = Expected.toKmerMask :=
  ⟨rfl, rfl⟩

theorem C10_gen_selector :
    Gen.C10.minimize = Expected.minimize ∧
    Gen.C10.forwardArgcummin = Expected.forwardArgcummin ∧
    Gen.C10.reverseArgcummin = Expected.reverseArgcummin ∧
    Gen.C10.minimizerInit = Expected.minimizerInit ∧
    Gen.C10.minimizerSelect = Expected.minimizerSelect ∧
    Gen.C10.minimizerFromKmers = Expected.minimizerFromKmers ∧
    Gen.C10.syncmerInit = Expected.syncmerInit ∧
    Gen.C10.syncmerSelect = Expected.syncmerSelect ∧
    Gen.C10.syncmerFromKmers = Expected.syncmerFromKmers ∧
    Gen.C10.syncmerFilter = Expected.syncmerFilter ∧
    Gen.C10.cachedInit = Expected.cachedInit ∧
    Gen.C10.cachedSelect = Expected.cachedSelect ∧
    Gen.C10.cachedFromKmers = Expected.cachedFromKmers ∧
    Gen.C10.mincodeInit = Expected.mincodeInit ∧
    Gen.C10.mincodeSelect = Expected.mincodeSelect ∧
    Gen.C10.mincodeFromKmers = Expected.mincodeFromKmers :=
  ⟨rfl, rfl, rfl, rfl, rfl, rfl, rfl, rfl, rfl, rfl, rfl, rfl, rfl, rfl, rfl, rfl⟩

theorem C10_gen_permutation :
    Gen.C10.randomMin = Expected.randomMin ∧
    Gen.C10.randomMax = Expected.randomMax ∧
    Gen.C10.randomPermute = Expected.randomPermute ∧
    Gen.C10.frequencyInit = Expected.frequencyInit ∧
    Gen.C10.frequencyMin = Expected.frequencyMin ∧
    Gen.C10.frequencyMax = Expected.frequencyMax ∧
    Gen.C10.frequencyFromTable = Expected.frequencyFromTable ∧
    Gen.C10.frequencyPermute = Expected.frequencyPermute ∧
    Gen.C10.invertMapping = Expected.invertMapping :=
  ⟨rfl, rfl, rfl, rfl, rfl, rfl, rfl, rfl, rfl⟩

theorem C10_gen_similarity :
    Gen.C10.ruleInit = Expected.ruleInit ∧
    Gen.C10.similarKmers = Expected.similarKmers :=
  ⟨rfl, rfl⟩

theorem C10_gen_defaults : Gen.C10.defaults = Expected.defaults ∧ Gen.C10.params = Expected.params :=
  ⟨rfl, rfl⟩

theorem C10_gen_error_paths : Gen.C10.errorPaths = Expected.errorPaths :=
  rfl

/-! ## non-vacuity -/

example : build (· % 3) 3 [⟨4, 0, 0⟩, ⟨7, 0, 1⟩, ⟨5, 1, 0⟩]
    = .ok [none, some ⟨2, [⟨4, 0, 0⟩, ⟨7, 0, 1⟩]⟩, some ⟨1, [⟨5, 1, 0⟩]⟩] := by decide
example : (matchKmers (canonTable ⟨2, 2, none⟩ true 3 [⟨1, 0, 0⟩, ⟨2, 0, 1⟩, ⟨1, 7, 4⟩]) [1, 3, 2] [true, true, false])
    = [(0, 0, 0), (0, 7, 4)] := by decide
example : mergeSlots 2 [canon (· % 2) 2 [⟨1, 0, 0⟩], canon (· % 2) 2 [⟨3, 1, 0⟩, ⟨2, 1, 1⟩]]
    = .ok (canon (· % 2) 2 [⟨1, 0, 0⟩, ⟨3, 1, 0⟩, ⟨2, 1, 1⟩]) := by decide
example : toKmerMask ⟨4, 2, none⟩ [false, true, false, false] = .ok [false, false, true] := by decide
example : minimizerSelect 3 .ident [3, 2, 1, 0, 1, 2, 3, 0] = .ok [(2, 1), (3, 0), (4, 1), (7, 0)] := by decide
example : windowMinima [3, 2, 1, 0, 1, 2, 3, 0] 3 = [some 2, some 3, some 3, some 3, some 4, some 7] := by decide
example : ∀ v ∈ ([3, 2, 1, 0, 1, 2, 3, 0] : List Int), v < int64Max := by decide
example : filterSyncmer [0, 2] [0, 1, 2, 0] = [0, 2, 3] := by decide
example : mincodeSelect ⟨2, 2, none⟩ 2 .ident [0, 1, 2, 3] = .ok [(0, 0), (1, 1)] := by decide
example : mincodeSelect ⟨3, 2, none⟩ 2 (.freq [5, 0, 0, 1, 0, 0, 0, 0, 2]) [0, 1, 3, 8] = .ok [(1, 1)] := by decide
example : mincodeSelect ⟨2, 2, none⟩ 2 .random [0, 1, 2, 3] = .ok [(1, 1), (2, 2)] := by decide
example : pickleRoundTrip (canonTable ⟨2, 2, none⟩ true 2 [⟨1, 0, 0⟩, ⟨2, 0, 1⟩, ⟨3, 5, 4⟩])
    = canonTable ⟨2, 2, none⟩ true 2 [⟨1, 0, 0⟩, ⟨2, 0, 1⟩, ⟨3, 5, 4⟩] := by decide

example : fromKmers ⟨2, 2, none⟩ (some 3) [(7, [1, 2, 1], some [true, false, true])]
    = .ok (canonTable ⟨2, 2, none⟩ true 3 [⟨1, 7, 0⟩, ⟨1, 7, 2⟩]) := by decide
example : (⟨4, 3, some [0, 1, 3]⟩ : KAlph).WF := ⟨by decide, fun sp h => by cases h; decide⟩
example : createKmers ⟨4, 3, none⟩ [0, 1, 2, 3] = .ok [6, 27] ∧ kmersSpec ⟨4, 3, none⟩ [0, 1, 2, 3] = [6, 27] := by decide
example : createKmers ⟨4, 3, some [0, 1, 3]⟩ [0, 1, 2, 3, 0] = .ok [7, 24] ∧
    kmersSpec ⟨4, 3, some [0, 1, 3]⟩ [0, 1, 2, 3, 0] = [7, 24] := by decide
example : fromSequences ⟨2, 2, none⟩ none [(0, [0, 1, 1], some [false, false, true]), (1, [1, 1], none)]
    = .ok (canonTable ⟨2, 2, none⟩ false 4 [⟨1, 0, 0⟩, ⟨3, 1, 0⟩]) := by decide
example : fromPositions ⟨2, 2, none⟩ [(2, [(0, 5), (1, 6)]), (0, []), (3, [(4, 4)])]
    = .ok (canonTable ⟨2, 2, none⟩ false 4 [⟨2, 0, 5⟩, ⟨2, 1, 6⟩, ⟨3, 4, 4⟩]) := by decide
example : matchTable (canonTable ⟨2, 2, none⟩ true 2 [⟨1, 0, 0⟩, ⟨3, 0, 1⟩]) (canonTable ⟨2, 2, none⟩ true 2 [⟨3, 9, 4⟩])
    = .ok [(9, 4, 0, 1)] := by decide
example : pickleRoundTrip (canonTable ⟨2, 2, none⟩ false 4 [⟨1, 0, 0⟩, ⟨2, 0, 1⟩, ⟨1, 5, 4⟩])
    = canonTable ⟨2, 2, none⟩ false 4 [⟨1, 0, 0⟩, ⟨2, 0, 1⟩, ⟨1, 5, 4⟩] := by decide

example : syncmerSelect 3 3 2 .ident [0] [0, 1, 2, 0, 1, 2, 2, 1, 0] = .ok [(0, 5), (1, 15), (3, 5), (4, 17)] := by decide
example : mkAlph 4 3 (some [3, 0, 1]) = .ok ⟨4, 3, some [0, 1, 3]⟩ := by decide
example : getKmers (canonTable ⟨2, 2, none⟩ true 2 [⟨3, 0, 0⟩, ⟨1, 0, 1⟩, ⟨3, 1, 0⟩]) = [1, 3] := by decide
example : countAll (canonTable ⟨2, 2, none⟩ false 4 [⟨3, 0, 0⟩, ⟨1, 0, 1⟩, ⟨3, 1, 0⟩]) = [0, 1, 0, 2] := by decide

example : matchKmersSim (scoreSim ⟨2, 2, none⟩ [1, 0, 0, 1] 1)
    (canonTable ⟨2, 2, none⟩ false 4 [⟨1, 0, 0⟩, ⟨2, 0, 1⟩, ⟨1, 0, 2⟩]) [1, 2] [false, true]
    = [(1, 0, 1)] := by decide
example : scoreSim ⟨2, 2, none⟩ [1, 0, 0, 1] 1 2 = [0, 2, 3] := by decide

example : cachedSyncmerMask 2 3 2 .ident [0] = .ok [true, true, true, true, false, false, false, true] := by decide
example : cachedSyncmerFromKmers 2 3 2 .ident [0] [5, 1, 7] = .ok [(1, 1), (2, 7)] := by decide
example : tableEq (canonTable ⟨2, 2, none⟩ true 2 [⟨1, 0, 0⟩]) (canonTable ⟨2, 2, none⟩ true 2 [⟨1, 0, 1⟩]) = false := by decide

example : bbSearch 2 2 [1, 0, 0, 1] (rowMax 2 [1, 0, 0, 1]) 1 [1, 0] 0 = [[0, 0], [1, 0], [1, 1]] := by decide
example : bbSim ⟨2, 2, none⟩ [1, 0, 5, 0, 1, 5, 5, 5, 5] 1 2 = [0, 2, 3] ∧ matDim [1, 0, 5, 0, 1, 5, 5, 5, 5] = 3 := by decide
example : bbSim ⟨2, 2, none⟩ [1, 0, 0, 1] 1 2 = [0, 2, 3] ∧ scoreSim ⟨2, 2, none⟩ [1, 0, 0, 1] 1 2 = [0, 2, 3] := by decide

example : kalphEq ⟨2, 2, none⟩ ⟨2, 2, some [0, 2]⟩ = false ∧ kalphEq ⟨2, 2, some [0, 2]⟩ ⟨2, 2, none⟩ = false := by decide
example : matchSeqQ (canonTable ⟨4, 2, none⟩ false 16 [⟨1, 0, 0⟩]) .foreign [0, 1, 2] none = .error .valueError ∧
    matchSeqQ (canonTable ⟨4, 2, none⟩ false 16 [⟨1, 0, 0⟩]) (.pre 3) [0, 1, 2] none = .ok [(0, 0, 0)] := by decide

example : minimizerSelectSeq ⟨2, 2, none⟩ 2 .ident .foreign true [0, 1, 1, 0] = .error .valueError ∧
    minimizerSelectSeq ⟨2, 2, none⟩ 2 .ident .foreign false [0, 1, 1, 0] = .ok [(0, 1), (2, 2)] := by decide
example : tableHas (canonTable ⟨2, 2, none⟩ false 4 [⟨1, 0, 0⟩]) 1 = .ok true ∧
    tableHas (canonTable ⟨2, 2, none⟩ false 4 [⟨1, 0, 0⟩]) 2 = .ok false := by decide
example : splitChecked ⟨4, 3, none⟩ 27 = .ok [1, 2, 3] ∧ encodeChecked ⟨4, 3, none⟩ [1, 2, 3] = .ok 27 := by decide

example : mincodeSelectQ ⟨2, 2, none⟩ 5 2 .ident [0, 1, 2, 3] = .ok [(0, 0), (1, 1)] ∧
    mincodeSelectQ ⟨2, 2, none⟩ 1 2 .ident [0, 1] = .error .valueError := by decide
example : guardRefIds [0, -1] (.ok (canonTable ⟨2, 2, none⟩ false 4 [])) = .error .overflowError ∧
    guardRefIds [4294967295] (.ok (canonTable ⟨2, 2, none⟩ false 4 [])) = .ok (canonTable ⟨2, 2, none⟩ false 4 []) := by
  decide
example : ruleCtor [1, 2, 3, 1] 1 = .error .valueError ∧ ruleCtor [1, 0, 0, 1] 2147483648 = .error .overflowError ∧
    similarKmersChecked ⟨3, 2, none⟩ [1, 0, 0, 1] 1 0 = .error .valueError := by decide

end BiotiteModel.C10

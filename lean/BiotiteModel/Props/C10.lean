import BiotiteModel.Proofs.C10
import BiotiteModel.Gen.C10
namespace BiotiteModel.C10

/-- **Defect.** `fuse` accepts a symbol code equal to the alphabet length. -/
theorem C10_fuse_defect : fuseChecked ⟨4, 2, none⟩ [4, 0] = .ok 16 := by decide

end BiotiteModel.C10

import BiotiteModel.Model.C08
import BiotiteModel.Proofs.C08
import BiotiteModel.Proofs.C08AffOpt
import BiotiteModel.Proofs.C08Semi
import BiotiteModel.Proofs.C08Prefix
import BiotiteModel.Proofs.C08Trace
import BiotiteModel.Proofs.C08Local
import BiotiteModel.Proofs.C08LookupLocal
import BiotiteModel.Proofs.C08TraceAff
import BiotiteModel.Proofs.C08AffAssemble
import BiotiteModel.Gen.C08
/-!
# C08 — property theorems (optimal pairwise alignment returns the true optimum)

`optLin / optSemi / optLocal` are the recurrences over prefix lengths (`Rec.val`, structural recursion);
`fillLin` is the table filled row by row like `_fill_align_table`; `optT` reads the reported score off the
table.  All theorems hold for every matrix (any sign, asymmetric), every sequence pair, no length bound;
`g ≤ 0` is needed only where stated.  Int32 = ℤ is the `NoOverflow` assumption of the correspondence.

Proved: linear gap penalties in all three modes (upper bound, attainment, table refinement, checker
soundness).  Partial (see notes/C08.md): the affine three-table recurrence is tied to the table
(`C08_table_aff`) and the checker establishes validity / honest score / `≤ optAff` per output, but
`optAff = max over non-abutting alignments` and the traceback theorems are not proved here.
-/
namespace BiotiteModel.C08

/-! ## Upper bounds: no valid alignment scores above the recurrence -/

/-- global: every end-to-end alignment scores at most `optLin`. -/
theorem C08_upper_lin (M : Mat) (g : Int) (a b : Seq) (aln : Aln) (h : ValidGlobal a b aln) :
    scoreLin M g a b aln ≤ optLin M g a b := by
  have := upper_gen _ _ (step_global M g a b) aln (0, 0) _ h
  rw [← scoreLin_eq_pos] at this
  simpa [optLin, Rec.val_zero, borderG, gapRun] using this

/-- semi-global (`terminal_penalty=False`): every end-to-end alignment scores at most `optSemi`. -/
theorem C08_upper_semi (M : Mat) (g : Int) (a b : Seq) (aln : Aln) (h : ValidGlobal a b aln) :
    scoreSemiPos M g a b (0, 0) aln ≤ optSemi M g a b := by
  have := upper_gen _ _ (step_semi M g a b) aln (0, 0) _ h
  rw [← scoreSemiPos_eq_pos] at this
  simpa [optSemi, Rec.val_zero, borderS] using this

theorem local_cell_le_opt (M : Mat) (g : Int) (a b : Seq) (i j : Nat) (hi : i ≤ a.length) (hj : j ≤ b.length) :
    (linRec .local M g a b).val i j ≤ optLocal M g a b := by
  apply listMax_ge_mem
  rw [List.mem_flatMap]
  exact ⟨i, List.mem_range.mpr (by omega), List.mem_map.mpr ⟨j, List.mem_range.mpr (by omega), rfl⟩⟩

/-- local: every contiguous alignment of any two substrings scores at most `optLocal` (needs `g ≤ 0`). -/
theorem C08_upper_local (M : Mat) (g : Int) (hg : g ≤ 0) (a b : Seq) (aln : Aln) (h : ValidLocal a b aln) :
    scoreLin M g a b aln ≤ optLocal M g a b := by
  obtain ⟨i0, j0, i1, j1, hw, hi, hj⟩ := h
  have h1 := upper_gen _ _ (step_local M g hg a b) aln (i0, j0) _ hw
  rw [← scoreLin_eq_pos] at h1
  have h2 := local_nonneg M g a b i0 j0
  have h3 := local_cell_le_opt M g a b i1 j1 hi hj
  simp only at h1
  omega

/-! ## Attainment: some valid alignment reaches the recurrence -/

theorem C08_attained_lin (M : Mat) (g : Int) (a b : Seq) :
    ∃ aln, ValidGlobal a b aln ∧ scoreLin M g a b aln = optLin M g a b := by
  have hcell : ∀ i j, ((fun p : Nat × Nat => p = (0, 0)) (i, j) ∧ (linRec .global M g a b).val i j = 0) ∨
      ∃ p c, stepPos p c = some (i, j) ∧
        (linRec .global M g a b).val i j = (linRec .global M g a b).val p.1 p.2 + costLin M g a b p c := by
    intro i j
    cases i with
    | zero =>
      cases j with
      | zero => left; simp [Rec.val_zero, borderG, gapRun]
      | succ j =>
        right; refine ⟨(0, j), .gapA j, by simp [stepPos], ?_⟩
        simp [Rec.val_zero, borderG, gapRun_succ, costLin, colScoreLin]
    | succ i =>
      cases j with
      | zero =>
        right; refine ⟨(i, 0), .gapB i, by simp [stepPos], ?_⟩
        cases i <;> simp [Rec.val_zero, Rec.val_succ_zero, borderG, gapRun_succ, costLin, colScoreLin]
      | succ j =>
        right
        rw [Rec.val_succ_succ, cellG]
        rcases max3_cases ((linRec .global M g a b).val i j + sub M a b i j)
          ((linRec .global M g a b).val (i + 1) j + g) ((linRec .global M g a b).val i (j + 1) + g) with h | h | h
        · exact ⟨(i, j), .both i j, by simp [stepPos], by simp [h, costLin, colScoreLin]⟩
        · exact ⟨(i + 1, j), .gapA j, by simp [stepPos], by simp [h, costLin, colScoreLin]⟩
        · exact ⟨(i, j + 1), .gapB i, by simp [stepPos], by simp [h, costLin, colScoreLin]⟩
  obtain ⟨p0, aln, hP, hw, hs⟩ := attained_gen ((linRec .global M g a b).val) (costLin M g a b)
    (fun p => p = (0, 0)) hcell _ a.length b.length rfl
  subst hP
  exact ⟨aln, hw, by rw [scoreLin_eq_pos M g a b aln (0, 0), hs]; rfl⟩

theorem C08_attained_semi (M : Mat) (g : Int) (a b : Seq) :
    ∃ aln, ValidGlobal a b aln ∧ scoreSemiPos M g a b (0, 0) aln = optSemi M g a b := by
  have hcell : ∀ i j, ((fun p : Nat × Nat => p = (0, 0)) (i, j) ∧ (linRec .semi M g a b).val i j = 0) ∨
      ∃ p c, stepPos p c = some (i, j) ∧
        (linRec .semi M g a b).val i j = (linRec .semi M g a b).val p.1 p.2 + costSemi M g a b p c := by
    intro i j
    cases i with
    | zero =>
      cases j with
      | zero => left; simp [Rec.val_zero, borderS]
      | succ j =>
        right; refine ⟨(0, j), .gapA j, by simp [stepPos], ?_⟩
        simp [Rec.val_zero, borderS, costSemi]
    | succ i =>
      cases j with
      | zero =>
        right; refine ⟨(i, 0), .gapB i, by simp [stepPos], ?_⟩
        cases i <;> simp [Rec.val_zero, Rec.val_succ_zero, borderS, costSemi]
      | succ j =>
        right
        rw [Rec.val_succ_succ, cellS]
        rcases max3_cases ((linRec .semi M g a b).val i j + sub M a b i j)
          ((linRec .semi M g a b).val (i + 1) j + (if i + 1 = a.length then 0 else g))
          ((linRec .semi M g a b).val i (j + 1) + (if j + 1 = b.length then 0 else g)) with h | h | h
        · exact ⟨(i, j), .both i j, by simp [stepPos], by simp [h, costSemi]⟩
        · exact ⟨(i + 1, j), .gapA j, by simp [stepPos], by simp [h, costSemi]⟩
        · exact ⟨(i, j + 1), .gapB i, by simp [stepPos], by simp [h, costSemi]⟩
  obtain ⟨p0, aln, hP, hw, hs⟩ := attained_gen ((linRec .semi M g a b).val) (costSemi M g a b)
    (fun p => p = (0, 0)) hcell _ a.length b.length rfl
  subst hP
  exact ⟨aln, hw, by rw [scoreSemiPos_eq_pos M g a b aln (0, 0), hs]; rfl⟩

theorem C08_attained_local (M : Mat) (g : Int) (a b : Seq) :
    ∃ aln, ValidLocal a b aln ∧ scoreLin M g a b aln = optLocal M g a b := by
  have hcell : ∀ i j, ((fun _ : Nat × Nat => True) (i, j) ∧ (linRec .local M g a b).val i j = 0) ∨
      ∃ p c, stepPos p c = some (i, j) ∧
        (linRec .local M g a b).val i j = (linRec .local M g a b).val p.1 p.2 + costLin M g a b p c := by
    intro i j
    cases i with
    | zero => left; simp [Rec.val_zero, borderL]
    | succ i =>
      cases j with
      | zero => left; simp [Rec.val_succ_zero, borderL]
      | succ j =>
        rw [Rec.val_succ_succ, cellL]
        by_cases hv : max3 ((linRec .local M g a b).val i j + sub M a b i j)
          ((linRec .local M g a b).val (i + 1) j + g) ((linRec .local M g a b).val i (j + 1) + g) ≤ 0
        · left; simp [hv]
        · right
          simp only [hv, if_false]
          rcases max3_cases ((linRec .local M g a b).val i j + sub M a b i j)
            ((linRec .local M g a b).val (i + 1) j + g) ((linRec .local M g a b).val i (j + 1) + g) with h | h | h
          · exact ⟨(i, j), .both i j, by simp [stepPos], by simp [h, costLin, colScoreLin]⟩
          · exact ⟨(i + 1, j), .gapA j, by simp [stepPos], by simp [h, costLin, colScoreLin]⟩
          · exact ⟨(i, j + 1), .gapB i, by simp [stepPos], by simp [h, costLin, colScoreLin]⟩
  rcases listMax_mem 0 ((List.range (a.length + 1)).flatMap fun i =>
      (List.range (b.length + 1)).map ((linRec .local M g a b).val i)) with h0 | hm
  · exact ⟨[], ⟨0, 0, 0, 0, rfl, Nat.zero_le _, Nat.zero_le _⟩, by simp [scoreLin, optLocal, h0]⟩
  · rw [List.mem_flatMap] at hm
    obtain ⟨i, hi, hm⟩ := hm
    rw [List.mem_map] at hm
    obtain ⟨j, hj, hv⟩ := hm
    obtain ⟨p0, aln, _, hw, hs⟩ := attained_gen ((linRec .local M g a b).val) (costLin M g a b)
      (fun _ => True) hcell _ i j rfl
    refine ⟨aln, ⟨p0.1, p0.2, i, j, hw, ?_, ?_⟩, ?_⟩
    · have := List.mem_range.mp hi; omega
    · have := List.mem_range.mp hj; omega
    · rw [scoreLin_eq_pos M g a b aln p0, hs, hv]; rfl

/-! ## Table refinement: the table `_fill_align_table` builds is the recurrence -/

/-- every cell of the row-by-row table equals the recurrence at the prefix lengths `(i, j)`. -/
theorem C08_table_lin (mode : Mode) (M : Mat) (g : Int) (a b : Seq) (i j : Nat)
    (hi : i ≤ a.length) (hj : j ≤ b.length) :
    ((fillLin mode M g a b)[i]?.bind (·[j]?)) = some ((linRec mode M g a b).val i j) :=
  Rec.table_get _ _ _ i j hi hj

/-- the score read off the table (last cell, or the table maximum for local) is the optimum. -/
theorem C08_reported_lin (mode : Mode) (M : Mat) (g : Int) (a b : Seq) :
    optLinT mode M g a b = opt mode M g a b := by
  cases mode with
  | global => simp [optLinT, opt, optLin, Rec.row_getLast]
  | semi => simp [optLinT, opt, optSemi, Rec.row_getLast]
  | «local» => simp [optLinT, opt, optLocal, fillLin, Rec.table_flatten]

/-- affine: the three tables filled row by row are the three-state recurrence (`none` = −∞). -/
theorem C08_table_aff (mode : Mode) (M : Mat) (go ge : Int) (a b : Seq) (i j : Nat)
    (hi : i ≤ a.length) (hj : j ≤ b.length) :
    ((fillAff mode M go ge a b)[i]?.bind (·[j]?)) = some ((affRec mode M go ge a b).val i j) :=
  Rec.table_get _ _ _ i j hi hj

theorem C08_reported_aff (mode : Mode) (M : Mat) (go ge : Int) (a b : Seq) :
    optAffT mode M go ge a b = optAff mode M go ge a b := by
  cases mode with
  | global => simp [optAffT, optAff, Rec.row_getLast]
  | semi => simp [optAffT, optAff, Rec.row_getLast]
  | «local» => simp [optAffT, optAff, fillAff, Rec.table_flatten]

/-- prefix form (global): cell `(i, j)` of the table `_fill_align_table` builds for `a`, `b` is the optimum of
the prefixes `a[:i]`, `b[:j]`.  (Semi-global cells in the last row/column and local cells are not prefix optima:
they are covered by `C08_table_lin`.) -/
theorem C08_table_lin_prefix (M : Mat) (g : Int) (a b : Seq) (i j : Nat) (hi : i ≤ a.length) (hj : j ≤ b.length) :
    ((fillLin .global M g a b)[i]?.bind (·[j]?)) = some (optLin M g (a.take i) (b.take j)) := by
  rw [C08_table_lin .global M g a b i j hi hj, table_lin_prefix M g a b i j hi hj]

/-- prefix form, affine global: the best of the three table cells `(i, j)` is the affine optimum of the prefixes. -/
theorem C08_table_aff_prefix (M : Mat) (go ge : Int) (a b : Seq) (i j : Nat) (hi : i ≤ a.length)
    (hj : j ≤ b.length) :
    ((fillAff .global M go ge a b)[i]?.bind (·[j]?)).map (fun c => c.best.getD 0)
      = some (optAff .global M go ge (a.take i) (b.take j)) := by
  rw [C08_table_aff .global M go ge a b i j hi hj, Option.map_some, table_aff_prefix M go ge a b i j hi hj]

/-! ## The checker run on every actual output -/

theorem validB_sound (mode : Mode) (a b : Seq) (aln : Aln) (h : validB mode a b aln = true) :
    Valid mode a b aln := by
  cases mode with
  | global => simpa [validB, Valid, ValidGlobal] using h
  | semi => simpa [validB, Valid, ValidGlobal] using h
  | «local» =>
    simp only [validB] at h
    split at h
    · rename_i i1 j1 hw
      simp only [Bool.and_eq_true, decide_eq_true_eq] at h
      exact ⟨_, _, i1, j1, hw, h.1, h.2⟩
    · simp at h

/-- Linear penalties: a trace the checker accepts is a valid alignment of the two inputs whose public score
(`align.score`) is the reported score, and the reported score is at most the optimum. -/
theorem C08_checker_sound_lin (a b : Seq) (M : Mat) (g : Int) (mode : Mode) (trace : List (Int × Int)) (sc : Int)
    (h : checkAlignment a b M (.lin g) mode trace sc = true) :
    ∃ aln, traceToAln trace = some aln ∧ Valid mode a b aln ∧ score mode (.lin g) M a b aln = sc ∧
      (mode = .semi → scoreSemiPos M g a b (0, 0) aln = sc) ∧ sc ≤ opt mode M g a b := by
  unfold checkAlignment at h
  split at h
  · rename_i aln ht
    refine ⟨aln, ht, ?_⟩
    simp only [checkAln, Bool.and_eq_true, decide_eq_true_eq] at h
    obtain ⟨⟨⟨hv, hs⟩, hp⟩, hu⟩ := h
    refine ⟨validB_sound _ _ _ _ hv, hs, ?_, ?_⟩
    · intro hm; subst hm; simpa using hp
    · rw [← C08_reported_lin]; exact hu
  · simp at h

/-- Corollary used by the correspondence: an accepted non-semi trace scores `scoreLin = sc`. -/
theorem C08_checker_score_lin (a b : Seq) (M : Mat) (g : Int) (mode : Mode) (hm : mode ≠ .semi) (aln : Aln) :
    score mode (.lin g) M a b aln = scoreLin M g a b aln := by
  cases mode with
  | global => exact scorePub_lin M g a b aln
  | semi => exact absurd rfl hm
  | «local» => exact scorePub_lin M g a b aln

/-! ## Affine gap penalties: the three-state recurrence is the optimum over non-abutting alignments -/


/-- affine, global: every end-to-end alignment without abutting gaps scores (public `align.score`) at most `optAff`. -/
theorem C08_upper_aff (M : Mat) (go ge : Int) (a b : Seq) (aln : Aln) (h : ValidGlobal a b aln) (hn : NoAbut aln) :
    score .global (.aff go ge) M a b aln ≤ optAff .global M go ge a b := by
  rw [score_aff_eq_pos .global (by decide) M go ge a b aln (0, 0)]
  have hn' : noAbutK .m aln = true := by rw [← noAbutB_eq]; exact hn
  obtain ⟨w, hw, hle⟩ := upper_genK (InvS (affRec .global M go ge a b)) _ (step_aff_global M go ge a b)
    aln (0, 0) _ .m 0 h hn' ⟨0, by simp [aff_border00, stateVal], Int.le_refl _⟩
  obtain ⟨v, hv, hwv⟩ := stateVal_le_best _ _ _ hw
  simp only [optAff, hv, Option.getD_some]
  omega

/-- affine, semi-global (positional form of `terminal_penalty=False`).  NOTE the class: `NoAbut` also forbids a
(penalised) gap run in one sequence directly followed or preceded by the FREE terminal gap run of the other
sequence — exactly the restriction `_fill_align_table_affine` has (no G1↔G2 transition, also in the free last
row / column).  Without `NoAbut` the bound is false: `C08_noabut_covers_free_terminal_gaps`. -/
theorem C08_upper_aff_semi (M : Mat) (go ge : Int) (a b : Seq) (aln : Aln) (h : ValidGlobal a b aln)
    (hn : NoAbut aln) :
    scoreAffSemiPos M go ge a b (0, 0) .m aln ≤ optAff .semi M go ge a b := by
  have hn' : noAbutK .m aln = true := by rw [← noAbutB_eq]; exact hn
  obtain ⟨w, hw, hle⟩ := upper_genK (InvS (affRec .semi M go ge a b)) _ (step_aff_semi M go ge a b)
    aln (0, 0) _ .m 0 h hn' ⟨0, by simp [aff_border00, stateVal], Int.le_refl _⟩
  obtain ⟨v, hv, hwv⟩ := stateVal_le_best _ _ _ hw
  simp only [optAff, hv, Option.getD_some, scoreAffSemiPos]
  omega

/-- affine, local: every contiguous non-abutting alignment of two substrings scores at most `optAff .local`. -/
theorem C08_upper_aff_local (M : Mat) (go ge : Int) (hgo : go ≤ 0) (hge : ge ≤ 0) (a b : Seq) (aln : Aln)
    (h : ValidLocal a b aln) (hn : NoAbut aln) :
    score .local (.aff go ge) M a b aln ≤ optAff .local M go ge a b := by
  obtain ⟨i0, j0, i1, j1, hw, hi, hj⟩ := h
  rw [score_aff_eq_pos .local (by decide) M go ge a b aln (i0, j0)]
  have hn' : noAbutK .m aln = true := by rw [← noAbutB_eq]; exact hn
  have h0 : InvL (affRec .local M go ge a b) (i0, j0) .m 0 := by
    unfold InvL invO
    split
    · rename_i w hv; exact aff_local_nonneg M go ge a b i0 j0 .m w hv
    · exact Int.le_refl _
  have := upper_genK (InvL (affRec .local M go ge a b)) _ (step_aff_local M go ge hgo hge a b)
    aln (i0, j0) _ .m 0 hw hn' h0
  unfold InvL invO at this
  split at this
  · rename_i w hv
    have := aff_local_state_le_opt M go ge hgo hge a b i1 j1 hi hj _ w hv
    omega
  · have := optAff_local_nonneg M go ge a b
    omega

theorem C08_attained_aff (M : Mat) (go ge : Int) (a b : Seq) :
    ∃ aln, ValidGlobal a b aln ∧ NoAbut aln ∧ score .global (.aff go ge) M a b aln = optAff .global M go ge a b := by
  obtain ⟨k, v, hk, hv⟩ := aff_has_real_global M go ge a b a.length b.length
  obtain ⟨bv, hb, _⟩ := stateVal_le_best _ _ _ hv
  obtain ⟨kb, hkb, hvb⟩ := best_cases _ _ hb
  have hR : RS (affRec .global M go ge a b) a.length b.length kb bv :=
    ⟨by rcases hkb with h | h | h <;> simp [h], hvb⟩
  obtain ⟨p0, aln, hP, hw, hna, _, hs⟩ := attained_genK (RS (affRec .global M go ge a b))
    (costAffK .global M go ge a b) (fun p => p = (0, 0)) (hcell_aff_global M go ge a b) _ _ _ kb bv rfl hR
  subst hP
  refine ⟨aln, hw, by unfold NoAbut; rw [noAbutB_eq]; exact hna, ?_⟩
  rw [score_aff_eq_pos .global (by decide) M go ge a b aln (0, 0), hs]
  simp [optAff, hb]

theorem C08_attained_aff_semi (M : Mat) (go ge : Int) (a b : Seq) :
    ∃ aln, ValidGlobal a b aln ∧ NoAbut aln ∧
      scoreAffSemiPos M go ge a b (0, 0) .m aln = optAff .semi M go ge a b := by
  obtain ⟨k, v, hk, hv⟩ := aff_has_real_semi M go ge a b a.length b.length
  obtain ⟨bv, hb, _⟩ := stateVal_le_best _ _ _ hv
  obtain ⟨kb, hkb, hvb⟩ := best_cases _ _ hb
  have hR : RS (affRec .semi M go ge a b) a.length b.length kb bv :=
    ⟨by rcases hkb with h | h | h <;> simp [h], hvb⟩
  obtain ⟨p0, aln, hP, hw, hna, _, hs⟩ := attained_genK (RS (affRec .semi M go ge a b))
    (costAffK .semi M go ge a b) (fun p => p = (0, 0)) (hcell_aff_semi M go ge a b) _ _ _ kb bv rfl hR
  subst hP
  refine ⟨aln, hw, by unfold NoAbut; rw [noAbutB_eq]; exact hna, ?_⟩
  simp [scoreAffSemiPos, hs, optAff, hb]

theorem C08_attained_aff_local (M : Mat) (go ge : Int) (a b : Seq) :
    ∃ aln, ValidLocal a b aln ∧ NoAbut aln ∧ score .local (.aff go ge) M a b aln = optAff .local M go ge a b := by
  have hempty : optAff .local M go ge a b = 0 →
      ∃ aln, ValidLocal a b aln ∧ NoAbut aln ∧ score .local (.aff go ge) M a b aln = optAff .local M go ge a b := by
    intro h0
    exact ⟨[], ⟨0, 0, 0, 0, rfl, Nat.zero_le _, Nat.zero_le _⟩, rfl, by rw [h0]; rfl⟩
  rcases listMax_mem 0 (((List.range (a.length + 1)).flatMap fun i =>
      (List.range (b.length + 1)).map ((affRec .local M go ge a b).val i)).filterMap (·.m)) with h0 | hm
  · exact hempty h0
  · rw [List.mem_filterMap] at hm
    obtain ⟨c, hc, hcm⟩ := hm
    rw [List.mem_flatMap] at hc
    obtain ⟨i, hi, hc⟩ := hc
    rw [List.mem_map] at hc
    obtain ⟨j, hj, hcv⟩ := hc
    subst hcv
    have hi' := List.mem_range.mp hi
    have hj' := List.mem_range.mp hj
    by_cases hb : 0 < i ∧ 0 < j
    · have hR : RL (affRec .local M go ge a b) i j .m (optAff .local M go ge a b) :=
        Or.inr ⟨hb.1, hb.2, by simp, hcm⟩
      obtain ⟨p0, aln, _, hw, hna, _, hs⟩ := attained_genK (RL (affRec .local M go ge a b))
        (costAffK .local M go ge a b) (fun _ => True) (hcell_aff_local M go ge a b) _ _ _ .m _ rfl hR
      refine ⟨aln, ⟨p0.1, p0.2, i, j, hw, by omega, by omega⟩, by unfold NoAbut; rw [noAbutB_eq]; exact hna, ?_⟩
      rw [score_aff_eq_pos .local (by decide) M go ge a b aln p0, hs]
    · have := aff_local_border_zero M go ge a b i j (by omega) .m _ hcm
      exact hempty this


/-- Affine penalties: a trace the checker accepts is a valid alignment without abutting gaps whose public score
(`align.score`) is the reported one, and the reported score is at most `optAff`, the optimum over all valid
non-abutting alignments (`C08_upper_aff*`, `C08_attained_aff*`). -/
theorem C08_checker_sound_aff (a b : Seq) (M : Mat) (go ge : Int) (mode : Mode)
    (trace : List (Int × Int)) (sc : Int)
    (h : checkAlignment a b M (.aff go ge) mode trace sc = true) :
    ∃ aln, traceToAln trace = some aln ∧ Valid mode a b aln ∧ NoAbut aln ∧
      score mode (.aff go ge) M a b aln = sc ∧ sc ≤ optAff mode M go ge a b := by
  unfold checkAlignment at h
  split at h
  · rename_i aln ht
    refine ⟨aln, ht, ?_⟩
    simp only [checkAln, Bool.and_eq_true, decide_eq_true_eq] at h
    obtain ⟨⟨⟨hv, hs⟩, hp⟩, hu⟩ := h
    refine ⟨validB_sound _ _ _ _ hv, ?_, hs, ?_⟩
    · cases mode <;> simpa [NoAbut] using hp
    · rw [← C08_reported_aff]; exact hu
  · simp at h

/-! ## The public score: `align.score(…, terminal_penalty=False)` is the positional form, and the optimality
theorems restated for the public `score mode gap` in every mode -/

/-- linear, semi-global: the statement-by-statement model of `align.score(aln, M, g, terminal_penalty=False)`
(slice between the `find_terminal_gaps` indices) equals the positional form on every end-to-end alignment. -/
theorem C08_scorePub_semi (M : Mat) (g : Int) (a b : Seq) (aln : Aln) (h : ValidGlobal a b aln) :
    score .semi (.lin g) M a b aln = scoreSemiPos M g a b (0, 0) aln :=
  scorePub_semi M g a b aln h

/-- affine, semi-global: same for `(gap_open, gap_ext)`. -/
theorem C08_scorePub_semi_aff (M : Mat) (go ge : Int) (a b : Seq) (aln : Aln) (h : ValidGlobal a b aln) :
    score .semi (.aff go ge) M a b aln = scoreAffSemiPos M go ge a b (0, 0) .m aln :=
  scorePub_semi_aff M go ge a b aln h

/-- Linear penalties, all modes, public score: no valid alignment scores above the optimum. -/
theorem C08_upper_pub_lin (mode : Mode) (M : Mat) (g : Int) (hg : g ≤ 0) (a b : Seq) (aln : Aln)
    (h : Valid mode a b aln) : score mode (.lin g) M a b aln ≤ opt mode M g a b := by
  cases mode with
  | global => rw [C08_checker_score_lin _ _ _ _ _ (by decide)]; exact C08_upper_lin M g a b aln h
  | semi => rw [C08_scorePub_semi M g a b aln h]; exact C08_upper_semi M g a b aln h
  | «local» => rw [C08_checker_score_lin _ _ _ _ _ (by decide)]; exact C08_upper_local M g hg a b aln h

/-- Linear penalties, all modes, public score: the optimum is attained by a valid alignment. -/
theorem C08_attained_pub_lin (mode : Mode) (M : Mat) (g : Int) (a b : Seq) :
    ∃ aln, Valid mode a b aln ∧ score mode (.lin g) M a b aln = opt mode M g a b := by
  cases mode with
  | global =>
    obtain ⟨aln, hv, hs⟩ := C08_attained_lin M g a b
    exact ⟨aln, hv, by rw [C08_checker_score_lin _ _ _ _ _ (by decide)]; exact hs⟩
  | semi =>
    obtain ⟨aln, hv, hs⟩ := C08_attained_semi M g a b
    exact ⟨aln, hv, by rw [C08_scorePub_semi M g a b aln hv]; exact hs⟩
  | «local» =>
    obtain ⟨aln, hv, hs⟩ := C08_attained_local M g a b
    exact ⟨aln, hv, by rw [C08_checker_score_lin _ _ _ _ _ (by decide)]; exact hs⟩

/-- Affine penalties, all modes, public score: no valid non-abutting alignment scores above `optAff`.
"Non-abutting" includes free terminal gaps (`terminal_penalty=False`): see `C08_noabut_covers_free_terminal_gaps`. -/
theorem C08_upper_pub_aff (mode : Mode) (M : Mat) (go ge : Int) (hgo : go ≤ 0) (hge : ge ≤ 0) (a b : Seq)
    (aln : Aln) (h : Valid mode a b aln) (hn : NoAbut aln) :
    score mode (.aff go ge) M a b aln ≤ optAff mode M go ge a b := by
  cases mode with
  | global => exact C08_upper_aff M go ge a b aln h hn
  | semi => rw [C08_scorePub_semi_aff M go ge a b aln h]; exact C08_upper_aff_semi M go ge a b aln h hn
  | «local» => exact C08_upper_aff_local M go ge hgo hge a b aln h hn

/-- Affine penalties, all modes, public score: `optAff` is attained by a valid non-abutting alignment. -/
theorem C08_attained_pub_aff (mode : Mode) (M : Mat) (go ge : Int) (a b : Seq) :
    ∃ aln, Valid mode a b aln ∧ NoAbut aln ∧ score mode (.aff go ge) M a b aln = optAff mode M go ge a b := by
  cases mode with
  | global => exact C08_attained_aff M go ge a b
  | semi =>
    obtain ⟨aln, hv, hn, hs⟩ := C08_attained_aff_semi M go ge a b
    exact ⟨aln, hv, hn, by rw [C08_scorePub_semi_aff M go ge a b aln hv]; exact hs⟩
  | «local» => exact C08_attained_aff_local M go ge a b

/-- everything `checkAll` accepts: each trace as above, non-empty traces pairwise distinct, at most `max_number`. -/
theorem C08_checkAll_sound (a b : Seq) (M : Mat) (gap : Gap) (mode : Mode) (mx : Nat)
    (traces : List (List (Int × Int))) (sc : Int) (h : checkAll a b M gap mode mx traces sc = true) :
    (∀ t ∈ traces, checkAlignment a b M gap mode t sc = true) ∧ distinctNonEmpty traces = true ∧
      traces.length ≤ mx := by
  simp only [checkAll, Bool.and_eq_true, decide_eq_true_eq, List.all_eq_true] at h
  exact ⟨h.1.1, h.1.2, h.2⟩

/-! ## Traceback on the model (linear penalties): `get_trace_linear` bits + `follow_trace` -/

/-- global / semi-global: every trace `followLin` yields from the filled table is an end-to-end alignment whose
public score is the optimum. -/
theorem C08_traces_valid (mode : Mode) (hm : mode ≠ .local) (M : Mat) (g : Int) (a b : Seq) (mx : Nat) (aln : Aln)
    (h : aln ∈ tracesLin mode M g a b (linRec mode M g a b).val mx) :
    Valid mode a b aln ∧ score mode (.lin g) M a b aln = opt mode M g a b := by
  have hmem := List.mem_of_mem_take h
  obtain ⟨pre, p0, he, hw, hs, h0, _⟩ := followLin_good mode M g a b mx _ _ _ _ aln hmem
  have hp0 := dirs_nil_origin mode hm M g a b p0 h0
  subst hp0
  simp only [List.append_nil] at he
  subst he
  cases mode with
  | global =>
    refine ⟨hw, ?_⟩
    rw [C08_checker_score_lin _ _ _ _ _ (by decide), scoreLin_eq_pos M g a b aln (0, 0)]
    exact hs
  | semi =>
    refine ⟨hw, ?_⟩
    rw [C08_scorePub_semi M g a b aln hw, scoreSemiPos_eq_pos M g a b aln (0, 0)]
    exact hs
  | «local» => exact absurd rfl hm

/-- local: every trace followed from a start cell `p` of the table is a contiguous alignment ending at `p` whose
score is the value of `p` (`align_optimal` starts at the cells holding the table maximum `optLocal`). -/
theorem C08_traces_valid_local (M : Mat) (g : Int) (a b : Seq) (mx fuel c : Nat) (p : Nat × Nat)
    (hi : p.1 ≤ a.length) (hj : p.2 ≤ b.length) (aln : Aln)
    (h : aln ∈ (followLin (traceDirs .local M g a b (linRec .local M g a b).val) mx fuel p [] c).1) :
    ValidLocal a b aln ∧ score .local (.lin g) M a b aln = (linRec .local M g a b).val p.1 p.2 := by
  obtain ⟨pre, p0, he, hw, hs, _⟩ := followLin_good .local M g a b mx _ _ _ _ aln h
  simp only [List.append_nil] at he
  subst he
  refine ⟨⟨p0.1, p0.2, p.1, p.2, hw, hi, hj⟩, ?_⟩
  rw [C08_checker_score_lin _ _ _ _ _ (by decide), scoreLin_eq_pos M g a b aln p0]
  exact hs

/-- The traces `follow_trace` yields from one start cell are pairwise distinct (different branch choices at some
cell give different columns there), for any score table `V`. -/
theorem C08_traces_distinct_start (mode : Mode) (M : Mat) (g : Int) (a b : Seq) (V : Nat → Nat → Int)
    (mx fuel c : Nat) (p : Nat × Nat) (suffix : Aln) :
    (followLin (traceDirs mode M g a b V) mx fuel p suffix c).1.Nodup :=
  followLin_nodup _ (traceDirs_nodup mode M g a b V) mx fuel p suffix c

/-- global / semi-global: the returned alignments are pairwise distinct. -/
theorem C08_traces_distinct (mode : Mode) (M : Mat) (g : Int) (a b : Seq) (V : Nat → Nat → Int) (mx : Nat) :
    (tracesLin mode M g a b V mx).Nodup :=
  List.Nodup.sublist (List.take_sublist _ _) (C08_traces_distinct_start mode M g a b V mx _ 1 _ [])

/-- Local mode as one statement: the list assembled over every start cell (all cells holding the table maximum,
one `follow_trace` call each, truncated to `max_number`) consists of valid local alignments whose public score is
the optimum; it has at most `max_number` entries; its non-empty entries are pairwise distinct (`g ≤ 0`); and it is
not empty. -/
theorem C08_traces_local (M : Mat) (g : Int) (a b : Seq) (mx : Nat) :
    (∀ aln ∈ tracesLocalLin M g a b (linRec .local M g a b).val mx,
      ValidLocal a b aln ∧ score .local (.lin g) M a b aln = optLocal M g a b) ∧
    (tracesLocalLin M g a b (linRec .local M g a b).val mx).length ≤ mx ∧
    (g ≤ 0 → ((tracesLocalLin M g a b (linRec .local M g a b).val mx).filter (fun x => !x.isEmpty)).Nodup) ∧
    (1 ≤ mx → tracesLocalLin M g a b (linRec .local M g a b).val mx ≠ []) := by
  refine ⟨?_, List.length_take_le _ _, ?_, ?_⟩
  · intro aln h
    obtain ⟨p, hp, hx⟩ := List.mem_flatMap.mp (List.mem_of_mem_take h)
    obtain ⟨hi, hj, hv⟩ := localStarts_mem _ _ _ p hp
    obtain ⟨h1, h2⟩ := C08_traces_valid_local M g a b mx _ 1 p hi hj aln hx
    exact ⟨h1, by rw [h2, hv]; rfl⟩
  · intro hg
    apply List.Nodup.sublist (List.Sublist.filter _ (List.take_sublist _ _))
    apply flatMap_filter_nodup endKey _ _ (localStarts_nodup _ _ _)
    · intro p _
      exact C08_traces_distinct_start .local M g a b _ mx _ 1 p []
    · intro p _ x hx hne
      exact local_endKey M g hg a b mx _ 1 p x hx hne
  · intro hmx h
    rw [tracesLocalLin, List.take_eq_nil_iff] at h
    rcases h with h | h
    · omega
    · have hne := localStarts_ne_nil (linRec .local M g a b).val (local_nonneg M g a b) rfl a.length b.length
      cases hs : localStarts (linRec .local M g a b).val a.length b.length with
      | nil => exact hne hs
      | cons p ps =>
        rw [hs, List.flatMap_cons, List.append_eq_nil_iff] at h
        exact followLin_nonempty .local M g a b mx (p.1 + p.2 + 1) p [] 1 (by omega) h.1

/-- What the driver runs (`followLin` over a lookup into the filled table `fillLin`) is `followLin` over the
recurrence the traceback theorems speak about — global, semi-global and local. -/
theorem C08_traces_lookup (mode : Mode) (M : Mat) (g : Int) (a b : Seq) (mx : Nat) :
    tracesLin mode M g a b (tableLookup (fillLin mode M g a b)) mx
        = tracesLin mode M g a b (linRec mode M g a b).val mx ∧
    tracesLocalLin M g a b (tableLookup (fillLin .local M g a b)) mx
        = tracesLocalLin M g a b (linRec .local M g a b).val mx :=
  ⟨tracesLin_lookup mode M g a b mx, tracesLocalLin_lookup M g a b mx⟩

/-- `follow_trace` started with counter 1 returns at most `max_number` traces (before the final truncation). -/
theorem C08_traces_count (dirs : Nat × Nat → List Dir) (mx fuel : Nat) (hmx : 1 ≤ mx) (p : Nat × Nat) :
    (followLin dirs mx fuel p [] 1).1.length ≤ mx := by
  obtain ⟨h1, _, h3⟩ := followLin_count dirs mx fuel p [] 1
  have := h3 hmx
  omega

/-- the traceback returns at least one alignment (the fuel `n + m + 1` suffices). -/
theorem C08_traces_nonempty (mode : Mode) (M : Mat) (g : Int) (a b : Seq) (mx : Nat) (hmx : 1 ≤ mx) :
    tracesLin mode M g a b (linRec mode M g a b).val mx ≠ [] := by
  unfold tracesLin
  have := followLin_nonempty mode M g a b mx (a.length + b.length + 1) (a.length, b.length) [] 1 (by simp)
  intro h
  rw [List.take_eq_nil_iff] at h
  rcases h with h | h
  · omega
  · exact this h

/-- The abutting restriction of the property ("a gap in one sequence may not directly abut a gap in the other") is
load-bearing for `terminal_penalty=False` and covers FREE terminal gaps: an interior gap run that ends exactly
where the other sequence is exhausted abuts that sequence's free terminal gap run.  Such alignments are valid and
their public `align.score(…, terminal_penalty=False)` exceeds `optAff .semi` = what `align_optimal` reports
(and they are what `align_banded` returns, cropped; observation of the C09 worker).  Not a C08 violation — they are
outside the property's class — but the restriction is NOT the maximum over all end-to-end alignments:
1. minimal witness `12/10`: `[both 0 0, gapB 1, gapA 1]` scores 3, `optAff .semi` = 1 (the linear optimum with the
   same penalty is 3);
2. the C09 witness a=[1,2,2] b=[1,0,1,0,0] gap=(-1,-1): the banded result completed end-to-end scores 2, `optAff .semi` = 0. -/
theorem C08_noabut_covers_free_terminal_gaps :
    (ValidGlobal [1, 2] [1, 0] [.both 0 0, .gapB 1, .gapA 1] ∧ ¬ NoAbut [.both 0 0, .gapB 1, .gapA 1] ∧
      score .semi (.aff (-1) (-1)) (Mat.ofRows [[4, -3], [-3, 4], [-3, -3]]) [1, 2] [1, 0]
        [.both 0 0, .gapB 1, .gapA 1] = 3 ∧
      optAff .semi (Mat.ofRows [[4, -3], [-3, 4], [-3, -3]]) (-1) (-1) [1, 2] [1, 0] = 1 ∧
      opt .semi (Mat.ofRows [[4, -3], [-3, 4], [-3, -3]]) (-1) [1, 2] [1, 0] = 3) ∧
    (ValidGlobal [1, 2, 2] [1, 0, 1, 0, 0] [.gapA 0, .gapA 1, .both 0 2, .gapB 1, .gapB 2, .gapA 3, .gapA 4] ∧
      ¬ NoAbut [.gapA 0, .gapA 1, .both 0 2, .gapB 1, .gapB 2, .gapA 3, .gapA 4] ∧
      score .semi (.aff (-1) (-1)) (Mat.ofRows [[4, -3], [-3, 4], [-3, -3]]) [1, 2, 2] [1, 0, 1, 0, 0]
        [.gapA 0, .gapA 1, .both 0 2, .gapB 1, .gapB 2, .gapA 3, .gapA 4] = 2 ∧
      optAff .semi (Mat.ofRows [[4, -3], [-3, 4], [-3, -3]]) (-1) (-1) [1, 2, 2] [1, 0, 1, 0, 0] = 0) := by
  refine ⟨⟨by unfold ValidGlobal; decide, by unfold NoAbut; decide, by decide, by decide, by decide⟩,
    ⟨by unfold ValidGlobal; decide, by unfold NoAbut; decide, by decide, by decide⟩⟩

/-! ## Affine traceback on the model -/


/-- Affine traceback on the model (global / semi-global): every trace the three-state `follow_trace` model yields
from the filled tables is a valid alignment without abutting gaps whose public score is `optAff`. -/
theorem C08_traces_valid_aff (mode : Mode) (hm : mode ≠ .local) (M : Mat) (go ge : Int) (a b : Seq) (mx : Nat)
    (aln : Aln) (h : aln ∈ tracesAff mode M go ge a b (affRec mode M go ge a b).val mx) :
    Valid mode a b aln ∧ NoAbut aln ∧ score mode (.aff go ge) M a b aln = optAff mode M go ge a b := by
  obtain ⟨s, hs, hx⟩ := List.mem_flatMap.mp (List.mem_of_mem_take h)
  obtain ⟨hpos, hkn, v, hv, hbest⟩ := startsAff_mem mode hm _ _ _ s hs
  obtain ⟨p, k⟩ := s
  simp only at hpos hkn hv
  subst hpos
  cases mode with
  | «local» => exact absurd rfl hm
  | global =>
    have hvn : valN .global (affRec .global M go ge a b).val ((a.length, b.length), k) = some v := by
      rw [valN_nonlocal .global (by decide) _ _ _ hkn]; exact hv
    obtain ⟨pre, s0, he, hR0, hn0, hw, hsc, hna, _⟩ := followG_good
      (nextAff .global M go ge a b (affRec .global M go ge a b).val) (fun s => s.1) (fun s => s.2)
      (fun s => (valN .global (affRec .global M go ge a b).val s).getD 0)
      (RealN .global (affRec .global M go ge a b).val) (costAffK .global M go ge a b) mx
      (hnext_aff_global M go ge a b)
      (fun s hR hn => ⟨(hend_aff_global M go ge a b s hR hn).1, (hend_aff_global M go ge a b s hR hn).2.1⟩)
      _ _ _ _ ⟨v, hvn⟩ aln hx
    have h0 := (hend_aff_global M go ge a b s0 hR0 hn0).2.2
    simp only [List.append_nil] at he
    subst he
    simp only [h0] at hw hsc
    refine ⟨hw, by unfold NoAbut; rw [noAbutB_eq]; exact hna, ?_⟩
    rw [score_aff_eq_pos .global (by decide) M go ge a b aln (0, 0), hsc, hvn]
    simp [optAff, hbest]
  | semi =>
    have hvn : valN .semi (affRec .semi M go ge a b).val ((a.length, b.length), k) = some v := by
      rw [valN_nonlocal .semi (by decide) _ _ _ hkn]; exact hv
    obtain ⟨pre, s0, he, hR0, hn0, hw, hsc, hna, _⟩ := followG_good
      (nextAff .semi M go ge a b (affRec .semi M go ge a b).val) (fun s => s.1) (fun s => s.2)
      (fun s => (valN .semi (affRec .semi M go ge a b).val s).getD 0)
      (RealN .semi (affRec .semi M go ge a b).val) (costAffK .semi M go ge a b) mx
      (hnext_aff_semi M go ge a b)
      (fun s hR hn => ⟨(hend_aff_semi M go ge a b s hR hn).1, (hend_aff_semi M go ge a b s hR hn).2.1⟩)
      _ _ _ _ ⟨v, hvn⟩ aln hx
    have h0 := (hend_aff_semi M go ge a b s0 hR0 hn0).2.2
    simp only [List.append_nil] at he
    subst he
    simp only [h0] at hw hsc
    refine ⟨hw, by unfold NoAbut; rw [noAbutB_eq]; exact hna, ?_⟩
    rw [C08_scorePub_semi_aff M go ge a b aln hw]
    unfold scoreAffSemiPos
    rw [hsc, hvn]
    simp [optAff, hbest]

/-- affine `follow_trace` started with counter 1 returns at most `max_number` traces per start node. -/
theorem C08_traces_count_aff (mode : Mode) (M : Mat) (go ge : Int) (a b : Seq) (T : Nat → Nat → AffCell)
    (mx fuel : Nat) (hmx : 1 ≤ mx) (s : ANode) :
    (followG (nextAff mode M go ge a b T) mx fuel s [] 1).1.length ≤ mx ∧
    (tracesAff mode M go ge a b T mx).length ≤ mx := by
  obtain ⟨h1, _, h3⟩ := followG_count (nextAff mode M go ge a b T) mx fuel s [] 1
  have := h3 hmx
  exact ⟨by omega, List.length_take_le _ _⟩


/-! ## Affine traceback: local mode, distinctness, lookup; the headline statements -/


/-- Affine, local mode, assembled over all start cells (every cell whose match table holds the maximum): every
returned alignment is a valid local alignment without abutting gaps whose public score is `optAff .local`; at most
`max_number` are returned; the non-empty ones are pairwise distinct. -/
theorem C08_traces_local_aff (M : Mat) (go ge : Int) (a b : Seq) (mx : Nat) :
    (∀ aln ∈ tracesAff .local M go ge a b (affRec .local M go ge a b).val mx,
      ValidLocal a b aln ∧ NoAbut aln ∧ score .local (.aff go ge) M a b aln = optAff .local M go ge a b) ∧
    (tracesAff .local M go ge a b (affRec .local M go ge a b).val mx).length ≤ mx ∧
    ((tracesAff .local M go ge a b (affRec .local M go ge a b).val mx).filter (fun x => !x.isEmpty)).Nodup := by
  refine ⟨?_, List.length_take_le _ _, ?_⟩
  · intro aln h
    obtain ⟨s, hs, hx⟩ := List.mem_flatMap.mp (List.mem_of_mem_take h)
    obtain ⟨hk, hi, hj, hv⟩ := startsAff_local_mem M go ge a b s hs
    obtain ⟨p, k⟩ := s
    simp only at hk hi hj hv; subst hk
    obtain ⟨p0, hw, hna, hsc⟩ := followAff_local_good M go ge a b mx _ 1 p _ hv aln hx
    refine ⟨⟨p0.1, p0.2, p.1, p.2, hw, hi, hj⟩, by unfold NoAbut; rw [noAbutB_eq]; exact hna, ?_⟩
    rw [score_aff_eq_pos .local (by decide) M go ge a b aln p0, hsc]
  · apply List.Nodup.sublist (List.Sublist.filter _ (List.take_sublist _ _))
    apply flatMap_filter_nodup (fun x => (endKeyLast x, Kind.m)) _ _ (startsAff_nodup _ _ _ _)
    · intro s hs
      exact followAff_nodup .local M go ge a b mx _ 1 s [] (startsAff_real .local M go ge a b s hs)
    · intro s hs x hx hne
      obtain ⟨hk, p0, hw⟩ := followAff_lastKind .local M go ge a b mx _ 1 s (startsAff_real .local M go ge a b s hs) x hx
      obtain ⟨hm, _⟩ := startsAff_local_mem M go ge a b s hs
      have := endKeyLast_spec x p0 s.1 .m hw hne (by rw [hk, hm])
      obtain ⟨p, k⟩ := s
      simp only at hm this; subst hm; rw [this]

/-- Affine, global / semi-global: the returned alignments are pairwise distinct (different state paths through
the three tables spell different column lists: the state of a node is the kind of the column that enters it). -/
theorem C08_traces_distinct_aff (mode : Mode) (hm : mode ≠ .local) (M : Mat) (go ge : Int) (a b : Seq) (mx : Nat) :
    (tracesAff mode M go ge a b (affRec mode M go ge a b).val mx).Nodup := by
  apply List.Nodup.sublist (List.take_sublist _ _)
  apply flatMap_nodup_key (fun x => ((a.length, b.length), lastKind .m x)) _ _ (startsAff_nodup _ _ _ _)
  · intro s hs
    exact followAff_nodup mode M go ge a b mx _ 1 s [] (startsAff_real mode M go ge a b s hs)
  · intro s hs x hx
    obtain ⟨hk, _⟩ := followAff_lastKind mode M go ge a b mx _ 1 s (startsAff_real mode M go ge a b s hs) x hx
    obtain ⟨h1, _⟩ := startsAff_mem mode hm _ _ _ s hs
    obtain ⟨p, k⟩ := s
    simp only at h1 hk; subst h1; rw [hk]

/-- what the driver runs for affine penalties (`followG` over a lookup into `fillAff`) is the model over the
recurrence the theorems speak about. -/
theorem C08_traces_lookup_aff (mode : Mode) (M : Mat) (go ge : Int) (a b : Seq) (mx : Nat) :
    tracesAff mode M go ge a b (affLookup (fillAff mode M go ge a b)) mx =
      tracesAff mode M go ge a b (affRec mode M go ge a b).val mx :=
  tracesAff_lookup mode M go ge a b mx

/-! ## The property as one statement per gap kind -/

/-- LINEAR gap penalty `g ≤ 0`, any matrix, any two sequences, any mode, `max_number ≥ 1`.  For the model of
`align_optimal` (table fill, start selection, traceback, truncation): the reported score is the maximum of the
public `align.score` over all valid alignments of the mode (upper bound + attained), every returned alignment is
valid and scores it, the non-empty returned alignments are pairwise distinct, at most `max_number` are returned, and
at least one is. -/
theorem C08_align_optimal_lin (mode : Mode) (M : Mat) (g : Int) (hg : g ≤ 0) (a b : Seq) (mx : Nat) (hmx : 1 ≤ mx) :
    (∀ aln, Valid mode a b aln → score mode (.lin g) M a b aln ≤ (alignOptimalModel mode (.lin g) M a b mx).1) ∧
    (∃ aln, Valid mode a b aln ∧ score mode (.lin g) M a b aln = (alignOptimalModel mode (.lin g) M a b mx).1) ∧
    (∀ t ∈ (alignOptimalModel mode (.lin g) M a b mx).2,
      Valid mode a b t ∧ score mode (.lin g) M a b t = (alignOptimalModel mode (.lin g) M a b mx).1) ∧
    (((alignOptimalModel mode (.lin g) M a b mx).2).filter (fun x => !x.isEmpty)).Nodup ∧
    (alignOptimalModel mode (.lin g) M a b mx).2.length ≤ mx ∧
    (alignOptimalModel mode (.lin g) M a b mx).2 ≠ [] := by
  have hsc : (alignOptimalModel mode (.lin g) M a b mx).1 = opt mode M g a b := C08_reported_lin mode M g a b
  rw [hsc]
  refine ⟨fun aln h => C08_upper_pub_lin mode M g hg a b aln h, C08_attained_pub_lin mode M g a b, ?_⟩
  cases mode with
  | global =>
    have e : (alignOptimalModel .global (.lin g) M a b mx).2 = tracesLin .global M g a b (linRec .global M g a b).val mx :=
      (C08_traces_lookup .global M g a b mx).1
    rw [e]
    exact ⟨fun t ht => C08_traces_valid .global (by decide) M g a b mx t ht,
      List.Nodup.sublist List.filter_sublist (C08_traces_distinct .global M g a b _ mx),
      List.length_take_le _ _, C08_traces_nonempty .global M g a b mx hmx⟩
  | semi =>
    have e : (alignOptimalModel .semi (.lin g) M a b mx).2 = tracesLin .semi M g a b (linRec .semi M g a b).val mx :=
      (C08_traces_lookup .semi M g a b mx).1
    rw [e]
    exact ⟨fun t ht => C08_traces_valid .semi (by decide) M g a b mx t ht,
      List.Nodup.sublist List.filter_sublist (C08_traces_distinct .semi M g a b _ mx),
      List.length_take_le _ _, C08_traces_nonempty .semi M g a b mx hmx⟩
  | «local» =>
    have e : (alignOptimalModel .local (.lin g) M a b mx).2 = tracesLocalLin M g a b (linRec .local M g a b).val mx :=
      (C08_traces_lookup .local M g a b mx).2
    rw [e]
    obtain ⟨h1, h2, h3, h4⟩ := C08_traces_local M g a b mx
    exact ⟨h1, h3 hg, h2, h4 hmx⟩

/-- AFFINE gap penalty `open ≤ 0`, `ext ≤ 0` (incl. `open < ext` and zeros), any matrix, any two sequences, any
mode.  For the model of `align_optimal`: the reported score is the maximum of the public `align.score` over all valid
alignments of the mode in which a gap in one sequence never directly abuts a gap in the other (free terminal gaps
included), every returned alignment is such an alignment and scores it, the non-empty returned alignments are
pairwise distinct and at most `max_number` are returned. -/
theorem C08_align_optimal_aff (mode : Mode) (M : Mat) (go ge : Int) (hgo : go ≤ 0) (hge : ge ≤ 0) (a b : Seq)
    (mx : Nat) :
    (∀ aln, Valid mode a b aln → NoAbut aln →
      score mode (.aff go ge) M a b aln ≤ (alignOptimalModel mode (.aff go ge) M a b mx).1) ∧
    (∃ aln, Valid mode a b aln ∧ NoAbut aln ∧
      score mode (.aff go ge) M a b aln = (alignOptimalModel mode (.aff go ge) M a b mx).1) ∧
    (∀ t ∈ (alignOptimalModel mode (.aff go ge) M a b mx).2, Valid mode a b t ∧ NoAbut t ∧
      score mode (.aff go ge) M a b t = (alignOptimalModel mode (.aff go ge) M a b mx).1) ∧
    (((alignOptimalModel mode (.aff go ge) M a b mx).2).filter (fun x => !x.isEmpty)).Nodup ∧
    (alignOptimalModel mode (.aff go ge) M a b mx).2.length ≤ mx := by
  have hsc : (alignOptimalModel mode (.aff go ge) M a b mx).1 = optAff mode M go ge a b :=
    C08_reported_aff mode M go ge a b
  have e : (alignOptimalModel mode (.aff go ge) M a b mx).2 = tracesAff mode M go ge a b (affRec mode M go ge a b).val mx :=
    C08_traces_lookup_aff mode M go ge a b mx
  rw [hsc, e]
  refine ⟨fun aln h hn => C08_upper_pub_aff mode M go ge hgo hge a b aln h hn, C08_attained_pub_aff mode M go ge a b,
    ?_, ?_, List.length_take_le _ _⟩
  · cases mode with
    | global => exact fun t ht => C08_traces_valid_aff .global (by decide) M go ge a b mx t ht
    | semi => exact fun t ht => C08_traces_valid_aff .semi (by decide) M go ge a b mx t ht
    | «local» => exact (C08_traces_local_aff M go ge a b mx).1
  · cases mode with
    | global => exact List.Nodup.sublist List.filter_sublist (C08_traces_distinct_aff .global (by decide) M go ge a b mx)
    | semi => exact List.Nodup.sublist List.filter_sublist (C08_traces_distinct_aff .semi (by decide) M go ge a b mx)
    | «local» => exact (C08_traces_local_aff M go ge a b mx).2.2


/-! ## `align_ungapped` -/

theorem walk_diag (k n : Nat) : walk (k, k) (diagAln k n) = some (k + n, k + n) := by
  induction n generalizing k with
  | zero => rfl
  | succ n ih =>
    simp only [diagAln, walk, stepPos, and_self, if_true]
    rw [ih (k + 1)]
    congr 2 <;> omega

/-- The gap-free alignment `align_ungapped` returns for sequences of equal length is a valid global alignment,
its public score does not depend on the gap penalty, and it never exceeds what `align_optimal` reports. -/
theorem C08_ungapped (M : Mat) (g : Int) (a b : Seq) (h : a.length = b.length) :
    ValidGlobal a b (diagAln 0 a.length) ∧
    score .global (.lin g) M a b (diagAln 0 a.length) = score .global (.lin 0) M a b (diagAln 0 a.length) ∧
    score .global (.lin g) M a b (diagAln 0 a.length) ≤ opt .global M g a b := by
  have hv : ValidGlobal a b (diagAln 0 a.length) := by
    unfold ValidGlobal
    have := walk_diag 0 a.length
    simp only [Nat.zero_add] at this
    rw [this, h]
  refine ⟨hv, ?_, ?_⟩
  · rw [C08_checker_score_lin _ _ _ _ _ (by decide), C08_checker_score_lin _ _ _ _ _ (by decide)]
    have : ∀ k n, scoreLin M g a b (diagAln k n) = scoreLin M 0 a b (diagAln k n) := by
      intro k n
      induction n generalizing k with
      | zero => rfl
      | succ n ih => simp [diagAln, scoreLin, colScoreLin, ih]
    exact this 0 _
  · rw [C08_checker_score_lin _ _ _ _ _ (by decide)]
    exact C08_upper_lin M g a b _ hv



theorem startsAff_ne_nil (mode : Mode) (M : Mat) (go ge : Int) (a b : Seq) :
    startsAff mode (affRec mode M go ge a b).val a.length b.length ≠ [] := by
  have h3 : ∀ (c : AffCell) (k : Kind) (v : Int), (k = .m ∨ k = .ga ∨ k = .gb) → stateVal c k = some v →
      c.best = some v → (([(Kind.m, c.m), (Kind.ga, c.g1), (Kind.gb, c.g2)].filter
        fun x => x.2.isSome && x.2 == c.best).map fun x => ((a.length, b.length), x.1)) ≠ [] := by
    intro c k v hk hv hb hnil
    simp only [List.map_eq_nil_iff, List.filter_eq_nil_iff] at hnil
    rcases hk with rfl | rfl | rfl
    · exact absurd (hnil (Kind.m, c.m) (by simp)) (by simp [stateVal] at hv; simp [hv, hb])
    · exact absurd (hnil (Kind.ga, c.g1) (by simp)) (by simp [stateVal] at hv; simp [hv, hb])
    · exact absurd (hnil (Kind.gb, c.g2) (by simp)) (by simp [stateVal] at hv; simp [hv, hb])
  cases mode with
  | global =>
    obtain ⟨k, v, _, hv⟩ := aff_has_real_global M go ge a b a.length b.length
    obtain ⟨bv, hb, _⟩ := stateVal_le_best _ _ _ hv
    obtain ⟨kb, hkb, hvb⟩ := best_cases _ _ hb
    exact h3 _ kb bv hkb hvb hb
  | semi =>
    obtain ⟨k, v, _, hv⟩ := aff_has_real_semi M go ge a b a.length b.length
    obtain ⟨bv, hb, _⟩ := stateVal_le_best _ _ _ hv
    obtain ⟨kb, hkb, hvb⟩ := best_cases _ _ hb
    exact h3 _ kb bv hkb hvb hb
  | «local» =>
    intro hnil
    simp only [startsAff, List.map_eq_nil_iff, List.filter_eq_nil_iff] at hnil
    have hmem := listMax_mem 0 (((List.range (a.length + 1)).flatMap fun i =>
      (List.range (b.length + 1)).map fun j => (i, j)).filterMap
        fun p => ((affRec .local M go ge a b).val p.1 p.2).m)
    rcases hmem with h0 | hm
    · have := hnil (0, 0) (List.mem_flatMap.mpr ⟨0, List.mem_range.mpr (by omega),
        List.mem_map.mpr ⟨0, List.mem_range.mpr (by omega), rfl⟩⟩)
      simp [h0, aff_border00] at this
    · obtain ⟨p, hp, hv⟩ := List.mem_filterMap.mp hm
      have := hnil p hp
      simp [hv] at this

/-- the affine traceback returns at least one alignment -/
theorem C08_traces_nonempty_aff (mode : Mode) (M : Mat) (go ge : Int) (a b : Seq) (mx : Nat) (hmx : 1 ≤ mx) :
    tracesAff mode M go ge a b (affRec mode M go ge a b).val mx ≠ [] := by
  intro h
  rw [tracesAff, List.take_eq_nil_iff] at h
  rcases h with h | h
  · omega
  · have hne := startsAff_ne_nil mode M go ge a b
    cases hs : startsAff mode (affRec mode M go ge a b).val a.length b.length with
    | nil => exact hne hs
    | cons s ss =>
      rw [hs, List.flatMap_cons, List.append_eq_nil_iff] at h
      exact followG_nonempty (nextAff mode M go ge a b (affRec mode M go ge a b).val) mx
        (fun s : ANode => s.1.1 + s.1.2)
        (fun s d hd => (nextAff_shape mode M go ge a b _ s d hd).2.2) (s.1.1 + s.1.2 + 1) s [] 1 (by omega) h.1


/-- the model of `align_optimal` returns at least one alignment for an affine penalty as well (`max_number ≥ 1`);
with `C08_align_optimal_aff` this completes the affine headline statement. -/
theorem C08_align_optimal_aff_nonempty (mode : Mode) (M : Mat) (go ge : Int) (a b : Seq) (mx : Nat) (hmx : 1 ≤ mx) :
    (alignOptimalModel mode (.aff go ge) M a b mx).2 ≠ [] := by
  have e : (alignOptimalModel mode (.aff go ge) M a b mx).2 = tracesAff mode M go ge a b (affRec mode M go ge a b).val mx :=
    C08_traces_lookup_aff mode M go ge a b mx
  rw [e]
  exact C08_traces_nonempty_aff mode M go ge a b mx hmx

/-! ## Argument refusals (hypothesis audit): where `align_optimal` refuses, exactly -/

/-- `align_optimal` accepts its gap penalty / `max_number` arguments exactly when the penalties are non-positive
and fit a C int and `1 ≤ max_number < 2³¹`. -/
theorem C08_args_rejects (gap : Gap) (mx : Int) :
    argCheck gap mx = none ↔
      (gap.go ≤ 0 ∧ gap.ge ≤ 0 ∧ 1 ≤ mx ∧ -2147483648 ≤ gap.go ∧ -2147483648 ≤ gap.ge ∧ mx < 2147483648) := by
  unfold argCheck
  constructor
  · intro h
    split at h
    · simp at h
    · split at h
      · simp at h
      · split at h
        · simp at h
        · split at h
          · simp at h
          · omega
  · intro h
    have h1 : ¬(gap.go > 0 ∨ gap.ge > 0) := by omega
    have h2 : ¬(mx < 1) := by omega
    have h3 : ¬(gap.go < -2147483648 ∨ gap.ge < -2147483648) := by omega
    have h4 : ¬(mx ≥ 2147483648) := by omega
    simp [h1, h2, h3, h4]

/-- a positive penalty and `max_number = 0` are refused with ValueError -/
theorem C08_args_rejects_value :
    argCheck (.lin 1) 5 = some .valueError ∧ argCheck (.aff (-1) 1) 5 = some .valueError ∧
    argCheck (.lin (-1)) 0 = some .valueError := by decide

/-- Known finding (code as it is): `max_number ≥ 2³¹` is refused with OverflowError although the property quantifies
over all `max_number ≥ 1` (full-strength statement: `argCheck gap mx = none` for every `mx ≥ 1`). -/
theorem C08_max_number_defect : argCheck (.lin (-1)) 2147483648 = some .overflowError := by decide

/-- Known finding, as modelled: affine + not local + an empty sequence raises IndexError. -/
theorem C08_affine_empty_defect : raisesIndexError .global (.aff (-2) (-1)) [0, 0] [] = true := by decide

/-! ## Regenerated constants (tracetable.pxd): the trace bits are distinct single bits that fit the table dtype -/

def isPow2 (n : Nat) : Bool := n != 0 && (n &&& (n - 1)) == 0

theorem C08_gen_trace_bits :
    (Gen.C08.traceLinear.map (·.2)).all isPow2 = true ∧ (Gen.C08.traceLinear.map (·.2)).Nodup ∧
    (Gen.C08.traceAffine.map (·.2)).all isPow2 = true ∧ (Gen.C08.traceAffine.map (·.2)).Nodup ∧
    (Gen.C08.traceLinear ++ Gen.C08.traceAffine).all (fun x => x.2 < 2 ^ Gen.C08.traceTableBits) = true ∧
    (Gen.C08.traceState.map (·.2)).Nodup ∧ Gen.C08.traceLinear.length = 3 ∧ Gen.C08.traceAffine.length = 7 := by
  decide



/-! ## Regenerated logic: `get_trace_linear` / `get_trace_affine` transliterated from tracetable.pyx -/

/-- the candidates whose score attains the maximum, in the order `traceDirs` lists them -/
def candDirs (fd fl ft : Int) : List Dir :=
  (if fd = max3 fd fl ft then [Dir.diag] else []) ++ (if fl = max3 fd fl ft then [Dir.left] else [])
    ++ (if ft = max3 fd fl ft then [Dir.top] else [])

def bitL (n : String) : Nat := (Gen.C08.traceLinear.lookup n).getD 0
def bitA (n : String) : Nat := (Gen.C08.traceAffine.lookup n).getD 0

def dirBit : Dir → Nat
  | .diag => bitL "MATCH"
  | .left => bitL "GAP_LEFT"
  | .top => bitL "GAP_TOP"

/-- the interior case of the model's `traceDirs` is `candDirs` (below the local floor) -/
theorem traceDirs_interior (mode : Mode) (M : Mat) (g : Int) (a b : Seq) (V : Nat → Nat → Int) (i j : Nat) :
    traceDirs mode M g a b V (i + 1, j + 1) =
      if mode = .local ∧ max3 (V i j + sub M a b i j)
          (V (i + 1) j + (if mode = .semi ∧ i + 1 = a.length then 0 else g))
          (V i (j + 1) + (if mode = .semi ∧ j + 1 = b.length then 0 else g)) ≤ 0 then []
      else candDirs (V i j + sub M a b i j) (V (i + 1) j + (if mode = .semi ∧ i + 1 = a.length then 0 else g))
          (V i (j + 1) + (if mode = .semi ∧ j + 1 = b.length then 0 else g)) := rfl

/-- `get_trace_linear` as it stands in tracetable.pyx (regenerated `Gen.C08.getTraceLinear`), for ALL scores: the
maximum it writes is `max3` and the bits it sets are exactly the bits of the candidates that attain the maximum —
what `traceDirs` / `linRec` assume. -/
theorem C08_gen_get_trace_linear (fd fl ft : Int) :
    Gen.C08.getTraceLinear fd fl ft = (((candDirs fd fl ft).map dirBit).sum, max3 fd fl ft) := by
  have e1 : bitL "MATCH" = 1 := by decide
  have e2 : bitL "GAP_LEFT" = 2 := by decide
  have e3 : bitL "GAP_TOP" = 4 := by decide
  unfold Gen.C08.getTraceLinear candDirs max3
  repeat' split
  all_goals simp only [List.map_append, List.map_cons, List.map_nil, List.sum_append, List.sum_cons, List.sum_nil,
    dirBit, e1, e2, e3, List.nil_append, List.append_nil, Prod.mk.injEq]
  all_goals omega

/-- `get_trace_affine` (regenerated, three decision trees): each table's maximum is the maximum of its candidates
and exactly the transitions attaining it get their bit — what `affRec` (`omax`) and `nextAff` (`pickCands`) assume. -/
theorem C08_gen_get_trace_affine (mm g1m g2m mg1 g1g1 mg2 g2g2 : Int) :
    Gen.C08.getTraceAffineM mm g1m g2m mg1 g1g1 mg2 g2g2 =
      ((if mm = max3 mm g1m g2m then bitA "MATCH_TO_MATCH" else 0) + (if g1m = max3 mm g1m g2m then bitA "GAP_LEFT_TO_MATCH" else 0)
        + (if g2m = max3 mm g1m g2m then bitA "GAP_TOP_TO_MATCH" else 0), max3 mm g1m g2m) ∧
    Gen.C08.getTraceAffineG1 mm g1m g2m mg1 g1g1 mg2 g2g2 =
      ((if mg1 = max mg1 g1g1 then bitA "MATCH_TO_GAP_LEFT" else 0) + (if g1g1 = max mg1 g1g1 then bitA "GAP_LEFT_TO_GAP_LEFT" else 0),
        max mg1 g1g1) ∧
    Gen.C08.getTraceAffineG2 mm g1m g2m mg1 g1g1 mg2 g2g2 =
      ((if mg2 = max mg2 g2g2 then bitA "MATCH_TO_GAP_TOP" else 0) + (if g2g2 = max mg2 g2g2 then bitA "GAP_TOP_TO_GAP_TOP" else 0),
        max mg2 g2g2) ∧
    Gen.C08.getTraceAffineTargets = ["max_match_score[0]", "max_gap_left_score[0]", "max_gap_top_score[0]"] := by
  have b1 : bitA "MATCH_TO_MATCH" = 1 := by decide
  have b2 : bitA "GAP_LEFT_TO_MATCH" = 2 := by decide
  have b3 : bitA "GAP_TOP_TO_MATCH" = 4 := by decide
  have b4 : bitA "MATCH_TO_GAP_LEFT" = 8 := by decide
  have b5 : bitA "GAP_LEFT_TO_GAP_LEFT" = 16 := by decide
  have b6 : bitA "MATCH_TO_GAP_TOP" = 32 := by decide
  have b7 : bitA "GAP_TOP_TO_GAP_TOP" = 64 := by decide
  refine ⟨?_, ?_, ?_, rfl⟩
  · have hm : max3 mm g1m g2m ≥ mm ∧ max3 mm g1m g2m ≥ g1m ∧ max3 mm g1m g2m ≥ g2m ∧
        (max3 mm g1m g2m = mm ∨ max3 mm g1m g2m = g1m ∨ max3 mm g1m g2m = g2m) := by unfold max3; omega
    generalize max3 mm g1m g2m = mx at hm ⊢
    unfold Gen.C08.getTraceAffineM
    repeat' split
    all_goals simp only [b1, b2, b3, Prod.mk.injEq]
    all_goals first | omega | exact ⟨trivial, by omega⟩ | (exfalso; omega)
  · have hm : max mg1 g1g1 ≥ mg1 ∧ max mg1 g1g1 ≥ g1g1 ∧ (max mg1 g1g1 = mg1 ∨ max mg1 g1g1 = g1g1) := by omega
    generalize max mg1 g1g1 = mx at hm ⊢
    unfold Gen.C08.getTraceAffineG1
    repeat' split
    all_goals simp only [b4, b5, Prod.mk.injEq]
    all_goals first | omega | exact ⟨trivial, by omega⟩ | (exfalso; omega)
  · have hm : max mg2 g2g2 ≥ mg2 ∧ max mg2 g2g2 ≥ g2g2 ∧ (max mg2 g2g2 = mg2 ∨ max mg2 g2g2 = g2g2) := by omega
    generalize max mg2 g2g2 = mx at hm ⊢
    unfold Gen.C08.getTraceAffineG2
    repeat' split
    all_goals simp only [b6, b7, Prod.mk.injEq]
    all_goals first | omega | exact ⟨trivial, by omega⟩ | (exfalso; omega)

/-- the order in which `follow_trace` examines the bits is the order of the model's direction / candidate lists,
and the predecessor index names are those of the plain (non-banded) assignment `i-1, i, i-1 / j-1, j-1, j`. -/
theorem C08_gen_follow_order :
    Gen.C08.followLinDirs.map (·.1) = ["MATCH", "GAP_LEFT", "GAP_TOP"] ∧
    (candDirs 0 0 0) = [Dir.diag, Dir.left, Dir.top] ∧
    Gen.C08.followAffDirs.map (fun x => (x.1, x.2.2.2)) =
      [("MATCH_TO_MATCH", "MATCH_STATE"), ("GAP_LEFT_TO_MATCH", "GAP_LEFT_STATE"), ("GAP_TOP_TO_MATCH", "GAP_TOP_STATE"),
       ("MATCH_TO_GAP_LEFT", "MATCH_STATE"), ("GAP_LEFT_TO_GAP_LEFT", "GAP_LEFT_STATE"),
       ("MATCH_TO_GAP_TOP", "MATCH_STATE"), ("GAP_TOP_TO_GAP_TOP", "GAP_TOP_STATE")] ∧
    (Gen.C08.followPred.drop 2).take 2 = ["i_match, i_gap_left, i_gap_top = i-1, i, i-1",
                                            "j_match, j_gap_left, j_gap_top = j-1, j-1, j"] := by
  refine ⟨rfl, by decide, rfl, rfl⟩


/-! ## Regenerated facts of the source (pass 7): every literal / structural fact the hand-written model relies on.
A change of any of these lines in /repo breaks the corresponding obligation for every input at once. -/

/-- Default argument values of the public functions (the `defaults` oracle stream and the docs assume exactly these). -/
theorem C08_gen_defaults :
    Gen.C08.defaultsAlignOptimal = [("gap_penalty", "-10"), ("terminal_penalty", "True"), ("local", "False"), ("max_number", "1000")] ∧
    Gen.C08.defaultsAlignUngapped = [("score_only", "False")] ∧
    Gen.C08.defaultsScore = [("gap_penalty", "-10"), ("terminal_penalty", "True")] := by
  refine ⟨rfl, rfl, rfl⟩

/-- Argument checks of `align_optimal`: conditions, comparison operators, exception classes and their ORDER (alphabets, gap sign `> 0`, type, `max_number < 1`) — what `argCheck` / `C08_args_rejects` model; linear vs affine is decided by `type(...) == int / tuple`. -/
theorem C08_gen_arg_checks :
    Gen.C08.argChecks = [("not matrix.get_alphabet1().extends(seq1.get_alphabet()) or not matrix.get_alphabet2().extends(seq2.get_alphabet())", "ValueError"), ("gap_penalty > 0", "ValueError"), ("gap_penalty[0] > 0 or gap_penalty[1] > 0", "ValueError"), ("else", "TypeError"), ("max_number < 1", "ValueError")] ∧
    Gen.C08.gapKindTests = ["if type(gap_penalty) == int:", "elif type(gap_penalty) == tuple:"] := by
  refine ⟨rfl, rfl⟩

/-- Table allocation (shape `(len+1) × (len+1)`, int32 scores, uint8 trace), the pseudo −∞, and the first row / column initialisation that `linRec.border` / `affRec.border` and the border cases of `traceDirs` / `nextAff` mirror. -/
theorem C08_gen_tables :
    Gen.C08.alloc = ["trace_table = np.zeros(( len(seq1)+1, len(seq2)+1 ), dtype=np.uint8)", "m_table = np.zeros((len(seq1)+1, len(seq2)+1), dtype=np.int32)", "g1_table = np.full((len(seq1)+1, len(seq2)+1), neg_inf, dtype=np.int32)", "g2_table = np.full((len(seq1)+1, len(seq2)+1), neg_inf, dtype=np.int32)", "score_table = np.zeros(( len(seq1)+1, len(seq2)+1 ), dtype=np.int32)"] ∧
    Gen.C08.negInf = ["neg_inf = np.iinfo(np.int32).min - gap_open - gap_ext", "neg_inf -= min_score", "min_score = np.min(matrix.score_matrix())", "if min_score < 0:"] ∧
    Gen.C08.tableInit = ["m_table [0, 1:] = neg_inf", "m_table [1:, 0] = neg_inf", "g1_table[0, 1:] = (np.arange(len(seq2)) * gap_ext) + gap_open", "g2_table[1:, 0] = (np.arange(len(seq1)) * gap_ext) + gap_open", "g1_table[0, 1:] = np.zeros(len(seq2))", "g2_table[1:, 0] = np.zeros(len(seq1))", "trace_table[0, 1] = TraceDirectionAffine.MATCH_TO_GAP_LEFT", "trace_table[0, 2:] = TraceDirectionAffine.GAP_LEFT_TO_GAP_LEFT", "trace_table[1, 0] = TraceDirectionAffine.MATCH_TO_GAP_TOP", "trace_table[2: ,0] = TraceDirectionAffine.GAP_TOP_TO_GAP_TOP", "g1_table[0, 1:] = np.zeros(len(seq2))", "g2_table[1:, 0] = np.zeros(len(seq1))", "score_table[:,0] = np.arange(len(seq1)+1) * gap_penalty", "score_table[0,:] = np.arange(len(seq2)+1) * gap_penalty", "trace_table[1:,0] = TraceDirectionLinear.GAP_TOP", "trace_table[0,1:] = TraceDirectionLinear.GAP_LEFT", "g1_table[i_start,j_start],", "g2_table[i_start,j_start])"] := by
  refine ⟨rfl, rfl, rfl⟩

/-- `_fill_align_table`: loop domains `1 .. shape`, the three candidates with their table offsets (diag = (−1,−1), left = (0,−1), top = (−1,0): the argument order of `Rec.cell`), the free-terminal-gap conditions `i == i_max` / `j == j_max`, `local ⇒ term_penalty`, the local floor `score <= 0`. -/
theorem C08_gen_fill_lin :
    Gen.C08.fillLinLoops = [("i", "1", "score_table", "0"), ("j", "1", "score_table", "1")] ∧
    Gen.C08.fillLinMax = ["i_max = score_table.shape[0] -1", "j_max = score_table.shape[1] -1"] ∧
    Gen.C08.fillLinCands = [("from_diag", "score_table", (-1), (-1), "matrix[code1[i-1], code2[j-1]]", ""), ("from_left", "score_table", 0, (-1), "", "not term_penalty and i == i_max"), ("from_left", "score_table", 0, (-1), "gap_penalty", "else"), ("from_top", "score_table", (-1), 0, "", "not term_penalty and j == j_max"), ("from_top", "score_table", (-1), 0, "gap_penalty", "else")] ∧
    Gen.C08.fillLinFloor = ["if local:", "term_penalty = True", "if local == True and score <= 0:", "continue"] ∧
    Gen.C08.fillLinStore = ["trace = get_trace_linear(from_diag, from_left, from_top, &score)", "score_table[i,j] = score", "trace_table[i,j] = trace"] := by
  refine ⟨rfl, rfl, rfl, rfl, rfl⟩

/-- `_fill_align_table_affine`: the seven transitions with table, offsets and penalty (open from the match table, ext from the gap table, none when the terminal gap is free), the three local floors `<= 0` and the trace bits they clear. -/
theorem C08_gen_fill_aff :
    Gen.C08.fillAffLoops = [("i", "1", "trace_table", "0"), ("j", "1", "trace_table", "1")] ∧
    Gen.C08.fillAffMax = ["i_max = trace_table.shape[0] -1", "j_max = trace_table.shape[1] -1"] ∧
    Gen.C08.fillAffCands = [("mm_score", "m_table", (-1), (-1), "similarity_score", ""), ("g1m_score", "g1_table", (-1), (-1), "similarity_score", ""), ("g2m_score", "g2_table", (-1), (-1), "similarity_score", ""), ("mg1_score", "m_table", 0, (-1), "", "not term_penalty and i == i_max"), ("g1g1_score", "g1_table", 0, (-1), "", "not term_penalty and i == i_max"), ("mg1_score", "m_table", 0, (-1), "gap_open", "else"), ("g1g1_score", "g1_table", 0, (-1), "gap_ext", "else"), ("mg2_score", "m_table", (-1), 0, "", "not term_penalty and j == j_max"), ("g2g2_score", "g2_table", (-1), 0, "", "not term_penalty and j == j_max"), ("mg2_score", "m_table", (-1), 0, "gap_open", "else"), ("g2g2_score", "g2_table", (-1), 0, "gap_ext", "else")] ∧
    Gen.C08.fillAffSim = ["similarity_score = matrix[code1[i-1], code2[j-1]]"] ∧
    Gen.C08.fillAffFloors = [("m_score", "<=", "0", ["MATCH_TO_MATCH", "GAP_LEFT_TO_MATCH", "GAP_TOP_TO_MATCH"]), ("g1_score", "<=", "0", ["MATCH_TO_GAP_LEFT", "GAP_LEFT_TO_GAP_LEFT"]), ("g2_score", "<=", "0", ["MATCH_TO_GAP_TOP", "GAP_TOP_TO_GAP_TOP"])] ∧
    Gen.C08.fillAffStore = ["mm_score, g1m_score, g2m_score,", "mg1_score, g1g1_score,", "mg2_score, g2g2_score,", "&m_score, &g1_score, &g2_score", "m_table[i,j] = m_score", "g1_table[i,j] = g1_score", "g2_table[i,j] = g2_score", "m_table[i,j] = m_score", "g1_table[i,j] = g1_score", "g2_table[i,j] = g2_score", "trace_table[i,j] = trace"] := by
  refine ⟨rfl, rfl, rfl, rfl, rfl, rfl⟩

/-- Start selection and traceback bookkeeping: local = every cell with the table maximum (state 1 for affine), otherwise the last cell, affine states examined in the order M, G1, G2 with `== max_score`; counter starts at 1; `trace_list[:max_number]` (what `localStarts`, `startsAff`, `tracesLin/Aff` model). -/
theorem C08_gen_starts :
    Gen.C08.startSelection = ["state_list = np.zeros(0, dtype=int)", "max_score = np.max(m_table)", "i_list, j_list = np.where((m_table == max_score))", "state_list = np.append(state_list, np.full(len(i_list), 1))", "max_score = np.max(score_table)", "i_list, j_list = np.where((score_table == max_score))", "state_list = np.zeros(len(i_list), dtype=int)", "i_start = trace_table.shape[0] -1", "j_start = trace_table.shape[1] -1", "max_score = max(m_table[i_start,j_start],", "if m_table[i_start,j_start] == max_score:", "state_list = np.append(state_list, 1)", "if g1_table[i_start,j_start] == max_score:", "state_list = np.append(state_list, 2)", "if g2_table[i_start,j_start] == max_score:", "state_list = np.append(state_list, 3)", "state_list = np.append(state_list, 0)", "max_score = score_table[i_start,j_start]", "i_start = i_list[k]", "j_start = j_list[k]"] ∧
    Gen.C08.tracebackCalls = ["trace = np.full(( i_start+1 + j_start+1, 2 ), -1, dtype=np.int64)", "curr_trace_count = 1", "trace_table, False, i_start, j_start, 0, trace, trace_list,", "state=state_start, curr_trace_count=&curr_trace_count,", "max_trace_count=max_number,", "trace_list = trace_list[:max_number]"] := by
  refine ⟨rfl, rfl⟩

/-- `follow_trace`: predecessor cells, the ORDER in which trace bits are examined (linear MATCH, GAP_LEFT, GAP_TOP = `traceDirs` order; affine transitions = `nextAff` candidate order), first alternative continues, the others branch while `curr_trace_count[0] < max_trace_count`, bits examined per state. -/
theorem C08_gen_follow_trace :
    Gen.C08.followPred = ["i_match, i_gap_left, i_gap_top = i-1, i, i-1", "j_match, j_gap_left, j_gap_top = j , j-1, j+1", "i_match, i_gap_left, i_gap_top = i-1, i, i-1", "j_match, j_gap_left, j_gap_top = j-1, j-1, j", "i_match, i_gap_left, i_gap_top = i-1, i, i-1", "j_match, j_gap_left, j_gap_top = j , j-1, j+1", "i_match, i_gap_left, i_gap_top = i-1, i, i-1", "j_match, j_gap_left, j_gap_top = j-1, j-1, j"] ∧
    Gen.C08.followSeqIdx = ["seq_i = i - 1", "seq_j = j + seq_i + lower_diag - 1", "seq_i = i - 1", "seq_j = j - 1", "seq_i = i - 1", "seq_j = j + seq_i + lower_diag - 1", "seq_i = i - 1", "seq_j = j - 1"] ∧
    Gen.C08.followLinDirs = [("MATCH", "i_match", "j_match"), ("GAP_LEFT", "i_gap_left", "j_gap_left"), ("GAP_TOP", "i_gap_top", "j_gap_top")] ∧
    Gen.C08.followAffDirs = [("MATCH_TO_MATCH", "i_match", "j_match", "MATCH_STATE"), ("GAP_LEFT_TO_MATCH", "i_match", "j_match", "GAP_LEFT_STATE"), ("GAP_TOP_TO_MATCH", "i_match", "j_match", "GAP_TOP_STATE"), ("MATCH_TO_GAP_LEFT", "i_gap_left", "j_gap_left", "MATCH_STATE"), ("GAP_LEFT_TO_GAP_LEFT", "i_gap_left", "j_gap_left", "GAP_LEFT_STATE"), ("MATCH_TO_GAP_TOP", "i_gap_top", "j_gap_top", "MATCH_STATE"), ("GAP_TOP_TO_GAP_TOP", "i_gap_top", "j_gap_top", "GAP_TOP_STATE")] ∧
    Gen.C08.followBranch = ["while trace_table[i,j] != 0:", "trace[pos, 0] = seq_i", "trace[pos, 1] = seq_j", "pos += 1", "for k in range(1, len(next_indices)):", "if curr_trace_count[0] < max_trace_count:", "curr_trace_count[0] += 1", "new_i, new_j = next_indices[k]", "i, j = next_indices[0]", "trace[pos, 0] = seq_i", "trace[pos, 1] = seq_j", "pos += 1", "for k in range(1, len(next_indices)):", "if curr_trace_count[0] < max_trace_count:", "curr_trace_count[0] += 1", "new_i, new_j = next_indices[k]", "new_state = next_states[k]", "i, j = next_indices[0]", "state = next_states[0]"] ∧
    Gen.C08.followStateMasks = [["MATCH_TO_MATCH", "GAP_LEFT_TO_MATCH", "GAP_TOP_TO_MATCH"], ["MATCH_TO_GAP_LEFT", "GAP_LEFT_TO_GAP_LEFT"], ["MATCH_TO_GAP_TOP", "GAP_TOP_TO_GAP_TOP"]] := by
  refine ⟨rfl, rfl, rfl, rfl, rfl, rfl⟩

/-- `align.score`, `find_terminal_gaps`, `get_codes` (what `scorePub` mirrors statement by statement; alpha-normalised: locals `v0, v1, …` by first binding, private attributes `_a0, …`, messages dropped): pairs counted when both codes `!= -1`, first gap of a run costs `gap_open`, further ones `gap_ext`, slice `max(firsts) .. min(lasts)+1`. -/
theorem C08_gen_score :
    Gen.C08.scoreIfs = ["get_codes(alignment)[:, L0][L1] != -1 and get_codes(alignment)[:, L0][L2] != -1", "isinstance(gap_penalty, numbers.Real)", "isinstance(gap_penalty, Sequence)", "terminal_penalty", "L3[L4] == -1", "v3"] ∧
    Gen.C08.scoreAugAssign = [("v0", "Add", "matrix.score_matrix()[get_codes(alignment)[:, L0][L1], get_codes(alignment)[:, L0][L2]]"), ("v0", "Add", "v2"), ("v0", "Add", "v1")] ∧
    Gen.C08.scoreAssign = ["v0 = 0", "v1 = gap_penalty", "v2 = gap_penalty", "v1 = gap_penalty[0]", "v2 = gap_penalty[1]", "v3 = False", "v4 = 0", "v5 = len(L3)", "v4, v5 = find_terminal_gaps(alignment)", "v3 = True", "v3 = False", "L0 in range(get_codes(alignment).shape[1])", "L1 in range(get_codes(alignment).shape[0])", "L2 in range(L1 + 1, get_codes(alignment).shape[0])", "L3 in get_codes(alignment)", "L4 in range(v4, v5)"] ∧
    Gen.C08.scoreRaises = ["TypeError"] ∧
    Gen.C08.ftgReturn = ["(np.max([L2[0] if len(L2) > 0 else alignment.trace.shape[0] for L2 in [np.where(alignment.trace[:, L0] != -1)[0] for L0 in range(alignment.trace.shape[1])]]).item(), np.min([L3[-1] if len(L3) > 0 else -1 for L3 in [np.where(alignment.trace[:, L1] != -1)[0] for L1 in range(alignment.trace.shape[1])]]).item() + 1)"] ∧
    Gen.C08.ftgAssign = [] ∧
    Gen.C08.getCodesAssign = ["v0 = np.zeros((alignment.trace.shape[1], alignment.trace.shape[0]), dtype=np.int64)", "v0[L0] = np.int64(-1)", "v0[L0, alignment.trace[:, L0] != -1] = alignment.sequences[L0].code[alignment.trace[alignment.trace[:, L0] != -1, L0]]", "L0 in range(len(alignment.sequences))", "np.stack(v0)"] := by
  refine ⟨rfl, rfl, rfl, rfl, rfl, rfl, rfl⟩

/-- `SubstitutionMatrix`: int32 conversion, rejection of int32 min / max entries, dictionary fill over ALL ordered symbol pairs (no symmetry assumption), `dict_from_str` orientation. -/
theorem C08_gen_matrix :
    Gen.C08.matrixInitTests = ["isinstance(score_matrix, dict)", "isinstance(score_matrix, np.ndarray)", "score_matrix.shape != (len(alphabet1), len(alphabet2))", "not np.issubdtype(score_matrix.dtype, np.integer)", "np.any(self._a3 == np.iinfo(np.int32).max) or np.any(self._a3 == np.iinfo(np.int32).min)", "isinstance(score_matrix, str)"] ∧
    Gen.C08.matrixInitRaises = ["ValueError", "TypeError", "ValueError", "TypeError"] ∧
    Gen.C08.matrixAstype = ["self._a3 = score_matrix.astype(np.int32)"] ∧
    Gen.C08.matrixFillDict = ["self._a0 = np.zeros((len(self._a1), len(self._a2)), dtype=np.int32)", "self._a0[L0, L1] = int(p1[self._a1.decode(L0), self._a2.decode(L1)])", "L0 in range(len(self._a1))", "L1 in range(len(self._a2))"] ∧
    Gen.C08.matrixDictFromStr = ["v0 = [L0.strip() for L0 in string.split('\\n')]", "v0 = [L1 for L1 in v0 if len(L1) != 0 and L1[0] != '#']", "v1 = {}", "v1[[L3.split()[0] for L3 in v0[1:]][L7], [L5 for L5 in v0[0].split()][L8]] = np.array([L6.split()[1:] for L6 in v0[1:]]).astype(int)[L7, L8]", "L7 in range(len([L2.split()[0] for L2 in v0[1:]]))", "L8 in range(len([L4 for L4 in v0[0].split()]))", "v1"] := by
  refine ⟨rfl, rfl, rfl, rfl, rfl⟩

/-! ## Non-vacuity -/

/-- `A C` / `- C` : a valid global alignment; the hypotheses of the upper bounds are satisfiable. -/
example : ValidGlobal [0, 1] [1] [.gapB 0, .both 1 0] := by unfold ValidGlobal; decide
example : ValidLocal [0, 1, 2] [5, 1] [.both 1 1] := ⟨1, 1, 2, 2, by decide, by decide, by decide⟩
example : scoreLin (Mat.ofRows [[1, -1], [-1, 1]]) (-2) [0, 1] [1] [.gapB 0, .both 1 0] = -1 := by decide
example : optLin (Mat.ofRows [[1, -1], [-1, 1]]) (-2) [0, 1] [1] = -1 := by decide
example : optSemi (Mat.ofRows [[1, -1], [-1, 1]]) (-2) [0, 1] [1] = 1 := by decide
example : optLocal (Mat.ofRows [[1, -1], [-1, 1]]) (-2) [0, 1] [1] = 1 := by decide
example : checkAlignment [0, 1] [1] (Mat.ofRows [[1, -1], [-1, 1]]) (.lin (-2)) .global [(0, -1), (1, 0)] (-1) = true := by
  decide
example : checkAlignment [0, 1] [1] (Mat.ofRows [[1, -1], [-1, 1]]) (.lin (-2)) .global [(0, 0), (1, -1)] (-3) = true := by
  decide
example : checkAlignment [0, 1] [1] (Mat.ofRows [[1, -1], [-1, 1]]) (.lin (-2)) .global [(0, -1), (1, 0)] 0 = false := by
  decide
example : checkAlignment [0, 1] [1] (Mat.ofRows [[1, -1], [-1, 1]]) (.aff (-3) (-1)) .semi [(0, -1), (1, 0)] 1 = true := by
  decide
example : optAff .global (Mat.ofRows [[1, -1], [-1, 1]]) (-3) (-1) [0, 1] [1] = -2 := by decide
example : optAff .semi (Mat.ofRows [[1, -1], [-1, 1]]) (-3) (-1) [0, 1] [1] = 1 := by decide
example : optAff .local (Mat.ofRows [[1, -1], [-1, 1]]) (-3) (-1) [0, 1] [1] = 1 := by decide
/-- hypotheses of `C08_upper_aff` are satisfiable, and the bound is tight here -/
example : ValidGlobal [0, 1] [1] [.gapB 0, .both 1 0] ∧ NoAbut [.gapB 0, .both 1 0] ∧
    score .global (.aff (-3) (-1)) (Mat.ofRows [[1, -1], [-1, 1]]) [0, 1] [1] [.gapB 0, .both 1 0] = -2 := by
  refine ⟨by unfold ValidGlobal; decide, by unfold NoAbut; decide, by decide⟩
/-- abutting gaps are outside the affine domain -/
example : ¬ NoAbut [.gapB 0, .gapA 0] := by unfold NoAbut; decide
example : ((fillLin .global (Mat.ofRows [[1, -1], [-1, 1]]) (-2) [0, 1] [1, 0])[1]?.bind (·[2]?)) = some (-1) := by
  decide
example : optLin (Mat.ofRows [[1, -1], [-1, 1]]) (-2) ([0, 1].take 1) ([1, 0].take 2) = -1 := by decide
/-- the public semi-global score of a concrete alignment: terminal gap free, inner columns scored -/
example : score .semi (.lin (-2)) (Mat.ofRows [[1, -1], [-1, 1]]) [0, 1] [1] [.gapB 0, .both 1 0] = 1 := by decide
example : scoreSemiPos (Mat.ofRows [[1, -1], [-1, 1]]) (-2) [0, 1] [1] (0, 0) [.gapB 0, .both 1 0] = 1 := by decide
/-- two co-optimal traces of `AA` vs `A` with a zero gap penalty; `max_number = 1` keeps one -/
example : (tracesLin .global (Mat.ofRows [[1]]) 0 [0, 0] [0] (linRec .global (Mat.ofRows [[1]]) 0 [0, 0] [0]).val 5).length = 2 := by
  decide
example : (tracesLin .global (Mat.ofRows [[1]]) 0 [0, 0] [0] (linRec .global (Mat.ofRows [[1]]) 0 [0, 0] [0]).val 1).length = 1 := by
  decide
/-- local, nothing positive: four start cells, four empty alignments, `max_number` 3 keeps three -/
example : tracesLocalLin (Mat.ofRows [[-1]]) (-1) [0] [0] (linRec .local (Mat.ofRows [[-1]]) (-1) [0] [0]).val 3
    = [[], [], []] := by decide
example : tracesLocalLin (Mat.ofRows [[2]]) (-1) [0] [0] (linRec .local (Mat.ofRows [[2]]) (-1) [0] [0]).val 3
    = [[.both 0 0]] := by decide
/-- affine traceback model on a concrete input: one optimal trace, `A-`/`AC`-style -/
example : tracesAff .global (Mat.ofRows [[1, -1], [-1, 1]]) (-3) (-1) [0, 1] [1]
    (affRec .global (Mat.ofRows [[1, -1], [-1, 1]]) (-3) (-1) [0, 1] [1]).val 5 = [[.gapB 0, .both 1 0]] := by decide
/-- the whole model on concrete inputs: reported score and returned alignments -/
example : alignOptimalModel .global (.lin 0) (Mat.ofRows [[1]]) [0, 0] [0] 5
    = (1, [[.both 0 0, .gapB 1], [.gapB 0, .both 1 0]]) := by decide
example : alignOptimalModel .local (.aff (-3) (-1)) (Mat.ofRows [[1, -1], [-1, 1]]) [0, 1] [1] 5
    = (1, [[.both 1 0]]) := by decide
example : alignOptimalModel .semi (.aff (-3) (-1)) (Mat.ofRows [[1, -1], [-1, 1]]) [0, 1] [1] 5
    = (1, [[.gapB 0, .both 1 0]]) := by decide
example : diagAln 0 2 = [.both 0 0, .both 1 1] := by decide

end BiotiteModel.C08

import BiotiteModel.Model.C08
import BiotiteModel.Proofs.C08
import BiotiteModel.Gen.C08
/-!
# C08 — property theorems (optimal pairwise alignment returns the true optimum)

`optLin / optSemi / optLocal` are the recurrences over prefix lengths (`Rec.val`, structural recursion);
`fillLin` is the table filled row by row like `_fill_align_table`; `optT` reads the reported score off the
table.  All theorems hold for every matrix (any sign, asymmetric), every sequence pair, no length bound;
`g ≤ 0` is needed only where stated.  Int32 = ℤ is the `NoOverflow` assumption of the correspondence.

Proved: linear gap penalties in all three modes (upper bound, attainment, table refinement, checker
soundness).  Partial (see notes/C08.md): the affine three-table recurrence is tied to the table
(`C08_table_aff`) and the checker establishes validity / honest score / `≤ optAff` per output, but
`optAff = max over non-abutting alignments` and the traceback theorems are not proved here.
-/
namespace BiotiteModel.C08

/-! ## Upper bounds: no valid alignment scores above the recurrence -/

/-- global: every end-to-end alignment scores at most `optLin`. -/
theorem C08_upper_lin (M : Mat) (g : Int) (a b : Seq) (aln : Aln) (h : ValidGlobal a b aln) :
    scoreLin M g a b aln ≤ optLin M g a b := by
  have := upper_gen _ _ (step_global M g a b) aln (0, 0) _ h
  rw [← scoreLin_eq_pos] at this
  simpa [optLin, Rec.val_zero, borderG, gapRun] using this

/-- semi-global (`terminal_penalty=False`): every end-to-end alignment scores at most `optSemi`. -/
theorem C08_upper_semi (M : Mat) (g : Int) (a b : Seq) (aln : Aln) (h : ValidGlobal a b aln) :
    scoreSemiPos M g a b (0, 0) aln ≤ optSemi M g a b := by
  have := upper_gen _ _ (step_semi M g a b) aln (0, 0) _ h
  rw [← scoreSemiPos_eq_pos] at this
  simpa [optSemi, Rec.val_zero, borderS] using this

theorem local_cell_le_opt (M : Mat) (g : Int) (a b : Seq) (i j : Nat) (hi : i ≤ a.length) (hj : j ≤ b.length) :
    (linRec .local M g a b).val i j ≤ optLocal M g a b := by
  apply listMax_ge_mem
  rw [List.mem_flatMap]
  exact ⟨i, List.mem_range.mpr (by omega), List.mem_map.mpr ⟨j, List.mem_range.mpr (by omega), rfl⟩⟩

/-- local: every contiguous alignment of any two substrings scores at most `optLocal` (needs `g ≤ 0`). -/
theorem C08_upper_local (M : Mat) (g : Int) (hg : g ≤ 0) (a b : Seq) (aln : Aln) (h : ValidLocal a b aln) :
    scoreLin M g a b aln ≤ optLocal M g a b := by
  obtain ⟨i0, j0, i1, j1, hw, hi, hj⟩ := h
  have h1 := upper_gen _ _ (step_local M g hg a b) aln (i0, j0) _ hw
  rw [← scoreLin_eq_pos] at h1
  have h2 := local_nonneg M g a b i0 j0
  have h3 := local_cell_le_opt M g a b i1 j1 hi hj
  simp only at h1
  omega

/-! ## Attainment: some valid alignment reaches the recurrence -/

theorem C08_attained_lin (M : Mat) (g : Int) (a b : Seq) :
    ∃ aln, ValidGlobal a b aln ∧ scoreLin M g a b aln = optLin M g a b := by
  have hcell : ∀ i j, ((fun p : Nat × Nat => p = (0, 0)) (i, j) ∧ (linRec .global M g a b).val i j = 0) ∨
      ∃ p c, stepPos p c = some (i, j) ∧
        (linRec .global M g a b).val i j = (linRec .global M g a b).val p.1 p.2 + costLin M g a b p c := by
    intro i j
    cases i with
    | zero =>
      cases j with
      | zero => left; simp [Rec.val_zero, borderG, gapRun]
      | succ j =>
        right; refine ⟨(0, j), .gapA j, by simp [stepPos], ?_⟩
        simp [Rec.val_zero, borderG, gapRun_succ, costLin, colScoreLin]
    | succ i =>
      cases j with
      | zero =>
        right; refine ⟨(i, 0), .gapB i, by simp [stepPos], ?_⟩
        cases i <;> simp [Rec.val_zero, Rec.val_succ_zero, borderG, gapRun_succ, costLin, colScoreLin]
      | succ j =>
        right
        rw [Rec.val_succ_succ, cellG]
        rcases max3_cases ((linRec .global M g a b).val i j + sub M a b i j)
          ((linRec .global M g a b).val (i + 1) j + g) ((linRec .global M g a b).val i (j + 1) + g) with h | h | h
        · exact ⟨(i, j), .both i j, by simp [stepPos], by simp [h, costLin, colScoreLin]⟩
        · exact ⟨(i + 1, j), .gapA j, by simp [stepPos], by simp [h, costLin, colScoreLin]⟩
        · exact ⟨(i, j + 1), .gapB i, by simp [stepPos], by simp [h, costLin, colScoreLin]⟩
  obtain ⟨p0, aln, hP, hw, hs⟩ := attained_gen ((linRec .global M g a b).val) (costLin M g a b)
    (fun p => p = (0, 0)) hcell _ a.length b.length rfl
  subst hP
  exact ⟨aln, hw, by rw [scoreLin_eq_pos M g a b aln (0, 0), hs]; rfl⟩

theorem C08_attained_semi (M : Mat) (g : Int) (a b : Seq) :
    ∃ aln, ValidGlobal a b aln ∧ scoreSemiPos M g a b (0, 0) aln = optSemi M g a b := by
  have hcell : ∀ i j, ((fun p : Nat × Nat => p = (0, 0)) (i, j) ∧ (linRec .semi M g a b).val i j = 0) ∨
      ∃ p c, stepPos p c = some (i, j) ∧
        (linRec .semi M g a b).val i j = (linRec .semi M g a b).val p.1 p.2 + costSemi M g a b p c := by
    intro i j
    cases i with
    | zero =>
      cases j with
      | zero => left; simp [Rec.val_zero, borderS]
      | succ j =>
        right; refine ⟨(0, j), .gapA j, by simp [stepPos], ?_⟩
        simp [Rec.val_zero, borderS, costSemi]
    | succ i =>
      cases j with
      | zero =>
        right; refine ⟨(i, 0), .gapB i, by simp [stepPos], ?_⟩
        cases i <;> simp [Rec.val_zero, Rec.val_succ_zero, borderS, costSemi]
      | succ j =>
        right
        rw [Rec.val_succ_succ, cellS]
        rcases max3_cases ((linRec .semi M g a b).val i j + sub M a b i j)
          ((linRec .semi M g a b).val (i + 1) j + (if i + 1 = a.length then 0 else g))
          ((linRec .semi M g a b).val i (j + 1) + (if j + 1 = b.length then 0 else g)) with h | h | h
        · exact ⟨(i, j), .both i j, by simp [stepPos], by simp [h, costSemi]⟩
        · exact ⟨(i + 1, j), .gapA j, by simp [stepPos], by simp [h, costSemi]⟩
        · exact ⟨(i, j + 1), .gapB i, by simp [stepPos], by simp [h, costSemi]⟩
  obtain ⟨p0, aln, hP, hw, hs⟩ := attained_gen ((linRec .semi M g a b).val) (costSemi M g a b)
    (fun p => p = (0, 0)) hcell _ a.length b.length rfl
  subst hP
  exact ⟨aln, hw, by rw [scoreSemiPos_eq_pos M g a b aln (0, 0), hs]; rfl⟩

theorem C08_attained_local (M : Mat) (g : Int) (a b : Seq) :
    ∃ aln, ValidLocal a b aln ∧ scoreLin M g a b aln = optLocal M g a b := by
  have hcell : ∀ i j, ((fun _ : Nat × Nat => True) (i, j) ∧ (linRec .local M g a b).val i j = 0) ∨
      ∃ p c, stepPos p c = some (i, j) ∧
        (linRec .local M g a b).val i j = (linRec .local M g a b).val p.1 p.2 + costLin M g a b p c := by
    intro i j
    cases i with
    | zero => left; simp [Rec.val_zero, borderL]
    | succ i =>
      cases j with
      | zero => left; simp [Rec.val_succ_zero, borderL]
      | succ j =>
        rw [Rec.val_succ_succ, cellL]
        by_cases hv : max3 ((linRec .local M g a b).val i j + sub M a b i j)
          ((linRec .local M g a b).val (i + 1) j + g) ((linRec .local M g a b).val i (j + 1) + g) ≤ 0
        · left; simp [hv]
        · right
          simp only [hv, if_false]
          rcases max3_cases ((linRec .local M g a b).val i j + sub M a b i j)
            ((linRec .local M g a b).val (i + 1) j + g) ((linRec .local M g a b).val i (j + 1) + g) with h | h | h
          · exact ⟨(i, j), .both i j, by simp [stepPos], by simp [h, costLin, colScoreLin]⟩
          · exact ⟨(i + 1, j), .gapA j, by simp [stepPos], by simp [h, costLin, colScoreLin]⟩
          · exact ⟨(i, j + 1), .gapB i, by simp [stepPos], by simp [h, costLin, colScoreLin]⟩
  rcases listMax_mem 0 ((List.range (a.length + 1)).flatMap fun i =>
      (List.range (b.length + 1)).map ((linRec .local M g a b).val i)) with h0 | hm
  · exact ⟨[], ⟨0, 0, 0, 0, rfl, Nat.zero_le _, Nat.zero_le _⟩, by simp [scoreLin, optLocal, h0]⟩
  · rw [List.mem_flatMap] at hm
    obtain ⟨i, hi, hm⟩ := hm
    rw [List.mem_map] at hm
    obtain ⟨j, hj, hv⟩ := hm
    obtain ⟨p0, aln, _, hw, hs⟩ := attained_gen ((linRec .local M g a b).val) (costLin M g a b)
      (fun _ => True) hcell _ i j rfl
    refine ⟨aln, ⟨p0.1, p0.2, i, j, hw, ?_, ?_⟩, ?_⟩
    · have := List.mem_range.mp hi; omega
    · have := List.mem_range.mp hj; omega
    · rw [scoreLin_eq_pos M g a b aln p0, hs, hv]; rfl

/-! ## Table refinement: the table `_fill_align_table` builds is the recurrence -/

/-- every cell of the row-by-row table equals the recurrence at the prefix lengths `(i, j)`. -/
theorem C08_table_lin (mode : Mode) (M : Mat) (g : Int) (a b : Seq) (i j : Nat)
    (hi : i ≤ a.length) (hj : j ≤ b.length) :
    ((fillLin mode M g a b)[i]?.bind (·[j]?)) = some ((linRec mode M g a b).val i j) :=
  Rec.table_get _ _ _ i j hi hj

/-- the score read off the table (last cell, or the table maximum for local) is the optimum. -/
theorem C08_reported_lin (mode : Mode) (M : Mat) (g : Int) (a b : Seq) :
    optLinT mode M g a b = opt mode M g a b := by
  cases mode with
  | global => simp [optLinT, opt, optLin, Rec.row_getLast]
  | semi => simp [optLinT, opt, optSemi, Rec.row_getLast]
  | «local» => simp [optLinT, opt, optLocal, fillLin, Rec.table_flatten]

/-- affine: the three tables filled row by row are the three-state recurrence (`none` = −∞). -/
theorem C08_table_aff (mode : Mode) (M : Mat) (go ge : Int) (a b : Seq) (i j : Nat)
    (hi : i ≤ a.length) (hj : j ≤ b.length) :
    ((fillAff mode M go ge a b)[i]?.bind (·[j]?)) = some ((affRec mode M go ge a b).val i j) :=
  Rec.table_get _ _ _ i j hi hj

theorem C08_reported_aff (mode : Mode) (M : Mat) (go ge : Int) (a b : Seq) :
    optAffT mode M go ge a b = optAff mode M go ge a b := by
  cases mode with
  | global => simp [optAffT, optAff, Rec.row_getLast]
  | semi => simp [optAffT, optAff, Rec.row_getLast]
  | «local» => simp [optAffT, optAff, fillAff, Rec.table_flatten]

/-! ## The checker run on every actual output -/

theorem validB_sound (mode : Mode) (a b : Seq) (aln : Aln) (h : validB mode a b aln = true) :
    Valid mode a b aln := by
  cases mode with
  | global => simpa [validB, Valid, ValidGlobal] using h
  | semi => simpa [validB, Valid, ValidGlobal] using h
  | «local» =>
    simp only [validB] at h
    split at h
    · rename_i i1 j1 hw
      simp only [Bool.and_eq_true, decide_eq_true_eq] at h
      exact ⟨_, _, i1, j1, hw, h.1, h.2⟩
    · simp at h

/-- Linear penalties: a trace the checker accepts is a valid alignment of the two inputs whose public score
(`align.score`) is the reported score, and the reported score is at most the optimum. -/
theorem C08_checker_sound_lin (a b : Seq) (M : Mat) (g : Int) (mode : Mode) (trace : List (Int × Int)) (sc : Int)
    (h : checkAlignment a b M (.lin g) mode trace sc = true) :
    ∃ aln, traceToAln trace = some aln ∧ Valid mode a b aln ∧ score mode (.lin g) M a b aln = sc ∧
      (mode = .semi → scoreSemiPos M g a b (0, 0) aln = sc) ∧ sc ≤ opt mode M g a b := by
  unfold checkAlignment at h
  split at h
  · rename_i aln ht
    refine ⟨aln, ht, ?_⟩
    simp only [checkAln, Bool.and_eq_true, decide_eq_true_eq] at h
    obtain ⟨⟨⟨hv, hs⟩, hp⟩, hu⟩ := h
    refine ⟨validB_sound _ _ _ _ hv, hs, ?_, ?_⟩
    · intro hm; subst hm; simpa using hp
    · rw [← C08_reported_lin]; exact hu
  · simp at h

/-- Corollary used by the correspondence: an accepted non-semi trace scores `scoreLin = sc`. -/
theorem C08_checker_score_lin (a b : Seq) (M : Mat) (g : Int) (mode : Mode) (hm : mode ≠ .semi) (aln : Aln) :
    score mode (.lin g) M a b aln = scoreLin M g a b aln := by
  cases mode with
  | global => exact scorePub_lin M g a b aln
  | semi => exact absurd rfl hm
  | «local» => exact scorePub_lin M g a b aln

/-- Affine penalties (partial): an accepted trace is valid, has no abutting gaps, its public score is the
reported one and that is at most the value of the three-state recurrence `optAff`.  That `optAff` is the
maximum over all non-abutting alignments is NOT proved (tied by correspondence + enumeration oracle). -/
theorem C08_checker_sound_aff_partial (a b : Seq) (M : Mat) (go ge : Int) (mode : Mode)
    (trace : List (Int × Int)) (sc : Int)
    (h : checkAlignment a b M (.aff go ge) mode trace sc = true) :
    ∃ aln, traceToAln trace = some aln ∧ Valid mode a b aln ∧ NoAbut aln ∧
      score mode (.aff go ge) M a b aln = sc ∧ sc ≤ optAff mode M go ge a b := by
  unfold checkAlignment at h
  split at h
  · rename_i aln ht
    refine ⟨aln, ht, ?_⟩
    simp only [checkAln, Bool.and_eq_true, decide_eq_true_eq] at h
    obtain ⟨⟨⟨hv, hs⟩, hp⟩, hu⟩ := h
    refine ⟨validB_sound _ _ _ _ hv, ?_, hs, ?_⟩
    · cases mode <;> simpa [NoAbut] using hp
    · rw [← C08_reported_aff]; exact hu
  · simp at h

/-- everything `checkAll` accepts: each trace as above, non-empty traces pairwise distinct, at most `max_number`. -/
theorem C08_checkAll_sound (a b : Seq) (M : Mat) (gap : Gap) (mode : Mode) (mx : Nat)
    (traces : List (List (Int × Int))) (sc : Int) (h : checkAll a b M gap mode mx traces sc = true) :
    (∀ t ∈ traces, checkAlignment a b M gap mode t sc = true) ∧ distinctNonEmpty traces = true ∧
      traces.length ≤ mx := by
  simp only [checkAll, Bool.and_eq_true, decide_eq_true_eq, List.all_eq_true] at h
  exact ⟨h.1.1, h.1.2, h.2⟩

/-- Known finding, as modelled: affine + not local + an empty sequence raises IndexError. -/
theorem C08_affine_empty_defect : raisesIndexError .global (.aff (-2) (-1)) [0, 0] [] = true := by decide

/-! ## Regenerated constants (tracetable.pxd): the trace bits are distinct single bits that fit the table dtype -/

def isPow2 (n : Nat) : Bool := n != 0 && (n &&& (n - 1)) == 0

theorem C08_gen_trace_bits :
    (Gen.C08.traceLinear.map (·.2)).all isPow2 = true ∧ (Gen.C08.traceLinear.map (·.2)).Nodup ∧
    (Gen.C08.traceAffine.map (·.2)).all isPow2 = true ∧ (Gen.C08.traceAffine.map (·.2)).Nodup ∧
    (Gen.C08.traceLinear ++ Gen.C08.traceAffine).all (fun x => x.2 < 2 ^ Gen.C08.traceTableBits) = true ∧
    (Gen.C08.traceState.map (·.2)).Nodup ∧ Gen.C08.traceLinear.length = 3 ∧ Gen.C08.traceAffine.length = 7 := by
  decide

/-! ## Non-vacuity -/

/-- `A C` / `- C` : a valid global alignment; the hypotheses of the upper bounds are satisfiable. -/
example : ValidGlobal [0, 1] [1] [.gapB 0, .both 1 0] := by unfold ValidGlobal; decide
example : ValidLocal [0, 1, 2] [5, 1] [.both 1 1] := ⟨1, 1, 2, 2, by decide, by decide, by decide⟩
example : scoreLin (Mat.ofRows [[1, -1], [-1, 1]]) (-2) [0, 1] [1] [.gapB 0, .both 1 0] = -1 := by decide
example : optLin (Mat.ofRows [[1, -1], [-1, 1]]) (-2) [0, 1] [1] = -1 := by decide
example : optSemi (Mat.ofRows [[1, -1], [-1, 1]]) (-2) [0, 1] [1] = 1 := by decide
example : optLocal (Mat.ofRows [[1, -1], [-1, 1]]) (-2) [0, 1] [1] = 1 := by decide
example : checkAlignment [0, 1] [1] (Mat.ofRows [[1, -1], [-1, 1]]) (.lin (-2)) .global [(0, -1), (1, 0)] (-1) = true := by
  decide
example : checkAlignment [0, 1] [1] (Mat.ofRows [[1, -1], [-1, 1]]) (.lin (-2)) .global [(0, 0), (1, -1)] (-3) = true := by
  decide
example : checkAlignment [0, 1] [1] (Mat.ofRows [[1, -1], [-1, 1]]) (.lin (-2)) .global [(0, -1), (1, 0)] 0 = false := by
  decide
example : checkAlignment [0, 1] [1] (Mat.ofRows [[1, -1], [-1, 1]]) (.aff (-3) (-1)) .semi [(0, -1), (1, 0)] 1 = true := by
  decide

end BiotiteModel.C08

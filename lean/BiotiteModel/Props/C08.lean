import BiotiteModel.Model.C08
import BiotiteModel.Gen.C08
namespace BiotiteModel.C08

theorem C08_placeholder : max3 1 2 3 = 3 := by decide

end BiotiteModel.C08

import BiotiteModel.Proofs.C19Cluster
import BiotiteModel.Proofs.C19Tree
import BiotiteModel.Gen.C19
/-!
# C19 — property theorems (trees contain every taxon once and keep distances)

Only property statements and non-vacuity examples; helper lemmas live in `Proofs/C19*.lean`.
Everything quantifies over all inputs of the executable model (`Model/C19Tree.lean`,
`Model/C19Cluster.lean`), which the correspondence harness ties to the Cython code.
Not proved here (checked by the oracle on the real code only; see notes/C19.md): NJ leaves,
UPGMA ultrametricity/average linkage, `distance_to` = path sum, `as_binary` keeps distances,
the Newick round trip, NJ additivity recovery.
-/
namespace BiotiteModel.C19

/-- The `illegal_chars` list and the NJ size guard of the *current* source are the ones modelled. -/
theorem C19_gen_constants :
    Gen.C19.illegalChars = illegalChars.map Char.toNat ∧ Gen.C19.njMinNodes = 4 := by
  decide

/-- **UPGMA: every input index is exactly one leaf.**  For every matrix the function accepts
(any `n`, any entries, ties included) the leaves of the returned tree are a permutation of
`0 … n-1`; in particular the `while True` loop reaches its `break` with everything merged into
the node stored at the last position. -/
theorem C19_upgma_leaves (n : Nat) (D : Nat → Nat → Rat) (t : T Rat) (h : upgma n D = .ok t) :
    t.leaves.Perm (List.range n) :=
  upgma_leaves n D t h

/-- The minimum search returns a live pair `j < i < n` whose entry is minimal among all live
pairs (first such pair in scan order because the comparison is strict). -/
theorem C19_scan_min (val : Nat → Nat → Rat) (cl : Nat → Bool) (n : Nat) (m : Rat) (i j : Nat)
    (h : scanMin val cl n = some (m, i, j)) :
    j < i ∧ i < n ∧ cl i = false ∧ cl j = false ∧ m = val i j ∧
      ∀ a b, b < a → a < n → cl a = false → cl b = false → m ≤ val a b :=
  scanMin_some h

/-- `copy` rebuilds every node through the constructor and returns an equal tree (any arity). -/
theorem C19_copy {δ : Type} (t : T δ) (h : t.WF = true) : t.copy = .ok t :=
  T.copy_wf t h

/-- `lowest_common_ancestor` of the nodes at paths `p`, `q` is the node at their longest common
prefix: an ancestor of both, and below every other common ancestor. -/
theorem C19_lca (p q : List Nat) :
    lca p q = some (commonPrefix p q) ∧ commonPrefix p q <+: p ∧ commonPrefix p q <+: q ∧
      ∀ r, r <+: p → r <+: q → r <+: commonPrefix p q :=
  ⟨lca_eq p q, commonPrefix_prefix_left p q, commonPrefix_prefix_right p q,
   fun r => prefix_commonPrefix r p q⟩

/-! ## Defects of the unchanged code (negations of the full-strength statements, with witnesses
replayed on the implementation; see known_findings.d/C19.json) -/

/-- **Defect.**  A label containing a blank is written verbatim but the reader deletes all
whitespace first: `(Homo sapiens,b);` cannot be read back with the same labels. -/
theorem C19_label_space_defect :
    treeToNewick (some ["Homo sapiens".toList, "b".toList]) false (fun _ : Unit => []) ()
        (.node (.cons () (.leaf 0) (.cons () (.leaf 1) .nil))) = .ok "(Homo sapiens,b);".toList ∧
    treeFromNewick (some ["Homo sapiens".toList, "b".toList]) (fun _ => (none : Option Unit)) ()
        "(Homo sapiens,b);".toList = .error .valueError := by
  decide +kernel

/-- **Defect.**  An empty label under a one-child node is written as `();`, which the reader
rejects. -/
theorem C19_empty_label_defect :
    treeToNewick (some [[]]) false (fun _ : Unit => []) () (.node (.cons () (.leaf 0) .nil))
        = .ok "();".toList ∧
    treeFromNewick (some [[]]) (fun _ => (none : Option Unit)) () "();".toList
        = .error .invalidFile := by
  decide +kernel

/-- **Defect.**  `as_binary(TreeNode)` never returns a node: a tuple or a `TypeError`. -/
theorem C19_as_binary_node_defect (t n : T Rat) : asBinaryNode t ≠ .node n := by
  unfold asBinaryNode
  split <;> simp

/-! ## Non-vacuity -/

/-- A 3×3 matrix with a tie-free first merge: accepted, and the loop builds `(2,(1,0))`. -/
def exampleD : Nat → Nat → Rat := fun i j => if i = j then 0 else if i + j = 1 then 2 else 4
example : allcloseSym 3 exampleD = true ∧ anyNegative 3 exampleD = false := by decide +kernel
example : ((upgmaLoop 3 3 (UState.init exampleD)).nd 2).leaves = [2, 1, 0] := by decide +kernel
example : scanMin exampleD (fun _ => false) 3 = some (2, 1, 0) := by decide +kernel
example : (T.node (.cons (1 : Rat) (.leaf 2) (.cons 1 (.node (.cons 1 (.leaf 1) (.cons 1 (.leaf 0) .nil))) .nil))).leaves
    = [2, 1, 0] := by decide
example : (T.node (.cons (1 : Rat) (.leaf 2) (.cons 1 (.node (.cons 1 (.leaf 1) .nil)) .nil))).WF = true := by decide
example : lca [1, 0, 2] [1, 3] = some [1] := by decide
example : treeFromNewick (some ["a".toList, "b".toList, "c".toList, "d".toList]) (fun _ => (none : Option Unit)) ()
    " ( (a ,b),c , (d)) ; ".toList =
    .ok (.node (.cons () (.node (.cons () (.leaf 0) (.cons () (.leaf 1) .nil)))
      (.cons () (.leaf 2) (.cons () (.node (.cons () (.leaf 3) .nil)) .nil)))) := by
  decide +kernel

end BiotiteModel.C19

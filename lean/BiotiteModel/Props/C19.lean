import BiotiteModel.Proofs.C19Cluster
import BiotiteModel.Proofs.C19NJ
import BiotiteModel.Proofs.C19Tree
import BiotiteModel.Proofs.C19Newick
import BiotiteModel.Proofs.C19Dist
import BiotiteModel.Proofs.C19Binary
import BiotiteModel.Proofs.C19Upgma
import BiotiteModel.Proofs.C19Rows
import BiotiteModel.Proofs.C19NJAdd
import BiotiteModel.Proofs.C19NJCherry
import BiotiteModel.Proofs.C19TreeMetric
import BiotiteModel.Proofs.C19Audit
import BiotiteModel.Proofs.C19Pinned
import BiotiteModel.Gen.C19
/-!
# C19 — property theorems (trees contain every taxon once and keep distances)

Only property statements and non-vacuity examples; helper lemmas live in `Proofs/C19*.lean`.
Everything quantifies over all inputs of the executable model (`Model/C19Tree.lean`,
`Model/C19Cluster.lean`), which the correspondence harness ties to the Cython code.
Every clause of the property is a theorem here; trusted/modelled parts (float32 rounding, Python
float formatting, numpy helpers) are listed in notes/C19.md.
-/
namespace BiotiteModel.C19

/-! ## Obligations on what is regenerated from the source on every run (`Gen/C19.lean`)

`Gen.C19.*` are read from the current `upgma.pyx` / `nj.pyx` / `tree.pyx` (normalised statements, guards,
constants, signatures); `Pinned.*` is what the hand-written model was written against. -/

/-- Constants and comparison operators the model hard-codes: `illegal_chars`, the NJ size guard `< 4`, the
strict `<` of both minimum searches, `height = dist_min/2` (read as the reduced factor 1/2, so `0.5 * dist_min` is the same fact), `n_rem_nodes > 3`, `(n_rem_nodes − 2)`, the factor
0.5 — and the model really uses these values. -/
theorem C19_gen_constants :
    Gen.C19.illegalChars = illegalChars.map Char.toNat ∧ Gen.C19.njMinNodes = 4 ∧
    Gen.C19.njMinRowsCmp = ("<", 4) ∧ Gen.C19.upgmaScanCmp = "<" ∧ Gen.C19.njScanCmp = "<" ∧
    Gen.C19.upgmaHeightFactor = (1, 2) ∧ Gen.C19.njJoinCmp = (">", 3) ∧ Gen.C19.njCorrOffset = 2 ∧
    Gen.C19.njHalf = (5, 10) ∧
    (∀ (n : Nat) (s : UState) (m : Rat) (i j : Nat),
      (s.merge n m i j).ht i = m * (((Gen.C19.upgmaHeightFactor.1 : Nat) : Rat) / ((Gen.C19.upgmaHeightFactor.2 : Nat) : Rat))) ∧
    (∀ (s : NState) (i j k : Nat),
      brK s i j k = ((Gen.C19.njHalf.1 : Nat) : Rat) / ((Gen.C19.njHalf.2 : Nat) : Rat) * (s.d i k + s.d j k - s.d i j)) ∧
    (∀ (n : Nat) (s : NState) (i j : Nat),
      corrected n s i j = (((s.nrem : Int) - (Gen.C19.njCorrOffset : Nat) : Int) : Rat) * s.d i j
        - divergence n s i - divergence n s j) := by
  refine ⟨by decide, by decide, by decide, by decide, by decide, by decide, by decide, by decide, by decide, ?_, ?_, ?_⟩
  · intro n s m i j; simp [UState.merge, upd, Gen.C19.upgmaHeightFactor]; ring
  · intro s i j k; simp only [brK, Gen.C19.njHalf]; norm_num
  · intro n s i j; simp [corrected, Gen.C19.njCorrOffset]

/-- Order and exception classes of the input checks: dropping the two checks exact rationals cannot express
(NaN, infinity) leaves exactly the order the model implements, and every refusal is a `ValueError`. -/
theorem C19_gen_guards :
    Gen.C19.upgmaGuards = [("symmetric", "ValueError"), ("nan", "ValueError"), ("infinite", "ValueError"),
      ("negative", "ValueError")] ∧
    Gen.C19.njGuards = [("symmetric", "ValueError"), ("nan", "ValueError"), ("infinite", "ValueError"),
      ("rows<4", "ValueError"), ("negative", "ValueError")] := by
  constructor <;> rfl

/-- UPGMA: allocation (dtypes `uint8` / `uint32` / `float32`, `copy=True`), the minimum search (start value,
both loop domains, skip conditions, strict comparison), the merge step (break condition, height, children
order and branch lengths, `j_min` marked before the update loop, guard and formula of the size-weighted mean,
both writes, size update) and the returned node — statement by statement what the model implements. -/
theorem C19_gen_upgma :
    Gen.C19.upgmaInit = Pinned.upgmaInit ∧ Gen.C19.upgmaScan = Pinned.upgmaScan ∧
    Gen.C19.upgmaMerge = Pinned.upgmaMerge ∧ Gen.C19.upgmaReturn = Pinned.upgmaReturn := by
  refine ⟨rfl, rfl, rfl, rfl⟩

/-- Neighbour joining: allocation, divergence loop (diagonal included), corrected matrix, minimum search,
branch lengths, the `n_rem_nodes > 3` split with merge and final three-way join, the matrix update and the
recount of `n_rem_nodes`. -/
theorem C19_gen_nj :
    Gen.C19.njInit = Pinned.njInit ∧ Gen.C19.njDivergence = Pinned.njDivergence ∧
    Gen.C19.njCorrected = Pinned.njCorrected ∧ Gen.C19.njScan = Pinned.njScan ∧
    Gen.C19.njJoin = Pinned.njJoin ∧ Gen.C19.njUpdate = Pinned.njUpdate := by
  refine ⟨rfl, rfl, rfl, rfl, rfl, rfl⟩

/-- `Tree` / `TreeNode` construction and queries: `Tree.__init__` (`as_root` first, the index check and its
exception), `leaves` returns a copy, `get_distance`, the order of the constructor checks with their exception
classes, the assignments, `_set_parent` (stores the distance as given), `copy`, `as_root`, `distance_to`
(both walks, `+= 1` for topological), `lowest_common_ancestor` (range and `is`), the path and leaf helpers. -/
theorem C19_gen_tree :
    Gen.C19.treeInit = Pinned.treeInit ∧ Gen.C19.treeCopy = Pinned.treeCopy ∧
    Gen.C19.treeLeaves = Pinned.treeLeaves ∧ Gen.C19.treeGetDistance = Pinned.treeGetDistance ∧
    Gen.C19.nodeInitChecks = Pinned.nodeInitChecks ∧ Gen.C19.nodeInitAssign = Pinned.nodeInitAssign ∧
    Gen.C19.nodeSetParent = Pinned.nodeSetParent ∧ Gen.C19.nodeCopy = Pinned.nodeCopy ∧
    Gen.C19.nodeAsRoot = Pinned.nodeAsRoot ∧ Gen.C19.nodeDistanceTo = Pinned.nodeDistanceTo ∧
    Gen.C19.nodeLca = Pinned.nodeLca ∧ Gen.C19.createPathToRoot = Pinned.createPathToRoot ∧
    Gen.C19.getLeavesRec = Pinned.getLeavesRec := by
  refine ⟨rfl, rfl, rfl, rfl, rfl, rfl, rfl, rfl, rfl, rfl, rfl, rfl, rfl⟩

/-- Newick writer and reader, `Tree` and `TreeNode` level: format strings, the character checks, whitespace
removal, bracket scans, `split(":")`, the `distance = 0` fallbacks, `int(label)` / `labels.index`, the comma
split, exception classes, `strip()` and the trailing `;`. -/
theorem C19_gen_newick :
    Gen.C19.treeToNewick = Pinned.treeToNewick ∧ Gen.C19.treeFromNewick = Pinned.treeFromNewick ∧
    Gen.C19.nodeToNewick = Pinned.nodeToNewick ∧ Gen.C19.nodeFromNewick = Pinned.nodeFromNewick := by
  refine ⟨rfl, rfl, rfl, rfl⟩

/-- `as_binary` dispatch and `_as_binary` (the four branches, `node.distance + distance`, `(0, distances[0])`). -/
theorem C19_gen_as_binary :
    Gen.C19.asBinary = Pinned.asBinary ∧ Gen.C19.asBinaryRec = Pinned.asBinaryRec := by
  refine ⟨rfl, rfl⟩

/-- Signatures of the public entry points: parameter names, order and **default values**
(`labels=None`, `include_distance=True`, `round_distance=None`, `topological=False`, `children=None`,
`distances=None`, `index=None`) as the adapter and the model assume them. -/
theorem C19_gen_signatures : Gen.C19.signatures = Pinned.signatures := rfl

/-- **UPGMA: every input index is exactly one leaf.**  For every matrix the function accepts
(any `n`, any entries, ties included) the leaves of the returned tree are a permutation of
`0 … n-1`; in particular the `while True` loop reaches its `break` with everything merged into
the node stored at the last position. -/
theorem C19_upgma_leaves (n : Nat) (D : Nat → Nat → Rat) (t : T Rat) (h : upgma n D = .ok t) :
    t.leaves.Perm (List.range n) :=
  upgma_leaves n D t h

/-- **UPGMA: merge heights are half the average-linkage distance.**  For every accepted symmetric
matrix (ties included) the returned tree is `Good D`: every intermediate node has two children,
hangs them at `height − height(child)`, and its height is half the mean of the *original* distances
over all leaf pairs of the two merged clusters (`avg D`).  Loop invariant: the matrix entry of two
live clusters is the mean of the original distances over their leaf pairs (`UAInv.link`). -/
theorem C19_upgma_average_linkage (n : Nat) (D : Nat → Nat → Rat) (hsym : ∀ a b, D a b = D b a)
    (t : T Rat) (h : upgma n D = .ok t) : ∃ height, Good D t height :=
  upgma_good n D hsym t h

/-- **UPGMA trees are ultrametric**: every leaf is at the same depth (the root height), and — by
`Good.depth` at every node — every leaf under a node is at distance `height(node)`; no branch length
is negative (merge heights are monotone). -/
theorem C19_upgma_ultrametric (n : Nat) (D : Nat → Nat → Rat) (hsym : ∀ a b, D a b = D b a)
    (t : T Rat) (h : upgma n D = .ok t) :
    (∃ height, Good D t height ∧ ∀ r ∈ t.rows, r.1 = height) ∧ t.NonNeg := by
  obtain ⟨height, hg⟩ := upgma_good n D hsym t h
  exact ⟨⟨height, hg, Good.depth hg⟩, upgma_nonneg n D hsym t h⟩

/-- In a `Good` tree every leaf below a node of height `h` is at depth `h` (used at every node). -/
theorem C19_good_depth (D : Nat → Nat → Rat) (t : T Rat) (h : Rat) (hg : Good D t h) :
    ∀ r ∈ t.rows, r.1 = h :=
  Good.depth hg

/-- **Neighbour joining: every input index is exactly one leaf** (merge loop + final three-way
join), for every accepted matrix (`n ≥ 4`, any entries, ties included). -/
theorem C19_nj_leaves (n : Nat) (D : Nat → Nat → Rat) (t : T Rat) (h : neighborJoining n D = .ok t) :
    t.leaves.Perm (List.range n) :=
  nj_leaves n D t h

/-- **Neighbour joining always returns a tree.**  For every matrix that passes the input checks
(symmetric by `allclose`, `n ≥ 4`, no negative entry — zero distances, identical taxa and every tie
included) the result is `ok`: the minimum search accepts its first live candidate (`dist_min`
starts at `MAX_FLOAT`, modelled as "no candidate yet"), so with ≥ 3 live positions a pair is always
found and the loop ends in the three-way join, never in the "all clustered" `break` (Python `None`). -/
theorem C19_nj_total (n : Nat) (D : Nat → Nat → Rat) (h1 : allcloseSym n D = true) (h2 : 4 ≤ n)
    (h3 : anyNegative n D = false) : ∃ t, neighborJoining n D = .ok t :=
  nj_total n D h1 h2 h3

/-- **NJ, branch lengths of a joined cherry.**  `node_dist_i + node_dist_j = d(i,j)` for any pair; when
`i`, `j` form a cherry of the current matrix (`ConstDiff`: `d(i,k) − d(j,k)` is the same for every other
live `k`) the two lengths are the three-point formulas `½(d(i,j) + d(i,k) − d(j,k))`,
`½(d(i,j) + d(j,k) − d(i,k))` for *every* other live `k` — the true edge lengths of a tree metric.
(Needs the live part of the matrix symmetric with zero diagonal, `n_rem_nodes` = number of live
positions ≥ 3.) -/
theorem C19_nj_join_lengths {n : Nat} {s : NState} (hm : NMetric n s) (hrem : s.nrem = liveCount n s.cl)
    (h3 : 3 ≤ s.nrem) {i j k : Nat} (hi : i < n) (hj : j < n) (hij : i ≠ j)
    (hci : s.cl i = false) (hcj : s.cl j = false) (hcd : ConstDiff n s i j)
    (hk : k < n) (hck : s.cl k = false) (hki : k ≠ i) (hkj : k ≠ j) :
    brI n s i j = 1 / 2 * (s.d i j + s.d i k - s.d j k) ∧
    brJ n s i j = 1 / 2 * (s.d i j + s.d j k - s.d i k) ∧
    brI n s i j + brJ n s i j = s.d i j :=
  nj_join_lengths hm hrem h3 hi hj hij hci hcj hcd hk hck hki hkj

/-- **NJ, reduction step.**  Joining a cherry keeps the loop invariant `NAInv` w.r.t. the original
matrix `D`: the reduced matrix stays symmetric with zero diagonal, inside every live subtree the
leaf-to-leaf distances are those of `D`, and two leaves of different live subtrees are at
`depth + d(a,b) + depth`; i.e. the reduced matrix is the metric of the tree with the cherry
contracted. -/
theorem C19_nj_reduce_invariant {n : Nat} {D : Nat → Nat → Rat} {s : NState} (h : NAInv n D s)
    (hrem : s.nrem = liveCount n s.cl) (h3 : 3 ≤ s.nrem) {i j : Nat} (hi : i < n) (hj : j < n)
    (hij : i ≠ j) (hci : s.cl i = false) (hcj : s.cl j = false) (hcd : ConstDiff n s i j) :
    NAInv n D (njMerge n s i j) :=
  NAInv_merge h hrem h3 hi hj hij hci hcj hcd

/-- **NJ recovers every path length — conditional on cherry selection** (the run-wise form; the hypothesis is discharged for every additive matrix by `C19_nj_cherry`).  If in every state the loop reaches with more than three live
taxa the selected pair is a cherry, then for the returned tree the a-th and b-th leaf (indices
`x`, `y`) are at `distance_to` exactly `D x y`, for all `a < b`. -/
theorem C19_nj_additive_of_cherry (n : Nat) (D : Nat → Nat → Rat)
    (hsym : ∀ a b, a < n → b < n → D a b = D b a) (hdiag : ∀ a, a < n → D a a = 0)
    (hsel : ∀ s', Reach n (NState.init n D) s' → 3 < s'.nrem → CherrySel n s')
    (t : T Rat) (h : neighborJoining n D = .ok t) (a b : Nat) (hab : a < b) (hb : b < t.leaves.length) :
    ∃ (x y : Nat) (pa pb : List Nat), t.leafPaths[a]? = some (x, pa) ∧ t.leafPaths[b]? = some (y, pb) ∧
      distanceTo t false pa pb = .ok (D x y) :=
  intra_distance D t (nj_additive_of_cherry n D hsym hdiag hsel t h) a b hab hb

/-- **NJ, the reduced matrix of a joined cherry is again additive** (four-point condition on the live
taxa is preserved). -/
theorem C19_nj_reduce_additive {n : Nat} {s : NState} (hm : NMetric n s) (hrem : s.nrem = liveCount n s.cl)
    (h3 : 3 ≤ s.nrem) (hfp : FourPoint n s) {i j : Nat} (hi : i < n) (hj : j < n) (hij : i ≠ j)
    (hci : s.cl i = false) (hcj : s.cl j = false) (hcd : ConstDiff n s i j) :
    FourPoint n (njMerge n s i j) :=
  fourPoint_merge hm hrem h3 hfp hi hj hij hci hcj hcd

/-- **Cherry lemma for four live taxa**: on a symmetric, zero-diagonal matrix satisfying the four-point
condition, the pair minimising the corrected distance (Q-criterion) is a cherry (direct proof for four
taxa; the general case is `C19_nj_cherry`). -/
theorem C19_nj_cherry_4 {n : Nat} {s : NState} (hm : NMetric n s) (hrem : s.nrem = liveCount n s.cl)
    (h4 : s.nrem = 4) (hfp : FourPoint n s) : CherrySel n s :=
  nj_cherry_4 hm hrem h4 hfp

/-- **Cherry lemma (Saitou–Nei / Studier–Keppler), abstract form.**  On a finite set `N` of taxa with a
symmetric, zero-diagonal `d` satisfying the (weak) four-point condition, *every* pair minimising
`Q(x,y) = (|N|−2)·d(x,y) − r_x − r_y` is a cherry: `d(i,k) − d(j,k)` is the same for all other `k`.
No positivity is needed: zero-length internal edges are allowed (the pair is then a cherry of some
resolution), leaf edges are unconstrained; ties are covered because the statement is about every
minimiser, so the code's first-minimum scan always selects a cherry.  Proof by averaging: the sum of
`Q` over the pairs inside the smaller end-side of the path `i — j` is strictly below
(number of pairs)·`Q(i,j)` unless all other taxa attach at one point. -/
theorem C19_cherry_lemma {N : Finset ℕ} {d : ℕ → ℕ → ℚ} (h : Cherry.M4 N d) {i j : ℕ} (hi : i ∈ N)
    (hj : j ∈ N) (hij : i ≠ j)
    (hmin : ∀ x ∈ N, ∀ y ∈ N, x ≠ y → Cherry.QQ N d i j ≤ Cherry.QQ N d x y) :
    ∀ k ∈ N, ∀ l ∈ N, k ≠ i → k ≠ j → l ≠ i → l ≠ j → d i k - d j k = d i l - d j l :=
  Cherry.cherry h hi hj hij hmin

/-- **Cherry lemma on the loop states of `neighbor_joining`**, any number of live taxa: whenever the
live part of the working matrix is symmetric with zero diagonal and satisfies the four-point
condition, the pair found by the minimum search over the corrected distances is a cherry. -/
theorem C19_nj_cherry (n : Nat) (s : NState) (hN : NInv n s) (hM : NMetric n s) (hF : FourPoint n s)
    (h3 : 3 < s.nrem) : CherrySel n s :=
  cherryLemma_all n s hN hM hF h3

/-- **Neighbour joining reproduces every leaf-to-leaf path length of every additive distance matrix.**
For `n ≥ 4` and `D` symmetric with zero diagonal satisfying the four-point condition (the classical
characterisation of tree metrics; zero-length edges and therefore identical taxa and ties included):
for the returned tree the a-th and b-th leaf (depth-first order, indices `x`, `y`) are at
`distance_to` — hence `Tree.get_distance(x, y)` — exactly `D x y`, for all `a < b`.  (That a tree is
returned at all is `C19_nj_total`; that every index occurs once is `C19_nj_leaves`.) -/
theorem C19_nj_additive (n : Nat) (D : Nat → Nat → Rat)
    (hsym : ∀ a b, a < n → b < n → D a b = D b a) (hdiag : ∀ a, a < n → D a a = 0)
    (hfp : FourPoint n (NState.init n D)) (hn : 4 ≤ n) (t : T Rat) (h : neighborJoining n D = .ok t)
    (a b : Nat) (hab : a < b) (hb : b < t.leaves.length) :
    ∃ (x y : Nat) (pa pb : List Nat), t.leafPaths[a]? = some (x, pa) ∧ t.leafPaths[b]? = some (y, pb) ∧
      distanceTo t false pa pb = .ok (D x y) :=
  intra_distance D t (nj_additive n D hsym hdiag hfp hn t h) a b hab hb

/-- **Tree metrics are additive** (easy direction of Buneman's theorem): the leaf-to-leaf path-length
matrix `treeMetric t` of any tree with non-negative branch lengths (any arity; `treeMetric t x y` is the
`distance_to` of the leaves with indices `x`, `y`) satisfies the four-point condition, is symmetric and
has zero diagonal. -/
theorem C19_tree_metric_four_point (t : T Rat) (ht : t.NonNeg) (n : Nat) :
    FourPoint n (NState.init n (treeMetric t)) ∧ (∀ x y, treeMetric t x y = treeMetric t y x) ∧
    (∀ x, treeMetric t x x = 0) ∧
    ∀ x y, distanceTo t false (pathOf t x) (pathOf t y) = .ok (treeMetric t x y) :=
  ⟨treeMetric_fourPoint t ht n, treeMetric_symm t, treeMetric_self t, treeMetric_eq_distance t⟩

/-- **Neighbour joining reproduces every leaf-to-leaf path length of every tree-like matrix**, in the
literal reading of the property: for any tree `t` with non-negative branch lengths (any arity, zero
lengths allowed) and `n ≥ 4`, running NJ on the path-length matrix of `t` returns a tree whose a-th and
b-th leaf, carrying indices `x` and `y`, are at the same `distance_to` as the leaves `x`, `y` of `t`. -/
theorem C19_nj_tree_metric (t : T Rat) (ht : t.NonNeg) (n : Nat) (hn : 4 ≤ n) (t' : T Rat)
    (h : neighborJoining n (treeMetric t) = .ok t') (a b : Nat) (hab : a < b) (hb : b < t'.leaves.length) :
    ∃ (x y : Nat) (pa pb : List Nat), t'.leafPaths[a]? = some (x, pa) ∧ t'.leafPaths[b]? = some (y, pb) ∧
      distanceTo t' false pa pb = distanceTo t false (pathOf t x) (pathOf t y) :=
  nj_tree_metric t ht n hn t' h a b hab hb

/-- Quartets, proved directly (kept as the small instance; subsumed by `C19_nj_additive`). -/
theorem C19_nj_additive_4 (D : Nat → Nat → Rat)
    (hsym : ∀ a b, a < 4 → b < 4 → D a b = D b a) (hdiag : ∀ a, a < 4 → D a a = 0)
    (hfp : FourPoint 4 (NState.init 4 D)) (t : T Rat) (h : neighborJoining 4 D = .ok t)
    (a b : Nat) (hab : a < b) (hb : b < t.leaves.length) :
    ∃ (x y : Nat) (pa pb : List Nat), t.leafPaths[a]? = some (x, pa) ∧ t.leafPaths[b]? = some (y, pb) ∧
      distanceTo t false pa pb = .ok (D x y) :=
  intra_distance D t (nj_additive_4 D hsym hdiag hfp t h) a b hab hb

/-- The minimum search returns a live pair `j < i < n` whose entry is minimal among all live
pairs (first such pair in scan order because the comparison is strict). -/
theorem C19_scan_min (val : Nat → Nat → Rat) (cl : Nat → Bool) (n : Nat) (m : Rat) (i j : Nat)
    (h : scanMin val cl n = some (m, i, j)) :
    j < i ∧ i < n ∧ cl i = false ∧ cl j = false ∧ m = val i j ∧
      ∀ a b, b < a → a < n → cl a = false → cl b = false → m ≤ val a b :=
  scanMin_some h

/-- `copy` rebuilds every node through the constructor and returns an equal tree (any arity). -/
theorem C19_copy {δ : Type} (t : T δ) (h : t.WF = true) : t.copy = .ok t :=
  T.copy_wf t h

/-- `lowest_common_ancestor` of the nodes at paths `p`, `q` is the node at their longest common
prefix: an ancestor of both, and below every other common ancestor. -/
theorem C19_lca (p q : List Nat) :
    lca p q = some (commonPrefix p q) ∧ commonPrefix p q <+: p ∧ commonPrefix p q <+: q ∧
      ∀ r, r <+: p → r <+: q → r <+: commonPrefix p q :=
  ⟨lca_eq p q, commonPrefix_prefix_left p q, commonPrefix_prefix_right p q,
   fun r => prefix_commonPrefix r p q⟩

/-- **`distance_to` / `get_distance` = explicit path sum.**  For two nodes `p`, `q` of one tree
(any arity), with `c` their lowest common ancestor: the result of the two upward walks is the sum of
the branch lengths walking *down* from `c` to `p` plus those from `c` to `q` (`downLen`, defined by
recursion on the tree, independent of parents/`_distance` look-ups); with `topological` every edge
counts 1. -/
theorem C19_distance_path_sum (t : T Rat) (topo : Bool) (p q : List Nat)
    (hp : (t.sub? p).isSome) (hq : (t.sub? q).isSome) :
    ∃ u x y, t.sub? (commonPrefix p q) = some u ∧
      downLen topo u (p.drop (commonPrefix p q).length) = some x ∧
      downLen topo u (q.drop (commonPrefix p q).length) = some y ∧
      distanceTo t topo p q = .ok (x + y) :=
  distanceTo_path_sum t topo p q hp hq

/-- **`as_binary(Tree)` keeps all leaf-to-leaf distances.**  On every well-formed tree `Tree()`
accepts it succeeds; the result is binary, has the same leaves in the same depth-first order, and
the same upper-triangular leaf-to-leaf distance matrix (`T.rows`: for each leaf the distances to all
later leaves, defined compositionally as depth-below-the-common-parent + depth-below-the-common-
parent). -/
theorem C19_binary_preserves_distances (t : T Rat) (hwf : t.WF = true) (ht : mkTree t = .ok t) :
    ∃ b, asBinary t = .ok b ∧ b.isBin = true ∧ b.leaves = t.leaves ∧
      b.rows.map (·.2) = t.rows.map (·.2) :=
  asBinary_spec t hwf ht

/-- **`T.rows` is the matrix of the public distance query.**  With `p₀, p₁, …` the leaf paths of
`t` in depth-first order: for `a < b`, entry `b - a - 1` of row `a` of `t.rows` exists and equals
`distance_to(leaf a, leaf b)` (hence `Tree.get_distance` of their indices). -/
theorem C19_rows_eq_distance (t : T Rat) (a b : Nat) (hab : a < b) (hb : b < t.leafPaths.length) :
    ∃ (pa pb : List Nat) (v : Rat),
      (t.leafPaths.map (·.2))[a]? = some pa ∧ (t.leafPaths.map (·.2))[b]? = some pb ∧
      ((t.rows)[a]?).bind (fun r => r.2[b - a - 1]?) = some v ∧
      distanceTo t false pa pb = .ok v :=
  rows_eq_distance t a b hab hb

/-- **`as_binary` keeps every leaf-to-leaf `distance_to` answer** (the binary theorem in terms of the
public query): same leaves in the same order, binary, and for all `a < b` the a-th and b-th leaf are
at the same `distance_to` in the result as in the original. -/
theorem C19_binary_distance_queries (t : T Rat) (hwf : t.WF = true) (ht : mkTree t = .ok t)
    (a b : Nat) (hab : a < b) (hb : b < t.leaves.length) :
    ∃ (bt : T Rat) (pa pb qa qb : List Nat) (v : Rat), asBinary t = .ok bt ∧ bt.isBin = true ∧
      bt.leaves = t.leaves ∧
      (t.leafPaths.map (·.2))[a]? = some pa ∧ (t.leafPaths.map (·.2))[b]? = some pb ∧
      (bt.leafPaths.map (·.2))[a]? = some qa ∧ (bt.leafPaths.map (·.2))[b]? = some qb ∧
      distanceTo t false pa pb = .ok v ∧ distanceTo bt false qa qb = .ok v :=
  asBinary_distance_queries t hwf ht a b hab hb

/-- **Newick round trip.**  For every well-formed tree of any arity (one-child nodes included)
that `Tree()` accepts, every branch-length codec whose tokens read back (`float(repr(x)) == x`) and
contain no Newick punctuation or whitespace, labels `None` or `LabelsOk` (distinct, non-empty, none
of `, : ; ( )`, no whitespace — the last two are forced, see the `_defect` theorems), with or
without distances: `Tree.to_newick` succeeds, and `Tree.from_newick` applied to *any* string that
differs from the written one only by injected whitespace returns the tree (all distances `zero`
when they were not written). -/
theorem C19_newick_roundtrip {δ : Type} (C : Codec δ) (labels : Option (List (List Char))) (inc : Bool)
    (t : T δ) (hwf : t.WF = true) (hl : LabelsOk labels t) (ht : mkTree t = .ok t) :
    ∃ s, treeToNewick labels inc C.showD C.zero t = .ok s ∧
      ∀ s' : List Char, s'.filter (fun c => !isWs c) = s →
        treeFromNewick labels C.parseD C.zero s' = .ok (if inc then t else t.erase C.zero) :=
  newick_roundtrip C labels inc t hwf hl ht

/-- The same at `TreeNode` level (`TreeNode.to_newick` / `TreeNode.from_newick`), which also
returns the node's own distance. -/
theorem C19_newick_roundtrip_node {δ : Type} (C : Codec δ) (labels : Option (List (List Char)))
    (inc : Bool) (t : T δ) (e : δ) (hwf : t.WF = true) (hl : LabelsOk labels t) :
    ∃ s, t.toNewick labels inc C.showD e = .ok s ∧
      ∀ s' : List Char, s'.filter (fun c => !isWs c) = s →
        fromNewick labels C.parseD C.zero s' = .ok (if inc then (t, e) else (t.erase C.zero, C.zero)) :=
  fromNewick_toNewick C labels inc t e hwf hl

/-! ## Refusals happen exactly where the hypotheses end (hypothesis audit) -/

/-- **UPGMA accepts every valid matrix**: symmetric by `allclose`, no negative entry, at least one row. -/
theorem C19_upgma_total (n : Nat) (D : Nat → Nat → Rat) (h1 : allcloseSym n D = true)
    (h2 : anyNegative n D = false) (hn : 0 < n) : ∃ t, upgma n D = .ok t :=
  upgma_total n D h1 h2 hn

/-- `upgma` raises `ValueError` exactly for asymmetric matrices and matrices with a negative entry
(and `IndexError` for the empty matrix). -/
theorem C19_upgma_rejects (n : Nat) (D : Nat → Nat → Rat) :
    (upgma n D = .error .valueError ↔ (allcloseSym n D = false ∨ anyNegative n D = true)) ∧
    (allcloseSym n D = true → anyNegative n D = false → n = 0 → upgma n D = .error .indexError) :=
  upgma_rejects n D

/-- `neighbor_joining` raises `ValueError` exactly for asymmetric matrices, fewer than four rows, or a
negative entry. -/
theorem C19_nj_rejects (n : Nat) (D : Nat → Nat → Rat) :
    neighborJoining n D = .error .valueError ↔ (allcloseSym n D = false ∨ n < 4 ∨ anyNegative n D = true) :=
  nj_rejects n D

/-- `Tree()` raises `TreeError` exactly when a leaf index is not below the number of leaves. -/
theorem C19_tree_rejects_index {δ : Type} (t : T δ) :
    mkTree t = .error (.other "TreeError") ↔ ∃ i ∈ t.leaves, t.leaves.length ≤ i :=
  mkTree_rejects t

/-- `to_newick` raises `ValueError` exactly when the label of some leaf contains `, : ; ( )`
(labels covering every leaf index). -/
theorem C19_newick_rejects_illegal {δ : Type} (ls : List (List Char)) (inc : Bool) (showD : δ → List Char)
    (t : T δ) (e : δ) (h : ∀ i ∈ t.leaves, i < ls.length) :
    t.toNewick (some ls) inc showD e = .error .valueError ↔ ∃ i ∈ t.leaves, IllegalAt ls i :=
  toNewick_rejects ls inc showD t e h

/-- The reader model never abstains: for every string it returns a tree or a real exception, never the
internal markers `fuel` / `unreachable`. -/
theorem C19_from_newick_no_abstention {δ : Type} (labels : Option (List (List Char)))
    (parseD : List Char → Option δ) (zero : δ) (s : List Char) :
    fromNewick labels parseD zero s ≠ .error (.other "fuel") ∧
    fromNewick labels parseD zero s ≠ .error (.other "unreachable") :=
  fromNewick_no_abstention labels parseD zero (s.length + 1) s (Nat.lt_succ_self _)

/-- The whitespace class of the reader model is exactly Python's `str.isspace` (regenerated from the
interpreter on every run). -/
theorem C19_gen_whitespace :
    Gen.C19.whitespace.all (fun n => isWs (Char.ofNat n)) = true ∧
    ∀ c : Char, isWs c = true → c.toNat ∈ Gen.C19.whitespace := by
  refine ⟨by decide, ?_⟩
  intro c h
  simp only [isWs, Bool.or_eq_true, Bool.and_eq_true, decide_eq_true_eq, beq_iff_eq] at h
  simp only [Gen.C19.whitespace, List.mem_cons, List.not_mem_nil, or_false]
  omega

/-! ## Defects of the unchanged code (negations of the full-strength statements, with witnesses
replayed on the implementation; see known_findings.d/C19.json) -/

/-- **Defect.**  A label containing a blank is written verbatim but the reader deletes all
whitespace first: `(Homo sapiens,b);` cannot be read back with the same labels. -/
theorem C19_label_space_defect :
    treeToNewick (some ["Homo sapiens".toList, "b".toList]) false (fun _ : Unit => []) ()
        (.node (.cons () (.leaf 0) (.cons () (.leaf 1) .nil))) = .ok "(Homo sapiens,b);".toList ∧
    treeFromNewick (some ["Homo sapiens".toList, "b".toList]) (fun _ => (none : Option Unit)) ()
        "(Homo sapiens,b);".toList = .error .valueError := by
  decide +kernel

/-- **Defect.**  An empty label under a one-child node is written as `();`, which the reader
rejects. -/
theorem C19_empty_label_defect :
    treeToNewick (some [[]]) false (fun _ : Unit => []) () (.node (.cons () (.leaf 0) .nil))
        = .ok "();".toList ∧
    treeFromNewick (some [[]]) (fun _ => (none : Option Unit)) () "();".toList
        = .error .invalidFile := by
  decide +kernel

/-- **Defect.**  `Tree()` accepts a tree in which one index is carried by two leaves and another by
none: `len` is 2 but `get_distance(0, 1)` raises. -/
theorem C19_duplicate_index_defect :
    mkTree (T.node (.cons (1 : Rat) (.leaf 0) (.cons 2 (.leaf 0) .nil))) =
      .ok (T.node (.cons (1 : Rat) (.leaf 0) (.cons 2 (.leaf 0) .nil))) ∧
    getDistance (T.node (.cons (1 : Rat) (.leaf 0) (.cons 2 (.leaf 0) .nil))) false 0 1
      = .error (.other "TreeError") := by
  decide +kernel

/-- **Defect.**  Duplicate labels are written as they are and read back *silently* as a different tree
(both leaves get the first index). -/
theorem C19_duplicate_label_defect :
    treeToNewick (some ["a".toList, "a".toList]) false (fun _ : Unit => []) ()
        (.node (.cons () (.leaf 0) (.cons () (.leaf 1) .nil))) = .ok "(a,a);".toList ∧
    treeFromNewick (some ["a".toList, "a".toList]) (fun _ => (none : Option Unit)) () "(a,a);".toList
        = .ok (.node (.cons () (.leaf 0) (.cons () (.leaf 0) .nil))) := by
  decide +kernel

/-- **Defect.**  `as_binary(TreeNode)` never returns a node: a tuple or a `TypeError`. -/
theorem C19_as_binary_node_defect (t n : T Rat) : asBinaryNode t ≠ .node n := by
  unfold asBinaryNode
  split <;> simp

/-! ## Non-vacuity -/

/-- A 3×3 matrix with a tie-free first merge: accepted, and the loop builds `(2,(1,0))`. -/
def exampleD : Nat → Nat → Rat := fun i j => if i = j then 0 else if i + j = 1 then 2 else 4
example : allcloseSym 3 exampleD = true ∧ anyNegative 3 exampleD = false := by decide +kernel
example : ((upgmaLoop 3 3 (UState.init exampleD)).nd 2).leaves = [2, 1, 0] := by decide +kernel
/-- A 4×4 additive matrix (quartet `01|23`): accepted by NJ, the loop returns a tree. -/
def exampleD4 : Nat → Nat → Rat := fun i j =>
  if i = j then 0 else if i + j = 1 then 2 else if i + j = 5 then 2 else 4
example : allcloseSym 4 exampleD4 = true ∧ anyNegative 4 exampleD4 = false ∧
    (njLoop 4 4 (NState.init 4 exampleD4)).map T.leaves = some [2, 1, 0, 3] := by decide +kernel
example : ∀ a b, exampleD a b = exampleD b a := by
  intro a b; unfold exampleD
  by_cases h : a = b
  · subst h; rfl
  · have h' : ¬ b = a := fun e => h e.symm
    simp [h, h', Nat.add_comm]
example : Good exampleD (.node (.cons 2 (.leaf 2) (.cons 1 (.node (.cons 1 (.leaf 1) (.cons 1 (.leaf 0) .nil))) .nil))) 2 := by
  refine ⟨0, 1, rfl, ⟨0, 0, rfl, rfl, by norm_num, by norm_num, ?_⟩, by norm_num, by norm_num, ?_⟩
  · simp [avg, pairSum, T.leaves, F.leaves, exampleD]
  · simp [avg, pairSum, T.leaves, F.leaves, exampleD]; norm_num
/-- The quartet `01|23` meets the hypotheses of `C19_nj_additive_4` (symmetric, zero diagonal,
four-point condition). -/
example : (∀ a b, a < 4 → b < 4 → exampleD4 a b = exampleD4 b a) ∧ (∀ a, a < 4 → exampleD4 a a = 0) ∧
    FourPoint 4 (NState.init 4 exampleD4) := by
  have k1 : ∀ a, a < 4 → ∀ b, b < 4 → exampleD4 a b = exampleD4 b a := by decide +kernel
  have k2 : ∀ a, a < 4 → exampleD4 a a = 0 := by decide +kernel
  have k3 : ((List.range 4).all fun a => (List.range 4).all fun b => (List.range 4).all fun c =>
      (List.range 4).all fun e =>
        decide (exampleD4 a b + exampleD4 c e ≤ exampleD4 a c + exampleD4 b e) ||
        decide (exampleD4 a b + exampleD4 c e ≤ exampleD4 a e + exampleD4 b c) ||
        decide (a = b) || decide (a = c) || decide (a = e) || decide (b = c) || decide (b = e) ||
        decide (c = e)) = true := by decide +kernel
  refine ⟨fun a b ha hb => k1 a ha b hb, k2, ?_⟩
  intro a b c e ha hb hc he _ _ _ _ h1 h2 h3 h4 h5 h6
  simp only [List.all_eq_true, List.mem_range] at k3
  have := k3 a ha b hb c hc e he
  simp only [Bool.or_eq_true, decide_eq_true_eq, h1, h2, h3, h4, h5, h6, or_false] at this
  exact this

/-- A 5-taxon tree metric (caterpillar `((0,1),2,(3,4))` with a zero-length leaf edge) meets the
hypotheses of `C19_nj_additive`. -/
def exampleD5 : Nat → Nat → Rat := fun i j =>
  ([[0, 3, 4, 7, 6], [3, 0, 3, 6, 5], [4, 3, 0, 5, 4], [7, 6, 5, 0, 3], [6, 5, 4, 3, 0]].getD i []).getD j 0
example : (∀ a b, a < 5 → b < 5 → exampleD5 a b = exampleD5 b a) ∧ (∀ a, a < 5 → exampleD5 a a = 0) ∧
    FourPoint 5 (NState.init 5 exampleD5) := by
  have k1 : ∀ a, a < 5 → ∀ b, b < 5 → exampleD5 a b = exampleD5 b a := by decide +kernel
  have k2 : ∀ a, a < 5 → exampleD5 a a = 0 := by decide +kernel
  have k3 : ((List.range 5).all fun a => (List.range 5).all fun b => (List.range 5).all fun c =>
      (List.range 5).all fun e =>
        decide (exampleD5 a b + exampleD5 c e ≤ exampleD5 a c + exampleD5 b e) ||
        decide (exampleD5 a b + exampleD5 c e ≤ exampleD5 a e + exampleD5 b c) ||
        decide (a = b) || decide (a = c) || decide (a = e) || decide (b = c) || decide (b = e) ||
        decide (c = e)) = true := by decide +kernel
  refine ⟨fun a b ha hb => k1 a ha b hb, k2, ?_⟩
  intro a b c e ha hb hc he _ _ _ _ h1 h2 h3 h4 h5 h6
  simp only [List.all_eq_true, List.mem_range] at k3
  have := k3 a ha b hb c hc e he
  simp only [Bool.or_eq_true, decide_eq_true_eq, h1, h2, h3, h4, h5, h6, or_false] at this
  exact this

/-- All taxa identical: the hypotheses of `C19_nj_total` hold and the loop returns all five leaves. -/
example : allcloseSym 5 (fun _ _ => 0) = true ∧ anyNegative 5 (fun _ _ => 0) = false ∧
    (njLoop 5 5 (NState.init 5 (fun _ _ => 0))).map (fun t => t.leaves.length) = some 5 := by decide +kernel
example : scanMin exampleD (fun _ => false) 3 = some (2, 1, 0) := by decide +kernel
example : (T.node (.cons (1 : Rat) (.leaf 2) (.cons 1 (.node (.cons 1 (.leaf 1) (.cons 1 (.leaf 0) .nil))) .nil))).leaves
    = [2, 1, 0] := by decide
example : (T.node (.cons (1 : Rat) (.leaf 2) (.cons 1 (.node (.cons 1 (.leaf 1) .nil)) .nil))).WF = true := by decide
example : lca [1, 0, 2] [1, 3] = some [1] := by decide

/-- Distances between the leaves of a tree with a three-child and a one-child node, and its
binary form. -/
def exampleQ : T Rat := .node (.cons 7 (.node (.cons 1 (.leaf 2) (.cons 2 (.leaf 0) (.cons 3 (.leaf 3) .nil))))
  (.cons 0 (.node (.cons 5 (.leaf 1) .nil)) .nil))
example : exampleQ.WF = true ∧ (T.sub? exampleQ [0, 2]).isSome ∧ (T.sub? exampleQ [1, 0]).isSome ∧
    commonPrefix [0, 2] [1, 0] = [] := by decide
example : (exampleQ.rows.map (·.2)).map (·.length) = [3, 2, 1, 0] ∧
    ((exampleQ.bin 0).1).leaves = [2, 0, 3, 1] ∧ ((exampleQ.bin 0).1).isBin = true := by decide +kernel

example : exampleQ.leafPaths.map (·.2) = [[0, 0], [0, 1], [0, 2], [1, 0]] ∧ mkTree exampleQ = .ok exampleQ := by
  decide +kernel

example : exampleQ.NonNeg := by
  simp only [exampleQ, T.NonNeg, F.NonNeg]; norm_num
example : pathOf exampleQ 3 = [0, 2] ∧ pathOf exampleQ 1 = [1, 0] := by decide +kernel

/-- A codec meeting the hypotheses of the round trip: natural numbers in decimal. -/
def natCodec : Codec Nat where
  showD n := (toString n).toList
  parseD s := (String.ofList s).toNat?
  zero := 0
  parse_show n := by rw [String.ofList_toList]; exact Nat.toNat?_repr n
  clean n c hc := by
    have : (toString n).toList = Nat.toDigits 10 n := Nat.toList_repr
    rw [this] at hc
    exact cleanC_of_isDigit (Nat.isDigit_of_mem_toDigits (by decide) (by decide) hc)

/-- A tree with a three-child and a one-child node. -/
def exampleT : T Nat := .node (.cons 7 (.node (.cons 1 (.leaf 2) (.cons 2 (.leaf 0) (.cons 3 (.leaf 3) .nil))))
  (.cons 0 (.node (.cons 5 (.leaf 1) .nil)) .nil))
/-- The hypotheses of `C19_newick_roundtrip` hold for it with unusual labels (and with `None`). -/
example : exampleT.WF = true ∧ mkTree exampleT = .ok exampleT ∧
    LabelsOk (some ["Homo_sapiens".toList, "1e5".toList, "nan".toList, "'x'".toList]) exampleT ∧
    LabelsOk none exampleT := by
  refine ⟨by decide, by decide, ?_, trivial⟩
  simp only [LabelsOk]
  decide +kernel
example : treeFromNewick (some ["a".toList, "b".toList, "c".toList, "d".toList]) (fun _ => (none : Option Unit)) ()
    " ( (a ,b),c , (d)) ; ".toList =
    .ok (.node (.cons () (.node (.cons () (.leaf 0) (.cons () (.leaf 1) .nil)))
      (.cons () (.leaf 2) (.cons () (.node (.cons () (.leaf 3) .nil)) .nil)))) := by
  decide +kernel

end BiotiteModel.C19

import BiotiteModel.Common
/-!
# C06 — the CIF text layer (model of `structure/io/pdbx/cif.py`)

Strings are `List Char`.  Every function below mirrors one function of `cif.py` *as it is
after the two `fix:` commits in `_escape`* (quote values starting with `#`, `;`, `data_`,
`loop_`; test for quote characters before the leading-underscore rule).

Python library semantics that are modelled rather than verified: `str.strip/lstrip/split`
(whitespace = `isWs`), `str.splitlines` (boundaries = `isBreak`),
`str.partition`, `str.ljust`, dict insertion order.
Import-free and executable: the same definitions drive `Driver/C06.lean`.
-/
namespace BiotiteModel.C06

abbrev Str := List Char

/-- Python `str.isspace()` (ASCII part + the Unicode blanks Python knows). -/
def isWs (c : Char) : Bool :=
  let n := c.toNat
  (9 ≤ n && n ≤ 13) || (28 ≤ n && n ≤ 32) || n == 0x85 || n == 0xa0 || n == 0x1680 ||
  (0x2000 ≤ n && n ≤ 0x200a) || n == 0x2028 || n == 0x2029 || n == 0x202f || n == 0x205f || n == 0x3000

def q1 : Char := '\''
def q2 : Char := '"'

def has (c : Char) (s : Str) : Bool := s.any (· == c)

def lstrip (s : Str) : Str := s.dropWhile isWs
def rstrip (s : Str) : Str := (s.reverse.dropWhile isWs).reverse
def strip (s : Str) : Str := rstrip (lstrip s)

/-- `str.ljust(n)` with blanks. -/
def ljust (n : Nat) (s : Str) : Str := s ++ List.replicate (n - s.length) ' '

/-- The characters `str.splitlines()` treats as line boundaries (`\r\n` counts once). -/
def isBreak (c : Char) : Bool :=
  let n := c.toNat
  n == 10 || n == 13 || n == 11 || n == 12 || n == 0x1c || n == 0x1d || n == 0x1e || n == 0x85 || n == 0x2028 || n == 0x2029

/-- `str.splitlines()`. -/
def splitLines : Str → List Str
  | [] => []
  | '\r' :: '\n' :: cs => [] :: splitLines cs
  | c :: cs =>
    if isBreak c then [] :: splitLines cs
    else match splitLines cs with
      | [] => [[c]]
      | l :: ls => (c :: l) :: ls

/-- `"\n".join(lines) + "\n"` for a non-empty list of lines (each line followed by a newline). -/
def unlines (ls : List Str) : Str := ls.flatMap (· ++ ['\n'])

/-- `"\n".join(lines)`. -/
def joinNl : List Str → Str
  | [] => []
  | [l] => l
  | l :: ls => l ++ '\n' :: joinNl ls

/-- `str.partition(sep)` for a one-character separator: `(before, after)`; no separator → `(s, "")`. -/
def partition (sep : Char) : Str → Str × Str
  | [] => ([], [])
  | c :: cs => if c == sep then ([], cs) else ((c :: (partition sep cs).1), (partition sep cs).2)

/-- helper of `str.split()`: (word in progress at the front, completed words behind it). -/
def splitWsAux : Str → Str × List Str
  | [] => ([], [])
  | c :: cs =>
    let r := splitWsAux cs
    if isWs c then ([], if r.1.isEmpty then r.2 else r.1 :: r.2) else (c :: r.1, r.2)

/-- `str.split()` (split on runs of whitespace, no empty words). -/
def splitWs (s : Str) : List Str :=
  let r := splitWsAux s
  if r.1.isEmpty then r.2 else r.1 :: r.2

/-! ## Writer: `_escape`, `_multiline` -/

def multiline (v : Str) : Str := '\n' :: ';' :: v ++ ['\n', ';', '\n']

def quoteWith (q : Char) (v : Str) : Str := q :: v ++ [q]

def sData : Str := ['d', 'a', 't', 'a', '_']
def sLoop : Str := ['l', 'o', 'o', 'p', '_']

/-- `_escape(value)` — the quoting decision, branch by branch. -/
def escape (v : Str) : Str :=
  if has '\n' v then multiline v
  else if has q1 v && has q2 v then multiline v
  else if v.isEmpty then [q1, q1]
  else if has q1 v then quoteWith q2 v
  else if has q2 v then quoteWith q1 v
  else if v.head? == some '_' then quoteWith q1 v
  else if has ' ' v then quoteWith q1 v
  else if has '\t' v then quoteWith q1 v
  else if v.any isWs then quoteWith q1 v
  else if v.head? == some '#' || v.head? == some ';' || sData.isPrefixOf v || sLoop.isPrefixOf v then quoteWith q1 v
  else v

/-! ### The same decision as a table (the shape `Gen/C06.lean` is regenerated in) -/

inductive Cond where
  | hasChar (c : Char)
  | hasWs
  | isEmpty
  | firstIs (c : Char)
  | firstIn (cs : List Char)
  | startsWith (p : String)
  | startsWithAny (ps : List String)
  | and (a b : Cond)
  | or (a b : Cond)
  deriving DecidableEq, Repr

inductive Act where
  | multiline
  | quote (q : Char)
  | literal (s : String)
  | asIs
  deriving DecidableEq, Repr

def Cond.eval : Cond → Str → Bool
  | .hasChar c, v => has c v
  | .hasWs, v => v.any isWs
  | .isEmpty, v => v.isEmpty
  | .firstIs c, v => v.head? == some c
  | .firstIn cs, v => cs.any (fun c => v.head? == some c)
  | .startsWith p, v => p.toList.isPrefixOf v
  | .startsWithAny ps, v => ps.any (fun p => p.toList.isPrefixOf v)
  | .and a b, v => a.eval v && b.eval v
  | .or a b, v => a.eval v || b.eval v

def Act.apply : Act → Str → Str
  | .multiline, v => C06.multiline v
  | .quote q, v => quoteWith q v
  | .literal s, _ => s.toList
  | .asIs, v => v

/-- First matching branch wins; `dflt` is the final `else`. -/
def interp (branches : List (Cond × Act)) (dflt : Act) (v : Str) : Str :=
  match branches with
  | [] => dflt.apply v
  | (c, a) :: rest => if c.eval v then a.apply v else interp rest dflt v

/-! ## Reader: tokeniser -/

/-- The `while line:` loop of `_split_one_line` for a line that contains a quote character.
`fuel` bounds the number of iterations; every iteration consumes at least one character, so
`line.length + 1` is always enough. -/
def splitQuoted : Nat → Str → List Str
  | 0, _ => []
  | fuel + 1, line =>
    if line.isEmpty then [] else
    let stripped := lstrip line
    let word := (partition ' ' stripped).1
    let rest := (partition ' ' stripped).2
    match word with
    | [] => [] :: splitQuoted fuel rest
    | q :: w =>
      if q == q1 || q == q2 then
        if w.getLast? == some q then
          -- quoted word without blank: `word[1:-1]`
          w.dropLast :: splitQuoted fuel rest
        else
          (partition q stripped.tail).1 :: splitQuoted fuel (partition q stripped.tail).2
      else word :: splitQuoted fuel rest

/-- `_split_one_line(line)`; `line[0]` on an empty line raises `IndexError`. -/
def splitOneLine (line : Str) : Except Err (List Str) :=
  match line with
  | [] => .error .indexError
  | c :: cs =>
    if c == ';' then .ok [cs]
    else if has q1 line || has q2 line then .ok (splitQuoted (line.length + 1) line)
    else .ok (splitWs line)

/-- `_is_empty(line)`. -/
def isEmptyLine (line : Str) : Bool := (strip line).isEmpty || line.head? == some '#'

/-- `_to_single(lines)`; the state is `none` outside a multi-line value and `some collected`
inside one.  An unterminated multi-line value is silently dropped, as in the code. -/
def toSingle : Option (List Str) → List Str → List Str
  | _, [] => []
  | none, l :: ls =>
    if l.head? == some ';' then toSingle (some [l]) ls else l :: toSingle none ls
  | some acc, l :: ls =>
    if l.head? == some ';' then joinNl acc :: toSingle none ls else toSingle (some (acc ++ [l])) ls

/-- `_parse_category_name(line)` for a non-empty line: `line[1 : line.find(".")]`. -/
def parseCategoryName (line : Str) : Option Str :=
  if line.head? == some '_' then
    if has '.' line then some (line.takeWhile (· != '.')).tail else some line.tail.dropLast
  else none

def isLoopStart (line : Str) : Bool := sLoop.isPrefixOf line

def parseDataBlockName (line : Str) : Option Str :=
  if sData.isPrefixOf line then some (line.drop 5) else none

/-- `name_part.split(".")[1]` -/
def secondDotField (s : Str) : Except Err Str :=
  if has '.' s then .ok ((partition '.' (partition '.' s).2).1) else .error .indexError

/-- Python dict `d[k] = v`: replace in place or append. -/
def dictSet {κ α : Type} [BEq κ] (k : κ) (v : α) : List (κ × α) → List (κ × α)
  | [] => [(k, v)]
  | (k', v') :: rest => if k' == k then (k, v) :: rest else (k', v') :: dictSet k v rest

def derr : Err := .other "DeserializationError"

/-- `CIFCategory._deserialize_single`. -/
def deserializeSingle (acc : List (Str × List Str)) : List Str → Except Err (List (Str × List Str))
  | [] => .ok acc
  | [line] => do
    let parts ← splitOneLine line
    match parts with
    | [n, v] => do
      let k ← secondDotField n
      .ok (dictSet k [v] acc)
    | _ => .error derr
  | line :: line2 :: rest => do
    let parts ← splitOneLine line
    match parts with
    | [n, v] => do
      let k ← secondDotField n
      deserializeSingle (dictSet k [v] acc) (line2 :: rest)
    | [n] => do
      let parts2 ← splitOneLine line2
      match parts2 with
      | [v] => do
        let k ← secondDotField n
        deserializeSingle (dictSet k [v] acc) rest
      | _ => .error derr
    | _ => .error derr
termination_by l => l.length

/-- rows ↔ columns (`n` is the length of the result when the input is empty). -/
def transpose {α : Type} (n : Nat) : List (List α) → List (List α)
  | [] => List.replicate n []
  | x :: xs => List.zipWith (· :: ·) x (transpose n xs)

/-- Cut a flat list into rows of `k` values; `none` if values are left over. -/
def chunk {α : Type} (k : Nat) : Nat → List α → Option (List (List α))
  | _, [] => some []
  | 0, _ :: _ => none
  | f + 1, x :: xs =>
    if (x :: xs).length < k then none
    else (chunk k f ((x :: xs).drop k)).map ((x :: xs).take k :: ·)

def mapM' {α β : Type} (f : α → Except Err β) : List α → Except Err (List β)
  | [] => .ok []
  | x :: xs => do
    let y ← f x
    let ys ← mapM' f xs
    .ok (y :: ys)

/-- `CIFCategory._deserialize_looped`: key lines, then all values dealt cyclically to the
columns (modelled as: cut into rows, transpose; repeated column names share one list).  Zero
columns, left-over values and empty columns are errors (StopIteration / DeserializationError / ValueError in the code). -/
def deserializeLooped (lines : List Str) : Except Err (List (Str × List Str)) := do
  let keyLines := lines.takeWhile (fun l => l.head? == some '_')
  let dataLines := lines.drop keyLines.length
  let keys ← mapM' secondDotField keyLines
  let toks ← mapM' splitOneLine dataLines
  let vals := toks.flatten
  let k := keys.length
  if k == 0 then .error derr else
  match chunk k vals.length vals with
  | none => .error derr
  | some rows =>
    if rows.isEmpty then .error .valueError else
    if decide keys.Nodup then
      .ok ((keys.zip (transpose k rows)).foldl (fun d kv => dictSet kv.1 kv.2 d) [])
    else
      -- a column name that occurs twice: `category_dict[key] = []` is one list, and the values of every
      -- column with that name are appended to it in reading order
      .ok (keys.eraseDups.map (fun key => (key, rows.flatMap (fun row =>
        (keys.zip row).filterMap (fun kv => if kv.1 == key then some kv.2 else none)))))

/-- `CIFCategory.deserialize(text)` → (name, columns as strings). -/
def categoryDeserialize (text : Str) : Except Err (Str × List (Str × List Str)) := do
  let lines := ((splitLines text).filter (fun l => !isEmptyLine l)).map strip
  match lines with
  | [] => .error .indexError
  | l0 :: rest =>
    let looped := isLoopStart l0
    let lines := if looped then rest else lines
    match lines with
    | [] => .error .indexError
    | l1 :: _ =>
      match parseCategoryName l1 with
      | none => .error derr
      | some name =>
        let lines := toSingle none lines
        let cols ← if looped then deserializeLooped lines else deserializeSingle [] lines
        .ok (name, cols)

/-! ## Masks (`CIFColumn.__init__`, `as_array`, `as_item`) -/

def sDot : Str := ['.']
def sQm : Str := ['?']

/-- MaskValue of a string as inferred by `CIFColumn.__init__` (0 PRESENT, 1 INAPPLICABLE, 2 MISSING). -/
def maskOf (v : Str) : Nat := if v == sDot then 1 else if v == sQm then 2 else 0

/-- The inferred mask array; `none` when everything is present. -/
def inferMask (vs : List Str) : Option (List Nat) :=
  if vs.all (fun v => maskOf v == 0) then none else some (vs.map maskOf)

/-- A cell as the user states it. -/
inductive Cell where
  | present (v : Str) | inapplicable | missing
  deriving DecidableEq, Repr

/-- `as_array(str)` / `as_item()` on one cell. -/
def Cell.render : Cell → Str
  | .present v => v
  | .inapplicable => sDot
  | .missing => sQm

/-- What `CIFColumn(strings)` makes of one string. -/
def Cell.infer (v : Str) : Cell := if v == sDot then .inapplicable else if v == sQm then .missing else .present v

/-! ## Writer: categories, blocks, files -/

def maxLen (xs : List Str) : Nat := xs.foldl (fun m x => max m x.length) 0

/-- `CIFCategory._serialize_single` on (key, item) pairs. -/
def serializeSingle (name : Str) (cols : List (Str × Str)) : List Str :=
  let keys := cols.map (fun kv => '_' :: name ++ '.' :: kv.1)
  let reqLen := maxLen keys + 3
  List.zipWith (fun key kv => strip (ljust reqLen key ++ escape kv.2)) keys cols

/-- one value line of `_serialize_looped` -/
def rowLine (widths : List Nat) (toks : List Str) : Str :=
  strip (List.zipWith ljust widths toks).flatten

/-- `CIFCategory._serialize_looped`. -/
def serializeLooped (name : Str) (cols : List (Str × List Str)) (rowCount : Nat) : List Str :=
  let keyLines := cols.map (fun kv => '_' :: name ++ '.' :: kv.1 ++ [' '])
  let arrays := cols.map (fun kv => kv.2.map escape)
  let widths := arrays.map (fun a => maxLen a + 1)
  let rows := transpose rowCount arrays
  sLoop :: keyLines ++ rows.map (rowLine widths)

def serr : Err := .other "SerializationError"

/-- `CIFCategory.serialize()` for a category of string columns. -/
def categorySerialize (name : Str) (cols : List (Str × List Str)) : Except Err Str :=
  match cols with
  | [] => .error .valueError
  | (_, c0) :: _ =>
    -- names that `_<category>.<column>` could not give back are refused
    if (name :: cols.map (·.1)).any (fun l => has '.' l || l.any isWs) then .error serr else
    let n := c0.length
    if cols.any (fun kv => kv.2.length != n) then .error serr
    else if n == 0 then .error .valueError
    else if n == 1 then .ok (unlines (serializeSingle name (cols.map (fun kv => (kv.1, kv.2.headD [])))))
    else .ok (unlines (serializeLooped name cols n))

/-- one category inside `CIFBlock.serialize()`: its text and the `#` line; a failure is a `SerializationError` -/
def catBlockText (c : Str × List (Str × List Str)) : Except Err Str :=
  match categorySerialize c.1 c.2 with
  | .ok t => .ok (t ++ ['#', '\n'])
  | .error _ => .error serr

/-- `CIFBlock.serialize()`. -/
def blockSerialize (name : Str) (cats : List (Str × List (Str × List Str))) : Except Err Str := do
  -- a block name with a line break is refused
  if name.any isBreak then .error serr else
  let texts ← mapM' catBlockText cats
  .ok (sData ++ name ++ ['\n', '#', '\n'] ++ texts.flatten)

/-- one block inside `CIFFile.serialize()` -/
def blockText (b : Str × List (Str × List (Str × List Str))) : Except Err Str :=
  match blockSerialize b.1 b.2 with
  | .ok t => .ok t
  | .error _ => .error serr

def fileSerialize (blocks : List (Str × List (Str × List (Str × List Str)))) : Except Err Str := do
  let texts ← mapM' blockText blocks
  .ok texts.flatten

/-! ## Reader: blocks and files (lazy: only the text of each element is cut out) -/

/-- Cut `lines` at the start lines: `segs` is the reversed list of (name, reversed lines). -/
def closeSegs {κ : Type} (segs : List (κ × List Str)) : List (κ × Str) :=
  segs.reverse.map (fun s => (s.1, unlines s.2.reverse))

def pushLine {κ : Type} (l : Str) : List (κ × List Str) → List (κ × List Str)
  | [] => []
  | (n, ls) :: rest => (n, l :: ls) :: rest

/-- `_create_element_dict` builds a dict: a repeated name overwrites the earlier text. -/
def toDict {κ : Type} [BEq κ] (xs : List (κ × Str)) : List (κ × Str) :=
  xs.foldl (fun d kv => dictSet kv.1 kv.2 d) []

/-- The scan of `CIFBlock.deserialize`.  `cur` is `current_category_name`. -/
def blockScan (cur : Option Str) (segs : List (Option Str × List Str)) :
    List Str → Except Err (List (Option Str × List Str))
  | [] => .ok segs
  | line :: rest =>
    if isEmptyLine line then blockScan cur (pushLine line segs) rest
    else
      let isLoop := isLoopStart line
      let nameInLine := parseCategoryName line
      if isLoop then
        match rest with
        | [] => .error .indexError
        | [] :: _ => .error .indexError
        | nxt :: _ =>
          let nm := parseCategoryName nxt
          blockScan nm ((nm, [line]) :: segs) rest
      else if nameInLine != cur && nameInLine.isSome then
        blockScan nameInLine ((nameInLine, [line]) :: segs) rest
      else blockScan cur (pushLine line segs) rest

/-- `CIFBlock.deserialize(text)` → category name ↦ text (name `none` is Python's `None` key). -/
def blockDeserialize (text : Str) : Except Err (List (Option Str × Str)) := do
  let segs ← blockScan none [] (splitLines text)
  .ok (toDict (closeSegs segs))

def fileScan (segs : List (Str × List Str)) : List Str → List (Str × List Str)
  | [] => segs
  | line :: rest =>
    if isEmptyLine line then fileScan (pushLine line segs) rest
    else match parseDataBlockName line with
      | some n => fileScan ((n, [line]) :: segs) rest
      | none => fileScan (pushLine line segs) rest

/-- `CIFFile.deserialize(text)` → block name ↦ text. -/
def fileDeserialize (text : Str) : List (Str × Str) :=
  toDict (closeSegs (fileScan [] (splitLines text)))

/-! ## The shape of a source function as `harness/props/c06_gen.py` reads it with `ast` -/

/-- default argument values, string and integer literals, comparison and boolean operators, raised
exception classes and called helpers of one function, each in source order -/
structure Fp where
  params : List (String × String)
  strs : List String
  ints : List Int
  cmps : List String
  bools : List String
  raises : List String
  calls : List String
  deriving DecidableEq, Repr

/-! ## Parsing all the way down (what `file[b][c]` returns after the lazy steps) -/

abbrev Cols := List (Str × List Str)

/-- `CIFBlock.deserialize` followed by `CIFCategory.deserialize` of every category text. -/
def blockParse (text : Str) : Except Err (List (Option Str × (Str × Cols))) := do
  let cats ← blockDeserialize text
  mapM' (fun c => match categoryDeserialize c.2 with
    | .ok r => .ok (c.1, r)
    | .error e => .error e) cats

/-- `CIFFile.deserialize` followed by `blockParse` of every block text. -/
def fileParse (text : Str) : Except Err (List (Str × List (Option Str × (Str × Cols)))) :=
  mapM' (fun b => match blockParse b.2 with
    | .ok r => .ok (b.1, r)
    | .error e => .error e) (fileDeserialize text)

end BiotiteModel.C06

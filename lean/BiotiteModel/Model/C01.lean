import BiotiteModel.Common
/-!
# C01 — atom arrays and stacks (model of `structure/atoms.py`, index relabelling of `bonds.pyx`)

* values the code only *moves* (annotation values, coordinate vectors, box matrices) are opaque `Tok`ens;
* a container mirrors `_AtomArrayBase`: `_array_length`, the annotation dict (association list of
  columns), one coordinate block per model, `box` (one token per model), `bonds` (atom count + triples);
* one-axis numpy index semantics: `resolve n ix` (CPython `PySlice_AdjustIndices`, negative wrap,
  masks, index arrays, ellipsis);
* operations return `Except Err _`; `Err.other "unmodelled"` marks inputs the model says nothing about
  (the harness never generates them); a failed operation leaves the registers unchanged.
Import-free and executable (drives `Driver/C01.lean`).
-/
namespace BiotiteModel.C01

abbrev Tok := Nat
/-- `(i, j, bond type)` with `i < j` -/
abbrev Bond := Nat × Nat × Nat

def unmodelled : Err := .other "unmodelled"
/-- the real code performs an unchecked out-of-range read here (undefined behaviour) -/
def ub : Err := .other "ub"

/-! ## One axis of numpy indexing -/

inductive MaskKind where
  | nd        -- contiguous boolean ndarray
  | strided   -- boolean ndarray view with a stride (`mask[::2]`)
  | list      -- python list of bools
  | readonly  -- contiguous boolean ndarray with `flags.writeable = False`
  deriving DecidableEq, Repr

inductive ArrKind where
  | list      -- python list of ints
  | nd        -- integer ndarray (any width, signed or unsigned, strided or read-only: all behave alike)
  | swapped   -- integer ndarray of non-native byte order
  deriving DecidableEq, Repr

inductive Index where
  | int (i : Int)
  | slice (start stop step : Option Int)
  | mask (bs : List Bool) (kind : MaskKind)
  | arr (is : List Int) (kind : ArrKind)
  | ellipsis
  deriving DecidableEq, Repr

/-- negative wrap + bounds check of one integer index -/
def normInt (n : Nat) (i : Int) : Except Err Nat :=
  if 0 ≤ i ∧ i < (n : Int) then .ok i.toNat
  else if i < 0 ∧ -(n : Int) ≤ i then .ok (i + n).toNat
  else .error .indexError

def normAll (n : Nat) : List Int → Except Err (List Nat)
  | [] => .ok []
  | i :: is =>
    match normInt n i, normAll n is with
    | .ok k, .ok ks => .ok (k :: ks)
    | _, _ => .error .indexError

/-- positions of `true`, counted from `k` -/
def maskSel : List Bool → Nat → List Nat
  | [], _ => []
  | b :: bs, k => if b then k :: maskSel bs (k + 1) else maskSel bs (k + 1)

/-- `PySlice_AdjustIndices` clamp for a positive step: into `[0, n]` -/
def clampUp (n : Nat) (x : Int) : Nat :=
  if x < 0 then (if x + n < 0 then 0 else (x + n).toNat) else (if x > n then n else x.toNat)

/-- clamp for a negative step, shifted by one: python's value lies in `[-1, n-1]`, this is that value `+ 1` -/
def clampDown (n : Nat) (x : Int) : Nat :=
  if x < 0 then (if x + n < 0 then 0 else (x + n).toNat + 1) else (if x ≥ n then n else x.toNat + 1)

/-- slice length as computed by CPython -/
def sliceCount (lo hi step : Nat) : Nat := if lo < hi then (hi - lo - 1) / step + 1 else 0

def rangeUp (lo cnt step : Nat) : List Nat := (List.range cnt).map (fun j => lo + j * step)
/-- `lo1` is the (python) start plus one -/
def rangeDown (lo1 cnt step : Nat) : List Nat := (List.range cnt).map (fun j => lo1 - 1 - j * step)

/-- python's normalised start/stop for a positive step (defaults `0`, `n`) -/
def startUp (n : Nat) : Option Int → Nat | none => 0 | some x => clampUp n x
def stopUp (n : Nat) : Option Int → Nat | none => n | some x => clampUp n x
/-- python's normalised start/stop **plus one** for a negative step (defaults `n-1`, `-1`) -/
def startDown (n : Nat) : Option Int → Nat | none => n | some x => clampDown n x
def stopDown (n : Nat) : Option Int → Nat | none => 0 | some x => clampDown n x

def sliceSel (n : Nat) (start stop : Option Int) (step : Int) : List Nat :=
  if step > 0 then
    rangeUp (startUp n start) (sliceCount (startUp n start) (stopUp n stop) step.toNat) step.toNat
  else
    rangeDown (startDown n start) (sliceCount (stopDown n stop) (startDown n start) (-step).toNat) (-step).toNat

/-- `np.arange(n)[ix]` as a list (an integer gives a one-element list). -/
def resolve (n : Nat) : Index → Except Err (List Nat)
  | .int i => (normInt n i).map (fun k => [k])
  | .slice a b c =>
    let step := c.getD 1
    if step = 0 then .error .valueError else .ok (sliceSel n a b step)
  | .mask bs kind =>
    if bs = [] then .ok []        -- numpy accepts a size-0 boolean index on any axis (and `[]` is an empty index list)
    else if bs.length = n then .ok (maskSel bs 0) else .error .indexError
  | .arr is _ => normAll n is
  | .ellipsis => .ok (List.range n)

/-! ## Containers -/

structure Bonds where
  count : Nat
  bs : List Bond
  deriving DecidableEq, Repr

structure Arr where
  stack : Bool
  n : Nat                                  -- `_array_length`
  annot : List (String × List Tok)         -- `_annot`
  coord : List (List Tok)                  -- `_coord`: one block per model (an AtomArray has exactly one)
  box : Option (List Tok)                  -- `_box`: one token per model
  bonds : Option Bonds                     -- `_bonds`
  deriving DecidableEq, Repr

structure AtomV where
  annot : List (String × Tok)
  coord : Tok
  deriving DecidableEq, Repr

inductive Val where
  | none
  | atom (a : AtomV)
  | arr (a : Arr)
  deriving DecidableEq, Repr

def mandatory : List String := ["chain_id", "res_id", "ins_code", "res_name", "hetero", "atom_name", "element"]

/-- apply `f` to every value of a dict -/
def mapVals (f : α → β) (d : List (String × α)) : List (String × β) := d.map (fun p => (p.1, f p.2))

/-- dtype kind (numpy `dtype.kind`, `i` for any integer) of an annotation category as the harness builds it: the
mandatory ones as `_AtomArrayBase.__init__` creates them, extra ones by the first letter of their name -/
def kindOf (k : String) : String :=
  if k == "res_id" then "i" else if k == "hetero" then "b"
  else if mandatory.contains k then "U"
  else match k.toList with
    | 'i' :: _ => "i" | 'f' :: _ => "f" | 's' :: _ => "U" | 'b' :: _ => "b"
    | 'v' :: _ => "i"       -- an integer annotation of shape (n, 2): one opaque token per atom stands for its row
    | _ => "?"

def pick (xs : List Tok) (sel : List Nat) : List Tok := sel.map (fun i => xs.getD i 0)

def lookup (k : String) : List (String × α) → Option α
  | [] => none
  | (k', v) :: r => if k' = k then some v else lookup k r

/-- dict assignment: replace in place or append -/
def insert (k : String) (v : α) : List (String × α) → List (String × α)
  | [] => [(k, v)]
  | (k', v') :: r => if k' = k then (k, v) :: r else (k', v') :: insert k v r

def hasKey (k : String) (d : List (String × α)) : Bool := d.any (fun p => p.1 == k)

/-! ### bonds: relabelling under a selection, offsets under concatenation -/

/-- position of atom `i` in the selection (the inverse index of `bonds.pyx`) -/
def pos : List Nat → Nat → Option Nat
  | [], _ => none
  | x :: xs, i => if x = i then some 0 else (pos xs i).map (· + 1)

/-- `BondList.__getitem__` for a duplicate-free selection: bonds with both atoms selected survive with the
new positions, each pair re-sorted. -/
def relabel (bs : List Bond) (sel : List Nat) : List Bond :=
  bs.filterMap (fun b =>
    match pos sel b.1, pos sel b.2.1 with
    | some a, some c => some (min a c, max a c, b.2.2)
    | _, _ => none)

def hasDup : List Nat → Bool
  | [] => false
  | x :: xs => xs.contains x || hasDup xs

def Bonds.select (b : Bonds) (sel : List Nat) : Bonds := ⟨sel.length, relabel b.bs sel⟩

def offsetBonds (k : Nat) (bs : List Bond) : List Bond := bs.map (fun b => (b.1 + k, b.2.1 + k, b.2.2))

/-- `BondList.concatenate` -/
def Bonds.concat : List Bonds → Bonds
  | [] => ⟨0, []⟩
  | b :: r => let t := Bonds.concat r; ⟨b.count + t.count, b.bs ++ offsetBonds b.count t.bs⟩

/-! ### `_subarray`, `get_atom`, `get_array` -/

/-- error of `BondList.__getitem__` on the given kind of index -/
def bondsIndexErr (ix : Index) (sel : List Nat) : Option Err :=
  match ix with
  | .mask bs .strided => if bs.length ≥ 2 then some .valueError else none     -- np.frombuffer: not C-contiguous
  | .mask _ .nd => none
  | .mask _ .readonly => some .valueError      -- typed memoryview: "buffer source array is read-only"
  | .arr _ .swapped => some .valueError        -- typed memoryview: "Big-endian buffer not supported"
  | _ => if hasDup sel then some .notImplemented else none

/-- `BondList.__getitem__` reads `mask_v[atom]` for every bond without bounds check: a size-0 ndarray mask
(which numpy accepts on any axis) on a bond list with at least one bond is an out-of-range read. -/
def bondsMaskUB (bs : List Bond) (ix : Index) : Bool :=
  match ix with
  | .mask [] .nd => !bs.isEmpty
  | .mask [] .strided => !bs.isEmpty
  | _ => false

/-- the error (if any) of `self._bonds[index]` -/
def bondsErr (bs : List Bond) (ix : Index) (sel : List Nat) : Option Err :=
  if bondsMaskUB bs ix then some ub else bondsIndexErr ix sel

/-- `_subarray(index)`: one-dimensional index over the atom axis -/
def subarray (a : Arr) (ix : Index) : Except Err Arr :=
  if ix = .ellipsis then .error .indexError          -- `coord[..., ..., :]`
  else match resolve a.n ix with
  | .error e => .error e
  | .ok sel =>
    match (match a.bonds with | none => none | some b => bondsErr b.bs ix sel) with
    | some e => .error e
    | none => .ok { a with n := sel.length
                           annot := a.annot.map (fun p => (p.1, pick p.2 sel))
                           coord := a.coord.map (fun c => pick c sel)
                           bonds := a.bonds.map (·.select sel) }

def getAtom (a : Arr) (m : Nat) (k : Nat) : AtomV :=
  ⟨a.annot.map (fun p => (p.1, p.2.getD k 0)), (a.coord.getD m []).getD k 0⟩

/-- restrict a stack to the models `ms` -/
def selModels (a : Arr) (ms : List Nat) : Arr :=
  { a with coord := ms.map (fun m => a.coord.getD m []), box := a.box.map (fun b => pick b ms) }

/-- `AtomArrayStack.get_array(i)` -/
def getArray (a : Arr) (i : Int) : Except Err Arr :=
  match normInt a.coord.length i with
  | .error e => .error e
  | .ok m => .ok { selModels a [m] with stack := false }

/-- `AtomArray.__getitem__(index)` -/
def arrayGet (a : Arr) (ix : Index) : Except Err Val :=
  match ix with
  | .int i => (normInt a.n i).map (fun k => .atom (getAtom a 0 k))
  | _ => (subarray a ix).map .arr

/-- `__getitem__` with a one-dimensional index -/
def getitem (a : Arr) (ix : Index) : Except Err Val :=
  if !a.stack then arrayGet a ix
  else match ix with
    | .int i => (getArray a i).map .arr
    | _ => (resolve a.coord.length ix).map (fun ms => .arr (selModels a ms))

/-- atom-axis part of `stack[i0, i1]` when `i0` is not an integer: an integer `i1` keeps the dimension -/
def subarrayKeep (a : Arr) (i1 : Index) : Except Err Arr :=
  match i1 with
  | .int k => (normInt a.n k).bind (fun k' => subarray a (.slice (some k') (some (k' + 1)) none))
  | _ => subarray a i1

/-- `stack[i0, i1]` when `i0` is not an integer: atoms first, then models -/
def getitem2Rest (a : Arr) (i0 i1 : Index) : Except Err Val :=
  match subarrayKeep a i1 with
  | .error e => .error e
  | .ok s =>
    if i0 = .ellipsis then .ok (.arr s)
    else (resolve s.coord.length i0).map (fun ms => .arr (selModels s ms))

/-- `__getitem__` with a pair `(i0, i1)` -/
def getitem2 (a : Arr) (i0 i1 : Index) : Except Err Val :=
  if !a.stack then
    (if i0 = .ellipsis then arrayGet a i1 else .error .indexError)
  else match i0 with
    | .int i => (getArray a i).bind (fun x => arrayGet x i1)
    | _ => getitem2Rest a i0 i1

/-! ### element assignment, deletion -/

def setAt (xs : List Tok) (sel : List Nat) (v : Tok) : List Tok :=
  (List.range xs.length).map (fun i => if sel.contains i then v else xs.getD i 0)

/-- `isinstance(index, (numbers.Integral, np.ndarray))` -/
def setIndexOk : Index → Bool
  | .int _ => true | .mask _ .nd => true | .mask _ .strided => true | .mask _ .readonly => true
  | .arr _ .nd => true | .arr _ .swapped => true | _ => false

/-- `AtomArray.__setitem__(index, atom)` -/
def setElement (a : Arr) (ix : Index) (v : AtomV) : Except Err Arr :=
  if !setIndexOk ix then .error .typeError
  else if !(a.annot.all (fun p => hasKey p.1 v.annot)) then .error .keyError      -- checked before anything is written
  else match resolve a.n ix with
  | .error e => .error e
  | .ok sel =>
    .ok { a with annot := a.annot.map (fun p => (p.1, setAt p.2 sel ((lookup p.1 v.annot).getD 0)))
                 coord := a.coord.map (fun c => setAt c sel v.coord) }

def sortNames : List String → List String :=
  let rec ins (k : String) : List String → List String
    | [] => [k]
    | x :: r => if k < x then k :: x :: r else x :: ins k r
  fun l => l.foldr ins []

def sortedKeys (d : List (String × α)) : List String := sortNames (d.map (·.1))

/-- `equal_annotations` -/
def equalAnnot (a b : List (String × List Tok)) : Bool :=
  sortedKeys a == sortedKeys b && a.all (fun p => lookup p.1 b == some p.2)

def sortBonds (bs : List Bond) : List Bond :=
  let lt (x y : Bond) : Bool := x.1 < y.1 || (x.1 == y.1 && (x.2.1 < y.2.1 || (x.2.1 == y.2.1 && x.2.2 < y.2.2)))
  let rec ins (b : Bond) : List Bond → List Bond
    | [] => [b]
    | x :: r => if lt b x then b :: x :: r else x :: ins b r
  bs.foldr ins []

/-- `BondList.__eq__` (or both `None`) -/
def equalBonds : Option Bonds → Option Bonds → Bool
  | none, none => true
  | some x, some y => x.count == y.count && sortBonds x.bs == sortBonds y.bs
  | _, _ => false

def replaceAt (xs : List α) (m : Nat) (v : α) : List α := xs.set m v

/-- `AtomArrayStack.__setitem__(index, array)` -/
def setModel (a : Arr) (ix : Index) (v : Val) : Except Err Arr :=
  match v with
  | .arr x =>
    if x.stack then .error unmodelled
    else if x.n != a.n then .error .valueError            -- unequal annotations / shapes do not broadcast
    else if !equalAnnot a.annot x.annot then .error .valueError
    else if !equalBonds a.bonds x.bonds then .error .valueError
    else match ix with
      | .int i =>
        -- a stack with boxes refuses an array without box (checked before anything is written);
        -- a stack without boxes ignores the array's box
        if a.box.isSome && !x.box.isSome then .error .valueError
        else match normInt a.coord.length i with
        | .error e => .error e
        | .ok m =>
          .ok { a with coord := replaceAt a.coord m (x.coord.getD 0 [])
                       box := a.box.map (fun b => replaceAt b m ((x.box.getD []).getD 0 0)) }
      | _ => .error .typeError
  | _ => .error .valueError

def setitem (a : Arr) (ix : Index) (v : Val) : Except Err Arr :=
  if a.stack then setModel a ix v
  else match v with
    | .atom t => setElement a ix t
    | _ => .error unmodelled

/-- `__delitem__`: an atom of an array, a model of a stack -/
def delitem (a : Arr) (ix : Index) : Except Err Arr :=
  match ix with
  | .int i =>
    if a.stack then
      match normInt a.coord.length i with
      | .error e => .error e
      | .ok m => .ok { a with coord := a.coord.eraseIdx m, box := a.box.map (·.eraseIdx m) }
    else
      match normInt a.n i with
      | .error e => .error e
      | .ok k =>
        let keep := List.range k ++ List.range' (k + 1) (a.n - 1 - k)     -- every atom but `k`
        .ok { a with n := a.n - 1
                     annot := a.annot.map (fun p => (p.1, p.2.eraseIdx k))
                     coord := a.coord.map (·.eraseIdx k)
                     bonds := a.bonds.map (·.select keep) }
  | _ => .error .typeError

/-! ### constructors over several containers -/

def zeros (n : Nat) : List Tok := List.replicate n 0

def mandCols (n : Nat) : List (String × List Tok) := mandatory.map (fun k => (k, zeros n))

def joinCols (xs : List (List Tok)) : List Tok := xs.foldr (· ++ ·) []

/-- column `k` of every element, concatenated (`none` if one lacks it) -/
def concatCol (k : String) : List Arr → Option (List Tok)
  | [] => some []
  | a :: r => match lookup k a.annot, concatCol k r with
    | some c, some cs => some (c ++ cs)
    | _, _ => none

/-- block `m` of every element, concatenated along the atom axis -/
def concatBlock (m : Nat) (xs : List Arr) : List Tok := joinCols (xs.map (fun a => a.coord.getD m []))

def firstBox : List Arr → Option (List Tok)
  | [] => none
  | a :: r => match a.box with | some b => some b | none => firstBox r

/-- the type / depth checks of the loop in `concatenate` -/
def concatCheck (stack : Bool) (depth : Nat) : List Arr → Except Err Unit
  | [] => .ok ()
  | a :: r =>
    if a.stack != stack then .error .typeError
    else if a.coord.length != depth then .error .indexError
    else concatCheck stack depth r

def totalLen (xs : List Arr) : Nat := (xs.map (·.n)).foldr (· + ·) 0

/-- `concatenate(atoms)` -/
def concatenate (xs : List Arr) : Except Err Arr :=
  match xs.head? with
  | none => .error .indexError
  | some f =>
    match concatCheck f.stack f.coord.length xs with
    | .error e => .error e
    | .ok _ =>
      let n := totalLen xs
      let common := f.annot.filterMap (fun p => (concatCol p.1 xs).map (fun c => (p.1, c)))
      let base := mandCols n
      .ok { stack := f.stack, n := n
            annot := common.foldl (fun d p => insert p.1 p.2 d) base
            coord := (List.range f.coord.length).map (fun m => concatBlock m xs)
            box := firstBox xs
            bonds := if xs.any (·.bonds.isSome) then
                       some (Bonds.concat (xs.map (fun a => a.bonds.getD ⟨a.n, []⟩)))
                     else none }

/-- `stack(arrays)` -/
def stackArrays (xs : List Arr) : Except Err Arr :=
  match xs.head? with
  | none => .error (.other "AttributeError")
  | some f =>
    if xs.any (·.stack) then .error unmodelled
    else if !(xs.all (fun a => a.n == f.n)) then .error .valueError      -- unequal annotations / shapes differ
    else if !(xs.all (fun a => equalAnnot a.annot f.annot)) then .error .valueError
    else .ok { stack := true, n := f.n, annot := f.annot
               coord := xs.map (fun a => a.coord.getD 0 [])
               box := if xs.all (·.box.isSome) then some (xs.map (fun a => (a.box.getD []).getD 0 0)) else none
               bonds := f.bonds }

def sameKeys (a b : List (String × Tok)) : Bool := sortedKeys a == sortedKeys b

/-- `array(atoms)` -/
def arrayOf (xs : List AtomV) : Except Err Arr :=
  match xs with
  | [] => .error .indexError
  | f :: _ =>
    if !(xs.all (fun a => sameKeys a.annot f.annot)) then .error .valueError
    else
      let cols := f.annot.map (fun p => (p.1, xs.map (fun a => (lookup p.1 a.annot).getD 0)))
      .ok { stack := false, n := xs.length
            annot := cols.foldl (fun d p => insert p.1 p.2 d) (mandCols xs.length)
            coord := [xs.map (·.coord)], box := none, bonds := none }

def tile (k : Nat) (xs : List Tok) : List Tok := joinCols (List.replicate k xs)

def chunks (size : Nat) : Nat → List Tok → List (List Tok)
  | 0, _ => []
  | c + 1, xs => xs.take size :: chunks size c (xs.drop size)

/-- coordinates of `repeat`: the input is a `(k, depth, n)` array (flat, row-major); model `m` of the result is
the concatenation over the repeats `j` of `coord[j, m]` (`np.swapaxes(coord, 0, 1).reshape(depth, k*n)`). -/
def repCoord (n k depth : Nat) (toks : List Tok) : List (List Tok) :=
  (List.range depth).map (fun m => (List.range (n * k)).map (fun t => toks.getD (((t / n) * depth + m) * n + t % n) 0))

def bondsCountBad (bonds : Option Bonds) (n : Nat) : Bool :=
  match bonds with | some b => b.count != n | none => false

/-- `repeat(atoms, coord)` with `coord` given as the flat token list of a `(k, [depth,] n, 3)` array -/
def repeatArr (a : Arr) (k : Nat) (toks : List Tok) : Except Err Arr :=
  if toks.length ≠ k * a.coord.length * a.n then .error .valueError
  else
    let bonds := a.bonds.map (fun b => Bonds.concat (List.replicate (max k 1) b))
    if bondsCountBad bonds (a.n * k) then .error .valueError
    else .ok { a with n := a.n * k
                      annot := a.annot.map (fun p => (p.1, tile k p.2))
                      coord := repCoord a.n k a.coord.length toks
                      bonds := bonds }

/-- a box whose number of models differs from the coordinates: refused by a stack (`ValueError`); for an atom
array the protocol cannot express it -/
def boxErr (stack : Bool) : Err := if stack then .valueError else unmodelled

def boxDepthBad (box : Option (List Tok)) (d : Nat) : Bool :=
  match box with | some b => b.length != d | none => false

def bondsBad (n : Nat) (bonds : Option (List Bond)) : Bool :=
  match bonds with | some l => !(l.all (fun b => b.1 < b.2.1 && b.2.1 < n)) | none => false

/-- `from_template(template, coord, box)`; a box whose depth differs is accepted by the code and not modelled -/
def fromTemplate (a : Arr) (coord : List (List Tok)) (box : Option (List Tok)) : Except Err Arr :=
  if !(coord.all (fun c => c.length == a.n)) then .error .valueError
  else if boxDepthBad box coord.length then .error .valueError
  else .ok { a with stack := true, coord := coord, box := box }

/-! ### annotation edits and attribute setters -/

def addAnnotation (a : Arr) (k : String) : Arr :=
  if hasKey k a.annot then a else { a with annot := a.annot ++ [(k, zeros a.n)] }

def setAnnotation (a : Arr) (k : String) (c : List Tok) : Except Err Arr :=
  if c.length ≠ a.n then .error .indexError else .ok { a with annot := insert k c a.annot }

def delAnnotation (a : Arr) (k : String) : Except Err Arr :=
  if mandatory.contains k then .error unmodelled
  else .ok { a with annot := a.annot.filter (fun p => p.1 != k) }

def setCoord (a : Arr) (coord : List (List Tok)) : Except Err Arr :=
  if !a.stack && coord.length != 1 then .error unmodelled
  else if !(coord.all (fun c => c.length == a.n)) then .error .valueError
  else if a.box.isSome && coord.length != a.coord.length then .error .valueError    -- the box would keep its depth
  else .ok { a with coord := coord }

def setBox (a : Arr) (box : Option (List Tok)) : Except Err Arr :=
  if boxDepthBad box a.coord.length then .error (boxErr a.stack)
  else .ok { a with box := box }

def bondsValid (n : Nat) (bs : List Bond) : Bool := bs.all (fun b => b.1 < b.2.1 && b.2.1 < n)

def setBonds (a : Arr) (bs : Option (List Bond)) : Except Err Arr :=
  match bs with
  | none => .ok { a with bonds := none }
  | some l => if bondsValid a.n l then .ok { a with bonds := some ⟨a.n, l⟩ } else .error unmodelled

/-- what the harness builds for a `new` line: `AtomArray(n)` / `AtomArrayStack(depth, n)`, `set_annotation`
for each column, then the `coord`, `box`, `bonds` setters -/
def mkNew (stack : Bool) (n : Nat) (cols : List (String × List Tok)) (coord : List (List Tok))
    (box : Option (List Tok)) (bonds : Option (List Bond)) : Except Err Arr :=
  if !(cols.all (fun p => p.2.length == n)) || !(coord.all (fun c => c.length == n)) then .error unmodelled
  else if !stack && coord.length != 1 then .error unmodelled
  else if boxDepthBad box coord.length then .error (boxErr stack)
  else if bondsBad n bonds then .error unmodelled
  else .ok { stack := stack, n := n
             annot := cols.foldl (fun d p => insert p.1 p.2 d) (mandCols n)
             coord := coord, box := box, bonds := bonds.map (fun l => ⟨n, l⟩) }

def mkAtom (cols : List (String × Tok)) (c : Tok) : AtomV :=
  ⟨cols.foldl (fun d p => insert p.1 p.2 d) (mandatory.map (fun k => (k, 0))), c⟩

/-- `==` of two containers -/
def equalArr (a b : Arr) : Bool :=
  a.stack == b.stack && a.n == b.n && equalAnnot a.annot b.annot && equalBonds a.bonds b.bonds && a.box == b.box
    && a.coord == b.coord

/-! ## The register machine driven by the protocol -/

abbrev State := List Val
def init : State := [.none, .none, .none, .none]

inductive Op where
  | new (d : Nat) (stack : Bool) (n : Nat) (cols : List (String × List Tok)) (coord : List (List Tok))
        (box : Option (List Tok)) (bonds : Option (List Bond))
  | atom (d : Nat) (cols : List (String × Tok)) (c : Tok)
  | get (d s : Nat) (ix : Index)
  | get2 (d s : Nat) (i0 i1 : Index)
  | set (s : Nat) (ix : Index) (v : Nat)
  | del (s : Nat) (ix : Index)
  | concat (d : Nat) (ss : List Nat)
  | stack (d : Nat) (ss : List Nat)
  | array (d : Nat) (ss : List Nat)
  | rep (d s k : Nat) (toks : List Tok)
  | tmpl (d s : Nat) (coord : List (List Tok)) (box : Option (List Tok))
  | addann (s : Nat) (k : String)
  | setann (s : Nat) (k : String) (c : List Tok)
  | delann (s : Nat) (k : String)
  | setcoord (s : Nat) (coord : List (List Tok))
  | setbox (s : Nat) (box : Option (List Tok))
  | setbonds (s : Nat) (bs : Option (List Bond))
  | copy (d s : Nat)
  | eq (s t : Nat)

inductive Out where
  | val (v : Val)      -- the target register
  | all                -- every register (after an in-place assignment)
  | bool (b : Bool)
  | err (e : Err)

def reg (st : State) (i : Nat) : Val := st.getD i .none

def arrOf (st : State) (i : Nat) : Except Err Arr :=
  match reg st i with
  | .arr a => .ok a
  | _ => .error unmodelled

def arrsOf (st : State) : List Nat → Except Err (List Arr)
  | [] => .ok []
  | i :: r => match arrOf st i, arrsOf st r with
    | .ok a, .ok as => .ok (a :: as)
    | _, _ => .error unmodelled

def atomsOf (st : State) : List Nat → Except Err (List AtomV)
  | [] => .ok []
  | i :: r => match reg st i, atomsOf st r with
    | .atom a, .ok as => .ok (a :: as)
    | _, _ => .error unmodelled

/-- store `r` into register `d` (if it is a value), report it -/
def put (st : State) (d : Nat) (r : Except Err Val) : State × Out :=
  match r with
  | .ok v => (st.set d v, .val v)
  | .error e => (st, .err e)

def putArr (st : State) (d : Nat) (r : Except Err Arr) : State × Out := put st d (r.map .arr)

def step (st : State) : Op → State × Out
  | .new d stack n cols coord box bonds => putArr st d (mkNew stack n cols coord box bonds)
  | .atom d cols c => put st d (.ok (.atom (mkAtom cols c)))
  | .get d s ix => put st d ((arrOf st s).bind (fun a => getitem a ix))
  | .get2 d s i0 i1 => put st d ((arrOf st s).bind (fun a => getitem2 a i0 i1))
  | .set s ix v =>
    match (arrOf st s).bind (fun a => setitem a ix (reg st v)) with
    | .ok a => (st.set s (.arr a), .all)
    | .error e => (st, .err e)
  | .del s ix => putArr st s ((arrOf st s).bind (fun a => delitem a ix))
  | .concat d ss => putArr st d ((arrsOf st ss).bind concatenate)
  | .stack d ss => putArr st d ((arrsOf st ss).bind stackArrays)
  | .array d ss => putArr st d ((atomsOf st ss).bind arrayOf)
  | .rep d s k toks => putArr st d ((arrOf st s).bind (fun a => repeatArr a k toks))
  | .tmpl d s coord box => putArr st d ((arrOf st s).bind (fun a => fromTemplate a coord box))
  | .addann s k => putArr st s ((arrOf st s).map (fun a => addAnnotation a k))
  | .setann s k c => putArr st s ((arrOf st s).bind (fun a => setAnnotation a k c))
  | .delann s k => putArr st s ((arrOf st s).bind (fun a => delAnnotation a k))
  | .setcoord s coord => putArr st s ((arrOf st s).bind (fun a => setCoord a coord))
  | .setbox s box => putArr st s ((arrOf st s).bind (fun a => setBox a box))
  | .setbonds s bs => putArr st s ((arrOf st s).bind (fun a => setBonds a bs))
  | .copy d s =>
    match reg st s with
    | .none => (st, .err unmodelled)
    | v => (st.set d v, .val v)
  | .eq s t =>
    match arrOf st s, arrOf st t with
    | .ok a, .ok b => (st, .bool (equalArr a b))
    | _, _ => (st, .err unmodelled)

def run (st : State) (ops : List Op) : State := ops.foldl (fun s op => (step s op).1) st

end BiotiteModel.C01

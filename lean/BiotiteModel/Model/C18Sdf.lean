import BiotiteModel.Model.C18
/-!
# C18 — SD files (model of `structure/io/mol/sdf.py`, `header.py`)

A text is modelled as its list of lines (`str.splitlines()` / `"\n".join(...) + "\n"` are not
modelled; the hypothesis everywhere is that no line contains a line-break character, which the
driver enforces).  A metadata value is the list of its lines (`value.split("\n")`).
-/
namespace BiotiteModel.C18

def deserErr : Err := .other "DeserializationError"

/-! ## Metadata keys -/

structure Key where
  number : Option Nat
  name : Option Line
  regInt : Option Nat
  regExt : Option Line
  deriving DecidableEq, Repr

def isAlnumC (c : Char) : Bool :=
  (48 ≤ c.toNat && c.toNat ≤ 57) || (65 ≤ c.toNat && c.toNat ≤ 90) || (97 ≤ c.toNat && c.toNat ≤ 122)
/-- ASCII `\w`. -/
def isWordC (c : Char) : Bool := isAlnumC c || c == '_'

/-- `[a-zA-Z0-9][\w.]*` (full match). -/
def nameOk : Line → Bool
  | [] => false
  | c :: cs => isAlnumC c && cs.all fun c => isWordC c || c == '.'

/-- `[\w.-]*`. -/
def extOk (s : Line) : Bool := s.all fun c => isWordC c || c == '.' || c == '-'

/-- `Metadata.Key(number=…, name=…, …)`: the checks of `__post_init__`. -/
def Key.valid (k : Key) : Bool :=
  (k.number.isSome || k.name.isSome) && (match k.name with | some s => nameOk s | none => true)
    && (match k.regExt with | some s => extOk s | none => true)

/-- `_check_metadata_value` on the lines of a value (`value.split("\n")`): not empty, no blank line,
no line that starts with `>` after `strip()`. -/
def valueOk (v : List Line) : Bool :=
  !v.isEmpty && v.all fun l => !(strip l).isEmpty && !startsWith ['>'] (strip l)

def Key.serialize (k : Key) : Line :=
  "> ".toList
    ++ (match k.number with | some n => "DT".toList ++ natRepr n ++ [' '] | none => [])
    ++ (match k.name with | some s => '<' :: s ++ ['>', ' '] | none => [])
    ++ (match k.regInt with | some n => natRepr n ++ [' '] | none => [])
    ++ (match k.regExt with | some s => '(' :: s ++ [')', ' '] | none => [])

inductive Comp where
  | number (n : Nat) | name (s : Line) | regInt (n : Nat) | regExt (s : Line)
  deriving DecidableEq, Repr

/-- `body ++ [close]` → `body`. -/
def stripClose (close : Char) (s : Line) : Option Line :=
  match s.reverse with
  | c :: r => if c == close then some r.reverse else none
  | [] => none

/-- The four `_COMPONENT_REGEX` patterns, tried in the order of the dict. -/
def classify (c : Line) : Option Comp :=
  match (match c with | 'D' :: 'T' :: ds => digitsVal ds | _ => none) with
  | some n => some (.number n)
  | none =>
  match (match c with | '<' :: r => (stripClose '>' r).filter nameOk | _ => none) with
  | some s => some (.name s)
  | none =>
  match digitsVal c with
  | some n => some (.regInt n)
  | none =>
  match (match c with | '(' :: r => (stripClose ')' r).filter extOk | _ => none) with
  | some s => some (.regExt s)
  | none => none

def addComp (k : Key) : Comp → Except Err Key
  | .number n => if k.number.isSome then .error deserErr else .ok { k with number := some n }
  | .name s => if k.name.isSome then .error deserErr else .ok { k with name := some s }
  | .regInt n => if k.regInt.isSome then .error deserErr else .ok { k with regInt := some n }
  | .regExt s => if k.regExt.isSome then .error deserErr else .ok { k with regExt := some s }

def addComps (k : Key) : List Line → Except Err Key
  | [] => .ok k
  | c :: cs => match classify c with
    | none => .error deserErr
    | some comp => do let k ← addComp k comp; addComps k cs

/-- `Metadata.Key.deserialize(text)`. -/
def Key.deserialize (text : Line) : Except Err Key := do
  let k ← addComps ⟨none, none, none, none⟩ (splitWs (text.drop 1))
  if k.number.isNone && k.name.isNone then .error .valueError else .ok k

/-! ## Metadata -/

abbrev Metadata := List (Key × List Line)

/-- `d[k] = v` on an insertion-ordered dict. -/
def dictSet {κ ν : Type} [DecidableEq κ] (k : κ) (v : ν) : List (κ × ν) → List (κ × ν)
  | [] => [(k, v)]
  | (k', v') :: rest => if k' = k then (k', v) :: rest else (k', v') :: dictSet k v rest

/-- `metadata[key] = value` (`Metadata.__setitem__`, and each item of the constructor). -/
def Metadata.setItem (md : Metadata) (k : Key) (v : List Line) : Except Err Metadata :=
  if !k.valid || !valueOk v then .error .valueError else .ok (dictSet k v md)

def Metadata.serialize (md : Metadata) : List Line :=
  md.flatMap fun kv => kv.1.serialize :: kv.2 ++ [[]]

def flush (md : Metadata) (cur : Option (Key × Option (List Line))) : Except Err Metadata :=
  match cur with
  | none => .ok md
  | some (_, none) => .error deserErr
  | some (k, some v) => .ok (dictSet k v.reverse md)

/-- `Metadata.deserialize`: `cur` is the key being filled and its value lines (reversed). -/
def mdLoop (md : Metadata) (cur : Option (Key × Option (List Line))) : List Line → Except Err Metadata
  | [] => flush md cur
  | l :: ls =>
    let l := strip l
    if l.isEmpty then mdLoop md cur ls
    else if startsWith ['>'] l then do
      let md ← flush md cur
      let k ← Key.deserialize l
      mdLoop md (some (k, none)) ls
    else match cur with
      | none => .error deserErr
      | some (k, none) => mdLoop md (some (k, some [l])) ls
      | some (k, some v) => mdLoop md (some (k, some (l :: v))) ls

def Metadata.deserialize (lines : List Line) : Except Err Metadata := mdLoop [] none lines

/-! ## Records -/

def delim : Line := "$$$$".toList

/-- `SDFile.serialize` on records given as their lines. -/
def joinRecords (recs : List (List Line)) : List Line := recs.flatMap fun r => r ++ [delim]

/-- Chunks of an SD file: `(lines[start:end], lines[start].strip())`; lines after the last
delimiter are ignored. -/
def splitLoop (cur : List Line) : List Line → List (Line × List Line)
  | [] => []
  | l :: ls =>
    if startsWith delim l then
      let chunk := cur.reverse
      ((match chunk with | [] => strip l | f :: _ => strip f), chunk) :: splitLoop [] ls
    else splitLoop (l :: cur) ls

/-- `SDFile.deserialize(text)`: record names and record lines, as an insertion-ordered dict. -/
def splitRecords (lines : List Line) : Except Err (List (Line × List Line)) :=
  match lines with
  | [] => .error .indexError
  | f :: _ =>
    if lines.any (startsWith delim) then
      .ok ((splitLoop [] lines).foldl (fun d r => dictSet r.1 r.2 d) [])
    else .ok [(strip f, lines.dropLast)]

/-- `_get_ctab_stop(lines)`. -/
def ctabStop : Nat → List Line → Nat
  | i, [] => i
  | i, l :: ls => if i ≥ 3 ∧ startsWith mEnd l then i + 1 else ctabStop (i + 1) ls

/-- `SDRecord.deserialize`: header, ctab and metadata lines. -/
def recordParts (lines : List Line) : List Line × List Line × List Line :=
  let stop := ctabStop 0 lines
  (lines.take 3, (lines.drop 3).take (stop - 3), lines.drop stop)

/-! ## Header -/

structure Header where
  molName : Line
  initials : Line
  program : Line
  time : Option (Nat × Nat × Nat × Nat × Nat)      -- month, day, year % 100, hour, minute
  dimensions : Line
  scaling : Line
  energy : Line
  registry : Line
  comments : Line
  deriving DecidableEq, Repr

/-- `f"{s:>w.w}"`: truncated to `w`, then right-aligned. -/
def fixR (w : Nat) (s : Line) : Line := padL w (s.take w)

def timeStr : Option (Nat × Nat × Nat × Nat × Nat) → Line
  | none => []
  | some (mo, d, y, h, mi) => fixedDigits 2 mo ++ fixedDigits 2 d ++ fixedDigits 2 y ++ fixedDigits 2 h ++ fixedDigits 2 mi

def Header.serialize (h : Header) : Except Err (List Line) :=
  if h.molName.length > 80 then .error .valueError else
  .ok [h.molName,
       fixR 2 h.initials ++ fixR 8 h.program ++ fixR 10 (timeStr h.time) ++ fixR 2 h.dimensions
         ++ fixR 12 h.scaling ++ fixR 12 h.energy ++ fixR 6 h.registry,
       h.comments]

def two (s : Line) : Option Nat := if s.length = 2 then digitsVal s else none

/-- Days of a month; the two-digit year `y` stands for 1969…2068, where `y % 4 = 0` is exactly
the leap years (2000 is one). -/
def daysIn (mo y : Nat) : Nat :=
  match mo with
  | 2 => if y % 4 = 0 then 29 else 28
  | 4 | 6 | 9 | 11 => 30
  | _ => 31

def timeOk : Nat × Nat × Nat × Nat × Nat → Bool
  | (mo, d, y, h, mi) => 1 ≤ mo && mo ≤ 12 && 1 ≤ d && d ≤ daysIn mo y && y ≤ 99 && h ≤ 23 && mi ≤ 59

/-- `strptime(s, "%m%d%y%H%M")` for ten digits forming a valid date; everything else non-blank is
outside the model (the code warns and returns `None`, but `strptime` accepts more than ten
digits' worth of shapes). -/
def parseTime (s : Line) : Except Err (Option (Nat × Nat × Nat × Nat × Nat)) :=
  if (strip s).isEmpty then .ok none else
  match two (slice 0 2 s), two (slice 2 4 s), two (slice 4 6 s), two (slice 6 8 s), two (slice 8 10 s) with
  | some mo, some d, some y, some h, some mi =>
    if s.length = 10 ∧ timeOk (mo, d, y, h, mi) = true then .ok (some (mo, d, y, h, mi))
    else .error unmodelled
  | _, _, _, _, _ => .error unmodelled

/-- `Header.deserialize` on the three header lines. -/
def Header.deserialize : List Line → Except Err Header
  | l0 :: l1 :: l2 :: _ => do
    let t ← parseTime (slice 10 20 l1)
    pure ⟨strip l0, strip (slice 0 2 l1), strip (slice 2 10 l1), t, strip (slice 20 22 l1),
          strip (slice 22 34 l1), strip (slice 34 46 l1), strip (slice 46 52 l1), strip l2⟩
  | _ => .error .indexError

/-! ## Whole records and files -/

/-- An `SDRecord` as the user builds it: header, structure (`set_structure`), metadata. -/
structure SDRec where
  header : Header
  mol : Mol
  md : Metadata
  deriving DecidableEq, Repr

/-- What is read back from a record: `.header`, `.get_structure()`, `.metadata`. -/
structure SDRecR where
  header : Header
  mol : MolR
  md : Metadata
  deriving DecidableEq, Repr

/-- `SDRecord.serialize()` (as lines) after `set_structure(atoms, default_bond_type, version)`. -/
def SDRec.serialize (r : SDRec) (d : Nat) (v : Version) : Except Err (List Line) := do
  let hl ← r.header.serialize
  let cl ← writeCtab r.mol d v
  pure (hl ++ cl ++ Metadata.serialize r.md)

/-- `SDRecord.deserialize(text)` followed by `.header`, `.get_structure()`, `.metadata`
(the code wraps header and metadata errors into `DeserializationError`: `wrapDeser`). -/
def wrapDeser {α : Type} : Except Err α → Except Err α
  | .ok a => .ok a
  | .error (.other "unmodelled") => .error unmodelled
  | .error _ => .error deserErr

def SDRec.deserialize (lines : List Line) : Except Err SDRecR := do
  let p := recordParts lines
  let h ← wrapDeser (Header.deserialize p.1)
  if p.2.1.isEmpty then .error .invalidFile else
  let m ← readCtab p.2.1
  let md ← wrapDeser (Metadata.deserialize p.2.2)
  pure ⟨h, m, md⟩

/-- `SDFile` with one record per molecule name, `serialize()` as lines. -/
def serErr : Err := .other "SerializationError"

/-- no line of any record starts with the record delimiter (checked by `SDFile.serialize` after the
`fix:` commit) -/
def noDelimLines (recs : List (List Line)) : Bool := recs.all fun r => r.all fun l => !startsWith delim l

def sdfSerialize (rs : List SDRec) (d : Nat) (v : Version) : Except Err (List Line) := do
  let recs ← rs.mapM fun r => r.serialize d v
  if !noDelimLines recs then .error serErr else
  pure (joinRecords recs)

/-- `SDFile.deserialize(text)` and every record read completely: `(name, record)` in file order. -/
def sdfDeserialize (lines : List Line) : Except Err (List (Line × SDRecR)) := do
  let recs ← splitRecords lines
  recs.mapM fun nr => do
    let r ← SDRec.deserialize nr.2
    pure (nr.1, r)

end BiotiteModel.C18

import BiotiteModel.Common
/-!
# C05 — serialised encodings read back equal (`Encoding.serialize` / `Encoding.deserialize`, `deserialize_encoding`)

`Encoding.serialize` writes every annotated parameter under its camel-case name (`_snake_to_camel_case`) plus `"kind"`;
`deserialize_encoding` picks the class from `"kind"`, and `Encoding.deserialize` maps every key back with
`_camel_to_snake_case` and calls the constructor with these keyword arguments.  Whether an encoding reads back with the
parameters it was written with therefore hangs on the two name maps being mutually inverse on the declared parameter
names, and on the kind table being injective.  Names are modelled as `List Char` (ASCII).
-/
namespace BiotiteModel.C05

/-- `str.capitalize()` on an ASCII word. -/
def capWord : List Char → List Char
  | [] => []
  | c :: cs => c.toUpper :: cs.map Char.toLower

/-- `str.split("_")`. -/
def splitUnderscore : List Char → List (List Char)
  | [] => [[]]
  | c :: cs =>
    match splitUnderscore cs with
    | [] => [[c]]          -- unreachable: the result is never empty
    | w :: ws => if c = '_' then [] :: w :: ws else (c :: w) :: ws

/-- `_snake_to_camel_case` on the list of words: `"".join(word.capitalize() …)`, then `name[0].lower() + name[1:]`;
`none` is the `IndexError` of `attribute_name[0]` on an empty result. -/
def snakeToCamelW (ws : List (List Char)) : Option (List Char) :=
  match ws.flatMap capWord with
  | [] => none
  | c :: cs => some (c.toLower :: cs)

def snakeToCamel (name : List Char) : Option (List Char) := snakeToCamelW (splitUnderscore name)

/-- `CAMEL_CASE_PATTERN.sub("_", name).lower()` with the pattern `(?<!^)(?=[A-Z])`: an underscore before every upper-case
letter that is not the first character, then everything lower-cased. -/
def camelTail : List Char → List Char
  | [] => []
  | c :: cs => if c.isUpper then '_' :: c.toLower :: camelTail cs else c.toLower :: camelTail cs

def camelToSnake : List Char → List Char
  | [] => []
  | c :: cs => c.toLower :: camelTail cs

/-- `"_".join(words)`. -/
def joinUnderscore : List (List Char) → List Char
  | [] => []
  | [w] => w
  | w :: ws => w ++ '_' :: joinUnderscore ws

/-- A parameter word: lower-case ASCII letters and digits only. -/
def wordOk (w : List Char) : Bool := w.all fun c => c.isLower || c.isDigit
/-- A later word additionally starts with a letter (a digit has no upper case to mark the word boundary). -/
def laterWordOk (w : List Char) : Bool :=
  match w with
  | [] => false
  | c :: cs => c.isLower && wordOk cs
/-- Well-formed snake-case name as a word list: first word non-empty. -/
def wordsOk : List (List Char) → Bool
  | [] => false
  | w :: ws => !w.isEmpty && wordOk w && ws.all laterWordOk

/-- A serialised encoding: kind and the (name, value) pairs in declaration order. -/
structure SerEnc (V : Type) where
  kind : String
  params : List (String × V)
deriving Repr, DecidableEq

def camelS (s : String) : Option String := (snakeToCamel s.toList).map String.ofList
def snakeS (s : String) : String := String.ofList (camelToSnake s.toList)

/-- `Encoding.serialize`: class name → kind through the kinds table, parameter names to camel case. -/
def serializeEnc {V} (kinds : List (String × String)) (cls : String) (params : List (String × V)) : Option (SerEnc V) :=
  match kinds.lookup cls, params.mapM (fun p => (camelS p.1).map fun k => (k, p.2)) with
  | some k, some ps => some ⟨k, ps⟩
  | _, _ => none

/-- `deserialize_encoding`: kind → class through the classes table, keys back to snake case. -/
def deserializeEnc {V} (classes : List (String × String)) (s : SerEnc V) : Option (String × List (String × V)) :=
  match classes.lookup s.kind with
  | some cls => some (cls, s.params.map fun p => (snakeS p.1, p.2))
  | none => none

end BiotiteModel.C05

import BiotiteModel.Model.C18Sdf
/-!
# C18 — a parsed `SDFile` as a mutable mapping of lazily parsed records

`SDFile.deserialize` keeps every record as text; `file[name]` turns it into an `SDRecord`
(header, CTAB and metadata still text) and caches it; `record.header` / `record.metadata` parse
on first access and cache the parsed object, which is then edited in place.  `LFile` models that
state (text ⊕ parsed at both levels), `PFile` is the plain view where everything is parsed
(`none` = text that does not deserialise).  `Props/C18.lean` proves that an edit history on the
lazy container is the same history on the plain one.
-/
namespace BiotiteModel.C18

inductive Entry (ρ ν : Type) where
  | raw (r : ρ) | parsed (v : ν)
  deriving DecidableEq, Repr

structure LRec where
  header : Entry (List Line) Header
  ctab : List Line
  md : Entry (List Line) Metadata
  deriving DecidableEq, Repr

abbrev LFile := List (Line × Entry (List Line) LRec)

structure PRec where
  header : Option Header
  ctab : List Line
  md : Option Metadata
  deriving DecidableEq, Repr

abbrev PFile := List (Line × PRec)

def parseH (ls : List Line) : Option Header := (Header.deserialize ls).toOption
def parseM (ls : List Line) : Option Metadata := (Metadata.deserialize ls).toOption

/-- `SDRecord.deserialize(text)`: cut into three texts, nothing parsed. -/
def lrecOfLines (ls : List Line) : LRec :=
  let p := recordParts ls
  ⟨.raw p.1, p.2.1, .raw p.2.2⟩

def forceH : Entry (List Line) Header → Option Header
  | .raw r => parseH r
  | .parsed h => some h

def forceM : Entry (List Line) Metadata → Option Metadata
  | .raw r => parseM r
  | .parsed m => some m

def LRec.abs (r : LRec) : PRec := ⟨forceH r.header, r.ctab, forceM r.md⟩

def entryAbs : Entry (List Line) LRec → PRec
  | .raw ls => (lrecOfLines ls).abs
  | .parsed r => r.abs

/-- What the lazily held file *means*. -/
def LFile.abs (f : LFile) : PFile := f.map fun kv => (kv.1, entryAbs kv.2)

def lookupK {α : Type} (k : Line) : List (Line × α) → Option α
  | [] => none
  | (k', v) :: rest => if k' = k then some v else lookupK k rest

def eraseK {α : Type} (k : Line) : List (Line × α) → List (Line × α)
  | [] => []
  | (k', v) :: rest => if k' = k then rest else (k', v) :: eraseK k rest

/-- Edits of a parsed file: `file[k].header.<field> = …`, `file[k].metadata[...] = …` / `del`,
`file[k].set_structure(...)`, `file[new] = file[old]; del file[old]`, `del file[k]`,
`file[k] = SDRecord(header, ctab, metadata)`. -/
inductive EditOp where
  | editHeader (k : Line) (g : Header → Header)
  | editMd (k : Line) (g : Metadata → Metadata)
  | setCtab (k : Line) (c : List Line)
  | rename (old new : Line)
  | del (k : Line)
  | insert (k : Line) (h : Header) (c : List Line) (md : Metadata)
  /-- `file[k] = record` / one item of `SDFile({k: record, …})` for *any* `SDRecord` object, e.g. one
  taken from another parsed file whose header is still text: the header is parsed, renamed, cached. -/
  | adopt (k : Line) (r : LRec)

inductive EditOut where
  | unit | err (e : Err)
  deriving DecidableEq, Repr

/-- `file[k]`: the record, deserialised from its text on first access and cached. -/
def getRec (f : LFile) (k : Line) : Option (LFile × LRec) :=
  match lookupK k f with
  | none => none
  | some (.parsed r) => some (f, r)
  | some (.raw ls) => some (dictSet k (.parsed (lrecOfLines ls)) f, lrecOfLines ls)

def lazyStep (f : LFile) : EditOp → LFile × EditOut
  | .editHeader k g =>
    match getRec f k with
    | none => (f, .err .keyError)
    | some (f', r) =>
      match forceH r.header with
      | none => (f', .err deserErr)
      | some h => (dictSet k (.parsed { r with header := .parsed (g h) }) f', .unit)
  | .editMd k g =>
    match getRec f k with
    | none => (f, .err .keyError)
    | some (f', r) =>
      match forceM r.md with
      | none => (f', .err deserErr)
      | some m => (dictSet k (.parsed { r with md := .parsed (g m) }) f', .unit)
  | .setCtab k c =>
    match getRec f k with
    | none => (f, .err .keyError)
    | some (f', r) => (dictSet k (.parsed { r with ctab := c }) f', .unit)
  | .rename old new =>
    match getRec f old with
    | none => (f, .err .keyError)
    | some (f', r) =>
      match forceH r.header with
      | none => (f', .err deserErr)
      | some h =>
        (eraseK old (dictSet new (.parsed { r with header := .parsed { h with molName := new } }) f'), .unit)
  | .del k =>
    match lookupK k f with
    | none => (f, .err .keyError)
    | some _ => (eraseK k f, .unit)
  | .insert k h c md =>
    (dictSet k (.parsed ⟨.parsed { h with molName := k }, c, .parsed md⟩) f, .unit)
  | .adopt k r =>
    match forceH r.header with
    | none => (f, .err deserErr)
    | some h => (dictSet k (.parsed { r with header := .parsed { h with molName := k } }) f, .unit)

/-- The same edits on the plain mapping of parsed records. -/
def specStep (p : PFile) : EditOp → PFile × EditOut
  | .editHeader k g =>
    match lookupK k p with
    | none => (p, .err .keyError)
    | some r =>
      match r.header with
      | none => (p, .err deserErr)
      | some h => (dictSet k { r with header := some (g h) } p, .unit)
  | .editMd k g =>
    match lookupK k p with
    | none => (p, .err .keyError)
    | some r =>
      match r.md with
      | none => (p, .err deserErr)
      | some m => (dictSet k { r with md := some (g m) } p, .unit)
  | .setCtab k c =>
    match lookupK k p with
    | none => (p, .err .keyError)
    | some r => (dictSet k { r with ctab := c } p, .unit)
  | .rename old new =>
    match lookupK old p with
    | none => (p, .err .keyError)
    | some r =>
      match r.header with
      | none => (p, .err deserErr)
      | some h => (eraseK old (dictSet new { r with header := some { h with molName := new } } p), .unit)
  | .del k =>
    match lookupK k p with
    | none => (p, .err .keyError)
    | some _ => (eraseK k p, .unit)
  | .insert k h c md => (dictSet k ⟨some { h with molName := k }, c, some md⟩ p, .unit)
  | .adopt k r =>
    match r.abs.header with
    | none => (p, .err deserErr)
    | some h => (dictSet k { r.abs with header := some { h with molName := k } } p, .unit)

def lazyRun : LFile → List EditOp → LFile × List EditOut
  | f, [] => (f, [])
  | f, op :: ops =>
    let r := lazyStep f op
    let r' := lazyRun r.1 ops
    (r'.1, r.2 :: r'.2)

def specRun : PFile → List EditOp → PFile × List EditOut
  | p, [] => (p, [])
  | p, op :: ops =>
    let r := specStep p op
    let r' := specRun r.1 ops
    (r'.1, r.2 :: r'.2)

/-- `SDFile(records)` for a dict of `SDRecord` objects: every item is adopted under its key. -/
def sdfileOfDict (items : List (Line × LRec)) : LFile × List EditOut :=
  lazyRun [] (items.map fun kr => .adopt kr.1 kr.2)

/-! ### `MOLFile.set_structure` -/

/-- `MOLFile.set_structure(atoms, default_bond_type, version)` on the lines of the file: the new
line list is built first, so a rejected structure leaves the file as it was. -/
def molSetStructure (lines : List Line) (m : Mol) (d : Nat) (v : Version) : List Line × Option Err :=
  match writeCtab m d v with
  | .ok cl => (lines.take 3 ++ cl, none)
  | .error e => (lines, some e)

/-- `_get_ctab_lines` + `read_structure_from_ctab` (`MOLFile.get_structure`). -/
def molCtabLines (lines : List Line) : List Line :=
  (lines.drop 3).take (ctabStop 0 lines - 3)

def molGetStructure (lines : List Line) : Except Err MolR :=
  if (molCtabLines lines).isEmpty then .error .invalidFile else readCtab (molCtabLines lines)

/-! ### `MOLFile.header` (parsed on first access, cached, edited in place) -/

/-- A `MOLFile`: its lines and the `Header` object handed out by the `header` property, if any. -/
structure MolFile where
  lines : List Line
  cached : Option Header
  deriving DecidableEq, Repr

/-- `file.header`: parse the first three lines once, then always the same object. -/
def MolFile.getHeader (f : MolFile) : Except Err (MolFile × Header) :=
  match f.cached with
  | some h => .ok (f, h)
  | none => (Header.deserialize (f.lines.take 3)).map fun h => ({ f with cached := some h }, h)

/-- `file.header.<field> = …`: the cached object is edited in place. -/
def MolFile.editHeader (f : MolFile) (g : Header → Header) : Except Err MolFile :=
  f.getHeader.map fun fh => { fh.1 with cached := some (g fh.2) }

/-- What `write()` / `str()` / `copy()` emit (after the `fix:` commit): the header lines are brought
up to date from the cached object first. -/
def MolFile.written (f : MolFile) : Except Err (List Line) :=
  match f.cached with
  | none => .ok f.lines
  | some h => h.serialize.map fun hl => hl ++ f.lines.drop 3

/-- `SDFile.deserialize(text)`: every record still text. -/
def lazyOfRecords (recs : List (Line × List Line)) : LFile := recs.map fun nr => (nr.1, .raw nr.2)

/-- `SDFile.serialize()` of the lazy state: text that was never touched is written verbatim,
parsed parts are serialised. -/
def LRec.lines (r : LRec) : Except Err (List Line) := do
  let hl ← match r.header with | .raw ls => pure ls | .parsed h => h.serialize
  let ml := match r.md with | .raw ls => ls | .parsed m => Metadata.serialize m
  pure (hl ++ r.ctab ++ ml)

def LFile.lines (f : LFile) : Except Err (List Line) := do
  let recs ← f.mapM fun kv => match kv.2 with
    | .raw ls => pure ls
    | .parsed r => r.lines
  if !noDelimLines recs then .error serErr else
  pure (joinRecords recs)

end BiotiteModel.C18

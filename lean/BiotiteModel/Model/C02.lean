import BiotiteModel.Common
/-!
# C02 — executable model of `BondList` (structure/bonds.pyx)

State of one list: atom count `n`, the `(k,3)` bond array as a list of `(i, j, type)` rows *in array order*, and the cached
`_max_bonds_per_atom`.  Every public operation is modelled as the code is written (first-wins dedup through a seen set,
in-place type update, `np.delete` inside the scan loop, mask branch with the offset cumsum, index-array branch with the
inverse index, sequential aromaticity replacement).  `_to_positive_index` is modelled at the C widths of the source
(`int32` argument, `uint32` length and result, `except -1` error sentinel).

Outcomes: `ok`, `err` (Python exception), `crash` (the `except -1` sentinel is returned without an exception: observed
SIGSEGV), `ub` (the code would perform an unchecked out-of-range access: nothing is claimed).
-/
namespace BiotiteModel.C02
open BiotiteModel

inductive Res (α : Type) where
  | ok (a : α)
  | err (e : Err)
  | crash
  | ub
  deriving Repr, DecidableEq

/-- `(i, j, bond type)` -/
abbrev Bond := Nat × Nat × Nat

structure BL where
  n : Nat
  bonds : List Bond
  cachedMax : Nat
  deriving Repr, DecidableEq

def BL.empty (n : Nat) : BL := ⟨n, [], 0⟩

/-! ## Index normalisation -/

/-- Cython argument conversion `int32 atom_index`: OverflowError outside the type. -/
def toInt32 (i : Int) : Except Err (BitVec 32) :=
  if -2147483648 ≤ i ∧ i ≤ 2147483647 then .ok (BitVec.ofInt 32 i) else .error .overflowError

/-- `cdef uint32 _to_positive_index(int32 index, uint32 array_length) except -1`, branch by branch.
The test `pos_index < 0` on a `uint32` is dead code. -/
def toPositiveIndex (index : BitVec 32) (arrayLength : BitVec 32) : Except Err (BitVec 32) :=
  if index.slt 0#32 then
    let posIndex : BitVec 32 := arrayLength + index          -- `<uint32> (array_length + index)`
    if posIndex.ult 0#32 then .error .indexError else .ok posIndex
  else
    if !(index.ult arrayLength) then .error .indexError else .ok index

/-- `(uint32) -1`: the value that `except -1` reserves for "an exception was raised". -/
def sentinel : BitVec 32 := 0xFFFFFFFF#32

def posIndex32 (n : Nat) (iv : BitVec 32) : Res Nat :=
  if n ≥ 4294967296 then .err .overflowError else      -- `self._atom_count` does not convert to `uint32`
  match toPositiveIndex iv (BitVec.ofNat 32 n) with
  | .error e => .err e
  | .ok p => if p = sentinel then .crash else .ok p.toNat

/-- What a public method obtains for a Python integer `i` on a list of `n` atoms. -/
def posIndex (n : Nat) (i : Int) : Res Nat :=
  match toInt32 i with
  | .error e => .err e
  | .ok iv => posIndex32 n iv

/-- `_to_positive_index_array` on one element (numpy, 64-bit): this one does reject. -/
def normOne (n : Nat) (x : Int) : Option Nat :=
  let y := if x < 0 then x + n else x
  if y < 0 ∨ y ≥ n then none else some y.toNat

def normArr (n : Nat) : List Int → Option (List Nat)
  | [] => some []
  | x :: xs =>
    match normOne n x, normArr n xs with
    | some a, some r => some (a :: r)
    | _, _ => none

/-! ## Helpers -/

def sortPair (a b : Nat) : Nat × Nat := if a > b then (b, a) else (a, b)

def isPair (a b : Nat) (c : Bond) : Bool := c.1 == a && c.2.1 == b

/-- number of occurrences of atom `k` in the first two columns (`_get_max_bonds_per_atom` counts a self bond twice). -/
def deg (bs : List Bond) (k : Nat) : Nat :=
  (bs.map fun c => (if c.1 = k then 1 else 0) + (if c.2.1 = k then 1 else 0)).sum

def listMax : List Nat → Nat
  | [] => 0
  | x :: xs => max x (listMax xs)

/-- `_get_max_bonds_per_atom` (the writes are unchecked: callers guard with `inRange`). -/
def maxBonds (n : Nat) (bs : List Bond) : Nat :=
  if n = 0 then 0 else listMax ((List.range n).map (deg bs))

def inRange (n : Nat) (bs : List Bond) : Bool := bs.all fun c => c.1 < n && c.2.1 < n

/-- `_remove_redundant_bonds`: scan in order, keep a row iff its pair was not seen before. -/
def dedupAux (seen : List (Nat × Nat)) : List Bond → List Bond
  | [] => []
  | c :: cs =>
    if seen.contains (c.1, c.2.1) then dedupAux seen cs
    else c :: dedupAux ((c.1, c.2.1) :: seen) cs

def sortRow (typed : Bool) (c : Bond) : Bond :=
  ((sortPair c.1 c.2.1).1, (sortPair c.1 c.2.1).2, if typed then c.2.2 else 0)

/-- Constructor after index normalisation: type check, per-row sort, dedup, cached maximum. -/
def ctorCore (n : Nat) (typed : Bool) (rows : List Bond) : Res BL :=
  if typed && rows.any (fun c => decide (c.2.2 ≥ 10)) then .err .valueError else
  let bs := dedupAux [] (rows.map (sortRow typed))
  .ok ⟨n, bs, maxBonds n bs⟩

/-- per-row sort, dedup and cached maximum without the type check (what runs once the check has passed) -/
def ctorBuild (n : Nat) (typed : Bool) (rows : List Bond) : BL :=
  ⟨n, dedupAux [] (rows.map (sortRow typed)), maxBonds n (dedupAux [] (rows.map (sortRow typed)))⟩

def normRows (n : Nat) : List (Int × Int × Nat) → Option (List Bond)
  | [] => some []
  | (i, j, t) :: rs =>
    match normOne n i, normOne n j, normRows n rs with
    | some a, some b, some r => some ((a, b, t) :: r)
    | _, _, _ => none

/-- `BondList(n, bonds)` with an int64 `(k,3)` (`typed`) or `(k,2)` array. -/
def newBL (n : Nat) (typed : Bool) (input : List (Int × Int × Nat)) : Res BL :=
  if input.isEmpty then .ok (BL.empty n) else
  match normRows n input with
  | none => .err .indexError
  | some rows => ctorCore n typed rows

/-! ## Mutating operations -/

def setType (a b t : Nat) : List Bond → List Bond
  | [] => []
  | c :: cs => if isPair a b c then (c.1, c.2.1, t) :: cs else c :: setType a b t cs

/-- `add_bond` after both indices were resolved: update in place or append and recompute the cached maximum. -/
def addCore (s : BL) (a b : Nat) (t : Int) : Res BL :=
  let p := sortPair a b
  if t < 0 then .err .overflowError else
  if s.bonds.any (isPair p.1 p.2) then .ok { s with bonds := setType p.1 p.2 t.toNat s.bonds }
  else
    let bs := s.bonds ++ [(p.1, p.2, t.toNat)]
    if s.n = 0 then .ok ⟨s.n, bs, 0⟩
    else if inRange s.n bs then .ok ⟨s.n, bs, maxBonds s.n bs⟩
    else .ub

/-- argument conversion (both `int32`), then the body's own order of checks -/
def withIndices (n : Nat) (i j : Int) (typeCheck : Option Err) (k : Nat → Nat → Res BL) : Res BL :=
  match toInt32 i, toInt32 j with
  | .error e, _ => .err e
  | .ok _, .error e => .err e
  | .ok iv, .ok jv =>
    match typeCheck with
    | some e => .err e
    | none =>
      match posIndex32 n iv with
      | .err e => .err e | .crash => .crash | .ub => .ub
      | .ok a =>
        match posIndex32 n jv with
        | .err e => .err e | .crash => .crash | .ub => .ub
        | .ok b => k a b

def addBond (s : BL) (i j t : Int) : Res BL :=
  withIndices s.n i j (if t ≥ 10 then some .valueError else none) (fun a b => addCore s a b t)

/-- The scan of `remove_bond`: `np.delete(self._bonds, i)` for every row `i` of the *old* view that matches. -/
def removeLoop (a b : Nat) : List Bond → Nat → List Bond → List Bond
  | [], _, cur => cur
  | c :: old, i, cur =>
    if isPair a b c then removeLoop a b old (i + 1) (cur.eraseIdx i) else removeLoop a b old (i + 1) cur

def removeCore (s : BL) (a b : Nat) : BL :=
  { s with bonds := removeLoop (sortPair a b).1 (sortPair a b).2 s.bonds 0 s.bonds }

def removeBond (s : BL) (i j : Int) : Res BL :=
  withIndices s.n i j none (fun a b => .ok (removeCore s a b))

def removeBondsTo (s : BL) (i : Int) : Res BL :=
  match posIndex s.n i with
  | .err e => .err e | .crash => .crash | .ub => .ub
  | .ok k => .ok { s with bonds := s.bonds.filter fun c => !(c.1 == k || c.2.1 == k) }

def removeBonds (s o : BL) : BL :=
  { s with bonds := s.bonds.filter fun c => !(o.bonds.any (isPair c.1 c.2.1)) }

/-- `merge`: the constructor on `concatenate([arg.as_array(), self.as_array()])` (uint32 input). -/
def merge (s o : BL) : Res BL :=
  let n := max s.n o.n
  let rows := o.bonds ++ s.bonds
  if rows.isEmpty then .ok (BL.empty n) else
  if rows.any (fun c => decide (c.1 ≥ n) || decide (c.2.1 ≥ n)) then .err .indexError else
  ctorCore n true rows

def shift (k : Nat) (bs : List Bond) : List Bond := bs.map fun c => (c.1 + k, c.2.1 + k, c.2.2)

/-- the loop of `BondList.concatenate`: (bonds, total atom count, max of the cached maxima). -/
def concatFrom (cum : Nat) : List BL → List Bond × Nat × Nat
  | [] => ([], cum, 0)
  | l :: ls =>
    let r := concatFrom (cum + l.n) ls
    (shift cum l.bonds ++ r.1, r.2.1, max l.cachedMax r.2.2)

def concatenate (ls : List BL) : Res BL :=
  if ls.isEmpty then .err .valueError else
  let r := concatFrom 0 ls
  .ok ⟨r.2.1, r.1, r.2.2⟩

def offsetIndices (s : BL) (k : Int) : Res BL :=
  if k < -2147483648 ∨ k > 2147483647 then .err .overflowError
  else if k < 0 then .err .valueError
  else .ok ⟨s.n + k.toNat, shift k.toNat s.bonds, s.cachedMax⟩

/-- the (aromatic, non-aromatic) pairs of `remove_aromaticity`, applied one after the other. -/
def aromPairs : List (Nat × Nat) := [(5, 1), (6, 2), (7, 3), (9, 0)]

def applyPairs (pairs : List (Nat × Nat)) (t : Nat) : Nat :=
  pairs.foldl (fun t p => if t = p.1 then p.2 else t) t

def removeAromaticity (s : BL) : BL :=
  { s with bonds := s.bonds.map fun c => (c.1, c.2.1, applyPairs aromPairs c.2.2) }

def removeBondOrder (s : BL) : BL :=
  { s with bonds := s.bonds.map fun c => (c.1, c.2.1, 0) }

/-! ## `__getitem__` -/

def posOf (a : Nat) : List Nat → Option Nat
  | [] => none
  | x :: xs => if x = a then some 0 else (posOf a xs).map (· + 1)

def hasDup : List Nat → Bool
  | [] => false
  | x :: xs => xs.contains x || hasDup xs

def relabel (sel : List Nat) (c : Bond) : Option Bond :=
  match posOf c.1 sel, posOf c.2.1 sel with
  | some p, some q => some ((sortPair p q).1, (sortPair p q).2, c.2.2)
  | _, _ => none

/-- index-array branch on a normalised index array `sel` (`_invert_index`, filter, per-row sort). -/
def getSel (s : BL) (sel : List Nat) : Res BL :=
  if sel.any (fun a => decide (a ≥ s.n)) then .err .indexError        -- `_invert_index` is bounds-checked
  else if hasDup sel then .err .notImplemented
  else if !inRange s.n s.bonds then .ub                                -- unchecked read of the inverse index
  else
    let bs := s.bonds.filterMap (relabel sel)
    .ok ⟨sel.length, bs, maxBonds sel.length bs⟩

/-- `np.cumsum(~mask)[k]` -/
def offsetsAt (mask : List Bool) (k : Nat) : Nat := ((mask.take (k + 1)).filter (fun b => !b)).length

def maskRow (mask : List Bool) (c : Bond) : Option Bond :=
  if mask.getD c.1 false && mask.getD c.2.1 false then
    some (c.1 - offsetsAt mask c.1, c.2.1 - offsetsAt mask c.2.1, c.2.2)
  else none

/-- boolean-mask branch: the mask length is never compared with the atom count. -/
def getMask (s : BL) (mask : List Bool) : Res BL :=
  if s.bonds.any (fun c => decide (c.1 ≥ mask.length) || decide (c.2.1 ≥ mask.length)) then .ub else
  let bs := s.bonds.filterMap (maskRow mask)
  let n' := (mask.filter id).length
  .ok ⟨n', bs, maxBonds n' bs⟩

def truePositionsFrom (k : Nat) : List Bool → List Nat
  | [] => []
  | b :: bs => if b then k :: truePositionsFrom (k + 1) bs else truePositionsFrom (k + 1) bs

def truePositions (m : List Bool) : List Nat := truePositionsFrom 0 m

def rangeStep (start step : Int) : Nat → List Int
  | 0 => []
  | k + 1 => start :: rangeStep (start + step) step k

/-- one bound of `PySlice_AdjustIndices`: default when absent, else wrap a negative value once and clamp -/
def sliceAdj (n : Nat) (step : Int) (x : Option Int) (dflt : Int) : Int :=
  match x with
  | none => dflt
  | some v =>
    let v := if v < 0 then v + n else v
    if v < 0 then (if step < 0 then -1 else 0)
    else if v ≥ n then (if step < 0 then (n : Int) - 1 else n)
    else v

/-- `slice.indices(n)` + `range` (CPython `PySlice_AdjustIndices`). -/
def sliceIndices (n : Nat) (a b c : Option Int) : Except Err (List Nat) :=
  let step := c.getD 1
  if step = 0 then .error .valueError else
  let start := sliceAdj n step a (if step < 0 then (n : Int) - 1 else 0)
  let stop := sliceAdj n step b (if step < 0 then -1 else n)
  let len : Int :=
    if step > 0 then (if start < stop then (stop - start - 1) / step + 1 else 0)
    else (if stop < start then (start - stop - 1) / (-step) + 1 else 0)
  .ok ((rangeStep start step len.toNat).map Int.toNat)

inductive Idx where
  | mask (m : List Bool)      -- numpy bool array
  | smask (m : List Bool)     -- numpy bool array that is a strided view
  | blist (m : List Bool)     -- Python list of bools (goes through `np.arange(n)[index]`)
  | arr (is : List Int)       -- integer ndarray or Python list of ints
  | slice (a b c : Option Int)
  deriving Repr

def getitem (s : BL) : Idx → Res BL
  | .mask m => getMask s m
  | .smask m => if m.length ≥ 2 then .err .valueError else getMask s m   -- `np.frombuffer`: not C-contiguous
  | .blist m =>
    if m.isEmpty then getSel s []                      -- `[]` is an empty integer index for numpy
    else if m.length ≠ s.n then .err .indexError else getSel s (truePositions m)
  | .arr is =>
    match normArr s.n is with
    | none => .err .indexError
    | some sel => getSel s sel
  | .slice a b c =>
    match sliceIndices s.n a b c with
    | .error e => .err e
    | .ok sel => getSel s sel

/-- How an index object lies in memory.  Cython typed memoryviews refuse some layouts before any bond is touched:
`_invert_index(IndexType[:] …)` rejects a byte-swapped integer array ("Big-endian buffer not supported"), and
`mask_v = mask` (a writable `uint8[:]` view) rejects a read-only boolean mask. -/
inductive Layout where
  | native | byteSwapped | readOnly
  deriving Repr, DecidableEq

def getitemL (s : BL) (ix : Idx) : Layout → Res BL
  | .native => getitem s ix
  | .byteSwapped =>
    match ix with
    | .arr is =>
      match normArr s.n is with        -- `_to_positive_index_array` (numpy) runs first
      | none => .err .indexError
      | some _ => .err .valueError
    | _ => getitem s ix
  | .readOnly =>
    match ix with
    | .mask _ => .err .valueError
    | .smask _ => .err .valueError
    | _ => getitem s ix

/-! ## C widths and array dtypes around the core operations

The core functions above compute with unbounded naturals.  The functions below add what the real code does at the
edges of its machine types; the driver runs these.  Inside the stated size bounds they coincide with the core
(`C02_full_agrees_*`); outside they refuse, wrap or accept what they should not (`…_rejects`, `…_defect`). -/

/-- `_to_positive_index_array` mixes the Python int `length` into an array of the caller's dtype: NumPy refuses
(`OverflowError: Python integer … out of bounds for int8`) when the atom count exceeds the dtype's maximum — for *any*
content of the array.  `dmax` = maximum of a narrow integer dtype, `none` for int64/platform ints. -/
def dtypeRefuses (n : Nat) (dmax : Option Nat) : Bool :=
  match dmax with
  | some m => decide (n > m)
  | none => false

/-- `BondList(n, bonds)` with the bond types as they come (signed), the array dtype, and the `uint32 atom_count`
argument.  A negative bond type passes `bonds[:, 2] >= len(BondType)` and is stored by the `uint32` assignment as
`t mod 2^32`. -/
def newBLFull (n : Nat) (typed : Bool) (input : List (Int × Int × Int)) (dmax : Option Nat) : Res BL :=
  if n ≥ 4294967296 then .err .overflowError
  else if input.isEmpty then .ok (BL.empty n)
  else if dtypeRefuses n dmax then .err .overflowError
  else if input.all (fun r => decide (0 ≤ r.2.2)) then
    newBL n typed (input.map fun r => (r.1, r.2.1, r.2.2.toNat))
  else
    match normRows n (input.map fun r => (r.1, r.2.1, (r.2.2 % 4294967296).toNat)) with
    | none => .err .indexError
    | some rows =>
      if typed && input.any (fun r => decide (r.2.2 ≥ 10)) then .err .valueError
      else .ok (ctorBuild n typed rows)

def getitemFull (s : BL) (ix : Idx) (layout : Layout) (dmax : Option Nat) : Res BL :=
  match ix with
  | .arr _ => if dtypeRefuses s.n dmax then .err .overflowError else getitemL s ix layout
  | _ => getitemL s ix layout

/-- `cdef int cum_atom_count`: the running atom count must fit a C `int`. -/
def concatenateFull (ls : List BL) : Res BL :=
  if ls.isEmpty then .err .valueError
  else if (ls.map (·.n)).sum > 2147483647 then .err .overflowError
  else concatenate ls

def wrap32 (bs : List Bond) : List Bond := bs.map fun c => (c.1 % 4294967296, c.2.1 % 4294967296, c.2.2)

/-- `self._bonds[:, :2] += offset` on a `uint32` array wraps; `self._atom_count += offset` is a Python int and does not. -/
def offsetFull (s : BL) (k : Int) : Res BL :=
  match offsetIndices s k with
  | .ok r => .ok ⟨r.n, wrap32 r.bonds, r.cachedMax⟩
  | .err e => .err e
  | .crash => .crash
  | .ub => .ub

/-- `copy()`: `__copy_create__` builds `BondList(self._atom_count)`, whose argument is a `uint32`. -/
def copyFull (s : BL) : Res BL := if s.n ≥ 4294967296 then .err .overflowError else .ok s

/-! ## Views -/

/-- `(neighbour, type)` of every bond touching atom `k`, in array order (a self bond once). -/
def incident (bs : List Bond) (k : Nat) : List (Nat × Nat) :=
  bs.filterMap fun c =>
    if c.1 = k then some (c.2.1, c.2.2) else if c.2.1 = k then some (c.1, c.2.2) else none

/-- `get_bonds`: the result buffers have `cachedMax` slots and are written unchecked. -/
def getBonds (s : BL) (i : Int) : Res (List (Nat × Nat)) :=
  match posIndex s.n i with
  | .err e => .err e | .crash => .crash | .ub => .ub
  | .ok k =>
    let r := incident s.bonds k
    if r.length > s.cachedMax then .ub else .ok r

/-- one row of `get_all_bonds`: a self bond writes one slot and advances the length by two (`none` = the `-1` hole). -/
def rowOf (bs : List Bond) (k : Nat) : List (Option (Nat × Nat)) :=
  bs.flatMap fun c =>
    if c.1 = k ∧ c.2.1 = k then [some (k, c.2.2), none]
    else if c.1 = k then [some (c.2.1, c.2.2)]
    else if c.2.1 = k then [some (c.1, c.2.2)]
    else []

def getAllBonds (s : BL) : Res (List (List (Option (Nat × Nat)))) :=
  if !inRange s.n s.bonds then .ub
  else if (List.range s.n).any (fun k => decide ((rowOf s.bonds k).length > s.cachedMax)) then .ub
  else .ok ((List.range s.n).map (rowOf s.bonds))

def lookup (bs : List Bond) (i j : Nat) : Option Nat :=
  match bs.find? (isPair i j) with
  | some c => some c.2.2
  | none => none

/-- type of the unordered pair `{i, j}` -/
def sym (bs : List Bond) (i j : Nat) : Option Nat := lookup bs (min i j) (max i j)

def adjacencyMatrix (s : BL) : Res (List (List Bool)) :=
  if !inRange s.n s.bonds then .err .indexError      -- numpy fancy assignment is bounds-checked
  else .ok ((List.range s.n).map fun i => (List.range s.n).map fun j => (sym s.bonds i j).isSome)

def bondTypeMatrix (s : BL) : Res (List (List (Option Nat))) :=
  if !inRange s.n s.bonds then .err .indexError
  else .ok ((List.range s.n).map fun i => (List.range s.n).map fun j => sym s.bonds i j)

def asGraph (s : BL) : List Bond := s.bonds

/-- `(i, j) in bonds`: `cdef uint32 atom_index1 = min(item)` — a negative index is an OverflowError. -/
def containsPair (s : BL) (i j : Int) : Res Bool :=
  let a := min i j
  let b := max i j
  if a < 0 ∨ a > 4294967295 then .err .overflowError
  else if b < 0 ∨ b > 4294967295 then .err .overflowError
  else .ok (s.bonds.any (isPair a.toNat b.toNat))

/-- `__eq__`: equal atom count and equal `as_set()`. -/
def beq (s o : BL) : Bool :=
  s.n == o.n && s.bonds.all (fun c => o.bonds.contains c) && o.bonds.all (fun c => s.bonds.contains c)

/-! ## Histories over two lists -/

structure State where
  cur : BL
  aux : BL
  deriving Repr

def State.init : State := ⟨BL.empty 0, BL.empty 0⟩

inductive Op where
  | new (toAux : Bool) (n : Nat) (typed : Bool) (input : List (Int × Int × Nat))
  | swap | dup
  | add (i j t : Int) | remove (i j : Int) | removeTo (i : Int)
  | removeBonds | merge | concat | concat3
  | offset (k : Int) | rmArom | rmOrder
  | getitem (ix : Idx)
  deriving Repr

def Res.toState (st : State) (r : Res BL) : Res State :=
  match r with
  | .ok b => .ok { st with cur := b }
  | .err e => .err e
  | .crash => .crash
  | .ub => .ub

def apply (st : State) : Op → Res State
  | .new toAux n typed input =>
    match newBL n typed input with
    | .ok b => .ok (if toAux then { st with aux := b } else { st with cur := b })
    | .err e => .err e | .crash => .crash | .ub => .ub
  | .swap => .ok ⟨st.aux, st.cur⟩
  | .dup => .ok { st with aux := st.cur }
  | .add i j t => (addBond st.cur i j t).toState st
  | .remove i j => (removeBond st.cur i j).toState st
  | .removeTo i => (removeBondsTo st.cur i).toState st
  | .removeBonds => .ok { st with cur := removeBonds st.cur st.aux }
  | .merge => (merge st.cur st.aux).toState st
  | .concat => (concatenate [st.cur, st.aux]).toState st
  | .concat3 => (concatenate [st.cur, st.aux, st.cur]).toState st
  | .offset k => (offsetIndices st.cur k).toState st
  | .rmArom => .ok { st with cur := removeAromaticity st.cur }
  | .rmOrder => .ok { st with cur := removeBondOrder st.cur }
  | .getitem ix => (getitem st.cur ix).toState st

/-- A history: rejected / crashing operations leave the state as it was. -/
def step (st : State) (op : Op) : State :=
  match apply st op with
  | .ok st' => st'
  | _ => st

def run (ops : List Op) : State := ops.foldl step State.init

end BiotiteModel.C02

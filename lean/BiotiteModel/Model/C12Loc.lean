import BiotiteModel.Model.C12
/-!
# C12 — part 2: GenBank location grammar

`printLocs`  — `genbank/annotation.py::_convert_to_loc_string` (repaired: a single-base location
               keeps `>` / `<…>` / `.` / `^`)
`parseLocs`  — `_parse_locs` / `_parse_single_loc`; every exception raised inside is caught by
               `get_annotation` (the feature is skipped with a warning) → `none`.
Characters, not tokens: decimal printing/parsing of integers is part of the model.
-/
namespace BiotiteModel.C12

/-- `Location.Defect` flag set. -/
structure Defect where
  missL : Bool := false
  missR : Bool := false
  bl : Bool := false     -- BEYOND_LEFT  `<`
  br : Bool := false     -- BEYOND_RIGHT `>`
  unk : Bool := false    -- UNK_LOC      `.`
  btw : Bool := false    -- BETWEEN      `^`
  deriving DecidableEq, Repr

structure Loc where
  first : Int
  last : Int
  rev : Bool        -- `Location.Strand.REVERSE`
  defect : Defect
  deriving DecidableEq, Repr

/-! ### decimal integers -/

def digitChar (d : Nat) : Char := Char.ofNat (48 + d)

def showNatAux : Nat → Nat → Str
  | 0, _ => []
  | f + 1, n => if n < 10 then [digitChar n] else showNatAux f (n / 10) ++ [digitChar (n % 10)]

/-- `str(n)` for a natural number. -/
def showNat (n : Nat) : Str := showNatAux (n + 1) n

/-- `str(i)`. -/
def showInt (i : Int) : Str :=
  match i with
  | .ofNat n => showNat n
  | .negSucc n => '-' :: showNat (n + 1)

def digitVal? (c : Char) : Option Nat :=
  if '0' ≤ c ∧ c ≤ '9' then some (c.toNat - 48) else none

def readDigits (s : Str) : Option Nat :=
  s.foldl (fun acc c => match acc, digitVal? c with
                        | some a, some d => some (a * 10 + d)
                        | _, _ => none) (some 0)

def readNat (s : Str) : Option Nat := if s.isEmpty then none else readDigits s

/-- `int(s)` for the inputs the model covers: surrounding whitespace, optional sign, ASCII digits
(no `_`, no non-ASCII digits: the driver reports those as unmodelled). `none` = `ValueError`. -/
def readInt (s : Str) : Option Int :=
  match strip s with
  | '-' :: r => (readNat r).map (fun n => -(n : Int))
  | '+' :: r => (readNat r).map (fun n => (n : Int))
  | r => (readNat r).map (fun n => (n : Int))

/-! ### printing -/

def printSingle (l : Loc) : Str :=
  let f := (if l.defect.bl then ['<'] else []) ++ showInt l.first
  let la := (if l.defect.br then ['>'] else []) ++ showInt l.last
  let core : Str :=
    if decide (l.first = l.last) && !l.defect.unk && !l.defect.btw && !(l.defect.bl && l.defect.br) then
      (if l.defect.br then la else f)
    else if l.defect.unk then f ++ ['.'] ++ la
    else if l.defect.btw then f ++ ['^'] ++ la
    else f ++ ['.', '.'] ++ la
  if l.rev then "complement(".toList ++ core ++ [')'] else core

def intercalateC (sep : Char) : List Str → Str
  | [] => []
  | [x] => x
  | x :: xs => x ++ sep :: intercalateC sep xs

/-- `_convert_to_loc_string(locs)`. -/
def printLocs (ls : List Loc) : Str :=
  match ls with
  | [l] => printSingle l
  | _ => "join(".toList ++ intercalateC ',' (ls.map printSingle) ++ [')']

/-! ### parsing -/

/-- `s.split(c)` for a single character. -/
def splitC (c : Char) : Str → Str → List Str
  | [], acc => [acc.reverse]
  | x :: xs, acc => if x = c then acc.reverse :: splitC c xs [] else splitC c xs (x :: acc)

/-- `s.split("..")`. -/
def splitDD : Str → Str → List Str
  | [], acc => [acc.reverse]
  | '.' :: '.' :: rest, acc => acc.reverse :: splitDD rest []
  | x :: xs, acc => splitDD xs (x :: acc)

/-- `".." in s`. -/
def hasDD : Str → Bool
  | '.' :: '.' :: _ => true
  | _ :: xs => hasDD xs
  | [] => false

/-- `s[s.index("(")+1 : s.rindex(")")]`; `none` when either character is missing (`ValueError`). -/
def parenContent (s : Str) : Option Str :=
  if s.contains '(' ∧ s.contains ')' then
    let i := (s.takeWhile (· ≠ '(')).length
    let j := s.length - 1 - (s.reverse.takeWhile (· ≠ ')')).length
    some (sliceL s (i + 1) j)
  else none

def beyondNone : Defect := {}

/-- `_parse_single_loc`. -/
def parseSingle (s : Str) : Option Loc :=
  let range (parts : List Str) (d : Defect) : Option Loc :=
    match parts with
    | fs :: ls :: _ =>
      match fs, ls with
      | [], _ => none
      | _, [] => none
      | fc :: fr, lc :: lr =>
        let first? := if fc = '<' then readInt fr else readInt fs
        let last? := if lc = '>' then readInt lr else readInt ls
        match first?, last? with
        | some a, some b =>
          -- `Location.__init__` raises `ValueError` when first > last
          if a ≤ b then some ⟨a, b, false, { d with bl := fc == '<', br := lc == '>' }⟩ else none
        | _, _ => none
    | _ => none
  if hasDD s then range (splitDD s []) {}
  else if s.contains '.' then range (splitC '.' s []) { unk := true }
  else if s.contains '^' then range (splitC '^' s []) { btw := true }
  else
    match s with
    | [] => none
    | '<' :: r => (readInt r).map (fun n => ⟨n, n, false, { bl := true }⟩)
    | '>' :: r => (readInt r).map (fun n => ⟨n, n, false, { br := true }⟩)
    | r => (readInt r).map (fun n => ⟨n, n, false, {}⟩)

def startsWith (p s : Str) : Bool := p.isPrefixOf s

/-- `_parse_locs` with recursion fuel (every recursive call is on a strictly shorter string). -/
def parseLocsF : Nat → Str → Option (List Loc)
  | 0, _ => none
  | f + 1, s =>
    if startsWith "join".toList s ∨ startsWith "order".toList s then
      match parenContent s with
      | none => none
      | some c => ((splitC ',' c []).mapM (fun p => parseLocsF f (strip p))).map List.flatten
    else if startsWith "complement".toList s then
      match parenContent s with
      | none => none
      | some c => (parseLocsF f c).map (fun ls => ls.map (fun l => { l with rev := true }))
    else (parseSingle s).map (fun l => [l])

def parseLocs (s : Str) : Option (List Loc) := parseLocsF (s.length + 1) s

end BiotiteModel.C12

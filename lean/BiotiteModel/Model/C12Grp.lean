import BiotiteModel.Model.C12Gb
/-!
# C12 — part 5: GFF3 `set_annotation` / `get_annotation` (ID-grouped locations)

`gffExpand`  — the entries `gff/convert.py::set_annotation` appends for one feature: one entry per
               location (given in the written order), all with the feature's key as `type` and its
               qualifiers as attributes.
`gffGroup`   — `get_annotation`: consecutive entries with the same (non-`None`) `ID` attribute are
               one feature; `type` and attributes are taken from the first entry of a group.
Generic in the string type `τ`; `idKey` is the attribute name `"ID"`.
-/
namespace BiotiteModel.C12

abbrev GLoc := Int × Int × Option Bool

structure GFeat (τ : Type) where
  key : τ
  locs : List GLoc
  qual : List (τ × τ)
  deriving DecidableEq

structure GEnt (τ : Type) where
  type : τ
  loc : GLoc
  attrs : List (τ × τ)
  deriving DecidableEq

variable {τ : Type} [DecidableEq τ]

def gffIdOf (idKey : τ) (attrs : List (τ × τ)) : Option τ := (attrs.find? (fun p => p.1 = idKey)).map (·.2)

/-- the entries written for one feature -/
def gffExpand (f : GFeat τ) : List (GEnt τ) := f.locs.map (fun l => ⟨f.key, l, f.qual⟩)

/-- the loop of `get_annotation`: `cur` = feature being collected, `curId` = `current_id`. -/
def gffGroupGo (idKey : τ) (cur : Option (GFeat τ)) (curId : Option τ) : List (GEnt τ) → List (GFeat τ)
  | [] => cur.toList
  | e :: es =>
    let id := gffIdOf idKey e.attrs
    if id ≠ curId ∨ id = none then
      cur.toList ++ gffGroupGo idKey (some ⟨e.type, [e.loc], e.attrs⟩) id es
    else
      gffGroupGo idKey (cur.map (fun f => { f with locs := f.locs ++ [e.loc] })) id es

/-- `set_annotation` (repaired): IDs must be unique, a feature with several locations needs an ID
(`ValueError` otherwise, nothing is written); then one entry per location. -/
def gffSetAnnotE (idKey : τ) (fs : List (GFeat τ)) : Except Err (List (GEnt τ)) :=
  if ¬ (fs.filterMap (fun f => gffIdOf idKey f.qual)).Nodup then .error .valueError
  else if fs.any (fun f => decide (1 < f.locs.length) && (gffIdOf idKey f.qual).isNone) then .error .valueError
  else .ok (fs.flatMap gffExpand)

def gffGroup (idKey : τ) (es : List (GEnt τ)) : List (GFeat τ) := gffGroupGo idKey none none es

end BiotiteModel.C12

import BiotiteModel.Model.C17
/-!
# C17 — specification vocabulary: the "direct per-atom recomputation" the property compares
every derived view with.  Nothing here is used by the model or the driver; the theorems in
`Props/C17.lean` relate the model (`Model/C17.lean`) to these definitions.

`P j = true` means "atom `j` starts a segment".
-/
namespace BiotiteModel.C17

/-- Atom `j` starts a segment of `xs` under the boundary relation `b previous current`:
it exists and is the first atom, or `b xs[j-1] xs[j]` holds. -/
def isStart {α : Type} (b : α → α → Bool) (xs : List α) (j : Nat) : Bool :=
  decide (j < xs.length) &&
    (j == 0 || match xs[j - 1]?, xs[j]? with
               | some a, some c => b a c
               | _, _ => false)

/-- Walk back from atom `i` to the nearest segment start. -/
def segStartP (P : Nat → Bool) : Nat → Nat
  | 0 => 0
  | i + 1 => if P (i + 1) then i + 1 else segStartP P i

/-- Walk forward from atom `i + 1` to the next segment start; `n` if there is none. -/
def segEndP (P : Nat → Bool) (n i : Nat) : Nat :=
  match (List.range' (i + 1) (n - (i + 1))).find? P with
  | some j => j
  | none => n

/-- Atoms `i` and `k` lie in the same segment: no segment starts strictly after the smaller
and at or before the larger of the two. -/
def sameSegP (P : Nat → Bool) (i k : Nat) : Prop :=
  ∀ j, min i k < j → j ≤ max i k → P j = false

/-- Ordinal position of the segment of atom `i`: the number of segment starts among atoms `1..i`. -/
def posP (P : Nat → Bool) (i : Nat) : Nat := (List.range' 1 i).countP P

/-- The two segmentations of the code. -/
inductive Kind where
  | residue | chain
  deriving DecidableEq, Repr

/-- boundary relation (previous atom, current atom) -/
def Kind.boundary : Kind → Atom → Atom → Bool
  | .residue => resBoundary
  | .chain => chainBoundary

/-- `get_residue_starts` / `get_chain_starts` -/
def Kind.starts : Kind → List Atom → Bool → List Nat
  | .residue => residueStarts
  | .chain => chainStarts

/-- "atom `j` starts a segment", recomputed per atom -/
abbrev Kind.isStart (k : Kind) (xs : List Atom) (j : Nat) : Bool := C17.isStart k.boundary xs j

end BiotiteModel.C17

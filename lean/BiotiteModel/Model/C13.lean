import BiotiteModel.Common
/-!
# C13 — annotations and annotated sequences (model of `sequence/annotation.py`)

Model of `Location`, `Feature`, `Annotation.__getitem__`, and of
`AnnotatedSequence.__getitem__ / __setitem__ / reverse_complement / copy`, together with the
few operations of `Sequence` / `NucleotideSequence` they use (numpy slice reading/writing,
`reverse`, `complement`, concatenation).

* Positions are unbounded `Int` (Python ints).  Sequences are lists of symbol codes.
* A `Feature` holds a `frozenset` of locations and an `Annotation` a `set` of features; the
  model keeps lists and every observation (`Driver/C13.lean`, the theorems about per-base
  coverage) is insensitive to order and multiplicity.
* Functions the real code can reject return `Except Err`.
* The model is the code **after** the four `fix:` commits listed in `notes/C13.md`.
-/
namespace BiotiteModel.C13

/-! ## Location, Feature, Annotation -/

inductive Strand where
  | fwd | rev
  deriving DecidableEq, Repr

/-- `Location.Defect` flag set, one Boolean per flag (declaration order of the `Flag`). -/
structure Defect where
  missLeft : Bool
  missRight : Bool
  beyondLeft : Bool
  beyondRight : Bool
  unkLoc : Bool
  between : Bool
  deriving DecidableEq, Repr

def Defect.none : Defect := ⟨false, false, false, false, false, false⟩

/-- `Flag.value` of a defect (the protocol prints it). -/
def Defect.toNat (d : Defect) : Nat :=
  (if d.missLeft then 1 else 0) + (if d.missRight then 2 else 0) + (if d.beyondLeft then 4 else 0) +
  (if d.beyondRight then 8 else 0) + (if d.unkLoc then 16 else 0) + (if d.between then 32 else 0)

def Defect.ofNat (n : Nat) : Defect :=
  ⟨n.testBit 0, n.testBit 1, n.testBit 2, n.testBit 3, n.testBit 4, n.testBit 5⟩

structure Loc where
  first : Int
  last : Int
  strand : Strand
  defect : Defect
  deriving DecidableEq, Repr

/-- The invariant `Location.__init__` enforces. -/
def Loc.WF (l : Loc) : Prop := l.first ≤ l.last
instance (l : Loc) : Decidable l.WF := by unfold Loc.WF; infer_instance

/-- `p` is one of the bases of the location. -/
def Loc.covers (l : Loc) (p : Int) : Prop := l.first ≤ p ∧ p ≤ l.last
instance (l : Loc) (p : Int) : Decidable (l.covers p) := by unfold Loc.covers; infer_instance

/-- `Location.__init__`: `first > last` raises `ValueError`. -/
def mkLoc (first last : Int) (s : Strand) (d : Defect) : Except Err Loc :=
  if first > last then .error .valueError else .ok ⟨first, last, s, d⟩

/-- Key and qualifiers are opaque tokens: the modelled code only moves them. -/
structure Feature where
  key : Nat
  qual : Nat
  locs : List Loc
  deriving DecidableEq, Repr

def Feature.WF (f : Feature) : Prop := f.locs ≠ [] ∧ ∀ l ∈ f.locs, l.WF
def Feature.covers (f : Feature) (p : Int) : Prop := ∃ l ∈ f.locs, l.covers p

abbrev Annot := List Feature
def Annot.WF (a : Annot) : Prop := ∀ f ∈ a, f.WF

/-- `sys.maxsize` on the 64-bit CPython the check runs on. -/
def maxsize : Int := 9223372036854775807

/-- `mapM` in `Except Err`, written out (a `for` loop that propagates the first exception). -/
def mapME {α β : Type} (f : α → Except Err β) : List α → Except Err (List β)
  | [] => .ok []
  | x :: xs =>
    match f x with
    | .error e => .error e
    | .ok y =>
      match mapME f xs with
      | .error e => .error e
      | .ok ys => .ok (y :: ys)

/-- Loop body of `Annotation.__getitem__` for one location.  `iF`/`iL` are `i_first`/`i_last`
(inclusive); `none` is the infinite bound `∓float("inf")` of an open side, which compares below /
above every position.  Result `none`: the location is out of scope. -/
def sliceLocE (iF iL : Option Int) (l : Loc) : Except Err (Option Loc) :=
  let inScope : Bool :=
    (match iL with | none => true | some y => decide (l.first ≤ y)) &&
    (match iF with | none => true | some x => decide (l.last ≥ x)) &&
    (match iF, iL with | some x, some y => decide (x ≤ y) | _, _ => true)
  if inScope then
    let cutL : Bool := match iF with | none => false | some x => decide (l.first < x)
    let cutR : Bool := match iL with | none => false | some y => decide (l.last > y)
    let d1 := if cutL then { l.defect with missLeft := true } else l.defect
    let first := if cutL then iF.getD l.first else l.first
    let d2 := if cutR then { d1 with missRight := true } else d1
    let last := if cutR then iL.getD l.last else l.last
    match mkLoc first last l.strand d2 with
    | .error e => .error e
    | .ok l' => .ok (some l')
  else .ok none

/-- Loop body of `Annotation.__getitem__` for one feature. -/
def sliceFeatureE (iF iL : Option Int) (f : Feature) : Except Err (Option Feature) :=
  match mapME (sliceLocE iF iL) f.locs with
  | .error e => .error e
  | .ok ls =>
    let inScope := ls.filterMap id
    if inScope.length > 0 then .ok (some { f with locs := inScope }) else .ok none

/-- `i_first = index.start` (or −∞), `i_last = index.stop - 1` (or +∞). -/
def iFirst (a : Option Int) : Option Int := a
def iLast (b : Option Int) : Option Int := b.map (· - 1)

/-- `Annotation.__getitem__(slice(a, b))`. -/
def sliceAnnotE (a b : Option Int) (ann : Annot) : Except Err Annot :=
  match mapME (sliceFeatureE (iFirst a) (iLast b)) ann with
  | .error e => .error e
  | .ok fs => .ok (fs.filterMap id)

/-! ### Exception-free specification versions (equal to the above on well-formed input) -/

def sliceLoc (iF iL : Int) (l : Loc) : Option Loc :=
  if l.first ≤ iL ∧ l.last ≥ iF ∧ iF ≤ iL then
    some { first := if l.first < iF then iF else l.first
           last := if l.last > iL then iL else l.last
           strand := l.strand
           defect := { l.defect with
             missLeft := l.defect.missLeft || decide (l.first < iF)
             missRight := l.defect.missRight || decide (l.last > iL) } }
  else none

def sliceFeature (iF iL : Int) (f : Feature) : Option Feature :=
  let ls := f.locs.filterMap (sliceLoc iF iL)
  if ls.length > 0 then some { f with locs := ls } else none

def sliceAnnot (iF iL : Int) (ann : Annot) : Annot := ann.filterMap (sliceFeature iF iL)

/-- With an open side nothing is removed on that side: the window of a location is bounded there
by the location itself. -/
def sliceLocO (iF iL : Option Int) (l : Loc) : Option Loc :=
  sliceLoc (iF.getD l.first) (iL.getD l.last) l

def sliceFeatureO (iF iL : Option Int) (f : Feature) : Option Feature :=
  let ls := f.locs.filterMap (sliceLocO iF iL)
  if ls.length > 0 then some { f with locs := ls } else none

def sliceAnnotO (iF iL : Option Int) (ann : Annot) : Annot := ann.filterMap (sliceFeatureO iF iL)

/-! ## Sequences (numpy code arrays) -/

/-- Python/numpy normalisation of one slice bound for a sequence of length `n`. -/
def normIdx (i : Int) (n : Nat) : Nat :=
  if i < 0 then (if i + n < 0 then 0 else (i + n).toNat)
  else (if i > n then n else i.toNat)

/-- `seq[s:e]`. -/
def pySlice {α : Type} (xs : List α) (s e : Int) : List α :=
  (xs.take (normIdx e xs.length)).drop (normIdx s xs.length)

/-- `seq_code[s:e] = v` (numpy: equal length, or broadcast of a length-1 value, else `ValueError`). -/
def assignSlice (xs : List Nat) (s e : Int) (v : List Nat) : Except Err (List Nat) :=
  let s' := normIdx s xs.length
  let e' := if normIdx e xs.length < s' then s' else normIdx e xs.length
  let t := e' - s'
  if v.length = t then .ok (xs.take s' ++ v ++ xs.drop e')
  else match v with
    | [c] => .ok (xs.take s' ++ List.replicate t c ++ xs.drop e')
    | _ => .error .valueError

/-- `NucleotideSequence.alphabet_amb` (the unambiguous alphabet is its first four symbols). -/
def letters : List Char := "ACGTRYWSMKHBVDN".toList

/-- Complement on codes of the ambiguous alphabet (`_compl_mapper`). -/
def complTable : List Nat := [3, 2, 1, 0, 5, 4, 6, 7, 9, 8, 13, 12, 11, 10, 14]

def compl (c : Nat) : Nat := (complTable[c]?).getD c

/-- `seq.reverse().complement()`. -/
def revComp (xs : List Nat) : List Nat := xs.reverse.map compl

def ValidSeq (xs : List Nat) : Prop := ∀ c ∈ xs, c < 15

/-! ## AnnotatedSequence -/

structure ASeq where
  annot : Annot
  seq : List Nat
  start : Int
  deriving DecidableEq, Repr

/-- `AnnotatedSequence.__getitem__(slice(a, b))` (after the open-stop fix). -/
def getSlice (s : ASeq) (a b : Option Int) : Except Err ASeq :=
  let seqStart? : Except Err Int :=
    match a with
    | none => .ok 0
    | some a => if a < s.start then .error .indexError else .ok (a - s.start)
  match seqStart? with
  | .error e => .error e
  | .ok seqStart =>
    -- `self._check_position(index.stop)`: a stop left of the sequence start is refused, not wrapped around
    if (match b with | none => false | some b => decide (b < s.start)) then .error .indexError else
    let seqStop : Int := match b with
      | none => (s.seq.length : Int)
      | some b => b - s.start
    -- `index = slice(index.start, seq_stop + self._seqstart, index.step)` when the stop is open
    let b' : Option Int := match b with
      | none => some ((s.seq.length : Int) + s.start)
      | some b => some b
    let relStart : Int := match a with
      | none => s.start
      | some a => a
    match sliceAnnotE a b' s.annot with
    | .error e => .error e
    | .ok ann => .ok ⟨ann, pySlice s.seq seqStart seqStop, relStart⟩

/-- `AnnotatedSequence.__getitem__(int)`: `self._sequence[index - self._seqstart]`. -/
def getInt (s : ASeq) (p : Int) : Except Err Nat :=
  let i := p - s.start
  let n : Int := s.seq.length
  -- `_check_position` refuses `p < start` (no counting from the end); numpy refuses `i ≥ n`
  if i < 0 ∨ i ≥ n then .error .indexError
  else match s.seq[i.toNat]? with
    | some c => .ok c
    | none => .error .indexError

/-- The strand check of `__getitem__(Feature)`: `none` = mixed strands (`ValueError`). -/
def uniformStrand : List Loc → Option Strand
  | [] => none
  | l :: ls => if ls.all (fun l' => l'.strand = l.strand) then some l.strand else none

/-- Stable insertion: `x` goes in front of the first element `y` with `le x y`. -/
def insertBy {α : Type} (le : α → α → Bool) (x : α) : List α → List α
  | [] => [x]
  | y :: ys => if le x y then x :: y :: ys else y :: insertBy le x ys

/-- Stable insertion sort (Python's `sorted` is stable; so is `sorted(..., reverse=True)`). -/
def sortBy {α : Type} (le : α → α → Bool) : List α → List α
  | [] => []
  | x :: xs => insertBy le x (sortBy le xs)

/-- `sorted(locs, key=(first, last))` / `sorted(locs, key=(last, first), reverse=True)`: the second key
makes the order independent of the set iteration order unless two locations span the same bases. -/
def bioOrder (st : Strand) (ls : List Loc) : List Loc :=
  match st with
  | .fwd => sortBy (fun a b => decide (a.first < b.first ∨ (a.first = b.first ∧ a.last ≤ b.last))) ls
  | .rev => sortBy (fun a b => decide (b.last < a.last ∨ (b.last = a.last ∧ b.first ≤ a.first))) ls

/-- The bases of one location as read by `__getitem__(Feature)`. -/
def locSub (s : ASeq) (l : Loc) : List Nat :=
  pySlice s.seq (l.first - s.start) (l.last - s.start + 1)

def locSeq (s : ASeq) (l : Loc) : List Nat :=
  if l.strand = .rev then revComp (locSub s l) else locSub s l

/-- `AnnotatedSequence.__getitem__(Feature)`. -/
def getFeature (s : ASeq) (f : Feature) : Except Err (List Nat) :=
  if f.locs.length = 0 then .error .valueError
  else match uniformStrand f.locs with
    | none => .error .valueError
    | some st =>
      -- `_check_position(loc.first)` in the concatenation loop
      if (bioOrder st f.locs).any (fun l => decide (l.first < s.start)) then .error .indexError
      else .ok ((bioOrder st f.locs).flatMap (locSeq s))

/-- Order in which `__setitem__(Feature)` writes (after the ordering fix): the order of
`__getitem__`; a feature that is not entirely on the reverse strand is written by `first`. -/
def setOrder (ls : List Loc) : List Loc :=
  if ls.all (fun l => l.strand = .rev) then bioOrder .rev ls else bioOrder .fwd ls

/-- The `for loc in …` loop of `__setitem__(Feature)`; returns the (possibly partially)
mutated sequence and the exception, if any. -/
def setLoop (start : Int) (x : List Nat) : List Loc → Int → List Nat → List Nat × Option Err
  | [], _, seq => (seq, none)
  | l :: ls, off, seq =>
    let sliceStart := l.first - start
    let sliceStop := l.last - start + 1
    let size := sliceStop - sliceStart
    match assignSlice seq sliceStart sliceStop (pySlice x off (off + size)) with
    | .error e => (seq, some e)
    | .ok seq' => setLoop start x ls (off + size) seq'

/-- `AnnotatedSequence.__setitem__(Feature, item)`. -/
def setFeature (s : ASeq) (f : Feature) (x : List Nat) : ASeq × Option Err :=
  -- all locations are checked against the sequence start before anything is written
  if (setOrder f.locs).any (fun l => decide (l.first < s.start)) then (s, some .indexError) else
  let r := setLoop s.start x (setOrder f.locs) 0 s.seq
  ({ s with seq := r.1 }, r.2)

/-- `AnnotatedSequence.__setitem__(int, symbol)`. -/
def setInt (s : ASeq) (p : Int) (c : Nat) : Except Err ASeq :=
  let i := p - s.start
  let n : Int := s.seq.length
  if i < 0 ∨ i ≥ n then .error .indexError
  else .ok { s with seq := s.seq.set i.toNat c }

def Strand.flip : Strand → Strand
  | .fwd => .rev
  | .rev => .fwd

/-- The flag rewiring of `reverse_complement`. -/
def Defect.mirror (d : Defect) : Defect :=
  { missLeft := d.missRight, missRight := d.missLeft
    beyondLeft := d.beyondRight, beyondRight := d.beyondLeft
    unkLoc := d.unkLoc, between := d.between }

def revLocE (len : Nat) (start k : Int) (l : Loc) : Except Err Loc :=
  mkLoc ((len : Int) - 1 - (l.last - start) + k) ((len : Int) - 1 - (l.first - start) + k)
    l.strand.flip l.defect.mirror

def revFeatureE (len : Nat) (start k : Int) (f : Feature) : Except Err Feature :=
  match mapME (revLocE len start k) f.locs with
  | .error e => .error e
  | .ok ls => if ls.length = 0 then .error .valueError else .ok { f with locs := ls }

/-- `AnnotatedSequence.reverse_complement(sequence_start=k)`. -/
def reverseComplement (s : ASeq) (k : Int) : Except Err ASeq :=
  match mapME (revFeatureE s.seq.length s.start k) s.annot with
  | .error e => .error e
  | .ok fs => .ok ⟨fs, revComp s.seq, k⟩

/-! ## Copy: a two-cell heap so that sharing is expressible -/

/-- How `__copy_create__` passes a field of `self` to the constructor. -/
inductive CopyKind where
  | copyCall    -- `self._x.copy()`
  | plain       -- `self._x`
  | other       -- anything else (e.g. the bound method `self._x.copy`)
  deriving DecidableEq, Repr

/-- Objects are references into stores of annotations and sequences. -/
structure Heap where
  annots : List Annot
  seqs : List (List Nat)
  deriving Repr

structure Obj where
  annotRef : Nat
  seqRef : Nat
  start : Int
  deriving DecidableEq, Repr

def Heap.read (h : Heap) (o : Obj) : Option ASeq :=
  match h.annots[o.annotRef]?, h.seqs[o.seqRef]? with
  | some a, some s => some ⟨a, s, o.start⟩
  | _, _ => none

/-- `copy()` for a given table of copy kinds `(annotation, sequence, seqstart)`:
`copyCall` allocates a fresh cell with the same content, `plain` shares the reference,
`other` yields an unusable object (`none`). -/
def Heap.copyObj (kinds : CopyKind × CopyKind × CopyKind) (h : Heap) (o : Obj) : Option (Heap × Obj) :=
  match h.annots[o.annotRef]?, h.seqs[o.seqRef]? with
  | some a, some s =>
    match kinds with
    | (.other, _, _) | (_, .other, _) | (_, _, .other) | (_, _, .copyCall) => none
    | (ka, ks, .plain) =>
      let (h1, ar) := match ka with
        | .copyCall => ({ h with annots := h.annots ++ [a] }, h.annots.length)
        | _ => (h, o.annotRef)
      let (h2, sr) := match ks with
        | .copyCall => ({ h1 with seqs := h1.seqs ++ [s] }, h1.seqs.length)
        | _ => (h1, o.seqRef)
      some (h2, ⟨ar, sr, o.start⟩)
  | _, _ => none

/-- In-place mutations through an object. -/
def Heap.writeSeq (h : Heap) (o : Obj) (s : List Nat) : Heap := { h with seqs := h.seqs.set o.seqRef s }
def Heap.writeAnnot (h : Heap) (o : Obj) (a : Annot) : Heap := { h with annots := h.annots.set o.annotRef a }

/-- The copy path of the code as it is (checked against `Gen/C13.lean` in `Props/C13.lean`). -/
def copyKinds : CopyKind × CopyKind × CopyKind := (.copyCall, .copyCall, .plain)

/-! ## In-place edits of the annotation / of a slice of the sequence, small queries -/

/-- `Feature.__eq__` (key, qualifiers, location *set*). -/
def Feature.same (f g : Feature) : Bool :=
  f.key == g.key && f.qual == g.qual && f.locs.all (fun l => g.locs.contains l) &&
    g.locs.all (fun l => f.locs.contains l)

/-- `feature in annotation`. -/
def annotHas (a : Annot) (f : Feature) : Bool := a.any (fun g => Feature.same f g)

/-- `annotation.add_feature(f)` / `annotation += f` (set semantics are applied by the observations). -/
def annotAdd (a : Annot) (f : Feature) : Annot := a ++ [f]

/-- `annotation.del_feature(f)` / `del annotation[f]`: `set.remove`, `KeyError` if absent. -/
def annotDel (a : Annot) (f : Feature) : Except Err Annot :=
  if annotHas a f then .ok (a.filter (fun g => !Feature.same f g)) else .error .keyError

/-- `len(annotation)`. -/
def annotCount : Annot → Nat
  | [] => 0
  | f :: r => (if annotHas r f then 0 else 1) + annotCount r

/-- `Annotation.get_location_range()`: `(min first, max last + 1)` over all locations (exact for positions of
any size); the empty annotation gives `(sys.maxsize, -sys.maxsize + 1)`. -/
def annotRange (a : Annot) : Int × Int :=
  let r : Option (Int × Int) := a.foldl (fun acc f => f.locs.foldl (fun (acc : Option (Int × Int)) l =>
      match acc with
      | none => some (l.first, l.last)
      | some (lo, hi) => some (if l.first < lo then l.first else lo, if l.last > hi then l.last else hi)) acc) none
  match r with
  | none => (maxsize, -maxsize + 1)
  | some (lo, hi) => (lo, hi + 1)

/-- `AnnotatedSequence.__setitem__(slice(a, b), item)` (bounds left of the sequence start are refused; beyond the end numpy clips). -/
def setSlice (s : ASeq) (a b : Option Int) (v : List Nat) : Except Err ASeq :=
  if (match a with | none => false | some a => decide (a < s.start)) then .error .indexError else
  if (match b with | none => false | some b => decide (b < s.start)) then .error .indexError else
  let seqStart : Int := match a with | none => 0 | some a => a - s.start
  let seqStop : Int := match b with | none => (s.seq.length : Int) | some b => b - s.start
  match assignSlice s.seq seqStart seqStop v with
  | .error e => .error e
  | .ok seq' => .ok { s with seq := seq' }

/-! ## Accessors: what editing the object handed out by a property does to the owner -/

/-- An accessor either hands out a copy / an immutable object, or the internal object itself. -/
inductive AccessKind where
  | copy | frozen | plain
  deriving DecidableEq, Repr

/-- `feature.qual[...] = q` on the dictionary handed out by `Feature.qual`. -/
def mutQualThrough (k : AccessKind) (q : Nat) (f : Feature) : Feature :=
  match k with
  | .plain => { f with qual := q }
  | _ => f

/-- `annotation.get_features().clear()`. -/
def clearThrough (k : AccessKind) (a : Annot) : Annot :=
  match k with
  | .plain => []
  | _ => a

/-- `feature.locs.clear()` (refused on a frozenset, without effect on a copy). -/
def clearLocsThrough (k : AccessKind) (f : Feature) : Feature :=
  match k with
  | .plain => { f with locs := [] }
  | _ => f

/-- The accessors of the code as it is (checked against `Gen/C13.lean` in `Props/C13.lean`). -/
def qualAccess : AccessKind := .copy
def featuresAccess : AccessKind := .copy
def locsAccess : AccessKind := .frozen

end BiotiteModel.C13

import BiotiteModel.Model.C12Loc
/-!
# C12 — part 3: GFF3 percent-quoting, line assembly/parsing, entry index

`quote safe s`  — `urllib.parse.quote(s, safe=_NOT_QUOTED)`: UTF-8 bytes, every byte that is not
                  always-safe (`A-Za-z0-9_.-~`) and not in `safe` becomes `%XX` (upper-case hex).
`unquoteB t`    — `urllib.parse.unquote_to_bytes` as a left-to-right scanner (bytes; the final
                  UTF-8 decoding of `unquote` is outside the model).
`createLine`    — `GFFFile._create_line` (repaired: `type` is quoted like `seqid`/`source`; a seqid
                  starting with `#` is rejected; attribute values go through `_quote_value`).
`parseLine`     — `GFFFile.__getitem__` on one line; text columns are returned as UTF-8 bytes.
`gffIndex`      — `GFFFile._index_entries`.
The set `safe` (`_NOT_QUOTED`) is a parameter: theorems instantiate it with the table regenerated
from the source (`Gen/C12.lean`), the driver receives it from the running module.
-/
namespace BiotiteModel.C12

abbrev Bytes := List Nat

def utf8 (s : Str) : Bytes := s.flatMap (fun c => (String.utf8EncodeChar c).map (·.toNat))

/-- characters `urllib.parse.quote` never quotes. -/
def alwaysSafe (b : Nat) : Bool :=
  (65 ≤ b && b ≤ 90) || (97 ≤ b && b ≤ 122) || (48 ≤ b && b ≤ 57) || b == 95 || b == 46 || b == 45 || b == 126

def isSafe (safe : List Nat) (b : Nat) : Bool := b < 128 && (alwaysSafe b || safe.contains b)

def hexChar (d : Nat) : Char := if d < 10 then Char.ofNat (48 + d) else Char.ofNat (55 + d)

def hexVal? (c : Char) : Option Nat :=
  let n := c.toNat
  if 48 ≤ n ∧ n ≤ 57 then some (n - 48)
  else if 65 ≤ n ∧ n ≤ 70 then some (n - 55)
  else if 97 ≤ n ∧ n ≤ 102 then some (n - 87)
  else none

def quoteByte (safe : List Nat) (b : Nat) : Str :=
  if isSafe safe b then [Char.ofNat b] else ['%', hexChar (b / 16), hexChar (b % 16)]

def quoteB (safe : List Nat) (bs : Bytes) : Str := bs.flatMap (quoteByte safe)

/-- `quote(s, safe=…)`. -/
def quote (safe : List Nat) (s : Str) : Str := quoteB safe (utf8 s)

/-- `_quote_value(value)`: `quote`, then a blank at the end is written `%20` (the reader strips
the line).  Stated on bytes: the quoted string ends in a blank exactly when the last byte is 32
and 32 is safe; if 32 is not safe the last three characters are `%20` anyway. -/
def quoteV (safe : List Nat) (s : Str) : Str :=
  let bs := utf8 s
  if bs.getLast? = some 32 then quoteB safe bs.dropLast ++ ['%', '2', '0'] else quoteB safe bs

/-- bytes of one (unescaped) character. -/
def charBytes (c : Char) : Bytes := (String.utf8EncodeChar c).map (·.toNat)

/-- `unquote_to_bytes`. -/
def plainBytes (c : Char) : Bytes := if c = '%' then [37] else charBytes c

def unquoteB : Str → Bytes
  | c :: h1 :: h2 :: rest2 =>
    if c = '%' then
      match hexVal? h1, hexVal? h2 with
      | some a, some b => (16 * a + b) :: unquoteB rest2
      | _, _ => 37 :: unquoteB (h1 :: h2 :: rest2)
    else charBytes c ++ unquoteB (h1 :: h2 :: rest2)
  | [c, d] => plainBytes c ++ plainBytes d
  | [c] => plainBytes c
  | [] => []

/-! ### one GFF3 line -/

structure GffEntry (τ : Type) where
  seqid : τ
  source : τ
  type : τ
  start : Int
  stop : Int
  score : Option Str          -- `str(score)`, an opaque token (never `"."`)
  strand : Option Bool        -- some true = REVERSE
  phase : Option Int
  attrs : List (τ × τ)
  deriving DecidableEq

def tab : Char := Char.ofNat 9

/-- `GFFFile._create_line` (seqid/source/type given, not `None`). -/
def createLine (safe : List Nat) (e : GffEntry Str) : Except Err Str :=
  let seqid := quote safe (strip e.seqid)
  let source := quote safe (strip e.source)
  let type := quote safe (strip e.type)
  if seqid.isEmpty ∨ source.isEmpty ∨ type.isEmpty then .error .valueError
  else if seqid.head? = some '>' then .error .valueError
  else if seqid.head? = some '#' then .error .valueError
  else
    let score := match e.score with | some t => t | none => ['.']
    let strand := match e.strand with | some false => ['+'] | some true => ['-'] | none => ['.']
    let phase := match e.phase with | some p => showInt p | none => ['.']
    let attrs : Str :=
      if e.attrs.isEmpty then ['.']
      else intercalateC ';' (e.attrs.map (fun kv => quote safe kv.1 ++ '=' :: quoteV safe kv.2))
    .ok (intercalateC tab [seqid, source, type, showInt e.start, showInt e.stop, score, strand, phase, attrs])

/-- `GFFFile._parse_attributes`; keys/values as bytes. -/
def parseAttrs (a : Str) : Except Err (List (Bytes × Bytes)) :=
  if a = ['.'] then .ok [] else
  (splitC ';' a []).foldlM (fun (d : List (Bytes × Bytes)) ent =>
    match splitC '=' ent [] with
    | [k, v] =>
      let k := unquoteB k
      let v := unquoteB v
      if d.any (fun p => p.1 == k) then .ok (d.map (fun p => if p.1 == k then (k, v) else p))
      else .ok (d ++ [(k, v)])
    | _ => .error .invalidFile) []

/-- the body of `GFFFile.__getitem__` for one line. `score` stays a token (`float()` is outside
the model); `int()` failures are `ValueError`. -/
def parseLine (line : Str) : Except Err (GffEntry Bytes) :=
  match splitC tab (strip line) [] with
  | [seqid, source, type, start, stop, score, strand, phase, attrs] =>
    match readInt start, readInt stop with
    | some a, some b =>
      let ph : Except Err (Option Int) :=
        if phase = ['.'] then .ok none else
        match readInt phase with | some p => .ok (some p) | none => .error .valueError
      match ph, parseAttrs attrs with
      | .ok ph, .ok ats =>
        .ok { seqid := unquoteB seqid, source := unquoteB source, type := unquoteB type,
              start := a, stop := b,
              score := if score = ['.'] then none else some score,
              strand := if strand = ['+'] then some false else if strand = ['-'] then some true else none,
              phase := ph, attrs := ats }
      | .error e, _ => .error e
      | _, .error e => .error e
    | _, _ => .error .valueError
  | _ => .error .invalidFile

/-! ### file object -/

structure GffIndex where
  entries : List Nat
  directives : List (Str × Nat)
  hasFasta : Bool
  deriving DecidableEq

/-- `GFFFile._index_entries` from line index `i`. -/
def gffIndexFrom : Nat → List Str → GffIndex
  | _, [] => ⟨[], [], false⟩
  | i, l :: ls =>
    match l with
    | [] => gffIndexFrom (i + 1) ls
    | ' ' :: _ => gffIndexFrom (i + 1) ls
    | '#' :: '#' :: d =>
      if d = "FASTA".toList then ⟨[], [(d, i)], true⟩
      else let r := gffIndexFrom (i + 1) ls; { r with directives := (d, i) :: r.directives }
    | '#' :: _ => gffIndexFrom (i + 1) ls
    | _ => let r := gffIndexFrom (i + 1) ls; { r with entries := i :: r.entries }

def gffIndex (lines : List Str) : GffIndex := gffIndexFrom 0 lines

structure Gff where
  lines : List Str
  idx : GffIndex
  deriving DecidableEq

/-- `GFFFile()`: `##gff-version 3`. -/
def Gff.empty : Gff := ⟨["##gff-version 3".toList], ⟨[], [("gff-version 3".toList, 0)], false⟩⟩

def gffRead (text : List Str) : Gff := ⟨text, gffIndex text⟩

/-- Python list indexing `l[i]` with negative indices. -/
def pyIndex {α : Type} (l : List α) (i : Int) : Except Err α :=
  let j : Int := if i < 0 then i + l.length else i
  if j < 0 then .error .indexError else
  match l[j.toNat]? with
  | some x => .ok x
  | none => .error .indexError

/-- `GFFFile.append` with an already assembled line. -/
def gffAppend (g : Gff) (line : Str) : Except Err Gff :=
  if g.idx.hasFasta then .error .notImplemented else
  .ok ⟨g.lines ++ [line], { g.idx with entries := g.idx.entries ++ [g.lines.length] }⟩

/-- `GFFFile.insert`. -/
def gffInsert (g : Gff) (index : Int) (line : Str) : Except Err Gff :=
  if index = g.idx.entries.length then gffAppend g line else
  match pyIndex g.idx.entries index with
  | .error e => .error e
  | .ok li =>
    let ls := g.lines.take li ++ line :: g.lines.drop li
    .ok ⟨ls, gffIndex ls⟩

/-- `GFFFile.__setitem__` (no re-indexing). -/
def gffSet (g : Gff) (index : Int) (line : Str) : Except Err Gff :=
  match pyIndex g.idx.entries index with
  | .error e => .error e
  | .ok li => .ok ⟨g.lines.set li line, g.idx⟩

/-- `GFFFile.__delitem__`. -/
def gffDel (g : Gff) (index : Int) : Except Err Gff :=
  match pyIndex g.idx.entries index with
  | .error e => .error e
  | .ok li =>
    let ls := g.lines.take li ++ g.lines.drop (li + 1)
    .ok ⟨ls, gffIndex ls⟩

/-- `GFFFile.append_directive(directive, *args)`; `text` is `directive + " " + " ".join(args)`. -/
def gffAppendDirective (g : Gff) (directive text : Str) : Except Err Gff :=
  if startsWith "FASTA".toList directive then .error .notImplemented else
  if g.idx.hasFasta then .error .notImplemented else      -- repaired: refused like `append`
  .ok ⟨g.lines ++ [('#' :: '#' :: text)],
       { g.idx with directives := g.idx.directives ++ [(text, g.lines.length)] }⟩

/-- `GFFFile.__getitem__`. -/
def gffGet (g : Gff) (index : Int) : Except Err (GffEntry Bytes) :=
  let n : Int := g.idx.entries.length
  if (index ≥ 0 ∧ index ≥ n) ∨ (index < 0 ∧ -index > n) then .error .indexError else
  match pyIndex g.idx.entries index with
  | .error e => .error e
  | .ok li =>
    match g.lines[li]? with
    | some l => parseLine l
    | none => .error .indexError

end BiotiteModel.C12

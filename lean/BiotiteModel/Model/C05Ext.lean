import BiotiteModel.Model.C05
/-!
# C05 (continued) — fixed point / interval quantisation over ℚ, strings, bytes, chains

Floats are modelled as exact rationals (core `Rat`): every float32/float64 *is* a dyadic
rational, the model rounds exactly where numpy rounds a floating-point product, so the
correspondence check only uses inputs whose products are exactly representable.
-/
namespace BiotiteModel.C05

/-! ## Rounding and fixed point -/

/-- `np.round` / `rint`: round half to even. -/
def roundHalfEven (y : Rat) : Int :=
  let fl := y.floor
  let r := y - (fl : Rat)
  if r < 1/2 then fl
  else if 1/2 < r then fl + 1
  else if fl % 2 = 0 then fl else fl + 1

/-- `FixedPointEncoding(factor).encode` before the cast: `np.round(data * factor)`. -/
def fixedRound (f x : Rat) : Int := roundHalfEven (x * f)

/-- `FixedPointEncoding(factor).encode`: the rounded value stored with `.astype(int32)`.
A float → int32 conversion of an out-of-range value is undefined behaviour in C (x86 yields
`INT_MIN`, silently); the model has no value for it (`none`). -/
def fixedEncode (f x : Rat) : Option Int :=
  let k := fixedRound f x
  if DType.i32.inRange k then some k else none

/-- `FixedPointEncoding(factor).decode` (before the cast back to the float type). -/
def fixedDecode (f : Rat) (k : Int) : Rat := (k : Rat) / f

/-- The guard `compress()` applies since the fix: the scaled magnitude must stay below
`iinfo(int32).max`, otherwise the array is stored as plain bytes. -/
def fitsFixed (f x : Rat) : Bool := decide (-(2147483647 : Rat) < x * f ∧ x * f < 2147483647)

/-! ## `_get_decimal_places` (compress.py, after the fix) -/

def absQ (x : Rat) : Rat := if x < 0 then -x else x

/-- `10 ** d` for any integer `d` as an exact rational. -/
def pow10 (d : Int) : Rat :=
  if 0 ≤ d then ((10 ^ d.toNat : Nat) : Rat) else 1 / ((10 ^ (-d).toNat : Nat) : Rat)

/-- `np.round(x, d)`: round half to even at `d` decimals. -/
def roundDec (d : Int) (x : Rat) : Rat := (roundHalfEven (x * pow10 d) : Rat) / pow10 d

def maxAbs : List Rat → Rat
  | [] => 0
  | x :: xs => let m := maxAbs xs; if m < absQ x then absQ x else m

/-- The loop of `_get_decimal_places` over the non-zero finite values `xs`, starting at `d`:
give up (`none`) as soon as `max|x| · 10^d` no longer fits int32, return the first `d` at which every
value is reproduced within the relative tolerance.  `fuel` bounds the search (the real loop is
bounded by the overflow test). -/
def decimalsFrom : Nat → Int → List Rat → Rat → Option Int
  | 0, _, _, _ => none
  | fuel + 1, d, xs, tol =>
    if 18 < d then none          -- the factor 10^d must fit a 64-bit integer to be written (fix 575ec004)
    else if ¬ (maxAbs xs * pow10 d < 2147483647) then none
    else if xs.all (fun x => decide (absQ (roundDec d x - x) < tol * absQ x)) then some d
    else decimalsFrom fuel (d + 1) xs tol

/-! ## Interval quantisation -/

/-- `np.searchsorted(np.linspace(min, max, n), x, side="left")` in exact arithmetic: the
smallest `i` with `min + i·step ≥ x`, clipped to `[0, n]`. -/
def intervalEncode (mn mx : Rat) (n : Nat) (x : Rat) : Int :=
  let step := (mx - mn) / ((n : Rat) - 1)
  let i := ((x - mn) / step).ceil
  if i < 0 then 0 else if (n : Int) < i then n else i

def intervalDecode (mn mx : Rat) (n : Nat) (i : Int) : Rat :=
  (i : Rat) * (mx - mn) / ((n : Rat) - 1) + mn

/-! ## String arrays -/

/-- Distinct strings in order of first occurrence
(`data[np.sort(np.unique(data, return_index=True)[1])]`). -/
def firstOcc : List String → List String
  | [] => []
  | s :: ss => s :: (firstOcc ss).filter (· ≠ s)

/-- `StringArrayEncoding().encode`: the string table and the index of every value in it. -/
def stringEncode (ss : List String) : List String × List Nat :=
  let tbl := firstOcc ss
  (tbl, ss.map fun s => tbl.idxOf s)

/-- `StringArrayEncoding.decode`: `strings[indices]`; an index outside the table is an `IndexError`. -/
def stringDecode (tbl : List String) (idx : List Nat) : Except Err (List String) :=
  idx.mapM fun i => match tbl[i]? with
    | some s => .ok s
    | none => .error .indexError

/-- `StringArrayEncoding(strings=tbl).encode`: the table is given (explicitly, read from a file, or left over from an
earlier use of the same encoding object).  `searchsorted` in the sorted table, then `string_order[...]` — which is an
`IndexError` as soon as one value is greater than every table entry — then the presence check (`ValueError`). -/
def stringEncodeWith (tbl ss : List String) : Except Err (List Nat) :=
  if ss.any (fun s => tbl.all (fun t => decide (t < s))) then .error .indexError
  else if ss.all (fun s => tbl.contains s) then .ok (ss.map fun s => tbl.idxOf s)
  else .error .valueError

/-- `serialize`: concatenated strings and the offsets (prefix sums of the lengths). -/
def stringOffsets : List String → Nat → List Nat
  | [], acc => [acc]
  | s :: ss, acc => acc :: stringOffsets ss (acc + s.length)

/-- `deserialize`: cut the concatenation at the offsets. -/
def stringCut (data : List Char) : List Nat → List String
  | a :: b :: rest => String.ofList ((data.drop a).take (b - a)) :: stringCut data (b :: rest)
  | _ => []

/-! ## Byte arrays (little endian, two's complement) -/

def toBytesLE : Nat → Nat → List Nat
  | 0, _ => []
  | n + 1, x => (x % 256) :: toBytesLE n (x / 256)

def fromBytesLE : List Nat → Nat
  | [] => 0
  | b :: bs => b + 256 * fromBytesLE bs

/-- Bit pattern of `x` in `t` as a natural number. -/
def pattern (t : DType) (x : Int) : Nat := (x % (2 ^ t.bits : Int)).toNat

/-- Value of a bit pattern in `t`. -/
def unpattern (t : DType) (p : Nat) : Int := wrap t (p : Int)

def bytesEncode (t : DType) : List Int → List Nat
  | [] => []
  | x :: xs => toBytesLE (t.bits / 8) (pattern t x) ++ bytesEncode t xs

/-- `np.frombuffer(data, dtype)`: length must be a multiple of the item size (`ValueError`). -/
def bytesDecode (t : DType) (bs : List Nat) : Except Err (List Int) :=
  if bs.length % (t.bits / 8) ≠ 0 then .error .valueError else .ok (go bs.length bs)
where
  go : Nat → List Nat → List Int
    | 0, _ => []
    | _, [] => []
    | fuel + 1, bs => unpattern t (fromBytesLE (bs.take (t.bits / 8))) :: go fuel (bs.drop (t.bits / 8))

/-! ## Chains chosen by `compress()` for integer arrays

`_find_best_integer_compression` tries `{delta?} × {run-length?} × {packing none/1/2}` followed by
`ByteArray`.  The *choice* among them (by serialised size) is deliberately not modelled: the
theorem covers every candidate. -/

/-! ## `_to_smallest_integer_type` (compress.py) -/

/-- Candidate types in the order the code tries them: (name, min, max). -/
def unsignedCands : List (String × Int × Int) :=
  [("u8", 0, 255), ("u16", 0, 65535), ("u32", 0, 4294967295), ("u64", 0, 18446744073709551615)]
def signedCands : List (String × Int × Int) :=
  [("i8", -128, 127), ("i16", -32768, 32767), ("i32", -2147483648, 2147483647),
   ("i64", -9223372036854775808, 9223372036854775807)]

def fitsCand (xs : List Int) (c : String × Int × Int) : Bool :=
  xs.all fun x => decide (c.2.1 ≤ x ∧ x ≤ c.2.2)

/-- The first unsigned type holding every value if none is negative, else the first signed one;
`none`: `array.min()` of an empty array / out of bounds for all types (both `ValueError`). -/
def toSmallest (xs : List Int) : Option (String × Int × Int) :=
  if xs.isEmpty then none
  else
    ((if xs.all (fun x => decide (0 ≤ x)) then unsignedCands else []) ++ signedCands).find? (fitsCand xs)

structure Chain where
  delta : Bool
  rle : Bool
  pack : Option Nat        -- byte count
  deriving DecidableEq, Repr

/-- Intermediate result of a chain: the integer stream and the dtype it is stored in. -/
structure Encoded where
  t : DType                -- dtype of the original array
  origin : Int
  rleSize : Nat
  packSize : Nat
  packType : Option DType
  stream : List Int
  deriving Repr

/-- Last optional stage: integer packing with `is_unsigned` determined from the data. -/
def packStage (p : Option Nat) (s2 : List Int) : Option (Option DType × List Int) :=
  match p with
  | none => some (none, s2)
  | some bc =>
    if s2.isEmpty then none          -- `data.min()` of an empty array raises
    else
      let u := s2.all (fun x => decide (0 ≤ x))
      match packEncode bc (some u) s2, packedType bc u with
      | some (.ok e), .ok pt => some (some pt, e)
      | _, _ => none

def unpackStage (pt : Option DType) (n : Nat) (stream : List Int) : Option (List Int) :=
  match pt with
  | none => some stream
  | some pt =>
    match packDecode pt n stream with
    | .ok s => some s
    | .error _ => none

/-- Optional run-length stage on a stream of dtype `t1`. -/
def rleStage (on : Bool) (t1 : DType) (s1 : List Int) : Option (List Int) :=
  if on then
    match rleEncode t1 none s1 with
    | .ok e => some e
    | .error _ => none
  else some s1

def unrleStage (on : Bool) (t1 : DType) (n : Nat) (s2 : List Int) : Option (List Int) :=
  if on then
    match rleDecode t1.supported (some n) s2 with
    | some (.ok s) => some s
    | _ => none
  else some s2

/-- Optional delta stage: origin, differences and the dtype of the differences. -/
def deltaStage (on : Bool) (t : DType) (xs : List Int) : Option (Int × List Int × DType) :=
  if on then
    match deltaEncode t xs with
    | .ok (o, ds) => some (o, ds, DType.i32)
    | .error _ => none
  else some (0, xs, t)

/-- Apply a candidate chain to an array of dtype `t`.  `none`: some stage rejects the data
(an exception in the real code — allowed by the property) or the model says nothing. -/
def chainEncode (c : Chain) (t : DType) (xs : List Int) : Option Encoded :=
  match deltaStage c.delta t xs with
  | none => none
  | some (origin, s1, t1) =>
    match rleStage c.rle t1 s1 with
    | none => none
    | some s2 =>
      match packStage c.pack s2 with
      | none => none
      | some (pt, e) => some ⟨t, origin, s1.length, s2.length, pt, e⟩

def chainDecode (c : Chain) (e : Encoded) : Option (List Int) :=
  match unpackStage e.packType e.packSize e.stream with
  | none => none
  | some s2 =>
    match unrleStage c.rle (if c.delta then .i32 else e.t) e.rleSize s2 with
    | none => none
    | some s1 => if c.delta then some (deltaDecode e.t e.origin s1) else some s1

end BiotiteModel.C05

import BiotiteModel.Common
/-!
# C04 — Structure ↔ PDBx block (model of `structure/io/pdbx/convert.py`, `filter.py` altloc
filters, `bonds.pyx` `connect_via_residue_names`)

Level of modelling: *tables of tokens*.  Annotation values, coordinates, B-factors … that the
code only moves are opaque `Tok`ens (strings); no arithmetic is invented for them.  A
`Structure` is a list of atom rows + per-model coordinate tokens + an optional bond list; a
`Block` holds the categories `atom_site`, `struct_conn`, `chem_comp_bond` as lists of rows
(the `cell` category is a single opaque token).  The component dictionary is a *parameter*
(`Ccd`).  The CIF text layer (C06) and the BinaryCIF encodings (C05) are below this model.

The model follows the code **as repaired** by the `fix:` commits listed in `notes/C04.md`.
-/
namespace BiotiteModel.C04

abbrev Tok := String

/-- `MaskValue` of `component.py`. -/
inductive Mask where
  | present | inapplicable | missing
  deriving DecidableEq, Repr

/-- A string cell of a column that carries a mask. -/
structure Cell where
  val : String
  mask : Mask
  deriving DecidableEq, Repr

/-- One atom of an `AtomArray`: the seven mandatory annotations, the optional `charge` and
`atom_id`, and the remaining optional columns (`b_factor`, `occupancy`, extra fields) as
opaque tokens. -/
structure Atom where
  chain : String
  resId : Int
  ins : String
  resName : String
  hetero : Bool
  atomName : String
  element : String
  charge : Int
  atomId : Int
  opt : List Tok
  deriving DecidableEq, Repr

/-- A bond `(i, j, BondType code)`. -/
structure Bond where
  i : Nat
  j : Nat
  t : Nat
  deriving DecidableEq, Repr

structure Structure where
  atoms : List Atom
  hasCharge : Bool
  hasAtomId : Bool
  /-- coordinates, one list of tokens per model (`AtomArray` = one model) -/
  coords : List (List Tok)
  box : Option Tok
  bonds : Option (List Bond)
  deriving DecidableEq, Repr

/-! ## Tables (tied to the source by `Gen/C04.lean` + `decide` in `Props/C04.lean`) -/

/-- `BondType` codes. -/
def btAny := 0
def btSingle := 1
def btCoordination := 8
def btAromatic := 9

/-- `PDBX_BOND_TYPE_TO_TYPE_ID`. -/
def interTypeId : Nat → Option String
  | 0 | 1 | 2 | 3 | 4 | 5 | 6 | 7 | 9 => some "covale"
  | 8 => some "metalc"
  | _ => none

/-- `PDBX_BOND_TYPE_TO_ORDER`. -/
def interOrder : Nat → Option String
  | 1 | 5 => some "sing"
  | 2 | 6 => some "doub"
  | 3 | 7 => some "trip"
  | 4 => some "quad"
  | 0 | 8 | 9 => some ""
  | _ => none

/-- The bond types whose `pdbx_value_order` is masked as missing (`np.isin(…)`). -/
def interOrderMasked (t : Nat) : Bool := t == 0 || t == 9 || t == 8

/-- `PDBX_BOND_TYPE_ID_TO_TYPE`. -/
def typeIdToType : String → Option Nat
  | "covale" | "covale_base" | "covale_phosphate" | "covale_sugar"
  | "disulf" | "modres" | "modres_link" => some 1
  | "metalc" => some 8
  | _ => none

/-- `PDBX_ORDER_TO_BOND_TYPE`. -/
def orderToType : String → Option Nat
  | "sing" => some 1 | "doub" => some 2 | "trip" => some 3 | "quad" => some 4
  | _ => none

/-- `COMP_BOND_ORDER_TO_TYPE`. -/
def compOrderToType : String → String → Option Nat
  | "SING", "N" => some 1 | "DOUB", "N" => some 2 | "TRIP", "N" => some 3 | "QUAD", "N" => some 4
  | "SING", "Y" => some 5 | "DOUB", "Y" => some 6 | "TRIP", "Y" => some 7 | "AROM", "Y" => some 9
  | _, _ => none

/-- `COMP_BOND_TYPE_TO_ORDER` (the inverted dict). -/
def compTypeToOrder : Nat → Option (String × String)
  | 1 => some ("SING", "N") | 2 => some ("DOUB", "N") | 3 => some ("TRIP", "N") | 4 => some ("QUAD", "N")
  | 5 => some ("SING", "Y") | 6 => some ("DOUB", "Y") | 7 => some ("TRIP", "Y") | 9 => some ("AROM", "Y")
  | _ => none

/-- `_canonical_aa_list` (filter.py). -/
def canonicalAA : List String :=
  ["ALA", "ARG", "ASN", "ASP", "CYS", "GLN", "GLU", "GLY", "HIS", "ILE", "LEU", "LYS", "MET", "PHE",
   "PRO", "PYL", "SER", "THR", "TRP", "TYR", "VAL", "SEC"]

/-- `_canonical_nucleotide_list` (filter.py). -/
def canonicalNuc : List String := ["A", "DA", "G", "DG", "C", "DC", "U", "DT"]

/-- `CANONICAL_RESIDUE_LIST`. -/
def canonicalResidues : List String := canonicalAA ++ canonicalNuc

/-- The altloc ids that mean "no altloc" in `filter.py`. -/
def noAltloc : List String := [".", "?", " ", ""]

/-- Link class of a component (`link_type` ∈ `_PEPTIDE_LINKS` / `_NUCLEIC_LINKS` / neither). -/
inductive LinkClass where
  | peptide | nucleic | other
  deriving DecidableEq, Repr

/-- The component dictionary as a parameter: link class by (upper-cased) residue name and the
`chem_comp_bond` rows by exact residue name, in file order. -/
structure Ccd where
  link : String → LinkClass
  bonds : String → List ((String × String) × Nat)

/-! ## Residues -/

/-- `get_residue_starts`: a new residue starts where chain, res_id, ins_code or res_name change. -/
def newResidue (a b : Atom) : Bool :=
  a.chain != b.chain || a.resId != b.resId || a.ins != b.ins || a.resName != b.resName

def resPosAux : Atom → Nat → List Atom → List Nat
  | _, _, [] => []
  | prev, k, a :: rest =>
    let k' := if newResidue prev a then k + 1 else k
    k' :: resPosAux a k' rest

/-- `get_residue_positions(array, all indices)`: 0-based residue number of every atom. -/
def resPos : List Atom → List Nat
  | [] => []
  | a :: rest => 0 :: resPosAux a 0 rest

/-- Split the atoms into residues (lists of `(index, atom)`), in order. -/
def residuesAux : List (Nat × Atom) → List (Nat × Atom) → List (List (Nat × Atom))
  | cur, [] => if cur.isEmpty then [] else [cur.reverse]
  | [], x :: rest => residuesAux [x] rest
  | p :: cur, x :: rest =>
    if newResidue p.2 x.2 then (p :: cur).reverse :: residuesAux [x] rest
    else residuesAux (x :: p :: cur) rest

def indexed {α : Type} (xs : List α) : List (Nat × α) := (List.range xs.length).zip xs

def residues (atoms : List Atom) : List (List (Nat × Atom)) := residuesAux [] (indexed atoms)

/-! ## `BondList` construction (normalisation) and `merge` -/

/-- `BondList(n, array)`: atom indices of each bond sorted, later duplicates of a pair removed. -/
def normBondsAux : List (Nat × Nat) → List Bond → List Bond
  | _, [] => []
  | seen, b :: bs =>
    let lo := min b.i b.j
    let hi := max b.i b.j
    if seen.contains (lo, hi) then normBondsAux seen bs
    else ⟨lo, hi, b.t⟩ :: normBondsAux ((lo, hi) :: seen) bs

def normBonds (bs : List Bond) : List Bond := normBondsAux [] bs

/-- `self.merge(other)`: `other` takes precedence. -/
def mergeBonds (self other : List Bond) : List Bond := normBonds (other ++ self)

/-! ## Writing: `set_structure` -/

/-- A row of `atom_site` (the columns the reader uses; `auth_*` duplicate `label_*`). -/
structure SiteRow where
  group : String
  element : String
  atomName : String
  alt : Cell
  comp : String
  asym : String
  entity : Nat
  seq : Int
  ins : Cell
  charge : Option (Int × Mask)
  id : Int
  model : Int
  xyz : Tok
  /-- occupancy in eighths, only for hand-made tables used with `altloc="occupancy"` -/
  occ : Option Nat
  opt : List Tok
  deriving DecidableEq, Repr

/-- `_determine_entity_id`: chains numbered by first appearance. -/
def entityIdsAux : List (String × Nat) → Nat → List String → List Nat
  | _, _, [] => []
  | tbl, next, c :: cs =>
    match tbl.lookup c with
    | some e => e :: entityIdsAux tbl next cs
    | none => next :: entityIdsAux ((c, next) :: tbl) (next + 1) cs

def entityIds (chains : List String) : List Nat := entityIdsAux [] 1 chains

def writeRow (hasCharge : Bool) (a : Atom) (entity : Nat) : SiteRow :=
  { group := if a.hetero then "HETATM" else "ATOM"
    element := a.element
    atomName := a.atomName
    alt := ⟨".", .inapplicable⟩
    comp := a.resName
    asym := a.chain
    entity := entity
    seq := a.resId
    ins := ⟨a.ins, if a.ins = "" then .inapplicable else .present⟩
    charge := if hasCharge then some (a.charge, if a.charge = 0 then .missing else .present) else none
    id := a.atomId
    model := 1
    xyz := ""
    occ := none
    opt := a.opt }

/-- The annotation part of `atom_site` for one model. -/
def writeRows (s : Structure) : List SiteRow :=
  List.zipWith (writeRow s.hasCharge) s.atoms (entityIds (s.atoms.map (·.chain)))

/-- One model block (`_repeat` + coordinates + model number): the annotation rows with the model
number `k`, the coordinates of that model and — unless the structure has `atom_id` — the running
number `i+1, i+2, …` as `id` (`np.arange(1, total + 1)` over the repeated table). -/
def modelBlock (hasId : Bool) (k : Int) : Nat → List SiteRow → List Tok → List SiteRow
  | _, [], _ => []
  | _, _, [] => []
  | i, r :: rs, c :: cs =>
    { r with model := k, xyz := c, id := if hasId then r.id else (i : Int) + 1 } ::
      modelBlock hasId k (i + 1) rs cs

def modelBlocks (hasId : Bool) (rows : List SiteRow) : Nat → List (List Tok) → List (List SiteRow)
  | _, [] => []
  | k, xyz :: rest => modelBlock hasId ((k : Int) + 1) (k * rows.length) rows xyz :: modelBlocks hasId rows (k + 1) rest

/-- `atom_site` as written by `set_structure`. -/
def writeSite (s : Structure) : List SiteRow :=
  (modelBlocks s.hasAtomId (writeRows s) 0 s.coords).flatten

/-- Identification of an atom in `struct_conn`: label_asym_id, label_comp_id, label_seq_id,
label_atom_id, pdbx_PDB_ins_code. -/
structure Key where
  asym : String
  comp : String
  seq : Int
  atom : String
  ins : String
  deriving DecidableEq, Repr

/-- A row of `struct_conn`. -/
structure ConnRow where
  id : Nat
  typeId : String
  order : Cell
  p1 : Key
  p2 : Key
  deriving DecidableEq, Repr

/-- A row of `chem_comp_bond`. -/
structure CompBondRow where
  comp : String
  atom1 : String
  atom2 : String
  order : Cell
  arom : Cell
  deriving DecidableEq, Repr

structure Block where
  site : List SiteRow
  conn : Option (List ConnRow)
  ccb : Option (List CompBondRow)
  cell : Option Tok
  deriving DecidableEq, Repr

/-- `_filter_bonds`: a bond goes to `struct_conn` if it connects two residues or is a
coordination bond; otherwise to `chem_comp_bond`. -/
def inStructConn (pos : List Nat) (b : Bond) : Bool :=
  pos[b.i]? != pos[b.j]? || b.t == btCoordination

def atomAt (atoms : List Atom) (i : Nat) : Atom :=
  atoms.getD i ⟨"", 0, "", "", false, "", "", 0, 0, []⟩

/-- `is_peptide_link | is_nucleotide_link` of `_filter_canonical_links` (repaired): C–N between two
canonical amino acids or O3'–P between two canonical nucleotides. -/
def canonKind (a1 a2 : Atom) : Bool :=
  (canonicalAA.contains a1.resName && canonicalAA.contains a2.resName && a1.atomName == "C" && a2.atomName == "N") ||
  (canonicalNuc.contains a1.resName && canonicalNuc.contains a2.resName && a1.atomName == "O3'" && a2.atomName == "P")

/-- `_filter_canonical_links` (repaired): a backbone link between array-adjacent canonical
residues of the same kind that `connect_via_residue_names` restores on reading. -/
def isCanonicalLink (atoms : List Atom) (pos : List Nat) (b : Bond) : Bool :=
  let a1 := atomAt atoms b.i
  let a2 := atomAt atoms b.j
  canonKind a1 a2 &&
  ((pos.getD b.j 0 : Int) - (pos.getD b.i 0 : Int) == 1) &&
  b.t == btSingle && a1.chain == a2.chain && decide (a2.resId - a1.resId ≤ 1)

/-- As `atom_site[col].as_array()` shows an ins code: masked → `.` -/
def cellShown (c : Cell) : String :=
  match c.mask with
  | .present => c.val
  | .inapplicable => "."
  | .missing => "?"

def siteKeyRaw (r : SiteRow) : Key := ⟨r.asym, r.comp, r.seq, r.atomName, cellShown r.ins⟩

def connRows : Nat → List SiteRow → List Bond → Except Err (List ConnRow)
  | _, _, [] => .ok []
  | k, site, b :: bs => do
    let tid ← match interTypeId b.t with | some x => pure x | none => throw Err.keyError
    let ord ← match interOrder b.t with | some x => pure x | none => throw Err.keyError
    let key := fun (i : Nat) => match site[i]? with
      | some r => siteKeyRaw r
      | none => ⟨"", "", 0, "", ""⟩
    let rest ← connRows (k + 1) site bs
    pure (⟨k + 1, tid, ⟨ord, if interOrderMasked b.t then .missing else .present⟩, key b.i, key b.j⟩ :: rest)

/-- `_set_inter_residue_bonds`. `site` is the single-model annotation table. -/
def setInter (atoms : List Atom) (site : List SiteRow) (bonds : List Bond) : Except Err (Option (List ConnRow)) :=
  let pos := resPos atoms
  let inter := bonds.filter (inStructConn pos)
  if inter.isEmpty then .ok none else
  let rest := inter.filter (fun b => !isCanonicalLink atoms pos b)
  if rest.isEmpty then .ok none else
  (connRows 0 site rest).map some

def uniqueRowsAux : List (String × String × String) → List CompBondRow → List CompBondRow
  | _, [] => []
  | seen, r :: rs =>
    if seen.contains (r.comp, r.atom1, r.atom2) then uniqueRowsAux seen rs
    else r :: uniqueRowsAux ((r.comp, r.atom1, r.atom2) :: seen) rs

def compBondRow (atoms : List Atom) (b : Bond) : Except Err CompBondRow :=
  let a1 := atomAt atoms b.i
  let a2 := atomAt atoms b.j
  if b.t == btAny then .ok ⟨a1.resName, a1.atomName, a2.atomName, ⟨"", .missing⟩, ⟨"", .missing⟩⟩
  else match compTypeToOrder b.t with
    | some (o, f) => .ok ⟨a1.resName, a1.atomName, a2.atomName, ⟨o, .present⟩, ⟨f, .present⟩⟩
    | none => .error .keyError

/-- `_set_intra_residue_bonds`. -/
def setIntra (atoms : List Atom) (bonds : List Bond) : Except Err (Option (List CompBondRow)) :=
  if atoms.any (fun a => a.resName == "") || atoms.any (fun a => a.atomName == "") then .error .badStructure else
  let intra := bonds.filter (fun b => !inStructConn (resPos atoms) b)
  if intra.isEmpty then .ok none else do
  let rows ← intra.mapM (compBondRow atoms)
  pure (some (uniqueRowsAux [] rows))

/-- `set_structure(file, array, include_bonds)`. -/
def writeBlock (s : Structure) (includeBonds : Bool) : Except Err Block := do
  if s.atoms.isEmpty || s.coords.isEmpty then throw Err.badStructure
  let (conn, ccb) ← match s.bonds with
    | none => pure (none, none)
    | some bs => do
      let conn ← setInter s.atoms (writeRows s) bs
      let ccb ← if includeBonds then setIntra s.atoms bs else pure none
      pure (conn, ccb)
  pure ⟨writeSite s, conn, ccb, s.box⟩

/-- `set_structure` into a block that already holds a structure (repaired): the file is only touched
when the conversion succeeded; `atom_site` is replaced; `struct_conn` / `chem_comp_bond` are replaced
or removed when the new structure has a `BondList` and left alone otherwise; `cell` is replaced, or
removed when the new structure has no box. -/
def writeInto (old : Block) (s : Structure) (includeBonds : Bool) : Except Err Block := do
  let b ← writeBlock s includeBonds
  pure (match s.bonds with
    | some _ => b
    | none => { b with conn := old.conn, ccb := old.ccb })

/-! ## Reading: `get_structure` -/

/-- `_filter_model`: the table is cut at the first occurrence of every distinct model number
(`np.unique(return_index)` + `sort`); the groups are the slices between consecutive starts. -/
def splitModelsAux : List Int → List SiteRow → List SiteRow → List (List SiteRow)
  | _, cur, [] => if cur.isEmpty then [] else [cur.reverse]
  | seen, cur, r :: rs =>
    if seen.contains r.model then splitModelsAux seen (r :: cur) rs
    else if cur.isEmpty then splitModelsAux (r.model :: seen) [r] rs
    else cur.reverse :: splitModelsAux (r.model :: seen) [r] rs

def splitModels (site : List SiteRow) : List (List SiteRow) := splitModelsAux [] [] site

/-- The model numbers in the order of their first appearance. -/
def modelNumbers (site : List SiteRow) : List Int :=
  (splitModels site).map (fun g => match g.head? with | some r => r.model | none => 0)

/-- `_filter_model` (repaired): the rows that carry the k-th model number (0-based `k`), wherever
they are in the table. -/
def selectModel (site : List SiteRow) (k : Nat) : List SiteRow :=
  match (modelNumbers site)[k]? with
  | some v => site.filter (fun r => r.model == v)
  | none => []

/-- `_fill_annotations` for one row (`extra_fields` = charge / atom_id requested or not). -/
def readRow (wantCharge wantAtomId : Bool) (r : SiteRow) : Atom :=
  { chain := r.asym
    resId := r.seq
    ins := match r.ins.mask with | .present => r.ins.val | _ => ""
    resName := r.comp
    hetero := r.group == "HETATM"
    atomName := r.atomName
    element := r.element
    charge := if wantCharge then
        match r.charge with
        | some (c, .present) => c
        | _ => 0
      else 0
    atomId := if wantAtomId then r.id else 0
    opt := r.opt }

/-- `reference[reference == "?"] = "."` -/
def normQ (s : String) : String := if s == "?" then "." else s

def normKey (k : Key) : Key := ⟨normQ k.asym, normQ k.comp, k.seq, normQ k.atom, normQ k.ins⟩

def siteKey (r : SiteRow) : Key := normKey (siteKeyRaw r)

def idxsFrom (q : Key) : Nat → List Key → List Nat
  | _, [] => []
  | k, r :: rs => if r = q then k :: idxsFrom q (k + 1) rs else idxsFrom q (k + 1) rs

/-- `_find_matches_by_dense_array`: `-1` = no match; a query with several matches is an error. -/
def findDense (queries refs : List Key) : Except Err (List Int) :=
  if queries.any (fun q => decide ((idxsFrom q 0 refs).length > 1)) then .error .invalidFile
  else .ok (queries.map fun q => match idxsFrom q 0 refs with | [] => -1 | i :: _ => (i : Int))

/-- The dictionary of `_find_matches_by_dict`: first index of every key + the ambiguous keys. -/
def buildDict : Nat → List Key → List (Key × Nat) × List Key → List (Key × Nat) × List Key
  | _, [], acc => acc
  | k, r :: rs, (d, amb) =>
    if (d.lookup r).isSome then buildDict (k + 1) rs (d, r :: amb)
    else buildDict (k + 1) rs (d ++ [(r, k)], amb)

def dictLookup (dict : List (Key × Nat) × List Key) (q : Key) : Except Err Int :=
  match dict.1.lookup q with
  | none => .ok (-1)
  | some i => if dict.2.contains q then .error .invalidFile else .ok i

/-- `_find_matches_by_dict`. -/
def findDict (queries refs : List Key) : Except Err (List Int) :=
  queries.mapM (dictLookup (buildDict 0 refs ([], [])))

def lowerAscii (s : String) : String := s.toLower
def upperAscii (s : String) : String := s.toUpper

/-- Bond type of a `struct_conn` row (repaired: the order column is read). -/
def connType (r : ConnRow) : Option Nat :=
  match typeIdToType r.typeId with
  | none => none
  | some t =>
    if t == btSingle then
      let ord := match r.order.mask with | .present => r.order.val | _ => ""
      some ((orderToType (lowerAscii ord)).getD t)
    else some t

def pickBonds : List ConnRow → List Int → List Int → List Bond
  | r :: rs, i :: is, j :: js =>
    if i != -1 && j != -1 then
      match connType r with
      | some t => ⟨i.toNat, j.toNat, t⟩ :: pickBonds rs is js
      | none => pickBonds rs is js
    else pickBonds rs is js
  | _, _, _ => []

/-- `_parse_inter_residue_bonds(model_atom_site, struct_conn)`. -/
def parseInter (site : List SiteRow) (conn : List ConnRow) : Except Err (List Bond) := do
  let cov := conn.filter (fun r => (typeIdToType r.typeId).isSome)
  let refs := site.map siteKey
  let i1 ← findDense (cov.map fun r => normKey r.p1) refs
  let i2 ← findDense (cov.map fun r => normKey r.p2) refs
  pure (normBonds (pickBonds cov i1 i2))

/-- Python dict insertion: an existing key keeps its position, the value is overwritten. -/
def dictSet {κ ν : Type} [BEq κ] (d : List (κ × ν)) (k : κ) (v : ν) : List (κ × ν) :=
  if (d.lookup k).isSome then d.map (fun (k', v') => if k' == k then (k', v) else (k', v'))
  else d ++ [(k, v)]

abbrev BondDict := List (String × List ((String × String) × Nat))

/-- `_parse_intra_residue_bonds`. -/
def parseIntra (rows : List CompBondRow) : BondDict :=
  rows.foldl (fun d r =>
    let t := (compOrderToType (upperAscii (cellShown r.order)) (cellShown r.arom)).getD btAny
    let inner := (d.lookup r.comp).getD []
    dictSet d r.comp (dictSet inner (r.atom1, r.atom2) t)) []

/-- The intra-residue part of `connect_via_residue_names`. -/
def connectIntra (atoms : List Atom) (dictFor : String → List ((String × String) × Nat)) : List Bond :=
  (residues atoms).flatMap fun res =>
    match res with
    | [] => []
    | (_, a0) :: _ =>
      (dictFor a0.resName).flatMap fun ((n1, n2), t) =>
        (res.filter (fun p => p.2.atomName == n1)).flatMap fun p1 =>
          (res.filter (fun p => p.2.atomName == n2)).map fun p2 => (⟨p1.1, p2.1, t⟩ : Bond)

def firstNamed (res : List (Nat × Atom)) (name : String) : Option Nat :=
  (res.find? (fun p => p.2.atomName == name)).map (·.1)

/-- `_connect_inter_residue`. -/
def connectInter (ccd : Ccd) : List (List (Nat × Atom)) → List Bond
  | cur :: next :: rest =>
    let tail := connectInter ccd (next :: rest)
    match cur, next with
    | (_, a) :: _, (_, b) :: _ =>
      if a.chain != b.chain then tail
      else if b.resId - a.resId > 1 then tail
      else
        let names : Option (String × String) :=
          match ccd.link (upperAscii a.resName), ccd.link (upperAscii b.resName) with
          | .peptide, .peptide => some ("C", "N")
          | .nucleic, .nucleic => some ("O3'", "P")
          | _, _ => none
        match names with
        | none => tail
        | some (n1, n2) =>
          match firstNamed cur n1, firstNamed next n2 with
          | some i, some j => ⟨i, j, btSingle⟩ :: tail
          | _, _ => tail
    | _, _ => tail
  | _ => []

/-- `connect_via_residue_names(atoms, custom_bond_dict)`. -/
def connectViaResNames (ccd : Ccd) (atoms : List Atom) (custom : Option BondDict) : List Bond :=
  let dictFor : String → List ((String × String) × Nat) := match custom with
    | some d => fun name => (d.lookup name).getD []
    | none => ccd.bonds
  mergeBonds (normBonds (connectIntra atoms dictFor)) (normBonds (connectInter ccd (residues atoms)))

/-! ## Altloc filters (`filter.py`, repaired) -/

def hasAltloc (a : String) : Bool := !noAltloc.contains a

/-- `filter_first_altloc` on one residue: the alt ids of its atoms → keep mask. -/
def firstAltlocRes (alts : List String) : List Bool :=
  match alts.filter hasAltloc with
  | [] => alts.map (fun a => !hasAltloc a)
  | first :: _ => alts.map (fun a => !hasAltloc a || a == first)

def occSum (alts : List String) (occ : List Nat) (id : String) : Nat :=
  ((alts.zip occ).filter (fun p => p.1 == id)).foldl (fun s p => s + p.2) 0

/-- the id with the highest occupancy sum; ties → the smallest id (`sorted(set(...))`, strict `>`). -/
def bestAltloc (alts : List String) (occ : List Nat) : Option String :=
  let ids := (alts.filter hasAltloc).eraseDups.mergeSort (fun a b => decide (a ≤ b))
  ids.foldl (fun best id =>
    match best with
    | none => some id
    | some b => if occSum alts occ id > occSum alts occ b then some id else some b) none

def occAltlocRes (alts : List String) (occ : List Nat) : List Bool :=
  match bestAltloc alts occ with
  | none => alts.map (fun a => !hasAltloc a)
  | some best => alts.map (fun a => !hasAltloc a || a == best)

inductive AltPolicy where
  | first | occupancy
  deriving DecidableEq, Repr

/-- keep-mask over all atoms, residue by residue. -/
def altlocMask (policy : AltPolicy) (atoms : List Atom) (alts : List String) (occ : List Nat) : List Bool :=
  (residues atoms).flatMap fun res =>
    let idx := res.map (·.1)
    let a := idx.map (fun i => alts.getD i ".")
    match policy with
    | .first => firstAltlocRes a
    | .occupancy => occAltlocRes a (idx.map (fun i => occ.getD i 0))

/-- number of kept positions before `i` = new index of atom `i`. -/
def newIndex (mask : List Bool) (i : Nat) : Nat := ((mask.take i).filter id).length

/-- `array[..., mask]` on the bond list. -/
def filterBondsByMask (mask : List Bool) (bs : List Bond) : List Bond :=
  (bs.filter (fun b => mask.getD b.i false && mask.getD b.j false)).map
    fun b => ⟨newIndex mask b.i, newIndex mask b.j, b.t⟩

def applyMask {α : Type} (mask : List Bool) (xs : List α) : List α :=
  ((mask.zip xs).filter (·.1)).map (·.2)

/-! ## The box (`cell` category) -/

/-- `set_structure`: "PDBx files can only store one box for all models → use first box":
the `cell` category is computed (`unitcell_from_vectors`) from `array.box[0]` of a stack. -/
def writeCell (boxes : Option (List Tok)) : Option Tok :=
  match boxes with
  | none => none
  | some bs => bs.head?

/-- `get_structure(model=None)`: the one box of the file is repeated for every model. -/
def readBoxes (cell : Option Tok) (modelCount : Nat) : Option (List Tok) :=
  cell.map (List.replicate modelCount)

/-! ## `get_structure` -/

structure ReadOpts where
  model : Option Int
  altloc : AltPolicy
  includeBonds : Bool
  wantCharge : Bool
  wantAtomId : Bool

def distinctCount (xs : List Int) : Nat := xs.eraseDups.length

def chunks {α : Type} (n : Nat) : Nat → List α → List (List α)
  | 0, _ => []
  | k + 1, xs => xs.take n :: chunks n k (xs.drop n)

def readStructure (ccd : Ccd) (b : Block) (o : ReadOpts) : Except Err Structure := do
  let models := b.site.map (·.model)
  let count := distinctCount models
  let groups := splitModels b.site
  let (rows, coords) ← match o.model with
    | none => do
      let first := selectModel b.site 0
      -- repaired: every model (not only the total) must have the length of the first one,
      -- and the rows of each model must be contiguous
      if groups.any (fun g => g.length != first.length) ||
         groups.any (fun g => g.any (fun r => some r.model != g.head?.map (·.model))) then throw Err.invalidFile
      pure (first, chunks first.length count (b.site.map (·.xyz)))
    | some m => do
      if m == 0 then throw Err.valueError
      let m' : Int := if m < 0 then (count : Int) + m + 1 else m
      if m' > count || m' < 1 then throw Err.valueError
      let g := selectModel b.site (m'.toNat - 1)
      pure (g, [g.map (·.xyz)])
  let atoms := rows.map (readRow o.wantCharge o.wantAtomId)
  let bonds ← if o.includeBonds then do
      let custom := b.ccb.map parseIntra
      let base := connectViaResNames ccd atoms custom
      match b.conn with
      | some conn => do
        let inter ← parseInter rows conn
        pure (some (mergeBonds base inter))
      | none => pure (some base)
    else pure none
  -- `_filter_altloc`
  let alts := rows.map (fun r => cellShown r.alt)
  let occ? : Option (List Nat) := rows.mapM (·.occ)
  let mask ← match o.altloc, occ? with
    | .occupancy, some occ => pure (altlocMask .occupancy atoms alts occ)
    | .occupancy, none => throw Err.valueError
    | .first, _ => pure (altlocMask .first atoms alts [])
  pure { atoms := applyMask mask atoms
         hasCharge := o.wantCharge
         hasAtomId := o.wantAtomId
         coords := coords.map (applyMask mask)
         box := b.cell
         bonds := bonds.map (filterBondsByMask mask) }

end BiotiteModel.C04

import BiotiteModel.Model.C12Grp
/-!
# C12 — part 6: GenBank feature table (qualifier text, key column) and ORIGIN block

Writer: `genbank/annotation.py::set_annotation` — one line `     key             location` per
feature, then one line per qualifier: `/key` (no value) or `/key="piece"` for every piece of
`value.split("\n")`, indented by 21 blanks.  (The code does **not** wrap long lines.)
Reader: `get_annotation` — `featCollect` (key column, concatenation of the text after column 21,
each line followed by a blank), `reSplit` (the regex `(".*?"|/.*?=)` of `re.split` as a scanner),
`partsGo`/`keyPartGo` (alternating key parts / value parts, `_set_qual`), the repaired handling of
value-less qualifiers glued to the location.
ORIGIN: `sequence.py::set_sequence` / `_field_to_seq_string` / `_get_seq_start`.
-/
namespace BiotiteModel.C12

abbrev Qual := Str × Option Str

/-! ## writer -/

def qualLines (q : Qual) : List Str :=
  match q.2 with
  | none => ['/' :: q.1]
  | some v => (splitC '\n' v []).map (fun p => '/' :: q.1 ++ '=' :: '"' :: p ++ ['"'])

/-- the lines of one feature (`_KEY_START = 5`, `_QUAL_START = 21`). -/
def featLines (key locStr : Str) (quals : List Qual) : List Str :=
  (List.replicate 5 ' ' ++ ljust 16 key ++ locStr) ::
    (quals.flatMap qualLines).map (fun l => List.replicate 21 ' ' ++ l)

/-- the text `get_annotation` accumulates for one feature: every line's tail followed by a blank. -/
def featValue (locStr : Str) (quals : List Qual) : Str :=
  locStr ++ ' ' :: (quals.flatMap qualLines).flatMap (fun l => l ++ [' '])

/-! ## reader -/

/-- `re.split(r'(".*?"|/.*?=)', s)`: text, match, text, match, …, text. -/
def reSplitF : Nat → Str → Str → List Str
  | 0, _, acc => [acc.reverse]
  | _ + 1, [], acc => [acc.reverse]
  | f + 1, c :: rest, acc =>
    if c = '"' ∧ '"' ∈ rest then
      acc.reverse :: ('"' :: rest.takeWhile (· ≠ '"') ++ ['"']) ::
        reSplitF f ((rest.dropWhile (· ≠ '"')).drop 1) []
    else if c = '/' ∧ '=' ∈ rest then
      acc.reverse :: ('/' :: rest.takeWhile (· ≠ '=') ++ ['=']) ::
        reSplitF f ((rest.dropWhile (· ≠ '=')).drop 1) []
    else reSplitF f rest (c :: acc)

def reSplit (s : Str) : List Str := reSplitF (s.length + 1) s []

/-- `str.split()` (whitespace separated tokens). -/
def wsSplitGo : Str → Str → List Str
  | [], acc => if acc.isEmpty then [] else [acc.reverse]
  | c :: cs, acc =>
    if isSpace c then (if acc.isEmpty then wsSplitGo cs [] else acc.reverse :: wsSplitGo cs [])
    else wsSplitGo cs (c :: acc)

def wsSplit (s : Str) : List Str := wsSplitGo s []

/-- `_set_qual`: new key, or `old += "\n" + val` (`TypeError` when either is `None`). -/
def setQual (d : List Qual) (k : Str) (v : Option Str) : Except Err (List Qual) :=
  match d.lookup k with
  | none => .ok (d ++ [(k, v)])
  | some old =>
    match old, v with
    | some o, some n => .ok (d.map (fun p => if p.1 = k then (k, some (o ++ '\n' :: n)) else p))
    | _, _ => .error .typeError

/-- the `for subpart in part.split()` loop of a key part. -/
def keyPartGo (d : List Qual) (cur : Option Str) : List Str → Except Err (List Qual × Option Str)
  | [] => .ok (d, cur)
  | sp :: sps =>
    if '=' ∈ sp then keyPartGo d (some (sp.drop 1).dropLast) sps
    else
      match setQual d (sp.drop 1) none with
      | .ok d' => keyPartGo d' none sps
      | .error e => .error e

/-- the loop over the qualifier parts (`qual_key is None` ↔ `cur = none`). -/
def partsGo (d : List Qual) (cur : Option Str) : List Str → Except Err (List Qual)
  | [] => .ok d
  | p :: ps =>
    match cur with
    | none =>
      match keyPartGo d none (wsSplit p) with
      | .ok (d', cur') => partsGo d' cur' ps
      | .error e => .error e
    | some k =>
      let v := if p.head? = some '"' then (p.drop 1).dropLast else p
      match setQual d k (some v) with
      | .ok d' => partsGo d' none ps
      | .error e => .error e

/-- location string and qualifier parts of one feature value (`IndexError` on a blank value);
repaired code: value-less qualifiers glued to the location are split off at the first `/`. -/
def featParts (val : Str) : Except Err (Str × List Str) :=
  match ((reSplit val).map strip).filter (fun p => !p.isEmpty) with
  | [] => .error .indexError
  | p0 :: ps =>
    let loc0 := strip p0
    if '/' ∈ loc0 then .ok (strip (loc0.takeWhile (· ≠ '/')), loc0.dropWhile (· ≠ '/') :: ps)
    else .ok (loc0, ps)

def parseFeatVal (val : Str) : Except Err (Str × List Qual) :=
  match featParts val with
  | .error e => .error e
  | .ok (loc, ps) =>
    match partsGo [] none ps with
    | .ok d => .ok (loc, d)
    | .error e => .error e

/-- first loop of `get_annotation`: (feature key, accumulated value) per feature;
`line[5]` on a short line is an `IndexError`. -/
def featCollect : Option (Str × Str) → List Str → Except Err (List (Str × Str))
  | cur, [] => .ok cur.toList
  | cur, l :: ls =>
    match l[5]? with
    | none => .error .indexError
    | some c =>
      if c ≠ ' ' then
        match featCollect (some (strip (sliceL l 5 20), l.drop 21 ++ [' '])) ls with
        | .ok r => .ok (cur.toList ++ r)
        | .error e => .error e
      else
        match cur with
        | some (k, v) => featCollect (some (k, v ++ (l.drop 21 ++ [' ']))) ls
        | none => featCollect none ls

structure GbFeat where
  key : Str
  locs : List Loc
  quals : List Qual
  deriving DecidableEq

/-- the second loop of `get_annotation` for one (key, value) pair: a feature whose location does
not parse is skipped (warning); errors of the qualifier loop propagate. -/
def featStep (acc : List GbFeat) (kv : Str × Str) : Except Err (List GbFeat) :=
  match featParts kv.2 with
  | .error e => .error e
  | .ok (loc, ps) =>
    match parseLocs loc with
    | none => .ok acc
    | some locs =>
      match partsGo [] none ps with
      | .ok d => .ok (acc ++ [⟨kv.1, locs, d⟩])
      | .error e => .error e

/-- `get_annotation` on the content lines of the FEATURES field. -/
def parseFeatures (lines : List Str) : Except Err (List GbFeat) :=
  match featCollect none lines with
  | .error e => .error e
  | .ok kvs => kvs.foldlM featStep []

/-- `set_annotation` for features in the written order. -/
def printFeatures (fs : List GbFeat) : List Str :=
  fs.flatMap (fun f => featLines f.key (printLocs f.locs) f.quals)

/-- `_check_expressible` (repaired writer): the feature key fits the 15-character key column and has
no blank at either end; qualifier keys contain no whitespace, `=` or `"`; values contain no `"`. -/
def featCheck (f : GbFeat) : Bool :=
  !f.key.isEmpty && decide (f.key.length ≤ 15) && (strip f.key == f.key) &&
  f.quals.all (fun q =>
    q.1.all (fun c => !isSpace c && c != '=' && c != '"') &&
    (match q.2 with | none => true | some v => !v.contains '"'))

/-- `set_annotation`: all features are checked before anything is written. -/
def printFeaturesE (fs : List GbFeat) : Except Err (List Str) :=
  if fs.all featCheck then .ok (printFeatures fs) else .error .valueError

/-! ## ORIGIN -/

def lowerC (c : Char) : Char := if 'A' ≤ c ∧ c ≤ 'Z' then Char.ofNat (c.toNat + 32) else c
/-- `str.lower()` on ASCII. -/
def lower (s : Str) : Str := s.map lowerC

/-- `"{:>9d}".format(i)`. -/
def fmt9 (i : Int) : Str := let t := showInt i; List.replicate (9 - t.length) ' ' ++ t

/-- the loop of `set_sequence` over the 10-symbol chunks; `i` = index of the next chunk's first symbol. -/
def originGo (start : Int) : Nat → List Str → Str → List Str
  | _, [], line => [line]
  | i, c :: cs, line =>
    if i ≠ 0 ∧ i % 60 = 0 then line :: originGo start (i + 10) cs (fmt9 (start + i) ++ ' ' :: c)
    else originGo start (i + 10) cs (line ++ ' ' :: c)

/-- `set_sequence(gb_file, sequence, sequence_start)`: content lines of the ORIGIN field. -/
def printOrigin (start : Int) (seq : Str) : List Str :=
  originGo start 0 (wrap 10 (lower seq)) (fmt9 start)

def isDigitC (c : Char) : Bool := '0' ≤ c && c ≤ '9'

/-- `re.sub("-?[0-9]+| ", "", s)` (repaired reader). -/
def stripNums : Str → Str
  | [] => []
  | [c] => if isDigitC c || c == ' ' then [] else [c]
  | c :: d :: rest =>
    if isDigitC c || c == ' ' then stripNums (d :: rest)
    else if c == '-' && isDigitC d then stripNums (d :: rest)
    else c :: stripNums (d :: rest)

/-- `_field_to_seq_string`. -/
def originSeq (lines : List Str) : Str := stripNums lines.flatten

/-- `_get_seq_start`: `int(lines[0].split()[0])`. -/
def originStart (lines : List Str) : Except Err Int :=
  match lines with
  | [] => .error .indexError
  | l :: _ =>
    match wsSplit l with
    | [] => .error .indexError
    | t :: _ => match readInt t with | some i => .ok i | none => .error .valueError

end BiotiteModel.C12

import BiotiteModel.Common
/-!
# C19 — model of `sequence/phylo/tree.pyx`

`TreeNode` objects are modelled as a rose tree: a node is a leaf with its reference index or
an intermediate node with a forest of children, each child carrying `_distance` (the branch
length to its parent).  A node *object* inside a tree is addressed by its path (child
positions from the root); `_parent` of the node at path `p` is the node at `p.dropLast`.

`δ` is the type of branch lengths: `Rat` where the code does arithmetic on them
(`distance_to`, `as_binary`), an arbitrary token type for Newick (the code only moves them
through `repr`/`float`).  Strings are `List Char`.
-/
namespace BiotiteModel.C19

mutual
inductive T (δ : Type) where
  | leaf (index : Nat)
  | node (children : F δ)
inductive F (δ : Type) where
  | nil
  | cons (dist : δ) (child : T δ) (rest : F δ)
end
deriving instance DecidableEq for T, F
deriving instance Repr for T, F

variable {δ : Type}

mutual
/-- `get_leaves()`/`get_indices()`: leaf indices in depth-first order. -/
def T.leaves : T δ → List Nat
  | .leaf i => [i]
  | .node cs => cs.leaves
def F.leaves : F δ → List Nat
  | .nil => []
  | .cons _ t r => t.leaves ++ r.leaves
end

def F.length : F δ → Nat
  | .nil => 0
  | .cons _ _ r => r.length + 1

def F.toList : F δ → List (δ × T δ)
  | .nil => []
  | .cons d t r => (d, t) :: r.toList

def F.ofList : List (δ × T δ) → F δ
  | [] => .nil
  | (d, t) :: r => .cons d t (F.ofList r)

def F.get? : F δ → Nat → Option (δ × T δ)
  | .nil, _ => none
  | .cons d t _, 0 => some (d, t)
  | .cons _ _ r, k + 1 => r.get? k

mutual
/-- The `TreeNode` constructor refuses an intermediate node without children (`TreeError`);
every tree that exists as Python objects satisfies this. -/
def T.WF : T δ → Bool
  | .leaf _ => true
  | .node .nil => false
  | .node (.cons d t r) => (F.cons d t r).WF
def F.WF : F δ → Bool
  | .nil => true
  | .cons _ t r => t.WF && r.WF
end

/-! ## Node addressing, `_parent`, `_distance` -/

/-- The node at a path (child positions from the root). -/
def T.sub? : T δ → List Nat → Option (T δ)
  | t, [] => some t
  | .leaf _, _ :: _ => none
  | .node cs, k :: p => match cs.get? k with
    | some (_, c) => c.sub? p
    | none => none

/-- `_distance` of the node at a path; the root (no parent) has `_distance = 0`. -/
def T.edge? (zero : δ) : T δ → List Nat → Option δ
  | _, [] => some zero
  | .leaf _, _ :: _ => none
  | .node cs, [k] => (cs.get? k).map (·.1)
  | .node cs, k :: p => match cs.get? k with
    | some (_, c) => c.edge? zero p
    | none => none

/-- `_create_path_to_root(node)`: the node, its parent, …, the root. -/
def pathToRoot (p : List Nat) : List (List Nat) :=
  ((List.range (p.length + 1)).map (fun k => p.take k)).reverse

/-- The loop of `lowest_common_ancestor`, both paths given root first
(`for i in range(-1, -min(len)-1, -1)`): keep the last position where both are the same object. -/
def lcaLoop : List (List Nat) → List (List Nat) → Option (List Nat) → Option (List Nat)
  | a :: sp, b :: op, cur => if a = b then lcaLoop sp op (some a) else cur
  | _, _, cur => cur

/-- `TreeNode.lowest_common_ancestor` for two nodes of the same tree (`none` ↔ Python `None`). -/
def lca (p q : List Nat) : Option (List Nat) :=
  lcaLoop (pathToRoot p).reverse (pathToRoot q).reverse none

/-- `while current_node is not lca: distance += …; current_node = current_node._parent`.
`none` = the walk would step past the root (dereferencing `None`). -/
def walkUp (t : T Rat) (topo : Bool) : Nat → List Nat → List Nat → Rat → Option Rat
  | 0, _, _, _ => none
  | fuel + 1, cur, anc, acc =>
    if cur = anc then some acc
    else if cur = [] then none
    else match t.edge? 0 cur with
      | none => none
      | some e => walkUp t topo fuel cur.dropLast anc (acc + (if topo then 1 else e))

/-- `TreeNode.distance_to(node, topological)` for the nodes at paths `p`, `q` of `t`. -/
def distanceTo (t : T Rat) (topo : Bool) (p q : List Nat) : Except Err Rat :=
  match lca p q with
  | none => .error (.other "TreeError")
  | some a =>
    match walkUp t topo (p.length + 1) p a 0 with
    | none => .error (.other "AttributeError")
    | some acc =>
      match walkUp t topo (q.length + 1) q a acc with
      | none => .error (.other "AttributeError")
      | some r => .ok r

mutual
/-- Paths of the leaves in depth-first order, paired with their index. -/
def T.leafPaths : T δ → List (Nat × List Nat)
  | .leaf i => [(i, [])]
  | .node cs => cs.leafPaths 0
def F.leafPaths : F δ → Nat → List (Nat × List Nat)
  | .nil, _ => []
  | .cons _ t r, k => (t.leafPaths.map (fun (i, p) => (i, k :: p))) ++ r.leafPaths (k + 1)
end

/-- `Tree.__init__`: every leaf index must be `< leaf_count` (`TreeError` otherwise). -/
def mkTree (t : T δ) : Except Err (T δ) :=
  let ls := t.leaves
  if ls.all (· < ls.length) then .ok t else .error (.other "TreeError")

/-- `Tree._leaves[i]`: the last leaf in depth-first order carrying index `i`. -/
def leafPath? (t : T δ) (i : Nat) : Option (List Nat) :=
  ((t.leafPaths.reverse.find? (·.1 = i))).map (·.2)

/-- `Tree.get_distance(i, j, topological)` for `0 ≤ i, j`. -/
def getDistance (t : T Rat) (topo : Bool) (i j : Nat) : Except Err Rat :=
  if i ≥ t.leaves.length ∨ j ≥ t.leaves.length then .error .indexError else
  match leafPath? t i, leafPath? t j with
  | some p, some q => distanceTo t topo p q
  | none, _ => .error (.other "AttributeError")      -- `self._leaves[i]` is None (index carried by no leaf)
  | some _, none => .error (.other "TreeError")      -- `distance_to(None)`: no common ancestor

/-! ## `copy` -/
mutual
/-- `TreeNode.copy()`: rebuilds every node through the constructor. -/
def T.copy : T δ → Except Err (T δ)
  | .leaf i => .ok (.leaf i)
  | .node .nil => .error (.other "TreeError")
  | .node (.cons d t r) => do
    let cs ← (F.cons d t r).copy
    pure (.node cs)
def F.copy : F δ → Except Err (F δ)
  | .nil => .ok .nil
  | .cons d t r => do
    let t' ← t.copy
    let r' ← r.copy
    pure (.cons d t' r')
end

/-! ## `as_binary` -/

/-- The `while len(rem_children) > 0` loop of `_as_binary` for more than two children, after
the first two were put under the bottom-most node. -/
def binFold (cur : T Rat) : List (T Rat × Rat) → T Rat
  | [] => cur
  | (c, d) :: rest => binFold (.node (.cons 0 cur (.cons d c .nil))) rest

mutual
/-- `_as_binary(node)`: returns the new node and the distance it must get from its parent.
`edge` is `node.distance` (for the root the returned distance is discarded by the caller, so
the `is_root()` special case of the one-child branch is not observable). -/
def T.bin (edge : Rat) : T Rat → T Rat × Rat
  | .leaf i => (.leaf i, edge)
  | .node .nil => (.node .nil, edge)          -- not constructible in Python
  | .node (.cons d c .nil) =>
    let (c', dist) := c.bin d
    (c', edge + dist)
  | .node (.cons d1 c1 (.cons d2 c2 .nil)) =>
    let (a, da) := c1.bin d1
    let (b, db) := c2.bin d2
    (.node (.cons da a (.cons db b .nil)), edge)
  | .node (.cons d1 c1 (.cons d2 c2 (.cons d3 c3 r))) =>
    let (a, da) := c1.bin d1
    let (b, db) := c2.bin d2
    (binFold (.node (.cons da a (.cons db b .nil))) ((F.cons d3 c3 r).binList), edge)
def F.binList : F Rat → List (T Rat × Rat)
  | .nil => []
  | .cons d c r => c.bin d :: r.binList
end

/-- `as_binary(Tree)`. -/
def asBinary (t : T Rat) : Except Err (T Rat) := mkTree (t.bin 0).1

/-- What `as_binary` hands back to the caller. -/
inductive BinResult where
  | node (t : T Rat)
  | tuple (t : T Rat) (d : Option Rat)     -- a Python tuple `(TreeNode, distance-or-None)`
  | typeError
  deriving DecidableEq, Repr

/-- **`as_binary(TreeNode)` as written**: `node, _ = _as_binary(x); return _as_binary(node)` — the
second call's *tuple* is returned (its second component is `node.distance` of a parentless node,
`None`).  A parentless one-child node is not flagged as root, so the first call evaluates
`None + distance` (`TypeError`). -/
def asBinaryNode (t : T Rat) : BinResult :=
  match t with
  | .node (.cons _ _ .nil) => .typeError
  | _ => .tuple (((t.bin 0).1.bin 0).1) none

/-! ## Newick -/

/-- Characters `str.split()` / `str.strip()` treat as whitespace (`str.isspace`). -/
def isWs (c : Char) : Bool :=
  let n := c.toNat
  (9 ≤ n && n ≤ 13) || (28 ≤ n && n ≤ 32) || n == 0x85 || n == 0xA0 || n == 0x1680 ||
  (0x2000 ≤ n && n ≤ 0x200A) || n == 0x2028 || n == 0x2029 || n == 0x202F || n == 0x205F || n == 0x3000

/-- `illegal_chars` of `to_newick`. -/
def illegalChars : List Char := [',', ':', ';', '(', ')']

def joinComma : List (List Char) → List Char
  | [] => []
  | [x] => x
  | x :: xs => x ++ ',' :: joinComma xs

/-- Label of a leaf in `to_newick`: `str(index)` or `labels[index]` after the character check.
(The source's `for label in labels:` loop leaves `label` unbound for an empty list.) -/
def leafLabel (labels : Option (List (List Char))) (i : Nat) : Except Err (List Char) :=
  match labels with
  | none => .ok (toString i).toList
  | some ls =>
    if ls.isEmpty then .error (.other "UnboundLocalError") else
    match ls[i]? with
    | none => .error .indexError
    | some l => if l.any (illegalChars.contains ·) then .error .valueError else .ok l

mutual
/-- `TreeNode.to_newick(labels, include_distance)`; `edge` is the node's `_distance`. -/
def T.toNewick (labels : Option (List (List Char))) (inc : Bool) (showD : δ → List Char)
    (edge : δ) : T δ → Except Err (List Char)
  | .leaf i => do
    let l ← leafLabel labels i
    pure (if inc then l ++ ':' :: showD edge else l)
  | .node cs => do
    let ss ← cs.toNewick labels inc showD
    pure ('(' :: joinComma ss ++ ')' :: (if inc then ':' :: showD edge else []))
def F.toNewick (labels : Option (List (List Char))) (inc : Bool) (showD : δ → List Char) :
    F δ → Except Err (List (List Char))
  | .nil => .ok []
  | .cons d t r => do
    let s ← t.toNewick labels inc showD d
    let ss ← r.toNewick labels inc showD
    pure (s :: ss)
end

/-- `Tree.to_newick`: the root's `_distance` is 0; a `;` is appended. -/
def treeToNewick (labels : Option (List (List Char))) (inc : Bool) (showD : δ → List Char)
    (zero : δ) (t : T δ) : Except Err (List Char) := do
  let s ← t.toNewick labels inc showD zero
  pure (s ++ [';'])

/-- First loop of `from_newick`: position of the first `(`; error if a `)` comes first. -/
def firstOpen : List Char → Nat → Except Err (Option Nat)
  | [], _ => .ok none
  | c :: cs, i =>
    if c = '(' then .ok (some i)
    else if c = ')' then .error .invalidFile
    else firstOpen cs (i + 1)

/-- Second loop, on the reversed string: number of characters after the last `)`;
error if a `(` is met first. -/
def lastCloseRev : List Char → Nat → Except Err (Option Nat)
  | [], _ => .ok none
  | c :: cs, k =>
    if c = ')' then .ok (some k)
    else if c = '(' then .error .invalidFile
    else lastCloseRev cs (k + 1)

/-- `str.split(":")`. -/
def splitColon : List Char → List (List Char)
  | [] => [[]]
  | c :: cs =>
    match splitColon cs with
    | [] => [[]]   -- unreachable
    | p :: ps => if c = ':' then [] :: p :: ps else (c :: p) :: ps

/-- `label, distance = s.split(":"); distance = float(distance)` with the `except ValueError`
fallback (`distance = 0`, the whole text is the label). -/
def labelAndDistance (parseD : List Char → Option δ) (zero : δ) (s : List Char) : List Char × δ :=
  match splitColon s with
  | [l, ds] => match parseD ds with
    | some d => (l, d)
    | none => (s, zero)
  | _ => (s, zero)

/-- Split `subnewick` at the commas of bracket level 0; `none` when the level drops below 0
(`InvalidFileError`).  `cur` is the current piece, reversed. -/
def splitTop : List Char → Nat → List Char → Option (List (List Char))
  | [], _, cur => some [cur.reverse]
  | c :: cs, level, cur =>
    if c = '(' then splitTop cs (level + 1) (c :: cur)
    else if c = ')' then
      match level with
      | 0 => none
      | l + 1 => splitTop cs l (c :: cur)
    else if c = ',' ∧ level = 0 then (splitTop cs level []).map (cur.reverse :: ·)
    else splitTop cs level (c :: cur)

/-- `int(label)` / `labels.index(label)`; both raise `ValueError` (a negative index too;
`int("-0")` is 0). -/
def labelIndex (labels : Option (List (List Char))) (l : List Char) : Except Err Nat :=
  match labels with
  | none =>
    match l with
    | '-' :: r => match (String.ofList r).toNat? with
      | some 0 => .ok 0
      | _ => .error .valueError
    | '+' :: r => match (String.ofList r).toNat? with     -- `int("+3")` is 3
      | some i => .ok i
      | none => .error .valueError
    | _ => match (String.ofList l).toNat? with
      | some i => .ok i
      | none => .error .valueError
  | some ls => match ls.findIdx? (· = l) with
    | some i => .ok i
    | none => .error .valueError

/-- The child loop of `from_newick`: parse every piece, collect `(child, distance)`. -/
def parsePieces (rec : List Char → Except Err (T δ × δ)) : List (List Char) → Except Err (F δ)
  | [] => .ok .nil
  | p :: ps =>
    match rec p with
    | .error e => .error e
    | .ok (c, dc) =>
      match parsePieces rec ps with
      | .error e => .error e
      | .ok r => .ok (.cons dc c r)

/-- `TreeNode.from_newick(newick, labels)`; `fuel` bounds the recursion depth (every recursive
call is on a strictly shorter string). -/
def fromNewickFuel (labels : Option (List (List Char))) (parseD : List Char → Option δ) (zero : δ) :
    Nat → List Char → Except Err (T δ × δ)
  | 0, _ => .error (.other "fuel")
  | fuel + 1, s0 =>
    let s := s0.filter (fun c => !isWs c)
    match firstOpen s 0 with
    | .error e => .error e
    | .ok start =>
    match lastCloseRev s.reverse 0 with
    | .error e => .error e
    | .ok stopR =>
    match start, stopR with
    | none, none =>
      let (l, d) := labelAndDistance parseD zero s
      match labelIndex labels l with
      | .error e => .error e
      | .ok i => .ok (.leaf i, d)
    | some a, some k =>
      let stop := s.length - k            -- `subnewick_stop_i`
      let d := if k = 0 then zero else (labelAndDistance parseD zero (s.drop stop)).2
      let sub := (s.take (stop - 1)).drop (a + 1)
      if sub.isEmpty then .error .invalidFile else
      match splitTop sub 0 [] with
      | none => .error .invalidFile
      | some pieces =>
        match parsePieces (fromNewickFuel labels parseD zero fuel) pieces with
        | .error e => .error e
        | .ok cs => .ok (.node cs, d)
    | _, _ => .error (.other "unreachable")

def fromNewick (labels : Option (List (List Char))) (parseD : List Char → Option δ) (zero : δ)
    (s : List Char) : Except Err (T δ × δ) :=
  fromNewickFuel labels parseD zero (s.length + 1) s

/-- `str.strip()`. -/
def strip (s : List Char) : List Char :=
  ((s.dropWhile isWs).reverse.dropWhile isWs).reverse

/-- `Tree.from_newick(newick, labels)`. -/
def treeFromNewick (labels : Option (List (List Char))) (parseD : List Char → Option δ) (zero : δ)
    (s : List Char) : Except Err (T δ) :=
  let s := strip s
  if s.isEmpty then .error .invalidFile else
  let s := if s.getLast? = some ';' then s.dropLast else s
  match fromNewick labels parseD zero s with
  | .error e => .error e
  | .ok (t, _) => mkTree t

end BiotiteModel.C19

import BiotiteModel.Model.C03
/-!
# C03 — `KmerAlphabet` (model of `sequence/align/kmeralphabet.pyx`)

`n` is the length of the base alphabet (`n ≥ 1`), `k` the k-mer length.  k-mer codes are
mixed-radix numbers with the *first* symbol most significant.  All arithmetic is unbounded:
the real code computes in `int64`, so the tie assumes `n ^ k < 2 ^ 63` (generator bound).
-/
namespace BiotiteModel.C03

/-- `_radix_multiplier = [n**i for i in reversed(range(k))]`. -/
def radixMult (n : Nat) : Nat → List Nat
  | 0 => []
  | k + 1 => n ^ k :: radixMult n k

/-- `np.sum(radix_multiplier * codes)`. -/
def dot : List Nat → List Int → Int
  | r :: rs, c :: cs => (r : Int) * c + dot rs cs
  | _, _ => 0

/-- `KmerAlphabet.fuse(codes)` for a 1-D array, **as written**: the range test is
`codes > len(base_alphabet)` (a code equal to the length and negative codes pass). -/
def fuse (n k : Nat) (codes : List Int) : Except Err Int :=
  if codes.length ≠ k then .error .alphabetError
  else if codes.any (fun c => decide (c > (n : Int))) then .error .alphabetError
  else .ok (dot (radixMult n k) codes)

/-- What `fuse` should test (`0 ≤ code < n`); used to state the full-strength theorem. -/
def fuseChecked (n k : Nat) (codes : List Int) : Except Err Int :=
  if codes.length ≠ k then .error .alphabetError
  else if codes.any (fun c => decide (c < 0 ∨ c ≥ (n : Int))) then .error .alphabetError
  else .ok (dot (radixMult n k) codes)

/-- The loop of `_split`: `symbol = code // val; code -= symbol * val` per radix multiplier. -/
def splitLoop : List Nat → Nat → List Nat
  | [], _ => []
  | v :: vs, c => (c / v) :: splitLoop vs (c - (c / v) * v)

/-- `KmerAlphabet.split(kmer_code)` for a scalar. -/
def split (n k : Nat) (code : Int) : Except Err (List Nat) :=
  if code ≥ ((n ^ k : Nat) : Int) ∨ code < 0 then .error .alphabetError
  else .ok (splitLoop (radixMult n k) code.toNat)

/-! ## Spacing models -/

def insertSorted (x : Int) : List Int → List Int
  | [] => [x]
  | y :: ys => if x ≤ y then x :: y :: ys else y :: insertSorted x ys

def sortInts : List Int → List Int
  | [] => []
  | x :: xs => insertSorted x (sortInts xs)

def hasAdjDup : List Int → Bool
  | x :: y :: rest => x == y || hasAdjDup (y :: rest)
  | _ => false

/-- `_to_array_form("1011")`: the positions of the `1` characters. -/
def spacingOfString (cs : List Char) : List Int :=
  go cs 0
where
  go : List Char → Nat → List Int
    | [], _ => []
    | c :: cs, i => if c = '1' then (i : Int) :: go cs (i + 1) else go cs (i + 1)

/-- Spacing argument of the constructor. -/
inductive SpacingArg where
  | none | ints (xs : List Int) | str (s : List Char)

/-- `KmerAlphabet.__init__`: validates `k` and the spacing; returns the sorted offsets. -/
def kmerNew (k : Nat) (sp : SpacingArg) : Except Err (Option (List Nat)) :=
  if k < 2 then .error .valueError
  else match sp with
    | .none => .ok none
    | .str s =>
      let a := spacingOfString s
      if a.length ≠ k then .error .valueError else .ok (some (a.map Int.toNat))
    | .ints xs =>
      let a := sortInts xs
      if a.any (· < 0) then .error .valueError
      else if hasAdjDup a then .error .valueError
      else if a.length ≠ k then .error .valueError
      else .ok (some (a.map Int.toNat))

/-! ## `create_kmers` -/

/-- First k-mer of `_create_continuous_kmers`: the naive sum over the first `k` codes, with
the range check `code >= alphabet_length`. -/
def firstKmer (n : Nat) : List Nat → List Nat → Except Err Int
  | [], _ => .ok 0
  | _ :: _, [] => .error (.other "unreachable")
  | r :: rs, c :: cs =>
    if c ≥ n then .error .alphabetError
    else match firstKmer n rs cs with
      | .ok v => .ok ((r : Int) * c + v)
      | .error e => .error e

/-- The rolling loop: `olds` is the sequence from position `i-1`, `news` from `i+k-1`;
`kmer = (prev - seq[i-1] * n^(k-1)) * n + seq[i+k-1]`. -/
def rollLoop (n : Nat) (endR : Nat) : Int → List Nat → List Nat → Except Err (List Int)
  | _, _, [] => .ok []
  | _, [], _ :: _ => .error (.other "unreachable")
  | prev, old :: olds, c :: news =>
    if c ≥ n then .error .alphabetError
    else
      let km := (prev - (old : Int) * endR) * n + c
      match rollLoop n endR km olds news with
      | .ok r => .ok (km :: r)
      | .error e => .error e

/-- `_create_continuous_kmers(seq_code)` (unsigned code array). -/
def kmersContinuous (n k : Nat) (seq : List Nat) : Except Err (List Int) :=
  if seq.length < k then .error .valueError
  else
    match firstKmer n (radixMult n k) seq with
    | .error e => .error e
    | .ok k0 =>
      match rollLoop n (n ^ (k - 1)) k0 seq (seq.drop k) with
      | .ok r => .ok (k0 :: r)
      | .error e => .error e

/-- One spaced k-mer at position `i`: `Σ_j radix[j] * seq[i + spacing[j]]` with range checks. -/
def spacedAt (n : Nat) (seq : List Nat) (i : Nat) : List Nat → List Nat → Except Err Int
  | r :: rs, o :: os =>
    match seq[i + o]? with
    | none => .error (.other "unreachable")
    | some c =>
      if c ≥ n then .error .alphabetError
      else match spacedAt n seq i rs os with
        | .ok v => .ok ((r : Int) * c + v)
        | .error e => .error e
  | _, _ => .ok 0

/-- `_create_spaced_kmers(seq_code)`; `spacing` sorted, non-empty. -/
def kmersSpaced (n k : Nat) (spacing : List Nat) (seq : List Nat) : Except Err (List Int) :=
  match spacing.getLast? with
  | none => .error (.other "unreachable")
  | some last =>
    let span := last + 1
    if seq.length < span then .error .valueError
    else mapE (fun i => spacedAt n seq i (radixMult n k) spacing) (List.range (seq.length - span + 1))

/-- `KmerAlphabet.create_kmers`. -/
def createKmers (n k : Nat) (spacing : Option (List Nat)) (seq : List Nat) : Except Err (List Int) :=
  match spacing with
  | none => kmersContinuous n k seq
  | some sp => kmersSpaced n k sp seq

end BiotiteModel.C03

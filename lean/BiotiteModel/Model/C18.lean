import BiotiteModel.Common
/-!
# C18 — MDL connection tables (model of `structure/io/mol/ctab.py`)

Lines are `List Char` (ASCII; the driver refuses anything else as `unmodelled`).  The writer
is modelled character by character (`f"{x:>10.4f}"`, `f"{i:>3d}"`, …), the reader slice by
slice (`line[0:10]`, `line[31:34].strip().upper()`, `int(...)`, `float(...)`, `str.split()`).

Coordinates enter the writer as exact rationals `± num/den` (the exact value of the float32
the `AtomArray` holds) and are rounded half-even to 4 decimals — the documented behaviour of
Python's `format(x, ".4f")`, which is *modelled, not verified*.  The reader returns the decimal
that stands in the file (`DecV`); conversion of that decimal to float32 is outside the model
(the driver does it only to print a canonical value).

Import-free and executable: the same definitions drive the correspondence check.
-/
namespace BiotiteModel.C18

abbrev Line := List Char

/-! ## Characters, numbers, padding -/

def isSp (c : Char) : Bool := c == ' '

def digitChar (d : Nat) : Char := Char.ofNat (48 + d)

def digitVal? (c : Char) : Option Nat :=
  if 48 ≤ c.toNat ∧ c.toNat ≤ 57 then some (c.toNat - 48) else none

/-- Decimal digits of `n`, most significant first (fuel = `n` is always enough). -/
def natReprF : Nat → Nat → Line
  | 0, n => [digitChar (n % 10)]
  | f + 1, n => if n < 10 then [digitChar n] else natReprF f (n / 10) ++ [digitChar (n % 10)]

def natRepr (n : Nat) : Line := natReprF n n

def intRepr (i : Int) : Line := if i < 0 then '-' :: natRepr i.natAbs else natRepr i.natAbs

/-- The `w` low decimal digits of `n`, zero padded (`%04d` of `n % 10^w`). -/
def fixedDigits : Nat → Nat → Line
  | 0, _ => []
  | w + 1, n => fixedDigits w (n / 10) ++ [digitChar (n % 10)]

/-- `f"{s:>w}"`: right-aligned, never truncated. -/
def padL (w : Nat) (s : Line) : Line := List.replicate (w - s.length) ' ' ++ s
/-- `f"{s:w}"` for strings: left-aligned, never truncated. -/
def padR (w : Nat) (s : Line) : Line := s ++ List.replicate (w - s.length) ' '

def stripL (s : Line) : Line := s.dropWhile isSp
def stripR (s : Line) : Line := (s.reverse.dropWhile isSp).reverse
/-- `str.strip()` restricted to the ASCII blank. -/
def strip (s : Line) : Line := stripR (stripL s)

/-- `s[a:b]` for `0 ≤ a ≤ b`. -/
def slice (a b : Nat) (s : Line) : Line := (s.drop a).take (b - a)

def startsWith (p s : Line) : Bool := s.take p.length == p

/-- Value of a non-empty all-digit string. -/
def digitsAcc (acc : Option Nat) (cs : Line) : Option Nat :=
  cs.foldl (fun a c => match a, digitVal? c with
    | some a, some v => some (a * 10 + v)
    | _, _ => none) acc

def digitsVal (cs : Line) : Option Nat := if cs.isEmpty then none else digitsAcc (some 0) cs
/-- as `digitsVal`, the empty string counts as 0 (the parts of `"12."` / `".5"`). -/
def digitsVal0 (cs : Line) : Option Nat := digitsAcc (some 0) cs

/-- `[sign]digits`. -/
def signedVal : Line → Option Int
  | '-' :: ds => (digitsVal ds).map fun n => -(n : Int)
  | '+' :: ds => (digitsVal ds).map fun n => (n : Int)
  | ds => (digitsVal ds).map fun n => (n : Int)

/-- `int(s)` for `[blanks][sign]digits[blanks]` (no underscores, ASCII digits only). -/
def pyInt (s : Line) : Option Int := signedVal (strip s)

/-- `str.split()` restricted to the ASCII blank: `cur` is the current token, reversed. -/
def splitAux : Line → Line → List Line
  | cur, [] => if cur.isEmpty then [] else [cur.reverse]
  | cur, c :: cs =>
    if isSp c then (if cur.isEmpty then splitAux [] cs else cur.reverse :: splitAux [] cs)
    else splitAux (c :: cur) cs

def splitWs (s : Line) : List Line := splitAux [] s

def joinSp : List Line → Line
  | [] => []
  | [t] => t
  | t :: ts => t ++ ' ' :: joinSp ts

/-! ## ASCII case mapping (elements) -/

def upC (c : Char) : Char := if 97 ≤ c.toNat ∧ c.toNat ≤ 122 then Char.ofNat (c.toNat - 32) else c
def lowC (c : Char) : Char := if 65 ≤ c.toNat ∧ c.toNat ≤ 90 then Char.ofNat (c.toNat + 32) else c
def upper (s : Line) : Line := s.map upC
/-- `str.capitalize()` on ASCII. -/
def capitalize : Line → Line
  | [] => []
  | c :: cs => upC c :: cs.map lowC

/-! ## Coordinates -/

/-- Exact value `± num/den` of a float coordinate (`den > 0`); the sign is kept separately
because `-0.00001` prints as `-0.0000`. -/
structure Q where
  neg : Bool
  num : Nat
  den : Nat
  deriving DecidableEq, Repr

/-- A decimal number as it stands in a file: `± mant / 10^frac`. -/
structure DecV where
  neg : Bool
  mant : Nat
  frac : Nat
  deriving DecidableEq, Repr

/-- Round-half-even of `n/d`. -/
def rne (n d : Nat) : Nat :=
  let q := n / d
  let r := n % d
  if 2 * r < d then q else if d < 2 * r then q + 1 else if q % 2 = 0 then q else q + 1

/-- `|x|` rounded to 4 decimals, in units of 10⁻⁴. -/
def Q.k4 (q : Q) : Nat := rne (q.num * 10000) q.den

/-- `x.astype(int)`: truncation toward zero. -/
def Q.trunc (q : Q) : Int := if q.neg then -((q.num / q.den : Nat) : Int) else ((q.num / q.den : Nat) : Int)

/-- `f"{x:.4f}"`. -/
def fmt4 (q : Q) : Line :=
  (if q.neg then ['-'] else []) ++ natRepr (q.k4 / 10000) ++ '.' :: fixedDigits 4 (q.k4 % 10000)

/-- What a correct reader gets back from `fmt4 q`. -/
def Q.dec (q : Q) : DecV := ⟨q.neg, q.k4, 4⟩

/-- `digits[.digits*]` or `.digits` with the sign already removed. -/
def unsignedDec (neg : Bool) (u : Line) : Option DecV :=
  let ip := u.takeWhile (· != '.')
  match u.dropWhile (· != '.') with
  | [] => (digitsVal ip).map fun n => ⟨neg, n, 0⟩
  | _ :: fp =>
    if ip.isEmpty && fp.isEmpty then none else
    match digitsVal0 ip, digitsVal0 fp with
    | some a, some b => some ⟨neg, a * 10 ^ fp.length + b, fp.length⟩
    | _, _ => none

def signedDec : Line → Option DecV
  | '-' :: r => unsignedDec true r
  | '+' :: r => unsignedDec false r
  | r => unsignedDec false r

/-- `float(s)` for `[blanks][sign](digits[.digits*] | .digits)[blanks]`; exponents, `inf`,
`nan` and underscores are outside the model. -/
def pyFloat (s : Line) : Option DecV := signedDec (strip s)

/-! ## Molecules -/

structure Atom where
  x : Q
  y : Q
  z : Q
  elem : Line
  charge : Int
  deriving DecidableEq, Repr

/-- Bonds are `(i, j, BondType value)`, 0-based, as `BondList.as_array()` yields them. -/
structure Mol where
  atoms : List Atom
  bonds : List (Nat × Nat × Nat)
  deriving DecidableEq, Repr

structure AtomR where
  x : DecV
  y : DecV
  z : DecV
  elem : Line
  charge : Int
  deriving DecidableEq, Repr

structure MolR where
  atoms : List AtomR
  bonds : List (Nat × Nat × Nat)
  deriving DecidableEq, Repr

/-! ## Tables (`BOND_TYPE_MAPPING`, `CHARGE_MAPPING` and their reverses as Python builds them).
`Props/C18.lean` proves that these are the tables `Gen/C18.lean` extracts from the source. -/

/-- `BOND_TYPE_MAPPING.get(code)` — values are `BondType` integers. -/
def bondOfCode : Int → Option Nat
  | 1 => some 1 | 2 => some 2 | 3 => some 3 | 4 => some 9 | 5 => some 0
  | 6 => some 5 | 7 => some 6 | 8 => some 0 | _ => none

/-- `BOND_TYPE_MAPPING_REV.get(bond_type)`. -/
def codeOfBond : Nat → Option Nat
  | 1 => some 1 | 2 => some 2 | 3 => some 3 | 9 => some 4 | 0 => some 8
  | 5 => some 6 | 6 => some 7 | _ => none

/-- `CHARGE_MAPPING.get(code)`. -/
def chargeOfCode : Int → Option Int
  | 0 => some 0 | 1 => some 3 | 2 => some 2 | 3 => some 1 | 5 => some (-1) | 6 => some (-2) | 7 => some (-3)
  | _ => none

/-- `CHARGE_MAPPING_REV.get(charge, 0)`. -/
def codeOfCharge : Int → Nat
  | 3 => 1 | 2 => 2 | 1 => 3 | -1 => 5 | -2 => 6 | -3 => 7 | _ => 0

def nChargesPerLine : Nat := 8
def v2000MaxCount : Nat := 1000      -- `n_atoms < 1000 and n_bonds < 1000`
def maxCoordDigits : Nat := 5

/-! ## Writer -/

/-- `_batched(xs, n)` (fuel = length). -/
def batchedF {α : Type} (n : Nat) : Nat → List α → List (List α)
  | 0, _ => []
  | f + 1, xs => if xs.isEmpty then [] else xs.take n :: batchedF n f (xs.drop n)

def batched {α : Type} (n : Nat) (xs : List α) : List (List α) := batchedF n xs.length xs

/-- `number_of_integer_digits(col) > 5` never holds: every truncated value prints in ≤ 5
characters including the sign (equivalent to the min/max formulation of the code). -/
def coordDigitsOk (m : Mol) : Bool :=
  m.atoms.all fun a =>
    (intRepr a.x.trunc).length ≤ maxCoordDigits && (intRepr a.y.trunc).length ≤ maxCoordDigits
      && (intRepr a.z.trunc).length ≤ maxCoordDigits

def countsLineV2000 (n m : Nat) : Line :=
  padL 3 (natRepr n) ++ padL 3 (natRepr m) ++ "  0     0  0  0  0  0  0  1 V2000".toList

def atomLineV2000 (a : Atom) : Line :=
  padL 10 (fmt4 a.x) ++ padL 10 (fmt4 a.y) ++ padL 10 (fmt4 a.z)
    ++ ' ' :: padR 3 (capitalize a.elem) ++ padL 2 ['0'] ++ padL 3 (natRepr (codeOfCharge a.charge))
    ++ (List.replicate 10 (padL 3 ['0'])).flatten

def bondLineV2000 (dflt : Nat) (b : Nat × Nat × Nat) : Line :=
  padL 3 (natRepr (b.1 + 1)) ++ padL 3 (natRepr (b.2.1 + 1))
    ++ padL 3 (natRepr ((codeOfBond b.2.2).getD dflt)) ++ (List.replicate 4 (padL 3 ['0'])).flatten

/-- `[(atom_i, c) for atom_i, c in enumerate(charge) if c != 0]`, starting the count at `i`. -/
def chargePairs : Nat → List Int → List (Nat × Int)
  | _, [] => []
  | i, c :: cs => if c = 0 then chargePairs (i + 1) cs else (i, c) :: chargePairs (i + 1) cs

def chargeEntry (p : Nat × Int) : Line :=
  ' ' :: padL 3 (natRepr (p.1 + 1)) ++ ' ' :: padL 3 (intRepr p.2)

def chargeLine (batch : List (Nat × Int)) : Line :=
  "M  CHG".toList ++ padL 3 (natRepr batch.length) ++ (batch.map chargeEntry).flatten

def chargeLines (m : Mol) : List Line :=
  (batched nChargesPerLine (chargePairs 0 (m.atoms.map (·.charge)))).map chargeLine

def mEnd : Line := "M  END".toList

/-- every element symbol fits the three columns of the atom block (checked after the `fix:` commit) -/
def elemWidthOk (m : Mol) : Bool := m.atoms.all fun a => a.elem.length ≤ 3

def writeV2000 (m : Mol) (dfltBond : Nat) : Except Err (List Line) :=
  if !(coordDigitsOk m && elemWidthOk m) then .error .badStructure else
  match codeOfBond dfltBond with
  | none => .error .keyError
  | some d =>
    .ok ([countsLineV2000 m.atoms.length m.bonds.length] ++ m.atoms.map atomLineV2000
          ++ m.bonds.map (bondLineV2000 d) ++ chargeLines m ++ [mEnd])

def v30 (l : Line) : Line := "M  V30 ".toList ++ l
def compatLine : Line := "  0  0  0  0  0  0  0  0  0  0999 V3000".toList

/-- `_quote`. -/
def quote (s : Line) : Line := if s.contains ' ' || s.isEmpty then '"' :: s ++ ['"'] else s

def propV3000 (c : Int) : Line := if c = 0 then [] else "CHG=".toList ++ intRepr c

def atomLineV3000 (i : Nat) (a : Atom) : Line :=
  natRepr (i + 1) ++ ' ' :: quote (capitalize a.elem) ++ ' ' :: fmt4 a.x ++ ' ' :: fmt4 a.y
    ++ ' ' :: fmt4 a.z ++ " 0".toList ++ ' ' :: propV3000 a.charge

def bondLineV3000 (dflt : Nat) (k : Nat) (b : Nat × Nat × Nat) : Line :=
  natRepr (k + 1) ++ ' ' :: natRepr ((codeOfBond b.2.2).getD dflt) ++ ' ' :: natRepr (b.1 + 1)
    ++ ' ' :: natRepr (b.2.1 + 1)

def mapIdxFrom {α β : Type} (f : Nat → α → β) : Nat → List α → List β
  | _, [] => []
  | i, x :: xs => f i x :: mapIdxFrom f (i + 1) xs

def writeV3000 (m : Mol) (dfltBond : Nat) : Except Err (List Line) :=
  if !coordDigitsOk m then .error .badStructure else
  match codeOfBond dfltBond with
  | none => .error .keyError
  | some d =>
    let body : List Line :=
      ["BEGIN CTAB".toList,
       "COUNTS ".toList ++ natRepr m.atoms.length ++ ' ' :: natRepr m.bonds.length ++ " 0 0 0".toList,
       "BEGIN ATOM".toList]
      ++ mapIdxFrom atomLineV3000 0 m.atoms
      ++ ["END ATOM".toList, "BEGIN BOND".toList]
      ++ mapIdxFrom (bondLineV3000 d) 0 m.bonds
      ++ ["END BOND".toList, "END CTAB".toList]
    .ok ([compatLine] ++ body.map v30 ++ [mEnd])

def isV2000Compatible (nAtoms nBonds : Nat) : Bool := nAtoms < v2000MaxCount && nBonds < v2000MaxCount

inductive Version where
  | auto | v2000 | v3000 | unknown
  deriving DecidableEq, Repr

/-- `write_structure_to_ctab(atoms, default_bond_type, version)` for an `AtomArray` with bonds
and finite coordinates. -/
def writeCtab (m : Mol) (dfltBond : Nat) (v : Version) : Except Err (List Line) :=
  match v with
  | .auto => if isV2000Compatible m.atoms.length m.bonds.length then writeV2000 m dfltBond else writeV3000 m dfltBond
  | .v2000 => if !isV2000Compatible m.atoms.length m.bonds.length then .error .valueError else writeV2000 m dfltBond
  | .v3000 => writeV3000 m dfltBond
  | .unknown => .error .valueError

/-! ## Reader -/

def unmodelled : Err := .other "unmodelled"

def pyIntE (s : Line) : Except Err Int :=
  match pyInt s with | some i => .ok i | none => .error .valueError
def pyFloatE (s : Line) : Except Err DecV :=
  match pyFloat s with | some d => .ok d | none => .error .valueError

/-- numpy stores elements as `U2`. -/
def storeElem (e : Line) : Line := e.take 2

def readAtomV2000 (blockCharge : Bool) (l : Line) : Except Err AtomR := do
  let x ← pyFloatE (slice 0 10 l)
  let y ← pyFloatE (slice 10 20 l)
  let z ← pyFloatE (slice 20 30 l)
  let e := storeElem (upper (strip (slice 31 34 l)))
  if blockCharge then
    let c ← pyIntE (slice 36 39 l)
    pure ⟨x, y, z, e, (chargeOfCode c).getD 0⟩
  else pure ⟨x, y, z, e, 0⟩

/-- `xs[idx] = v` with numpy index semantics. -/
def setCharge (atoms : List AtomR) (idx : Int) (c : Int) : Except Err (List AtomR) :=
  let n : Int := atoms.length
  if idx < -n ∨ n ≤ idx then .error .indexError else
  let i := (if idx < 0 then idx + n else idx).toNat
  .ok (atoms.set i { (atoms.getD i ⟨⟨false,0,0⟩,⟨false,0,0⟩,⟨false,0,0⟩,[],0⟩) with charge := c })

def applyChargeTokens (atoms : List AtomR) : List Line → Except Err (List AtomR)
  | [] => .ok atoms
  | [_] => .error .valueError            -- `for a, c in [(x,)]`: not enough values to unpack
  | a :: c :: rest => do
    let i ← pyIntE a
    let ch ← pyIntE c
    let atoms ← setCharge atoms (i - 1) ch
    applyChargeTokens atoms rest

def applyChargeLines (atoms : List AtomR) : List Line → Except Err (List AtomR)
  | [] => .ok atoms
  | l :: ls => do
    let atoms ← applyChargeTokens atoms (splitWs (l.drop 9))
    applyChargeLines atoms ls

/-- One V2000 bond line → 1-based atom numbers and bond type (`OverflowError` when a number
below 1 is stored into the `uint32` array). -/
def readBondV2000 (l : Line) : Except Err (Int × Int × Nat) := do
  let t ← pyIntE (slice 6 9 l)
  let i ← pyIntE (slice 0 3 l)
  if i < 1 then .error .overflowError else
  let j ← pyIntE (slice 3 6 l)
  if j < 1 then .error .overflowError else
  pure (i, j, (bondOfCode t).getD 0)

def hasDup {α : Type} [DecidableEq α] : List α → Bool
  | [] => false
  | x :: xs => xs.contains x || hasDup xs

/-- `BondList(n, array)`: range check, each pair sorted.  Arrays with a repeated atom pair are
outside the model (`_remove_redundant_bonds`). -/
def mkBondList (n : Nat) (bs : List (Int × Int × Nat)) : Except Err (List (Nat × Nat × Nat)) :=
  if bs.any (fun b => b.1 > n ∨ b.2.1 > n) then .error .indexError else
  let out := bs.map fun b =>
    let i := (b.1 - 1).toNat
    let j := (b.2.1 - 1).toNat
    (min i j, max i j, b.2.2)
  if hasDup (out.map fun b => (b.1, b.2.1)) then .error unmodelled else .ok out

def readV2000 (lines : List Line) : Except Err MolR :=
  match lines with
  | [] => .error .indexError
  | counts :: rest => do
    let n ← pyIntE (slice 0 3 counts)
    let m ← pyIntE (slice 3 6 counts)
    if n < 0 ∨ m < 0 then .error unmodelled else
    let n := n.toNat
    let m := m.toNat
    if rest.length < n + m then .error unmodelled else
    let atomLines := rest.take n
    let bondLines := (rest.drop n).take m
    let chargeLs := (rest.drop (n + m)).filter (startsWith "M  CHG".toList)
    let atoms ← atomLines.mapM (readAtomV2000 chargeLs.isEmpty)
    let atoms ← applyChargeLines atoms chargeLs
    let bonds ← bondLines.mapM readBondV2000
    let bl ← mkBondList n bonds
    pure ⟨atoms, bl⟩

/-- `_get_block_v3000`. -/
def getBlock (name : Line) : Bool → List Line → List Line → Except Err (List Line)
  | _, acc, [] => .ok acc.reverse
  | inBlock, acc, l :: ls =>
    if startsWith ("BEGIN ".toList ++ name) l then getBlock name true acc ls
    else if startsWith ("END ".toList ++ name) l then
      (if inBlock then .ok acc.reverse else .error .invalidFile)
    else if inBlock then getBlock name true (l :: acc) ls
    else getBlock name false acc ls

/-- `create_property_dict_v3000(...).get("CHG", 0)` followed by `int`. -/
def propsCharge : List Line → Option Line → Except Err (Option Line)
  | [], cur => .ok cur
  | p :: ps, cur =>
    let k := p.takeWhile (· != '=')
    match p.dropWhile (· != '=') with
    | [] => .error .valueError                       -- no `=`: cannot unpack
    | _ :: v => if v.contains '=' then .error .valueError else
      propsCharge ps (if k == "CHG".toList then some v else cur)

def readAtomV3000 (l : Line) : Except Err (Int × AtomR) :=
  if l.contains '\'' || l.contains '"' then .error unmodelled else
  match splitWs l with
  | [] => .error .indexError
  | c0 :: rest => do
    let idx ← pyIntE c0
    match rest with
    | [] => .error .indexError
    | ty :: rest =>
      if ty == "R#".toList then .error .notImplemented else
      let cs ← (rest.take 3).mapM pyFloatE
      let chg ← propsCharge (rest.drop 4) none
      match cs with
      | [x, y, z] => do
        let c ← match chg with | none => pure 0 | some v => pyIntE v
        pure (idx, ⟨x, y, z, storeElem (upper ty), c⟩)
      | _ => .error .valueError

/-- Last binding wins, as in a Python dict. -/
def lookupLast (k : Int) : List (Int × Nat) → Option Nat
  | [] => none
  | (k', v) :: rest => match lookupLast k rest with
    | some r => some r
    | none => if k' = k then some v else none

def readBondV3000 (idx : List (Int × Nat)) (l : Line) : Except Err (Int × Int × Nat) :=
  match splitWs l with
  | _ :: t :: a :: b :: _ => do
    let t ← pyIntE t
    let a ← pyIntE a
    let b ← pyIntE b
    match lookupLast a idx with
    | none => .error .keyError
    | some i => match lookupLast b idx with
      | none => .error .keyError
      | some j => pure ((i : Int) + 1, (j : Int) + 1, (bondOfCode t).getD 0)
  | [_, t] => do let _ ← pyIntE t; .error .indexError
  | [_, t, a] => do let _ ← pyIntE t; let _ ← pyIntE a; .error .indexError
  | _ => .error .indexError

def readV3000 (lines : List Line) : Except Err MolR := do
  let v30s := (lines.filter (startsWith "M  V30".toList)).map fun l => strip (l.drop 6)
  let atomLines ← getBlock "ATOM".toList false [] v30s
  if atomLines.isEmpty then .error .invalidFile else
  let parsed ← atomLines.mapM readAtomV3000
  let idx := mapIdxFrom (fun i (p : Int × AtomR) => (p.1, i)) 0 parsed
  let bondLines ← getBlock "BOND".toList false [] v30s
  let bonds ← bondLines.mapM (readBondV3000 idx)
  let bl ← mkBondList parsed.length bonds
  pure ⟨parsed.map (·.2), bl⟩

/-- `_get_version(counts_line)`. -/
def getVersion (l : Line) : Line := strip (slice 33 39 l)

/-- `read_structure_from_ctab(ctab_lines)`. -/
def readCtab (lines : List Line) : Except Err MolR :=
  match lines with
  | [] => .error .indexError
  | l :: _ =>
    let v := getVersion l
    if v == "V2000".toList then readV2000 lines
    else if v == "V3000".toList then readV3000 lines
    else .error .invalidFile

/-! ## What a molecule looks like after a write–read cycle -/

def Atom.rt (a : Atom) : AtomR := ⟨a.x.dec, a.y.dec, a.z.dec, a.elem, a.charge⟩

/-- Bond types without a CTAB code come back as the type of the default code. -/
def bondRt (d : Nat) (b : Nat × Nat × Nat) : Nat × Nat × Nat :=
  (b.1, b.2.1, (bondOfCode ((codeOfBond b.2.2).getD d : Nat)).getD 0)

def Mol.rt (m : Mol) (d : Nat) : MolR := ⟨m.atoms.map Atom.rt, m.bonds.map (bondRt d)⟩

end BiotiteModel.C18

import BiotiteModel.Common
/-!
# C15 — geometry and periodic-box helpers
(model of `structure/geometry.py`, `structure/box.py`, the vector helpers of `structure/util.py`)

* Vector algebra (`V3`, `M3`, dot, cross, matrix products, determinant) is polymorphic in the
  scalar type: the rigid-motion theorems are polynomial identities over any commutative ring.
* Everything that needs division, order or `floor` (`coord_to_fraction`, `% 1`, minimum image,
  `move_inside_box`, `remove_pbc_from_coord`, `repeat_box_coord`) is over core `Rat`, so the same
  definitions are executable and drive the correspondence check on exactly representable inputs.
* Constants and loop ranges that the code contains (`> 0.5`, `% 1`, `range(-1, 1)`, `tol = 1e-6`,
  `range(-amount, amount + 1)`) are *parameters* (`Consts`); `Gen/C15.lean` is regenerated from the
  source on every run and instantiates them.
* numpy shape dispatch is index bookkeeping on `Arr` (shapes `(3,)`, `(n,3)`, `(m,n,3)`).

A box is three ROW vectors (`box[0]`, `box[1]`, `box[2]`), as in biotite.
-/
namespace BiotiteModel.C15

/-! ## Polymorphic vector algebra -/

structure V3 (α : Type) where
  x : α
  y : α
  z : α
  deriving DecidableEq, Repr

/-- Three row vectors. -/
structure M3 (α : Type) where
  r0 : V3 α
  r1 : V3 α
  r2 : V3 α
  deriving DecidableEq, Repr

section Poly
variable {α : Type} [Add α] [Sub α] [Mul α] [Neg α]

def V3.add (u v : V3 α) : V3 α := ⟨u.x + v.x, u.y + v.y, u.z + v.z⟩
def V3.sub (u v : V3 α) : V3 α := ⟨u.x - v.x, u.y - v.y, u.z - v.z⟩
def V3.neg (u : V3 α) : V3 α := ⟨-u.x, -u.y, -u.z⟩
def V3.smul (c : α) (u : V3 α) : V3 α := ⟨c * u.x, c * u.y, c * u.z⟩
/-- `vector_dot(v1, v2) = (v1 * v2).sum(axis=-1)` -/
def V3.dot (u v : V3 α) : α := u.x * v.x + u.y * v.y + u.z * v.z
/-- `np.cross` -/
def V3.cross (u v : V3 α) : V3 α :=
  ⟨u.y * v.z - u.z * v.y, u.z * v.x - u.x * v.z, u.x * v.y - u.y * v.x⟩
def V3.normSq (u : V3 α) : α := u.dot u

/-- `np.matmul(v, M)` for a row vector: `v.x * M[0] + v.y * M[1] + v.z * M[2]`. -/
def vecMul (v : V3 α) (m : M3 α) : V3 α :=
  ⟨v.x * m.r0.x + v.y * m.r1.x + v.z * m.r2.x,
   v.x * m.r0.y + v.y * m.r1.y + v.z * m.r2.y,
   v.x * m.r0.z + v.y * m.r1.z + v.z * m.r2.z⟩

/-- `np.dot(M, v)` (what `matrix_rotate` does with every coordinate). -/
def mulVec (m : M3 α) (v : V3 α) : V3 α := ⟨m.r0.dot v, m.r1.dot v, m.r2.dot v⟩

def M3.transpose (m : M3 α) : M3 α :=
  ⟨⟨m.r0.x, m.r1.x, m.r2.x⟩, ⟨m.r0.y, m.r1.y, m.r2.y⟩, ⟨m.r0.z, m.r1.z, m.r2.z⟩⟩

/-- Matrix product (rows of the left factor times the right factor). -/
def M3.mul (a b : M3 α) : M3 α := ⟨vecMul a.r0 b, vecMul a.r1 b, vecMul a.r2 b⟩

/-- Triple product `a · (b × c)` = determinant of the matrix with rows `a b c`. -/
def triple (a b c : V3 α) : α := a.dot (b.cross c)
def M3.det (m : M3 α) : α := triple m.r0 m.r1 m.r2

/-- A rigid motion `x ↦ R x + t`. -/
def rigid (R : M3 α) (t : V3 α) (x : V3 α) : V3 α := (mulVec R x).add t

/-! ### Rational pre-images of the measured quantities
`distance = sqrt(distSq)`, `angle = arccos(angleNum / sqrt(angleDenSq))`,
`dihedral = atan2(dihY / |v2|, dihX)` (after the common positive factor of the normalisation
is removed).  `sqrt`, `arccos`, `atan2` themselves are not modelled. -/

def distSq (a b : V3 α) : α := (b.sub a).normSq
/-- `angle(a, b, c)`: `v1 = b - a`, `v2 = b - c`. -/
def angleNum (a b c : V3 α) : α := (b.sub a).dot (b.sub c)
def angleDenSq (a b c : V3 α) : α := (b.sub a).normSq * (b.sub c).normSq
/-- `dihedral(a, b, c, d)`: `v1 = b - a`, `v2 = c - b`, `v3 = d - c`, `x = (v1×v2)·(v2×v3)`. -/
def dihX (a b c d : V3 α) : α :=
  ((b.sub a).cross (c.sub b)).dot ((c.sub b).cross (d.sub c))
/-- `y = ((v1×v2)×(v2×v3))·v2`. -/
def dihY (a b c d : V3 α) : α :=
  (((b.sub a).cross (c.sub b)).cross ((c.sub b).cross (d.sub c))).dot (c.sub b)
/-- `|v2|²` — the remaining scale between `x` and `y` after normalisation. -/
def dihAxisSq (_a b c _d : V3 α) : α := (c.sub b).normSq

/-- the two `atan2` arguments written with the three bond vectors -/
def dihXv (v1 v2 v3 : V3 α) : α := (v1.cross v2).dot (v2.cross v3)
def dihYv (v1 v2 v3 : V3 α) : α := ((v1.cross v2).cross (v2.cross v3)).dot v2

end Poly

/-! ### Unit cell ↔ box vectors, algebraic core
`vectors_from_unitcell` with the values of `cos α, cos β, cos γ, sin γ` and of the square root `c_z`
supplied as numbers; `unitcell_from_vectors` before `sqrt` / `arccos` (squared lengths and the three
dot products whose quotients by the lengths are the cosines). -/
section Cell
variable {α : Type} [Add α] [Sub α] [Mul α] [Div α] [OfNat α 0]

def vectorsFromCell (la lb lc ca cb cg sg cz : α) : M3 α :=
  ⟨⟨la, 0, 0⟩, ⟨lb * cg, lb * sg, 0⟩, ⟨lc * cb, lc * (ca - cb * cg) / sg, cz⟩⟩

structure CellSq (α : Type) where
  lenSqA : α
  lenSqB : α
  lenSqC : α
  /-- `b·c = |b||c| cos α` -/
  dotBC : α
  /-- `a·c = |a||c| cos β` -/
  dotAC : α
  /-- `a·b = |a||b| cos γ` -/
  dotAB : α
  deriving DecidableEq, Repr

def cellSqFromVectors (b : M3 α) : CellSq α :=
  ⟨b.r0.dot b.r0, b.r1.dot b.r1, b.r2.dot b.r2, b.r1.dot b.r2, b.r0.dot b.r2, b.r0.dot b.r1⟩

end Cell

/-! ## Rational part -/

abbrev Vec := V3 Rat
abbrev Box := M3 Rat

def zeroV : Vec := ⟨0, 0, 0⟩
def ofInts (i j k : Int) : Vec := ⟨(i : Rat), (j : Rat), (k : Rat)⟩

/-- Order of the two tests in `_call_non_index_function` that pick the box for `periodic=True`. -/
inductive BoxPrecedence where
  /-- `if box is None: (atoms.box | ValueError)` — the explicit `box=` argument wins (documented) -/
  | explicitFirst
  /-- `if atoms carry a box: atoms.box  elif box is None: ValueError` — the atoms' own box wins -/
  | ownFirst
  deriving DecidableEq, Repr

/-- Constants / loop ranges read from the source (see `Gen/C15.lean`). -/
structure Consts where
  /-- branch order of the box selection in `_call_non_index_function` -/
  boxPrecedence : BoxPrecedence
  /-- threshold of `fractions[fractions > 0.5] -= 1` -/
  half : Rat
  /-- `true` for `>`, `false` for `>=` -/
  halfStrict : Bool
  /-- the amount subtracted there -/
  halfSub : Rat
  /-- modulus of `fractions % 1` in `displacement` -/
  dispMod : Rat
  /-- modulus of `fractions % 1` in `move_inside_box` -/
  moveMod : Rat
  /-- `range(-1, 1)` of the triclinic candidate loops (i, j, k) -/
  shiftI : List Int
  shiftJ : List Int
  shiftK : List Int
  /-- `tol` of `is_orthogonal` -/
  orthoTol : Rat
  /-- offsets `(lo, hi)` of `range(-amount + lo, amount + hi)` in `repeat_box_coord` (expected `(0, 1)`) -/
  repLo : Int
  repHi : Int

def rabs (q : Rat) : Rat := if q < 0 then -q else q

/-- numpy / Python `q % m` for `m > 0`: `q - m * floor(q / m)`, in `[0, m)`. -/
def pymod (q m : Rat) : Rat := q - m * ((q / m).floor : Rat)

/-- `linalg.inv(box)` via the adjugate; `none` is numpy's `LinAlgError` (singular matrix). -/
def inv3 (b : Box) : Option Box :=
  let d := b.det
  if d = 0 then none else
  let c0 := b.r1.cross b.r2
  let c1 := b.r2.cross b.r0
  let c2 := b.r0.cross b.r1
  some ⟨⟨c0.x / d, c1.x / d, c2.x / d⟩, ⟨c0.y / d, c1.y / d, c2.y / d⟩, ⟨c0.z / d, c1.z / d, c2.z / d⟩⟩

/-- `coord_to_fraction(coord, box) = matmul(coord, inv(box))` for one vector. -/
def coordToFraction (x : Vec) (b : Box) : Option Vec := (inv3 b).map (vecMul x)

/-- `fraction_to_coord(fraction, box) = matmul(fraction, box)`. -/
def fractionToCoord (f : Vec) (b : Box) : Vec := vecMul f b

/-- `is_orthogonal(box)` — pairwise dot products within an absolute tolerance. -/
def isOrthogonal (c : Consts) (b : Box) : Bool :=
  decide (rabs (b.r0.dot b.r1) < c.orthoTol) &&
  decide (rabs (b.r0.dot b.r2) < c.orthoTol) &&
  decide (rabs (b.r1.dot b.r2) < c.orthoTol)

/-- `box_volume(box) = |det box|`. -/
def boxVolume (b : Box) : Rat := rabs b.det

def V3.map1 (f : Rat → Rat) (v : Vec) : Vec := ⟨f v.x, f v.y, f v.z⟩

/-- `fractions[fractions > 0.5] -= 1` -/
def wrapHalf (c : Consts) (q : Rat) : Rat :=
  if (if c.halfStrict then decide (q > c.half) else decide (q ≥ c.half)) then q - c.halfSub else q

/-- `_displacement_orthogonal_box` for one fraction vector. -/
def dispOrtho (c : Consts) (f : Vec) (b : Box) : Vec := fractionToCoord (f.map1 (wrapHalf c)) b

/-- the `periodic_shift` list in loop order -/
def shifts (c : Consts) (b : Box) : List Vec :=
  c.shiftI.flatMap fun i => c.shiftJ.flatMap fun j => c.shiftK.map fun k => vecMul (ofInts i j k) b

/-- `np.argmin` keeps the FIRST minimum. -/
def argminBy (key : Vec → Rat) : Vec → List Vec → Vec
  | best, [] => best
  | best, v :: vs => if key v < key best then argminBy key v vs else argminBy key best vs

/-- `_displacement_triclinic_box` for one fraction vector; `none` if the shift list is empty
(numpy `argmin` of an empty axis raises). -/
def dispTriclinic (c : Consts) (f : Vec) (b : Box) : Option Vec :=
  let d := fractionToCoord f b
  match (shifts c b).map (fun s => d.add s) with
  | [] => none
  | v :: vs => some (argminBy V3.normSq v vs)

inductive DispErr where
  | singular      -- `LinAlgError`
  | noCandidate   -- `ValueError` (argmin of an empty sequence)
  deriving DecidableEq, Repr

/-- `displacement` for ONE difference vector with a box. -/
def displacement1 (c : Consts) (diff : Vec) (b : Box) : Except DispErr Vec :=
  match coordToFraction diff b with
  | none => .error .singular
  | some f =>
    let f := f.map1 (fun q => pymod q c.dispMod)
    if isOrthogonal c b then .ok (dispOrtho c f b)
    else match dispTriclinic c f b with
      | some v => .ok v
      | none => .error .noCandidate

/-- an integer combination of the box vectors -/
def latVec (b : Box) (n : Int × Int × Int) : Vec := vecMul (ofInts n.1 n.2.1 n.2.2) b

/-! ### measurements with a box: every bond vector goes through `displacement` with the SAME box -/

/-- `distance(a, b, box)²` -/
def periodicDistSq (c : Consts) (p1 p2 : Vec) (b : Box) : Except DispErr Rat :=
  (displacement1 c (p2.sub p1) b).map V3.normSq

/-- `angle(a, b, c, box)`: numerator and squared denominator of the cosine -/
def periodicAngle (c : Consts) (p1 p2 p3 : Vec) (b : Box) : Except DispErr (Rat × Rat) := do
  let v1 ← displacement1 c (p2.sub p1) b
  let v2 ← displacement1 c (p2.sub p3) b
  pure (v1.dot v2, v1.normSq * v2.normSq)

/-- `dihedral(a, b, c, d, box)`: the two `atan2` arguments and `|v₂|²` -/
def periodicDihedral (c : Consts) (p1 p2 p3 p4 : Vec) (b : Box) : Except DispErr (Rat × Rat × Rat) := do
  let v1 ← displacement1 c (p2.sub p1) b
  let v2 ← displacement1 c (p3.sub p2) b
  let v3 ← displacement1 c (p4.sub p3) b
  pure (dihXv v1 v2 v3, dihYv v1 v2 v3, v2.normSq)

/-- What `arctan2(y, x)` of `dihedral` is, as far as it is decided by exact arithmetic: `0` (planar cis),
`pi` (planar trans, the sign of `±π` is not determined), otherwise the sign of the angle. `none`: degenerate
(`x = y = 0`, collinear atoms). -/
def dihedralClass (a b c d : Vec) : Option String :=
  let x := dihX a b c d
  let y := dihY a b c d
  if y = 0 then (if x > 0 then some "0" else if x < 0 then some "pi" else none)
  else if y > 0 then some "+" else some "-"

/-- `move_inside_box` for one coordinate. -/
def moveInside1 (c : Consts) (x : Vec) (b : Box) : Option Vec :=
  (coordToFraction x b).map fun f => fractionToCoord (f.map1 (fun q => pymod q c.moveMod)) b

/-- `np.cumsum(axis=-2)` started at `acc`. -/
def cumsumFrom : Vec → List Vec → List Vec
  | _, [] => []
  | acc, d :: ds => (acc.add d) :: cumsumFrom (acc.add d) ds

/-- consecutive differences `x[i+1] - x[i]` -/
def pairDiffs : List Vec → List Vec
  | a :: b :: rest => (b.sub a) :: pairDiffs (b :: rest)
  | _ => []

/-- `remove_pbc_from_coord(coord, box)` for one model.
The first coordinate is moved into the box, every further one is placed by the accumulated
minimum-image displacements of array neighbours. -/
def removePbcFromCoord (c : Consts) (xs : List Vec) (b : Box) : Except DispErr (List Vec) :=
  match xs with
  | [] => if (inv3 b).isNone then .error .singular else .ok []
  | x0 :: _ => do
    let ds ← (pairDiffs xs).mapM (fun d => displacement1 c d b)
    match moveInside1 c x0 b with
    | none => .error .singular
    | some base => .ok (base :: cumsumFrom base ds)

/-- `range(lo, hi)` -/
def intRange (lo hi : Int) : List Int := (List.range (hi - lo).toNat).map (fun (n : Nat) => lo + (n : Int))

/-- all `(i, j, k)` of the three nested loops of `repeat_box_coord`, in loop order -/
def cubeAll (c : Consts) (amount : Int) : List (Int × Int × Int) :=
  let r := intRange (-amount + c.repLo) (amount + c.repHi)
  r.flatMap fun i => r.flatMap fun j => r.map fun k => (i, j, k)

/-- the central box first, then every other box in loop order -/
def cubeShifts (c : Consts) (amount : Int) : List (Int × Int × Int) :=
  (0, 0, 0) :: (cubeAll c amount).filter (fun s => s ≠ (0, 0, 0))

/-- `repeat_box_coord(coord, box, amount)[0]` for one model. -/
def repeatBoxCoord (c : Consts) (xs : List Vec) (b : Box) (amount : Int) : List Vec :=
  (cubeShifts c amount).flatMap fun s => xs.map fun x => x.add (vecMul (ofInts s.1 s.2.1 s.2.2) b)

/-- `repeat_box_coord(coord, box, amount)` as a whole: a negative `amount` makes `(1 + 2·amount)³` negative and
`np.tile` refuses to repeat a NON-EMPTY index array that often (`ValueError: negative dimensions are not allowed`);
an empty coordinate array just stays empty. -/
def repeatBoxCoordE (c : Consts) (xs : List Vec) (b : Box) (amount : Int) : Except Err (List Vec × List Nat) :=
  if (1 + 2 * amount) ^ 3 < 0 ∧ xs ≠ [] then .error .valueError
  else .ok (repeatBoxCoord c xs b amount, (cubeShifts c amount).flatMap fun _ => List.range xs.length)

/-- `repeat_box_coord(...)[1] = np.tile(np.arange(n), (1 + 2 amount)^3)` -/
def repeatIndices (c : Consts) (n : Nat) (amount : Int) : List Nat :=
  (cubeShifts c amount).flatMap fun _ => List.range n

/-- `centroid` = `np.mean(axis=-2)`; `none` for an empty array (numpy returns NaN). -/
def centroid (xs : List Vec) : Option Vec :=
  if xs.isEmpty then none else
  let s := xs.foldl V3.add zeroV
  let n : Rat := (xs.length : Rat)
  some ⟨s.x / n, s.y / n, s.z / n⟩

/-- exact square root of a non-negative rational that is a perfect square -/
def ratSqrt? (q : Rat) : Option Rat :=
  if q < 0 then none else
  let n := q.num.toNat.sqrt
  let d := q.den.sqrt
  if n * n = q.num.toNat ∧ d * d = q.den then some ((n : Rat) / (d : Rat)) else none

/-- `vectors_from_unitcell(a, b, c, 90°, 90°, 90°)`: `cos = 0` (after the clean-up of round-off), `sin γ = 1`, `c_z = c`. -/
def vectorsFromCell90 (la lb lc : Rat) : Box := vectorsFromCell la lb lc 0 0 0 1 lc

/-- `unitcell_from_vectors` where it is exact: the three lengths (if rational) and which of the three angles
are right angles (`arccos 0`). -/
def unitcellExact (b : Box) : Option (Rat × Rat × Rat × Bool × Bool × Bool) :=
  let c := cellSqFromVectors b
  match ratSqrt? c.lenSqA, ratSqrt? c.lenSqB, ratSqrt? c.lenSqC with
  | some la, some lb, some lc => some (la, lb, lc, decide (c.dotBC = 0), decide (c.dotAC = 0), decide (c.dotAB = 0))
  | _, _, _ => none

/-! ## numpy shapes -/

/-- Coordinates of shape `(3,)`, `(n,3)` or `(m,n,3)`. -/
inductive Arr where
  | v (a : Vec)
  | l (as : List Vec)
  | s (ms : List (List Vec))
  deriving DecidableEq, Repr

inductive BoxArg where
  | none
  | one (b : Box)
  | many (bs : List Box)
  deriving DecidableEq, Repr

def Arr.rank : Arr → Nat
  | .v _ => 1 | .l _ => 2 | .s _ => 3

def Arr.to3 : Arr → List (List Vec)
  | .v a => [[a]] | .l as => [as] | .s ms => ms

def Arr.of3 (rank : Nat) (ms : List (List Vec)) : Option Arr :=
  match rank, ms with
  | 3, ms => some (.s ms)
  | 2, [as] => some (.l as)
  | 1, [[a]] => some (.v a)
  | _, _ => none

/-- numpy broadcasting along one axis: equal lengths, or one side has length 1. -/
def bzip {β γ : Type} (f : β → β → Option γ) (xs ys : List β) : Option (List γ) :=
  if xs.length = ys.length then (List.zip xs ys).mapM (fun p => f p.1 p.2)
  else match xs, ys with
    | [x], ys => ys.mapM (fun y => f x y)
    | xs, [y] => xs.mapM (fun x => f x y)
    | _, _ => none

/-- `v2 - v1` with broadcasting (`none` = numpy's `ValueError: operands could not be broadcast`). -/
def bsub (a1 a2 : Arr) : Option Arr :=
  match bzip (bzip (fun (p q : Vec) => some (q.sub p))) a1.to3 a2.to3 with
  | some ms => Arr.of3 (max a1.rank a2.rank) ms
  | none => none

inductive Res (β : Type) where
  | ok (a : β)
  | err (e : Err)
  | unmodelled
  deriving Repr

def DispErr.toErr : DispErr → Err
  | .singular => .other "LinAlgError"
  | .noCandidate => .valueError

def liftD {β : Type} : Except DispErr β → Res β
  | .ok a => .ok a
  | .error e => .err e.toErr

def mapMRes {β γ : Type} (f : β → Except DispErr γ) (xs : List β) : Except DispErr (List γ) := xs.mapM f

/-- `displacement(atoms1, atoms2, box)`.
`linalg.inv` is evaluated on every box before anything else, so a singular box raises even
when there is no coordinate. -/
def displacement (c : Consts) (a1 a2 : Arr) (box : BoxArg) : Res Arr :=
  match bsub a1 a2 with
  | none => .err .valueError
  | some diff =>
    match box with
    | .none => .ok diff
    | .one b =>
      if (inv3 b).isNone then .err (.other "LinAlgError") else
      match diff with
      | .v d => liftD ((displacement1 c d b).map Arr.v)
      | .l ds => liftD ((ds.mapM (fun d => displacement1 c d b)).map Arr.l)
      | .s ms => liftD ((ms.mapM (fun (ds : List Vec) => ds.mapM (fun d => displacement1 c d b))).map Arr.s)
    | .many bs =>
      if bs.any (fun b => (inv3 b).isNone) then .err (.other "LinAlgError") else
      match diff with
      | .s ms =>
        if ms.length = bs.length then
          liftD (((List.zip ms bs).mapM (fun (p : List Vec × Box) => p.1.mapM (fun d => displacement1 c d p.2))).map Arr.s)
        else .unmodelled
      | .l ds =>
        -- `(n,3) @ (m,3,3)` broadcasts to `(m,n,3)`: every model sees the same differences
        liftD ((bs.mapM (fun (b : Box) => ds.mapM (fun d => displacement1 c d b))).map Arr.s)
      | .v _ => .unmodelled

/-- numpy index with wrap-around of negative indices; `none` = `IndexError`. -/
def getIdx {β : Type} (xs : List β) (i : Int) : Option β :=
  let n : Int := xs.length
  if 0 ≤ i ∧ i < n then xs[i.toNat]? else
  if -n ≤ i ∧ i < 0 then xs[(i + n).toNat]? else none

/-- `coord[..., idx, :]` -/
def gather (a : Arr) (idx : List Int) : Option Arr :=
  match a with
  | .v _ => none
  | .l as => (idx.mapM (getIdx as)).map Arr.l
  | .s ms => (ms.mapM (fun as => idx.mapM (getIdx as))).map Arr.s

def BoxArg.isNone : BoxArg → Bool
  | .none => true
  | _ => false

/-- The box `_call_non_index_function` hands to the coordinate function.
`own = none`: `atoms` is a plain `ndarray`; `own = some b`: an `AtomArray`/`AtomArrayStack` whose `box`
attribute is `b` (`BoxArg.none` for `None`).  `periodic=False` ignores every box. -/
def selectBox (p : BoxPrecedence) (periodic : Bool) (own : Option BoxArg) (explicit : BoxArg) : Except Err BoxArg :=
  if !periodic then .ok .none else
  match p with
  | .explicitFirst =>
    if explicit.isNone then
      match own with
      | some o => .ok o            -- possibly `None`: then no periodicity at all
      | none => .error .valueError
    else .ok explicit
  | .ownFirst =>
    match own with
    | some o =>
      if !o.isNone then .ok o
      else if explicit.isNone then .error .valueError else .ok explicit
    | none => if explicit.isNone then .error .valueError else .ok explicit

/-- `index_displacement(atoms, indices, periodic, box)` as `_call_non_index_function` does it:
gather column 0 and column 1 (an `IndexError` comes first), select the box, call `displacement`. -/
def indexDisplacement (c : Consts) (a : Arr) (pairs : List (Int × Int)) (periodic : Bool) (box : BoxArg)
    (own : Option BoxArg := none) : Res Arr :=
  match a with
  | .v _ => .err .indexError      -- `coord[..., idx, :]` on a 1-dimensional array: "too many indices"
  | _ =>
    match gather a (pairs.map Prod.fst), gather a (pairs.map Prod.snd) with
    | some a1, some a2 =>
      match selectBox c.boxPrecedence periodic own box with
      | .ok bx => displacement c a1 a2 bx
      | .error e => .err e
    | _, _ => .err .indexError

/-- The same quantity computed pair by pair for a single model and a single box — the
"coordinate variant on each pair". -/
def pairwiseDisplacement (c : Consts) (xs : List Vec) (pairs : List (Int × Int)) (box : Option Box) :
    Option (Except DispErr (List Vec)) :=
  match pairs.mapM (fun p => match getIdx xs p.1, getIdx xs p.2 with
      | some a, some b => some (b.sub a) | _, _ => none) with
  | none => none
  | some ds =>
    match box with
    | none => some (.ok ds)
    | some b => some (ds.mapM (fun d => displacement1 c d b))

/-- `coord_to_fraction(coord, box)` / `fraction_to_coord(fraction, box)` on arrays. -/
def perVector (f : Box → Vec → Option Vec) (needInv : Bool) (a : Arr) (box : BoxArg) : Res Arr :=
  let one (b : Box) (x : Vec) : Except DispErr Vec :=
    match f b x with | some y => .ok y | none => .error .singular
  match box with
  | .none => .unmodelled
  | .one b =>
    if needInv && (inv3 b).isNone then .err (.other "LinAlgError") else
    match a with
    | .v x => liftD ((one b x).map Arr.v)
    | .l xs => liftD ((xs.mapM (one b)).map Arr.l)
    | .s ms => liftD ((ms.mapM (fun (xs : List Vec) => xs.mapM (one b))).map Arr.s)
  | .many bs =>
    if needInv && bs.any (fun b => (inv3 b).isNone) then .err (.other "LinAlgError") else
    match a with
    | .s ms =>
      if ms.length = bs.length then
        liftD (((List.zip ms bs).mapM (fun (p : List Vec × Box) => p.1.mapM (one p.2))).map Arr.s)
      else .unmodelled
    | _ => .unmodelled

def coordToFractionArr (a : Arr) (box : BoxArg) : Res Arr :=
  perVector (fun b x => coordToFraction x b) true a box

def fractionToCoordArr (a : Arr) (box : BoxArg) : Res Arr :=
  perVector (fun b x => some (fractionToCoord x b)) false a box

/-- `move_inside_box(coord, box)`. -/
def moveInside (c : Consts) (a : Arr) (box : BoxArg) : Res Arr :=
  perVector (fun b x => moveInside1 c x b) true a box

/-- `remove_pbc_from_coord(coord, box)` with shapes `(n,3)`/`(3,3)` and `(m,n,3)`/`(m,3,3)`. -/
def removePbcArr (c : Consts) (a : Arr) (box : BoxArg) : Res Arr :=
  match a, box with
  | .l xs, .one b => liftD ((removePbcFromCoord c xs b).map Arr.l)
  | .s ms, .many bs =>
    if bs.any (fun b => (inv3 b).isNone) then .err (.other "LinAlgError") else
    if ms.length = bs.length then
      liftD (((List.zip ms bs).mapM (fun (p : List Vec × Box) => removePbcFromCoord c p.1 p.2)).map Arr.s)
    else .unmodelled
  | _, _ => .unmodelled

/-- One iteration of the molecule loop of `remove_pbc`: the coordinates at the (ascending, not necessarily
contiguous) array positions `mol` are reassembled by `remove_pbc_from_coord` on THEIR OWN sequence, then translated
so that their centroid lies in the box; every other coordinate is left alone. -/
def removePbcStep (c : Consts) (b : Box) (cur : List Vec) (mol : List Nat) : Except DispErr (List Vec) := do
  let sub := mol.filterMap (fun i => cur[i]?)
  let san ← removePbcFromCoord c sub b
  match centroid san with
  | none => pure cur
  | some ctr =>
    match moveInside1 c ctr b with
    | none => .error .singular
    | some ctrIn =>
      let moved := san.map (fun p => p.add (ctrIn.sub ctr))
      pure ((List.zip mol moved).foldl (fun acc p => acc.set p.1 p.2) cur)

/-- `remove_pbc` for one model whose molecules are given as ascending index lists. -/
def removePbcMolecules (c : Consts) (xs : List Vec) (mols : List (List Nat)) (b : Box) :
    Except DispErr (List Vec) :=
  mols.foldlM (removePbcStep c b) xs

/-- `remove_pbc(atoms, selection)`: every molecule mask is intersected with the selection first. -/
def removePbcSelected (c : Consts) (xs : List Vec) (mols : List (List Nat)) (sel : List Bool) (b : Box) :
    Except DispErr (List Vec) :=
  removePbcMolecules c xs (mols.map (fun m => m.filter (fun i => sel.getD i false))) b

end BiotiteModel.C15

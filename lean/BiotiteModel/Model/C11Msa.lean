import BiotiteModel.Model.C11Cigar
/-!
# C11 — executable model of the progressive alignment in multiple.pyx

`_progressive_align` walks the (binary) guide tree; at an inner node the two sub-MSAs (lists of gapped code
rows, gap = the extra symbol code `g`) are merged along **one** pairwise trace returned by `align_optimal`:
`_replace_gaps` rewrites every row of the left group along column 0 of the trace and every row of the right
group along column 1.  `align_optimal` itself is C08's subject; here it is a parameter `al` (indexed by the leaf
lists of the two children) whose outputs are required to be valid global traces.
-/
namespace BiotiteModel.C11
open BiotiteModel

abbrev Row := List Nat

inductive GTree where
  | leaf (i : Nat)
  | node (l r : GTree)
  deriving Repr

def GTree.leaves : GTree → List Nat
  | .leaf i => [i]
  | .node l r => l.leaves ++ r.leaves

/-- remove the gap symbol (`code[code != gap_symbol_code]`) -/
def strip (g : Nat) (r : Row) : Row := r.filter (· ≠ g)

/-- `_replace_gaps(partial_trace, seq_code, gap_symbol_code)` -/
def replaceGaps (g : Nat) (tr : List (Option Nat)) (row : Row) : Except Err Row :=
  mapE (fun x => match x with
    | none => .ok g
    | some i => match row[i]? with
      | some c => .ok c
      | none => .error .indexError) tr

/-- the merge step of `_progressive_align` -/
def mergeGroups (g : Nat) (tr : PTrace) (g1 g2 : List Row) : Except Err (List Row) :=
  match mapE (replaceGaps g (tr.map (·.1))) g1 with
  | .error e => .error e
  | .ok a => match mapE (replaceGaps g (tr.map (·.2))) g2 with
    | .error e => .error e
    | .ok b => .ok (a ++ b)

/-- `_progressive_align`: `(order, aligned rows)` -/
def progressive (al : List Nat → List Nat → PTrace) (g : Nat) (seqs : List Row) :
    GTree → Except Err (List Nat × List Row)
  | .leaf i => match seqs[i]? with
    | some s => .ok ([i], [s])
    | none => .error .indexError
  | .node l r =>
    match progressive al g seqs l with
    | .error e => .error e
    | .ok (o1, r1) => match progressive al g seqs r with
      | .error e => .error e
      | .ok (o2, r2) => match mergeGroups g (al o1 o2) r1 r2 with
        | .error e => .error e
        | .ok rows => .ok (o1 ++ o2, rows)

/-- a valid *global* pairwise trace over rows of width `w1` and `w2`: each side visits `0 … w−1` in order,
no column is a double gap (what C08 proves about `align_optimal(local=False)`). -/
def GlobalValid (tr : PTrace) (w1 w2 : Nat) : Prop :=
  tr.filterMap (·.1) = List.range w1 ∧ tr.filterMap (·.2) = List.range w2 ∧ ∀ c ∈ tr, c ≠ (none, none)

def globalValidB (tr : PTrace) (w1 w2 : Nat) : Bool :=
  tr.filterMap (·.1) == List.range w1 && tr.filterMap (·.2) == List.range w2 &&
  tr.all (fun c => c.1.isSome || c.2.isSome)

def width (rows : List Row) : Nat := (rows.headD []).length

/-- every call of `al` made while walking `tree` returned a valid global trace for the rows it was given. -/
def AllValid (al : List Nat → List Nat → PTrace) (g : Nat) (seqs : List Row) : GTree → Prop
  | .leaf _ => True
  | .node l r => AllValid al g seqs l ∧ AllValid al g seqs r ∧
      ∀ o1 r1 o2 r2, progressive al g seqs l = .ok (o1, r1) → progressive al g seqs r = .ok (o2, r2) →
        GlobalValid (al o1 o2) (width r1) (width r2)

def allValidB (al : List Nat → List Nat → PTrace) (g : Nat) (seqs : List Row) : GTree → Bool
  | .leaf _ => true
  | .node l r => allValidB al g seqs l && allValidB al g seqs r &&
      match progressive al g seqs l, progressive al g seqs r with
      | .ok (o1, r1), .ok (o2, r2) => globalValidB (al o1 o2) (width r1) (width r2)
      | _, _ => true

/-- numbering of the non-gap codes of one aligned row (the `trace[i, j]` loop of `align_multiple`). -/
def numberCodes (g : Nat) : Nat → Row → List (Option Nat)
  | _, [] => []
  | n, c :: cs => if c = g then none :: numberCodes g n cs else some n :: numberCodes g (n + 1) cs

/-- `np.argsort(order)` for a permutation `order` of `0 … n−1`: the inverse permutation. -/
def argsortPerm (order : List Nat) : List Nat := (List.range order.length).map fun k => order.idxOf k

def isPerm (order : List Nat) : Bool := (List.range order.length).all fun k => order.contains k

structure MsaResult where
  seqs : List Row            -- `alignment.sequences` (codes), input order
  rows : List (List (Option Nat))  -- `alignment.trace[:, k]` for each k, input order
  trace : Trace
  order : List Nat
  deriving Repr

/-- rows picked by `[x[pos] for pos in new_order]` -/
def pick {α : Type} (xs : List α) (idx : List Nat) : Except Err (List α) :=
  mapE (fun p => match xs[p]? with
    | some x => .ok x
    | none => .error .indexError) idx

/-- `align_multiple` after the guide tree is known. `none` = `order` is not a permutation (not modelled). -/
def alignMultiple (al : List Nat → List Nat → PTrace) (g : Nat) (seqs : List Row) (tree : GTree) :
    Except Err (Option MsaResult) :=
  match progressive al g seqs tree with
  | .error e => .error e
  | .ok (order, rows) =>
    if !isPerm order then .ok none else
    let newOrder := argsortPerm order
    match pick rows newOrder with
    | .error e => .error e
    | .ok picked =>
      let numbered := picked.map (numberCodes g 0)
      .ok (some { seqs := picked.map (strip g), rows := numbered,
                  trace := transpose (width rows) numbered, order := order })

end BiotiteModel.C11

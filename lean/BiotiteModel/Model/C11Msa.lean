import BiotiteModel.Model.C11Cigar
/-!
# C11 — executable model of the progressive alignment in multiple.pyx

`_progressive_align` walks the (binary) guide tree; at an inner node the two sub-MSAs (lists of gapped code
rows, gap = the extra symbol code `g`) are merged along **one** pairwise trace returned by `align_optimal`:
`_replace_gaps` rewrites every row of the left group along column 0 of the trace and every row of the right
group along column 1.  `align_optimal` itself is C08's subject; here it is a parameter `al` (indexed by the leaf
lists of the two children) whose outputs are required to be valid global traces.
-/
namespace BiotiteModel.C11
open BiotiteModel

abbrev Row := List Nat

inductive GTree where
  | leaf (i : Nat)
  | node (l r : GTree)
  deriving Repr, DecidableEq

def GTree.leaves : GTree → List Nat
  | .leaf i => [i]
  | .node l r => l.leaves ++ r.leaves

/-- remove the gap symbol (`code[code != gap_symbol_code]`) -/
def strip (g : Nat) (r : Row) : Row := r.filter (· ≠ g)

/-- `_replace_gaps(partial_trace, seq_code, gap_symbol_code)` -/
def replaceGaps (g : Nat) (tr : List (Option Nat)) (row : Row) : Except Err Row :=
  mapE (fun x => match x with
    | none => .ok g
    | some i => match row[i]? with
      | some c => .ok c
      | none => .error .indexError) tr

/-- the merge step of `_progressive_align` -/
def mergeGroups (g : Nat) (tr : PTrace) (g1 g2 : List Row) : Except Err (List Row) :=
  match mapE (replaceGaps g (tr.map (·.1))) g1 with
  | .error e => .error e
  | .ok a => match mapE (replaceGaps g (tr.map (·.2))) g2 with
    | .error e => .error e
    | .ok b => .ok (a ++ b)

/-- `_progressive_align`: `(order, aligned rows)` -/
def progressive (al : List Nat → List Nat → PTrace) (g : Nat) (seqs : List Row) :
    GTree → Except Err (List Nat × List Row)
  | .leaf i => match seqs[i]? with
    | some s => .ok ([i], [s])
    | none => .error .indexError
  | .node l r =>
    match progressive al g seqs l with
    | .error e => .error e
    | .ok (o1, r1) => match progressive al g seqs r with
      | .error e => .error e
      | .ok (o2, r2) => match mergeGroups g (al o1 o2) r1 r2 with
        | .error e => .error e
        | .ok rows => .ok (o1 ++ o2, rows)

/-- a valid *global* pairwise trace over rows of width `w1` and `w2`: each side visits `0 … w−1` in order,
no column is a double gap (what C08 proves about `align_optimal(local=False)`). -/
def GlobalValid (tr : PTrace) (w1 w2 : Nat) : Prop :=
  tr.filterMap (·.1) = List.range w1 ∧ tr.filterMap (·.2) = List.range w2 ∧ ∀ c ∈ tr, c ≠ (none, none)

def globalValidB (tr : PTrace) (w1 w2 : Nat) : Bool :=
  tr.filterMap (·.1) == List.range w1 && tr.filterMap (·.2) == List.range w2 &&
  tr.all (fun c => c.1.isSome || c.2.isSome)

def width (rows : List Row) : Nat := (rows.headD []).length

/-- every call of `al` made while walking `tree` returned a valid global trace for the rows it was given. -/
def AllValid (al : List Nat → List Nat → PTrace) (g : Nat) (seqs : List Row) : GTree → Prop
  | .leaf _ => True
  | .node l r => AllValid al g seqs l ∧ AllValid al g seqs r ∧
      ∀ o1 r1 o2 r2, progressive al g seqs l = .ok (o1, r1) → progressive al g seqs r = .ok (o2, r2) →
        GlobalValid (al o1 o2) (width r1) (width r2)

def allValidB (al : List Nat → List Nat → PTrace) (g : Nat) (seqs : List Row) : GTree → Bool
  | .leaf _ => true
  | .node l r => allValidB al g seqs l && allValidB al g seqs r &&
      match progressive al g seqs l, progressive al g seqs r with
      | .ok (o1, r1), .ok (o2, r2) => globalValidB (al o1 o2) (width r1) (width r2)
      | _, _ => true

/-- numbering of the non-gap codes of one aligned row (the `trace[i, j]` loop of `align_multiple`). -/
def numberCodes (g : Nat) : Nat → Row → List (Option Nat)
  | _, [] => []
  | n, c :: cs => if c = g then none :: numberCodes g n cs else some n :: numberCodes g (n + 1) cs

/-- `np.argsort(order)` for a permutation `order` of `0 … n−1`: the inverse permutation. -/
def argsortPerm (order : List Nat) : List Nat := (List.range order.length).map fun k => order.idxOf k

def isPerm (order : List Nat) : Bool := (List.range order.length).all fun k => order.contains k

structure MsaResult where
  seqs : List Row            -- `alignment.sequences` (codes), input order
  rows : List (List (Option Nat))  -- `alignment.trace[:, k]` for each k, input order
  trace : Trace
  order : List Nat
  deriving Repr

/-- rows picked by `[x[pos] for pos in new_order]` -/
def pick {α : Type} (xs : List α) (idx : List Nat) : Except Err (List α) :=
  mapE (fun p => match xs[p]? with
    | some x => .ok x
    | none => .error .indexError) idx

/-- `align_multiple` after the guide tree is known. `none` = `order` is not a permutation (not modelled). -/
def alignMultiple (al : List Nat → List Nat → PTrace) (g : Nat) (seqs : List Row) (tree : GTree) :
    Except Err (Option MsaResult) :=
  match progressive al g seqs tree with
  | .error e => .error e
  | .ok (order, rows) =>
    if !isPerm order then .ok none else
    let newOrder := argsortPerm order
    match pick rows newOrder with
    | .error e => .error e
    | .ok picked =>
      let numbered := picked.map (numberCodes g 0)
      .ok (some { seqs := picked.map (strip g), rows := numbered,
                  trace := transpose (width rows) numbered, order := order })

/-! ### `as_binary` (tree.pyx): the guide tree a user supplies may be multifurcating -/

inductive MTree where
  | leaf (i : Nat)
  | node (cs : List MTree)

mutual
def MTree.leaves : MTree → List Nat
  | .leaf i => [i]
  | .node cs => MTree.leavesList cs
def MTree.leavesList : List MTree → List Nat
  | [] => []
  | c :: cs => c.leaves ++ MTree.leavesList cs
end

mutual
/-- `_as_binary`: a node with one child is replaced by the child; a node with children `c₁ … c_k` (k ≥ 2) becomes
`(((c₁, c₂), c₃), …, c_k)`.  `none`: an inner node without children (cannot be built as a `TreeNode`). -/
def asBinary : MTree → Option GTree
  | .leaf i => some (.leaf i)
  | .node cs => match asBinaryList cs with
    | none => none
    | some [] => none
    | some [c] => some c
    | some (c1 :: c2 :: rest) => some (rest.foldl GTree.node (GTree.node c1 c2))
def asBinaryList : List MTree → Option (List GTree)
  | [] => some []
  | c :: cs => match asBinary c, asBinaryList cs with
    | some b, some bs => some (b :: bs)
    | _, _ => none
end

/-! ### the distance formula of `_get_distance_matrix` (Feng & Doolittle), exactly

`D = −ln((S − S_rand) / (S_max − S_rand))` with `S_max = (S_aa + S_bb)/2` and
`S_rand = pairSum / L + nOpen·go + nExt·ge`, where `pairSum = Σ_x Σ_y s(x,y)·N_a(x)·N_b(y)` and `L` is the number of
columns of the pairwise alignment.  All three quantities are scaled by `2L > 0`, so everything is an integer. -/

structure DistIn where
  S : Int        -- score of the pairwise alignment of a and b
  Saa : Int      -- self-alignment scores
  Sbb : Int
  pairSum : Int
  L : Nat        -- columns of the alignment of a and b
  nOpen : Nat
  nExt : Nat
  go : Int
  ge : Int
  deriving Repr

/-- `2L·(S − S_rand)` -/
def DistIn.num (d : DistIn) : Int := 2 * d.L * d.S - 2 * (d.pairSum + d.L * (d.nOpen * d.go + d.nExt * d.ge))
/-- `2L·(S_max − S_rand)` -/
def DistIn.den (d : DistIn) : Int := d.L * (d.Saa + d.Sbb) - 2 * (d.pairSum + d.L * (d.nOpen * d.go + d.nExt * d.ge))

inductive DistOutcome where
  | belowRandom   -- `S < S_rand`: the documented ValueError
  | zeroDivision  -- `S_max = S_rand`: float division by zero
  | infinite      -- `S = S_rand`: `−ln 0 = ∞`, refused later by `upgma`
  | notANumber    -- ratio negative: `ln` of a negative number; refused by `upgma` (nan ≠ nan: "must be symmetric")
  | negative      -- `S > S_max`: ratio > 1, negative distance; refused by `upgma` ("Distances must be positive")
  | finite
  deriving DecidableEq, Repr

/-- what the code does with one pair, in the order of its tests -/
def distOutcome (d : DistIn) : DistOutcome :=
  if d.num < 0 then .belowRandom
  else if d.den = 0 then .zeroDivision
  else if d.num = 0 then .infinite
  else if d.den < 0 then .notANumber
  else if d.den < d.num then .negative
  else .finite

/-- the formula has a (finite, real) value: denominator non-zero and the argument of `ln` positive -/
def DistDefined (d : DistIn) : Prop := d.den ≠ 0 ∧ ((0 < d.num ∧ 0 < d.den) ∨ (d.num < 0 ∧ d.den < 0))

end BiotiteModel.C11

import BiotiteModel.Model.C01
/-!
# C01 — the list-of-atoms reference model (`Spec`) and the abstraction function

A spec container is a plain **list of atom records**: every atom carries its own annotation record
(`name ↦ token`) and its coordinate token in every model; boxes are one token per model; bonds are pairs of
*positions in the atom list*.  Every operation is a list operation on that list (`map`, `getD`, `eraseIdx`,
`flatMap`, …); nothing is stored column-wise.  `abs` transposes the column store of `Model/C01.lean` into it.
The guards (index resolution, bond-list restrictions, documented rejections) are the same functions as in the
model, so that errors agree as well.
-/
namespace BiotiteModel.C01

structure SAtom where
  ann : List (String × Tok)      -- the atom's annotation record
  co : List Tok                  -- its coordinate token in every model
  deriving DecidableEq, Repr

structure SArr where
  stack : Bool
  names : List (String × Unit)   -- annotation categories (needed when there is no atom)
  atoms : List SAtom
  depth : Nat
  boxes : Option (List Tok)
  bonds : Option (List Bond)     -- positions in `atoms`
  deriving DecidableEq, Repr

inductive SVal where
  | none
  | atom (a : AtomV)
  | arr (a : SArr)
  deriving DecidableEq, Repr

/-- atom `i` of a column store -/
def row (a : Arr) (i : Nat) : SAtom := ⟨mapVals (·.getD i 0) a.annot, a.coord.map (·.getD i 0)⟩

/-- the abstraction: transpose columns into atom records -/
def abs (a : Arr) : SArr :=
  ⟨a.stack, mapVals (fun _ => ()) a.annot, (List.range a.n).map (row a), a.coord.length, a.box, a.bonds.map (·.bs)⟩

def absVal : Val → SVal
  | .none => .none
  | .atom a => .atom a
  | .arr a => .arr (abs a)

def dflt : SAtom := ⟨[], []⟩
def SArr.at (s : SArr) (i : Nat) : SAtom := s.atoms.getD i dflt

/-! ## indexing -/

/-- select the atoms at positions `sel`; bonds follow their atoms -/
def Ssubarray (s : SArr) (ix : Index) : Except Err SArr :=
  if ix = .ellipsis then .error .indexError
  else match resolve s.atoms.length ix with
  | .error e => .error e
  | .ok sel =>
    match (match s.bonds with | none => none | some bs => bondsErr bs ix sel) with
    | some e => .error e
    | none => .ok { s with atoms := sel.map s.at, bonds := s.bonds.map (relabel · sel) }

def SgetAtom (s : SArr) (m k : Nat) : AtomV := ⟨(s.at k).ann, (s.at k).co.getD m 0⟩

def SselModels (s : SArr) (ms : List Nat) : SArr :=
  { s with atoms := s.atoms.map (fun r => { r with co := ms.map (fun m => r.co.getD m 0) })
           depth := ms.length, boxes := s.boxes.map (pick · ms) }

def SgetArray (s : SArr) (i : Int) : Except Err SArr :=
  match normInt s.depth i with
  | .error e => .error e
  | .ok m => .ok { SselModels s [m] with stack := false }

def SarrayGet (s : SArr) (ix : Index) : Except Err SVal :=
  match ix with
  | .int i => (normInt s.atoms.length i).map (fun k => .atom (SgetAtom s 0 k))
  | _ => (Ssubarray s ix).map .arr

def Sgetitem (s : SArr) (ix : Index) : Except Err SVal :=
  if !s.stack then SarrayGet s ix
  else match ix with
    | .int i => (SgetArray s i).map .arr
    | _ => (resolve s.depth ix).map (fun ms => .arr (SselModels s ms))

def SsubarrayKeep (s : SArr) (i1 : Index) : Except Err SArr :=
  match i1 with
  | .int k => (normInt s.atoms.length k).bind (fun k' => Ssubarray s (.slice (some k') (some (k' + 1)) none))
  | _ => Ssubarray s i1

def Sgetitem2Rest (s : SArr) (i0 i1 : Index) : Except Err SVal :=
  match SsubarrayKeep s i1 with
  | .error e => .error e
  | .ok t =>
    if i0 = .ellipsis then .ok (.arr t)
    else (resolve t.depth i0).map (fun ms => .arr (SselModels t ms))

def Sgetitem2 (s : SArr) (i0 i1 : Index) : Except Err SVal :=
  if !s.stack then
    (if i0 = .ellipsis then SarrayGet s i1 else .error .indexError)
  else match i0 with
    | .int i => (SgetArray s i).bind (fun x => SarrayGet x i1)
    | _ => Sgetitem2Rest s i0 i1

/-! ## assignment, deletion -/

/-- overwrite the selected atoms with the atom `v` (only the categories the container has) -/
def SsetElement (s : SArr) (ix : Index) (v : AtomV) : Except Err SArr :=
  if !setIndexOk ix then .error .typeError
  else if !(s.names.all (fun p => hasKey p.1 v.annot)) then .error .keyError
  else match resolve s.atoms.length ix with
  | .error e => .error e
  | .ok sel =>
    .ok { s with atoms := (List.range s.atoms.length).map (fun i =>
            if sel.contains i then
              ⟨(s.at i).ann.map (fun q => (q.1, (lookup q.1 v.annot).getD 0)), (s.at i).co.map (fun _ => v.coord)⟩
            else s.at i) }

/-- same categories, and every atom has the same record -/
def SequalAnnot (s t : SArr) : Bool :=
  sortNames (s.names.map (·.1)) == sortNames (t.names.map (·.1)) &&
  s.names.all (fun p => hasKey p.1 t.names) &&
  (List.range s.atoms.length).all (fun i => (s.at i).ann.all (fun q => lookup q.1 (t.at i).ann == some q.2))

def SequalBonds (s t : SArr) : Bool :=
  match s.bonds, t.bonds with
  | none, none => true
  | some x, some y => s.atoms.length == t.atoms.length && sortBonds x == sortBonds y
  | _, _ => false

/-- replace model `m` by the (single) model of the atom array `x` -/
def SsetModel (s : SArr) (ix : Index) (v : SVal) : Except Err SArr :=
  match v with
  | .arr x =>
    if x.stack then .error unmodelled
    else if x.atoms.length != s.atoms.length then .error .valueError
    else if !SequalAnnot s x then .error .valueError
    else if !SequalBonds s x then .error .valueError
    else match ix with
      | .int i =>
        if s.boxes.isSome && !x.boxes.isSome then .error .valueError
        else match normInt s.depth i with
        | .error e => .error e
        | .ok m =>
          .ok { s with atoms := (List.range s.atoms.length).map (fun i =>
                           { s.at i with co := (s.at i).co.set m ((x.at i).co.getD 0 0) })
                       boxes := s.boxes.map (fun b => b.set m ((x.boxes.getD []).getD 0 0)) }
      | _ => .error .typeError
  | _ => .error .valueError

def Ssetitem (s : SArr) (ix : Index) (v : SVal) : Except Err SArr :=
  if s.stack then SsetModel s ix v
  else match v with
    | .atom t => SsetElement s ix t
    | _ => .error unmodelled

/-- remove one atom (array) or one model (stack) -/
def Sdelitem (s : SArr) (ix : Index) : Except Err SArr :=
  match ix with
  | .int i =>
    if s.stack then
      match normInt s.depth i with
      | .error e => .error e
      | .ok m => .ok { s with atoms := s.atoms.map (fun r => { r with co := r.co.eraseIdx m })
                              depth := s.depth - 1, boxes := s.boxes.map (·.eraseIdx m) }
    else
      match normInt s.atoms.length i with
      | .error e => .error e
      | .ok k =>
        .ok { s with atoms := s.atoms.eraseIdx k
                     bonds := s.bonds.map (relabel · (List.range k ++ List.range' (k + 1) (s.atoms.length - 1 - k))) }
  | _ => .error .typeError

/-! ## several containers -/

def mandRow : List (String × Tok) := mandatory.map (fun k => (k, 0))
def mandHdr : List (String × Unit) := mandatory.map (fun k => (k, ()))

/-- the record of a new atom: mandatory categories default to 0, then the given categories -/
def restrictRow (keys : List String) (ann : List (String × Tok)) : List (String × Tok) :=
  keys.foldl (fun d k => insert k ((lookup k ann).getD 0) d) mandRow

def SconcatCheck (stack : Bool) (depth : Nat) : List SArr → Except Err Unit
  | [] => .ok ()
  | a :: r =>
    if a.stack != stack then .error .typeError
    else if a.depth != depth then .error .indexError
    else SconcatCheck stack depth r

def SfirstBox : List SArr → Option (List Tok)
  | [] => none
  | a :: r => match a.boxes with | some b => some b | none => SfirstBox r

/-- bonds of consecutive parts, each shifted by the number of atoms before it -/
def bondsJoin : List (Nat × List Bond) → Nat × List Bond
  | [] => (0, [])
  | b :: r => let t := bondsJoin r; (b.1 + t.1, b.2 ++ offsetBonds b.1 t.2)

/-- all atoms of all parts, one after the other, restricted to the categories every part has -/
def Sconcatenate (xs : List SArr) : Except Err SArr :=
  match xs.head? with
  | none => .error .indexError
  | some f =>
    match SconcatCheck f.stack f.depth xs with
    | .error e => .error e
    | .ok _ =>
      let keys := (f.names.filter (fun p => xs.all (fun x => hasKey p.1 x.names))).map (·.1)
      .ok { stack := f.stack
            names := keys.foldl (fun d k => insert k () d) mandHdr
            atoms := xs.flatMap (fun x => x.atoms.map (fun r => ⟨restrictRow keys r.ann, r.co⟩))
            depth := f.depth
            boxes := SfirstBox xs
            bonds := if xs.any (·.bonds.isSome) then
                       some (bondsJoin (xs.map (fun x => (x.atoms.length, x.bonds.getD [])))).2
                     else none }

/-- the same atoms, one model per array -/
def SstackArrays (xs : List SArr) : Except Err SArr :=
  match xs.head? with
  | none => .error (.other "AttributeError")
  | some f =>
    if xs.any (·.stack) then .error unmodelled
    else if !(xs.all (fun x => x.atoms.length == f.atoms.length)) then .error .valueError
    else if !(xs.all (fun x => SequalAnnot x f)) then .error .valueError
    else .ok { stack := true, names := f.names
               atoms := (List.range f.atoms.length).map (fun i => ⟨(f.at i).ann, xs.map (fun x => (x.at i).co.getD 0 0)⟩)
               depth := xs.length
               boxes := if xs.all (·.boxes.isSome) then some (xs.map (fun x => (x.boxes.getD []).getD 0 0)) else none
               bonds := f.bonds }

/-- a new array from atom records -/
def SarrayOf (xs : List AtomV) : Except Err SArr :=
  match xs with
  | [] => .error .indexError
  | f :: _ =>
    if !(xs.all (fun a => sameKeys a.annot f.annot)) then .error .valueError
    else
      .ok { stack := false
            names := (f.annot.map (·.1)).foldl (fun d k => insert k () d) mandHdr
            atoms := xs.map (fun v => ⟨restrictRow (f.annot.map (·.1)) v.annot, [v.coord]⟩)
            depth := 1, boxes := none, bonds := none }

/-- `k` copies of the atom list with fresh coordinates -/
def SrepeatArr (s : SArr) (k : Nat) (toks : List Tok) : Except Err SArr :=
  let n := s.atoms.length
  if toks.length ≠ k * s.depth * n then .error .valueError
  else if s.bonds.isSome && n * max k 1 != n * k then .error .valueError
  else .ok { s with atoms := (List.range (n * k)).map (fun t =>
                        ⟨(s.at (t % n)).ann, (List.range s.depth).map (fun m => toks.getD (((t / n) * s.depth + m) * n + t % n) 0)⟩)
                    bonds := s.bonds.map (fun bs => (bondsJoin (List.replicate (max k 1) (n, bs))).2) }

def SfromTemplate (s : SArr) (coord : List (List Tok)) (box : Option (List Tok)) : Except Err SArr :=
  if !(coord.all (fun c => c.length == s.atoms.length)) then .error .valueError
  else if boxDepthBad box coord.length then .error .valueError
  else .ok { s with stack := true
                    atoms := (List.range s.atoms.length).map (fun i => ⟨(s.at i).ann, coord.map (·.getD i 0)⟩)
                    depth := coord.length, boxes := box }

/-! ## annotation edits, setters -/

def SaddAnnotation (s : SArr) (k : String) : SArr :=
  if hasKey k s.names then s
  else { s with names := s.names ++ [(k, ())], atoms := s.atoms.map (fun r => { r with ann := r.ann ++ [(k, 0)] }) }

def SsetAnnotation (s : SArr) (k : String) (c : List Tok) : Except Err SArr :=
  if c.length ≠ s.atoms.length then .error .indexError
  else .ok { s with names := insert k () s.names
                    atoms := (List.range s.atoms.length).map (fun i =>
                               { s.at i with ann := insert k (c.getD i 0) (s.at i).ann }) }

def SdelAnnotation (s : SArr) (k : String) : Except Err SArr :=
  if mandatory.contains k then .error unmodelled
  else .ok { s with names := s.names.filter (fun p => p.1 != k)
                    atoms := s.atoms.map (fun r => { r with ann := r.ann.filter (fun p => p.1 != k) }) }

def SsetCoord (s : SArr) (coord : List (List Tok)) : Except Err SArr :=
  if !s.stack && coord.length != 1 then .error unmodelled
  else if !(coord.all (fun c => c.length == s.atoms.length)) then .error .valueError
  else if s.boxes.isSome && coord.length != s.depth then .error .valueError
  else .ok { s with atoms := (List.range s.atoms.length).map (fun i => { s.at i with co := coord.map (·.getD i 0) })
                    depth := coord.length }

def SsetBox (s : SArr) (box : Option (List Tok)) : Except Err SArr :=
  if boxDepthBad box s.depth then .error (boxErr s.stack) else .ok { s with boxes := box }

def SsetBonds (s : SArr) (bs : Option (List Bond)) : Except Err SArr :=
  match bs with
  | none => .ok { s with bonds := none }
  | some l => if bondsValid s.atoms.length l then .ok { s with bonds := some l } else .error unmodelled

def SmkNew (stack : Bool) (n : Nat) (cols : List (String × List Tok)) (coord : List (List Tok))
    (box : Option (List Tok)) (bonds : Option (List Bond)) : Except Err SArr :=
  if !(cols.all (fun p => p.2.length == n)) || !(coord.all (fun c => c.length == n)) then .error unmodelled
  else if !stack && coord.length != 1 then .error unmodelled
  else if boxDepthBad box coord.length then .error (boxErr stack)
  else if bondsBad n bonds then .error unmodelled
  else .ok { stack := stack
             names := cols.foldl (fun d p => insert p.1 () d) mandHdr
             atoms := (List.range n).map (fun i =>
                        ⟨cols.foldl (fun d p => insert p.1 (p.2.getD i 0) d) mandRow, coord.map (·.getD i 0)⟩)
             depth := coord.length, boxes := box, bonds := bonds }

def SequalArr (s t : SArr) : Bool :=
  s.stack == t.stack && s.atoms.length == t.atoms.length && SequalAnnot s t && SequalBonds s t && s.boxes == t.boxes
    && s.depth == t.depth && (List.range s.atoms.length).all (fun i => (s.at i).co == (t.at i).co)

/-! ## the register machine over spec values -/

abbrev SState := List SVal

inductive SOut where
  | val (v : SVal)
  | all
  | bool (b : Bool)
  | err (e : Err)

def absOut : Out → SOut
  | .val v => .val (absVal v)
  | .all => .all
  | .bool b => .bool b
  | .err e => .err e

def sreg (st : SState) (i : Nat) : SVal := st.getD i .none

def sarrOf (st : SState) (i : Nat) : Except Err SArr :=
  match sreg st i with
  | .arr a => .ok a
  | _ => .error unmodelled

def sarrsOf (st : SState) : List Nat → Except Err (List SArr)
  | [] => .ok []
  | i :: r => match sarrOf st i, sarrsOf st r with
    | .ok a, .ok as => .ok (a :: as)
    | _, _ => .error unmodelled

def satomsOf (st : SState) : List Nat → Except Err (List AtomV)
  | [] => .ok []
  | i :: r => match sreg st i, satomsOf st r with
    | .atom a, .ok as => .ok (a :: as)
    | _, _ => .error unmodelled

def sput (st : SState) (d : Nat) (r : Except Err SVal) : SState × SOut :=
  match r with
  | .ok v => (st.set d v, .val v)
  | .error e => (st, .err e)

def sputArr (st : SState) (d : Nat) (r : Except Err SArr) : SState × SOut := sput st d (r.map .arr)

/-- the reference semantics of every protocol operation on lists of atoms -/
def Sstep (st : SState) : Op → SState × SOut
  | .new d stack n cols coord box bonds => sputArr st d (SmkNew stack n cols coord box bonds)
  | .atom d cols c => sput st d (.ok (.atom (mkAtom cols c)))
  | .get d s ix => sput st d ((sarrOf st s).bind (fun a => Sgetitem a ix))
  | .get2 d s i0 i1 => sput st d ((sarrOf st s).bind (fun a => Sgetitem2 a i0 i1))
  | .set s ix v =>
    match (sarrOf st s).bind (fun a => Ssetitem a ix (sreg st v)) with
    | .ok a => (st.set s (.arr a), .all)
    | .error e => (st, .err e)
  | .del s ix => sputArr st s ((sarrOf st s).bind (fun a => Sdelitem a ix))
  | .concat d ss => sputArr st d ((sarrsOf st ss).bind Sconcatenate)
  | .stack d ss => sputArr st d ((sarrsOf st ss).bind SstackArrays)
  | .array d ss => sputArr st d ((satomsOf st ss).bind SarrayOf)
  | .rep d s k toks => sputArr st d ((sarrOf st s).bind (fun a => SrepeatArr a k toks))
  | .tmpl d s coord box => sputArr st d ((sarrOf st s).bind (fun a => SfromTemplate a coord box))
  | .addann s k => sputArr st s ((sarrOf st s).map (fun a => SaddAnnotation a k))
  | .setann s k c => sputArr st s ((sarrOf st s).bind (fun a => SsetAnnotation a k c))
  | .delann s k => sputArr st s ((sarrOf st s).bind (fun a => SdelAnnotation a k))
  | .setcoord s coord => sputArr st s ((sarrOf st s).bind (fun a => SsetCoord a coord))
  | .setbox s box => sputArr st s ((sarrOf st s).bind (fun a => SsetBox a box))
  | .setbonds s bs => sputArr st s ((sarrOf st s).bind (fun a => SsetBonds a bs))
  | .copy d s =>
    match sreg st s with
    | .none => (st, .err unmodelled)
    | v => (st.set d v, .val v)
  | .eq s t =>
    match sarrOf st s, sarrOf st t with
    | .ok a, .ok b => (st, .bool (SequalArr a b))
    | _, _ => (st, .err unmodelled)

def Srun (st : SState) (ops : List Op) : SState := ops.foldl (fun s op => (Sstep s op).1) st

end BiotiteModel.C01

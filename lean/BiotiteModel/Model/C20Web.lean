import BiotiteModel.Model.C20
/-!
# C20 — `WebApp` / `BlastWebApp`: rule bookkeeping on top of the generic `Application` life cycle

Transcribes `webapp.py` (`WebApp.violate_rule`) and the rule / life-cycle part of `blast/webapp.py`
(`_contact`, `_request`, `wait_interval`, `run`, `is_finished`, `evaluate`, `clean_up`) together with the *generic*
`Application.start / get_app_state / join / cancel`, against a scripted clock (`time.time`, `time.sleep` are replaced
inside the harness process) and a scripted server (`requests.get` replaced): the search is READY after `k` more polls;
the submission may be answered "Submitted URI too large".  Times are whole seconds (`Int`).
-/
namespace BiotiteModel.C20.Web
open BiotiteModel.C20

/-- `BlastWebApp._contact_delay`, `_request_delay` (tied to the source by `C20_web_delays_tie`). -/
def contactDelay : Int := 3
def requestDelay : Int := 60

def errRule : Err := .other "RuleViolationError"

structure Web where
  obey : Bool                 -- `obey_rules`
  k : Nat                     -- server: polls still answered WAITING before READY
  tooLarge : Bool             -- server: the submission is answered "Submitted URI too large"
  now : Int := 1000           -- the scripted clock
  lastContact : Int := 0      -- class attribute `BlastWebApp._last_contact`
  lastRequest : Int := 0      -- class attribute `BlastWebApp._last_request`
  state : AppState := .created
  startTime : Int := 0
  sent : Nat := 0             -- HTTP requests sent so far (Put / Get / Delete)
  cleanups : Nat := 0
  hasResult : Bool := false
  deriving DecidableEq, Repr

/-- `WebApp.violate_rule`: raises iff the rules are to be obeyed. -/
def violateRule (w : Web) : Option Err := if w.obey then some errRule else none

/-- `BlastWebApp._contact`: `if now - last_contact < delay: violate_rule(...)`; then `last_contact = now`. -/
def contact (w : Web) : Web × Option Err :=
  if w.now - w.lastContact < contactDelay then
    match violateRule w with
    | some e => (w, some e)
    | none => ({ w with lastContact := w.now }, none)
  else ({ w with lastContact := w.now }, none)

/-- `BlastWebApp._request`, same shape with the 60 s rule. -/
def request (w : Web) : Web × Option Err :=
  if w.now - w.lastRequest < requestDelay then
    match violateRule w with
    | some e => (w, some e)
    | none => ({ w with lastRequest := w.now }, none)
  else ({ w with lastRequest := w.now }, none)

/-- `time.sleep(self.wait_interval())` with `wait_interval() = _contact_delay`. -/
def sleepInterval (w : Web) : Web := { w with now := w.now + contactDelay }

/-- `clean_up()`: one Delete request (no rule bookkeeping). -/
def cleanUp (w : Web) : Web := { w with cleanups := w.cleanups + 1, sent := w.sent + 1 }

/-- `run()`: Put request; "URI too large" → ValueError; `_contact()`; `_request()`; store the RID. -/
def runBody (w : Web) : Web × Option Err :=
  let w := { w with sent := w.sent + 1 }
  if w.tooLarge then (w, some .valueError) else
  match contact w with
  | (w, some e) => (w, some e)
  | (w, none) => request w

/-- `start()` body (after the guard): `try: run() except: CANCELLED; best-effort clean_up(); raise`; RUNNING. -/
def startBody (w : Web) : Web × Res :=
  match runBody w with
  | (w, some e) => (cleanUp { w with state := .cancelled }, .err e)
  | (w, none) => ({ w with startTime := w.now, state := .running }, .ok "")

/-- `is_finished()`: Get SearchInfo (the server counts the poll), `_contact()`, status READY?. -/
def isFinished (w : Web) : Web × Except Err Bool :=
  let ready := w.k = 0
  let w := { w with sent := w.sent + 1, k := w.k - 1 }
  match contact w with
  | (w, some e) => (w, .error e)
  | (w, none) => (w, .ok ready)

/-- `get_app_state()`. -/
def getAppState (w : Web) : Web × Except Err AppState :=
  if w.state = .running then
    match isFinished w with
    | (w, .error e) => (w, .error e)
    | (w, .ok true) => ({ w with state := .finished }, .ok .finished)
    | (w, .ok false) => (w, .ok .running)
  else (w, .ok w.state)

def cancelBody (w : Web) : Web := cleanUp { w with state := .cancelled }

/-- `evaluate()`: Get the XML, `_contact()`, parse (the scripted server always sends well-formed XML). -/
def evaluate (w : Web) : Web × Option Err :=
  contact { w with sent := w.sent + 1 }

/-- The tail of `Application.join` after the poll loop. -/
def joinTail (w : Web) : Web × Res :=
  let w := sleepInterval w
  match evaluate w with
  | (w, some e) => (cleanUp { w with state := .cancelled }, .err e)
  | (w, none) => (cleanUp { w with state := .joined, hasResult := true }, .ok "")

/-- The poll loop of `Application.join`:
`while self.get_app_state() != FINISHED: if timeout is not None and now - start > timeout: cancel(); raise TimeoutError else: sleep`.
`fuel` bounds the number of iterations (the caller passes `k + 1`, enough for the server to become READY). -/
def joinLoop (fuel : Nat) (timeout : Option Int) (w : Web) : Web × Res :=
  match fuel with
  | 0 => (w, .diverges)
  | fuel + 1 =>
    match getAppState w with
    | (w, .error e) => (w, .err e)            -- an exception of `is_finished()` leaves `join` as it is: the run goes on
    | (w, .ok st) =>
      if st = .finished then joinTail w
      else
        match timeout with
        | some t =>
          if w.now - w.startTime > t then (cancelBody w, .err errTimeout)
          else joinLoop fuel timeout (sleepInterval w)
        | none => joinLoop fuel timeout (sleepInterval w)

/-- `join(timeout)` body: `sleep(wait_interval)`, the loop, the tail.  With a timeout the loop needs at most
`timeout / 3 + 2` further rounds, without one at most `k + 1`. -/
def joinBody (w : Web) (timeout : Option Int) : Web × Res :=
  joinLoop (w.k + 2 + (match timeout with | some t => t.toNat | none => 0)) timeout (sleepInterval w)

inductive Call where
  | start | getState | join (timeout : Option Int) | cancel
  | clock (dt : Nat)        -- environment: time passes
  | contact | request | violate     -- the rule layer called directly
  | method (name : String)  -- a guarded getter/setter of BlastWebApp
  deriving DecidableEq, Repr

def blastMro : List String := ["BlastWebApp", "WebApp", "Application"]

def step (w : Web) (c : Call) : Web × Res :=
  match c with
  | .clock dt => ({ w with now := w.now + dt }, .ok "")
  | .contact => match contact w with
    | (w, some e) => (w, .err e)
    | (w, none) => (w, .ok "")
  | .request => match request w with
    | (w, some e) => (w, .err e)
    | (w, none) => (w, .ok "")
  | .violate => match violateRule w with
    | some e => (w, .err e)
    | none => (w, .ok "")
  | .getState => match getAppState w with
    | (w, .error e) => (w, .err e)
    | (w, .ok st) => (w, .ok st.name)
  | .start => if w.state = .created then startBody w else (w, .err .stateError)
  | .join t => if w.state = .running ∨ w.state = .finished then joinBody w t else (w, .err .stateError)
  | .cancel => if w.state = .running ∨ w.state = .finished then (cancelBody w, .ok "") else (w, .err .stateError)
  | .method m =>
    match resolve table blastMro m with
    | some g => if passes g w.state then (w, .ok "") else (w, .err .stateError)
    | none => (w, .noMethod)

def run (w : Web) : List Call → Web
  | [] => w
  | c :: cs => run (step w c).1 cs

end BiotiteModel.C20.Web

import BiotiteModel.Common
/-!
# C07 — hybrid-36 (`structure/io/pdb/hybrid36.pyx`) and the text primitives shared with the PDB model

Strings are `List Char` (Python `str` of ASCII characters).  Numbers are unbounded (`Nat`/`Int`): the
C `int` arithmetic of the Cython code does not overflow for widths ≤ 6 (every intermediate value is
below 2³¹), which is all the PDB format uses (widths 4 and 5); larger widths are a statement about
the algorithm only.
-/
namespace BiotiteModel.C07

/-! ## decimal text (`str(int)`) -/

/-- ASCII of `'0'`, `'A'`, `'a'`, `'9'`, `'Z'`, `'z'` — the `_ASCII_*` constants of hybrid36.pyx
(compared with the regenerated `Gen.C07` values in `Props/C07.lean`). -/
def asciiFirstNumber : Nat := 48
def asciiFirstUpper : Nat := 65
def asciiFirstLower : Nat := 97
def asciiLastNumber : Nat := 57
def asciiLastUpper : Nat := 90
def asciiLastLower : Nat := 122

/-- Decimal digits of `n`, most significant first (`fuel` only bounds the recursion). -/
def natDecAux : Nat → Nat → List Char
  | 0, _ => []
  | f + 1, n => if n < 10 then [Char.ofNat (48 + n)] else natDecAux f (n / 10) ++ [Char.ofNat (48 + n % 10)]

/-- Python `str(n)` for `n ≥ 0`. -/
def natDec (n : Nat) : List Char := natDecAux (n + 1) n

/-- Python / numpy `str(i)` for an integer. -/
def intDec (i : Int) : List Char := if i < 0 then '-' :: natDec i.natAbs else natDec i.toNat

/-! ## Python `int(str)` on ASCII input -/

/-- ASCII characters removed by `str.strip()`. -/
def isWS (c : Char) : Bool :=
  c.toNat == 32 || (9 ≤ c.toNat && c.toNat ≤ 13) || (28 ≤ c.toNat && c.toNat ≤ 31)

def isDig (c : Char) : Bool := 48 ≤ c.toNat && c.toNat ≤ 57

def lstrip (s : List Char) : List Char := s.dropWhile isWS
def rstrip (s : List Char) : List Char := (s.reverse.dropWhile isWS).reverse
def strip (s : List Char) : List Char := rstrip (lstrip s)

/-- One step of the digit scanner: state = (value so far, previous character was a digit). -/
def digStep (st : Option (Nat × Bool)) (c : Char) : Option (Nat × Bool) :=
  match st with
  | none => none
  | some (acc, prev) =>
    if isDig c then some (acc * 10 + (c.toNat - 48), true)
    else if c == '_' && prev then some (acc, false)
    else none

/-- Digits with optional single underscores between them (PEP 515), non-empty. -/
def digitsVal (s : List Char) : Option Nat :=
  match s.foldl digStep (some (0, false)) with
  | some (acc, true) => some acc
  | _ => none

/-- Python `int(s)` for an ASCII string: `none` = `ValueError`. -/
def pyInt? (s : List Char) : Option Int :=
  match strip s with
  | '-' :: r => (digitsVal r).map (fun n => -(n : Int))
  | '+' :: r => (digitsVal r).map (fun n => (n : Int))
  | r => (digitsVal r).map (fun n => (n : Int))

/-! ## hybrid-36 -/

/-- Character of one base-36 digit; `letter0` is the ASCII code of the letter for digit 10. -/
def digitChar (letter0 : Nat) (d : Nat) : Char :=
  if d < 10 then Char.ofNat (asciiFirstNumber + d) else Char.ofNat (d + letter0 - 10)

/-- `_encode_base36`: exactly `w` characters, least significant digit last. -/
def encBase36 (letter0 : Nat) : Nat → Nat → List Char
  | 0, _ => []
  | w + 1, n => encBase36 letter0 w (n / 36) ++ [digitChar letter0 (n % 36)]

/-- `max_hybrid36_number(w)`. -/
def maxNumber (w : Nat) : Nat := 10 ^ w - 1 + 2 * (26 * 36 ^ (w - 1))

/-- `encode_hybrid36(number, length)`. -/
def encodeH36 (number : Int) (w : Nat) : Except Err (List Char) :=
  if number < 0 then .error .valueError
  else if w < 1 then .error .valueError
  else
    let num := number.toNat
    if num < 10 ^ w then .ok (natDec num)
    else
      let num := num - 10 ^ w
      if num < 26 * 36 ^ (w - 1) then .ok (encBase36 asciiFirstUpper w (num + 10 * 36 ^ (w - 1)))
      else
        let num := num - 26 * 36 ^ (w - 1)
        if num < 26 * 36 ^ (w - 1) then .ok (encBase36 asciiFirstLower w (num + 10 * 36 ^ (w - 1)))
        else .error .valueError

/-- Value of one character in `_decode_base36` (no validation: the C code has none). -/
def charVal (letter0 : Nat) (c : Char) : Int :=
  if c.toNat ≤ asciiLastNumber then (c.toNat : Int) - asciiFirstNumber
  else (c.toNat : Int) - letter0 + 10

/-- `_decode_base36`. -/
def decBase36 (letter0 : Nat) (s : List Char) : Int :=
  s.foldl (fun acc c => acc * 36 + charVal letter0 c) 0

/-- `decode_hybrid36(string)` for ASCII strings. -/
def decodeH36 (s : List Char) : Except Err Int :=
  match pyInt? s with
  | some v => .ok v
  | none =>
    let t := strip s
    match t with
    | [] => .error .valueError
    | c :: _ =>
      let len := t.length
      if asciiFirstUpper ≤ c.toNat && c.toNat ≤ asciiLastUpper then
        .ok (decBase36 asciiFirstUpper t - 10 * 36 ^ (len - 1) + 10 ^ len)
      else if asciiFirstLower ≤ c.toNat && c.toNat ≤ asciiLastLower then
        .ok (decBase36 asciiFirstLower t + (26 - 10) * 36 ^ (len - 1) + 10 ^ len)
      else .error .valueError

/-- A canonical hybrid-36 letter string: first character a letter of the given case, the rest
digits or letters of the same case. -/
def isB36 (letter0 : Nat) (c : Char) : Bool :=
  isDig c || (letter0 ≤ c.toNat && c.toNat < letter0 + 26)

def isLetter (letter0 : Nat) (c : Char) : Bool := letter0 ≤ c.toNat && c.toNat < letter0 + 26

def canonicalLetters (letter0 : Nat) (s : List Char) : Bool :=
  match s with
  | [] => false
  | c :: r => isLetter letter0 c && r.all (isB36 letter0)

end BiotiteModel.C07

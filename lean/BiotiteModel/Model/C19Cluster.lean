import BiotiteModel.Model.C19Tree
/-!
# C19 — model of `sequence/phylo/upgma.pyx` and `nj.pyx` over exact rationals

The C arrays (`distances_v`, `is_clustered_v`, `cluster_size_v`, `node_heights`, `nodes`) are
functions `Nat → …`; only positions `< n` are ever read.  float32 arithmetic is modelled as exact
arithmetic in `Rat` (trusted: rounding); the correspondence stream uses matrices on which the
float32 computation is exact.

The in-place `for k` update loops are written as one parallel update: the cells read for `k`
(`[i_min,k]`, `[j_min,k]`, `[i_min,j_min]`) are never among the cells written for another `k'`
(`[i_min,k']`, `[k',i_min]`, with `k' ≠ i_min`, and `k' ≠ j_min` because `j_min` is marked
clustered before the loop).
-/
namespace BiotiteModel.C19

def upd {α : Type} (f : Nat → α) (i : Nat) (v : α) : Nat → α := fun k => if k = i then v else f k

/-- `(i, j)` for `i in range(n)`, `j in range(i)` in scan order. -/
def pairs (n : Nat) : List (Nat × Nat) :=
  (List.range n).flatMap (fun i => (List.range i).map (fun j => (i, j)))

def scanStep (val : Nat → Nat → Rat) (cl : Nat → Bool) (best : Option (Rat × Nat × Nat))
    (ij : Nat × Nat) : Option (Rat × Nat × Nat) :=
  if cl ij.1 || cl ij.2 then best else
  match best with
  | none => some (val ij.1 ij.2, ij.1, ij.2)        -- `dist < MAX_FLOAT` (inputs `>= MAX_FLOAT` are rejected)
  | some (m, _, _) => if val ij.1 ij.2 < m then some (val ij.1 ij.2, ij.1, ij.2) else best

/-- The minimum search: strict `<`, so the first minimal pair in scan order wins. -/
def scanMin (val : Nat → Nat → Rat) (cl : Nat → Bool) (n : Nat) : Option (Rat × Nat × Nat) :=
  (pairs n).foldl (scanStep val cl) none

/-- `np.allclose(distances.T, distances)`: `|a − b| ≤ atol + rtol·|b|` element-wise. -/
def allcloseSym (n : Nat) (D : Nat → Nat → Rat) : Bool :=
  (List.range n).all fun i => (List.range n).all fun j =>
    decide ((if D j i - D i j < 0 then D i j - D j i else D j i - D i j)
      ≤ (1 : Rat) / 100000000 + (1 : Rat) / 100000 * (if D i j < 0 then - D i j else D i j))

def anyNegative (n : Nat) (D : Nat → Nat → Rat) : Bool :=
  (List.range n).any fun i => (List.range n).any fun j => decide (D i j < 0)

/-! ## UPGMA -/

structure UState where
  d : Nat → Nat → Rat       -- distances_v
  cl : Nat → Bool           -- is_clustered_v
  sz : Nat → Nat            -- cluster_size_v
  ht : Nat → Rat            -- node_heights
  nd : Nat → T Rat          -- nodes

def UState.init (D : Nat → Nat → Rat) : UState :=
  { d := D, cl := fun _ => false, sz := fun _ => 1, ht := fun _ => 0, nd := fun i => .leaf i }

/-- One pass of the `while True` body for the minimal pair `(i, j)` at distance `m`. -/
def UState.merge (n : Nat) (s : UState) (m : Rat) (i j : Nat) : UState :=
  let h := m / 2
  let cl' := upd s.cl j true
  let mean := fun k => (s.d i k * (s.sz i : Rat) + s.d j k * (s.sz j : Rat)) / ((s.sz i + s.sz j : Nat) : Rat)
  { d := fun a b =>
      if a = i ∧ b < n ∧ !cl' b ∧ b ≠ i then mean b
      else if b = i ∧ a < n ∧ !cl' a ∧ a ≠ i then mean a
      else s.d a b,
    cl := cl',
    sz := upd s.sz i (s.sz i + s.sz j),
    ht := upd s.ht i h,
    nd := upd s.nd i (.node (.cons (h - s.ht i) (s.nd i) (.cons (h - s.ht j) (s.nd j) .nil))) }

def upgmaStep (n : Nat) (s : UState) : Option UState :=
  match scanMin s.d s.cl n with
  | none => none                                   -- `break`
  | some (m, i, j) => some (s.merge n m i j)

/-- The `while True` loop; `fuel = n` passes always reach the `break` (C19_upgma_leaves). -/
def upgmaLoop (n : Nat) : Nat → UState → UState
  | 0, s => s
  | fuel + 1, s =>
    match upgmaStep n s with
    | none => s
    | some s' => upgmaLoop n fuel s'

/-- `upgma(distances)` for an `n × n` matrix. -/
def upgma (n : Nat) (D : Nat → Nat → Rat) : Except Err (T Rat) :=
  if !allcloseSym n D then .error .valueError
  else if anyNegative n D then .error .valueError
  else if n = 0 then .error .indexError
  else mkTree ((upgmaLoop n n (UState.init D)).nd (n - 1))

/-! ## Neighbour joining -/

structure NState where
  d : Nat → Nat → Rat
  cl : Nat → Bool
  nd : Nat → T Rat
  nrem : Nat                -- n_rem_nodes

def NState.init (n : Nat) (D : Nat → Nat → Rat) : NState :=
  { d := D, cl := fun _ => false, nd := fun i => .leaf i, nrem := n }

/-- `divergence_v[i]`: sum of row `i` over the live columns (the diagonal cell included). -/
def divergence (n : Nat) (s : NState) (i : Nat) : Rat :=
  (List.range n).foldl (fun acc k => if s.cl k then acc else acc + s.d i k) 0

def corrected (n : Nat) (s : NState) (i j : Nat) : Rat :=
  (((s.nrem : Int) - 2 : Int) : Rat) * s.d i j - divergence n s i - divergence n s j

def countClustered (n : Nat) (cl : Nat → Bool) : Nat := ((List.range n).filter cl).length

/-- One pass of the loop body: `inl` = continue with the new state, `inr` = `return Tree(root)`,
`none` = the `break` (falls off the loop, the function returns `None`). -/
def njStep (n : Nat) (s : NState) : Option (NState ⊕ T Rat) :=
  match scanMin (corrected n s) s.cl n with
  | none => none
  | some (_, i, j) =>
    let r : Rat := (((s.nrem : Int) - 2 : Int) : Rat)
    let di := (1 : Rat) / 2 * (s.d i j + 1 / r * (divergence n s i - divergence n s j))
    let dj := (1 : Rat) / 2 * (s.d i j + 1 / r * (divergence n s j - divergence n s i))
    if s.nrem > 3 then
      let cl' := upd s.cl j true
      let nw := fun k => (1 : Rat) / 2 * (s.d i k + s.d j k - s.d i j)
      some (.inl
        { d := fun a b =>
            if a = i ∧ b < n ∧ !cl' b ∧ b ≠ i then nw b
            else if b = i ∧ a < n ∧ !cl' a ∧ a ≠ i then nw a
            else s.d a b,
          cl := cl',
          nd := upd s.nd i (.node (.cons di (s.nd i) (.cons dj (s.nd j) .nil))),
          nrem := n - countClustered n cl' })
    else
      let cl' := upd (upd s.cl i true) j true
      match (List.range n).find? (fun k => !cl' k) with
      | none => none                                  -- `[0][0]` on an empty array: IndexError
      | some k =>
        let dk := (1 : Rat) / 2 * (s.d i k + s.d j k - s.d i j)
        some (.inr (.node (.cons di (s.nd i) (.cons dj (s.nd j) (.cons dk (s.nd k) .nil)))))

def njLoop (n : Nat) : Nat → NState → Option (T Rat)
  | 0, _ => none
  | fuel + 1, s =>
    match njStep n s with
    | none => none
    | some (.inl s') => njLoop n fuel s'
    | some (.inr t) => some t

/-- `neighbor_joining(distances)` for an `n × n` matrix. -/
def neighborJoining (n : Nat) (D : Nat → Nat → Rat) : Except Err (T Rat) :=
  if !allcloseSym n D then .error .valueError
  else if n < 4 then .error .valueError
  else if anyNegative n D then .error .valueError
  else match njLoop n n (NState.init n D) with
    | none => .error (.other "None")
    | some t => mkTree t

end BiotiteModel.C19

import BiotiteModel.Model.C12Gff
/-!
# C12 — part 4: `GenBankFile` as a list of fields over a list of lines

`gbFind`      — `GenBankFile._find_field_indices`
`gbToLines`   — `_to_lines`
`gbSet/gbDel/gbInsert/gbAppend/gbSetField` — `__setitem__/__delitem__/insert/append/set_field`
                (index shifting instead of re-indexing)
`gbGet`       — `__getitem__` (content lines and subfields)
-/
namespace BiotiteModel.C12

abbrev FieldPos := Nat × Nat × Str

def upperC (c : Char) : Char := if 'a' ≤ c ∧ c ≤ 'z' then Char.ofNat (c.toNat - 32) else c
/-- `str.upper()` on ASCII (the driver reports other input as unmodelled). -/
def upper (s : Str) : Str := s.map upperC

def ljust (n : Nat) (s : Str) : Str := s ++ List.replicate (n - s.length) ' '

def gbFindGo : Nat → Option Nat → Str → List Str → List FieldPos
  | _, _, _, [] => []
  | i, start, name, l :: ls =>
    match l with
    | [] => gbFindGo (i + 1) start name ls
    | c :: _ =>
      if c = ' ' then gbFindGo (i + 1) start name ls
      else
        let emit : List FieldPos := match start with | some s => [(s, i, name)] | none => []
        if l.take 2 ≠ ['/', '/'] then emit ++ gbFindGo (i + 1) (some i) (strip (l.take 12)) ls
        else emit ++ gbFindGo (i + 1) start name ls

/-- `_find_field_indices`. -/
def gbFind (lines : List Str) : List FieldPos := gbFindGo 0 none [] lines

structure Gb where
  lines : List Str
  pos : List FieldPos
  deriving DecidableEq

def Gb.empty : Gb := ⟨[['/', '/']], []⟩
def gbRead (text : List Str) : Gb := ⟨text, gbFind text⟩

def zipCols : List Str → List Str → List Str
  | n :: ns, c :: cs => (ljust 12 n ++ c) :: zipCols ns cs
  | _, _ => []

/-- `_to_lines(name, content, subfields)` (repaired: names that do not fit the name column or
start with `//`, subfield names longer than 10 characters, unindented FEATURES/ORIGIN content
lines and empty content are rejected with `ValueError`). -/
def gbToLines (name : Str) (content : List Str) (subs : List (Str × List Str)) : Except Err (List Str) :=
  let name := upper (strip name)
  if name.isEmpty then .error .valueError else
  if 12 < name.length ∨ name.take 2 = ['/', '/'] then .error .valueError else
  let subs := odOfList (subs.map (fun p => (strip (upper p.1), p.2)))
  if subs.any (fun p => decide (10 < p.1.length)) then .error .valueError else
  if (name = "FEATURES".toList ∨ name = "ORIGIN".toList) ∧
      content.any (fun l => !l.isEmpty && l.head? != some ' ') then .error .valueError else
  if name = "FEATURES".toList then .ok (("FEATURES".toList ++ List.replicate 13 ' ' ++ "Location/Qualifiers".toList) :: content)
  else if name = "ORIGIN".toList then .ok ("ORIGIN".toList :: content)
  else
    if content.isEmpty ∨ subs.any (·.2.isEmpty) then .error .valueError else
    let nameCol := (name :: List.replicate (content.length - 1) []) ++
      subs.flatMap (fun p => (' ' :: ' ' :: p.1) :: List.replicate (p.2.length - 1) [])
    let contentCol := content ++ subs.flatMap (·.2)
    .ok (zipCols nameCol contentCol)

/-- `_translate_idx`. -/
def gbIdx (g : Gb) (index : Int) (exclusive : Bool) : Except Err Nat :=
  let n : Int := g.pos.length
  let j := if index < 0 then n + index else index
  if (exclusive ∧ j ≥ n) ∨ (¬ exclusive ∧ j > n) then .error .indexError
  else if j < 0 then .error .indexError   -- `self._field_pos[negative]` would wrap; not generated
  else .ok j.toNat

/-- one `_field_pos` entry moved by `d` lines. -/
def shiftP (d : Int) (p : FieldPos) : FieldPos := (((p.1 : Int) + d).toNat, ((p.2.1 : Int) + d).toNat, p.2.2)

/-- `__setitem__`. -/
def gbSet (g : Gb) (index : Int) (name : Str) (content : List Str) (subs : List (Str × List Str)) : Except Err Gb :=
  match gbIdx g index true with
  | .error e => .error e
  | .ok k =>
    match gbToLines name content subs with
    | .error e => .error e
    | .ok ins =>
      match g.pos[k]? with
      | none => .error .indexError
      | some (start, oldStop, _) =>
        let ls := g.lines.take start ++ ins ++ g.lines.drop oldStop
        let shift : Int := (ins.length : Int) - ((oldStop : Int) - start)
        -- entries after `k` are shifted, entry `k` is replaced
        let pos := g.pos.take k ++ (start, start + ins.length, upper (strip name)) :: (g.pos.drop (k + 1)).map (shiftP shift)
        .ok ⟨ls, pos⟩

/-- `__delitem__`. -/
def gbDel (g : Gb) (index : Int) : Except Err Gb :=
  match gbIdx g index true with
  | .error e => .error e
  | .ok k =>
    match g.pos[k]? with
    | none => .error .indexError
    | some (start, stop, _) =>
      -- entries from `k` on are shifted, then entry `k` is deleted
      let pos := g.pos.take k ++ (g.pos.drop (k + 1)).map (shiftP (-((stop : Int) - start)))
      .ok ⟨g.lines.take start ++ g.lines.drop stop, pos⟩

/-- `insert`. -/
def gbInsert (g : Gb) (index : Int) (name : Str) (content : List Str) (subs : List (Str × List Str)) : Except Err Gb :=
  match gbIdx g index false with
  | .error e => .error e
  | .ok k =>
    match gbToLines name content subs with
    | .error e => .error e
    | .ok ins =>
      let start := if k = 0 then 0 else ((g.pos[k - 1]?).map (fun p => p.2.1)).getD 0
      let ls := g.lines.take start ++ ins ++ g.lines.drop start
      -- entries from `k` on are shifted, the new entry goes in front of them
      .ok ⟨ls, g.pos.take k ++ (start, start + ins.length, upper (strip name)) :: (g.pos.drop k).map (shiftP ins.length)⟩

def gbAppend (g : Gb) (name : Str) (content : List Str) (subs : List (Str × List Str)) : Except Err Gb :=
  gbInsert g g.pos.length name content subs

def gbIndices (g : Gb) (name : Str) : List Nat :=
  (g.pos.zipIdx.filter (fun p => p.1.2.2 = upper (strip name))).map (·.2)

/-- `set_field`. -/
def gbSetField (g : Gb) (name : Str) (content : List Str) (subs : List (Str × List Str)) : Except Err Gb :=
  match gbIndices g name with
  | [] => gbAppend g (upper name) content subs
  | [i] => gbSet g i (upper name) content subs
  | _ => .error .invalidFile

/-- `__getitem__`: `(name, content, subfields)`. -/
def gbGet (g : Gb) (index : Int) : Except Err (Str × List Str × List (Str × List Str)) :=
  match gbIdx g index true with
  | .error e => .error e
  | .ok k =>
    match g.pos[k]? with
    | none => .error .indexError
    | some (start, stop, name) =>
      if name = "FEATURES".toList ∨ name = "ORIGIN".toList then
        .ok (name, sliceL g.lines (start + 1) stop, [])
      else
        -- subfield header lines inside (start, stop)
        let body := (sliceL g.lines (start + 1) stop).zipIdx
        let hdrs := (body.filter (fun p => !p.1.isEmpty && !(strip (p.1.take 12)).isEmpty)).map (fun p => p.2 + start + 1)
        let cut (a b : Nat) : List Str := (sliceL g.lines a b).map (·.drop 12)
        let rec subsOf : List Nat → List (Str × List Str)
          | [] => []
          | [a] => [(strip ((g.lines.getD a []).take 12), cut a stop)]
          | a :: b :: r => (strip ((g.lines.getD a []).take 12), cut a b) :: subsOf (b :: r)
        let firstStop := match hdrs with | a :: _ => a | [] => stop
        .ok (name, cut start firstStop, odOfList (subsOf hdrs))

end BiotiteModel.C12

import BiotiteModel.Common
/-!
# C14 — cell-list neighbour search (model of `structure/celllist.pyx`)

Executable model over `Rat` (core Lean, no Mathlib).  Coordinates, cell size, radii and box
lengths are rationals; every float32 operation of the real code is modelled as the exact
operation (the *partial* label of C14: float32 rounding is not modelled; the exact
correspondence stream only uses inputs on which float32 arithmetic is exact).

Modelled op by op:
* `__cinit__`: the error order (`_check_coord` of the selected coordinates, `cell_size <= 0`),
  `move_inside_box` + `repeat_box_coord` for an orthorhombic box, min/max origin,
  `cell_count = trunc((max-min)/cs + 1)`, cell assignment of every selected atom with
  `_get_cell_index` (C cast = truncation toward zero), `_max_cell_length`;
* `_find_adjacent_atoms`: the window scan `range(i-r, i+r+1)` with bounds clipping against the grid;
* `_get_atoms_in_cells`: the `int` result-buffer length `(2r+1)**3 * max_cell_length`
  (C `int`, wraps: negative -> `ValueError` from numpy — the known defect);
* `get_atoms`: `ceil(radius/cs)`, the filter `sq_dist <= sq_radius`;
* `_post_process`: `index % orig_length` when periodic, `_as_mask`;
* `_prepare_vectorization`: radius checks, scalar vs per-query radii;
* `create_adjacency_matrix`.
-/
namespace BiotiteModel.C14

structure V3 where
  x : Rat
  y : Rat
  z : Rat
  deriving DecidableEq, Repr

structure I3 where
  i : Int
  j : Int
  k : Int
  deriving DecidableEq, Repr

/-- C cast `<int>` of a (finite, in-range) float: truncation toward zero. -/
def truncQ (q : Rat) : Int := Int.tdiv q.num q.den

/-- One axis of `_get_cell_index`: `<int>((x - min) / cellsize)`. -/
def cellIdx1 (mn cs x : Rat) : Int := truncQ ((x - mn) / cs)

def cellIdx (mn : V3) (cs : Rat) (p : V3) : I3 :=
  ⟨cellIdx1 mn.x cs p.x, cellIdx1 mn.y cs p.y, cellIdx1 mn.z cs p.z⟩

/-- `squared_distance(x1,y1,z1, x2,y2,z2)` with `q` the query point and `p` the atom. -/
def sqDist (q p : V3) : Rat :=
  (p.x - q.x) * (p.x - q.x) + (p.y - q.y) * (p.y - q.y) + (p.z - q.z) * (p.z - q.z)

/-- `np.nanmin` over a non-empty column given as first element + rest. -/
def lmin : Rat → List Rat → Rat
  | m, [] => m
  | m, x :: xs => lmin (min m x) xs

def lmax : Rat → List Rat → Rat
  | m, [] => m
  | m, x :: xs => lmax (max m x) xs

/-! ## Periodicity (orthorhombic box `diag(Lx, Ly, Lz)`) -/

/-- `move_inside_box` on one axis: `((x / L) % 1) * L` (Python `%`: result in `[0,1)`). -/
def wrap1 (L x : Rat) : Rat := (x / L - ((x / L).floor : Int)) * L

def wrapV (b p : V3) : V3 := ⟨wrap1 b.x p.x, wrap1 b.y p.y, wrap1 b.z p.z⟩

/-- The translation order of `repeat_box_coord`: the central box first, then
`(i,j,k)` in `range(-1,2)³` lexicographically without `(0,0,0)`. -/
def shifts : List I3 :=
  ⟨0, 0, 0⟩ ::
  ([-1, 0, 1].flatMap fun i => [-1, 0, 1].flatMap fun j => [-1, 0, 1].map fun k => (⟨i, j, k⟩ : I3)).filter
    (fun s => s ≠ ⟨0, 0, 0⟩)

def shiftV (b : V3) (s : I3) (p : V3) : V3 :=
  ⟨p.x + s.i * b.x, p.y + s.j * b.y, p.z + s.k * b.z⟩

/-- `repeat_box_coord(coord, box)[0]` -/
def replicate (b : V3) (ps : List V3) : List V3 :=
  shifts.flatMap fun s => ps.map (shiftV b s)

/-! ## The cell list -/

structure CL where
  /-- `_coord`: all coordinates incl. the 26 periodic copies when periodic -/
  coord : List V3
  /-- `_orig_length` -/
  n : Nat
  /-- `_selection` (all `true` when no selection was given) -/
  sel : List Bool
  cs : Rat
  mn : V3
  mx : V3
  /-- `some (Lx,Ly,Lz)` iff periodic -/
  box : Option V3
  deriving Repr

namespace CL

/-- `cell_count = (((max_coord - min_coord) / cell_size) + 1).astype(int)` -/
def dims (c : CL) : I3 :=
  ⟨truncQ ((c.mx.x - c.mn.x) / c.cs + 1), truncQ ((c.mx.y - c.mn.y) / c.cs + 1),
   truncQ ((c.mx.z - c.mn.z) / c.cs + 1)⟩

/-- `self._selection[atom_array_i % self._orig_length]` -/
def selected (c : CL) (t : Nat) : Bool := c.sel[t % c.n]? == some true

def cellOf (c : CL) (p : V3) : I3 := cellIdx c.mn c.cs p

/-- The C array stored in `_cells[i,j,k]`: the selected atoms assigned to that cell, ascending. -/
def cellContent (c : CL) (cell : I3) : List (V3 × Nat) :=
  c.coord.zipIdx.filter fun pt => c.selected pt.2 && decide (c.cellOf pt.1 = cell)

/-- `range(lo, hi)` over C ints. -/
def irange (lo hi : Int) : List Int := (List.range (hi - lo).toNat).map fun (d : Nat) => lo + (d : Int)

/-- `_find_adjacent_atoms` for one (finite) query position: the window scan with clipping. -/
def scan (c : CL) (q : V3) (cr : Int) : List (V3 × Nat) :=
  let qi := c.cellOf q
  let d := c.dims
  (irange (qi.i - cr) (qi.i + cr + 1)).flatMap fun ai =>
    if 0 ≤ ai ∧ ai < d.i then
      (irange (qi.j - cr) (qi.j + cr + 1)).flatMap fun aj =>
        if 0 ≤ aj ∧ aj < d.j then
          (irange (qi.k - cr) (qi.k + cr + 1)).flatMap fun ak =>
            if 0 ≤ ak ∧ ak < d.k then c.cellContent ⟨ai, aj, ak⟩ else []
        else []
    else []

def inGrid (d cell : I3) : Bool :=
  decide (0 ≤ cell.i ∧ cell.i < d.i ∧ 0 ≤ cell.j ∧ cell.j < d.j ∧ 0 ≤ cell.k ∧ cell.k < d.k)

def inWindow (qi cell : I3) (cr : Int) : Bool :=
  decide (qi.i - cr ≤ cell.i ∧ cell.i ≤ qi.i + cr ∧ qi.j - cr ≤ cell.j ∧ cell.j ≤ qi.j + cr ∧
          qi.k - cr ≤ cell.k ∧ cell.k ≤ qi.k + cr)

/-- Set-level meaning of `scan` (proved equivalent in `Proofs/C14.lean`, `mem_scan_iff`);
used by the driver for large windows. -/
def scanFast (c : CL) (q : V3) (cr : Int) : List (V3 × Nat) :=
  let qi := c.cellOf q
  let d := c.dims
  c.coord.zipIdx.filter fun pt =>
    c.selected pt.2 && inGrid d (c.cellOf pt.1) && inWindow qi (c.cellOf pt.1) cr

/-- Move the query inside the box when periodic. -/
def prepQ (c : CL) (q : V3) : V3 :=
  match c.box with
  | some b => wrapV b q
  | none => q

/-- `_post_process`: `indices[indices != -1] %= orig_length` when periodic. -/
def post (c : CL) (l : List Nat) : List Nat :=
  match c.box with
  | some _ => l.map (· % c.n)
  | none => l

/-- `np.ceil(radius / cellsize)` -/
def cellRadius (c : CL) (r : Rat) : Int := (r / c.cs).ceil

/-- `get_atoms_in_cells` for one query. -/
def cellsWith (c : CL) (sc : CL → V3 → Int → List (V3 × Nat)) (q : V3) (cr : Int) : List Nat :=
  c.post ((sc c (c.prepQ q) cr).map (·.2))

/-- `get_atoms` for one query: scan with `ceil(r/cs)`, then `sq_dist <= sq_radius`. -/
def atomsWith (c : CL) (sc : CL → V3 → Int → List (V3 × Nat)) (q : V3) (r : Rat) : List Nat :=
  let q' := c.prepQ q
  c.post (((sc c q' (c.cellRadius r)).filter fun pt => decide (sqDist q' pt.1 ≤ r * r)).map (·.2))

def cellsOne (c : CL) := c.cellsWith scan
def atomsOne (c : CL) := c.atomsWith scan

/-- `_as_mask`: row of the boolean matrix. -/
def asMask (c : CL) (idx : List Nat) : List Bool := (List.range c.n).map fun t => idx.contains t

/-- `_max_cell_length` -/
def maxCellLen (c : CL) : Nat :=
  let cells := (c.coord.zipIdx.filter fun pt => c.selected pt.2).map fun pt => c.cellOf pt.1
  cells.foldl (fun m ci => max m (cells.count ci)) 0

end CL

/-- Store into a C `int`. -/
def wrap32 (x : Int) : Int := (x + 2 ^ 31) % 2 ^ 32 - 2 ^ 31

/-- Outcome of the result-buffer allocation in `_get_atoms_in_cells`. -/
inductive Guard where
  | fits        -- length < 2^31: the intended behaviour
  | negative    -- wrapped negative: numpy raises ValueError (known defect)
  | wrapped     -- wrapped to a wrong non-negative length: unchecked writes (not modelled)
  deriving DecidableEq, Repr

def CL.bufLen (c : CL) (maxcr : Int) : Int := (2 * maxcr + 1) ^ 3 * (c.maxCellLen : Int)

def CL.guard (c : CL) (maxcr : Int) : Guard :=
  if c.bufLen maxcr < 2 ^ 31 then .fits
  else if wrap32 (c.bufLen maxcr) < 0 then .negative
  else .wrapped

/-- scalar radius vs one radius per query -/
inductive Rad (α : Type) where
  | scalar (r : α)
  | multi (rs : List α)
  deriving Repr

def Rad.expand {α : Type} (m : Nat) : Rad α → List α
  | .scalar r => List.replicate m r
  | .multi rs => rs

/-- `_prepare_vectorization` radius checks (`ValueError`). -/
def Rad.check {α : Type} (m : Nat) (neg : α → Bool) : Rad α → Except Err Unit
  | .scalar r => if neg r then .error .valueError else .ok ()
  | .multi rs => if rs.length ≠ m then .error .valueError
                 else if rs.any neg then .error .valueError else .ok ()

/-- `_prepare_vectorization`: an array of radii with a single position is a `ValueError`. -/
def Rad.okForSingle {α : Type} : Rad α → Bool
  | .scalar _ => true
  | .multi _ => false

def imax : List Int → Int
  | [] => 0
  | x :: xs => xs.foldl max x

/-- `max_cell_radius`: `np.max(cell_radii)` for per-query radii, `cell_radii[0]` otherwise. -/
def maxRadius (crs : List Int) : Int := imax crs

namespace CL

/-- `get_atoms` for one query with an explicitly given cell radius (the value stored in `cell_radii`). -/
def atomsWithCr (c : CL) (sc : CL → V3 → Int → List (V3 × Nat)) (q : V3) (r : Rat) (cr : Int) : List Nat :=
  let q' := c.prepQ q
  c.post (((sc c q' cr).filter fun pt => decide (sqDist q' pt.1 ≤ r * r)).map (·.2))

/-- `np.ceil(radius / cellsize).astype(np.int32)` for a value beyond int32: the float→int32 cast gives
`INT_MIN` (x86 `cvttss2si`; formally undefined) — the window `range(i-r, i+r+1)` is then empty. -/
def castCr (cr : Int) : Int := if cr ≥ 2 ^ 31 then -(2 ^ 31) else cr

/-- number of indices `_find_adjacent_atoms` writes for one query -/
def scanLen (c : CL) (sc : CL → V3 → Int → List (V3 × Nat)) (q : V3) (cr : Int) : Nat :=
  (sc c (c.prepQ q) cr).length

/-- The result buffer length wrapped to a *non-negative* wrong value `L`: the rows are right as long as no
query writes more than `L` indices; otherwise the code writes past the row (unchecked) — not modelled. -/
def wrappedAnswer (c : CL) (sc : CL → V3 → Int → List (V3 × Nat)) (qs : List V3) (crs : List Int) (maxcr : Int)
    (rows : List (List Nat)) : Option (Except Err (List (List Nat))) :=
  if ((qs.zip crs).all fun qr => decide ((c.scanLen sc qr.1 qr.2 : Int) ≤ wrap32 (c.bufLen maxcr))) then some (.ok rows)
  else none

/-- `get_atoms_in_cells` with a cell radius beyond int32: a scalar is refused by `np.full(…, dtype=int32)`
(`OverflowError`), an (int64) array is wrapped by `astype(np.int32)`. -/
def cellsHuge (c : CL) (sc : CL → V3 → Int → List (V3 × Nat)) (qs : List V3) (rad : Rad Int) :
    Option (Except Err (List (List Nat))) :=
  match rad with
  | .scalar _ => some (.error .overflowError)
  | .multi rs =>
    let crs := rs.map wrap32
    let rows := (qs.zip crs).map fun qr => c.cellsWith sc qr.1 qr.2
    match c.guard (maxRadius crs) with
    | .fits => some (.ok rows)
    | .negative => some (.error .valueError)
    | .wrapped => c.wrappedAnswer sc qs crs (maxRadius crs) rows

/-- `get_atoms` with `radius / cell_size ≥ 2^31`: a scalar radius is refused (`int(np.ceil(…))` does not fit
`np.full(…, dtype=int32)`: `OverflowError`); per-query radii are cast silently (`castCr`): those queries
return nothing — the known defect `C14/per-query-radius/…`. -/
def atomsHuge (c : CL) (sc : CL → V3 → Int → List (V3 × Nat)) (qs : List V3) (rad : Rad Rat) :
    Option (Except Err (List (List Nat))) :=
  match rad with
  | .scalar _ => some (.error .overflowError)
  | .multi rs =>
    let crs := rs.map fun r => castCr (c.cellRadius r)
    let rows := (qs.zip rs).map fun qr => c.atomsWithCr sc qr.1 qr.2 (castCr (c.cellRadius qr.2))
    match c.guard (maxRadius crs) with
    | .fits => some (.ok rows)
    | .negative => some (.error .valueError)
    | .wrapped => c.wrappedAnswer sc qs crs (maxRadius crs) rows

/-- Batch `get_atoms_in_cells` (index sets per query).  `none` only where the code writes past its
(wrapped, too short) result buffer. -/
def cellsBatchWith (c : CL) (sc : CL → V3 → Int → List (V3 × Nat)) (qs : List V3) (rad : Rad Int) :
    Option (Except Err (List (List Nat))) :=
  if qs.isEmpty then some (.ok []) else
  match rad.check qs.length (fun r => decide (r < 0)) with
  | .error e => some (.error e)
  | .ok () =>
    let crs := rad.expand qs.length
    if crs.any (fun r => decide (r ≥ 2 ^ 31)) then c.cellsHuge sc qs rad else
    match c.guard (maxRadius crs) with
    | .fits => some (.ok ((qs.zip crs).map fun qr => c.cellsWith sc qr.1 qr.2))
    | .negative => some (.error .valueError)
    | .wrapped => c.wrappedAnswer sc qs crs (maxRadius crs) ((qs.zip crs).map fun qr => c.cellsWith sc qr.1 qr.2)

/-- Batch `get_atoms`. -/
def atomsBatchWith (c : CL) (sc : CL → V3 → Int → List (V3 × Nat)) (qs : List V3) (rad : Rad Rat) :
    Option (Except Err (List (List Nat))) :=
  if qs.isEmpty then some (.ok []) else
  match rad.check qs.length (fun r => decide (r < 0)) with
  | .error e => some (.error e)
  | .ok () =>
    let rs := rad.expand qs.length
    let crs := rs.map c.cellRadius
    if crs.any (fun r => decide (r ≥ 2 ^ 31)) then c.atomsHuge sc qs rad else
    match c.guard (maxRadius crs) with
    | .fits => some (.ok ((qs.zip rs).map fun qr => c.atomsWith sc qr.1 qr.2))
    | .negative => some (.error .valueError)
    | .wrapped => c.wrappedAnswer sc qs crs (maxRadius crs) ((qs.zip rs).map fun qr => c.atomsWith sc qr.1 qr.2)

def cellsBatch (c : CL) := c.cellsBatchWith scan
def atomsBatch (c : CL) := c.atomsBatchWith scan

/-- Scatter the rows computed for the selected atoms into an `n`-row matrix
(`matrix[selection, :] = ...`); unselected rows stay empty. -/
def scatter : List Bool → List (List Nat) → List (List Nat)
  | [], _ => []
  | false :: ss, rows => [] :: scatter ss rows
  | true :: ss, r :: rows => r :: scatter ss rows
  | true :: ss, [] => [] :: scatter ss []

/-- `create_adjacency_matrix(threshold)`: per row the set of `true` columns. -/
def adjacencyWith (c : CL) (sc : CL → V3 → Int → List (V3 × Nat)) (thr : Rat) :
    Option (Except Err (List (List Nat))) :=
  if thr < 0 then some (.error .valueError) else
  let base := c.coord.take c.n
  let qs := (base.zip c.sel).filterMap fun ps => if ps.2 then some ps.1 else none
  match c.atomsBatchWith sc qs (.scalar thr) with
  | some (.ok rows) => some (.ok (scatter c.sel rows))
  | r => r

def adjacency (c : CL) := c.adjacencyWith scan

end CL

/-- `_check_coord(coord)` / `_check_coord(coord[selection])` (numpy raises `IndexError` for a
boolean mask of the wrong length). -/
def selError (coords : List V3) (sel : Option (List Bool)) : Option Err :=
  match sel with
  | none => if coords.isEmpty then some .valueError else none
  | some s => if s.length ≠ coords.length then some .indexError
              else if s.any id then none else some .valueError

def boxOk (box : Option V3) : Bool :=
  match box with
  | some b => decide (0 < b.x ∧ 0 < b.y ∧ 0 < b.z)
  | none => true

/-- The coordinates `__cinit__` bins: the input, or moved inside the box and replicated. -/
def allCoords (coords : List V3) (box : Option V3) : List V3 :=
  match box with
  | some b => replicate b (coords.map (wrapV b))
  | none => coords

/-- `_selection`, or "everything" when no selection was given. -/
def selMask (sel : Option (List Bool)) (n : Nat) : List Bool :=
  match sel with
  | some s => s
  | none => List.replicate n true

def build (coords : List V3) (cs : Rat) (box : Option V3) (sel : Option (List Bool)) (p : V3) (ps : List V3) : CL :=
  { coord := allCoords coords box, n := coords.length,
    sel := selMask sel coords.length,
    cs := cs,
    mn := ⟨lmin p.x (ps.map (·.x)), lmin p.y (ps.map (·.y)), lmin p.z (ps.map (·.z))⟩,
    mx := ⟨lmax p.x (ps.map (·.x)), lmax p.y (ps.map (·.y)), lmax p.z (ps.map (·.z))⟩,
    box := box }

/-- `CellList.__cinit__(coords, cell_size, periodic, box, selection)`.
`box = some (Lx,Ly,Lz)`: periodic with an orthorhombic box (lengths > 0, else not modelled: `none`). -/
def mk (coords : List V3) (cs : Rat) (box : Option V3) (sel : Option (List Bool)) :
    Option (Except Err CL) :=
  match selError coords sel with
  | some e => some (.error e)
  | none =>
    if boxOk box = false then none else
    if cs ≤ 0 then some (.error .valueError) else
    match allCoords coords box with
    | [] => some (.error .valueError)
    | p :: ps => some (.ok (build coords cs box sel p ps))

/-! ## Periodicity with a general (invertible) box matrix

`box[0], box[1], box[2]` are the rows.  `move_inside_box`: `fractions = coord @ inv(box)`, `fractions % 1`,
`@ box`; `repeat_box_coord`: add `i*box[0] + j*box[1] + k*box[2]`.  The cell list built for such a box
is an ordinary (non-periodic, `box := none`) cell list over the moved-inside + replicated coordinates with
`n` = original length; the periodic query moves the query point inside first and maps positions `% n`. -/

structure M3 where
  a : V3
  b : V3
  c : V3
  deriving DecidableEq, Repr

def M3.det (B : M3) : Rat :=
  B.a.x * (B.b.y * B.c.z - B.b.z * B.c.y) - B.a.y * (B.b.x * B.c.z - B.b.z * B.c.x) +
  B.a.z * (B.b.x * B.c.y - B.b.y * B.c.x)

/-- `numpy.linalg.inv(box)` as adjugate / determinant. -/
def M3.inv (B : M3) : M3 :=
  let d := B.det
  ⟨⟨(B.b.y * B.c.z - B.b.z * B.c.y) / d, (B.a.z * B.c.y - B.a.y * B.c.z) / d, (B.a.y * B.b.z - B.a.z * B.b.y) / d⟩,
   ⟨(B.b.z * B.c.x - B.b.x * B.c.z) / d, (B.a.x * B.c.z - B.a.z * B.c.x) / d, (B.a.z * B.b.x - B.a.x * B.b.z) / d⟩,
   ⟨(B.b.x * B.c.y - B.b.y * B.c.x) / d, (B.a.y * B.c.x - B.a.x * B.c.y) / d, (B.a.x * B.b.y - B.a.y * B.b.x) / d⟩⟩

/-- row vector times matrix: `np.matmul(v, M)` -/
def vecMul (v : V3) (M : M3) : V3 :=
  ⟨v.x * M.a.x + v.y * M.b.x + v.z * M.c.x, v.x * M.a.y + v.y * M.b.y + v.z * M.c.y,
   v.x * M.a.z + v.y * M.b.z + v.z * M.c.z⟩

/-- `fractions % 1` -/
def fracV (f : V3) : V3 := ⟨f.x - (f.x.floor : Int), f.y - (f.y.floor : Int), f.z - (f.z.floor : Int)⟩

/-- `move_inside_box(coord, box)` -/
def wrapG (B : M3) (p : V3) : V3 := vecMul (fracV (vecMul p B.inv)) B

/-- one translation of `repeat_box_coord` -/
def shiftG (B : M3) (s : I3) (p : V3) : V3 :=
  ⟨p.x + s.i * B.a.x + s.j * B.b.x + s.k * B.c.x, p.y + s.i * B.a.y + s.j * B.b.y + s.k * B.c.y,
   p.z + s.i * B.a.z + s.j * B.b.z + s.k * B.c.z⟩

def replicateG (B : M3) (ps : List V3) : List V3 :=
  shifts.flatMap fun s => ps.map (shiftG B s)

def allCoordsG (coords : List V3) (B : M3) : List V3 := replicateG B (coords.map (wrapG B))

def buildG (coords : List V3) (cs : Rat) (B : M3) (sel : Option (List Bool)) (p : V3) (ps : List V3) : CL :=
  { coord := allCoordsG coords B, n := coords.length,
    sel := selMask sel coords.length,
    cs := cs,
    mn := ⟨lmin p.x (ps.map (·.x)), lmin p.y (ps.map (·.y)), lmin p.z (ps.map (·.z))⟩,
    mx := ⟨lmax p.x (ps.map (·.x)), lmax p.y (ps.map (·.y)), lmax p.z (ps.map (·.z))⟩,
    box := none }

/-- `CellList(coords, cs, periodic=True, box=B, selection)` for a general box matrix
(singular box: `numpy.linalg.inv` raises `LinAlgError`). -/
def mkG (coords : List V3) (cs : Rat) (B : M3) (sel : Option (List Bool)) : Option (Except Err CL) :=
  match selError coords sel with
  | some e => some (.error e)
  | none =>
    if B.det = 0 then some (.error (.other "LinAlgError")) else
    if cs ≤ 0 then some (.error .valueError) else
    match allCoordsG coords B with
    | [] => some (.error .valueError)
    | p :: ps => some (.ok (buildG coords cs B sel p ps))

namespace CL

/-- periodic `get_atoms` for one query with a general box: move the query inside, query the
replicated array, `% n`. -/
def atomsOneG (c : CL) (B : M3) (q : V3) (r : Rat) : List Nat := (c.atomsOne (wrapG B q) r).map (· % c.n)

def cellsOneG (c : CL) (B : M3) (q : V3) (R : Int) : List Nat := (c.cellsOne (wrapG B q) R).map (· % c.n)

def modRows (c : CL) (r : Option (Except Err (List (List Nat)))) : Option (Except Err (List (List Nat))) :=
  match r with
  | some (.ok rows) => some (.ok (rows.map fun row => row.map (· % c.n)))
  | r => r

def atomsBatchGWith (c : CL) (sc : CL → V3 → Int → List (V3 × Nat)) (B : M3) (qs : List V3) (rad : Rad Rat) :=
  c.modRows (c.atomsBatchWith sc (qs.map (wrapG B)) rad)

def cellsBatchGWith (c : CL) (sc : CL → V3 → Int → List (V3 × Nat)) (B : M3) (qs : List V3) (rad : Rad Int) :=
  c.modRows (c.cellsBatchWith sc (qs.map (wrapG B)) rad)

/-- periodic `create_adjacency_matrix` (general box): the stored, already moved-inside coordinates of the
central image are the query points (and are moved inside once more by `get_atoms`). -/
def adjacencyGWith (c : CL) (sc : CL → V3 → Int → List (V3 × Nat)) (B : M3) (thr : Rat) :
    Option (Except Err (List (List Nat))) :=
  if thr < 0 then some (.error .valueError) else
  let base := c.coord.take c.n
  let qs := (base.zip c.sel).filterMap fun ps => if ps.2 then some ps.1 else none
  match c.atomsBatchGWith sc B qs (.scalar thr) with
  | some (.ok rows) => some (.ok (scatter c.sel rows))
  | r => r

end CL

/-! ## which box is in effect (`__cinit__`, `if periodic:` block) -/

/-- `periodic=False`: no box at all (`none`).  Otherwise the explicit `box` argument overrides the
AtomArray's own box; with neither, `ValueError("AtomArray must have a box to enable periodicity")`. -/
def chooseBox {β : Type} (periodic : Bool) (expl own : Option β) : Option (Except Err β) :=
  if periodic = false then none else
  match expl with
  | some b => some (.ok b)
  | none =>
    match own with
    | some b => some (.ok b)
    | none => some (.error .valueError)

end BiotiteModel.C14

import BiotiteModel.Common
/-!
# C05 — BinaryCIF encodings (model of `structure/io/pdbx/encoding.pyx`)

Integer arrays are `List Int` together with the numpy dtype they live in; every place
where the real code stores a value into a fixed-width C variable or numpy array is an
explicit `wrap`.  Import-free and executable: the same definitions drive the
correspondence check (`Driver/C05.lean`).
-/
namespace BiotiteModel.C05

/-- Integer dtypes of BinaryCIF (`TypeCode` 1..6) plus `int64`, which numpy arrays often
have and which `TypeCode.from_dtype` maps to INT32. -/
inductive DType where
  | i8 | i16 | i32 | u8 | u16 | u32 | i64
  deriving DecidableEq, Repr

def DType.bits : DType → Nat
  | .i8 | .u8 => 8 | .i16 | .u16 => 16 | .i32 | .u32 => 32 | .i64 => 64

def DType.signed : DType → Bool
  | .i8 | .i16 | .i32 | .i64 => true
  | _ => false

def DType.lo (t : DType) : Int := if t.signed then -(2 ^ (t.bits - 1) : Int) else 0
def DType.hi (t : DType) : Int := if t.signed then 2 ^ (t.bits - 1) - 1 else 2 ^ t.bits - 1

def DType.inRange (t : DType) (x : Int) : Prop := t.lo ≤ x ∧ x ≤ t.hi
instance (t : DType) (x : Int) : Decidable (t.inRange x) := by unfold DType.inRange; infer_instance

/-- Two's-complement store of `x` into dtype `t` (C cast / numpy `astype`). -/
def wrap (t : DType) (x : Int) : Int := (x - t.lo) % (2 ^ t.bits : Int) + t.lo

/-- `TypeCode.from_dtype`: the BinaryCIF type an array of dtype `t` is stored as. -/
def DType.supported : DType → DType
  | .i64 => .i32
  | t => t

def DType.ofString? : String → Option DType
  | "i8" => some .i8 | "i16" => some .i16 | "i32" => some .i32
  | "u8" => some .u8 | "u16" => some .u16 | "u32" => some .u32 | "i64" => some .i64
  | _ => none

/-- `_safe_cast(array, dtype)`: identity if the dtype is already right, otherwise a range
check (`ValueError`) followed by `astype`. -/
def safeCast (src dst : DType) (xs : List Int) : Except Err (List Int) :=
  if src = dst then .ok xs
  else if xs.all (fun x => decide (dst.inRange x)) then .ok xs
  else .error .valueError

/-! ## Run-length encoding -/

/-- The loop of `RunLengthEncoding._encode` after the first element has been read:
`v` is the current value (a C `int`), `n` its run length so far. -/
def rleLoop : Int → Nat → List Int → List Int
  | v, n, [] => [v, (n : Int)]
  | v, n, x :: xs =>
    if wrap .i32 x = v then rleLoop v (n + 1) xs
    else v :: (n : Int) :: rleLoop (wrap .i32 x) 1 xs

/-- `RunLengthEncoding(src_size, src_type).encode(data)` with `data` of dtype `t`.
`srcSize = none` means "determine from the data". -/
def rleEncode (t : DType) (srcSize : Option Nat) (xs : List Int) : Except Err (List Int) :=
  match srcSize with
  | some n => if n ≠ xs.length then .error .indexError else go
  | none => go
where
  go : Except Err (List Int) := do
    let ys ← safeCast t t.supported xs
    match ys with
    | [] => .error .indexError            -- `data[0]` on an empty memoryview
    | y :: _ => .ok (rleLoop (wrap .i32 y) 0 ys)

/-- Expansion of `(value, repeat)` pairs; values are stored into dtype `t`. -/
def rleExpand (t : DType) : List Int → List Int
  | v :: r :: rest => List.replicate r.toNat (wrap t (wrap .i32 v)) ++ rleExpand t rest
  | _ => []

/-- `RunLengthEncoding(src_size, src_type=t).decode(data)`; the output buffer has length
`srcSize` (zero-initialised, slices clipped), or the sum of the run lengths.
Negative run lengths are outside the model (`none`). -/
def rleDecode (t : DType) (srcSize : Option Nat) (data : List Int) : Option (Except Err (List Int)) :=
  if data.length % 2 ≠ 0 then some (.error .valueError)
  else if (pairsNeg data) then none
  else
    let full := rleExpand t data
    match srcSize with
    | none => some (.ok full)
    | some n => some (.ok ((full ++ List.replicate (n - full.length) 0).take n))
where
  pairsNeg : List Int → Bool
    | _ :: r :: rest => r < 0 || pairsNeg rest
    | _ => false

/-! ## Delta encoding -/

/-- `np.diff(ys, prepend=0).astype(int32)`: the prepended Python `0` makes numpy compute the
differences in int64 (no wrap in the source type `t`), only the final cast wraps. -/
def diffsW (_t : DType) : Int → List Int → List Int
  | _, [] => []
  | prev, y :: ys => wrap .i32 (y - prev) :: diffsW _t y ys

/-- `np.cumsum(ds, dtype=t)`. -/
def cumsumW (t : DType) : Int → List Int → List Int
  | _, [] => []
  | acc, d :: ds => let a := wrap t (acc + d); a :: cumsumW t a ds

/-- `DeltaEncoding(src_type=None, origin=None).encode(data)`, `data` of dtype `t`.
Returns the origin that was determined and the int32 differences. -/
def deltaEncode (t : DType) (xs : List Int) : Except Err (Int × List Int) :=
  match xs with
  | [] => .error .indexError
  | o :: _ => .ok (o, diffsW t 0 (xs.map fun x => wrap t (x - o)))

/-- `DeltaEncoding(origin=o).encode(data)` with the origin *given* (explicitly, read from a file, or left over from an
earlier use of the same encoding object) instead of taken from the data. -/
def deltaEncodeWith (t : DType) (o : Int) (xs : List Int) : List Int :=
  diffsW t 0 (xs.map fun x => wrap t (x - o))

/-- `DeltaEncoding(src_type, origin).decode(data)` — arithmetic in the *stored* type. -/
def deltaDecode (t : DType) (origin : Int) (ds : List Int) : List Int :=
  (cumsumW t.supported 0 ds).map fun y => wrap t.supported (y + origin)

/-! ## Integer packing -/

/-- Emit `lim` while `|r| ≥ |lim|` (the two `while` loops of `_encode`), then the rest. -/
def packPos (maxV : Nat) (fuel : Nat) (r : Nat) : List Int :=
  match fuel with
  | 0 => [(r : Int)]
  | fuel + 1 => if maxV ≤ r then (maxV : Int) :: packPos maxV fuel (r - maxV) else [(r : Int)]

def packNeg (minAbs : Nat) (fuel : Nat) (r : Nat) : List Int :=   -- r = |remainder|
  match fuel with
  | 0 => [-(r : Int)]
  | fuel + 1 => if minAbs ≤ r then (-(minAbs : Int)) :: packNeg minAbs fuel (r - minAbs) else [-(r : Int)]

/-- Packed dtype for `(byte_count, is_unsigned)`. -/
def packedType (byteCount : Nat) (unsigned : Bool) : Except Err DType :=
  match byteCount, unsigned with
  | 1, true => .ok .u8 | 1, false => .ok .i8
  | 2, true => .ok .u16 | 2, false => .ok .i16
  | _, _ => .error .valueError

def packOne (pt : DType) (x : Int) : Except Err (List Int) :=
  if x < 0 then
    if pt.lo = 0 then .error .valueError
    else .ok (packNeg pt.lo.natAbs x.natAbs x.natAbs)
  else if x > 0 then .ok (packPos pt.hi.toNat x.toNat x.toNat)
  else .ok [0]

def packAll (pt : DType) : List Int → Except Err (List Int)
  | [] => .ok []
  | x :: xs => do
    let a ← packOne pt x
    let r ← packAll pt xs
    pure (a ++ r)

/-- `IntegerPackingEncoding(byte_count, src_size=None, is_unsigned).encode(data)`;
`data` must already fit int32 (`astype(int32)` in the code would wrap silently, so the
model refuses to say anything — `none` — for values outside int32). -/
def packEncode (byteCount : Nat) (unsigned : Option Bool) (xs : List Int) : Option (Except Err (List Int)) :=
  if ¬ xs.all (fun x => decide (DType.i32.inRange x)) then none else
  match xs, unsigned with
  | [], none => some (.error .valueError)       -- `data.min()` of an empty array
  | _, _ =>
    let u := match unsigned with
      | some b => b
      | none => xs.all (fun x => decide (0 ≤ x))
    some do
      let pt ← packedType byteCount u
      packAll pt xs

/-- The same call on an array of a *wider* dtype (uint32, int64, uint64), as the code really runs it: the sign is
detected on the data as given, then `data.astype(np.int32, copy=False)` wraps every value modulo 2³² without a range
check, then the wrapped values are packed. -/
def packEncodeWide (byteCount : Nat) (unsigned : Option Bool) (xs : List Int) : Except Err (List Int) :=
  match xs, unsigned with
  | [], none => .error .valueError
  | _, _ =>
    let u := match unsigned with
      | some b => b
      | none => xs.all (fun x => decide (0 ≤ x))
    do
      let pt ← packedType byteCount u
      packAll pt (xs.map (wrap .i32))

/-- The loop of `IntegerPackingEncoding.decode`: `acc` is `unpacked_val`. -/
def unpackLoop (lo hi : Int) : Int → List Int → List Int
  | _, [] => []
  | acc, p :: ps =>
    if p = hi ∨ p = lo then unpackLoop lo hi (acc + p) ps
    else (acc + p) :: unpackLoop lo hi 0 ps

/-- `IntegerPackingEncoding(byte_count, src_size, is_unsigned).decode(data)` where `data`
has dtype `pt`.  The output buffer has `srcSize` entries; writing beyond it is an
`IndexError` (bounds-checked memoryview). -/
def packDecode (pt : DType) (srcSize : Nat) (data : List Int) : Except Err (List Int) :=
  let lo := if pt.lo = 0 then -1 else pt.lo
  let out := unpackLoop lo pt.hi 0 data
  if out.length > srcSize then .error .indexError
  else .ok (out ++ List.replicate (srcSize - out.length) 0)

end BiotiteModel.C05

import BiotiteModel.Common
/-!
# C20 — executable model of the application wrappers' life cycle

Transcribes, statement by statement, the control flow of (after the four `fix:` commits, see notes/C20.md)

* `application/application.py`: `requires_state`, `Application.start / join / cancel / get_app_state`
* `application/localapp.py`:    `LocalApp.run / is_finished / join / evaluate / clean_up`
* `application/msaapp.py`:      `MSAApp.run / evaluate / clean_up`, result getters
* `clustalo/app.py`, `muscle/app3.py`, `muscle/app5.py`, `mafft/app.py`: `run / evaluate / clean_up`, setters, getters

against a *scripted environment*: the behaviour of the external program (`Tool`) and the moment it is allowed to finish
(`tick`).  Resources the property speaks about are explicit fields: the child process, the number of temporary files,
"cwd differs from the caller's", the number of `clean_up()` calls.
-/
namespace BiotiteModel.C20

/-- `AppState` flag of the wrapper. -/
inductive AppState where
  | created | running | finished | joined | cancelled
  deriving DecidableEq, Repr

def AppState.name : AppState → String
  | .created => "CREATED" | .running => "RUNNING" | .finished => "FINISHED"
  | .joined => "JOINED" | .cancelled => "CANCELLED"

/-- A run is over in these two states. -/
def AppState.terminal : AppState → Bool
  | .joined | .cancelled => true
  | _ => false

/-- Which concrete class is driven. `base` is a minimal concrete `Application` (the class `WebApp`s derive from),
`localapp` a bare `LocalApp`. -/
inductive Wrapper where
  | base | localapp | clustalo | muscle3 | muscle5 | mafft
  | tantan     -- a LocalApp subclass outside the MSA family (TantanApp), driven with a fake binary as well
  deriving DecidableEq, Repr

/-- Scripted behaviour of the external program. -/
inductive Tool where
  | ok | reorder | garbageEmpty | garbageRagged | garbageMissing | garbageLength | garbageTree
  | garbageShort  -- row 1 has lost its last residue (one symbol too few); everything else intact
  | garbageSwap   -- equal row lengths, right headers; row 0 has one symbol too many, row 1 one too few (totals agree)
  | dupRecords    -- valid rows, but the record of input 0 is written twice (a dict-like reader keeps the last copy)
  | garbageExtra  -- one record more than there were inputs
  | garbageHeader -- the last record's header is not an input index
  | bigout        -- like `ok`, but first writes more than a pipe buffer to STDERR: blocks until the pipe is read
  | exit3      -- exits with code 3
  | sigkill    -- writes complete, valid output, then dies by a signal (return code -9)
  | hang
  | hangIgnoreTerm   -- never exits and ignores SIGTERM (only SIGKILL, i.e. `Popen.kill()`, ends it)
  | missing | isdir | nulbyte   -- cannot be launched: FileNotFoundError / PermissionError / ValueError (not an OSError)
  deriving DecidableEq, Repr

inductive Child where
  | none | alive | dead
  deriving DecidableEq, Repr

def Child.name : Child → String
  | .none => "none" | .alive => "alive" | .dead => "dead"

/-- Method resolution order (class names as in the source). -/
def Wrapper.mro : Wrapper → List String
  | .base => ["Application"]
  | .localapp => ["LocalApp", "Application"]
  | .clustalo => ["ClustalOmegaApp", "MSAApp", "LocalApp", "Application"]
  | .muscle3 => ["MuscleApp", "MSAApp", "LocalApp", "Application"]
  | .muscle5 => ["Muscle5App", "MSAApp", "LocalApp", "Application"]
  | .mafft => ["MafftApp", "MSAApp", "LocalApp", "Application"]
  | .tantan => ["TantanApp", "LocalApp", "Application"]

def Wrapper.isMsa : Wrapper → Bool
  | .base | .localapp | .tantan => false
  | _ => true

open AppState in
/-- The model's guard table: (class, public method, `@requires_state` guard; `none` = unguarded), sorted by class and
method name, states in declaration order.  `C20_table_tie` proves it equal to the table regenerated from the decorators. -/
def table : List (String × String × Option (List AppState)) := [
  ("Application", "cancel", some [running, finished]),
  ("Application", "clean_up", none),
  ("Application", "evaluate", none),
  ("Application", "get_app_state", none),
  ("Application", "is_finished", none),
  ("Application", "join", some [running, finished]),
  ("Application", "run", none),
  ("Application", "start", some [created]),
  ("Application", "wait_interval", none),
  ("BlastWebApp", "clean_up", none),
  ("BlastWebApp", "evaluate", none),
  ("BlastWebApp", "get_alignments", some [joined]),
  ("BlastWebApp", "get_xml_response", some [joined]),
  ("BlastWebApp", "is_finished", none),
  ("BlastWebApp", "run", none),
  ("BlastWebApp", "set_entrez_query", some [created]),
  ("BlastWebApp", "set_gap_penalty", some [created]),
  ("BlastWebApp", "set_match_reward", some [created]),
  ("BlastWebApp", "set_max_expect_value", some [created]),
  ("BlastWebApp", "set_max_results", some [created]),
  ("BlastWebApp", "set_mismatch_penalty", some [created]),
  ("BlastWebApp", "set_substitution_matrix", some [created]),
  ("BlastWebApp", "set_threshold", some [created]),
  ("BlastWebApp", "set_word_size", some [created]),
  ("BlastWebApp", "wait_interval", none),
  ("ClustalOmegaApp", "clean_up", none),
  ("ClustalOmegaApp", "evaluate", none),
  ("ClustalOmegaApp", "full_matrix_calculation", some [created]),
  ("ClustalOmegaApp", "get_distance_matrix", some [joined]),
  ("ClustalOmegaApp", "get_guide_tree", some [joined]),
  ("ClustalOmegaApp", "run", none),
  ("ClustalOmegaApp", "set_distance_matrix", some [created]),
  ("ClustalOmegaApp", "set_guide_tree", some [created]),
  ("ClustalOmegaApp", "supports_custom_nucleotide_matrix", none),
  ("ClustalOmegaApp", "supports_custom_protein_matrix", none),
  ("ClustalOmegaApp", "supports_nucleotide", none),
  ("ClustalOmegaApp", "supports_protein", none),
  ("DsspApp", "annotate_sse", none),
  ("DsspApp", "clean_up", none),
  ("DsspApp", "evaluate", none),
  ("DsspApp", "get_sse", some [joined]),
  ("DsspApp", "run", none),
  ("FastaDumpApp", "fetch", none),
  ("FastaDumpApp", "get_fasta", some [joined]),
  ("FastaDumpApp", "get_fastq_dump_options", some [created]),
  ("FastaDumpApp", "get_prefetch_options", some [created]),
  ("FastaDumpApp", "get_sequences", some [joined]),
  ("FastqDumpApp", "fetch", none),
  ("FastqDumpApp", "get_fastq", some [joined]),
  ("FastqDumpApp", "get_sequences", some [joined]),
  ("FastqDumpApp", "get_sequences_and_scores", some [joined]),
  ("LocalApp", "add_additional_options", some [created]),
  ("LocalApp", "clean_up", none),
  ("LocalApp", "evaluate", none),
  ("LocalApp", "get_command", some [running, finished, joined, cancelled]),
  ("LocalApp", "get_exit_code", some [finished, joined]),
  ("LocalApp", "get_process", some [running, finished]),
  ("LocalApp", "get_stderr", some [finished, joined]),
  ("LocalApp", "get_stdout", some [finished, joined]),
  ("LocalApp", "is_finished", none),
  ("LocalApp", "join", some [running, finished]),
  ("LocalApp", "run", none),
  ("LocalApp", "set_arguments", some [created]),
  ("LocalApp", "set_exec_dir", some [created]),
  ("LocalApp", "set_stdin", some [created]),
  ("LocalApp", "wait_interval", none),
  ("MSAApp", "align", none),
  ("MSAApp", "clean_up", none),
  ("MSAApp", "evaluate", none),
  ("MSAApp", "get_alignment", some [joined]),
  ("MSAApp", "get_alignment_order", some [joined]),
  ("MSAApp", "get_input_file_path", none),
  ("MSAApp", "get_matrix_file_path", none),
  ("MSAApp", "get_output_file_path", none),
  ("MSAApp", "get_seqtype", none),
  ("MSAApp", "run", none),
  ("MSAApp", "supports_custom_nucleotide_matrix", none),
  ("MSAApp", "supports_custom_protein_matrix", none),
  ("MSAApp", "supports_nucleotide", none),
  ("MSAApp", "supports_protein", none),
  ("MafftApp", "clean_up", none),
  ("MafftApp", "evaluate", none),
  ("MafftApp", "get_guide_tree", some [joined]),
  ("MafftApp", "run", none),
  ("MafftApp", "supports_custom_nucleotide_matrix", none),
  ("MafftApp", "supports_custom_protein_matrix", none),
  ("MafftApp", "supports_nucleotide", none),
  ("MafftApp", "supports_protein", none),
  ("Muscle5App", "align", none),
  ("Muscle5App", "run", none),
  ("Muscle5App", "set_iterations", some [created]),
  ("Muscle5App", "set_thread_number", some [created]),
  ("Muscle5App", "supports_custom_nucleotide_matrix", none),
  ("Muscle5App", "supports_custom_protein_matrix", none),
  ("Muscle5App", "supports_nucleotide", none),
  ("Muscle5App", "supports_protein", none),
  ("Muscle5App", "use_super5", some [created]),
  ("MuscleApp", "align", none),
  ("MuscleApp", "clean_up", none),
  ("MuscleApp", "evaluate", none),
  ("MuscleApp", "get_guide_tree", some [joined]),
  ("MuscleApp", "run", none),
  ("MuscleApp", "set_gap_penalty", some [created]),
  ("MuscleApp", "supports_custom_nucleotide_matrix", none),
  ("MuscleApp", "supports_custom_protein_matrix", none),
  ("MuscleApp", "supports_nucleotide", none),
  ("MuscleApp", "supports_protein", none),
  ("RNAalifoldApp", "clean_up", none),
  ("RNAalifoldApp", "compute_secondary_structure", none),
  ("RNAalifoldApp", "evaluate", none),
  ("RNAalifoldApp", "get_base_pairs", some [joined]),
  ("RNAalifoldApp", "get_consensus_sequence_string", some [joined]),
  ("RNAalifoldApp", "get_covariance_energy", some [joined]),
  ("RNAalifoldApp", "get_dot_bracket", some [joined]),
  ("RNAalifoldApp", "get_free_energy", some [joined]),
  ("RNAalifoldApp", "run", none),
  ("RNAalifoldApp", "set_constraints", some [created]),
  ("RNAalifoldApp", "set_temperature", some [created]),
  ("RNAfoldApp", "clean_up", none),
  ("RNAfoldApp", "compute_secondary_structure", none),
  ("RNAfoldApp", "evaluate", none),
  ("RNAfoldApp", "get_base_pairs", some [joined]),
  ("RNAfoldApp", "get_dot_bracket", some [joined]),
  ("RNAfoldApp", "get_free_energy", some [joined]),
  ("RNAfoldApp", "run", none),
  ("RNAfoldApp", "set_constraints", some [created]),
  ("RNAfoldApp", "set_temperature", some [created]),
  ("RNAplotApp", "clean_up", none),
  ("RNAplotApp", "compute_coordinates", none),
  ("RNAplotApp", "evaluate", none),
  ("RNAplotApp", "get_coordinates", some [joined]),
  ("RNAplotApp", "run", none),
  ("RNAplotApp", "set_layout_type", some [created]),
  ("TantanApp", "clean_up", none),
  ("TantanApp", "evaluate", none),
  ("TantanApp", "get_mask", some [joined]),
  ("TantanApp", "mask_repeats", none),
  ("TantanApp", "run", none),
  ("VinaApp", "clean_up", none),
  ("VinaApp", "dock", none),
  ("VinaApp", "evaluate", none),
  ("VinaApp", "get_energies", some [joined]),
  ("VinaApp", "get_flexible_residue_models", some [joined]),
  ("VinaApp", "get_ligand_coord", some [joined]),
  ("VinaApp", "get_ligand_models", some [joined]),
  ("VinaApp", "get_receptor_coord", some [joined]),
  ("VinaApp", "run", none),
  ("VinaApp", "set_energy_range", some [created]),
  ("VinaApp", "set_exhaustiveness", some [created]),
  ("VinaApp", "set_max_number_of_models", some [created]),
  ("VinaApp", "set_seed", some [created]),
  ("WebApp", "app_url", none),
  ("WebApp", "violate_rule", none),
  ("_DumpApp", "clean_up", none),
  ("_DumpApp", "evaluate", none),
  ("_DumpApp", "get_fastq_dump_options", some [created]),
  ("_DumpApp", "get_file_paths", some [joined]),
  ("_DumpApp", "get_prefetch_options", some [created]),
  ("_DumpApp", "get_sequences", some [joined]),
  ("_DumpApp", "is_finished", none),
  ("_DumpApp", "join", some [running, finished]),
  ("_DumpApp", "run", none),
  ("_DumpApp", "wait_interval", none)]

/-- Guard of `cls.m` in a table, if that class defines `m`. -/
def lookupIn (tbl : List (String × String × Option (List AppState))) (cls m : String) :
    Option (Option (List AppState)) :=
  match tbl with
  | [] => none
  | (c, n, g) :: rest => if c = cls ∧ n = m then some g else lookupIn rest cls m

/-- Python attribute lookup along the MRO. -/
def resolve (tbl : List (String × String × Option (List AppState))) (mro : List String) (m : String) :
    Option (Option (List AppState)) :=
  match mro with
  | [] => none
  | c :: rest => match lookupIn tbl c m with
    | some g => some g
    | none => resolve tbl rest m

/-- `none`: no such method; `some none`: unguarded; `some (some states)`: `@requires_state(states)`. -/
def guardOf (w : Wrapper) (m : String) : Option (Option (List AppState)) := resolve table w.mro m

/-- `instance._state & app_state` is non-empty. -/
def passes (g : Option (List AppState)) (s : AppState) : Bool :=
  match g with
  | none => true
  | some l => l.contains s

/-- The model state: wrapper object + environment + resources. -/
structure St where
  w : Wrapper
  tool : Tool
  n : Nat                      -- number of input sequences
  seqtype : String             -- what `get_seqtype()` reports
  state : AppState := .created
  child : Child := .none
  files : Nat := 0             -- temporary files currently on disk
  cwdChanged : Bool := false
  cleanups : Nat := 0          -- how often `clean_up()` was entered
  released : Bool := false     -- environment: the external program may finish (`tick` happened)
  execOther : Bool := false    -- `set_exec_dir(<another directory>)` was called
  mbed : Bool := true          -- ClustalO `_mbed`
  treeSet : Bool := false      -- ClustalO `set_guide_tree` was called
  result : Option (List Nat × List Nat) := none   -- (`_alignment` rows in input order, `_order`)
  gap : Option (Int × Int) := none   -- MuscleApp `_gap_open`, `_gap_ext`
  distSet : Bool := false            -- ClustalO `set_distance_matrix` stored an input matrix in `_dist_matrix`
  deriving DecidableEq, Repr

inductive Res where
  | ok (v : String)
  | err (e : Err)
  | diverges            -- `join()` without timeout on a program that never exits
  | noMethod
  deriving DecidableEq, Repr

def errTimeout : Err := .other "TimeoutError"
def errSubprocess : Err := .other "SubprocessError"
/-- The program cannot be launched (`Popen` raises). -/
def launchFails (t : Tool) : Bool := t = .missing ∨ t = .isdir ∨ t = .nulbyte

/-- What `Popen` raises for an unlaunchable program. -/
def errLaunch : Tool → Err
  | .isdir => .other "PermissionError"
  | .nulbyte => .valueError
  | _ => .other "FileNotFoundError"

/-- The program ends with a failing exit status: `returncode != 0` (positive exit code *or* negative: killed by a signal). -/
def failingExit (t : Tool) : Bool := t = .exit3 ∨ t = .sigkill
def errEval : Err := .other "EvalFailure"
def errOverflow : Err := .overflowError

/-- Temp files created by `__init__` (NamedTemporaryFile(delete=False)). -/
def initFiles : Wrapper → Nat
  | .base => 1 | .localapp => 0 | .clustalo => 7 | .muscle3 => 5 | .muscle5 => 3 | .mafft => 3
  | .tantan => 1     -- `_in_file`; the matrix file exists only when a matrix is passed (not in the driven configuration)

/-- The program never exits on its own. -/
def hangs (t : Tool) : Bool := t = .hang ∨ t = .hangIgnoreTerm

/-- The program has written more than a pipe buffer and cannot go on (let alone exit) before the wrapper reads the pipe:
`poll()` never sees it finished, only `communicate()` lets it complete.  (The `Application` stub has no pipes.) -/
def blocksOnPipe (s : St) : Bool := s.tool = .bigout && s.w != .base

/-- The external program has exited as far as `poll()` / the stub's `is_finished()` can tell. -/
def exited (s : St) : Bool := s.released && !hangs s.tool && !blocksOnPipe s

/-- What the exiting program leaves behind: the child is gone; real MAFFT (and the fake one) writes `<input>.tree`
next to its input unless it fails with an exit code. -/
def exitEffects (s : St) : St :=
  if s.w = .base then s else
  { s with child := .dead,
           files := s.files + (if s.w = .mafft ∧ s.tool ≠ .exit3 then 1 else 0) }

/-- The child has been waited for. -/
def waitExit (s : St) : St := if s.child = .alive then exitEffects s else s

/-- `Application.get_app_state`: lazily turns RUNNING into FINISHED. -/
def getAppState (s : St) : St × AppState :=
  if s.state = .running then
    if exited s then ({ s with state := .finished }, .finished) else (s, .running)
  else (s, s.state)

/-- `clean_up()` of the wrapper (with the `super().clean_up()` chain). -/
def cleanUp (s : St) : St :=
  let s := { s with cleanups := s.cleanups + 1 }
  match s.w with
  | .base =>
    -- the stub: releases its pretend child and removes its temp file
    { s with child := if s.child = .alive then .dead else s.child, files := 0 }
  | _ =>
    -- LocalApp.clean_up: `if self.get_app_state() == CANCELLED and self._process is not None: kill()`
    let (s, st) := getAppState s
    -- `Popen.kill()` = SIGKILL: ends the child whatever it does with other signals
    let s := if st = .cancelled ∧ s.child = .alive then { s with child := .dead } else s
    -- MSAApp / wrapper clean_up: cleanup_tempfile(...) for every file; MafftApp additionally removes the tree file
    { s with files := 0 }

/-- Records of the program's output file: (header, row id). -/
def toolRows (t : Tool) (n : Nat) : List (Nat × Nat) :=
  let rows := (List.range n).map fun i => (i, i)
  match t with
  | .reorder => rows.drop 1 ++ rows.take 1      -- rotation (not an involution for n ≥ 3)
  | .garbageMissing => rows.take (n - 1)
  | .garbageEmpty => []
  | .dupRecords => rows ++ rows.take 1
  | .garbageExtra => rows ++ [(n, 0)]
  | .garbageHeader => rows.take (n - 1) ++ [(n + 1, n - 1)]     -- a header outside `0..n-1` stands for "not an index"
  | _ => rows

/-- `seq_dict[str(h)]`: first record with that header. -/
def find (h : Nat) : List (Nat × Nat) → Option Nat
  | [] => none
  | (k, r) :: rest => if k = h then some r else find h rest

/-- `MSAApp.evaluate`: `out_seq_str[i] = seq_dict[str(i)]` for every input index (KeyError if absent); a row whose
symbol count differs from its input sequence is rejected (ValueError), rows of unequal length are rejected by
`trace_from_strings`; `_order[i] = int(header_i)`.  `ragged` = "some row fails one of the two length checks". -/
def findAll (out : List (Nat × Nat)) : List Nat → Option (List Nat)
  | [] => some []
  | i :: is =>
    match find i out, findAll out is with
    | some r, some rs => some (r :: rs)
    | _, _ => none

/-- Keys of `OrderedDict(alignment_file)`: every header once, at the position of its first occurrence. -/
def uniq : List Nat → List Nat
  | [] => []
  | x :: xs => x :: (uniq xs).filter (· ≠ x)

/-- `seq_dict = OrderedDict(alignment_file)` collapses records with the same header (which copy survives does not matter
for the row *identity* `find` returns; the harness compares contents against the copy written last).  More headers than
inputs leave `None` rows (TypeError in `trace_from_strings`), a missing index is a KeyError. -/
def parseOutput (out : List (Nat × Nat)) (ragged : Bool) (n : Nat) : Except Err (List Nat × List Nat) :=
  match findAll out (List.range n) with
  | none => .error errEval
  | some rows =>
    let keys := uniq (out.map Prod.fst)
    if ragged ∨ keys.length ≠ n then .error errEval else .ok (rows, keys)

/-- Does the wrapper's own `evaluate()` parse a guide tree written by the program?  (ClustalO only when no guide tree
was supplied; MUSCLE 3 and MAFFT always; MUSCLE 5 never.) -/
def readsTree (w : Wrapper) (treeSet : Bool) : Bool :=
  match w with
  | .clustalo => !treeSet
  | .muscle3 => true
  | .mafft => true
  | _ => false

/-- Error of the symbol count of output row `i` against input sequence `i`. -/
def lengthDelta (t : Tool) (i : Nat) : Int :=
  match t with
  | .garbageLength => if i = 0 then 1 else 0
  | .garbageShort => if i = 1 then -1 else 0
  | .garbageSwap => if i = 0 then 1 else if i = 1 then -1 else 0
  | _ => 0

/-- Does the program's output contain a row failing a length check?  `trace_from_strings` rejects rows of unequal length;
`MSAApp.evaluate` compares the symbol count of **every** row with its input sequence (inside the loop over the rows). -/
def badLengths (t : Tool) (n : Nat) : Bool := t = .garbageRagged ∨ (List.range n).any (fun i => lengthDelta t i ≠ 0)

/-- `evaluate()` along the `super()` chain. -/
def evaluate (s : St) : Except Err (Option (List Nat × List Nat)) :=
  match s.w with
  | .base =>
    if failingExit s.tool then .error errSubprocess
    else if s.tool = .garbageEmpty ∨ s.tool = .garbageRagged ∨ s.tool = .garbageMissing ∨ s.tool = .garbageLength
        ∨ s.tool = .garbageTree ∨ s.tool = .garbageSwap ∨ s.tool = .garbageExtra ∨ s.tool = .garbageHeader
        ∨ s.tool = .garbageShort then .error errEval
    else .ok none
  | .localapp =>
    -- LocalApp.evaluate: `if exit_code != 0: raise SubprocessError`
    if failingExit s.tool then .error errSubprocess else .ok none
  | .tantan =>
    -- LocalApp.evaluate, then the masks are read from stdout (result parsing of the non-MSA wrappers is out of scope:
    -- the environment only offers output TantanApp accepts)
    if failingExit s.tool then .error errSubprocess else .ok none
  | w =>
    if failingExit s.tool then .error errSubprocess else
    match parseOutput (toolRows s.tool s.n) (badLengths s.tool s.n) s.n with
    | .error e => .error e
    | .ok r =>
      -- wrapper part: guide tree file(s)
      if readsTree w s.treeSet ∧ s.tool = .garbageTree then .error errEval else .ok (some r)

/-- The `timeout` argument of `join`: `None`, the boundary value `0` / `0.0` ("do not wait"), or a positive number. -/
inductive Timeout where
  | none | zero | pos
  | inf      -- `float("inf")`: never expires for the generic poll loop; `Popen.communicate` refuses it (OverflowError)
  deriving DecidableEq, Repr

/-- `cancel()` body (after its guard). -/
def cancelBody (s : St) : St := cleanUp { s with state := .cancelled }

/-- Tail shared by `Application.join` and `LocalApp.join`:
```
try: self.evaluate()
except AppStateError: raise
except: self._state = CANCELLED; self.clean_up(); raise
else: self._state = JOINED
self.clean_up()
``` -/
def joinTail (s : St) : St × Res :=
  match evaluate s with
  | .error e => (cleanUp { s with state := .cancelled }, .err e)
  | .ok r => (cleanUp { s with state := .joined, result := r }, .ok "")

/-- `LocalApp.join(timeout)` body. -/
def joinLocal (s : St) (timeout : Bool) : St × Res :=
  -- self._process.communicate(timeout=timeout)
  -- (a program blocked on a full pipe completes as soon as `communicate()` drains it)
  if exited s ∨ s.child ≠ .alive ∨ (s.released ∧ blocksOnPipe s) then
    joinTail { waitExit s with state := .finished }
  else if timeout then
    -- except TimeoutExpired: self.cancel(); raise TimeoutError
    (cancelBody s, .err errTimeout)
  else if hangs s.tool then (s, .diverges)
  else
    -- the program finishes while we wait
    joinTail { waitExit { s with released := true } with state := .finished }

/-- `LocalApp.join` for the three kinds of `timeout`: `communicate(timeout=0)` on pipes that were not read yet raises
TimeoutExpired even if the child has already exited (in FINISHED the pipes were drained by `is_finished()`, then it
returns at once); otherwise 0 behaves like any other timeout. -/
def joinLocalT (s : St) (t : Timeout) : St × Res :=
  if t = .inf ∧ s.state = .running then
    -- `communicate(timeout=inf)` has to wait on the pipes: `select(inf)` raises OverflowError *before* anything is changed
    -- (in FINISHED the pipes are drained and the child reaped: it returns at once)
    (s, .err errOverflow)
  else if t = .zero ∧ s.state = .running then (cancelBody s, .err errTimeout)
  else joinLocal s (t = .zero ∨ t = .pos)

/-- `Application.join(timeout)` body: `while self.get_app_state() != FINISHED: (timeout → cancel, raise) | sleep`. -/
def joinBase (s : St) (timeout : Bool) : St × Res :=
  let (s1, st) := getAppState s
  if st = .finished then joinTail s1
  else if timeout then (cancelBody s1, .err errTimeout)
  else if hangs s.tool then (s, .diverges)
  else joinTail { s1 with released := true, state := .finished }

/-- `start()` body: `try: self.run() except: CANCELLED; (try: clean_up() except Exception: pass); raise` then RUNNING.
(The inner `try` only matters for subclasses whose `clean_up()` raises; the `clean_up()` of the modelled wrappers never
does, so the model has no such branch — the real behaviour is checked by the oracle-only case `cleanup-raises`.)
`LocalApp.run`: `chdir(exec_dir); try: Popen(...) finally: chdir(cwd)`. -/
def startBody (s : St) : St × Res :=
  -- chdir(self._exec_dir)
  let s1 := { s with cwdChanged := s.execOther }
  if launchFails s.tool then
    -- Popen raises (whatever the exception class); finally: chdir(cwd)
    let s2 := { s1 with cwdChanged := false }
    (cleanUp { s2 with state := .cancelled }, .err (errLaunch s.tool))
  else
    let s2 := { s1 with child := .alive }
    let s3 := { s2 with cwdChanged := false }
    let s4 := if exited s3 then waitExit s3 else s3
    ({ s4 with state := .running }, .ok "")

inductive Call where
  | start
  | join (timeout : Timeout)
  | cancel
  | getState
  | tick
  | method (name : String)
  | methodBad (name : String)            -- a setter called with arguments it must reject (`ValueError`)
  | setGap (a : Int) (b : Option Int)    -- `MuscleApp.set_gap_penalty(a)` / `set_gap_penalty((a, b))`
  | chdir                                -- environment: the *caller* changes its working directory
  deriving DecidableEq, Repr

/-- Name under which a call is looked up in the guard table (`tick` is not an API call). -/
def Call.methodName : Call → Option String
  | .start => some "start" | .join _ => some "join" | .cancel => some "cancel"
  | .getState => some "get_app_state" | .method m => some m | .tick => none
  | .methodBad m => some m | .setGap _ _ => some "set_gap_penalty" | .chdir => none

def showRows (xs : List Nat) : String := Proto.joinWith "," (xs.map fun i => "r" ++ toString i)

/-- The guide tree every fake program writes (and the harness passes to `set_guide_tree`): the caterpillar
`((…((0,1),2)…),n-1)` over *input indices*, canonically printed as the leaf sets of its internal nodes. -/
def showClades (n : Nat) : String := Proto.joinWith ";" ((List.range (n - 1)).map fun k => "0.." ++ toString (k + 1))

/-! ### Exotic sequence types (`util.map_sequence`): symbol `i` of a custom alphabet becomes the `i`-th amino-acid symbol -/

/-- `ProteinSequence.alphabet` (tied to seqtypes.py by `C20_map_tie`). -/
def proteinLetters : List Char :=
  ['A', 'C', 'D', 'E', 'F', 'G', 'H', 'I', 'K', 'L', 'M', 'N', 'P', 'Q', 'R', 'S', 'T', 'V', 'W', 'Y', 'B', 'Z', 'X', '*']

/-- `map_sequence`: `if len(sequence.alphabet) > len(ProteinSequence.alphabet): raise TypeError`; otherwise the code is
taken over unchanged, i.e. symbol code `c` is shown to the program as `proteinLetters[c]`.  `k` = size of the custom
alphabet, `codes` = the sequence (every code `< k` by construction of a `Sequence`). -/
def mapSequence (k : Nat) (codes : List Nat) : Except Err (List Char) :=
  if k > proteinLetters.length then .error .typeError
  else .ok (codes.map fun c => proteinLetters.getD c '?')

/-- Mapping back: the position of a letter in the amino-acid alphabet is the original symbol code. -/
def unmapLetter (ch : Char) : Option Nat :=
  let i := proteinLetters.idxOf ch
  if i < proteinLetters.length then some i else none


/-- The part of MUSCLE's command line that depends on a validated option (`-gapopen o -gapextend e`); only this part of
`get_command()` is compared. -/
def gapShown (s : St) : String :=
  match s.w, s.gap with
  | .muscle3, some (o, e) => s!"gap={o}/{e}"
  | _, _ => ""

/-- The setters whose effect matters for the life cycle or for a compared value. -/
def isSetter (m : String) : Bool :=
  m = "set_exec_dir" || m = "full_matrix_calculation" || m = "set_guide_tree" || m = "set_gap_penalty" ||
  m = "set_distance_matrix"

/-- Effect of an accepted setter (valid arguments). -/
def setterEffect (s : St) (m : String) : St :=
  if m = "set_exec_dir" then { s with execOther := true }
  else if m = "full_matrix_calculation" then { s with mbed := false }
  else if m = "set_guide_tree" then { s with treeSet := true }
  else if m = "set_distance_matrix" then { s with distSet := true }
  else { s with gap := some (-10, -10) }     -- `set_gap_penalty(-10.0)` (what the harness passes for `call set_gap_penalty`)

/-- Value of an accepted getter (or of a setter without modelled effect: `None`). -/
def getterValue (s : St) (m : String) : Res :=
  if m = "get_alignment" then
    match s.result with
    | some (rows, _) => .ok (showRows rows)
    | none => .err (.other "AttributeError")
  else if m = "get_alignment_order" then
    match s.result with
    | some (_, order) => .ok (Proto.showNats order)
    | none => .err (.other "AttributeError")
  else if m = "get_exit_code" then .ok (if s.tool = .exit3 then "3" else if s.tool = .sigkill then "-9" else "0")
  else if m = "get_seqtype" then .ok s.seqtype
  else if m = "get_distance_matrix" then
    -- the fake program writes d(i,j) = |i-j| in input order; the first row is printed.  `evaluate()` reads the program's
    -- matrix whenever `--full` was requested — also when an *input* matrix had been stored by `set_distance_matrix` (the
    -- attribute `_dist_matrix` is shared by input and output): the value does not depend on `distSet`
    (if s.mbed then .err .valueError else .ok (Proto.showNats (List.range s.n)))
  else if m = "get_guide_tree" then .ok (showClades s.n)
  else if m = "get_command" then .ok (gapShown s)
  else .ok ""

/-- Effect and value of an accepted getter/setter. -/
def methodBody (s : St) (m : String) : St × Res :=
  if isSetter m then (setterEffect s m, .ok "") else (s, getterValue s m)

/-- `MuscleApp.set_gap_penalty`: both values are validated **before** either is stored. -/
def setGapBody (s : St) (a : Int) (b : Option Int) : St × Res :=
  match b with
  | none => if a > 0 then (s, .err .valueError) else ({ s with gap := some (a, a) }, .ok "")
  | some e => if a > 0 ∨ e > 0 then (s, .err .valueError) else ({ s with gap := some (a, e) }, .ok "")

/-- One call on the wrapper (or one environment event). -/
def step (s : St) (c : Call) : St × Res :=
  match c with
  | .tick =>
    let s := { s with released := true }
    (if ¬ hangs s.tool ∧ ¬ blocksOnPipe s then waitExit s else s, .ok "")
  | .getState =>
    let (s, st) := getAppState s
    (s, .ok st.name)
  | .start =>
    match guardOf s.w "start" with
    | some g => if passes g s.state then startBody s else (s, .err .stateError)
    | none => (s, .noMethod)
  | .join t =>
    match guardOf s.w "join" with
    | some g =>
      if passes g s.state then
        if s.w = .base then joinBase s (t = .zero ∨ t = .pos)   -- `timeout is not None and now - start > timeout`: 0 counts, inf never expires
        else joinLocalT s t
      else (s, .err .stateError)
    | none => (s, .noMethod)
  | .cancel =>
    match guardOf s.w "cancel" with
    | some g => if passes g s.state then (cancelBody s, .ok "") else (s, .err .stateError)
    | none => (s, .noMethod)
  | .method m =>
    match guardOf s.w m with
    | some g => if passes g s.state then methodBody s m else (s, .err .stateError)
    | none => (s, .noMethod)
  | .methodBad m =>
    match guardOf s.w m with
    | some g => if passes g s.state then (s, .err .valueError) else (s, .err .stateError)
    | none => (s, .noMethod)
  | .setGap a b =>
    match guardOf s.w "set_gap_penalty" with
    | some g => if passes g s.state then setGapBody s a b else (s, .err .stateError)
    | none => (s, .noMethod)
  | .chdir =>
    -- nothing of the wrapper changes; "cwd" in the observation is relative to where the caller is *now*
    (s, .ok "")

/-- A freshly constructed wrapper. -/
def init (w : Wrapper) (tool : Tool) (n : Nat) (seqtype : String) (withMatrix : Bool := false) : St :=
  { w := w, tool := tool, n := n, seqtype := seqtype,
    files := initFiles w + (if withMatrix ∧ w = .tantan then 1 else 0) }   -- TantanApp creates its matrix file only on demand

/-- State after a history. -/
def run (s : St) : List Call → St
  | [] => s
  | c :: cs => run (step s c).1 cs

end BiotiteModel.C20

import BiotiteModel.Common
/-!
# C12 — sequence file formats, part 1: text basics, FASTA, FASTQ

Model at the level of **lines**: a text file is a `List Str`, `Str = List Char`.
`TextFile.write` followed by `TextFile.read` (`"\n".join(lines) + "\n"` / `splitlines()`) is
`textRoundTrip` (identity on a non-empty list of lines none of which contains a line-break
character; modelled, not verified).

* `wrap`               — `biotite.file.wrap_string`
* `fastaFind` …        — `FastaFile._find_entries/__getitem__/__setitem__/__delitem__/read`
* `fastqFind` …        — `FastqFile._find_entries` (the length-driven state machine), score
                         offset arithmetic (`int8`), `__setitem__/__delitem__/read`

The models are of the **repaired** code (`fix:` commits for the key/stripped-header mismatch in
`FastaFile.__setitem__` and `FastqFile.__setitem__`).
Import-free and executable: the same definitions drive the correspondence check.
-/
namespace BiotiteModel.C12

abbrev Str := List Char

/-- Python `str.isspace()` for one character. -/
def isSpace (c : Char) : Bool :=
  let n := c.toNat
  (9 ≤ n && n ≤ 13) || (28 ≤ n && n ≤ 32) || n == 0x85 || n == 0xA0 || n == 0x1680 ||
  (0x2000 ≤ n && n ≤ 0x200A) || n == 0x2028 || n == 0x2029 || n == 0x202F || n == 0x205F || n == 0x3000

def lstrip (s : Str) : Str := s.dropWhile isSpace
def rstrip (s : Str) : Str := (s.reverse.dropWhile isSpace).reverse
/-- Python `str.strip()`. -/
def strip (s : Str) : Str := rstrip (lstrip s)

/-- `TextFile.write` then `TextFile.read`: `("\n".join(lines) + "\n").splitlines()`, for lines
without line-break characters. -/
def textRoundTrip (lines : List Str) : List Str := if lines.isEmpty then [[]] else lines

/-! ## `wrap_string` -/

def wrapAux (w : Nat) : Nat → Str → List Str
  | 0, _ => []
  | f + 1, s => if s.isEmpty then [] else s.take w :: wrapAux w f (s.drop w)

/-- `wrap_string(text, width)` for `width ≥ 1`: `[text[i:i+width] for i in range(0, len, width)]`. -/
def wrap (w : Nat) (s : Str) : List Str := wrapAux w s.length s

/-- `range(0, n, 0)` raises `ValueError`. -/
def wrapE (w : Nat) (s : Str) : Except Err (List Str) :=
  if w = 0 then .error .valueError else .ok (wrap w s)

/-! ## Ordered dictionaries as association lists -/

/-- `d[k] = v` on an `OrderedDict`: replace in place or append. -/
def odInsert {ν : Type} (d : List (Str × ν)) (k : Str) (v : ν) : List (Str × ν) :=
  if d.any (fun p => p.1 == k) then d.map (fun p => if p.1 == k then (k, v) else p) else d ++ [(k, v)]

def odOfList {ν : Type} (l : List (Str × ν)) : List (Str × ν) :=
  l.foldl (fun d p => odInsert d p.1 p.2) []

def odErase {ν : Type} (d : List (Str × ν)) (k : Str) : List (Str × ν) := d.filter (fun p => !(p.1 == k))

def sliceL {α : Type} (l : List α) (a b : Nat) : List α := (l.take b).drop a

/-! ## FASTA -/

def isHdr (l : Str) : Bool := l.head? == some '>'

/-- Right-to-left grouping of lines: `(lines before the first header, [(header line, body lines)])`. -/
def groupR : List Str → List Str × List (Str × List Str)
  | [] => ([], [])
  | l :: ls =>
    let r := groupR ls
    if isHdr l then ([], (l, r.1) :: r.2) else (l :: r.1, r.2)

/-- header text of a header line: `line.strip()[1:]`. -/
def headerOf (line : Str) : Str := (strip line).drop 1

def indexGroups : Nat → List (Str × List Str) → List (Str × Nat × Nat)
  | _, [] => []
  | i, (h, body) :: gs => (headerOf h, i, i + 1 + body.length) :: indexGroups (i + 1 + body.length) gs

/-- `FastaFile._find_entries`: header ↦ (start, stop) in insertion order.
Empty lines (`line[0]` → `IndexError`) cannot arise from `read` or `__setitem__`. -/
def fastaFind (lines : List Str) : Except Err (List (Str × Nat × Nat)) :=
  if lines.any (·.isEmpty) then .error .indexError else
  let g := groupR lines
  if !g.1.isEmpty then .error .invalidFile else
  .ok (odOfList (indexGroups 0 g.2))

structure Fasta where
  lines : List Str
  entries : List (Str × Nat × Nat)
  cpl : Nat
  deriving DecidableEq

def Fasta.empty (cpl : Nat) : Fasta := ⟨[], [], cpl⟩

/-- `FastaFile.read` on the lines of the text. -/
def fastaRead (text : List Str) (cpl : Nat) : Except Err Fasta :=
  -- repaired: every line is stripped first (as `read_iter` does), then blank / comment lines are dropped
  let ls := (text.map strip).filter (fun l => !l.isEmpty && l.head? != some ';')
  if ls.isEmpty then .error .invalidFile else
  match fastaFind ls with
  | .ok es => .ok ⟨ls, es, cpl⟩
  | .error e => .error e

/-- `FastaFile.__getitem__`. -/
def fastaGet (f : Fasta) (h : Str) : Except Err Str :=
  match f.entries.lookup h with
  | none => .error .keyError
  | some (a, b) => .ok ((sliceL f.lines (a + 1) b).map strip).flatten

/-- `FastaFile.__delitem__`. -/
def fastaDel (f : Fasta) (h : Str) : Except Err Fasta :=
  match f.entries.lookup h with
  | none => .error .keyError
  | some (a, b) =>
    let ls := f.lines.take a ++ f.lines.drop b
    match fastaFind ls with
    | .ok es => .ok { f with lines := ls, entries := es }
    | .error e => .error e

/-- the characters `str.splitlines()` breaks a line at. -/
def isLineBreak (c : Char) : Bool :=
  let n := c.toNat
  (10 ≤ n && n ≤ 13) || (28 ≤ n && n ≤ 30) || n == 0x85 || n == 0x2028 || n == 0x2029

/-- `"".join(header.splitlines()).strip()` (repaired: every line-break character is removed). -/
def normHeader (h : Str) : Str := strip (h.filter (fun c => !isLineBreak c))

def fastaNewLines (cpl : Nat) (h seq : Str) : List Str := ('>' :: h) :: wrap cpl seq

/-- `FastaFile.__setitem__` (repaired: the key is the normalised header). -/
def fastaSet (f : Fasta) (h seq : Str) : Except Err Fasta :=
  if f.cpl = 0 then .error .valueError else
  let h := normHeader h
  let new := fastaNewLines f.cpl h seq
  if (f.entries.lookup h).isSome then
    match fastaDel f h with
    | .error e => .error e
    | .ok f1 =>
      let ls := f1.lines ++ new
      match fastaFind ls with
      | .ok es => .ok { f1 with lines := ls, entries := es }
      | .error e => .error e
  else
    .ok { f with lines := f.lines ++ new,
                 entries := f.entries ++ [(h, f.lines.length, f.lines.length + new.length)] }

/-- `list(file.items())`. -/
def fastaItems (f : Fasta) : Except Err (List (Str × Str)) :=
  f.entries.mapM (fun e => (fastaGet f e.1).map (fun s => (e.1, s)))

/-- Lines written for a list of entries (`write_iter`, or `__setitem__` of fresh headers in order). -/
def fastaPrint (w : Nat) : List (Str × Str) → List Str
  | [] => []
  | (h, s) :: es => fastaNewLines w (normHeader h) s ++ fastaPrint w es

/-! ## FASTQ -/

/-- Two's-complement store into `int8`. -/
def wrap8 (x : Int) : Int := (x + 128) % 256 - 128

/-- `_scores_to_score_str` (repaired): `scores + offset` in int64; a value that is not a printable,
non-blank ASCII code (`'!'`..`'~'`, 33..126) is rejected with `ValueError` (it used to be cast to
`int8`, and blanks / control characters / line breaks were written into the score line). -/
def encodeScores (off : Int) (qs : List Int) : Except Err Str :=
  qs.mapM (fun q => let b := q + off
                    if b < 33 ∨ 126 < b then .error .valueError else .ok (Char.ofNat b.toNat))

/-- `_score_str_to_scores` (repaired): ASCII code minus offset in the documented `int` type
(it used to be computed in place in `int8`); non-ASCII raises `UnicodeEncodeError`. -/
def decodeScores (off : Int) (s : Str) : Except Err (List Int) :=
  if s.any (fun c => c.toNat ≥ 128) then .error (.other "UnicodeEncodeError") else
  .ok (s.map (fun c => (c.toNat : Int) - off))

inductive QMode where
  | idle
  | inSeq (ident : Str) (seqStart seqLen : Nat)
  | inScores (ident : Str) (seqStart seqStop seqLen scoreLen : Nat)
  deriving DecidableEq

abbrev QRaw := Str × Nat × Nat × Nat × Nat

/-- The loop of `FastqFile._find_entries` from line index `i` in mode `m`. -/
def qFind : QMode → Nat → List Str → Except Err (List QRaw)
  | .idle, _, [] => .ok []
  | _, _, [] => .error .invalidFile
  | .idle, i, line :: rest =>
    match line with
    | [] => .error .indexError
    | c :: cs => if c = '@' then qFind (.inSeq cs (i + 1) 0) (i + 1) rest else .error .invalidFile
  | .inSeq id ss sl, i, line :: rest =>
    match line with
    | [] => .error .indexError
    | c :: _ =>
      if c = '+' then qFind (.inScores id ss i sl 0) (i + 1) rest
      else qFind (.inSeq id ss (sl + line.length)) (i + 1) rest
  | .inScores id ss se sl ql, i, line :: rest =>
    let ql' := ql + line.length
    if ql' < sl then qFind (.inScores id ss se sl ql') (i + 1) rest
    else if ql' = sl then
      match qFind .idle (i + 1) rest with
      | .ok es => .ok ((id, ss, se, se + 1, i + 1) :: es)
      | .error e => .error e
    else .error .invalidFile

def fastqFind (lines : List Str) : Except Err (List QRaw) :=
  match qFind .idle 0 lines with
  | .ok raw => .ok (odOfList raw)
  | .error e => .error e

structure Fastq where
  lines : List Str
  entries : List QRaw
  off : Int
  cpl : Option Nat
  deriving DecidableEq

def Fastq.empty (off : Int) (cpl : Option Nat) : Fastq := ⟨[], [], off, cpl⟩

/-- `FastqFile.read`. -/
def fastqRead (text : List Str) (off : Int) (cpl : Option Nat) : Except Err Fastq :=
  let ls := (text.map strip).filter (fun l => !l.isEmpty)
  if ls.isEmpty then .error .invalidFile else
  match fastqFind ls with
  | .ok es => .ok ⟨ls, es, off, cpl⟩
  | .error e => .error e

/-- `FastqFile.__getitem__`: sequence string and decoded scores. -/
def fastqGet (f : Fastq) (id : Str) : Except Err (Str × List Int) :=
  match f.entries.lookup id with
  | none => .error .keyError
  | some (a, b, c, d) =>
    match decodeScores f.off (sliceL f.lines c d).flatten with
    | .ok qs => .ok ((sliceL f.lines a b).flatten, qs)
    | .error e => .error e

/-- `FastqFile.__delitem__`. -/
def fastqDel (f : Fastq) (id : Str) : Except Err Fastq :=
  match f.entries.lookup id with
  | none => .error .keyError
  | some (a, _, _, d) =>
    let ls := f.lines.take (a - 1) ++ f.lines.drop d
    match fastqFind ls with
    | .ok es => .ok { f with lines := ls, entries := es }
    | .error e => .error e

/-- chunks of a sequence / score string: one line (`chars_per_line=None`) or `wrap_string`. -/
def qChunks (cpl : Option Nat) (s : Str) : List Str :=
  match cpl with
  | none => [s]
  | some w => wrap w s

def fastqNewLines (cpl : Option Nat) (id seq sc : Str) : List Str :=
  ('@' :: id) :: qChunks cpl seq ++ ['+'] :: qChunks cpl sc

/-- `FastqFile.__setitem__` (repaired: the key is the normalised identifier).  The new lines are
built first (a rejected replacement changes nothing), then an existing entry is deleted; the code then tests `identifier in self` a second time (true
only if the text held the identifier twice) and in that case deletes again and re-indexes. -/
def fastqSet (f : Fastq) (id seq : Str) (qs : List Int) : Except Err Fastq :=
  if seq.length ≠ qs.length then .error .valueError else
  if seq.isEmpty then .error .valueError else      -- repaired: an empty sequence is rejected
  let id := normHeader id
  -- repaired: the new lines are built first, a rejected replacement keeps the old entry
  if f.cpl = some 0 then .error .valueError else
  match encodeScores f.off qs with
  | .error e => .error e
  | .ok sc =>
    let new := fastqNewLines f.cpl id seq sc
    let del : Except Err Fastq := if (f.entries.lookup id).isSome then fastqDel f id else .ok f
    match del with
    | .error e => .error e
    | .ok f1 =>
      if (f1.entries.lookup id).isSome then
        match fastqDel f1 id with
        | .error e => .error e
        | .ok f2 =>
          let ls := f2.lines ++ new
          match fastqFind ls with
          | .ok es => .ok { f2 with lines := ls, entries := es }
          | .error e => .error e
      else
        let n := f1.lines.length
        let nseq := (qChunks f.cpl seq).length
        .ok { f1 with lines := f1.lines ++ new,
                      entries := f1.entries ++ [(id, n + 1, n + 1 + nseq, n + 2 + nseq, n + new.length)] }

def fastqItems (f : Fastq) : Except Err (List (Str × Str × List Int)) :=
  f.entries.mapM (fun e => (fastqGet f e.1).map (fun s => (e.1, s)))

end BiotiteModel.C12

import BiotiteModel.Common
/-!
# C03 — alphabets and sequences (model of `sequence/alphabet.py`, `codec.pyx`, `sequence.py`)

* A generic `Alphabet` is a list of symbols of any type with decidable equality; a symbol
  code is the position in that list.
* A `LetterAlphabet` is a list of byte values; `encode_chars` / `decode_to_chars` of
  `codec.pyx` are modelled with their 256-entry table and `uint8` illegal-code sentinel.
* A `Sequence` is an alphabet plus a list of codes (`Seq`).

Import-free and executable: the same definitions drive the correspondence check.
-/
namespace BiotiteModel.C03

/-- `mapM` in `Except Err`, written out so that proofs can unfold it. -/
def mapE {α β : Type} (f : α → Except Err β) : List α → Except Err (List β)
  | [] => .ok []
  | x :: xs =>
    match f x with
    | .error e => .error e
    | .ok y =>
      match mapE f xs with
      | .error e => .error e
      | .ok ys => .ok (y :: ys)

section Generic
variable {α : Type} [DecidableEq α]

/-- Position of the first occurrence. -/
def indexOf? : List α → α → Option Nat
  | [], _ => none
  | a :: as, s => if a = s then some 0 else (indexOf? as s).map (· + 1)

/-- `Alphabet.encode(symbol)`. -/
def encode1 (alph : List α) (s : α) : Except Err Nat :=
  match indexOf? alph s with
  | some i => .ok i
  | none => .error .alphabetError

/-- `Alphabet.decode(code)`: `if code < 0 or code >= len(symbols): raise AlphabetError`. -/
def decode1 (alph : List α) (c : Int) : Except Err α :=
  if c < 0 ∨ (alph.length : Int) ≤ c then .error .alphabetError
  else
    match alph[c.toNat]? with
    | some s => .ok s
    | none => .error (.other "unreachable")

/-- `Alphabet.encode_multiple`. -/
def encode (alph : List α) (xs : List α) : Except Err (List Nat) := mapE (encode1 alph) xs
/-- `Alphabet.decode_multiple`. -/
def decode (alph : List α) (cs : List Int) : Except Err (List α) := mapE (decode1 alph) cs

/-- `self.extends(other)`: `other` is a prefix of `self`. -/
def extends_ (self other : List α) : Bool :=
  decide (other.length ≤ self.length) && decide (other = self.take other.length)

/-- `AlphabetMapper(source, target)`: `none` when no mapping is necessary. -/
def mapperNew (src tgt : List α) : Except Err (Option (List Nat)) :=
  if extends_ tgt src then .ok none
  else
    match mapE (encode1 tgt) src with
    | .ok t => .ok (some t)
    | .error e => .error e

/-- `mapper[codes]` for an unsigned code array (`map_sequence_code`, bounds-checked). -/
def mapperApply (m : Option (List Nat)) (codes : List Nat) : Except Err (List Nat) :=
  match m with
  | none => .ok codes
  | some t => mapE (fun c => match t[c]? with | some v => .ok v | none => .error .indexError) codes

end Generic

/-! ## `codec.pyx` -/

/-- `sym_to_code` after `for i, symbol in enumerate(alphabet): sym_to_code[symbol] = i`
(entries are `uint8`), as a function on byte values; `i` is the running index. -/
def symTable : List Nat → Nat → (Nat → Nat) → (Nat → Nat)
  | [], _, t => t
  | a :: as, i, t => symTable as (i + 1) (fun s => if s = a then i % 256 else t s)

/-- `encode_chars(alphabet, symbols)`; both are byte arrays. -/
def encodeChars (alph : List Nat) (syms : List Nat) : Except Err (List Nat) :=
  let illegal := alph.length % 256
  let tbl := symTable alph 0 (fun _ => illegal)
  mapE (fun s => if tbl s = illegal then .error .alphabetError else .ok (tbl s)) syms

/-- `decode_to_chars(alphabet, code)`; `code` is a `uint8` array. -/
def decodeToChars (alph : List Nat) (codes : List Nat) : Except Err (List Nat) :=
  mapE (fun c =>
    if alph.length ≤ c then .error .alphabetError
    else match alph[c]? with
      | some s => .ok s
      | none => .error (.other "unreachable")) codes

/-- `LetterAlphabet.decode_multiple(code)` (repaired code: range check before the `uint8`
cast unless the array is `uint8` already). -/
def letterDecodeMultiple (alph : List Nat) (isU8 : Bool) (cs : List Int) : Except Err (List Nat) :=
  if !isU8 && cs.any (fun c => decide (c < 0 ∨ (alph.length : Int) ≤ c)) then .error .alphabetError
  else decodeToChars alph (cs.map fun c => (c % 256).toNat)

/-- `LetterAlphabet.PRINTABLES`: digits, letters, punctuation = every visible ASCII character. -/
def printable (b : Nat) : Bool := decide (33 ≤ b ∧ b ≤ 126)

/-- `LetterAlphabet.__init__`. -/
def letterAlphabetNew (syms : List Nat) : Except Err (List Nat) :=
  if syms.isEmpty then .error .valueError
  else if syms.all printable then .ok syms
  else .error .valueError

/-! ## `Sequence` -/

/-- `Sequence.dtype(alphabet_size)`: number of bits of the code array. -/
def dtypeBits (n : Nat) : Nat :=
  if n ≤ 256 then 8 else if n ≤ 65536 then 16 else if n ≤ 4294967296 then 32 else 64

/-- A sequence object: class tag (`0` general, `1` nucleotide, `2` protein), alphabet, codes. -/
structure Seq (α : Type) where
  kind : Nat
  alph : List α
  codes : List Nat
  deriving DecidableEq, Repr

section SeqOps
variable {α : Type} [DecidableEq α]

/-- `Sequence.__init__` / `symbols` setter. -/
def Seq.new (kind : Nat) (alph : List α) (syms : List α) : Except Err (Seq α) :=
  match encode alph syms with
  | .ok cs => .ok ⟨kind, alph, cs⟩
  | .error e => .error e

/-- `Sequence.symbols` (and `str()`, which joins them). -/
def Seq.symbols (s : Seq α) : Except Err (List α) := decode s.alph (s.codes.map Int.ofNat)

/-- `Sequence.code = value` (repaired code): `sameDtype` skips the check; otherwise every
value must fit the unsigned code dtype. -/
def Seq.setCode (s : Seq α) (sameDtype : Bool) (vals : List Int) : Except Err (Seq α) :=
  if !sameDtype && vals.any (fun v => decide (v < 0 ∨ (2 : Int) ^ dtypeBits s.alph.length ≤ v)) then
    .error .alphabetError
  else .ok { s with codes := vals.map Int.toNat }

/-- numpy integer index normalisation. -/
def normIndex (n : Nat) (i : Int) : Except Err Nat :=
  if 0 ≤ i ∧ i < n then .ok i.toNat
  else if i < 0 ∧ -(n : Int) ≤ i then .ok (i + n).toNat
  else .error .indexError

/-- `sequence[i]` for an integer `i`. -/
def Seq.getItem (s : Seq α) (i : Int) : Except Err α :=
  match normIndex s.codes.length i with
  | .error e => .error e
  | .ok k =>
    match s.codes[k]? with
    | some c => decode1 s.alph c
    | none => .error (.other "unreachable")

/-- Python slice bound clamping for step 1. -/
def clampBound (n : Nat) (b : Option Int) (dflt : Nat) : Nat :=
  match b with
  | none => dflt
  | some i => if i < 0 then (i + n).toNat else min i.toNat n

/-- `(start, stop)` of `a:b` on a length-`n` array, `start ≤ stop`. -/
def sliceBounds (n : Nat) (a b : Option Int) : Nat × Nat :=
  let lo := clampBound n a 0
  let hi := clampBound n b n
  (lo, max lo hi)

/-- `sequence[a:b]`. -/
def Seq.slice (s : Seq α) (a b : Option Int) : Seq α :=
  let (lo, hi) := sliceBounds s.codes.length a b
  { s with codes := (s.codes.take hi).drop lo }

/-- `sequence[i] = symbol`. -/
def Seq.setItem (s : Seq α) (i : Int) (sym : α) : Except Err (Seq α) :=
  match encode1 s.alph sym with
  | .error e => .error e
  | .ok c =>
    match normIndex s.codes.length i with
    | .error e => .error e
    | .ok k => .ok { s with codes := s.codes.set k c }

/-- numpy slice assignment `codes[a:b] = cs`: equal length, or length 1 broadcast. -/
def placeCodes (codes : List Nat) (a b : Option Int) (cs : List Nat) : Except Err (List Nat) :=
  let (lo, hi) := sliceBounds codes.length a b
  let n := hi - lo
  let mid? : Option (List Nat) :=
    if cs.length = n then some cs
    else match cs with
      | [c] => some (List.replicate n c)
      | _ => none
  match mid? with
  | some mid => .ok (codes.take lo ++ mid ++ codes.drop hi)
  | none => .error .valueError

/-- `sequence[a:b] = symbols`. -/
def Seq.setSlice (s : Seq α) (a b : Option Int) (syms : List α) : Except Err (Seq α) :=
  match encode s.alph syms with
  | .error e => .error e
  | .ok cs =>
    match placeCodes s.codes a b cs with
    | .ok c => .ok { s with codes := c }
    | .error e => .error e

/-- `sequence[a:b] = ndarray` (repaired code: values must fit the code dtype unless the dtype
is the same already). -/
def Seq.setSliceCodes (s : Seq α) (sameDtype : Bool) (a b : Option Int) (vals : List Int) : Except Err (Seq α) :=
  if !sameDtype && vals.any (fun v => decide (v < 0 ∨ (2 : Int) ^ dtypeBits s.alph.length ≤ v)) then
    .error .alphabetError
  else
    match placeCodes s.codes a b (vals.map Int.toNat) with
    | .ok c => .ok { s with codes := c }
    | .error e => .error e

/-- `a + b`. -/
def Seq.add (a b : Seq α) : Except Err (Seq α) :=
  if extends_ a.alph b.alph then .ok { a with codes := a.codes ++ b.codes }
  else if extends_ b.alph a.alph then .ok { b with codes := a.codes ++ b.codes }
  else .error .valueError

/-- `sequence.reverse()`. -/
def Seq.reverse (s : Seq α) : Seq α := { s with codes := s.codes.reverse }

/-- `a == b`. -/
def Seq.beq (a b : Seq α) : Bool :=
  decide (a.kind = b.kind) && decide (a.alph = b.alph) && decide (a.codes = b.codes)

/-- `sequence.is_valid()`. -/
def Seq.isValid (s : Seq α) : Bool := s.codes.all (fun c => decide (c < s.alph.length))

end SeqOps

/-! ## Nucleotide / protein sequences -/

/-- ASCII `str.upper()` on one byte. -/
def upperByte (b : Nat) : Nat := if 97 ≤ b ∧ b ≤ 122 then b - 32 else b

/-- `NucleotideSequence(string)` with `ambiguous=None`. -/
def nucNew (unamb amb : List Nat) (s : List Nat) : Except Err (Seq Nat) :=
  let u := s.map upperByte
  match encodeChars unamb u with
  | .ok cs => .ok ⟨1, unamb, cs⟩
  | .error _ =>
    match encodeChars amb u with
    | .ok cs => .ok ⟨1, amb, cs⟩
    | .error e => .error e

/-- `ProteinSequence(string)` (single-letter symbols). -/
def protNew (alph : List Nat) (s : List Nat) : Except Err (Seq Nat) :=
  match encodeChars alph (s.map upperByte) with
  | .ok cs => .ok ⟨2, alph, cs⟩
  | .error e => .error e

/-- `lookup` in the complement dict with `KeyError`. -/
def complSym (dict : List (Nat × Nat)) (s : Nat) : Except Err Nat :=
  match dict.lookup s with
  | some v => .ok v
  | none => .error .keyError

/-- `NucleotideSequence._compl_mapper`: mapper from the alphabet of complement symbols
(in the order of the ambiguous alphabet) into the ambiguous alphabet. -/
def complMapper (amb : List Nat) (dict : List (Nat × Nat)) : Except Err (Option (List Nat)) :=
  match mapE (complSym dict) amb with
  | .error e => .error e
  | .ok complAlph => mapperNew complAlph amb

/-- `NucleotideSequence.complement()` on the code array. -/
def complementCodes (amb : List Nat) (dict : List (Nat × Nat)) (codes : List Nat) : Except Err (List Nat) :=
  match complMapper amb dict with
  | .error e => .error e
  | .ok m => mapperApply m codes

/-! ## Less-used entry points -/

section More
variable {α : Type} [DecidableEq α]

/-- `common_alphabet(alphabets)`: the alphabet that extends all others, if there is one. -/
def commonAlphabet : List (List α) → Option (List α) → Option (Option (List α))
  | [], cur => some cur
  | a :: rest, none => commonAlphabet rest (some a)
  | a :: rest, some c =>
    if extends_ c a then commonAlphabet rest (some c)
    else if extends_ a c then commonAlphabet rest (some a)
    else none

/-- `sequence.symbols = value`. -/
def Seq.setSymbols (s : Seq α) (syms : List α) : Except Err (Seq α) :=
  match encode s.alph syms with
  | .ok cs => .ok { s with codes := cs }
  | .error e => .error e

/-- `get_symbol_frequency()`: occurrences of every alphabet symbol. -/
def Seq.frequency (s : Seq α) : List Nat :=
  (List.range s.alph.length).map fun i => s.codes.count i

/-- `sequence[a:b] = other_sequence` (repaired code): assignment of a Sequence is assignment of its
symbols.  If this alphabet extends the other one the codes coincide and are copied; otherwise the
other sequence's symbols are encoded again (a symbol outside this alphabet → `AlphabetError`). -/
def Seq.setSliceSeq (s : Seq α) (a b : Option Int) (item : Seq α) : Except Err (Seq α) :=
  if extends_ s.alph item.alph then
    match placeCodes s.codes a b item.codes with
    | .ok c => .ok { s with codes := c }
    | .error e => .error e
  else
    match item.symbols with
    | .error e => .error e
    | .ok syms => s.setSlice a b syms

/-- `general_sequence.as_type(other)`: `other` receives the code if its alphabet extends this one. -/
def Seq.asType (a b : Seq α) : Except Err (Seq α) :=
  if extends_ b.alph a.alph then .ok { b with codes := a.codes } else .error .alphabetError

end More

/-- `NucleotideSequence(string, ambiguous=flag)` with an explicit flag. -/
def nucNewFlag (unamb amb : List Nat) (flag : Bool) (s : List Nat) : Except Err (Seq Nat) :=
  let al := if flag then amb else unamb
  match encodeChars al (s.map upperByte) with
  | .ok cs => .ok ⟨1, al, cs⟩
  | .error e => .error e

/-- `ProteinSequence(list of symbols)`: 3-letter codes are translated with `_dict_3to1` (unknown
→ `AlphabetError`, repaired code), everything else is upper-cased and must be a single letter. -/
def protNew3 (alph : List Nat) (d3to1 : List (List Nat × Nat)) (toks : List (List Nat)) : Except Err (Seq Nat) :=
  let conv (t : List Nat) : Except Err (List Nat) :=
    let u := t.map upperByte
    if t.length = 3 then
      match d3to1.lookup u with
      | some b => .ok [b]
      | none => .error .alphabetError
    else .ok u
  match mapE conv toks with
  | .error e => .error e
  | .ok syms =>
    if syms.any (fun x => x.length ≠ 1) then .error .alphabetError
    else
      match encodeChars alph syms.flatten with
      | .ok cs => .ok ⟨2, alph, cs⟩
      | .error e => .error e

end BiotiteModel.C03

import BiotiteModel.Model.C08
/-!
# C09 — executable models of the three alignment heuristics and the verified checker

Re-uses the C08 interface (`Seq`, `Mat`, `Col`, `Aln`, `Mode`, `Gap`, `walk`, `score`, `opt*`, `Rec`).

* `checkResult a b M gap mode band seed dir trace score : Bool` — the checker run on every actual output of
  `align_banded`, `align_local_gapped`, `align_local_ungapped` (soundness: `Props/C09.lean`).
* `complete a b aln` — a semi-global result completed by the unaligned sequence ends.
* `bandedRec` / `bandedFill` / `bandedScore` — `align_banded` with a linear penalty: swap + transpose, band
  normalisation and cropping, the table in classic coordinates (cell `(i, j)` of the classic table is cell
  `(i, j - i - lower + 1)` of the straightened table of the code; out-of-band = `none` = the `neg_inf` columns),
  trace start cells of `get_global_trace_starts`.
* `bandedAffScore` — the affine variant with the code's concrete `neg_inf` sentinel and int32 wrap-around
  (the sentinel underflows for some penalties: modelled as it is, see `C09_banded_neginf_defect`).
* `xdropExtend` / `ungappedScore` — `_seed_extend_*` and `align_local_ungapped`.
* `regionLin` / `regionAff` / `gappedScore` — `_align_region` (X-drop antidiagonal fill with pruning and the
  doubling table growth with `max_table_size`) and `align_local_gapped`; `scoreOnly` selects the `_max` code path
  instead of `get_trace_linear/affine`.
No Mathlib.
-/
namespace BiotiteModel.C09
open BiotiteModel BiotiteModel.C08

inductive XDir where
  | both | upstream | downstream
  deriving DecidableEq, Repr

/-! ## Completion of a semi-global result by the unaligned ends -/

/-- `gapB i, gapB (i+1), …` (`k` columns): symbols of the first sequence against gaps -/
def gapBs (i : Nat) : Nat → Aln
  | 0 => []
  | k + 1 => .gapB i :: gapBs (i + 1) k

/-- `gapA j, gapA (j+1), …` (`k` columns): symbols of the second sequence against gaps -/
def gapAs (j : Nat) : Nat → Aln
  | 0 => []
  | k + 1 => .gapA j :: gapAs (j + 1) k

/-- The returned trace with the unaligned ends of both sequences added as (free) terminal gap columns. -/
def complete (a b : Seq) (aln : Aln) : Aln :=
  match walk (firstA aln, firstB aln) aln with
  | some (i1, j1) =>
    gapBs 0 (firstA aln) ++ gapAs 0 (firstB aln) ++ aln ++ gapBs i1 (a.length - i1) ++ gapAs j1 (b.length - j1)
  | none => aln

/-- the score recomputed from the trace: semi-global results are completed first (public `align.score` with
`terminal_penalty=False`), local / seeded results are scored as they are (`terminal_penalty=True`). -/
def rescored (mode : Mode) (gap : Gap) (M : Mat) (a b : Seq) (aln : Aln) : Int :=
  match mode with
  | .semi => score .semi gap M a b (complete a b aln)
  | m => score m gap M a b aln

/-! ## The checker -/

def inBandCol (lo hi : Int) : Col → Bool
  | .both i j => decide (lo ≤ (j : Int) - (i : Int)) && decide ((j : Int) - (i : Int) ≤ hi)
  | _ => true

def bandOk (band : Option (Int × Int)) (aln : Aln) : Bool :=
  match band with
  | none => true
  | some (d1, d2) => aln.all (inBandCol (min d1 d2) (max d1 d2))

def seedOk (seed : Option (Nat × Nat)) (dir : XDir) (aln : Aln) : Bool :=
  match seed with
  | none => true
  | some (si, sj) =>
    aln.contains (.both si sj) &&
    (match dir with
     | .both => true
     | .upstream => aln.getLast? == some (.both si sj)
     | .downstream => aln.head? == some (.both si sj))

/-! ## The abutting-allowed affine semi-global optimum (class `affAbutFree`) -/

/-- Three-state recursion like C08's `affRec .semi`, plus the transitions between the two gap states where one of the
two gaps is a FREE terminal gap (leading: out of row 0 / column 0; trailing: inside the last row / column) — what
`align_banded`'s table explores, because it starts every border cell in the match state and may stop in the last
row / column in any state.  `none` = −∞. -/
def abutRec (M : Mat) (go ge : Int) (a b : Seq) : Rec AffCell where
  border := (affRec .semi M go ge a b).border
  cell := fun i j d l t =>
    let s := sub M a b i j
    let mS := omax (oadd d.m s) (omax (oadd d.g1 s) (oadd d.g2 s))
    let freeL : Bool := i + 1 == a.length
    let freeT : Bool := j + 1 == b.length
    let g1S := omax (omax (oadd l.m (if freeL then 0 else go)) (oadd l.g1 (if freeL then 0 else ge)))
                 (if freeL then oadd l.g2 0 else if j = 0 then oadd l.g2 go else none)
    let g2S := omax (omax (oadd t.m (if freeT then 0 else go)) (oadd t.g2 (if freeT then 0 else ge)))
                 (if freeT then oadd t.g1 0 else if i = 0 then oadd t.g1 go else none)
    ⟨mS, g1S, g2S⟩

/-- the optimum over end-to-end alignments in which a gap may abut a gap of the other sequence only if one of the
two is a free terminal gap (specification, by recursion) -/
def optAffAbutFree (M : Mat) (go ge : Int) (a b : Seq) : Int :=
  (((abutRec M go ge a b).val a.length b.length).best).getD 0

/-- the same, read off the table filled row by row (executable) -/
def optAffAbutFreeT (M : Mat) (go ge : Int) (a b : Seq) : Int :=
  match ((abutRec M go ge a b).row b.length a.length).getLast? with
  | some c => c.best.getD 0
  | none => 0

/-! ## the C08 optimum read off a table that is built ONCE (C08's `Rec.table` recomputes every row from row 0) -/

/-- rows `i, i+1, …, i+k` given row `i` -/
def rowsGo {α : Type} (R : Rec α) (i : Nat) : Nat → List α → List (List α)
  | 0, cur => [cur]
  | k + 1, cur => cur :: rowsGo R (i + 1) k (R.nextRow i cur)

/-- `Rec.table`, each row computed from its predecessor -/
def tableFast {α : Type} (R : Rec α) (m n : Nat) : List (List α) := rowsGo R 0 n (R.row m 0)

/-- `optT` with the local tables built incrementally (`optTFast_eq` in Proofs/C09.lean) -/
def optTFast (mode : Mode) (gap : Gap) (M : Mat) (a b : Seq) : Int :=
  match mode, gap with
  | .local, .lin g => listMax 0 (tableFast (linRec .local M g a b) b.length a.length).flatten
  | .local, .aff go ge => listMax 0 ((tableFast (affRec .local M go ge a b) b.length a.length).flatten.filterMap (·.m))
  | mode, gap => optT mode gap M a b

/-- the reported score against the optimum of the class the (completed) alignment belongs to (`optClass`):
linear penalty -> `opt mode`; affine, no gap abuts a gap (free terminal gaps included) -> `optAff mode` (C08's class);
affine semi-global, an interior gap run abuts a free terminal gap -> `optAffAbutFree` (three-state recursion with the
free-border transitions; `optAff .semi ≤ optAffAbutFree ≤ optSemi M (max go ge)` is proved, its agreement with an
independent enumeration/recursion is checked on every case by the `abf` op) -/
def optOk (a b : Seq) (M : Mat) (gap : Gap) (mode : Mode) (aln : Aln) (sc : Int) : Bool :=
  match mode, gap with
  | .semi, .aff go ge =>
    if noAbutB (complete a b aln) then decide (sc ≤ optT .semi (.aff go ge) M a b)
    else decide (sc ≤ optAffAbutFreeT M go ge a b)
  | mode, gap => decide (sc ≤ optTFast mode gap M a b)

/-- linear semi-global: also the positional form of the score; affine: no gap abuts a gap inside the trace -/
def formOk (a b : Seq) (M : Mat) (gap : Gap) (mode : Mode) (aln : Aln) (sc : Int) : Bool :=
  match mode, gap with
  | .semi, .lin g => decide (scoreSemiPos M g a b (0, 0) (complete a b aln) = sc)
  | _, .lin _ => true
  | _, .aff _ _ => noAbutB aln

def checkAln (a b : Seq) (M : Mat) (gap : Gap) (mode : Mode) (band : Option (Int × Int))
    (seed : Option (Nat × Nat)) (dir : XDir) (aln : Aln) (sc : Int) : Bool :=
  validB .local a b aln
  && decide (rescored mode gap M a b aln = sc)
  && formOk a b M gap mode aln sc
  && bandOk band aln
  && seedOk seed dir aln
  && optOk a b M gap mode aln sc

/-- Which optimum an affine semi-global result is compared with. -/
inductive OptClass where
  | linear          -- linear penalty: the true optimum `opt mode`
  | affNoAbut       -- affine, (completed) alignment without abutting gaps: `optAff mode` (C08's class)
  | affAbutFree     -- affine semi-global, an interior gap run abuts a free terminal gap: outside C08's class
  deriving DecidableEq, Repr

def optClass (a b : Seq) (gap : Gap) (mode : Mode) (aln : Aln) : OptClass :=
  match mode, gap with
  | _, .lin _ => .linear
  | .semi, .aff _ _ => if noAbutB (complete a b aln) then .affNoAbut else .affAbutFree
  | _, .aff _ _ => .affNoAbut

/-- `mode` is `.semi` for `align_banded(local=False)` and `.local` for everything else. -/
def checkResult (a b : Seq) (M : Mat) (gap : Gap) (mode : Mode) (band : Option (Int × Int))
    (seed : Option (Nat × Nat)) (dir : XDir) (trace : List (Int × Int)) (sc : Int) : Bool :=
  match traceToAln trace with
  | some aln => checkAln a b M gap mode band seed dir aln sc
  | none => false

/-! ## `align_banded`, linear penalty -/

def Mat.transpose (M : Mat) : Mat := fun x y => M y x

structure BandSetup where
  a : Seq
  b : Seq
  M : Mat
  lower : Int
  upper : Int
  swapped : Bool

/-- swap (shorter sequence first) + transpose, `min/max` of the band, the two `ValueError`s, cropping -/
def bandSetup (a b : Seq) (M : Mat) (band : Int × Int) : Except Err BandSetup :=
  let sw := decide (b.length < a.length)
  let a' := if sw then b else a
  let b' := if sw then a else b
  let M' := if sw then Mat.transpose M else M
  let d1 := if sw then -band.1 else band.1
  let d2 := if sw then -band.2 else band.2
  let lo := min d1 d2
  let hi := max d1 d2
  if (a'.length : Int) + hi ≤ 0 ∨ lo ≥ (b'.length : Int) then .error .valueError else
  let lo := max lo (-(a'.length : Int) + 1)
  let hi := min hi ((b'.length : Int) - 1)
  if hi - lo + 1 < 1 then .error .valueError else
  .ok ⟨a', b', M', lo, hi, sw⟩

def inBand (lo hi : Int) (i j : Nat) : Bool := decide (lo ≤ (j : Int) - (i : Int)) && decide ((j : Int) - (i : Int) ≤ hi)

/-- The banded table in classic coordinates (`i`, `j` = symbols consumed).  In-band cells of row 0 and column 0
are the zeros of `np.zeros` (free start), cells outside the band are the `neg_inf` border (`none`). -/
def bandedRec (loc : Bool) (M : Mat) (g : Int) (a b : Seq) (lo hi : Int) : Rec (Option Int) where
  border := fun i j => if inBand lo hi i j then some 0 else none
  cell := fun i j d l t =>
    if inBand lo hi (i + 1) (j + 1) then
      let v := omax (oadd d (sub M a b i j)) (omax (oadd l g) (oadd t g))
      if loc && !(opos v) then some 0 else v
    else none

/-- all rows of the banded table -/
def bandedFill (loc : Bool) (M : Mat) (g : Int) (a b : Seq) (lo hi : Int) : List (List (Option Int)) :=
  (bandedRec loc M g a b lo hi).table b.length a.length

/-- diagonals `lo, lo+1, …` (`k` of them) -/
def diags (lo : Int) : Nat → List Int
  | 0 => []
  | k + 1 => lo :: diags (lo + 1) k

/-- `get_global_trace_starts`: for every diagonal of the band the cell in the last row if it lies inside the
table, otherwise the cell of that diagonal in the last column. -/
def startCells (n m : Nat) (lo hi : Int) : List (Nat × Nat) :=
  (diags lo (hi - lo + 1).toNat).map fun d =>
    if (n : Int) + d ≤ (m : Int) then (n, ((n : Int) + d).toNat) else (((m : Int) - d).toNat, m)

def omaxList (l : List (Option Int)) : Option Int := l.foldl omax none

def tableGet {α : Type} (t : List (List α)) (i j : Nat) : Option α := t[i]?.bind (·[j]?)

/-- the score `align_banded` reports for a linear penalty, on the already swapped / cropped setup -/
def bandedScoreSetup (loc : Bool) (g : Int) (s : BandSetup) : Int :=
  let t := bandedFill loc s.M g s.a s.b s.lower s.upper
  if loc then
    listMax 0 (t.flatten.filterMap id)
  else
    ((omaxList ((startCells s.a.length s.b.length s.lower s.upper).map fun p => (tableGet t p.1 p.2).bind id))).getD 0

/-! ## `align_banded`, affine penalty: concrete sentinel and int32 wrap-around -/

def wrap32 (x : Int) : Int := (x + 2147483648) % 4294967296 - 2147483648

structure ACell where
  m : Int
  g1 : Int
  g2 : Int
  deriving DecidableEq, Repr

def max3i (x y z : Int) : Int := max x (max y z)

def bandedAffRec (loc : Bool) (M : Mat) (go ge : Int) (a b : Seq) (lo hi : Int) (negInf : Int) : Rec ACell where
  border := fun i j => if inBand lo hi i j then ⟨0, negInf, negInf⟩ else ⟨negInf, negInf, negInf⟩
  cell := fun i j d l t =>
    if inBand lo hi (i + 1) (j + 1) then
      let s := sub M a b i j
      let mS := max3i (wrap32 (d.m + s)) (wrap32 (d.g1 + s)) (wrap32 (d.g2 + s))
      let g1S := max (wrap32 (l.m + go)) (wrap32 (l.g1 + ge))
      let g2S := max (wrap32 (t.m + go)) (wrap32 (t.g2 + ge))
      if loc then ⟨if mS ≤ 0 then 0 else mS, if g1S ≤ 0 then negInf else g1S, if g2S ≤ 0 then negInf else g2S⟩
      else ⟨mS, g1S, g2S⟩
    else ⟨negInf, negInf, negInf⟩

/-- `neg_inf = iinfo(int32).min - min(gap) - min(min_score, 0)` -/
def negInfOf (go ge minScore : Int) : Int := -2147483648 - min go ge - min minScore 0

/-- the same table with `none` for −∞ (no sentinel arithmetic): what the code computes whenever the sentinel cannot
underflow (`underflowRisk = false`) -/
def bandedAffRecO (loc : Bool) (M : Mat) (go ge : Int) (a b : Seq) (lo hi : Int) : Rec AffCell where
  border := fun i j => if inBand lo hi i j then ⟨some 0, none, none⟩ else ⟨none, none, none⟩
  cell := fun i j d l t =>
    if inBand lo hi (i + 1) (j + 1) then
      let s := sub M a b i j
      let mS := omax (oadd d.m s) (omax (oadd d.g1 s) (oadd d.g2 s))
      let g1S := omax (oadd l.m go) (oadd l.g1 ge)
      let g2S := omax (oadd t.m go) (oadd t.g2 ge)
      if loc then ⟨if opos mS then mS else some 0, if opos g1S then g1S else none, if opos g2S then g2S else none⟩
      else ⟨mS, g1S, g2S⟩
    else ⟨none, none, none⟩

/-- `neg_inf + max(open, ext) + ext` falls below `INT32_MIN` (the known finding) -/
def underflowRisk (go ge minScore : Int) : Bool := decide (max go ge + ge < min go ge + min minScore 0)

def bandedAffScoreSetupO (loc : Bool) (go ge : Int) (s : BandSetup) : Int :=
  let t := (bandedAffRecO loc s.M go ge s.a s.b s.lower s.upper).table s.b.length s.a.length
  if loc then
    listMax 0 (t.flatten.filterMap (·.m))
  else
    ((omaxList ((startCells s.a.length s.b.length s.lower s.upper).map fun p =>
      ((tableGet t p.1 p.2).map (·.best)).bind id))).getD 0

def bandedAffScoreSetupW (loc : Bool) (go ge minScore : Int) (s : BandSetup) : Int :=
  let ninf := negInfOf go ge minScore
  let t := (bandedAffRec loc s.M go ge s.a s.b s.lower s.upper ninf).table s.b.length s.a.length
  if loc then
    listMax 0 (t.flatten.map (·.m))
  else
    let cells := (startCells s.a.length s.b.length s.lower s.upper).filterMap fun p => tableGet t p.1 p.2
    match cells with
    | [] => 0
    | c :: r => listMax (max3i c.m c.g1 c.g2) (r.map fun c => max3i c.m c.g1 c.g2)

/-- semi-global: the sentinel model where it can underflow (code as it is), the `none` = −∞ model otherwise;
local: cells ≤ 0 are never stored, the sentinel cannot accumulate -/
def bandedAffScoreSetup (loc : Bool) (go ge minScore : Int) (s : BandSetup) : Int :=
  if !loc && underflowRisk go ge minScore then bandedAffScoreSetupW loc go ge minScore s
  else bandedAffScoreSetupO loc go ge s

/-- `align_banded(...)[*].score` (all returned alignments carry the same score) -/
def bandedScore (a b : Seq) (M : Mat) (minScore : Int) (gap : Gap) (loc : Bool) (band : Int × Int) (maxNumber : Int) :
    Except Err Int :=
  if gap.go > 0 ∨ gap.ge > 0 then .error .valueError else
  if maxNumber < 1 then .error .valueError else
  match bandSetup a b M band with
  | .error e => .error e
  | .ok s =>
    match gap with
    | .lin g => .ok (bandedScoreSetup loc g s)
    | .aff go ge => .ok (bandedAffScoreSetup loc go ge minScore s)

/-! ## `align_local_ungapped` -/

structure XState where
  total : Int
  best : Int
  len : Nat      -- `i_max_score + 1`
  idx : Nat
  stopped : Bool

/-- one iteration of the `_seed_extend_*` loop on the next substitution score -/
def xdropStep (thr : Int) (st : XState) (s : Int) : XState :=
  if st.stopped then st else
  let total := st.total + s
  if total ≥ st.best then ⟨total, total, st.idx + 1, st.idx + 1, false⟩
  else if st.best - total > thr then ⟨total, st.best, st.len, st.idx + 1, true⟩
  else ⟨total, st.best, st.len, st.idx + 1, false⟩

/-- `_seed_extend_generic / _uint8` on the list of substitution scores along the diagonal:
(`max_score`, number of aligned symbols). -/
def xdropExtend (thr : Int) (scores : List Int) : Int × Nat :=
  let st := scores.foldl (xdropStep thr) ⟨0, 0, 0, 0, false⟩
  (st.best, st.len)

/-- substitution scores of `x[k]` against `y[k]` for the common length -/
def diagScores (M : Mat) (x y : Seq) : List Int := (x.zip y).map fun p => M p.1 p.2

def dirUp : XDir → Bool
  | .downstream => false
  | _ => true

def dirDown : XDir → Bool
  | .upstream => false
  | _ => true

/-- `align_local_ungapped`: (score, first index offset `start_offset` as a length, number of columns behind the
seed).  The score-only call returns the same `total_score` (it only skips building the trace). -/
def ungapped (a b : Seq) (M : Mat) (seed : Int × Int) (thr : Int) (dir : XDir) : Except Err (Int × Nat × Nat) :=
  if thr < 0 then .error .valueError else
  if seed.1 < 0 ∨ seed.2 < 0 then .error .indexError else
  let si := seed.1.toNat
  let sj := seed.2.toNat
  if si ≥ a.length ∨ sj ≥ b.length then .error .indexError else
  let up := if dirUp dir && decide (si > 0) && decide (sj > 0) then
      xdropExtend thr (diagScores M (a.take si).reverse (b.take sj).reverse) else (0, 0)
  let down := if dirDown dir then xdropExtend thr (diagScores M (a.drop (si + 1)) (b.drop (sj + 1))) else (0, 0)
  .ok (up.1 + down.1 + M (a.getD si 0) (b.getD sj 0), up.2, down.2)

def ungappedScore (a b : Seq) (M : Mat) (seed : Int × Int) (thr : Int) (dir : XDir) : Except Err Int :=
  (ungapped a b M seed thr dir).map (·.1)

/-- the trace `align_local_ungapped` returns -/
def ungappedTrace (si sj up down : Nat) : Aln :=
  (List.range (up + 1 + down)).map fun k => .both (si - up + k) (sj - up + k)

/-! ## `align_local_gapped`: `_align_region` (X-drop) -/

/-- `get_trace_linear`: (trace bits, max score) -/
def traceLin (d l t : Int) : Nat × Int :=
  if d > l then
    if d > t then (1, d) else if d = t then (1 ||| 4, d) else (4, t)
  else if d = l then
    if d > t then (1 ||| 2, d) else if d = t then (1 ||| 2 ||| 4, d) else (4, t)
  else
    if l > t then (2, l) else if l = t then (2 ||| 4, l) else (4, t)

/-- the three maxima of `get_trace_affine` (the M / G1 / G2 decisions) -/
def traceAffM (mm g1m g2m : Int) : Int :=
  if mm > g1m then (if mm > g2m then mm else if mm = g2m then mm else g2m)
  else if mm = g1m then (if mm > g2m then mm else if mm = g2m then mm else g2m)
  else (if g1m > g2m then g1m else if g1m = g2m then g1m else g2m)

def traceAffG (mg gg : Int) : Int :=
  if mg > gg then mg else if mg < gg then gg else mg

def lookup0 (d : List (Nat × Int)) (i : Nat) : Int := (d.lookup i).getD 0

structure RegState where
  d1 : List (Nat × Int)      -- written cells of antidiagonal k-1 (`i ↦ score`; unwritten cells are 0)
  d2 : List (Nat × Int)      -- antidiagonal k-2
  min0 : Nat
  max0 : Nat
  min1 : Nat
  max1 : Nat
  maxScore : Int
  rows : Nat
  cols : Nat
  done : Bool
  err : Bool                 -- MemoryError raised by `_extend_table`

/-- `_extend_table` check for both dimensions of one antidiagonal -/
def growShape (rows cols iMax jMax : Nat) (mts : Option Int) (growF : Nat) : Option (Nat × Nat) :=
  let r1 : Option Nat :=
    if iMax ≥ rows then
      (match mts with
       | some lim => if ((rows * growF * cols : Nat) : Int) > lim then none else some (rows * growF)
       | none => some (rows * growF))
    else some rows
  match r1 with
  | none => none
  | some rows' =>
    if jMax ≥ cols then
      (match mts with
       | some lim => if ((rows' * (cols * growF) : Nat) : Int) > lim then none else some (rows', cols * growF)
       | none => some (rows', cols * growF))
    else some (rows', cols)

/-- `_extend_table`: a new zero table with one dimension multiplied by `growF`, the old data copied into its
top-left corner (`dim0 = true`: more rows of `cols` zeros; otherwise every row is padded with zeros) -/
def extendTable (t : List (List Int)) (dim0 : Bool) (cols growF : Nat) : List (List Int) :=
  if dim0 then t ++ List.replicate (t.length * growF - t.length) (List.replicate cols 0)
  else t.map fun row => row ++ List.replicate (row.length * growF - row.length) 0

/-- a table cell as the fill loop reads it: never-written and not-yet-allocated cells are `0` (= invalid) -/
def tget (t : List (List Int)) (i j : Nat) : Int := ((t[i]?).bind (·[j]?)).getD 0

/-- cells `i = iMin … iMax` of antidiagonal `k`, in order; `acc` = (written cells, min0, max0, maxScore) -/
def regCellsLin (scoreOnly : Bool) (M : Mat) (g thr : Int) (x y : Seq) (k : Nat) (d1 d2 : List (Nat × Int)) :
    List Nat → (List (Nat × Int) × Nat × Nat × Int) → (List (Nat × Int) × Nat × Nat × Int)
  | [], acc => acc
  | i :: rest, (cur, mn, mx, best) =>
    let j := k - i
    let fromDiag : Int :=
      if i ≠ 0 ∧ j ≠ 0 then
        let d := lookup0 d2 (i - 1)
        if d ≠ 0 then d + M (x.getD (i - 1) 0) (y.getD (j - 1) 0) else 0
      else 0
    let fromTop : Int := if i ≠ 0 then lookup0 d1 (i - 1) + g else 0
    let fromLeft : Int := if j ≠ 0 then lookup0 d1 i + g else 0
    let sc : Int := if scoreOnly then max fromDiag (max fromLeft fromTop) else (traceLin fromDiag fromLeft fromTop).2
    if sc ≥ best - thr then
      regCellsLin scoreOnly M g thr x y k d1 d2 rest
        ((i, sc) :: cur, (if mn = k then i else mn), i, (if sc > best then sc else best))
    else regCellsLin scoreOnly M g thr x y k d1 d2 rest (cur, mn, mx, best)

def rangeIncl (lo hi : Nat) : List Nat := (List.range (hi + 1 - lo)).map (· + lo)

def regStepLin (scoreOnly : Bool) (M : Mat) (g thr : Int) (x y : Seq) (mts : Option Int) (growF : Nat)
    (st : RegState) (k : Nat) : RegState :=
  if st.done || st.err then st else
  let min2 := st.min1
  let max2 := st.max1
  let min1 := st.min0
  let max1 := st.max0
  let iMin := max (min min1 (min2 + 1)) (k - y.length)
  let iMax := min (max (max1 + 1) (max2 + 1)) x.length
  if iMin > iMax then { st with done := true } else
  let jMax := k - iMin
  match growShape st.rows st.cols iMax jMax mts growF with
  | none => { st with err := true }
  | some (rows, cols) =>
    let (cur, mn, mx, best) :=
      regCellsLin scoreOnly M g thr x y k st.d1 st.d2 (rangeIncl iMin iMax) ([], k, 0, st.maxScore)
    { d1 := cur, d2 := st.d1, min0 := mn, max0 := mx, min1 := min1, max1 := max1, maxScore := best,
      rows := rows, cols := cols, done := false, err := false }

/-- `_align_region` with a linear penalty: `max_score - init_score`, or `MemoryError` -/
def regionLin (scoreOnly : Bool) (M : Mat) (g thr : Int) (x y : Seq) (mts : Option Int)
    (initSize initOff growF : Nat) : Except Err Int :=
  let init : Int := thr + initOff
  let st0 : RegState := ⟨[(0, init)], [], 0, 0, 0, 0, init, min (x.length + 1) initSize, min (y.length + 1) initSize,
    false, false⟩
  let st := (rangeIncl 1 (x.length + y.length)).foldl (regStepLin scoreOnly M g thr x y mts growF) st0
  if st.err then .error (.other "MemoryError") else .ok (st.maxScore - init)

/-! ### affine -/

def lookupA (d : List (Nat × ACell)) (i : Nat) : ACell := (d.lookup i).getD ⟨0, 0, 0⟩

structure RegStateA where
  d1 : List (Nat × ACell)
  d2 : List (Nat × ACell)
  min0 : Nat
  max0 : Nat
  min1 : Nat
  max1 : Nat
  maxScore : Int             -- the `max_score` variable (all three tables)
  mMax : Int                 -- `np.max(m_table)`
  rows : Nat
  cols : Nat
  done : Bool
  err : Bool

def regCellsAff (scoreOnly : Bool) (M : Mat) (go ge thr : Int) (x y : Seq) (k : Nat) (d1 d2 : List (Nat × ACell)) :
    List Nat → (List (Nat × ACell) × Nat × Nat × Int × Int) → (List (Nat × ACell) × Nat × Nat × Int × Int)
  | [], acc => acc
  | i :: rest, (cur, mn, mx, best, mMax) =>
    let j := k - i
    let dg := lookupA d2 (i - 1)
    let s := M (x.getD (i - 1) 0) (y.getD (j - 1) 0)
    let inner : Bool := decide (i ≠ 0) && decide (j ≠ 0)
    let mm : Int := if inner then (if dg.m ≠ 0 then dg.m + s else dg.m) else 0
    let g1m : Int := if inner then (if dg.g1 ≠ 0 then dg.g1 + s else dg.g1) else 0
    let g2m : Int := if inner then (if dg.g2 ≠ 0 then dg.g2 + s else dg.g2) else 0
    let lf := lookupA d1 i
    let tp := lookupA d1 (i - 1)
    let mg1 : Int := if j ≠ 0 then lf.m + go else 0
    let g1g1 : Int := if j ≠ 0 then lf.g1 + ge else 0
    let mg2 : Int := if i ≠ 0 then tp.m + go else 0
    let g2g2 : Int := if i ≠ 0 then tp.g2 + ge else 0
    let mS := if scoreOnly then max mm (max g1m g2m) else traceAffM mm g1m g2m
    let g1S := if scoreOnly then max mg1 g1g1 else traceAffG mg1 g1g1
    let g2S := if scoreOnly then max mg2 g2g2 else traceAffG mg2 g2g2
    -- the three acceptance tests, in order, each against the current `req_score`
    let okM := decide (mS ≥ best - thr)
    let best1 := if okM && decide (mS > best) then mS else best
    let okG1 := decide (g1S ≥ best1 - thr)
    let best2 := if okG1 && decide (g1S > best1) then g1S else best1
    let okG2 := decide (g2S ≥ best2 - thr)
    let best3 := if okG2 && decide (g2S > best2) then g2S else best2
    if okM || okG1 || okG2 then
      regCellsAff scoreOnly M go ge thr x y k d1 d2 rest
        ((i, ⟨if okM then mS else 0, if okG1 then g1S else 0, if okG2 then g2S else 0⟩) :: cur,
         (if mn = k then i else mn), i, best3, (if okM && decide (mS > mMax) then mS else mMax))
    else regCellsAff scoreOnly M go ge thr x y k d1 d2 rest (cur, mn, mx, best3, mMax)

def regStepAff (scoreOnly : Bool) (M : Mat) (go ge thr : Int) (x y : Seq) (mts : Option Int) (growF : Nat)
    (st : RegStateA) (k : Nat) : RegStateA :=
  if st.done || st.err then st else
  let min2 := st.min1
  let max2 := st.max1
  let min1 := st.min0
  let max1 := st.max0
  let iMin := max (min min1 (min2 + 1)) (k - y.length)
  let iMax := min (max (max1 + 1) (max2 + 1)) x.length
  if iMin > iMax then { st with done := true } else
  let jMax := k - iMin
  match growShape st.rows st.cols iMax jMax mts growF with
  | none => { st with err := true }
  | some (rows, cols) =>
    let (cur, mn, mx, best, mMax) :=
      regCellsAff scoreOnly M go ge thr x y k st.d1 st.d2 (rangeIncl iMin iMax) ([], k, 0, st.maxScore, st.mMax)
    { d1 := cur, d2 := st.d1, min0 := mn, max0 := mx, min1 := min1, max1 := max1, maxScore := best, mMax := mMax,
      rows := rows, cols := cols, done := false, err := false }

def regionAff (scoreOnly : Bool) (M : Mat) (go ge thr : Int) (x y : Seq) (mts : Option Int)
    (initSize initOff growF : Nat) : Except Err Int :=
  let init : Int := thr + initOff
  let st0 : RegStateA := ⟨[(0, ⟨init, 0, 0⟩)], [], 0, 0, 0, 0, init, init, min (x.length + 1) initSize,
    min (y.length + 1) initSize, false, false⟩
  let st := (rangeIncl 1 (x.length + y.length)).foldl (regStepAff scoreOnly M go ge thr x y mts growF) st0
  if st.err then .error (.other "MemoryError") else .ok (st.mMax - init)

def regionAlign (scoreOnly : Bool) (M : Mat) (gap : Gap) (thr : Int) (x y : Seq) (mts : Option Int)
    (initSize initOff growF : Nat) : Except Err Int :=
  match gap with
  | .lin g => regionLin scoreOnly M g thr x y mts initSize initOff growF
  | .aff go ge => regionAff scoreOnly M go ge thr x y mts initSize initOff growF

/-- `total_score = upstream + downstream + seed score`; an exception of the upstream region comes first -/
def combineRegions (up down : Except Err Int) (c : Int) : Except Err Int :=
  match up with
  | .error e => .error e
  | .ok u =>
    match down with
    | .error e => .error e
    | .ok d => .ok (u + d + c)

/-- `align_local_gapped(...)`: the common score of the returned alignments (`scoreOnly = false`) or the value
of the `score_only=True` call. -/
def gappedScore (scoreOnly : Bool) (a b : Seq) (M : Mat) (gap : Gap) (seed : Int × Int) (thr : Int) (dir : XDir)
    (maxNumber : Int) (mts : Option Int) (initSize initOff growF : Nat) : Except Err Int :=
  if gap.go ≥ 0 ∨ gap.ge ≥ 0 then .error .valueError else
  if maxNumber < 1 then .error .valueError else
  if (match mts with | some l => decide (l ≤ 0) | none => false) then .error .valueError else
  if seed.1 < 0 ∨ seed.2 < 0 then .error .indexError else
  let si := seed.1.toNat
  let sj := seed.2.toNat
  if si ≥ a.length ∨ sj ≥ b.length then .error .indexError else
  if thr < 0 then .error .valueError else
  let up : Except Err Int :=
    if dirUp dir && decide (si ≠ 0) && decide (sj ≠ 0) then
      regionAlign scoreOnly M gap thr (a.take si).reverse (b.take sj).reverse mts initSize initOff growF
    else .ok 0
  let down : Except Err Int :=
    if dirDown dir then regionAlign scoreOnly M gap thr (a.drop (si + 1)) (b.drop (sj + 1)) mts initSize initOff growF
    else .ok 0
  combineRegions up down (M (a.getD si 0) (b.getD sj 0))

end BiotiteModel.C09

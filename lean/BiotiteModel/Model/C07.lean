import BiotiteModel.Model.C07H36
/-!
# C07 — PDB writer / reader model (`structure/io/pdb/file.py`)

* numbers written with a fixed number of decimals are *finite binary floats* `Fx = ±m/2^e` (the exact
  value of a float32/float64) and Python's `format(x, ".df")` is modelled as exact round-half-even of
  that rational value (this is what CPython does);
* everything read back is reported in scaled integers (coordinates 10⁻³, B-factor/occupancy 10⁻²);
* strings are `List Char`; numpy `chararray` element access strips trailing white space (`rstrip`).
The model follows the code *after* the `fix:` commits of C07 (checks on the written text, negative ids,
insertion code / element lengths, padded chain id).
-/
namespace BiotiteModel.C07

def ljust (w : Nat) (s : List Char) : List Char := s ++ List.replicate (w - s.length) ' '
def rjust (w : Nat) (s : List Char) : List Char := List.replicate (w - s.length) ' ' ++ s

/-- A finite binary float: `(-1)^neg · m / 2^e` (negative zero is `neg = true, m = 0`). -/
structure Fx where
  neg : Bool
  m : Nat
  e : Nat
  deriving DecidableEq, Repr

/-- Round-half-even of `num / den` (`den > 0`). -/
def roundHE (num den : Nat) : Nat :=
  let q := num / den
  let r := num % den
  if 2 * r < den then q else if den < 2 * r then q + 1 else if q % 2 = 0 then q else q + 1

/-- `|x|` rounded to `d` decimals, in units of `10^-d`. -/
def Fx.scaled (x : Fx) (d : Nat) : Nat := roundHE (x.m * 10 ^ d) (2 ^ x.e)

/-- left-pad with `'0'` to `d` characters -/
def zpad (d : Nat) (s : List Char) : List Char := List.replicate (d - s.length) '0' ++ s

/-- Python `format(x, ".{d}f")` for `d ≥ 1`. -/
def fmtFixed (d : Nat) (x : Fx) : List Char :=
  let k := x.scaled d
  (if x.neg then ['-'] else []) ++ natDec (k / 10 ^ d) ++ ['.'] ++ zpad d (natDec (k % 10 ^ d))

/-- One atom with its optional annotations (used only when the corresponding flag is set). -/
structure Atom where
  hetero : Bool
  atomId : Int
  name : List Char
  resName : List Char
  chain : List Char
  resId : Int
  insCode : List Char
  element : List Char
  occ : Fx
  bf : Fx
  charge : Int
  deriving DecidableEq, Repr

structure Flags where
  h36 : Bool
  hasId : Bool
  hasB : Bool
  hasOcc : Bool
  hasQ : Bool
  hasBonds : Bool
  deriving DecidableEq, Repr

abbrev Coord := Fx × Fx × Fx

structure Struct where
  atoms : List Atom
  models : List (List Coord)      -- one coordinate triple per atom, per model
  bonds : List (Nat × Nat)        -- rows of `array.bonds.as_array()` (i < j, no duplicates)
  deriving Repr

def pdbMaxAtoms : Nat := 99999
def pdbMaxResidues : Nat := 9999
/-- smallest ids that still fit their columns with the sign (`"-9999"`, `"-999"`) -/
def minAtomId : Int := -9999
def minResId : Int := -999

/-! ## `_check_pdb_compatibility` (after the fixes) -/

/-- the effective atom id of atom number `i` (0-based) -/
def effId (fl : Flags) (i : Nat) (a : Atom) : Int := if fl.hasId then a.atomId else (i : Int) + 1

def checkAtom (fl : Flags) (i : Nat) (a : Atom) : Bool :=
  a.chain.length ≤ 1 && a.resName.length ≤ 3 && a.name.length ≤ 4 &&
  a.insCode.length ≤ 1 && a.element.length ≤ 2 &&
  (fl.h36 || (minAtomId ≤ effId fl i a && minResId ≤ a.resId)) &&
  (!fl.hasB || (fmtFixed 2 a.bf).length ≤ 6) &&
  (!fl.hasOcc || (fmtFixed 2 a.occ).length ≤ 6) &&
  (!fl.hasQ || a.charge.natAbs < 10)

def checkCoord (c : Coord) : Bool :=
  (fmtFixed 3 c.1).length ≤ 8 && (fmtFixed 3 c.2.1).length ≤ 8 && (fmtFixed 3 c.2.2).length ≤ 8

def enum {α : Type} (l : List α) : List (Nat × α) := (List.range l.length).zip l

def checkCompat (fl : Flags) (s : Struct) : Except Err Unit :=
  if (enum s.atoms).all (fun p => checkAtom fl p.1 p.2) && s.models.all (fun m => m.all checkCoord)
  then .ok () else .error .badStructure

/-! ## `set_structure` -/

def wrapId (maxv : Nat) (i : Int) : Int := if i > 0 then (i - 1) % (maxv : Int) + 1 else i

def idText (h36 : Bool) (w maxv : Nat) (i : Int) : Except Err (List Char) :=
  if h36 then encodeH36 i w else .ok (intDec (wrapId maxv i))

def alignedName (a : Atom) : List Char :=
  if a.element.length == 1 && a.name.length < 4 then ' ' :: a.name else a.name

def chargeText (q : Int) : List Char :=
  if q > 0 then natDec q.natAbs ++ ['+'] else if q < 0 then natDec q.natAbs ++ ['-'] else []

def firstHalf (a : Atom) (idTxt resTxt : List Char) : List Char :=
  ljust 6 (if a.hetero then "HETATM".toList else "ATOM".toList) ++ rjust 5 idTxt ++ [' '] ++
  ljust 4 (alignedName a) ++ [' '] ++ rjust 3 a.resName ++ [' '] ++ ljust 1 a.chain ++
  rjust 4 resTxt ++ rjust 1 a.insCode

def secondHalf (fl : Flags) (a : Atom) : List Char :=
  (if fl.hasOcc then rjust 6 (fmtFixed 2 a.occ) else "  1.00".toList) ++
  (if fl.hasB then rjust 6 (fmtFixed 2 a.bf) else "  0.00".toList) ++
  List.replicate 10 ' ' ++ rjust 2 a.element ++
  rjust 2 (if fl.hasQ then chargeText a.charge else "  ".toList)

/-- `f"{start:27}   {x:>8.3f}{y:>8.3f}{z:>8.3f}{end:26}"`; `start`/`end` come out of a numpy
`chararray`, i.e. right-stripped. -/
def atomLine (fh sh : List Char) (c : Coord) : List Char :=
  ljust 27 (rstrip fh) ++ "   ".toList ++ rjust 8 (fmtFixed 3 c.1) ++ rjust 8 (fmtFixed 3 c.2.1) ++
  rjust 8 (fmtFixed 3 c.2.2) ++ ljust 26 (rstrip sh)

def mapME {α β : Type} (f : α → Except Err β) : List α → Except Err (List β)
  | [] => .ok []
  | a :: as => do let b ← f a; let bs ← mapME f as; pure (b :: bs)

def solventNames : List (List Char) := ["HOH".toList, "SOL".toList]

/-- the bonds `set_structure` hands to `_set_bonds` -/
def carriable (atoms : List Atom) (b : Nat × Nat) : Bool :=
  match atoms[b.1]?, atoms[b.2]? with
  | some a, some c =>
    (a.hetero && !solventNames.contains a.resName) || (c.hetero && !solventNames.contains c.resName) ||
    a.resId != c.resId || a.chain != c.chain
  | _, _ => false

/-- partners of atom `c` in bond-array order (`BondList.get_all_bonds`) -/
def partners (bonds : List (Nat × Nat)) (c : Nat) : List Nat :=
  bonds.filterMap (fun b => if b.1 = c then some b.2 else if b.2 = c then some b.1 else none)

def chunk4 : List Nat → List (List Nat)
  | a :: b :: c :: d :: rest => [a, b, c, d] :: chunk4 rest
  | [] => []
  | l => [l]

def conectLines (ids : List (List Char)) (bonds : List (Nat × Nat)) : List (List Char) :=
  (List.range ids.length).flatMap fun c =>
    (chunk4 (partners bonds c)).map fun ch =>
      "CONECT".toList ++ rjust 5 (ids.getD c []) ++ (ch.map fun p => rjust 5 (ids.getD p [])).flatten

def modelLines (isStack : Bool) (halves : List (List Char × List Char)) (n : Nat) (coords : List Coord) :
    List (List Char) :=
  (if isStack then ["MODEL     ".toList ++ rjust 4 (natDec n)] else []) ++
  (halves.zip coords).map (fun p => atomLine p.1.1 p.1.2 p.2) ++
  (if isStack then ["ENDMDL".toList] else [])

/-- `PDBFile.set_structure(array, hybrid36)` for a structure without box: the lines of the file. -/
def writePdb (fl : Flags) (s : Struct) : Except Err (List (List Char)) := do
  checkCompat fl s
  let ids ← mapME (fun p => idText fl.h36 5 pdbMaxAtoms (effId fl p.1 p.2)) (enum s.atoms)
  let ress ← mapME (fun a => idText fl.h36 4 pdbMaxResidues a.resId) s.atoms
  let halves := (s.atoms.zip (ids.zip ress)).map fun p => (firstHalf p.1 p.2.1 p.2.2, secondHalf fl p.1)
  let isStack := decide (1 < s.models.length)
  let body := ((enum s.models).map fun p => modelLines isStack halves (p.1 + 1) p.2).flatten
  let con := if fl.hasBonds then conectLines ids (s.bonds.filter (carriable s.atoms)) else []
  pure (body ++ con)

/-! ## `get_structure` -/

def slice (a b : Nat) (l : List Char) : List Char := (l.drop a).take (b - a)

/-- Result of reading a number field with `float()`. -/
inductive PF where
  | val (neg : Bool) (mant : Nat) (dec : Nat)   -- ±mant / 10^dec
  | bad                                         -- ValueError
  | unmodelled
  deriving DecidableEq, Repr

def allDig (s : List Char) : Bool := s.all isDig
def digVal (s : List Char) : Nat := s.foldl (fun acc c => acc * 10 + (c.toNat - 48)) 0

/-- optional sign of a number text -/
def signSplit : List Char → Bool × List Char
  | '-' :: r => (true, r)
  | '+' :: r => (false, r)
  | r => (false, r)

/-- `float(s)` for plain fixed-point text `[sign] digits [ '.' digits ]`. -/
def parseFixed (s : List Char) : PF :=
  let t := strip s
  if t.isEmpty then .bad else
  let neg := (signSplit t).1
  let body := (signSplit t).2
  let ip := body.takeWhile isDig
  let rest := body.dropWhile isDig
  match rest with
  | [] => if ip.isEmpty then .unmodelled else .val neg (digVal ip) 0
  | '.' :: fp =>
    if ip.isEmpty || fp.isEmpty || !allDig fp then .unmodelled
    else .val neg (digVal (ip ++ fp)) fp.length
  | _ => .unmodelled

/-- value in units of `10^-d` (exact when at most `d` decimals were written) -/
def PF.units (d : Nat) : PF → Option (Except Err Int)
  | .val neg mant dec =>
    if dec ≤ d then
      let v : Int := (mant * 10 ^ (d - dec) : Nat)
      some (.ok (if neg then -v else v))
    else none
  | .bad => some (.error .valueError)
  | .unmodelled => none

structure AtomRead where
  hetero : Bool
  chain : List Char
  resId : Int
  insCode : List Char
  resName : List Char
  name : List Char
  element : List Char
  atomId : Int
  occ : Int       -- units of 10⁻²
  bf : Int        -- units of 10⁻²
  charge : Int
  deriving DecidableEq, Repr

/-- three-valued result: `none` = the model says nothing about this input -/
abbrev R (α : Type) := Option (Except Err α)

/-- the charge field: `"  "` is 0; otherwise the two characters (reversed unless the first is a sign) go through
`int()` (numpy's string-to-int cast), e.g. `"1+"`, `"+1"`, `" 1"`, `"1 "`; anything else is a ValueError -/
def parseCharge (s : List Char) : R Int :=
  if s == "  ".toList then some (.ok 0) else
  let c := match s with
    | a :: _ => if a == '+' || a == '-' then s else s.reverse
    | [] => s
  match pyInt? c with
  | some v => some (.ok v)
  | none => some (.error .valueError)

def liftE {α : Type} (e : Except Err α) : R α := some e

/-- the annotation part of one ATOM/HETATM line (80 characters) -/
def parseAtomLineAny (l : List Char) : R AtomRead :=
  match decodeH36 (slice 22 26 l) with
  | .error e => some (.error e)
  | .ok resId =>
  if (strip (slice 76 78 l)).isEmpty then none else
  match parseCharge (slice 78 80 l) with
  | none => none
  | some (.error e) => some (.error e)
  | some (.ok q) =>
  match (parseFixed (slice 54 60 l)).units 2 with
  | none => none
  | some (.error e) => some (.error e)
  | some (.ok occ) =>
  match (parseFixed (slice 60 66 l)).units 2 with
  | none => none
  | some (.error e) => some (.error e)
  | some (.ok bf) =>
  match decodeH36 (slice 6 11 l) with
  | .error e => some (.error e)
  | .ok aid =>
    some (.ok { hetero := slice 0 6 l == "HETATM".toList, chain := strip (slice 21 22 l), resId := resId,
                insCode := strip (slice 26 27 l), resName := strip (slice 17 20 l),
                name := strip (slice 12 16 l), element := strip (slice 76 78 l), atomId := aid,
                occ := occ, bf := bf, charge := q })

/-- a record without alternate location (what `set_structure` writes) -/
def parseAtomLine (l : List Char) : R AtomRead :=
  if slice 16 17 l != [' '] then
    (match decodeH36 (slice 22 26 l) with | .error e => some (.error e) | .ok _ => none)
  else parseAtomLineAny l

def parseCoordLine (l : List Char) : R (Int × Int × Int) :=
  match (parseFixed (slice 30 38 l)).units 3, (parseFixed (slice 38 46 l)).units 3,
        (parseFixed (slice 46 54 l)).units 3 with
  | some (.ok x), some (.ok y), some (.ok z) => some (.ok (x, y, z))
  | some (.error e), _, _ => some (.error e)
  | some (.ok _), some (.error e), _ => some (.error e)
  | some (.ok _), some (.ok _), some (.error e) => some (.error e)
  | _, _, _ => none

def startsWith (p l : List Char) : Bool := p.isPrefixOf l

def isAtomLine (l : List Char) : Bool := startsWith "ATOM".toList l || startsWith "HETATM".toList l

def mapMR {α β : Type} (f : α → R β) : List α → R (List β)
  | [] => some (.ok [])
  | a :: as =>
    match f a with
    | none => none
    | some (.error e) => some (.error e)
    | some (.ok b) =>
      match mapMR f as with
      | none => none
      | some (.error e) => some (.error e)
      | some (.ok bs) => some (.ok (b :: bs))

structure FileRead where
  atoms : List AtomRead
  models : List (List (Int × Int × Int))
  bonds : List (Nat × Nat)       -- sorted, unique, i < j
  deriving DecidableEq, Repr

/-- split the indexed lines into models the way `_index_models_and_atoms` / `_get_model_length` do:
result = for every model the atom lines between its `MODEL` line and the next one. -/
def splitModels (lines : List (List Char)) : List (List (List Char)) :=
  let idx := enum lines
  let starts := (idx.filter (fun p => startsWith "MODEL".toList p.2)).map (·.1)
  let starts := if starts.isEmpty then (if lines.any isAtomLine then [0] else []) else starts
  let stops := starts.drop 1 ++ [lines.length]
  (starts.zip stops).map fun se =>
    (idx.filter (fun p => se.1 ≤ p.1 && p.1 < se.2 && isAtomLine p.2)).map (·.2)

def insertSorted (p : Nat × Nat) : List (Nat × Nat) → List (Nat × Nat)
  | [] => [p]
  | q :: r =>
    if p = q then q :: r
    else if p.1 < q.1 || (p.1 = q.1 && p.2 < q.2) then p :: q :: r
    else q :: insertSorted p r

def normBonds (bs : List (Nat × Nat)) : List (Nat × Nat) :=
  bs.foldl (fun acc b => insertSorted (if b.1 ≤ b.2 then b else (b.2, b.1)) acc) []

def findIdx (ids : List Int) (v : Int) : Option Nat :=
  let hits := (enum ids).filter (fun p => p.2 = v)
  hits.getLast?.map (·.1)

/-- one CONECT record: the (center, partner) index pairs it contributes.  An id that belongs to no atom of the
structure (removed by the altloc filter, absent from the file) contributes nothing (after fix 367a9a04);
with duplicate ids the last atom carrying the id wins. -/
def conectPairs (ids : List Int) (l : List Char) : R (List (Nat × Nat)) :=
  match decodeH36 (slice 6 11 l) with
  | .error e => some (.error e)
  | .ok cid =>
    let fields := [slice 11 16 l, slice 16 21 l, slice 21 26 l, slice 26 31 l]
    let decoded := (fields.map decodeH36).takeWhile (fun r => match r with | .ok _ => true | .error _ => false)
    let ps := decoded.filterMap (fun r => match r with | .ok v => some v | .error _ => none)
    match findIdx ids cid with
    | none => some (.ok [])
    | some c => some (.ok ((ps.filterMap (findIdx ids)).map fun j => (c, j)))

/-- `_get_bonds`: any atom ids (negative ones too, after fix 9c2dc54a), as long as none exceeds the last one
(`IndexError` -> `InvalidFileError`, "not strictly increasing"). -/
def readBonds (ids : List Int) (lines : List (List Char)) : R (List (Nat × Nat)) :=
  if ids.isEmpty then none else
  if ids.any (fun i => decide (ids.getLast?.getD 0 < i)) then some (.error .invalidFile) else
  let con := lines.filter (startsWith "CONECT".toList)
  match mapMR (conectPairs ids) con with
  | none => none
  | some (.error e) => some (.error e)
  | some (.ok pairs) => some (.ok (normBonds pairs.flatten))

/-- `PDBFile.read(text).get_structure(model=None, extra_fields=[atom_id, b_factor, occupancy, charge],
include_bonds=…)` on well-formed model layout. -/
def readPdb (inclBonds : Bool) (lines0 : List (List Char)) : R FileRead :=
  let lines := lines0.map (ljust 80)
  let ms := splitModels lines
  match ms with
  | [] => none
  | m1 :: _ =>
    -- atoms before the first MODEL record are outside the model
    if (ms.map List.length).sum != (lines.filter isAtomLine).length then none else
    if ms.any (fun m => m.length != m1.length) then some (.error .invalidFile) else
    if m1.isEmpty then none else
    match mapMR parseAtomLine m1 with
    | none => none
    | some (.error e) => some (.error e)
    | some (.ok atoms) =>
      match mapMR (mapMR parseCoordLine) ms with
      | none => none
      | some (.error e) => some (.error e)
      | some (.ok coords) =>
        if inclBonds then
          match readBonds (atoms.map (·.atomId)) lines with
          | none => none
          | some (.error e) => some (.error e)
          | some (.ok bs) => some (.ok { atoms := atoms, models := coords, bonds := bs })
        else some (.ok { atoms := atoms, models := coords, bonds := [] })

/-! ## non-finite input (NaN, ±inf in coordinates, B-factor, occupancy) -/

/-- a float that may be non-finite -/
inductive Num where
  | fin (x : Fx)
  | nan
  | inf (neg : Bool)
  deriving DecidableEq, Repr

def Num.isFinite : Num → Bool
  | .fin _ => true
  | _ => false

def Num.fin? : Num → Option Fx
  | .fin x => some x
  | _ => none

/-- Python `format(x, ".df")` incl. non-finite values: their text is short and would fit any column -/
def fmtNum (d : Nat) : Num → List Char
  | .fin x => fmtFixed d x
  | .nan => "nan".toList
  | .inf false => "inf".toList
  | .inf true => "-inf".toList

/-- `_check_number_columns(values, spec, n_columns, …)` for one value: `not isfinite -> raise`, then the width -/
def checkNumCol (d w : Nat) (x : Num) : Bool := x.isFinite && decide ((fmtNum d x).length ≤ w)

structure AtomN where
  hetero : Bool
  atomId : Int
  name : List Char
  resName : List Char
  chain : List Char
  resId : Int
  insCode : List Char
  element : List Char
  occ : Num
  bf : Num
  charge : Int
  deriving DecidableEq, Repr

abbrev CoordN := Num × Num × Num

structure StructN where
  atoms : List AtomN
  models : List (List CoordN)
  bonds : List (Nat × Nat)
  deriving Repr

/-- the finite image of an atom; an annotation that is not present (`flag = false`) does not matter -/
def AtomN.toAtom? (fl : Flags) (a : AtomN) : Option Atom :=
  match (if fl.hasOcc then a.occ.fin? else some ⟨false, 1, 0⟩), (if fl.hasB then a.bf.fin? else some ⟨false, 0, 0⟩) with
  | some occ, some bf =>
    some { hetero := a.hetero, atomId := a.atomId, name := a.name, resName := a.resName, chain := a.chain,
           resId := a.resId, insCode := a.insCode, element := a.element, occ := occ, bf := bf, charge := a.charge }
  | _, _ => none

def CoordN.toCoord? (c : CoordN) : Option Coord :=
  match c.1.fin?, c.2.1.fin?, c.2.2.fin? with
  | some x, some y, some z => some (x, y, z)
  | _, _, _ => none

def StructN.finite? (fl : Flags) (s : StructN) : Option Struct :=
  match s.atoms.mapM (AtomN.toAtom? fl), s.models.mapM (fun m => m.mapM CoordN.toCoord?) with
  | some atoms, some models => some { atoms := atoms, models := models, bonds := s.bonds }
  | _, _ => none

/-! ## `get_structure(model=k)`: `_get_atom_record_indices_for_model` -/

def isModelLine (l : List Char) : Bool := startsWith "MODEL".toList l

/-- `[(i, lines[i]) for i in range(o, …)]` -/
def enumFrom {α : Type} : Nat → List α → List (Nat × α)
  | _, [] => []
  | o, x :: xs => (o, x) :: enumFrom (o + 1) xs

/-- `_model_start_i` -/
def modelStarts (lines : List (List Char)) : List Nat :=
  let s := ((enumFrom 0 lines).filter (fun p => isModelLine p.2)).map (·.1)
  if s.isEmpty then (if lines.any isAtomLine then [0] else []) else s

/-- the atom records with index in `[lo, hi)` (`hi = none`: no upper bound) -/
def recordsBetween (lines : List (List Char)) (lo : Nat) (hi : Option Nat) : List (List Char) :=
  ((enumFrom 0 lines).filter fun p =>
    isAtomLine p.2 && decide (lo ≤ p.1) && (match hi with | some h => decide (p.1 < h) | none => true)).map (·.2)

/-- `self.lines[i] for i in self._get_atom_record_indices_for_model(model)` (after the fix that refuses
negative indices below `-n_models`). -/
def selectModel (lines : List (List Char)) (model : Int) : Except Err (List (List Char)) :=
  let starts := modelStarts lines
  let last : Int := starts.length
  if model = 0 then .error .valueError else
  let m := if model < 0 then last + model + 1 else model
  if m < 1 then .error .valueError else
  if m < last then .ok (recordsBetween lines (starts.getD (m.toNat - 1) 0) (some (starts.getD m.toNat 0)))
  else if m = last then .ok (recordsBetween lines (starts.getD (m.toNat - 1) 0) none)
  else .error .valueError

/-- `PDBFile.read(text).get_structure(model=k, extra_fields=all four, include_bonds=…)` -/
def readModel (model : Int) (inclBonds : Bool) (lines0 : List (List Char)) : R FileRead :=
  let lines := lines0.map (ljust 80)
  match selectModel lines model with
  | .error e => some (.error e)
  | .ok recs =>
    match mapMR parseAtomLine recs with
    | none => none
    | some (.error e) => some (.error e)
    | some (.ok atoms) =>
      match mapMR parseCoordLine recs with
      | none => none
      | some (.error e) => some (.error e)
      | some (.ok coords) =>
        if inclBonds then
          match readBonds (atoms.map (·.atomId)) lines with
          | none => none
          | some (.error e) => some (.error e)
          | some (.ok bs) => some (.ok { atoms := atoms, models := [coords], bonds := bs })
        else some (.ok { atoms := atoms, models := [coords], bonds := [] })

/-! ## CRYST1 (text level; the trigonometry between box vectors and cell parameters is not modelled) -/

/-- cell lengths a, b, c and angles alpha, beta, gamma (degrees) as the writer formats them -/
structure Cell where
  a : Fx
  b : Fx
  c : Fx
  alpha : Fx
  beta : Fx
  gamma : Fx
  deriving DecidableEq, Repr

def cryst1Tail : List Char := " P 1           1          ".toList

/-- `f"CRYST1{a:>9.3f}{b:>9.3f}{c:>9.3f}{alpha:>7.2f}{beta:>7.2f}{gamma:>7.2f} P 1           1          "` -/
def cryst1Line (u : Cell) : List Char :=
  "CRYST1".toList ++ (rjust 9 (fmtFixed 3 u.a) ++ (rjust 9 (fmtFixed 3 u.b) ++ (rjust 9 (fmtFixed 3 u.c) ++
  (rjust 7 (fmtFixed 2 u.alpha) ++ (rjust 7 (fmtFixed 2 u.beta) ++ (rjust 7 (fmtFixed 2 u.gamma) ++ cryst1Tail))))))

/-- the box part of `_check_pdb_compatibility` (after the fix): every value fits its columns as written -/
def checkCell (u : Cell) : Bool :=
  (fmtFixed 3 u.a).length ≤ 9 && (fmtFixed 3 u.b).length ≤ 9 && (fmtFixed 3 u.c).length ≤ 9 &&
  (fmtFixed 2 u.alpha).length ≤ 7 && (fmtFixed 2 u.beta).length ≤ 7 && (fmtFixed 2 u.gamma).length ≤ 7

/-- `set_structure` for a structure with (`some`) or without a box -/
def writePdbBox (fl : Flags) (cell : Option Cell) (s : Struct) : Except Err (List (List Char)) :=
  match cell with
  | none => writePdb fl s
  | some u =>
    if checkCell u then
      match writePdb fl s with
      | .ok ls => .ok (cryst1Line u :: ls)
      | .error e => .error e
    else .error .badStructure

/-- what the reader gets out of a CRYST1 record: lengths in 10⁻³ Å, angles in 10⁻² degrees -/
structure CellRead where
  a : Int
  b : Int
  c : Int
  alpha : Int
  beta : Int
  gamma : Int
  deriving DecidableEq, Repr

/-- the six `float(line[slice])` of `get_structure`; `some none` = ValueError = "box is ignored" -/
def parseCryst1 (l : List Char) : Option (Option CellRead) :=
  match (parseFixed (slice 6 15 l)).units 3 with
  | none => none
  | some (.error _) => some none
  | some (.ok a) =>
  match (parseFixed (slice 15 24 l)).units 3 with
  | none => none
  | some (.error _) => some none
  | some (.ok b) =>
  match (parseFixed (slice 24 33 l)).units 3 with
  | none => none
  | some (.error _) => some none
  | some (.ok c) =>
  match (parseFixed (slice 33 40 l)).units 2 with
  | none => none
  | some (.error _) => some none
  | some (.ok al) =>
  match (parseFixed (slice 40 47 l)).units 2 with
  | none => none
  | some (.error _) => some none
  | some (.ok be) =>
  match (parseFixed (slice 47 54 l)).units 2 with
  | none => none
  | some (.error _) => some none
  | some (.ok ga) => some (some { a := a, b := b, c := c, alpha := al, beta := be, gamma := ga })

/-- the first CRYST1 record of the (padded) file decides -/
def readCell (lines0 : List (List Char)) : Option (Option CellRead) :=
  match (lines0.map (ljust 80)).find? (startsWith "CRYST1".toList) with
  | none => some none
  | some l => parseCryst1 l

/-- `set_structure` on input that may contain NaN / ±inf: `np.isnan(coord).any()` and the `isfinite` test of
`_check_number_columns` raise `BadStructureError` (like every other failed check) before anything is written. -/
def writePdbN (fl : Flags) (cell : Option Cell) (s : StructN) : Except Err (List (List Char)) :=
  match s.finite? fl with
  | some s' =>
    if s'.atoms.isEmpty then
      -- no atoms: the compatibility check still runs (a bad box is a BadStructureError), then numpy refuses the
      -- empty character arrays with a ValueError
      (match cell with
       | some u => if checkCell u then .error .valueError else .error .badStructure
       | none => .error .valueError)
    else writePdbBox fl cell s'
  | none => .error .badStructure

/-! ## alternate locations (`get_structure(altloc=…)`, `filter_first_altloc`, `filter_highest_occupancy_altloc`) -/

/-- what the altloc filters look at: residue key (chain, res_id, ins_code, res_name), altloc id, occupancy (10⁻²) -/
structure AltRow where
  key : List Char × Int × List Char × List Char
  alt : Char
  occ : Int
  deriving DecidableEq, Repr

/-- "no alternate location": `.`, `?`, blank -/
def noAlt (c : Char) : Bool := c == '.' || c == '?' || c == ' '

/-- consecutive rows of one residue (`get_residue_starts`) -/
def runs : List AltRow → List (List AltRow)
  | [] => []
  | r :: rs =>
    match runs rs with
    | (q :: qs) :: rest => if q.key = r.key then (r :: q :: qs) :: rest else [r] :: (q :: qs) :: rest
    | _ => [[r]]

def letterIds (run : List AltRow) : List Char := (run.map (·.alt)).filter (fun c => !noAlt c)

/-- `filter_first_altloc` inside one residue -/
def firstMaskRun (run : List AltRow) : List Bool :=
  match letterIds run with
  | [] => run.map (fun r => noAlt r.alt)
  | f :: _ => run.map (fun r => noAlt r.alt || r.alt == f)

def insertChar (c : Char) : List Char → List Char
  | [] => [c]
  | d :: r => if c = d then d :: r else if c < d then c :: d :: r else d :: insertChar c r

/-- `sorted(set(ids))` -/
def sortedIds (ids : List Char) : List Char := ids.foldl (fun acc c => insertChar c acc) []

def occSum (run : List AltRow) (id : Char) : Int := ((run.filter (fun r => r.alt == id)).map (·.occ)).foldl (· + ·) 0

/-- the loop `if occupancy_sum > highest` starting from `highest = -1.0`, `highest_id = None` -/
def bestId (run : List AltRow) (ids : List Char) : Int × Option Char :=
  ids.foldl (fun st id => if st.1 < occSum run id then (occSum run id, some id) else st) (-100, none)

/-- `filter_highest_occupancy_altloc` inside one residue -/
def occMaskRun (run : List AltRow) : List Bool :=
  match letterIds run with
  | [] => run.map (fun r => noAlt r.alt)
  | ids => run.map (fun r => noAlt r.alt || (bestId run (sortedIds ids)).2 == some r.alt)

inductive AltMode where
  | first | occupancy | all
  deriving DecidableEq, Repr

def altMask (mode : AltMode) (rows : List AltRow) : List Bool :=
  match mode with
  | .first => (runs rows).flatMap firstMaskRun
  | .occupancy => (runs rows).flatMap occMaskRun
  | .all => rows.map (fun _ => true)

def applyMask {α : Type} (mask : List Bool) (l : List α) : List α := ((mask.zip l).filter (·.1)).map (·.2)

def altRowOf (l : List Char) (a : AtomRead) : AltRow :=
  { key := (a.chain, a.resId, a.insCode, a.resName), alt := (slice 16 17 l).headD ' ', occ := a.occ }

/-- `get_structure(model=None, altloc=mode, extra_fields=all four, include_bonds=…)`; for `all` the altloc ids
are returned as well -/
def readPdbAlt (mode : AltMode) (inclBonds : Bool) (lines0 : List (List Char)) : R (FileRead × List Char) :=
  let lines := lines0.map (ljust 80)
  let ms := splitModels lines
  match ms with
  | [] => none
  | m1 :: _ =>
    if (ms.map List.length).sum != (lines.filter isAtomLine).length then none else
    if ms.any (fun m => m.length != m1.length) then some (.error .invalidFile) else
    if m1.isEmpty then none else
    match mapMR parseAtomLineAny m1 with
    | none => none
    | some (.error e) => some (.error e)
    | some (.ok atoms) =>
      match mapMR (mapMR parseCoordLine) ms with
      | none => none
      | some (.error e) => some (.error e)
      | some (.ok coords) =>
        let rows := (m1.zip atoms).map fun p => altRowOf p.1 p.2
        let mask := altMask mode rows
        let atoms' := applyMask mask atoms
        let coords' := coords.map (applyMask mask)
        let alts := match mode with | .all => rows.map (·.alt) | _ => []
        if inclBonds then
          match readBonds (atoms'.map (·.atomId)) lines with
          | none => none
          | some (.error e) => some (.error e)
          | some (.ok bs) => some (.ok ({ atoms := atoms', models := coords', bonds := bs }, alts))
        else some (.ok ({ atoms := atoms', models := coords', bonds := [] }, alts))

/-! ## Specification predicates used by the theorems (`Props/C07.lean`) -/

/-- `|x|` rounded to `d` decimals fits `w` columns together with the sign and the decimal point:
bounds **after rounding**. -/
def FitsFixed (d maxPos maxNeg : Nat) (x : Fx) : Prop :=
  (x.neg = false → x.scaled d ≤ maxPos) ∧ (x.neg = true → x.scaled d ≤ maxNeg)

/-- coordinates: `-999.999 … 9999.999` after rounding to 3 decimals -/
def CoordStrong (c : Coord) : Prop :=
  FitsFixed 3 9999999 999999 c.1 ∧ FitsFixed 3 9999999 999999 c.2.1 ∧ FitsFixed 3 9999999 999999 c.2.2

/-- Every field of the record fits its columns (lengths, signs, magnitudes after rounding). -/
structure CompatStrong (fl : Flags) (i : Nat) (a : Atom) : Prop where
  chain : a.chain.length ≤ 1
  resName : a.resName.length ≤ 3
  name : a.name.length ≤ 4
  ins : a.insCode.length ≤ 1
  element : a.element.length ≤ 2
  atomIdLo : fl.h36 = false → -9999 ≤ effId fl i a
  resIdLo : fl.h36 = false → -999 ≤ a.resId
  bf : fl.hasB = true → FitsFixed 2 99999 9999 a.bf
  occ : fl.hasOcc = true → FitsFixed 2 99999 9999 a.occ
  charge : fl.hasQ = true → a.charge.natAbs ≤ 9

/-- no field contains white space (the check does not look at characters) -/
def Clean (a : Atom) : Prop :=
  (∀ c ∈ a.name, isWS c = false) ∧ (∀ c ∈ a.resName, isWS c = false) ∧ (∀ c ∈ a.chain, isWS c = false) ∧
  (∀ c ∈ a.insCode, isWS c = false) ∧ (∀ c ∈ a.element, isWS c = false)

/-- ids inside the range that is written without wrapping -/
def IdsInRange (fl : Flags) (i : Nat) (a : Atom) : Prop :=
  if fl.h36 then 0 ≤ effId fl i a ∧ effId fl i a ≤ (maxNumber 5 : Nat) ∧ 0 ≤ a.resId ∧ a.resId ≤ (maxNumber 4 : Nat)
  else effId fl i a ≤ 99999 ∧ a.resId ≤ 9999

/-- signed value of a rounded number in units of `10^-d` -/
def Fx.units (x : Fx) (d : Nat) : Int := if x.neg then -(x.scaled d : Int) else (x.scaled d : Int)

/-- what the reader returns for a written record -/
def expectedRead (fl : Flags) (i : Nat) (a : Atom) : AtomRead :=
  { hetero := a.hetero, chain := a.chain, resId := a.resId, insCode := a.insCode, resName := a.resName,
    name := a.name, element := a.element, atomId := effId fl i a,
    occ := if fl.hasOcc then a.occ.units 2 else 100, bf := if fl.hasB then a.bf.units 2 else 0,
    charge := if fl.hasQ then a.charge else 0 }

/-- the text of the numeric/id fields as `set_structure` assembles them -/
def occText (fl : Flags) (a : Atom) : List Char := if fl.hasOcc then rjust 6 (fmtFixed 2 a.occ) else "  1.00".toList
def bfText (fl : Flags) (a : Atom) : List Char := if fl.hasB then rjust 6 (fmtFixed 2 a.bf) else "  0.00".toList
def chargeField (fl : Flags) (a : Atom) : List Char := rjust 2 (if fl.hasQ then chargeText a.charge else "  ".toList)
def recordName (a : Atom) : List Char := if a.hetero then "HETATM".toList else "ATOM".toList

end BiotiteModel.C07

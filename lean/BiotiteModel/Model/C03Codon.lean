import BiotiteModel.Model.C03
/-!
# C03 — codon tables and translation (model of `sequence/codon.py`, `NucleotideSequence.translate`)

Nucleotide codes are positions in the unambiguous alphabet (`A C G T` = 0..3, radix 4);
amino-acid codes are positions in `ProteinSequence.alphabet`.
-/
namespace BiotiteModel.C03

/-- `CodonTable._to_number` for one codon (`16 a + 4 b + c`). -/
def codonNumber : List Nat → Option Nat
  | [a, b, c] => some (16 * a + 4 * b + c)
  | _ => none

/-- `CodonTable._to_codon` for one number: digit = number // val; number -= digit * val. -/
def numberToCodon (m : Nat) : List Nat :=
  let d2 := m / 16
  let r := m - d2 * 16
  let d1 := r / 4
  let r' := r - d1 * 4
  [d2, d1, r' / 1]

/-- `_codons` (amino-acid code per codon number) and `_starts` (codon numbers). -/
structure CodonTable where
  codons : List Nat
  starts : List Nat
  deriving DecidableEq, Repr

/-- Store one `codon_dict` item into the 64-slot array (`none` = the `-1` marker). -/
def tableSet (nuc prot : List Nat) (tbl : List (Option Nat)) (key : List Nat) (aa : Nat) :
    Except Err (List (Option Nat)) :=
  match encodeChars nuc key with
  | .error e => .error e
  | .ok cc =>
    match codonNumber cc with
    | none => .error .valueError
    | some m =>
      match encode1 prot aa with
      | .error e => .error e
      | .ok a => .ok (tbl.set m (some a))

def tableFill (nuc prot : List Nat) : List (Option Nat) → List (List Nat × Nat) → Except Err (List (Option Nat))
  | tbl, [] => .ok tbl
  | tbl, (k, v) :: rest =>
    match tableSet nuc prot tbl k v with
    | .error e => .error e
    | .ok tbl' => tableFill nuc prot tbl' rest

def allSome : List (Option Nat) → Option (List Nat)
  | [] => some []
  | none :: _ => none
  | some x :: xs => (allSome xs).map (x :: ·)

/-- `CodonTable.__init__(codon_dict, starts)`; `dict` in insertion order, symbols are bytes. -/
def codonTableNew (nuc prot : List Nat) (dict : List (List Nat × Nat)) (starts : List (List Nat)) :
    Except Err CodonTable :=
  if starts.any (fun s => s.length ≠ 3) then .error .valueError
  else
    match mapE (encodeChars nuc) starts with
    | .error e => .error e
    | .ok sc =>
      if sc.isEmpty then .error .valueError      -- numpy cannot broadcast shape (0,) against (3,)
      else
        match sc.mapM codonNumber with
        | none => .error (.other "unreachable")
        | some st =>
          match tableFill nuc prot (List.replicate 64 none) dict with
          | .error e => .error e
          | .ok tbl =>
            match allSome tbl with
            | none => .error .valueError
            | some cs => .ok ⟨cs, st⟩

/-- `with_start_codons(starts)`. -/
def CodonTable.withStarts (nuc : List Nat) (t : CodonTable) (starts : List (List Nat)) : Except Err CodonTable :=
  match mapE (encodeChars nuc) starts with
  | .error e => .error e
  | .ok sc =>
    if sc.isEmpty then .error .valueError      -- numpy cannot broadcast shape (0,) against (3,)
    else
      match sc.mapM codonNumber with
      | none => .error .valueError
      | some st => .ok { t with starts := st }

/-- `with_codon_mappings(codon_dict)`: a *new* table (deep copy) whose slots are overwritten by the
given items; tables are values, the table it is derived from is not touched. -/
def CodonTable.withMappings (nuc prot : List Nat) (t : CodonTable) (dict : List (List Nat × Nat)) :
    Except Err CodonTable :=
  match tableFill nuc prot (t.codons.map some) dict with
  | .error e => .error e
  | .ok tbl =>
    match allSome tbl with
    | some cs => .ok { t with codons := cs }
    | none => .error (.other "unreachable")

/-- `CodonTable.load`: the rows `AA/Init/Base1..3` of one table of `codon_tables.txt`. -/
def codonTableOfRows (nuc prot : List Nat) (aa init b1 b2 b3 : List Nat) : Except Err CodonTable :=
  let idx := List.range aa.length
  let codon (i : Nat) : List Nat := (b1[i]?).toList ++ (b2[i]?).toList ++ (b3[i]?).toList
  let dict := idx.filterMap fun i => (aa[i]?).map fun a => (codon i, a)
  let starts := idx.filterMap fun i => if init[i]? = some 105 then some (codon i) else none
  codonTableNew nuc prot dict starts

/-- Split into complete codons (`reshape(-1, 3)`; a trailing partial codon is dropped by the caller). -/
def chunk3 : List Nat → List (List Nat)
  | a :: b :: c :: rest => [a, b, c] :: chunk3 rest
  | _ => []

/-- `_codons[_to_number(codon)]` for one codon. -/
def lookupCodon (t : CodonTable) (c : List Nat) : Except Err Nat :=
  -- `_to_number` (repaired code) refuses nucleotide codes outside the radix before forming the number
  if c.any (fun d => decide (4 ≤ d)) then .error .alphabetError else
  match codonNumber c with
  | none => .error .valueError
  | some m =>
    match t.codons[m]? with
    | some a => .ok a
    | none => .error .indexError

/-- `map_codon_codes`. -/
def mapCodonCodes (t : CodonTable) (cs : List (List Nat)) : Except Err (List Nat) := mapE (lookupCodon t) cs

/-- `is_start_codon` for one codon. -/
def isStart (t : CodonTable) (c : List Nat) : Bool :=
  match codonNumber c with
  | some m => t.starts.contains m
  | none => false

/-- `translate(complete=True)` on the code of an unambiguous sequence. -/
def translateComplete (t : CodonTable) (code : List Nat) : Except Err (List Nat) :=
  if code.length % 3 ≠ 0 then .error .valueError
  else mapCodonCodes t (chunk3 code)

/-- The protein from a start codon up to and including the first stop (or the frame end). -/
def uptoStop (stop : Nat) : List Nat → List Nat
  | [] => []
  | p :: ps => if p = stop then [p] else p :: uptoStop stop ps

/-- One reported ORF: start and exclusive stop in nucleotide coordinates, protein codes. -/
structure Orf where
  start : Nat
  stop : Nat
  prot : List Nat
  deriving DecidableEq, Repr

def mkOrf (stopCode metCode : Nat) (metStart : Bool) (pos : Nat) (fromStart : List Nat) : Orf :=
  let p := uptoStop stopCode fromStart
  ⟨pos, pos + 3 * p.length, if metStart then p.set 0 metCode else p⟩

/-- Loop over the start codons of one frame: `codons`/`prot` are the frame from codon `i` on,
`pos` is the nucleotide position of codon `i`. -/
def orfScan (t : CodonTable) (stopCode metCode : Nat) (metStart : Bool) :
    Nat → List (List Nat) → List Nat → List Orf
  | pos, c :: cs, p :: ps =>
    (if isStart t c then [mkOrf stopCode metCode metStart pos (p :: ps)] else [])
      ++ orfScan t stopCode metCode metStart (pos + 3) cs ps
  | _, _, _ => []

/-- One frame of `translate(complete=False)`. -/
def orfsFrame (t : CodonTable) (stopCode metCode : Nat) (metStart : Bool) (code : List Nat) (shift : Nat) :
    Except Err (List Orf) :=
  let frameLen := ((code.length - shift) / 3) * 3
  let frame := (code.drop shift).take frameLen
  let codons := chunk3 frame
  match mapCodonCodes t codons with
  | .error e => .error e
  | .ok prot => .ok (orfScan t stopCode metCode metStart shift codons prot)

def insertOrf (x : Orf) : List Orf → List Orf
  | [] => [x]
  | y :: ys => if x.start ≤ y.start then x :: y :: ys else y :: insertOrf x ys

/-- Order by start position (`np.argsort` of pairwise distinct starts). -/
def sortOrfs : List Orf → List Orf
  | [] => []
  | x :: xs => insertOrf x (sortOrfs xs)

/-- `translate(complete=False, met_start=…)`. -/
def translateOrfs (t : CodonTable) (stopCode metCode : Nat) (metStart : Bool) (code : List Nat) :
    Except Err (List Orf) :=
  match orfsFrame t stopCode metCode metStart code 0 with
  | .error e => .error e
  | .ok f0 =>
    match orfsFrame t stopCode metCode metStart code 1 with
    | .error e => .error e
    | .ok f1 =>
      match orfsFrame t stopCode metCode metStart code 2 with
      | .error e => .error e
      | .ok f2 => .ok (sortOrfs (f0 ++ f1 ++ f2))

end BiotiteModel.C03

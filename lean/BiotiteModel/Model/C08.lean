import BiotiteModel.Common
/-!
# C08 — executable model of optimal pairwise alignment (`align_optimal`, `align.score`)

## Interface (stable: C09 and C11 import this file)

Everything lives in `namespace BiotiteModel.C08`.

* `Seq  := List Nat`            sequence codes (`Sequence.code`)
* `Mat  := Nat → Nat → Int`      substitution matrix by code (`matrix.score_matrix()[x, y]`); `Mat.ofRows rows`
* `Col`                          one alignment column = one row of `Alignment.trace`
    * `Col.both i j`  trace row `[i, j]`   symbol `a[i]` over symbol `b[j]`
    * `Col.gapA j`    trace row `[-1, j]`  gap in the first sequence
    * `Col.gapB i`    trace row `[i, -1]`  gap in the second sequence
* `Aln  := List Col`;  `traceToAln : List (Int × Int) → Option Aln` (rejects `[-1,-1]` and indices `< -1`)
* `Mode := global | semi | local`   (`terminal_penalty=True` / `terminal_penalty=False` / `local=True`)
* `Gap  := lin g | aff go ge`
* `walk p aln : Option (Nat × Nat)`  follows the columns from table position `p = (i, j)` (symbols consumed so
  far) and fails as soon as a column's index is not the next one of its sequence (contiguous + order preserving).
* `ValidGlobal a b aln := walk (0,0) aln = some (a.length, b.length)`      end-to-end
  `ValidLocal  a b aln := ∃ i0 j0 i1 j1, walk (i0,j0) aln = some (i1,j1) ∧ i1 ≤ a.length ∧ j1 ≤ b.length`
  `Valid mode a b aln`   (global and semi → `ValidGlobal`, local → `ValidLocal`);  `NoAbut aln` (affine domain)
* scores
    * `scorePub M go ge tp a b aln : Int`  the public `align.score(alignment, matrix, (go, ge), tp)`
      statement by statement
    * `scoreLin M g a b aln : Int`      sum of column scores, `= scorePub M g g true` (`scorePub_lin`)
    * `scoreSemiPos M g a b p aln`      positional form of `terminal_penalty=False` (`= scorePub … false`
                                        on valid alignments of non-empty sequences: `scorePub_semi`)
    * `scoreAffSt M go ge a b prev aln` affine score by previous column kind (`= scorePub … true`: `scorePub_aff`)
    * `score mode gap M a b aln : Int`   the public score for a mode/gap setting
* optimum, by structural recursion over prefix lengths (`Rec.val`, never executed):
    * `optLin M g a b`, `optSemi M g a b`, `optLocal M g a b : Int`;  `opt mode M g a b`
    * `optAff mode M go ge a b : Int`   (three-state recursion, `none` = −∞)
* the DP tables as lists, mirroring `_fill_align_table(_affine)` row by row: `Rec.row`, `Rec.table`,
  `fillLin mode M g a b : List (List Int)`, `fillAff …`, `optT mode gap M a b : Int` (what the driver prints)
* `nTraces mode gap M a b maxNumber : Nat`  number of alignments `follow_trace` returns (count of co-optimal
  trace paths, capped) — executable model only
* `checkAlignment a b M gap mode trace score : Bool`  the verified checker
  (`true → Valid ∧ score mode … = score ∧ score ≤ opt`, see `Props/C08.lean`)
* traceback (linear): `Dir`, `traceDirs mode M g a b V`, `Dir.pred/col`, `followLin dirs mx fuel p suffix c`,
  `tracesLin mode M g a b V mx`, `localStarts`, `tracesLocalLin M g a b V mx` — model of `get_trace_linear` + `follow_trace` (theorems `C08_traces_*`)
* affine traceback: `ANode`, `followG next mx fuel s suffix c`, `nextAff mode M go ge a b T`, `startsAff`,
  `tracesAff mode M go ge a b T mx`, `affLookup`
* `alignOptimalModel mode gap M a b mx : Int × List Aln` — the whole model (headline theorems `C08_align_optimal_*`)
* `argCheck gap mx : Option Err` — the argument refusals of `align_optimal`
* `checkAll a b M gap mode maxNumber traces score : Bool`  all of the above for every trace, plus
  pairwise distinctness of the non-empty traces and `traces.length ≤ maxNumber`.

Conventions: unbounded `Int` (the int32 tables are the same numbers under `NoOverflow`; the pseudo −∞ of the
affine tables is `none`).  No Mathlib.
-/
namespace BiotiteModel.C08

abbrev Seq := List Nat
abbrev Mat := Nat → Nat → Int

def Mat.ofRows (rows : List (List Int)) : Mat := fun x y => (rows.getD x []).getD y 0

inductive Col where
  | both (i j : Nat)
  | gapA (j : Nat)
  | gapB (i : Nat)
  deriving DecidableEq, Repr

abbrev Aln := List Col

inductive Mode where
  | global | semi | local
  deriving DecidableEq, Repr

inductive Gap where
  | lin (g : Int)
  | aff (go ge : Int)
  deriving DecidableEq, Repr

/-- `Alignment.trace` rows → columns. -/
def rowToCol : Int × Int → Option Col
  | (i, j) =>
    if i ≥ 0 ∧ j ≥ 0 then some (.both i.toNat j.toNat)
    else if i = -1 ∧ j ≥ 0 then some (.gapA j.toNat)
    else if j = -1 ∧ i ≥ 0 then some (.gapB i.toNat)
    else none

def traceToAln (t : List (Int × Int)) : Option Aln := t.mapM rowToCol

/-! ## Validity -/

def stepPos : Nat × Nat → Col → Option (Nat × Nat)
  | (i, j), .both i' j' => if i' = i ∧ j' = j then some (i + 1, j + 1) else none
  | (i, j), .gapA j' => if j' = j then some (i, j + 1) else none
  | (i, j), .gapB i' => if i' = i then some (i + 1, j) else none

def walk : Nat × Nat → Aln → Option (Nat × Nat)
  | p, [] => some p
  | p, c :: cs => match stepPos p c with
    | some q => walk q cs
    | none => none

def ValidGlobal (a b : Seq) (aln : Aln) : Prop := walk (0, 0) aln = some (a.length, b.length)

def ValidLocal (a b : Seq) (aln : Aln) : Prop :=
  ∃ i0 j0 i1 j1, walk (i0, j0) aln = some (i1, j1) ∧ i1 ≤ a.length ∧ j1 ≤ b.length

def Valid : Mode → Seq → Seq → Aln → Prop
  | .global, a, b, aln => ValidGlobal a b aln
  | .semi, a, b, aln => ValidGlobal a b aln
  | .local, a, b, aln => ValidLocal a b aln

def noAbutB : Aln → Bool
  | .gapA _ :: .gapB _ :: _ => false
  | .gapB _ :: .gapA _ :: _ => false
  | _ :: r => noAbutB r
  | [] => true

/-- A gap in one sequence never directly abuts a gap in the other (domain of the affine optimum). -/
def NoAbut (aln : Aln) : Prop := noAbutB aln = true

/-- First index of sequence a / b that occurs in the alignment (0 if none): start of a local alignment. -/
def firstA : Aln → Nat
  | [] => 0
  | .both i _ :: _ => i
  | .gapB i :: _ => i
  | .gapA _ :: r => firstA r

def firstB : Aln → Nat
  | [] => 0
  | .both _ j :: _ => j
  | .gapA j :: _ => j
  | .gapB _ :: r => firstB r

def validB (mode : Mode) (a b : Seq) (aln : Aln) : Bool :=
  match mode with
  | .local =>
    match walk (firstA aln, firstB aln) aln with
    | some (i1, j1) => decide (i1 ≤ a.length) && decide (j1 ≤ b.length)
    | none => false
  | _ => decide (walk (0, 0) aln = some (a.length, b.length))

/-! ## Scores -/

def sub (M : Mat) (a b : Seq) (i j : Nat) : Int := M (a.getD i 0) (b.getD j 0)

def colScoreLin (M : Mat) (g : Int) (a b : Seq) : Col → Int
  | .both i j => sub M a b i j
  | _ => g

def scoreLin (M : Mat) (g : Int) (a b : Seq) : Aln → Int
  | [] => 0
  | c :: r => colScoreLin M g a b c + scoreLin M g a b r

def Col.hasA : Col → Bool
  | .gapA _ => false
  | _ => true

def Col.hasB : Col → Bool
  | .gapB _ => false
  | _ => true

/-- similarity part of `score()` (pairs of non-gap codes). -/
def subSum (M : Mat) (a b : Seq) : Aln → Int
  | [] => 0
  | .both i j :: r => sub M a b i j + subSum M a b r
  | _ :: r => subSum M a b r

/-- the `in_gap` loop of `score()` for one sequence (`has c` = the sequence has a symbol in column c). -/
def gapCost (go ge : Int) (has : Col → Bool) : Bool → Aln → Int
  | _, [] => 0
  | inGap, c :: r =>
    if has c then gapCost go ge has false r
    else (if inGap then ge else go) + gapCost go ge has true r

def firstIdx (has : Col → Bool) : Aln → Option Nat
  | [] => none
  | c :: r => if has c then some 0 else (firstIdx has r).map (· + 1)

def lastIdx (has : Col → Bool) : Aln → Option Nat
  | [] => none
  | c :: r => match lastIdx has r with
    | some k => some (k + 1)
    | none => if has c then some 0 else none

/-- `align.score(alignment, matrix, (go, ge), terminal_penalty=tp)` statement by statement.
`find_terminal_gaps`: a sequence without any symbol in the alignment never starts, so every column is terminal
(`start = len`, `stop = 0`; this is the repaired behaviour, the pinned code raised IndexError there). -/
def scorePub (M : Mat) (go ge : Int) (tp : Bool) (a b : Seq) (aln : Aln) : Int :=
  if tp then
    subSum M a b aln + gapCost go ge Col.hasA false aln + gapCost go ge Col.hasB false aln
  else
    let start := max ((firstIdx Col.hasA aln).getD aln.length) ((firstIdx Col.hasB aln).getD aln.length)
    let stop := match lastIdx Col.hasA aln, lastIdx Col.hasB aln with
      | some la, some lb => min la lb + 1
      | _, _ => 0
    let sl := (aln.drop start).take (stop - start)
    subSum M a b aln + gapCost go ge Col.hasA false sl + gapCost go ge Col.hasB false sl

/-- Positional form of the linear score with free terminal gaps: a gap column is free when the gapped
sequence has not started yet or is already exhausted. -/
def scoreSemiPos (M : Mat) (g : Int) (a b : Seq) : Nat × Nat → Aln → Int
  | _, [] => 0
  | (i, j), .both i' j' :: r => sub M a b i' j' + scoreSemiPos M g a b (i + 1, j + 1) r
  | (i, j), .gapA _ :: r => (if i = 0 ∨ i = a.length then 0 else g) + scoreSemiPos M g a b (i, j + 1) r
  | (i, j), .gapB _ :: r => (if j = 0 ∨ j = b.length then 0 else g) + scoreSemiPos M g a b (i + 1, j) r

/-- kind of the previous column, for the affine score as a state machine -/
inductive Kind where
  | none | m | ga | gb
  deriving DecidableEq, Repr

def scoreAffSt (M : Mat) (go ge : Int) (a b : Seq) : Kind → Aln → Int
  | _, [] => 0
  | _, .both i j :: r => sub M a b i j + scoreAffSt M go ge a b .m r
  | k, .gapA _ :: r => (if k = .ga then ge else go) + scoreAffSt M go ge a b .ga r
  | k, .gapB _ :: r => (if k = .gb then ge else go) + scoreAffSt M go ge a b .gb r

def Gap.go : Gap → Int
  | .lin g => g
  | .aff go _ => go

def Gap.ge : Gap → Int
  | .lin g => g
  | .aff _ ge => ge

/-- the public score under a mode (local alignments are scored like global ones: every gap counts). -/
def score (mode : Mode) (gap : Gap) (M : Mat) (a b : Seq) (aln : Aln) : Int :=
  scorePub M gap.go gap.ge (mode != .semi) a b aln

/-! ## Generic two-dimensional recurrence and its table -/

structure Rec (α : Type) where
  /-- value of the cells `(i, 0)` and `(0, j)` -/
  border : Nat → Nat → α
  /-- `cell i j diag left top` = value of cell `(i+1, j+1)` -/
  cell : Nat → Nat → α → α → α → α

namespace Rec
variable {α : Type} (R : Rec α)

def rowFn (i : Nat) (prev : Nat → α) : Nat → α
  | 0 => R.border (i + 1) 0
  | j + 1 => R.cell i j (prev j) (rowFn i prev j) (prev (j + 1))

/-- The recurrence as a function of the prefix lengths (specification; structural recursion). -/
def val : Nat → Nat → α
  | 0 => fun j => R.border 0 j
  | i + 1 => R.rowFn i (val i)

/-- cells `j+1 …` of row `i+1` from the rest of row `i` (`left`, `diag` = already known neighbours). -/
def rowCells (i : Nat) : α → α → Nat → List α → List α
  | _, _, _, [] => []
  | left, diag, j, top :: rest =>
    let v := R.cell i j diag left top
    v :: rowCells i v top (j + 1) rest

def nextRow (i : Nat) (prev : List α) : List α :=
  match prev with
  | [] => []
  | d :: rest =>
    let f := R.border (i + 1) 0
    f :: R.rowCells i f d 0 rest

/-- row `i` of the table with `m+1` columns, filled row by row as the Cython loops do. -/
def row (m : Nat) : Nat → List α
  | 0 => (List.range (m + 1)).map (R.border 0)
  | i + 1 => R.nextRow i (row m i)

/-- all rows `0..n` (used for the local maximum). -/
def table (m n : Nat) : List (List α) := (List.range (n + 1)).map (R.row m)

end Rec

def max3 (x y z : Int) : Int := max x (max y z)

def gapRun (g : Int) : Nat → Int
  | 0 => 0
  | k + 1 => gapRun g k + g

def listMax (init : Int) (l : List Int) : Int := l.foldl max init

/-! ## Linear gap penalty: `_fill_align_table` -/

def linRec (mode : Mode) (M : Mat) (g : Int) (a b : Seq) : Rec Int where
  border := fun i j => match mode with
    | .global => gapRun g (i + j)
    | _ => 0
  cell := fun i j diag left top =>
    let s := sub M a b i j
    match mode with
    | .global => max3 (diag + s) (left + g) (top + g)
    | .semi => max3 (diag + s) (left + (if i + 1 = a.length then 0 else g))
                 (top + (if j + 1 = b.length then 0 else g))
    | .local =>
      let v := max3 (diag + s) (left + g) (top + g)
      if v ≤ 0 then 0 else v

def optLin (M : Mat) (g : Int) (a b : Seq) : Int := (linRec .global M g a b).val a.length b.length
def optSemi (M : Mat) (g : Int) (a b : Seq) : Int := (linRec .semi M g a b).val a.length b.length
def optLocal (M : Mat) (g : Int) (a b : Seq) : Int :=
  listMax 0 ((List.range (a.length + 1)).flatMap fun i =>
    (List.range (b.length + 1)).map ((linRec .local M g a b).val i))

def opt : Mode → Mat → Int → Seq → Seq → Int
  | .global => optLin
  | .semi => optSemi
  | .local => optLocal

/-- the score table of `_fill_align_table` as a list of rows -/
def fillLin (mode : Mode) (M : Mat) (g : Int) (a b : Seq) : List (List Int) :=
  (linRec mode M g a b).table b.length a.length

/-- what `align_optimal` reports for a linear penalty (last cell / `np.max(score_table)`), from the table -/
def optLinT (mode : Mode) (M : Mat) (g : Int) (a b : Seq) : Int :=
  match mode with
  | .local => listMax 0 (fillLin .local M g a b).flatten
  | _ => (((linRec mode M g a b).row b.length a.length).getLast?).getD 0

/-! ## Affine gap penalty: `_fill_align_table_affine` -/

def oadd : Option Int → Int → Option Int
  | none, _ => none
  | some x, y => some (x + y)

def omax : Option Int → Option Int → Option Int
  | none, y => y
  | x, none => x
  | some x, some y => some (max x y)

def opos : Option Int → Bool
  | some v => decide (0 < v)
  | none => false

structure AffCell where
  m : Option Int
  g1 : Option Int
  g2 : Option Int
  deriving DecidableEq, Repr

def affRec (mode : Mode) (M : Mat) (go ge : Int) (a b : Seq) : Rec AffCell where
  border := fun i j =>
    let lead (k : Nat) : Int := match mode with
      | .global => go + gapRun ge (k - 1)
      | _ => 0
    if i = 0 ∧ j = 0 then ⟨some 0, none, none⟩
    else if i = 0 then ⟨none, some (lead j), none⟩
    else ⟨none, none, some (lead i)⟩
  cell := fun i j d l t =>
    let s := sub M a b i j
    let mS := omax (oadd d.m s) (omax (oadd d.g1 s) (oadd d.g2 s))
    let freeL : Bool := mode == .semi && i + 1 == a.length
    let freeT : Bool := mode == .semi && j + 1 == b.length
    let g1S := omax (oadd l.m (if freeL then 0 else go)) (oadd l.g1 (if freeL then 0 else ge))
    let g2S := omax (oadd t.m (if freeT then 0 else go)) (oadd t.g2 (if freeT then 0 else ge))
    match mode with
    | .local => ⟨if opos mS then mS else some 0, if opos g1S then g1S else none, if opos g2S then g2S else none⟩
    | _ => ⟨mS, g1S, g2S⟩

def AffCell.best (c : AffCell) : Option Int := omax c.m (omax c.g1 c.g2)

/-- the affine optimum by recursion (specification) -/
def optAff (mode : Mode) (M : Mat) (go ge : Int) (a b : Seq) : Int :=
  match mode with
  | .local =>
    listMax 0 (((List.range (a.length + 1)).flatMap fun i =>
      (List.range (b.length + 1)).map ((affRec .local M go ge a b).val i)).filterMap (·.m))
  | _ => (((affRec mode M go ge a b).val a.length b.length).best).getD 0

def fillAff (mode : Mode) (M : Mat) (go ge : Int) (a b : Seq) : List (List AffCell) :=
  (affRec mode M go ge a b).table b.length a.length

def optAffT (mode : Mode) (M : Mat) (go ge : Int) (a b : Seq) : Int :=
  match mode with
  | .local => listMax 0 ((fillAff .local M go ge a b).flatten.filterMap (·.m))
  | _ => match ((affRec mode M go ge a b).row b.length a.length).getLast? with
    | some c => c.best.getD 0
    | none => 0

/-- the optimum for a gap setting, by recursion (specification) -/
def optGap (mode : Mode) (gap : Gap) (M : Mat) (a b : Seq) : Int :=
  match gap with
  | .lin g => opt mode M g a b
  | .aff go ge => optAff mode M go ge a b

/-- the reported score computed from the tables (executable) -/
def optT (mode : Mode) (gap : Gap) (M : Mat) (a b : Seq) : Int :=
  match gap with
  | .lin g => optLinT mode M g a b
  | .aff go ge => optAffT mode M go ge a b

/-! ## Number of returned traces (`get_trace_*` tie bits + `follow_trace` branching), executable model -/

/-- maximum of the candidates and the number of trace paths through the candidates that attain it -/
def pickI (cs : List (Int × Nat)) : Int × Nat :=
  match cs with
  | [] => (0, 0)
  | c :: r =>
    let v := listMax c.1 (r.map (·.1))
    (v, (cs.filter (fun x => x.1 == v)).foldl (fun acc x => acc + x.2) 0)

def linCntRec (mode : Mode) (M : Mat) (g : Int) (a b : Seq) : Rec (Int × Nat) where
  border := fun i j => ((linRec mode M g a b).border i j, 1)
  cell := fun i j d l t =>
    let s := sub M a b i j
    let gl : Int := if mode == .semi && i + 1 == a.length then 0 else g
    let gt : Int := if mode == .semi && j + 1 == b.length then 0 else g
    let p := pickI [(d.1 + s, d.2), (l.1 + gl, l.2), (t.1 + gt, t.2)]
    if mode == .local && decide (p.1 ≤ 0) then (0, 1) else p

def pickO (cs : List (Option Int × Nat)) : Option Int × Nat :=
  let v := cs.foldl (fun acc x => omax acc x.1) none
  match v with
  | none => (none, 0)
  | some _ => (v, (cs.filter (fun x => x.1 == v)).foldl (fun acc x => acc + x.2) 0)

structure AffCnt where
  m : Option Int × Nat
  g1 : Option Int × Nat
  g2 : Option Int × Nat

def oadd2 (x : Option Int × Nat) (y : Int) : Option Int × Nat := (oadd x.1 y, x.2)

def affCntRec (mode : Mode) (M : Mat) (go ge : Int) (a b : Seq) : Rec AffCnt where
  border := fun i j =>
    let c := (affRec mode M go ge a b).border i j
    let w (x : Option Int) : Option Int × Nat := match x with
      | some v => (some v, 1)
      | none => (none, 0)
    ⟨w c.m, w c.g1, w c.g2⟩
  cell := fun i j d l t =>
    let s := sub M a b i j
    let mS := pickO [oadd2 d.m s, oadd2 d.g1 s, oadd2 d.g2 s]
    let freeL : Bool := mode == .semi && i + 1 == a.length
    let freeT : Bool := mode == .semi && j + 1 == b.length
    let g1S := pickO [oadd2 l.m (if freeL then 0 else go), oadd2 l.g1 (if freeL then 0 else ge)]
    let g2S := pickO [oadd2 t.m (if freeT then 0 else go), oadd2 t.g2 (if freeT then 0 else ge)]
    match mode with
    | .local => ⟨if opos mS.1 then mS else (some 0, 1), if opos g1S.1 then g1S else (none, 0),
                 if opos g2S.1 then g2S else (none, 0)⟩
    | _ => ⟨mS, g1S, g2S⟩

/-- total number of co-optimal trace paths (uncapped) -/
def nPaths (mode : Mode) (gap : Gap) (M : Mat) (a b : Seq) : Nat :=
  match gap with
  | .lin g =>
    let R := linCntRec mode M g a b
    match mode with
    | .local =>
      let cells := (R.table b.length a.length).flatten
      let mx := listMax 0 (cells.map (·.1))
      (cells.filter (fun c => c.1 == mx)).foldl (fun acc c => acc + c.2) 0
    | _ => match (R.row b.length a.length).getLast? with
      | some c => c.2
      | none => 0
  | .aff go ge =>
    let R := affCntRec mode M go ge a b
    match mode with
    | .local =>
      let cells := (R.table b.length a.length).flatten
      let mx := listMax 0 (cells.filterMap (·.m.1))
      (cells.filter (fun c => c.m.1 == some mx)).foldl (fun acc c => acc + c.m.2) 0
    | _ => match (R.row b.length a.length).getLast? with
      | some c => (pickO [c.m, c.g1, c.g2]).2
      | none => 0

def nTraces (mode : Mode) (gap : Gap) (M : Mat) (a b : Seq) (maxNumber : Nat) : Nat :=
  min maxNumber (nPaths mode gap M a b)

/-! ## Traceback for linear penalties: `get_trace_linear` bits + `follow_trace` (additive, second pass) -/

inductive Dir where
  | diag | left | top
  deriving DecidableEq, Repr

/-- directions set in `trace_table[i, j]`, in the order `follow_trace` examines them (MATCH, GAP_LEFT, GAP_TOP);
`V` is the score table (`Rec.val` in the theorems, a table lookup in the driver). -/
def traceDirs (mode : Mode) (M : Mat) (g : Int) (a b : Seq) (V : Nat → Nat → Int) : Nat × Nat → List Dir
  | (0, 0) => []
  | (0, _ + 1) => if mode = .local then [] else [.left]
  | (_ + 1, 0) => if mode = .local then [] else [.top]
  | (i + 1, j + 1) =>
    let fd := V i j + sub M a b i j
    let fl := V (i + 1) j + (if mode = .semi ∧ i + 1 = a.length then 0 else g)
    let ft := V i (j + 1) + (if mode = .semi ∧ j + 1 = b.length then 0 else g)
    let mx := max3 fd fl ft
    if mode = .local ∧ mx ≤ 0 then []
    else (if fd = mx then [Dir.diag] else []) ++ (if fl = mx then [Dir.left] else [])
      ++ (if ft = mx then [Dir.top] else [])

def Dir.pred : Dir → Nat × Nat → Nat × Nat
  | .diag, (i, j) => (i - 1, j - 1)
  | .left, (i, j) => (i, j - 1)
  | .top, (i, j) => (i - 1, j)

/-- the alignment column a traceback step from cell `(i, j)` in direction `d` produces -/
def Dir.col : Dir → Nat × Nat → Col
  | .diag, (i, j) => .both (i - 1) (j - 1)
  | .left, (_, j) => .gapA (j - 1)
  | .top, (i, _) => .gapB (i - 1)

/-- the `for k in range(1, len(next_indices))` loop: branches are followed while the counter is below `mx` -/
def runBranches (mx : Nat) (run : Dir → Nat → List Aln × Nat) : List Dir → Nat → List Aln × Nat
  | [], c => ([], c)
  | d :: ds, c =>
    if c < mx then
      let r := run d (c + 1)
      let r2 := runBranches mx run ds r.2
      (r.1 ++ r2.1, r2.2)
    else runBranches mx run ds c

/-- `follow_trace` for one table: returns the finished traces (as alignments, forward order) and the counter.
`fuel ≥ i + j + 1` always suffices (every step decreases `i + j`). -/
def followLin (dirs : Nat × Nat → List Dir) (mx : Nat) : Nat → Nat × Nat → Aln → Nat → List Aln × Nat
  | 0, _, _, c => ([], c)
  | fuel + 1, p, suffix, c =>
    match dirs p with
    | [] => ([suffix], c)
    | d0 :: ds =>
      let b := runBranches mx (fun d c' => followLin dirs mx fuel (d.pred p) (d.col p :: suffix) c') ds c
      let r0 := followLin dirs mx fuel (d0.pred p) (d0.col p :: suffix) b.2
      (b.1 ++ r0.1, r0.2)

/-- all traces `align_optimal` returns for a linear penalty in global / semi-global mode (one start cell) -/
def tracesLin (mode : Mode) (M : Mat) (g : Int) (a b : Seq) (V : Nat → Nat → Int) (mx : Nat) : List Aln :=
  ((followLin (traceDirs mode M g a b V) mx (a.length + b.length + 1) (a.length, b.length) [] 1).1).take mx

/-- read a cell of a table given as a list of rows (0 outside) -/
def tableLookup (tbl : List (List Int)) (i j : Nat) : Int := (tbl.getD i []).getD j 0

/-- start cells of the local traceback: every cell holding the table maximum, row-major like `np.where` -/
def localStarts (V : Nat → Nat → Int) (n m : Nat) : List (Nat × Nat) :=
  let cells := (List.range (n + 1)).flatMap fun i => (List.range (m + 1)).map fun j => (i, j)
  let mx := listMax 0 (cells.map fun p => V p.1 p.2)
  cells.filter fun p => V p.1 p.2 == mx

/-- all traces `align_optimal` returns for a linear penalty in local mode: one `follow_trace` call (counter
restarted at 1) per start cell, concatenated, then `trace_list[:max_number]` -/
def tracesLocalLin (M : Mat) (g : Int) (a b : Seq) (V : Nat → Nat → Int) (mx : Nat) : List Aln :=
  ((localStarts V a.length b.length).flatMap fun p =>
    (followLin (traceDirs .local M g a b V) mx (p.1 + p.2 + 1) p [] 1).1).take mx

/-! ## Traceback for affine penalties: `get_trace_affine` bits + `follow_trace` with states (additive, third pass) -/

/-- a node of the affine traceback: table cell and state (`Kind.m` = match table, `.ga` = gap-left / g1 table,
`.gb` = gap-top / g2 table) -/
abbrev ANode := (Nat × Nat) × Kind

/-- generic `follow_trace` branch loop over (predecessor node, produced column) pairs -/
def runBranchesG {σ : Type} (mx : Nat) (run : σ × Col → Nat → List Aln × Nat) :
    List (σ × Col) → Nat → List Aln × Nat
  | [], c => ([], c)
  | d :: ds, c =>
    if c < mx then
      let r := run d (c + 1)
      let r2 := runBranchesG mx run ds r.2
      (r.1 ++ r2.1, r2.2)
    else runBranchesG mx run ds c

/-- generic `follow_trace`: `next s` = the (predecessor, column) pairs of node `s` in the order the code examines
them; the first continues the current trace, the others branch while the counter is below `mx`. -/
def followG {σ : Type} (next : σ → List (σ × Col)) (mx : Nat) : Nat → σ → Aln → Nat → List Aln × Nat
  | 0, _, _, c => ([], c)
  | fuel + 1, s, suffix, c =>
    match next s with
    | [] => ([suffix], c)
    | d0 :: ds =>
      let b := runBranchesG mx (fun d c' => followG next mx fuel d.1 (d.2 :: suffix) c') ds c
      let r0 := followG next mx fuel d0.1 (d0.2 :: suffix) b.2
      (b.1 ++ r0.1, r0.2)

/-- candidates that attain the maximum `v` (bit set in the trace table), as (predecessor, column) -/
def pickCands (v : Option Int) (cs : List (ANode × Col × Option Int)) : List (ANode × Col) :=
  (cs.filter fun c => c.2.2 == v).map fun c => (c.1, c.2.1)

/-- In local mode a trace that reaches the first row / column ends there whatever the state: the node is
canonicalised to the match state (unobservable in the code: `trace_table` is 0 on the local border). -/
def canonNode (mode : Mode) (s : ANode) : ANode :=
  if mode = .local ∧ (s.1.1 = 0 ∨ s.1.2 = 0) then (s.1, .m) else s

/-- (predecessor node, column) pairs of an affine traceback node; `T` = the three score tables. -/
def nextAff (mode : Mode) (M : Mat) (go ge : Int) (a b : Seq) (T : Nat → Nat → AffCell) : ANode → List (ANode × Col)
  | ((0, 0), _) => []
  | ((0, j + 1), k) =>
    if mode = .local then [] else
    match k with
    | .ga => if j = 0 then [(((0, 0), .m), .gapA 0)] else [(((0, j), .ga), .gapA j)]
    | _ => []
  | ((i + 1, 0), k) =>
    if mode = .local then [] else
    match k with
    | .gb => if i = 0 then [(((0, 0), .m), .gapB 0)] else [(((i, 0), .gb), .gapB i)]
    | _ => []
  | ((i + 1, j + 1), k) =>
    let cands : List (ANode × Col × Option Int) := match k with
      | .ga =>
        let l := T (i + 1) j
        let free : Bool := mode == .semi && i + 1 == a.length
        [(((i + 1, j), .m), .gapA j, oadd l.m (if free then 0 else go)),
         (((i + 1, j), .ga), .gapA j, oadd l.g1 (if free then 0 else ge))]
      | .gb =>
        let t := T i (j + 1)
        let free : Bool := mode == .semi && j + 1 == b.length
        [(((i, j + 1), .m), .gapB i, oadd t.m (if free then 0 else go)),
         (((i, j + 1), .gb), .gapB i, oadd t.g2 (if free then 0 else ge))]
      | _ =>
        let d := T i j
        let s := sub M a b i j
        [(((i, j), .m), .both i j, oadd d.m s), (((i, j), .ga), .both i j, oadd d.g1 s),
         (((i, j), .gb), .both i j, oadd d.g2 s)]
    let v := cands.foldr (fun c acc => omax c.2.2 acc) none
    if v.isNone || (mode == .local && !opos v) then []
    else (pickCands v cands).map fun c => (canonNode mode c.1, c.2)

/-- start nodes of the affine traceback, in the order `align_optimal` builds `i_list/j_list/state_list` -/
def startsAff (mode : Mode) (T : Nat → Nat → AffCell) (n m : Nat) : List ANode :=
  match mode with
  | .local =>
    let cells := (List.range (n + 1)).flatMap fun i => (List.range (m + 1)).map fun j => (i, j)
    let mx := listMax 0 (cells.filterMap fun p => (T p.1 p.2).m)
    (cells.filter fun p => (T p.1 p.2).m == some mx).map fun p => (p, Kind.m)
  | _ =>
    let c := T n m
    ([(Kind.m, c.m), (Kind.ga, c.g1), (Kind.gb, c.g2)].filter fun x => x.2.isSome && x.2 == c.best).map
      fun x => ((n, m), x.1)

/-- all traces `align_optimal` returns for an affine penalty -/
def tracesAff (mode : Mode) (M : Mat) (go ge : Int) (a b : Seq) (T : Nat → Nat → AffCell) (mx : Nat) : List Aln :=
  ((startsAff mode T a.length b.length).flatMap fun s =>
    (followG (nextAff mode M go ge a b T) mx (s.1.1 + s.1.2 + 1) s [] 1).1).take mx

def affLookup (tbl : List (List AffCell)) (i j : Nat) : AffCell := (tbl.getD i []).getD j ⟨none, none, none⟩

/-- the trivial trace `[[0,0],[1,1],…]` that `align_ungapped` returns for two sequences of equal length -/
def diagAln : Nat → Nat → Aln
  | _, 0 => []
  | k, n + 1 => .both k k :: diagAln (k + 1) n

/-- Argument checks of `align_optimal` in the order the code performs them (`none` = accepted):
positive gap penalty → ValueError; `max_number < 1` → ValueError; a gap penalty that does not fit a C `int`
(`_fill_align_table(int gap_penalty, …)`) → OverflowError; `max_number ≥ 2³¹` → OverflowError when it is handed to
`follow_trace(int max_trace_count)` (known finding: the property quantifies over all `max_number ≥ 1`). -/
def argCheck (gap : Gap) (mx : Int) : Option Err :=
  if gap.go > 0 ∨ gap.ge > 0 then some .valueError
  else if mx < 1 then some .valueError
  else if gap.go < -2147483648 ∨ gap.ge < -2147483648 then some .overflowError
  else if mx ≥ 2147483648 then some .overflowError
  else none

/-- The model of `align_optimal`: table fill, reported score read off the table, start selection, traceback and
the final `[:max_number]` truncation.  Returns (reported score, returned alignments). -/
def alignOptimalModel (mode : Mode) (gap : Gap) (M : Mat) (a b : Seq) (mx : Nat) : Int × List Aln :=
  match gap with
  | .lin g =>
    (optLinT mode M g a b,
     match mode with
     | .local => tracesLocalLin M g a b (tableLookup (fillLin .local M g a b)) mx
     | _ => tracesLin mode M g a b (tableLookup (fillLin mode M g a b)) mx)
  | .aff go ge =>
    (optAffT mode M go ge a b, tracesAff mode M go ge a b (affLookup (fillAff mode M go ge a b)) mx)

/-- `align_optimal` with an affine penalty, `local=False` and an empty sequence raises IndexError
(`trace_table[0, 1] = …` / `trace_table[1, 0] = …` on a table with a single column / row): known finding. -/
def raisesIndexError (mode : Mode) (gap : Gap) (a b : Seq) : Bool :=
  match gap, mode with
  | .aff _ _, .local => false
  | .aff _ _, _ => a.isEmpty || b.isEmpty
  | .lin _, _ => false

/-! ## The checker -/

/-- One returned alignment: valid, honestly scored (public `score()`; for the semi-global linear case
also equal to the positional form the optimality theorem is stated for), and not above the optimum. -/
def checkAln (a b : Seq) (M : Mat) (gap : Gap) (mode : Mode) (aln : Aln) (sc : Int) : Bool :=
  validB mode a b aln
  && decide (score mode gap M a b aln = sc)
  && (match mode, gap with
      | .semi, .lin g => decide (scoreSemiPos M g a b (0, 0) aln = sc)
      | _, .lin _ => true
      | _, .aff _ _ => noAbutB aln)
  && decide (sc ≤ optT mode gap M a b)

def checkAlignment (a b : Seq) (M : Mat) (gap : Gap) (mode : Mode) (trace : List (Int × Int)) (sc : Int) : Bool :=
  match traceToAln trace with
  | some aln => checkAln a b M gap mode aln sc
  | none => false

def distinctNonEmpty : List (List (Int × Int)) → Bool
  | [] => true
  | t :: r => (t.isEmpty || !(r.contains t)) && distinctNonEmpty r

def checkAll (a b : Seq) (M : Mat) (gap : Gap) (mode : Mode) (maxNumber : Nat)
    (traces : List (List (Int × Int))) (sc : Int) : Bool :=
  traces.all (fun t => checkAlignment a b M gap mode t sc)
  && distinctNonEmpty traces
  && decide (traces.length ≤ maxNumber)

end BiotiteModel.C08

import BiotiteModel.Model.C11
/-!
# C11 — executable model of cigar.py (`write_alignment_to_cigar`, `read_alignment_from_cigar`)

Pairwise view of a trace: one `(reference index?, segment index?)` pair per column.
-/
namespace BiotiteModel.C11
open BiotiteModel

/-- `CigarOp` (the member order is the BAM code order; checked against the source by `Gen/C11.lean`). -/
inductive Op where
  | M | I | D | N | S | H | P | EQ | X | B
  deriving DecidableEq, Repr

def Op.all : List Op := [.M, .I, .D, .N, .S, .H, .P, .EQ, .X, .B]

def Op.code : Op → Nat
  | .M => 0 | .I => 1 | .D => 2 | .N => 3 | .S => 4 | .H => 5 | .P => 6 | .EQ => 7 | .X => 8 | .B => 9

def Op.name : Op → String
  | .M => "MATCH" | .I => "INSERTION" | .D => "DELETION" | .N => "INTRON" | .S => "SOFT_CLIP"
  | .H => "HARD_CLIP" | .P => "PADDING" | .EQ => "EQUAL" | .X => "DIFFERENT" | .B => "BACK"

/-- `_op_to_str` -/
def Op.symbol : Op → Char
  | .M => 'M' | .I => 'I' | .D => 'D' | .N => 'N' | .S => 'S' | .H => 'H' | .P => 'P' | .EQ => '=' | .X => 'X' | .B => 'B'

/-- `_str_to_op` (KeyError for any other character) -/
def Op.ofSymbol (c : Char) : Option Op := Op.all.find? fun o => o.symbol == c

def Op.ofCode (n : Nat) : Option Op := Op.all.find? fun o => o.code == n

/-- What the reader does with an operation: the branches of `read_alignment_from_cigar`. -/
inductive Kind where
  | both      -- M = X : reference and segment advance, column emitted
  | segOnly   -- I     : segment advances, column with a reference gap
  | refOnly   -- D N   : reference advances, column with a segment gap
  | softClip  -- S     : segment advances, nothing emitted
  | hardClip  -- H     : nothing
  | unsupported -- P B : ValueError
  deriving DecidableEq, Repr

def Op.kind : Op → Kind
  | .M | .EQ | .X => .both
  | .I => .segOnly
  | .D | .N => .refOnly
  | .S => .softClip
  | .H => .hardClip
  | .P | .B => .unsupported

abbrev PCol := Option Nat × Option Nat
abbrev PTrace := List PCol

/-- `(trace[:, ri], trace[:, si])` -/
def pairOf (t : Trace) (ri si : Nat) : Except Err PTrace :=
  mapE (fun c => match c[ri]?, c[si]? with
    | some a, some b => .ok (a, b)
    | _, _ => .error .indexError) t

def PTrace.toTrace (t : PTrace) : Trace := t.map fun c => [c.1, c.2]

/-- drop trailing columns with a segment gap -/
def dropEndGaps : PTrace → PTrace
  | [] => []
  | c :: r => match dropEndGaps r with
    | [] => if c.2.isNone then [] else [c]
    | r' => c :: r'

/-- `_remove_terminal_segment_gaps`: `alignment[no_gap_pos[0] : no_gap_pos[-1] + 1]`; a segment without any
aligned base → IndexError. -/
def trimSeg (t : PTrace) : Except Err PTrace :=
  match dropEndGaps (t.dropWhile fun c => c.2.isNone) with
  | [] => .error .indexError
  | r => .ok r

/-- segment index of the first aligned segment base -/
def firstSeg : PTrace → Option Nat
  | [] => none
  | (_, some s) :: _ => some s
  | (_, none) :: r => firstSeg r

def lastSeg (t : PTrace) : Option Nat := firstSeg t.reverse

/-- first reference index (the `position` a reader needs) -/
def firstRef : PTrace → Option Nat
  | [] => none
  | (some r, _) :: _ => some r
  | (none, _) :: r => firstRef r

def colOp : PCol → Except Err Op
  | (none, none) => .error .valueError
  | (none, some _) => .ok .I
  | (some _, none) => .ok .D
  | (some _, some _) => .ok .M

def inIntron (introns : List (Int × Int)) (c : PCol) : Bool :=
  match c.1 with
  | none => false
  | some r => introns.any fun (a, b) => a ≤ (r : Int) && (r : Int) < b

/-- `_aggregate_consecutive` on a non-empty array: run-length encoding. -/
def aggregate : List Op → List (Op × Nat)
  | [] => []
  | o :: r => match aggregate r with
    | (o', n) :: rest => if o = o' then (o, n + 1) :: rest else (o, 1) :: (o', n) :: rest
    | [] => [(o, 1)]

def expand (ops : List (Op × Nat)) : List Op := ops.flatMap fun (o, n) => List.replicate n o

structure WOpts where
  introns : List (Int × Int)
  dm : Bool       -- distinguish_matches
  hc : Bool       -- hard_clip
  itg : Bool      -- include_terminal_gaps
  deriving Repr

/-- `=` / `X` decision for a match column (`get_codes` row comparison). -/
def eqOp (refSeq segSeq : List Nat) (c : PCol) (o : Op) : Except Err Op :=
  match c with
  | (some r, some s) =>
    match refSeq[r]?, segSeq[s]? with
    | some a, some b => .ok (if o = .M then (if a = b then .EQ else .X) else o)
    | _, _ => .error .indexError
  | (some r, none) => if r < refSeq.length then .ok o else .error .indexError
  | (none, some s) => if s < segSeq.length then .ok o else .error .indexError
  | (none, none) => .ok o

/-- `l = a, a+1, a+2, …` -/
def consecFrom : Nat → List Nat → Bool
  | _, [] => true
  | a, b :: r => b == a && consecFrom (a + 1) r

/-- `np.all(np.diff(indices) == 1)`: the positions are consecutive -/
def rowContig : List Nat → Bool
  | [] => true
  | a :: r => consecFrom (a + 1) r

/-- the reference and the segment positions of the trace are consecutive (check added by fix b62f18f5: a CIGAR cannot
describe skipped positions) -/
def contigB (t : PTrace) : Bool := rowContig (t.filterMap (·.1)) && rowContig (t.filterMap (·.2))

/-- per-column operations of `write_alignment_to_cigar` (before aggregation). -/
def columnOps (o : WOpts) (refSeq segSeq : List Nat) (t : PTrace) : Except Err (List Op) :=
  match mapE colOp t with
  | .error e => .error e
  | .ok ops =>
    if !contigB t then .error .valueError else
    if o.introns.any (fun (a, b) => decide (a ≥ b) || decide (a < 0)) then .error .valueError else
    if (t.zip ops).any (fun (c, op) => inIntron o.introns c && op != .D) then .error .valueError else
    let ops2 := (t.zip ops).map fun (c, op) => if inIntron o.introns c then Op.N else op
    if o.dm then mapE (fun (c, op) => eqOp refSeq segSeq c op) (t.zip ops2) else .ok ops2

/-- `_find_clipped_bases` + the clip tuples.  `none`: the trace points beyond the segment (negative clip
length in the real code) — not modelled. -/
def clips (segLen : Nat) (t : PTrace) : Except Err (Option (Nat × Nat)) :=
  match firstSeg t, lastSeg t with
  | some a, some b => .ok (if b + 1 ≤ segLen then some (a, segLen - (b + 1)) else none)
  | _, _ => .error .indexError

/-- `write_alignment_to_cigar(..., as_string=False)` on the (reference, segment) pair trace. -/
def writeOps (o : WOpts) (refSeq segSeq : List Nat) (t : PTrace) : Except Err (Option (List (Op × Nat))) :=
  match (if o.itg then .ok t else trimSeg t) with
  | .error e => .error e
  | .ok t' =>
    match columnOps o refSeq segSeq t' with
    | .error e => .error e
    | .ok ops =>
      if ops.isEmpty then .error .indexError else
      match clips segSeq.length t' with
      | .error e => .error e
      | .ok none => .ok none
      | .ok (some (a, b)) =>
        let clip := if o.hc then Op.H else Op.S
        .ok (some ((if a = 0 then [] else [(clip, a)]) ++ aggregate ops ++ (if b = 0 then [] else [(clip, b)])))

/-! ### CIGAR strings -/

def digitChar (d : Nat) : Char := Char.ofNat (48 + d)

def natDigits (n : Nat) : List Char :=
  if n < 10 then [digitChar n] else natDigits (n / 10) ++ [digitChar (n % 10)]
termination_by n
decreasing_by omega

/-- `_cigar_from_op_tuples` -/
def printOps (ops : List (Op × Nat)) : List Char := ops.flatMap fun (o, n) => natDigits n ++ [o.symbol]

def isDigit (c : Char) : Bool := 48 ≤ c.toNat && c.toNat ≤ 57

/-- first phase of `_op_tuples_from_cigar`: the loop over the characters (`count` is a string; `none` = `""`).
An unknown operation character → KeyError.  Trailing digits are dropped. -/
def tokenize : Option Nat → List Char → Except Err (List (Op × Option Nat))
  | _, [] => .ok []
  | cnt, c :: r =>
    if isDigit c then tokenize (some (cnt.getD 0 * 10 + (c.toNat - 48))) r
    else match Op.ofSymbol c with
      | none => .error .keyError
      | some op => match tokenize none r with
        | .error e => .error e
        | .ok rest => .ok ((op, cnt) :: rest)

/-- `_op_tuples_from_cigar`: second phase `np.array(op_tuples, dtype=int)`: an empty count → ValueError. -/
def parseCigar (s : List Char) : Except Err (List (Op × Nat)) :=
  match tokenize none s with
  | .error e => .error e
  | .ok toks => mapE (fun (op, cnt) => match cnt with
    | none => .error .valueError
    | some n => .ok (op, n)) toks

/-! ### reader -/

def readGo : Nat → Nat → List (Op × Nat) → Except Err PTrace
  | _, _, [] => .ok []
  | rp, sp, (op, n) :: rest =>
    match op.kind with
    | .both => (readGo (rp + n) (sp + n) rest).map fun r =>
        ((List.range n).map fun i => (some (rp + i), some (sp + i))) ++ r
    | .segOnly => (readGo rp (sp + n) rest).map fun r =>
        ((List.range n).map fun i => (none, some (sp + i))) ++ r
    | .refOnly => (readGo (rp + n) sp rest).map fun r =>
        ((List.range n).map fun i => (some (rp + i), none)) ++ r
    | .softClip => readGo rp (sp + n) rest
    | .hardClip => readGo rp sp rest
    | .unsupported => .error .valueError

/-- `read_alignment_from_cigar(op_tuples, position, …).trace` -/
def readOps (position : Nat) (ops : List (Op × Nat)) : Except Err PTrace := readGo position 0 ops

def readCigar (position : Nat) (s : List Char) : Except Err PTrace :=
  match parseCigar s with
  | .error e => .error e
  | .ok ops => readOps position ops

/-- shift the segment indices down by `d` (segment sequence without its hard-clipped head). -/
def shiftSeg (d : Nat) (t : PTrace) : PTrace := t.map fun c => (c.1, c.2.map (· - d))

end BiotiteModel.C11

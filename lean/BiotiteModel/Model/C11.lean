import BiotiteModel.Common
/-!
# C11 — executable model of `Alignment` traces and their conversions (alignment.py, fasta/convert.py)

A trace is `List (List (Option Nat))`: one inner list per alignment **column** (= one row of the numpy
array `Alignment.trace`), one entry per sequence, `none` = gap (`-1`).  Sequences are lists of symbol
codes; for the string conversions they are lists of characters (single-letter alphabets).

Everything the real code rejects is `Except Err`.  No Mathlib.
-/
namespace BiotiteModel.C11
open BiotiteModel

abbrev Col := List (Option Nat)
abbrev Trace := List Col

/-- `mapM` in `Except Err`, by structural recursion (the first failing element decides the error). -/
def mapE {α β : Type} (f : α → Except Err β) : List α → Except Err (List β)
  | [] => .ok []
  | a :: r => match f a with
    | .error e => .error e
    | .ok b => match mapE f r with
      | .error e => .error e
      | .ok bs => .ok (b :: bs)

/-- `trace[:, k]`: the entries of sequence `k`, column by column (`none` when a column is too short). -/
def seqRow (t : Trace) (k : Nat) : List (Option (Option Nat)) := t.map (·[k]?)

/-- The sequence positions sequence `k` contributes, in column order. -/
def covered (t : Trace) (k : Nat) : List Nat := t.filterMap fun c => (c[k]?).join

/-- The property's trace invariant: rectangular with `n` sequences, each sequence's indices strictly
increasing, no column consisting of gaps only. -/
def Valid (n : Nat) (t : Trace) : Prop :=
  (∀ c ∈ t, c.length = n) ∧ (∀ k, k < n → (covered t k).Pairwise (· < ·)) ∧ (∀ c ∈ t, ∃ x ∈ c, x ≠ none)

def strictInc : List Nat → Bool
  | [] => true
  | [_] => true
  | a :: b :: r => a < b && strictInc (b :: r)

/-- Boolean form of `Valid` (used by the driver; `validB_iff` in Proofs). -/
def validB (n : Nat) (t : Trace) : Bool :=
  t.all (fun c => c.length == n) && (List.range n).all (fun k => strictInc (covered t k)) &&
  t.all (fun c => c.any (fun x => x.isSome))

/-- All indices of sequence `k` are positions of a sequence of length `len`. -/
def InRange (t : Trace) (k len : Nat) : Prop := ∀ j ∈ covered t k, j < len

/-! ## gapped strings (`Alignment._gapped_str`, `get_gapped_sequences`, `trace_from_strings`) -/

/-- one character of `_gapped_str`: `str(self.sequences[k][j])` or `"-"`. -/
def gapChar (seq : List Char) (k : Nat) (c : Col) : Except Err Char :=
  match c[k]? with
  | none => .error .indexError
  | some none => .ok '-'
  | some (some j) => match seq[j]? with
    | some s => .ok s
    | none => .error .indexError

def gappedStr (seq : List Char) (t : Trace) (k : Nat) : Except Err (List Char) := mapE (gapChar seq k) t

def gappedFrom (t : Trace) : Nat → List (List Char) → Except Err (List (List Char))
  | _, [] => .ok []
  | k, s :: ss => do
    let a ← gappedStr s t k
    let r ← gappedFrom t (k + 1) ss
    pure (a :: r)

/-- `Alignment.get_gapped_sequences()` -/
def gappedStrings (seqs : List (List Char)) (t : Trace) : Except Err (List (List Char)) := gappedFrom t 0 seqs

/-- the per-string numbering of `trace_from_strings`: the counter `seq_i[str_j]` starts at `n`. -/
def numberRow : Nat → List Char → List (Option Nat)
  | _, [] => []
  | n, c :: cs => if c = '-' then none :: numberRow n cs else some n :: numberRow (n + 1) cs

/-- columns of a list of equally long rows. -/
def transpose {α : Type} : Nat → List (List α) → List (List α)
  | 0, _ => []
  | n + 1, rows => rows.filterMap List.head? :: transpose n (rows.map List.tail)

/-- `Alignment.trace_from_strings`: fewer than two strings → ValueError; the length of the *first* string
decides the number of columns, a shorter later string → IndexError, longer ones are cut. -/
def traceFromStrings (strs : List (List Char)) : Except Err Trace :=
  match strs with
  | [] | [_] => .error .valueError
  | s0 :: _ =>
    let n := s0.length
    if strs.any (fun s => s.length < n) then .error .indexError
    else .ok (transpose n (strs.map fun s => numberRow 0 (s.take n)))

/-- remove the gap characters (`seq_str.replace("-", "")` in `fasta.get_alignment`). -/
def stripChars (s : List Char) : List Char := s.filter (· ≠ '-')

/-- `fasta.get_alignment` after `set_alignment`: additional gap characters are mapped to `-`, sequences are the
strings without gaps, the trace comes from `trace_from_strings`. -/
def fastaGet (extraGap : List Char) (strs : List (List Char)) : Except Err (List (List Char) × Trace) :=
  let strs' := strs.map fun s => s.map fun c => if c ∈ extraGap then '-' else c
  (traceFromStrings strs').map fun t => (strs'.map stripChars, t)

/-! ## code and symbol matrices (`get_codes`, `get_symbols`) -/

def codeAt {α : Type} (seq : List α) (k : Nat) (c : Col) : Except Err (Option α) :=
  match c[k]? with
  | none => .error .indexError
  | some none => .ok none
  | some (some j) => match seq[j]? with
    | some s => .ok (some s)
    | none => .error .indexError

def codesFrom {α : Type} (t : Trace) : Nat → List (List α) → Except Err (List (List (Option α)))
  | _, [] => .ok []
  | k, s :: ss => do
    let a ← mapE (codeAt s k) t
    let r ← codesFrom t (k + 1) ss
    pure (a :: r)

/-- `get_codes(alignment)`: one row per sequence, `none` = −1.
The model is dtype-independent: a code is an unbounded natural and the gap is a separate value, so an entry is a
gap exactly when the trace entry is a gap and otherwise it *is* `sequences[k].code[j]`, whatever the size of the
alphabet (the real matrix is int64; a narrower matrix would turn large codes into other codes or into −1 — the
`bigalph` correspondence stream exercises codes around 2^15 and 2^16). -/
def getCodes (seqs : List (List Nat)) (t : Trace) : Except Err (List (List (Option Nat))) := codesFrom t 0 seqs

/-- decode one code (`alphabet.decode_multiple` raises AlphabetError on a code outside the alphabet) -/
def decodeEntry (alph : List Char) : Option Nat → Except Err (Option Char)
  | none => .ok none
  | some c => match alph[c]? with
    | some s => .ok (some s)
    | none => .error .alphabetError

def decodeRow (alph : List Char) (row : List (Option Nat)) : Except Err (List (Option Char)) := mapE (decodeEntry alph) row

/-- every row is decoded with the alphabet of **its own** sequence (`alignment.sequences[i].get_alphabet()`) -/
def decodeRows : List (List Char) → List (List (Option Nat)) → Except Err (List (List (Option Char)))
  | _, [] => .ok []
  | [], _ :: _ => .error .indexError
  | a :: as, r :: rs => match decodeRow a r with
    | .error e => .error e
    | .ok x => match decodeRows as rs with
      | .error e => .error e
      | .ok xs => .ok (x :: xs)

/-- `get_symbols(alignment)`: codes decoded through each sequence's alphabet (`alphs[k]` for row `k`). -/
def getSymbols (alphs : List (List Char)) (seqs : List (List Nat)) (t : Trace) : Except Err (List (List (Option Char))) :=
  match getCodes seqs t with
  | .error e => .error e
  | .ok codes => decodeRows alphs codes

/-! ## helpers: terminal gaps, gap removal, identity, score -/

/-- column positions where sequence `k` has a symbol (`np.where(trace[:, k] != -1)[0]`). -/
def nonGapPos (t : Trace) (k : Nat) : List Nat :=
  (t.zipIdx).filterMap fun (c, i) => match c[k]? with
    | some (some _) => some i
    | _ => none

def maxL : List Nat → Nat
  | [] => 0
  | a :: r => Nat.max a (maxL r)

def minL : List Nat → Nat
  | [] => 0
  | [a] => a
  | a :: r => Nat.min a (minL r)

/-- `find_terminal_gaps`: `(max firsts, min lasts + 1)`; a sequence without symbol has first = number of
columns, last = −1 (so `last + 1 = 0`).  `nseq` = `trace.shape[1]`; zero sequences → `np.max([])` ValueError. -/
def findTerminalGaps (nseq : Nat) (t : Trace) : Except Err (Nat × Nat) :=
  if nseq = 0 then .error .valueError else
  let pos := (List.range nseq).map (nonGapPos t)
  let firsts := pos.map fun p => match p with | [] => t.length | a :: _ => a
  let lastsP1 := pos.map fun p => match p.getLast? with | none => 0 | some a => a + 1
  .ok (maxL firsts, minL lastsP1)

/-- `alignment[start:stop]` on columns (Python slice with `0 ≤ start`, `0 ≤ stop`). -/
def sliceCols (t : Trace) (start stop : Nat) : Trace := (t.take stop).drop start

/-- `remove_terminal_gaps` -/
def removeTerminalGaps (nseq : Nat) (t : Trace) : Except Err Trace := do
  let (a, b) ← findTerminalGaps nseq t
  if b < a then .error .valueError else pure (sliceCols t a b)

/-- `remove_gaps`: keep the columns without any gap. -/
def removeGaps (t : Trace) : Trace := t.filter fun c => c.all (·.isSome)

/-- `alignment[:, [k1, k2, …]]` (list index on the sequence axis). -/
def selectSeqs (t : Trace) (ks : List Nat) : Except Err Trace :=
  mapE (fun c => mapE (fun k => match c[k]? with
    | some x => .ok x
    | none => .error .indexError) ks) t

def transposeCodes (ncol : Nat) (codes : List (List (Option Nat))) : List (List (Option Nat)) := transpose ncol codes

/-- a column counts as identical when all its codes are equal and not a gap
(`len(np.unique(column)) == 1 and unique[0] != -1`). -/
def colMatch (col : List (Option Nat)) : Bool :=
  match col with
  | [] => false
  | none :: _ => false
  | some a :: r => r.all (· == some a)

inductive IdMode where | all | notTerminal | shortest
  deriving DecidableEq, Repr

/-- `get_sequence_identity`: `(matches, length)`; the real code returns `matches / length`
(ZeroDivisionError for length 0). -/
def identity (seqs : List (List Nat)) (t : Trace) (mode : IdMode) : Except Err (Nat × Nat) := do
  let codes ← getCodes seqs t
  let cols := transpose t.length codes
  let nMatch := (cols.filter colMatch).length
  let len ← match mode with
    | .all => pure t.length
    | .notTerminal => do
      let (a, b) ← findTerminalGaps seqs.length t
      if b ≤ a then .error .valueError else pure (b - a)
    | .shortest => match seqs.map List.length with
      | [] => .error .valueError
      | l => pure (minL l)
  if len = 0 then .error (.other "ZeroDivisionError") else pure (nMatch, len)

def pairMatches (r1 r2 : List (Option Nat)) : Nat :=
  ((r1.zip r2).filter fun (a, b) => a.isSome && a == b).length

/-- length entry `(i, j)` of `get_pairwise_sequence_identity` -/
def pairLen (seqs : List (List Nat)) (t : Trace) (mode : IdMode) (i j : Nat) : Except Err Nat :=
  match mode with
  | .all => .ok t.length
  | .notTerminal =>
    match selectSeqs t [i, j] with
    | .error e => .error e
    | .ok sub => match findTerminalGaps 2 sub with
      | .error e => .error e
      | .ok (a, b) => if b ≤ a then .error .valueError else .ok (b - a)
  | .shortest => .ok (Nat.min (seqs.getD i []).length (seqs.getD j []).length)

/-- `get_pairwise_sequence_identity`: matrix of `(matches, length)`; lengths of zero give nan/inf in numpy
and are printed as such by the driver. -/
def pairIdentity (seqs : List (List Nat)) (t : Trace) (mode : IdMode) :
    Except Err (List (List (Nat × Nat))) :=
  match getCodes seqs t with
  | .error e => .error e
  | .ok codes =>
    mapE (fun i => mapE (fun j => match pairLen seqs t mode i j with
      | .error e => .error e
      | .ok len => .ok (pairMatches (codes.getD i []) (codes.getD j []), len)) (List.range codes.length))
      (List.range codes.length)

/-- similarity part of `score`: every unordered pair of non-gap codes in a column. -/
def colPairScore (M : List (List Int)) : List (Option Nat) → Except Err Int
  | [] => .ok 0
  | x :: r => do
    let rest ← colPairScore M r
    match x with
    | none => pure rest
    | some a =>
      let s ← r.foldlM (fun acc y => match y with
        | none => pure acc
        | some b => match M[a]? with
          | none => .error .indexError
          | some row => match row[b]? with
            | none => .error .indexError
            | some v => pure (acc + v)) (0 : Int)
      pure (s + rest)

/-- gap part of `score` for one row of codes between `start` and `stop`. -/
def gapScore (go ge : Int) : Bool → List (Option Nat) → Int
  | _, [] => 0
  | inGap, none :: r => (if inGap then ge else go) + gapScore go ge true r
  | _, some _ :: r => gapScore go ge false r

/-- `score(alignment, matrix, (go, ge), terminal_penalty)` -/
def score (M : List (List Int)) (go ge : Int) (terminal : Bool) (seqs : List (List Nat)) (t : Trace) :
    Except Err Int := do
  let codes ← getCodes seqs t
  let cols := transpose t.length codes
  let sims ← mapE (colPairScore M) cols
  let sim := sims.foldl (· + ·) 0
  let (a, b) ← if terminal then pure (0, t.length) else
    if codes.isEmpty then pure (0, 0) else
    findTerminalGaps seqs.length t
  let gaps := codes.map fun row => gapScore go ge false ((row.take b).drop a)
  pure (sim + gaps.foldl (· + ·) 0)

end BiotiteModel.C11

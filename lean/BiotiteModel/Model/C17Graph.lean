import BiotiteModel.Common
/-!
# C17 — molecules = connected components (model of `structure/molecules.py` over
`find_connected` / `_find_connected` / `get_all_bonds` in `structure/bonds.pyx`)

* `neighbours bonds v` is row `v` of the table `BondList.get_all_bonds()` builds: the atoms
  bonded to `v`, in bond-list order (the `-1` padding the DFS skips is not represented).
* `visit` is `_find_connected`: the *recursive* depth-first search over a `uint8` mask.
  The recursion of the C code becomes explicit fuel: one unit is consumed for every nested
  call that marks a new atom, so the fuel a call needs is the depth of the C recursion.
  `none` = fuel exhausted or an unchecked out-of-range access (the C code has no bounds
  check here); the theorems show neither happens with fuel `n` on a well-formed table.
* `moleculeIndices` is the `while not visited_mask.all()` loop of `get_molecule_indices`.

Import-free and executable (drives the correspondence check).
-/
namespace BiotiteModel.C17

/-- Row `v` of `get_all_bonds()[0]`: for every bond `(i, j)` in list order, `j` if `i = v`,
`i` if `j = v`. -/
def neighbours (bonds : List (Nat × Nat)) (v : Nat) : List Nat :=
  bonds.filterMap (fun b => if b.1 = v then some b.2 else if b.2 = v then some b.1 else none)

/-- `np.where(mask)[0]` with a running offset. -/
def whereFrom : Nat → List Bool → List Nat
  | _, [] => []
  | k, t :: r => if t then k :: whereFrom (k + 1) r else whereFrom (k + 1) r

/-- `np.where(mask)[0]`: ascending indices of the `True` entries. -/
def whereTrue (mask : List Bool) : List Nat := whereFrom 0 mask

/-- `_find_connected(bond_list, index, is_connected_mask, all_bonds)`.
First argument: remaining recursion depth. -/
def visit (adj : Nat → List Nat) : Nat → Nat → List Bool → Option (List Bool)
  | 0, v, m =>
    match m[v]? with
    | some true => some m          -- already visited: exit condition
    | _ => none                    -- would recurse deeper than the fuel / out of range
  | f + 1, v, m =>
    match m[v]? with
    | none => none                 -- unchecked index outside the mask
    | some true => some m
    | some false =>
      -- is_connected_mask[index] = True; for j in range(k): _find_connected(.., all_bonds[index, j], ..)
      (adj v).foldlM (fun acc w => visit adj f w acc) (m.set v true)

/-- The mask `find_connected` computes for an in-range root: DFS with fuel `n`. -/
def connectedMask (n : Nat) (adj : Nat → List Nat) (root : Nat) : Option (List Bool) :=
  visit adj n root (List.replicate n false)

/-- `find_connected(bond_list, root)`: `root` is converted to `uint32` (negative or ≥ 2³² →
`OverflowError`), `root >= atom_count` → `ValueError`, else the indices of the mask. -/
def findConnected (n : Nat) (adj : Nat → List Nat) (root : Int) : Except Err (List Nat) :=
  if root < 0 ∨ root ≥ 4294967296 then .error .overflowError
  else if root.toNat ≥ n then .error .valueError
  else match connectedMask n adj root.toNat with
    | some m => .ok (whereTrue m)
    | none => .error (.other "CRASH")

/-- `visited_mask[connected] = True`. -/
def markAll (vis : List Bool) (conn : List Nat) : List Bool :=
  conn.foldl (fun m c => m.set c true) vis

/-- The loop of `get_molecule_indices`; first argument: remaining iterations.
`root = np.argmin(visited_mask)` is the first `False` entry. -/
def molLoop (n : Nat) (adj : Nat → List Nat) : Nat → List Bool → List (List Nat) → Option (List (List Nat))
  | 0, vis, acc => if vis.all id then some acc.reverse else none
  | f + 1, vis, acc =>
    if vis.all id then some acc.reverse
    else
      match connectedMask n adj (vis.idxOf false) with
      | none => none
      | some m =>
        let conn := whereTrue m
        molLoop n adj f (markAll vis conn) (conn :: acc)

/-- `get_molecule_indices(bonds)` with at most `n` iterations. -/
def moleculeIndices (n : Nat) (adj : Nat → List Nat) : Option (List (List Nat)) :=
  molLoop n adj n (List.replicate n false) []

/-- `get_molecule_masks`: one boolean row per molecule. -/
def moleculeMasks (n : Nat) (adj : Nat → List Nat) : Option (List (List Bool)) :=
  (moleculeIndices n adj).map (fun comps => comps.map (fun c => markAll (List.replicate n false) c))

/-- Reachability in the bond table: the reflexive–transitive closure of "is a neighbour of". -/
inductive Reach (adj : Nat → List Nat) (r : Nat) : Nat → Prop
  | refl : Reach adj r r
  | step {u w : Nat} : Reach adj r u → w ∈ adj u → Reach adj r w

/-- The table only mentions atoms `< n` (guaranteed by the `BondList` constructor's index check). -/
def WF (n : Nat) (adj : Nat → List Nat) : Prop := ∀ v, v < n → ∀ w ∈ adj v, w < n

/-- Bonds are undirected: the table is symmetric. -/
def Symm (n : Nat) (adj : Nat → List Nat) : Prop := ∀ u, u < n → ∀ v ∈ adj u, u ∈ adj v

end BiotiteModel.C17

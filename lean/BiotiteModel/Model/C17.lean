import BiotiteModel.Common
import BiotiteModel.Model.C17Graph
/-!
# C17 — residue / chain segmentation (model of `structure/residues.py`, `chains.py`,
`segments.py`)

An atom is the 4-tuple of annotations the segmentation reads; annotation values are opaque
tokens compared for equality (`res_id` is an integer because chains compare it with `<`).
Every numpy step of the code is one definition here:

* `a[1:] != a[:-1]`            → `changeMask`
* `m1 | m2 | …`                → `orMask`
* `np.where(mask)[0] + 1`      → `(whereTrue mask).map (· + 1)`
* `np.concatenate(([0], …, [n]))` → `startsOf`
* `np.searchsorted(starts, i, side="right")` → `searchRight` (number of entries `≤ i`; the
  array is ascending, this is numpy's documented result)
* slicing `data[a:e]`          → `slice`

Import-free and executable.  Residue IDs are unbounded integers: the code compares them directly
(`<`, `!=`), no arithmetic is done on them (since fix a647a870; `np.diff(res_id) < 0` wrapped).
-/
namespace BiotiteModel.C17

structure Atom where
  chain : Nat
  res : Int
  ins : Nat
  name : Nat
  deriving DecidableEq, Repr

/-! ## starts -/

/-- `f(a[:-1], a[1:])` element-wise: entry `i` compares atom `i` (previous) with atom `i+1`. -/
def changeMask {α : Type} (b : α → α → Bool) (xs : List α) : List Bool :=
  List.zipWith b xs xs.tail

def orMask (p q : List Bool) : List Bool := List.zipWith (· || ·) p q

/-- `np.concatenate(([0], where(mask)[0] + 1, [n]))`, and the early return for an empty array
(`[]`, or `[0]` — only the exclusive stop — when it is requested). -/
def startsOf (n : Nat) (mask : List Bool) (addStop : Bool) : List Nat :=
  if n = 0 then (if addStop then [0] else [])
  else [0] ++ (whereTrue mask).map (· + 1) ++ (if addStop then [n] else [])

/-- `get_residue_starts`: the four change masks, OR-ed. -/
def residueMask (xs : List Atom) : List Bool :=
  orMask (orMask (orMask
    (changeMask (fun a c => c.chain != a.chain) xs)
    (changeMask (fun a c => c.res != a.res) xs))
    (changeMask (fun a c => c.ins != a.ins) xs))
    (changeMask (fun a c => c.name != a.name) xs)

def residueStarts (xs : List Atom) (addStop : Bool) : List Nat :=
  startsOf xs.length (residueMask xs) addStop

/-- `get_chain_starts`: `res_id[1:] < res_id[:-1]` OR chain id change. -/
def chainMask (xs : List Atom) : List Bool :=
  orMask (changeMask (fun a c => decide (c.res < a.res)) xs)
         (changeMask (fun a c => c.chain != a.chain) xs)

def chainStarts (xs : List Atom) (addStop : Bool) : List Nat :=
  startsOf xs.length (chainMask xs) addStop

/-- The boundary predicates the two masks amount to (previous atom, current atom). -/
def resBoundary (a c : Atom) : Bool :=
  c.chain != a.chain || c.res != a.res || c.ins != a.ins || c.name != a.name

def chainBoundary (a c : Atom) : Bool := decide (c.res < a.res) || c.chain != a.chain

/-! ## segments.py — all functions take `starts` *with* the exclusive stop -/

/-- `np.searchsorted(ss, v, side="right")` on an ascending array. -/
def searchRight (ss : List Nat) (v : Nat) : Nat := ss.countP (· ≤ v)

/-- Python slice `data[a:e]` for non-negative bounds. -/
def slice {α : Type} (data : List α) (a e : Nat) : List α := (data.take e).drop a

/-- The shared index guard: negative → `ValueError`, `>= length` → `ValueError`. -/
def checkIdx (length : Nat) (idx : List Int) : Except Err (List Nat) :=
  if idx.any (· < 0) then .error .valueError
  else if idx.any (· ≥ (length : Int)) then .error .valueError
  else .ok (idx.map Int.toNat)

/-- One row of `get_segment_masks`: `masks[i, starts[point] : starts[point+1]] = True`. -/
def maskRow (ss : List Nat) (length i : Nat) : Except Err (List Bool) :=
  let c := searchRight ss i
  if c = 0 then .error (.other "unmodelled")       -- point = -1: wraps to the last entry
  else match ss[c - 1]?, ss[c]? with
    | some a, some e => .ok ((List.range length).map (fun k => decide (a ≤ k ∧ k < e)))
    | _, _ => .error .indexError

def segMasks (ss : List Nat) (idx : List Int) : Except Err (List (List Bool)) :=
  match ss.getLast? with
  | none => .error .indexError                      -- starts[-1] on an empty array
  | some length => do
    let idx ← checkIdx length idx
    idx.mapM (maskRow ss length)

/-- One entry of `get_segment_starts_for`: `starts[:-1][searchsorted(starts[:-1], i, "right") - 1]`. -/
def startFor (st : List Nat) (i : Nat) : Except Err Nat :=
  let c := searchRight st i
  if c = 0 then .error (.other "unmodelled")
  else match st[c - 1]? with
    | some s => .ok s
    | none => .error .indexError

def segStartsFor (ss : List Nat) (idx : List Int) : Except Err (List Nat) :=
  match ss.getLast? with
  | none => .error .indexError
  | some length => do
    let idx ← checkIdx length idx
    idx.mapM (startFor ss.dropLast)

/-- `get_segment_positions`: `searchsorted(starts[:-1], i, "right") - 1`. -/
def segPositions (ss : List Nat) (idx : List Int) : Except Err (List Int) :=
  match ss.getLast? with
  | none => .error .indexError
  | some length => do
    let idx ← checkIdx length idx
    pure (idx.map (fun i => (searchRight ss.dropLast i : Int) - 1))

/-- `[data[starts[i]:starts[i+1]] for i in range(len(starts) - 1)]` (`segment_iter`, and the
segments `apply_segment_wise` feeds to the function). -/
def segIter {α : Type} (ss : List Nat) (data : List α) : List (List α) :=
  List.zipWith (fun a e => slice data a e) ss ss.tail

/-- `apply_segment_wise`: one value per segment (an empty result when there is no segment). -/
def applySeg {α β : Type} (ss : List Nat) (f : List α → β) (data : List α) : List β :=
  (segIter ss data).map f

/-- `spread_segment_wise`: `np.repeat(input, starts[1:] - starts[:-1], axis=0)`.
`np.repeat` broadcasts a single repeat count over any input; otherwise the lengths must agree. -/
def spreadSeg {β : Type} (ss : List Nat) (input : List β) : Except Err (List β) :=
  let lens := List.zipWith (fun a e => e - a) ss ss.tail
  match lens with
  | [k] => .ok (input.flatMap (fun x => List.replicate k x))
  | _ =>
    if lens.length = input.length then
      .ok ((List.zip input lens).flatMap (fun p => List.replicate p.2 p.1))
    else .error .valueError

/-- `annotation[starts]` (get_residues / get_chains). -/
def gather {α : Type} (xs : List α) (starts : List Nat) : List α :=
  starts.filterMap (fun s => xs[s]?)

end BiotiteModel.C17

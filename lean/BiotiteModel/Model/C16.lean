import BiotiteModel.Common
/-!
# C16 — executable model of `biotite.structure.superimpose`

Mathlib-free.  The algebraic part (`V3`, `M3`, `M4`, `AffineTransformation.apply`, `as_matrix`,
the reflection correction of `_get_rotation_matrices`) is generic over a carrier `α` with the ring
operations, so that the *same* definitions are (i) run by the driver over `Rat` (every float is a
dyadic rational: the correspondence uses inputs on which float32/float64 arithmetic is exact) and
(ii) reasoned about over an arbitrary commutative ring / over `ℚ` in `Proofs/C16.lean`.

What is **not** modelled: LAPACK's SVD.  It is a parameter `svd : M3 α → M3 α × M3 α` (returning the
`v` and `w` of `v, s, w = np.linalg.svd(cov)`); the theorems hold for every such function whose
outputs are orthogonal matrices.

Code modelled (pinned tree), op by op:
* `AffineTransformation.apply`  : `_reshape_to_3d`, model-count check (IndexError), in-place `+=` of the
  centre translation with numpy broadcasting (ValueError on mismatch), `_multi_matmul`, `+=` target.
* `AffineTransformation.as_matrix`: three `_3d_identity(m,4)` with block assignment, `target @ rot @ center`.
* `superimpose`: mask selection, centroids (`np.mean`), centring, `_get_rotation_matrices`
  (cross-covariance with broadcasting over models, `svd`, `det(v)*det(w) < 0` → `v[:, -1] *= -1`, `v @ w`),
  `AffineTransformation(-mob_centroid, rotation, fix_centroid)`, `transform.apply(mobile)`.
* `superimpose_without_outliers`: the refinement loop (anchor bookkeeping, quantiles, threshold,
  both early terminations, `np.where(inlier_mask)` of the *fitted* mask).
* `superimpose_homologs`: the index composition around the sequence alignment (the alignment itself
  is an input here; it belongs to C08).
-/
namespace BiotiteModel.C16

structure V3 (α : Type) where
  x : α
  y : α
  z : α
  deriving DecidableEq, Repr

/-- 3×3 matrix by rows. -/
structure M3 (α : Type) where
  r0 : V3 α
  r1 : V3 α
  r2 : V3 α
  deriving DecidableEq, Repr

structure V4 (α : Type) where
  x : α
  y : α
  z : α
  w : α
  deriving DecidableEq, Repr

/-- 4×4 matrix by rows. -/
structure M4 (α : Type) where
  r0 : V4 α
  r1 : V4 α
  r2 : V4 α
  r3 : V4 α
  deriving DecidableEq, Repr

/-- Coordinates of shape `(m, n, 3)`. -/
abbrev Stack (α : Type) := List (List (V3 α))

/-- What `coord(atoms)` yields: shape `(n,3)` (an `AtomArray` / 2-d array) or `(m,n,3)`. -/
inductive Coords (α : Type) where
  | single (pts : List (V3 α))
  | stack (models : Stack α)
  deriving DecidableEq, Repr

/-- `AffineTransformation`: the three attributes after `_expand_dims`
(`center_translation (k,3)`, `rotation (m,3,3)`, `target_translation (l,3)`). -/
structure Transform (α : Type) where
  center : List (V3 α)
  rotation : List (M3 α)
  target : List (V3 α)
  deriving DecidableEq, Repr

/-- Inputs the model deliberately says nothing about (printed `unmodelled` by the driver). -/
def unmodelled : Err := .other "unmodelled"

section Algebra
variable {α : Type} [Add α] [Sub α] [Mul α] [Neg α] [OfNat α 0] [OfNat α 1]

def V3.add (a b : V3 α) : V3 α := ⟨a.x + b.x, a.y + b.y, a.z + b.z⟩
def V3.sub (a b : V3 α) : V3 α := ⟨a.x - b.x, a.y - b.y, a.z - b.z⟩
def V3.neg (a : V3 α) : V3 α := ⟨-a.x, -a.y, -a.z⟩
def V3.dot (a b : V3 α) : α := a.x * b.x + a.y * b.y + a.z * b.z
def V3.zero : V3 α := ⟨0, 0, 0⟩
/-- Squared euclidean norm. -/
def V3.normSq (a : V3 α) : α := a.dot a

def M3.c0 (A : M3 α) : V3 α := ⟨A.r0.x, A.r1.x, A.r2.x⟩
def M3.c1 (A : M3 α) : V3 α := ⟨A.r0.y, A.r1.y, A.r2.y⟩
def M3.c2 (A : M3 α) : V3 α := ⟨A.r0.z, A.r1.z, A.r2.z⟩
def M3.transpose (A : M3 α) : M3 α := ⟨A.c0, A.c1, A.c2⟩
def M3.one : M3 α := ⟨⟨1, 0, 0⟩, ⟨0, 1, 0⟩, ⟨0, 0, 1⟩⟩
def M3.mulVec (A : M3 α) (v : V3 α) : V3 α := ⟨A.r0.dot v, A.r1.dot v, A.r2.dot v⟩
def M3.mul (A B : M3 α) : M3 α :=
  ⟨⟨A.r0.dot B.c0, A.r0.dot B.c1, A.r0.dot B.c2⟩,
   ⟨A.r1.dot B.c0, A.r1.dot B.c1, A.r1.dot B.c2⟩,
   ⟨A.r2.dot B.c0, A.r2.dot B.c1, A.r2.dot B.c2⟩⟩
def M3.det (A : M3 α) : α :=
  A.r0.x * (A.r1.y * A.r2.z - A.r1.z * A.r2.y)
  - A.r0.y * (A.r1.x * A.r2.z - A.r1.z * A.r2.x)
  + A.r0.z * (A.r1.x * A.r2.y - A.r1.y * A.r2.x)
/-- `v[:, -1] *= -1`: negate the last column. -/
def M3.flipLastCol (A : M3 α) : M3 α :=
  ⟨⟨A.r0.x, A.r0.y, -A.r0.z⟩, ⟨A.r1.x, A.r1.y, -A.r1.z⟩, ⟨A.r2.x, A.r2.y, -A.r2.z⟩⟩
/-- Outer product `f[:, newaxis] * m[newaxis, :]`. -/
def V3.outer (f m : V3 α) : M3 α :=
  ⟨⟨f.x * m.x, f.x * m.y, f.x * m.z⟩, ⟨f.y * m.x, f.y * m.y, f.y * m.z⟩, ⟨f.z * m.x, f.z * m.y, f.z * m.z⟩⟩
def M3.add (A B : M3 α) : M3 α := ⟨A.r0.add B.r0, A.r1.add B.r1, A.r2.add B.r2⟩
def M3.zero : M3 α := ⟨V3.zero, V3.zero, V3.zero⟩

def V4.dot (a b : V4 α) : α := a.x * b.x + a.y * b.y + a.z * b.z + a.w * b.w
def M4.c0 (A : M4 α) : V4 α := ⟨A.r0.x, A.r1.x, A.r2.x, A.r3.x⟩
def M4.c1 (A : M4 α) : V4 α := ⟨A.r0.y, A.r1.y, A.r2.y, A.r3.y⟩
def M4.c2 (A : M4 α) : V4 α := ⟨A.r0.z, A.r1.z, A.r2.z, A.r3.z⟩
def M4.c3 (A : M4 α) : V4 α := ⟨A.r0.w, A.r1.w, A.r2.w, A.r3.w⟩
def M4.mulVec (A : M4 α) (v : V4 α) : V4 α := ⟨A.r0.dot v, A.r1.dot v, A.r2.dot v, A.r3.dot v⟩
def M4.mul (A B : M4 α) : M4 α :=
  ⟨⟨A.r0.dot B.c0, A.r0.dot B.c1, A.r0.dot B.c2, A.r0.dot B.c3⟩,
   ⟨A.r1.dot B.c0, A.r1.dot B.c1, A.r1.dot B.c2, A.r1.dot B.c3⟩,
   ⟨A.r2.dot B.c0, A.r2.dot B.c1, A.r2.dot B.c2, A.r2.dot B.c3⟩,
   ⟨A.r3.dot B.c0, A.r3.dot B.c1, A.r3.dot B.c2, A.r3.dot B.c3⟩⟩
/-- `_3d_identity(m, 4)` followed by `mat[:, :3, :3] = rotation`. -/
def M4.ofRotation (R : M3 α) : M4 α :=
  ⟨⟨R.r0.x, R.r0.y, R.r0.z, 0⟩, ⟨R.r1.x, R.r1.y, R.r1.z, 0⟩, ⟨R.r2.x, R.r2.y, R.r2.z, 0⟩, ⟨0, 0, 0, 1⟩⟩
/-- `_3d_identity(m, 4)` followed by `mat[:, :3, 3] = translation`. -/
def M4.ofTranslation (t : V3 α) : M4 α :=
  ⟨⟨1, 0, 0, t.x⟩, ⟨0, 1, 0, t.y⟩, ⟨0, 0, 1, t.z⟩, ⟨0, 0, 0, 1⟩⟩
/-- Homogeneous coordinates `(x, y, z, 1)`. -/
def V3.homog (v : V3 α) : V4 α := ⟨v.x, v.y, v.z, 1⟩

/-- The transformation of one point by one model of a transformation: `R·(x + c) + t`. -/
def applyPoint (c : V3 α) (R : M3 α) (t : V3 α) (x : V3 α) : V3 α := (R.mulVec (x.add c)).add t

/-- The 4×4 matrix of one model, multiplied in the order the code uses: `(target @ rot) @ center`. -/
def asMatrix1 (c : V3 α) (R : M3 α) (t : V3 α) : M4 α :=
  ((M4.ofTranslation t).mul (M4.ofRotation R)).mul (M4.ofTranslation c)

/-! ### `AffineTransformation.apply` on whole arrays, as the code does it -/

/-- numpy in-place `a += b[:, np.newaxis, :]` for `a : (m,n,3)`, `b : (k,3)`:
model-wise for `k = m`, broadcast for `k = 1`, `ValueError` otherwise. -/
def addBroadcast (a : Stack α) (b : List (V3 α)) : Except Err (Stack α) :=
  if b.length = a.length then .ok (List.zipWith (fun pts t => pts.map (fun p => p.add t)) a b)
  else match b with
    | [t] => .ok (a.map fun pts => pts.map (fun p => p.add t))
    | _ => .error .valueError

/-- `_multi_matmul(matrices, vectors)` for equally many matrices and models. -/
def multiMatmul (Rs : List (M3 α)) (a : Stack α) : Stack α :=
  List.zipWith (fun R pts => pts.map R.mulVec) Rs a

def Transform.applyStack (T : Transform α) (X : Stack α) : Except Err (Stack α) :=
  if X.length ≠ T.rotation.length then .error .indexError
  else do
    let s ← addBroadcast X T.center
    addBroadcast (multiMatmul T.rotation s) T.target

/-- `AffineTransformation.apply(atoms)`; the result has the shape of the input. -/
def Transform.apply (T : Transform α) : Coords α → Except Err (Coords α)
  | .stack X => do let Y ← T.applyStack X; pure (.stack Y)
  | .single pts => do
    let Y ← T.applyStack [pts]
    match Y with
    | [q] => pure (.single q)
    | _ => .error unmodelled

/-- Broadcasting of an assignment `mat[:, :3, 3] = b` for `mat : (m,4,4)`, `b : (k,3)`. -/
def bcastTo {β : Type} (m : Nat) (b : List β) : Except Err (List β) :=
  if b.length = m then .ok b
  else match b with
    | [t] => .ok (List.replicate m t)
    | _ => .error .valueError

def zipWith3 {β γ δ ε : Type} (f : β → γ → δ → ε) : List β → List γ → List δ → List ε
  | b :: bs, c :: cs, d :: ds => f b c d :: zipWith3 f bs cs ds
  | _, _, _ => []

/-- `AffineTransformation.as_matrix()` → `(m,4,4)`. -/
def Transform.asMatrix (T : Transform α) : Except Err (List (M4 α)) := do
  let m := T.rotation.length
  let cs ← bcastTo m T.center
  let ts ← bcastTo m T.target
  pure (zipWith3 (fun c R t => asMatrix1 c R t) cs T.rotation ts)

/-- The `k`-th row of a `(1|m, …)` array under numpy broadcasting. -/
def bget {β : Type} (b : List β) (k : Nat) : Option β :=
  match b with
  | [t] => some t
  | _ => b[k]?

/-! ### `_get_rotation_matrices` -/

/-- Cross-covariance `np.sum(fixed[:, :, newaxis] * mobile[:, newaxis, :], axis=0)` of one model. -/
def cov1 (fixed mobile : List (V3 α)) : M3 α :=
  (List.zipWith V3.outer fixed mobile).foldl M3.add M3.zero

/-- Pairs up the models of two stacks under numpy broadcasting (`m` vs `m`, `1` vs `m`, `m` vs `1`). -/
def bzip {β γ : Type} (a : List β) (b : List γ) : Except Err (List (β × γ)) :=
  if a.length = b.length then .ok (a.zip b)
  else match a, b with
    | [x], _ => .ok (b.map fun y => (x, y))
    | _, [y] => .ok (a.map fun x => (x, y))
    | _, _ => .error .valueError

variable [LT α] [DecidableRel (α := α) (· < ·)]

/-- `reflected = det(v) * det(w) < 0; v[reflected, :, -1] *= -1; v @ w`. -/
def correct (V W : M3 α) : M3 α :=
  (if V.det * W.det < 0 then V.flipLastCol else V).mul W

/-- `_get_rotation_matrices(fixed, mobile)`; `svd H = (v, w)`. -/
def getRotation (svd : M3 α → M3 α × M3 α) (fixed mobile : Stack α) : Except Err (List (M3 α)) := do
  let pairs ← bzip fixed mobile
  -- different atom counts: numpy refuses to broadcast (ValueError) unless one side has a single atom,
  -- which it silently repeats (contradicts the documented contract "atom i corresponds to atom i": unmodelled)
  if pairs.any (fun p => p.1.length ≠ p.2.length ∧ p.1.length ≠ 1 ∧ p.2.length ≠ 1) then .error .valueError
  else if pairs.any (fun p => p.1.length ≠ p.2.length) then .error unmodelled
  else pure (pairs.map fun p => let vw := svd (cov1 p.1 p.2); correct vw.1 vw.2)

end Algebra

/-! ## Exact-rational part: centring, `superimpose`, outlier loop -/

def V3.scale (s : Rat) (a : V3 Rat) : V3 Rat := ⟨s * a.x, s * a.y, s * a.z⟩

def sumV (pts : List (V3 Rat)) : V3 Rat := pts.foldl V3.add V3.zero

/-- `np.mean(coord, axis=-2)`; the empty selection (NaN in the code) is outside the property. -/
def centroid (pts : List (V3 Rat)) : Except Err (V3 Rat) :=
  if pts.isEmpty then .error unmodelled else .ok (V3.scale (1 / (pts.length : Rat)) (sumV pts))

/-- `coord[:, atom_mask, :]` for a boolean mask (`IndexError` on a length mismatch). -/
def selectMask {β : Type} (mask : List Bool) (pts : List β) : Except Err (List β) :=
  if mask.length ≠ pts.length then .error .indexError
  else .ok ((pts.zip mask).filterMap fun p => if p.2 then some p.1 else none)

def Coords.to3d {α : Type} : Coords α → Stack α
  | .single pts => [pts]
  | .stack X => X

/-- `coord[..., atom_mask, :]` on a whole structure (the sub-arrays a caller would pass instead of a mask). -/
def Coords.selectMask (mk : List Bool) : Coords Rat → Except Err (Coords Rat)
  | .single pts => do
    let q ← C16.selectMask mk pts
    pure (.single q)
  | .stack X => do
    let Y ← X.mapM (C16.selectMask mk)
    pure (.stack Y)

/-- The part of `superimpose(fixed, mobile, atom_mask)` that builds the transformation; the rotation
step is a parameter (`rot fixedCentred mobileCentred`, i.e. `_get_rotation_matrices`). -/
def superimposeTransform (rot : Stack Rat → Stack Rat → Except Err (List (M3 Rat)))
    (fixed mobile : Coords Rat) (mask : Option (List Bool)) : Except Err (Transform Rat) := do
  let mob := mobile.to3d
  let fix := fixed.to3d
  let mobF ← match mask with
    | some mk => mob.mapM (selectMask mk)
    | none => pure mob
  let fixF ← match mask with
    | some mk => fix.mapM (selectMask mk)
    | none => pure fix
  let mobC ← mobF.mapM centroid
  let fixC ← fixF.mapM centroid
  let mobCen := List.zipWith (fun pts c => pts.map (fun p => p.sub c)) mobF mobC
  let fixCen := List.zipWith (fun pts c => pts.map (fun p => p.sub c)) fixF fixC
  let R ← rot fixCen mobCen
  pure ⟨mobC.map V3.neg, R, fixC⟩

/-- `superimpose`: `transform = AffineTransformation(-mob_centroid, rotation, fix_centroid);
return transform.apply(mobile), transform`. -/
def superimposeWith (rot : Stack Rat → Stack Rat → Except Err (List (M3 Rat)))
    (fixed mobile : Coords Rat) (mask : Option (List Bool)) :
    Except Err (Coords Rat × Transform Rat) := do
  let T ← superimposeTransform rot fixed mobile mask
  let fitted ← T.apply mobile
  pure (fitted, T)

def superimpose (svd : M3 Rat → M3 Rat × M3 Rat) :=
  superimposeWith (getRotation svd)

/-! ### `superimpose_without_outliers` -/

def insertSorted (x : Rat) : List Rat → List Rat
  | [] => [x]
  | y :: ys => if x ≤ y then x :: y :: ys else y :: insertSorted x ys

def sortRat (xs : List Rat) : List Rat := xs.foldr insertSorted []

/-- `np.quantile(a, q)` (method "linear") for one `q`; `a` non-empty, already sorted. -/
def quantileSorted (a : List Rat) (q : Rat) : Except Err Rat :=
  if q < 0 ∨ 1 < q then .error .valueError
  else
    let n := a.length
    let vi : Rat := q * ((n : Rat) - 1)
    let lo := vi.floor.toNat
    let g := vi - (lo : Rat)
    let hi := min (lo + 1) (n - 1)
    match a[lo]?, a[hi]? with
    | some x, some y => .ok (x + (y - x) * g)
    | _, _ => .error unmodelled

/-- Column means of an `(m, n)` array (`np.mean(sq_dist, axis=0)`). -/
def colMeans (rows : List (List Rat)) : List Rat :=
  match rows with
  | [] => []
  | r :: rs =>
    let s := rs.foldl (fun acc r' => List.zipWith (· + ·) acc r') r
    s.map (fun v => v / (rows.length : Rat))

/-- `distance(fixed, superimposed) ** 2` (real-number semantics: the squared distance), reduced over
models by the mean when either input is 3-dimensional. -/
def sqDist (fixed fitted : Coords Rat) : Except Err (List Rat) := do
  let d (a b : List (V3 Rat)) : List Rat := List.zipWith (fun p q => (q.sub p).normSq) a b
  match fixed, fitted with
  | .single a, .single b => pure (d a b)
  | _, _ => do
    let pairs ← bzip fixed.to3d fitted.to3d
    pure (colMeans (pairs.map fun p => d p.1 p.2))

structure WooCfg where
  minAnchors : Nat
  maxIter : Nat
  qlo : Rat
  qhi : Rat
  thr : Rat

/-- The inlier test of one iteration: `sq_dist <= upper + outlier_threshold * (upper - lower)`. -/
def classify (cfg : WooCfg) (sq : List Rat) : Except Err (List Bool) := do
  if sq.isEmpty then .error unmodelled
  let s := sortRat sq
  let (q0, q1) := if cfg.qlo ≤ cfg.qhi then (cfg.qlo, cfg.qhi) else (cfg.qhi, cfg.qlo)   -- sorted(quantiles)
  let lower ← quantileSorted s q0
  let upper ← quantileSorted s q1
  let ipr := upper - lower
  pure (sq.map fun d => decide (d ≤ upper + cfg.thr * ipr))

/-- `mask[mask] = keep` followed by `np.where`: the indices that stay. -/
def keepIdx (inl : List Nat) (keep : List Bool) : List Nat :=
  (inl.zip keep).filterMap fun p => if p.2 then some p.1 else none

/-- One pass of the `for _ in range(max_iterations)` loop with `k` passes left after it.
`fit inl` is `superimpose` on the anchors `inl`, `cls inl T` the inlier test on them, `n` the number
of atoms.  As in the code, the "no outliers any more" exit tests the *whole* mask
(`np.all(updated_inlier_mask)`), i.e. it fires only while all `n` atoms are still anchors; after the
first removal the loop re-fits the unchanged anchor set until `min_anchors` or `max_iterations` stops it. -/
def wooIter {τ : Type} (fit : List Nat → Except Err τ) (cls : List Nat → τ → Except Err (List Bool))
    (minAnchors n : Nat) : Nat → List Nat → Except Err (τ × List Nat)
  | 0, inl => do
    let T ← fit inl
    let _ ← cls inl T
    pure (T, inl)
  | k + 1, inl => do
    let T ← fit inl
    let keep ← cls inl T
    let upd := keepIdx inl keep
    if upd.length = n then pure (T, inl)
    else if upd.length < minAnchors then pure (T, inl)
    else wooIter fit cls minAnchors n k upd

def wooGeneric {τ : Type} (fit : List Nat → Except Err τ) (cls : List Nat → τ → Except Err (List Bool))
    (minAnchors maxIter n : Nat) : Except Err (τ × List Nat) :=
  if maxIter < 1 then .error .valueError
  else wooIter fit cls minAnchors n (maxIter - 1) (List.range n)

/-- `coord[..., idx, :]`. -/
def Coords.take {α : Type} (c : Coords α) (idx : List Nat) : Except Err (Coords α) :=
  let pick (pts : List (V3 α)) : Except Err (List (V3 α)) :=
    idx.mapM fun i => match pts[i]? with | some p => .ok p | none => .error .indexError
  match c with
  | .single pts => do pure (.single (← pick pts))
  | .stack X => do pure (.stack (← X.mapM pick))

def Coords.nAtoms {α : Type} : Coords α → Nat
  | .single pts => pts.length
  | .stack X => match X with | [] => 0 | pts :: _ => pts.length

/-- The fit of one pass on the anchors `inl`: `(fixed[..., inl, :], superimposed, transform)`. -/
def wooFit (sup : Coords Rat → Coords Rat → Except Err (Coords Rat × Transform Rat))
    (fixed mobile : Coords Rat) (inl : List Nat) : Except Err (Coords Rat × Coords Rat × Transform Rat) := do
  let f ← fixed.take inl
  let m ← mobile.take inl
  let r ← sup f m
  pure (f, r.1, r.2)

def wooCls (cfg : WooCfg) (_ : List Nat) (r : Coords Rat × Coords Rat × Transform Rat) : Except Err (List Bool) := do
  let sq ← sqDist r.1 r.2.1
  classify cfg sq

/-- `superimpose_without_outliers(fixed, mobile, …)` with the inner `superimpose` as a parameter.
Returns `(transform.apply(mobile), transform, anchor_indices)`. -/
def superimposeWithoutOutliers
    (sup : Coords Rat → Coords Rat → Except Err (Coords Rat × Transform Rat))
    (cfg : WooCfg) (fixed mobile : Coords Rat) :
    Except Err (Coords Rat × Transform Rat × List Nat) := do
  let r ← wooGeneric (wooFit sup fixed mobile) (wooCls cfg) cfg.minAnchors cfg.maxIter fixed.nAtoms
  let fitted ← r.1.2.2.apply mobile
  pure (fitted, r.1.2.2, r.2)

/-! ### `superimpose_homologs`: index composition around the alignment -/

def pickIdx (base : List Nat) (idx : List Nat) : Except Err (List Nat) :=
  idx.mapM fun i => match base[i]? with | some p => .ok p | none => .error .indexError

/-- Anchor selection before the outlier removal: backbone anchor indices `F`, `M` of the two
structures, matched pairs `A` from the alignment (indices into `F`/`M`). -/
def homologInitialAnchors (F M : List Nat) (A : List (Nat × Nat)) (minAnchors : Nat) :
    Except Err (List Nat × List Nat) :=
  if F.length < minAnchors ∨ M.length < minAnchors then .error .valueError
  else if A.length < minAnchors then
    (if F.length ≠ M.length then .error .valueError else .ok (F, M))
  else do
    let f ← pickIdx F (A.map (·.1))
    let m ← pickIdx M (A.map (·.2))
    pure (f, m)

/-- `superimpose_homologs` after the alignment: returns the transformation and the anchor indices
into the two full structures. -/
def superimposeHomologs
    (sup : Coords Rat → Coords Rat → Except Err (Coords Rat × Transform Rat))
    (cfg : WooCfg) (fixed mobile : Coords Rat) (F M : List Nat) (A : List (Nat × Nat)) :
    Except Err (Coords Rat × Transform Rat × List Nat × List Nat) := do
  let fm ← homologInitialAnchors F M A cfg.minAnchors
  let fs ← fixed.take fm.1
  let ms ← mobile.take fm.2
  let r ← superimposeWithoutOutliers sup cfg fs ms
  let f1 ← pickIdx fm.1 r.2.2
  let m1 ← pickIdx fm.2 r.2.2
  let fitted ← r.2.1.apply mobile
  pure (fitted, r.2.1, f1, m1)

/-! ### `_find_matching_anchors`: offset bookkeeping over the chains -/

/-- `anchors += fixed_seq_offset, mobile_seq_offset`. -/
def offsetPairs (oF oM : Nat) (ps : List (Nat × Nat)) : List (Nat × Nat) :=
  ps.map fun p => (p.1 + oF, p.2 + oM)

/-- The loop over the chain pairs.  A chain is `(len(fixed_seq), len(mobile_seq), local anchors)`, the
local anchors being the gap-free, positively scoring alignment columns of that chain pair (the
alignment itself belongs to C08 and is an input here).  Each structure's offset advances by the
length of *its own* chain. -/
def matchAnchorsFrom : List (Nat × Nat × List (Nat × Nat)) → Nat → Nat → List (Nat × Nat)
  | [], _, _ => []
  | (lf, lm, ps) :: rest, oF, oM => offsetPairs oF oM ps ++ matchAnchorsFrom rest (oF + lf) (oM + lm)

/-- `_find_matching_anchors` for the chain lengths of the two structures (`zip(..., strict=True)`:
a different number of chains is a `ValueError`). -/
def findMatchingAnchors (fixedChains mobileChains : List Nat) (loc : List (List (Nat × Nat))) :
    Except Err (List (Nat × Nat)) :=
  if fixedChains.length ≠ mobileChains.length then .error .valueError
  else .ok (matchAnchorsFrom (fixedChains.zip (mobileChains.zip loc)) 0 0)

end BiotiteModel.C16

import BiotiteModel.Model.C06
/-!
# C06 — File / Block / Category containers with lazy deserialisation

Model of `CIFFile`, `CIFBlock`, `CIFCategory` (cif.py) and of `_HierarchicalContainer`
(component.py) as used by `BinaryCIFFile/Block/Category` (bcif.py, after the `fix:` commit in
`BinaryCIFBlock.__delitem__`).  A container is an insertion-ordered association list whose
entries are either still serialised (`raw`) or already deserialised (`parsed`); `__getitem__`
deserialises on first access and caches the result.

The specification is a plain association list of `Option ν` (`none` = an element whose
serialised form cannot be deserialised).  `Props/C06.lean` proves that every operation
refines it, i.e. that lazy parsing is unobservable.

The `'_'` key prefix of `BinaryCIFBlock` is not modelled (names do not start with `_`).
-/
namespace BiotiteModel.C06

inductive Entry (ρ ν : Type) where
  | raw (r : ρ) | parsed (v : ν)
  deriving DecidableEq, Repr

/-- The two behavioural differences between the six container classes. -/
structure Kind where
  /-- `CIFCategory.__delitem__` raises `ValueError` when exactly one column is left (tested before the key). -/
  delGuard : Bool
  /-- binary flavour: `__setitem__` with a serialised element deserialises it at once
  (`DeserializationError` if that fails); text flavour: `TypeError`. -/
  rawSetEager : Bool
  deriving DecidableEq, Repr

abbrev Store (κ ρ ν : Type) := List (κ × Entry ρ ν)

def lookup {κ α : Type} [BEq κ] (k : κ) : List (κ × α) → Option α
  | [] => none
  | (k', v) :: rest => if k' == k then some v else lookup k rest

def erase {κ α : Type} [BEq κ] (k : κ) : List (κ × α) → List (κ × α)
  | [] => []
  | (k', v) :: rest => if k' == k then rest else (k', v) :: erase k rest

section
variable {κ ρ ν : Type} [BEq κ]

inductive Op (κ ρ ν : Type) where
  | get (k : κ) | set (k : κ) (v : ν) | setRaw (k : κ) (r : ρ) | del (k : κ)
  | has (k : κ) | iter | len
  deriving Repr

inductive Out (κ ν : Type) where
  | unit | val (v : ν) | keys (ks : List κ) | nat (n : Nat) | bool (b : Bool) | err (e : Err)
  deriving DecidableEq, Repr

/-- One mapping operation on the lazily parsed container. -/
def step (kind : Kind) (parse : ρ → Option ν) (st : Store κ ρ ν) : Op κ ρ ν → Store κ ρ ν × Out κ ν
  | .get k =>
    match lookup k st with
    | none => (st, .err .keyError)
    | some (.parsed v) => (st, .val v)
    | some (.raw r) =>
      match parse r with
      | some v => (dictSet k (.parsed v) st, .val v)
      | none => (st, .err derr)
  | .set k v => (dictSet k (.parsed v) st, .unit)
  | .setRaw k r =>
    if kind.rawSetEager then
      match parse r with
      | some v => (dictSet k (.parsed v) st, .unit)
      | none => (st, .err derr)
    else (st, .err .typeError)
  | .del k =>
    if kind.delGuard && st.length == 1 then (st, .err .valueError)
    else match lookup k st with
      | none => (st, .err .keyError)
      | some _ => (erase k st, .unit)
  | .has k => (st, .bool (lookup k st).isSome)
  | .iter => (st, .keys (st.map (·.1)))
  | .len => (st, .nat st.length)

/-! ### Specification: an ordinary insertion-ordered mapping -/

abbrev Spec (κ ν : Type) := List (κ × Option ν)

def Entry.force (parse : ρ → Option ν) : Entry ρ ν → Option ν
  | .raw r => parse r
  | .parsed v => some v

/-- The abstraction function: what the container *means*. -/
def absStore (parse : ρ → Option ν) (st : Store κ ρ ν) : Spec κ ν :=
  st.map (fun kv => (kv.1, kv.2.force parse))

def specStep (kind : Kind) (parse : ρ → Option ν) (sp : Spec κ ν) : Op κ ρ ν → Spec κ ν × Out κ ν
  | .get k =>
    match lookup k sp with
    | none => (sp, .err .keyError)
    | some (some v) => (sp, .val v)
    | some none => (sp, .err derr)
  | .set k v => (dictSet k (some v) sp, .unit)
  | .setRaw k r =>
    if kind.rawSetEager then
      match parse r with
      | some v => (dictSet k (some v) sp, .unit)
      | none => (sp, .err derr)
    else (sp, .err .typeError)
  | .del k =>
    if kind.delGuard && sp.length == 1 then (sp, .err .valueError)
    else match lookup k sp with
      | none => (sp, .err .keyError)
      | some _ => (erase k sp, .unit)
  | .has k => (sp, .bool (lookup k sp).isSome)
  | .iter => (sp, .keys (sp.map (·.1)))
  | .len => (sp, .nat sp.length)

/-- Run a history of operations, collecting the outputs. -/
def run (kind : Kind) (parse : ρ → Option ν) : Store κ ρ ν → List (Op κ ρ ν) → Store κ ρ ν × List (Out κ ν)
  | st, [] => (st, [])
  | st, op :: ops =>
    let r := step kind parse st op
    let r' := run kind parse r.1 ops
    (r'.1, r.2 :: r'.2)

def specRun (kind : Kind) (parse : ρ → Option ν) : Spec κ ν → List (Op κ ρ ν) → Spec κ ν × List (Out κ ν)
  | sp, [] => (sp, [])
  | sp, op :: ops =>
    let r := specStep kind parse sp op
    let r' := specRun kind parse r.1 ops
    (r'.1, r.2 :: r'.2)

/-! ### Equality (`__eq__`): same key set, then element-wise in the order of `self` -/

/-- `for key in self.keys(): if self[key] != other[key]: return False` with caching in both. -/
def eqLoop [BEq ν] (parse : ρ → Option ν) :
    List κ → Store κ ρ ν → Store κ ρ ν → Store κ ρ ν × Store κ ρ ν × Except Err Bool
  | [], a, b => (a, b, .ok true)
  | k :: ks, a, b =>
    match step ⟨false, false⟩ parse a (.get k) with
    | (a', .val x) =>
      match step ⟨false, false⟩ parse b (.get k) with
      | (b', .val y) => if x == y then eqLoop parse ks a' b' else (a', b', .ok false)
      | (b', .err e) => (a', b', .error e)
      | (b', _) => (a', b', .error .typeError)
    | (a', .err e) => (a', b, .error e)
    | (a', _) => (a', b, .error .typeError)

def sameKeySet (xs ys : List κ) : Bool := xs.all (ys.contains ·) && ys.all (xs.contains ·)

def eqContainers [BEq ν] (parse : ρ → Option ν) (a b : Store κ ρ ν) :
    Store κ ρ ν × Store κ ρ ν × Except Err Bool :=
  if sameKeySet (a.map (·.1)) (b.map (·.1)) then eqLoop parse (a.map (·.1)) a b
  else (a, b, .ok false)

def specEqLoop [BEq ν] : List κ → Spec κ ν → Spec κ ν → Except Err Bool
  | [], _, _ => .ok true
  | k :: ks, a, b =>
    match lookup k a with
    | none => .error .keyError
    | some none => .error derr
    | some (some x) =>
      match lookup k b with
      | none => .error .keyError
      | some none => .error derr
      | some (some y) => if x == y then specEqLoop ks a b else .ok false

def specEq [BEq ν] (a b : Spec κ ν) : Except Err Bool :=
  if sameKeySet (a.map (·.1)) (b.map (·.1)) then specEqLoop (a.map (·.1)) a b else .ok false

end

/-! ### The text file as nested lazy containers

`CIFFile.deserialize(text)` holds every block as text; `file[b]` turns that text into a block that
holds every category as text; `block[c]` parses the category. -/

abbrev CatStore := Store (Option Str) Str (Str × Cols)
abbrev FileStore := Store Str Str CatStore

/-- what `CIFBlock.deserialize` produces: all categories still text -/
def parseBlockStore (t : Str) : Option CatStore :=
  match blockDeserialize t with
  | .ok cats => some (cats.map (fun c => (c.1, Entry.raw c.2)))
  | .error _ => none

def parseCatOpt (t : Str) : Option (Str × Cols) :=
  match categoryDeserialize t with
  | .ok c => some c
  | .error _ => none

/-- what `CIFFile.deserialize` produces: all blocks still text -/
def lazyFile (text : Str) : FileStore := (fileDeserialize text).map (fun b => (b.1, Entry.raw b.2))

/-- the same file with everything parsed -/
def parsedFile (r : List (Str × List (Option Str × (Str × Cols)))) : FileStore :=
  r.map (fun b => (b.1, Entry.parsed (b.2.map (fun c => (c.1, Entry.parsed c.2)))))

/-- the meaning of a file store: block name ↦ (category name ↦ parsed category) -/
def deepAbs (fs : FileStore) : Spec Str (Spec (Option Str) (Str × Cols)) :=
  (absStore parseBlockStore fs).map (fun kv => (kv.1, kv.2.map (absStore parseCatOpt)))

/-- `file[b][c]` on the lazily held file -/
def lazyGet (text : Str) (b : Str) (c : Option Str) : Except Err (Str × Cols) :=
  match (step ⟨false, false⟩ parseBlockStore (lazyFile text) (.get b)).2 with
  | .val bs =>
    match (step ⟨false, false⟩ parseCatOpt bs (.get c)).2 with
    | .val cat => .ok cat
    | .err e => .error e
    | _ => .error .typeError
  | .err e => .error e
  | _ => .error .typeError

/-- `mapping[b][c]` on the plain nested mapping -/
def deepGet (sp : Spec Str (Spec (Option Str) (Str × Cols))) (b : Str) (c : Option Str) : Except Err (Str × Cols) :=
  match lookup b sp with
  | none => .error .keyError
  | some none => .error derr
  | some (some cats) =>
    match lookup c cats with
    | none => .error .keyError
    | some none => .error derr
    | some (some cat) => .ok cat

/-! ### Containers that store their elements under an encoded key (`BinaryCIFBlock`)

`BinaryCIFBlock` keeps category `name` under the key `"_" + name` (get/set/del/contains add the
prefix) and iteration removes exactly that one prefix again (after the `fix:` commit that replaced
`lstrip("_")` by `removeprefix("_")`). -/

section
variable {κ κ' ρ ν : Type}

def encOp (enc : κ → κ') : Op κ ρ ν → Op κ' ρ ν
  | .get k => .get (enc k) | .set k v => .set (enc k) v | .setRaw k r => .setRaw (enc k) r
  | .del k => .del (enc k) | .has k => .has (enc k) | .iter => .iter | .len => .len

def decOut (dec : κ' → κ) : Out κ' ν → Out κ ν
  | .keys ks => .keys (ks.map dec)
  | .unit => .unit | .val v => .val v | .nat n => .nat n | .bool b => .bool b | .err e => .err e

/-- one operation of the user (keys of type `κ`) on a store with encoded keys -/
def stepP [BEq κ'] (enc : κ → κ') (dec : κ' → κ) (kind : Kind) (parse : ρ → Option ν)
    (st : Store κ' ρ ν) (op : Op κ ρ ν) : Store κ' ρ ν × Out κ ν :=
  let r := step kind parse st (encOp enc op)
  (r.1, decOut dec r.2)

def runP [BEq κ'] (enc : κ → κ') (dec : κ' → κ) (kind : Kind) (parse : ρ → Option ν) :
    Store κ' ρ ν → List (Op κ ρ ν) → Store κ' ρ ν × List (Out κ ν)
  | st, [] => (st, [])
  | st, op :: ops =>
    let r := stepP enc dec kind parse st op
    let r' := runP enc dec kind parse r.1 ops
    (r'.1, r.2 :: r'.2)

def mapKeys {α : Type} (dec : κ' → κ) (l : List (κ' × α)) : List (κ × α) := l.map (fun kv => (dec kv.1, kv.2))

/-- what a store with encoded keys means to the user -/
def absP (dec : κ' → κ) (parse : ρ → Option ν) (st : Store κ' ρ ν) : Spec κ ν := mapKeys dec (absStore parse st)

end

/-- `"_" + name` -/
def encU (k : Str) : Str := '_' :: k
/-- `key.removeprefix("_")` -/
def decU (k : Str) : Str := match k with | '_' :: r => r | r => r

/-! ### A column with an explicit mask (`CIFColumn(data, mask)`, `BinaryCIFColumn`)

`as_array()` in all its flavours, `as_item()`, `.data.array` and serialisation are *reads*: pure
functions of (data, mask).  The state is threaded through `colStep` only so that this can be
stated (`C06_reads_pure`) and checked against the real objects op by op. -/

structure Col where
  data : List Str
  mask : List Nat
  deriving Repr, DecidableEq

inductive ColOp where
  /-- `as_array(str, masked_value)` -/
  | arr (maskedValue : Option Str)
  /-- `column.data.array` -/
  | data
  /-- `CIFColumn(column.data).as_array()`: a second, unmasked column on the same data -/
  | plain
  deriving Repr

/-- `as_array`: masked cells are shown as `masked_value`, or `.` / `?` by default. -/
def Col.asArray (c : Col) (mv : Option Str) : List Str :=
  List.zipWith (fun v m => if m == 0 then v else
    match mv with
    | some x => x
    | none => if m == 1 then sDot else sQm) c.data c.mask

/-- A column as `__eq__` sees it: the data array and the mask array, which may be absent. -/
structure MCol where
  data : List Str
  mask : Option (List Nat)
  deriving Repr, DecidableEq

/-- `CIFColumn.__eq__` / `BinaryCIFColumn.__eq__`: data equal and masks equal (no mask ≠ some mask). -/
def MCol.eq (a b : MCol) : Bool := a.data == b.data && a.mask == b.mask

/-- the table the column stands for (`as_array()`) -/
def MCol.render (c : MCol) : List Str :=
  match c.mask with
  | none => c.data
  | some m => (Col.mk c.data m).asArray none

def colStep (c : Col) : ColOp → Col × List Str
  | .arr mv => (c, c.asArray mv)
  | .data => (c, c.data)
  | .plain => (c, c.data)

def colRun : Col → List ColOp → Col × List (List Str)
  | c, [] => (c, [])
  | c, op :: ops =>
    let r := colStep c op
    let r' := colRun r.1 ops
    (r'.1, r.2 :: r'.2)

/-! ### The cached row count of a category (`_row_count`)

`CIFCategory` / `BinaryCIFCategory` cache the row count in `row_count` and in `serialize()`.
Model of the code *after* the `fix:` commits: `__setitem__` and `__delitem__` forget the cache.
A column is represented by its length only. -/

structure RC (κ : Type) where
  cols : List (κ × Nat)
  cache : Option Nat
  deriving Repr

inductive RCOp (κ : Type) where
  | set (k : κ) (n : Nat) | del (k : κ) | ser | count
  deriving Repr

/-- the loop at the top of `serialize()`: (cache afterwards, all columns agree with it) -/
def rcSerLoop {κ : Type} : Option Nat → List (κ × Nat) → Option Nat × Bool
  | c, [] => (c, true)
  | none, (_, n) :: rest => rcSerLoop (some n) rest
  | some m, (_, n) :: rest => if n != m then (some m, false) else rcSerLoop (some m) rest

def rcStep {κ : Type} [BEq κ] (binary : Bool) (s : RC κ) : RCOp κ → RC κ × Except Err (Option Nat)
  | .set k n => (⟨dictSet k n s.cols, none⟩, .ok none)
  | .del k =>
    if !binary && s.cols.length == 1 then (s, .error .valueError)
    else match lookup k s.cols with
      | none => (s, .error .keyError)
      | some _ => (⟨erase k s.cols, none⟩, .ok none)
  | .ser =>
    if s.cols.isEmpty then (s, .error (if binary then serr else .valueError))
    else
      let r := rcSerLoop s.cache s.cols
      if r.2 then (⟨s.cols, r.1⟩, .ok r.1) else (⟨s.cols, r.1⟩, .error serr)
  | .count =>
    match s.cache with
    | some n => (s, .ok (some n))
    | none =>
      match s.cols with
      | [] => (s, .error (.other "StopIteration"))
      | (_, n) :: _ => (⟨s.cols, some n⟩, .ok (some n))

def rcRun {κ : Type} [BEq κ] (binary : Bool) : RC κ → List (RCOp κ) → RC κ × List (Except Err (Option Nat))
  | s, [] => (s, [])
  | s, op :: ops =>
    let r := rcStep binary s op
    let r' := rcRun binary r.1 ops
    (r'.1, r.2 :: r'.2)

/-- Specification without any cache: what a serialisation of the *current* columns must give. -/
def rcSpecSer {κ : Type} (binary : Bool) (cols : List (κ × Nat)) : Except Err (Option Nat) :=
  match cols with
  | [] => .error (if binary then serr else .valueError)
  | (_, n) :: rest => if rest.all (fun kv => kv.2 == n) then .ok (some n) else .error serr

/-- One operation on the plain columns (no cache at all). -/
def rcSpecStep {κ : Type} [BEq κ] (binary : Bool) (cols : List (κ × Nat)) :
    RCOp κ → List (κ × Nat) × Except Err (Option Nat)
  | .set k n => (dictSet k n cols, .ok none)
  | .del k =>
    if !binary && cols.length == 1 then (cols, .error .valueError)
    else match lookup k cols with
      | none => (cols, .error .keyError)
      | some _ => (erase k cols, .ok none)
  | .ser => (cols, rcSpecSer binary cols)
  | .count =>
    match cols with
    | [] => (cols, .error (.other "StopIteration"))
    | (_, n) :: _ => (cols, .ok (some n))

def rcSpecRun {κ : Type} [BEq κ] (binary : Bool) :
    List (κ × Nat) → List (RCOp κ) → List (κ × Nat) × List (Except Err (Option Nat))
  | c, [] => (c, [])
  | c, op :: ops =>
    let r := rcSpecStep binary c op
    let r' := rcSpecRun binary r.1 ops
    (r'.1, r.2 :: r'.2)

end BiotiteModel.C06

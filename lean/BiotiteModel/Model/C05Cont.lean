import BiotiteModel.Common
/-!
# C05 — whole files read back equal: the lazily deserialising containers (`_HierarchicalContainer`)

`BinaryCIFFile`, `BinaryCIFBlock` and `BinaryCIFCategory` keep every element either *serialised* (as read from the file,
deserialised on first access and then cached) or *live* (an object).  `serialize` writes lazy elements back as they are.
The model is parametric in the element codec (`ser`, `de`), so the file-level statement is derived from the
element-level round trip (`de (ser l) = some l`, the encoding-level theorems) for *every* sequence of accesses and edits.
-/
namespace BiotiteModel.C05

structure Codec (S L : Type) where
  ser : L → S
  de : S → Option L          -- `none`: `deserialize` raises → `DeserializationError`

inductive Elem (S L : Type) where
  | lazy (s : S)
  | live (l : L)
deriving Repr, DecidableEq

/-- insertion-ordered `dict` -/
abbrev Dict (α : Type) := List (String × α)

def Dict.find {α} : Dict α → String → Option α
  | [], _ => none
  | (k', v) :: r, k => if k' = k then some v else Dict.find r k

/-- `d[k] = v`: an existing key keeps its position, a new key is appended. -/
def Dict.upd {α} : Dict α → String → α → Dict α
  | [], k, v => [(k, v)]
  | (k', v') :: r, k, v => if k' = k then (k, v) :: r else (k', v') :: Dict.upd r k v

def Dict.del {α} (d : Dict α) (k : String) : Dict α := d.filter fun p => p.1 ≠ k

def Dict.keys {α} (d : Dict α) : List String := d.map (·.1)

abbrev Cont (S L : Type) := Dict (Elem S L)

/-- what an element *is* (its deserialised value), whether or not it has been touched yet -/
def Elem.view {S L} (c : Codec S L) : Elem S L → Option L
  | .lazy s => c.de s
  | .live l => some l

/-- what `_serialize_elements` writes for it -/
def Elem.out {S L} (c : Codec S L) : Elem S L → S
  | .lazy s => s
  | .live l => c.ser l

inductive GetErr | keyError | deserializationError
deriving Repr, DecidableEq

/-- `_deserialize_elements`: a plain dict comprehension over the content list (later duplicates overwrite). -/
def Cont.ofContent {S L} (content : List (String × S)) : Cont S L :=
  content.foldl (fun m p => Dict.upd m p.1 (.lazy p.2)) []

/-- `__getitem__`: deserialise on first access and cache. -/
def Cont.get {S L} (c : Codec S L) (m : Cont S L) (k : String) : Except GetErr L × Cont S L :=
  match Dict.find m k with
  | none => (.error .keyError, m)
  | some (.live l) => (.ok l, m)
  | some (.lazy s) =>
    match c.de s with
    | none => (.error .deserializationError, m)
    | some l => (.ok l, Dict.upd m k (.live l))

def Cont.set {S L} (m : Cont S L) (k : String) (l : L) : Cont S L := Dict.upd m k (.live l)

/-- `__delitem__` -/
def Cont.del {S L} (m : Cont S L) (k : String) : Except GetErr Unit × Cont S L :=
  match Dict.find m k with
  | none => (.error .keyError, m)
  | some _ => (.ok (), Dict.del m k)

/-- `_serialize_elements(store_key_in=…)` -/
def Cont.serialize {S L} (c : Codec S L) (m : Cont S L) : List (String × S) := m.map fun p => (p.1, p.2.out c)

/-- The specification: a plain ordered map from keys to values (`none` = an element whose bytes cannot be read). -/
abbrev Spec (L : Type) := Dict (Option L)

def Cont.abs {S L} (c : Codec S L) (m : Cont S L) : Spec L := m.map fun p => (p.1, p.2.view c)

def Spec.get {L} (m : Spec L) (k : String) : Except GetErr L :=
  match Dict.find m k with
  | none => .error .keyError
  | some none => .error .deserializationError
  | some (some l) => .ok l

inductive Op (L : Type) where
  | get (k : String)
  | set (k : String) (l : L)
  | del (k : String)
deriving Repr

def Cont.step {S L} (c : Codec S L) (m : Cont S L) : Op L → Cont S L
  | .get k => (m.get c k).2
  | .set k l => m.set k l
  | .del k => (m.del k).2

def Spec.step {L} (m : Spec L) : Op L → Spec L
  | .get _ => m
  | .set k l => Dict.upd m k (some l)
  | .del k => Dict.del m k

/-- `BinaryCIFBlock` stores category `name` under `"_" + name` and strips one leading underscore when listing. -/
def blockKeyIn (k : String) : String := "_" ++ k
def removePrefixUnderscore (k : String) : String :=
  match k.toList with
  | '_' :: r => String.ofList r
  | _ => k

/-- `BinaryCIFBlock.deserialize`: the generic dict by raw name, a second dict keyed by `name.removeprefix("_")`, and the
constructor's third dict keyed by `"_" + name` — so `x` and `_x` in a file denote the same category (the later one wins,
at the position of the first). -/
def Cont.ofBlockContent {S L} (content : List (String × S)) : Cont S L :=
  let d1 : Cont S L := Cont.ofContent content
  let d2 : Cont S L := d1.foldl (fun m p => Dict.upd m (removePrefixUnderscore p.1) p.2) []
  d2.map fun p => (blockKeyIn p.1, p.2)

end BiotiteModel.C05

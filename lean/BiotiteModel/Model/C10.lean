import BiotiteModel.Common
/-!
# C10 — k-mer index tables and k-mer subset selectors
(model of `sequence/align/{kmeralphabet,kmertable,selector,permutation}.pyx`)

* A pointer array is `List (Option Bucket)`: `none` is the `NULL` pointer, a bucket is the
  malloc'ed C-array with its *capacity* (entries allocated by `_init_c_arrays` from the
  first, counting pass) and the entries written so far (the stored length is
  `2 + E * ents.length`).  Every unchecked pointer write of the real code
  (`boundscheck(False)`, raw `uint32*`) is an explicit check here that yields the error
  `ub` — "the real code would perform undefined behaviour".
* Direct (`KmerTable`) and bucketed (`BucketKmerTable`) tables share the code path with the
  hash `id` resp. `· % n_buckets`; direct tables carry the k-mer of an entry as a ghost
  field (it is the slot index in the real layout).
* Import-free and executable: the same definitions drive the correspondence check.
-/
namespace BiotiteModel.C10

/-- Outcome "the real code performs an unchecked out-of-range access here". -/
def ub : Err := .other "UB"

/-! ## KmerAlphabet -/

structure KAlph where
  n : Nat                         -- length of the base alphabet
  k : Nat
  spacing : Option (List Nat)     -- `None` or the sorted array form of the spacing model
  deriving DecidableEq, Repr

def KAlph.size (a : KAlph) : Nat := a.n ^ a.k

/-- `max_offset = spacing[len-1] + 1` resp. `k`: the number of sequence positions a k-mer spans. -/
def KAlph.span (a : KAlph) : Nat :=
  match a.spacing with
  | none => a.k
  | some sp => match sp.getLast? with
    | some m => m + 1
    | none => 0

/-- `kmer_array_length(length) = length - span + 1` (may be ≤ 0). -/
def KAlph.arrayLength (a : KAlph) (len : Nat) : Int := (len : Int) - a.span + 1

def insertSorted (x : Nat) : List Nat → List Nat
  | [] => [x]
  | y :: ys => if x ≤ y then x :: y :: ys else y :: insertSorted x ys

def sortNats (xs : List Nat) : List Nat := xs.foldr insertSorted []

def hasAdjDup : List Nat → Bool
  | x :: y :: r => x == y || hasAdjDup (y :: r)
  | _ => false

/-- `KmerAlphabet.__init__` (spacing given as an iterable of offsets). -/
def mkAlph (n k : Nat) (spacing : Option (List Nat)) : Except Err KAlph :=
  if k < 2 then .error .valueError else
  match spacing with
  | none => .ok ⟨n, k, none⟩
  | some sp =>
    let s := sortNats sp
    if hasAdjDup s then .error .valueError
    else if s.length ≠ k then .error .valueError
    else .ok ⟨n, k, some s⟩

/-- Value of the symbol codes `cs` read as a base-`n` number (`fuse`). -/
def fuseCodes (n : Nat) (cs : List Nat) : Nat := cs.foldl (fun acc c => acc * n + c) 0

/-- `KmerAlphabet.fuse(codes)` for one k-mer **as written**: the range check is
`codes > len(base_alphabet)` (not `>=`). -/
def fuseChecked (a : KAlph) (codes : List Nat) : Except Err Nat :=
  if codes.length ≠ a.k then .error .alphabetError
  else if codes.any (fun c => c > a.n) then .error .alphabetError
  else .ok (fuseCodes a.n codes)

/-- The rolling update of `_create_continuous_kmers`: `ds` streams the symbols leaving the
window, `cs` the symbols entering it. -/
def rollKmers (n k : Nat) : Nat → List Nat → List Nat → List Nat
  | prev, d :: ds, c :: cs =>
    let km := ((((prev : Int) - (d : Int) * (n : Int) ^ (k - 1)) * (n : Int)) + (c : Int)).toNat
    km :: rollKmers n k km ds cs
  | _, _, _ => []

def spacedKmer (n : Nat) (seq : List Nat) (i : Nat) : List Nat → Nat → Except Err Nat
  | [], acc => .ok acc
  | off :: r, acc =>
    match seq[i + off]? with
    | none => .error ub
    | some c => if c ≥ n then .error .alphabetError else spacedKmer n seq i r (acc * n + c)

def mapMExcept {α β : Type} (f : α → Except Err β) : List α → Except Err (List β)
  | [] => .ok []
  | x :: xs => match f x with
    | .error e => .error e
    | .ok y => match mapMExcept f xs with
      | .error e => .error e
      | .ok ys => .ok (y :: ys)

/-- `KmerAlphabet.create_kmers(seq_code)`. -/
def createKmers (a : KAlph) (seq : List Nat) : Except Err (List Nat) :=
  match a.spacing with
  | none =>
    if seq.length < a.k then .error .valueError
    else if seq.any (fun c => c ≥ a.n) then .error .alphabetError
    else
      let first := fuseCodes a.n (seq.take a.k)
      .ok (first :: rollKmers a.n a.k first seq (seq.drop a.k))
  | some sp =>
    if seq.length < a.span then .error .valueError
    else mapMExcept (fun i => spacedKmer a.n seq i sp 0) (List.range (seq.length - a.span + 1))

/-! ## masks -/

/-- `_to_kmer_mask(mask, kmer_alphabet)` **as written**; `true` = the k-mer is retained.
For spaced k-mers the code reads `mask[j + offset]` (no `i`). -/
def toKmerMask (a : KAlph) (mask : List Bool) : Except Err (List Bool) :=
  let nOut := (a.arrayLength mask.length).toNat
  match a.spacing with
  | none =>
    .ok ((List.range nOut).map fun i => ! ((mask.drop i).take a.k).any id)
  | some sp =>
    -- the value computed in the inner loop does not depend on `i`
    let reads := (List.range sp.length).zip sp |>.map fun (j, off) => mask[j + off]?
    if nOut = 0 then .ok []
    else if reads.any Option.isNone then .error ub
    else
      let retained := ! reads.any (fun r => r == some true)
      .ok (List.replicate nOut retained)

/-- `_prepare_mask(kmer_alphabet, ignore_mask, seq_length)`. -/
def prepareMask (a : KAlph) (mask : Option (List Bool)) (seqLen : Nat) : Except Err (List Bool) :=
  match mask with
  | none => .ok (List.replicate (a.arrayLength seqLen).toNat true)
  | some m => if m.length ≠ seqLen then .error .indexError else toKmerMask a m

/-! ## pointer arrays -/

structure Entry where
  kmer : Nat
  ref : Nat
  pos : Nat
  deriving DecidableEq, Repr

structure Bucket where
  cap : Nat
  ents : List Entry
  deriving DecidableEq, Repr

abbrev Slots := List (Option Bucket)

/-- first pass (`_count_kmers` / `_count_masked_kmers`): `count_array[h kmer] += 1`, unchecked. -/
def countPass (h : Nat → Nat) : List Nat → List Entry → Except Err (List Nat)
  | counts, [] => .ok counts
  | counts, e :: es =>
    match counts[h e.kmer]? with
    | some c => countPass h (counts.set (h e.kmer) (c + 1)) es
    | none => .error ub

/-- `_init_c_arrays`: a C-array of the counted capacity with stored length 2 (no entries). -/
def initArrays (counts : List Nat) : Slots :=
  counts.map fun c => if c = 0 then none else some ⟨c, []⟩

/-- one iteration of `_add_kmers` / `_add_kmer_selection`: append at the stored length. -/
def addEntry (h : Nat → Nat) (slots : Slots) (e : Entry) : Except Err Slots :=
  match slots[h e.kmer]? with
  | some (some b) =>
    if b.ents.length < b.cap then .ok (slots.set (h e.kmer) (some { b with ents := b.ents ++ [e] }))
    else .error ub                      -- write beyond the malloc'ed block
  | _ => .error ub                      -- NULL pointer or index outside the pointer array

/-- second pass. -/
def fill (h : Nat → Nat) : Slots → List Entry → Except Err Slots
  | slots, [] => .ok slots
  | slots, e :: es =>
    match addEntry h slots e with
    | .ok s => fill h s es
    | .error err => .error err

/-- count, allocate, fill: the common core of `from_sequences`, `from_kmers`, `from_kmer_selection`. -/
def build (h : Nat → Nat) (nb : Nat) (items : List Entry) : Except Err Slots :=
  match countPass h (List.replicate nb 0) items with
  | .ok counts => fill h (initArrays counts) items
  | .error e => .error e

/-- The specification of a filled pointer array: slot `b` holds exactly the items hashing to
`b`, in insertion order, in a block of exactly that capacity; `NULL` if there are none. -/
def canon (h : Nat → Nat) (nb : Nat) (items : List Entry) : Slots :=
  (List.range nb).map fun b =>
    let f := items.filter (fun e => h e.kmer == b)
    if f.length = 0 then none else some ⟨f.length, f⟩

/-! ## tables -/

structure Table where
  alph : KAlph
  bucketed : Bool
  nb : Nat
  slots : Slots
  deriving DecidableEq, Repr

def hashOf (bucketed : Bool) (nb : Nat) (q : Nat) : Nat := if bucketed then q % nb else q

def Table.hash (t : Table) (q : Nat) : Nat := hashOf t.bucketed t.nb q

/-- number of pointer slots: `len(kmer_alphabet)` resp. `min(n_buckets, len(kmer_alphabet))`. -/
def slotCount (a : KAlph) (nBuckets : Option Nat) : Nat :=
  match nBuckets with
  | none => a.size
  | some nb => if a.size < nb then a.size else nb

def zipIdx {α : Type} (xs : List α) : List (Nat × α) := (List.range xs.length).zip xs

/-- the entries one reference contributes (both passes enumerate them the same way). -/
def itemsOf (ref : Nat) (kmers : List Nat) (mask : List Bool) : List Entry :=
  ((zipIdx kmers).zip mask).filterMap fun ((j, km), m) => if m then some ⟨km, ref, j⟩ else none

def selItems (ref : Nat) (positions kmers : List Nat) : List Entry :=
  (positions.zip kmers).map fun (p, km) => ⟨km, ref, p⟩

def mkTable (a : KAlph) (nBuckets : Option Nat) (items : List Entry) : Except Err Table :=
  let nb := slotCount a nBuckets
  let bucketed := nBuckets.isSome
  match build (hashOf bucketed nb) nb items with
  | .ok s => .ok ⟨a, bucketed, nb, s⟩
  | .error e => .error e

/-- `_check_multiple_kmer_bounds`. -/
def checkBounds (a : KAlph) (kmers : List Nat) : Bool := kmers.all (· < a.size)

/-- `from_kmers(kmer_alphabet, kmers, ref_ids, masks)`; a `none` mask is all-ones. -/
def fromKmers (a : KAlph) (nBuckets : Option Nat) (refs : List (Nat × List Nat × Option (List Bool))) :
    Except Err Table :=
  if ! refs.all (fun r => checkBounds a r.2.1) then .error .alphabetError
  else if refs.any (fun r => match r.2.2 with | some m => m.length ≠ r.2.1.length | none => false) then
    -- `_count_masked_kmers` reads the mask unchecked, then `_add_kmers` raises IndexError
    .error .indexError
  else
    mkTable a nBuckets (refs.flatMap fun (r, ks, m) => itemsOf r ks (m.getD (List.replicate ks.length true)))

/-- `from_sequences(k, sequences, ref_ids, ignore_masks, spacing=…)`. -/
def fromSequences (a : KAlph) (nBuckets : Option Nat) (refs : List (Nat × List Nat × Option (List Bool))) :
    Except Err Table :=
  match mapMExcept (fun (r : Nat × List Nat × Option (List Bool)) => createKmers a r.2.1) refs with
  | .error e => .error e
  | .ok kms =>
    match mapMExcept (fun (r : Nat × List Nat × Option (List Bool)) => prepareMask a r.2.2 r.2.1.length) refs with
    | .error e => .error e
    | .ok masks =>
      mkTable a nBuckets (((refs.zip kms).zip masks).flatMap fun ((r, ks), m) => itemsOf r.1 ks m)

/-- `from_kmer_selection(kmer_alphabet, positions, kmers, ref_ids)`. -/
def fromSelection (a : KAlph) (nBuckets : Option Nat) (refs : List (Nat × List Nat × List Nat)) :
    Except Err Table :=
  if ! refs.all (fun r => checkBounds a r.2.2) then .error .alphabetError
  else if refs.any (fun r => r.2.1.length ≠ r.2.2.length) then .error .indexError
  else mkTable a nBuckets (refs.flatMap fun (r, ps, ks) => selItems r ps ks)

/-- `KmerTable.from_positions(kmer_alphabet, {kmer: [(ref, pos), …]})`: one exact-size block per key. -/
def fromPositions (a : KAlph) (dict : List (Nat × List (Nat × Nat))) : Except Err Table :=
  let rec go (slots : Slots) : List (Nat × List (Nat × Nat)) → Except Err Slots
    | [] => .ok slots
    | (km, ps) :: r =>
      if km ≥ a.size then .error .alphabetError
      else if ps.isEmpty then go slots r
      else go (slots.set km (some ⟨ps.length, ps.map fun (rf, p) => ⟨km, rf, p⟩⟩)) r
  match go (List.replicate a.size none) dict with
  | .ok s => .ok ⟨a, false, a.size, s⟩
  | .error e => .error e

/-! ### merging (`from_tables`) -/

/-- `_count_table_entries`: `count_array[bucket] += (length - 2) // element_size`. -/
def countTable : List Nat → Slots → List Nat
  | c :: cs, s :: ss => (c + (match s with | some b => b.ents.length | none => 0)) :: countTable cs ss
  | cs, _ => cs

/-- `_append_entries` for one slot: memcpy behind the stored length. -/
def appendSlot : Option Bucket → Option Bucket → Except Err (Option Bucket)
  | t, none => .ok t
  | none, some _ => .error ub
  | some t, some s =>
    if t.ents.length + s.ents.length ≤ t.cap then .ok (some { t with ents := t.ents ++ s.ents })
    else .error ub

def appendEntries : Slots → Slots → Except Err Slots
  | t :: ts, s :: ss =>
    match appendSlot t s with
    | .error e => .error e
    | .ok x => match appendEntries ts ss with
      | .error e => .error e
      | .ok xs => .ok (x :: xs)
  | ts, [] => .ok ts
  | [], _ :: _ => .ok []                 -- loop runs over the target's slots only

def appendAll : Slots → List Slots → Except Err Slots
  | trg, [] => .ok trg
  | trg, s :: ss => match appendEntries trg s with
    | .ok t => appendAll t ss
    | .error e => .error e

def mergeSlots (nb : Nat) (srcs : List Slots) : Except Err Slots :=
  appendAll (initArrays (srcs.foldl countTable (List.replicate nb 0))) srcs

/-- `from_tables(tables)`: the alphabets (and bucket numbers) must agree. -/
def fromTables : List Table → Except Err Table
  | [] => .error .indexError
  | t :: ts =>
    if (t :: ts).any (fun u => u.alph ≠ t.alph) then .error .valueError
    else if (t :: ts).any (fun u => u.nb ≠ t.nb) then .error .valueError
    else match mergeSlots t.nb ((t :: ts).map (·.slots)) with
      | .ok s => .ok { t with slots := s }
      | .error e => .error e

/-! ### queries -/

def slotEntries (slots : Slots) (b : Nat) : List Entry :=
  match slots[b]? with
  | some (some bk) => bk.ents
  | _ => []

/-- the inner loop shared by `match`, `match_kmer_selection`, `count`: all entries for k-mer `q`.
Direct tables take the whole C-array of slot `q`; bucketed ones scan bucket `q % n` and compare. -/
def lookup (t : Table) (q : Nat) : List Entry :=
  if t.bucketed then (slotEntries t.slots (q % t.nb)).filter (fun e => e.kmer == q)
  else slotEntries t.slots q

/-- `match(sequence, ignore_mask)` after k-mer decomposition: `(query pos, ref id, ref pos)`. -/
def matchKmers (t : Table) (qk : List Nat) (qm : List Bool) : List (Nat × Nat × Nat) :=
  ((zipIdx qk).zip qm).flatMap fun ((i, q), m) =>
    if m then (lookup t q).map (fun e => (i, e.ref, e.pos)) else []

def matchSeq (t : Table) (seq : List Nat) (mask : Option (List Bool)) : Except Err (List (Nat × Nat × Nat)) :=
  if seq.length < t.alph.k then .error .valueError else
  match createKmers t.alph seq with
  | .error e => .error e
  | .ok qk => match prepareMask t.alph mask seq.length with
    | .error e => .error e
    | .ok qm => .ok (matchKmers t qk qm)

/-- `match(sequence, similarity_rule, ignore_mask)` after k-mer decomposition, with the similarity rule
as a parameter: `sim q` lists the k-mers the rule declares similar to `q` (the exact match is
`sim q = [q]`).  Masked query positions are skipped *before* the rule is consulted. -/
def matchKmersSim (sim : Nat → List Nat) (t : Table) (qk : List Nat) (qm : List Bool) :
    List (Nat × Nat × Nat) :=
  ((zipIdx qk).zip qm).flatMap fun ((i, q), m) =>
    if m then (sim q).flatMap fun q' => (lookup t q').map (fun e => (i, e.ref, e.pos)) else []

def matchSeqSim (sim : Nat → List Nat) (t : Table) (seq : List Nat) (mask : Option (List Bool)) :
    Except Err (List (Nat × Nat × Nat)) :=
  if seq.length < t.alph.k then .error .valueError else
  match createKmers t.alph seq with
  | .error e => .error e
  | .ok qk => match prepareMask t.alph mask seq.length with
    | .error e => .error e
    | .ok qm => .ok (matchKmersSim sim t qk qm)

/-- `self.match_table(other, similarity_rule)`: every entry of the other table against the entries
of this table whose k-mer is similar to it. -/
def matchTableSim (sim : Nat → List Nat) (t o : Table) : Except Err (List (Nat × Nat × Nat × Nat)) :=
  if t.alph ≠ o.alph then .error .valueError
  else if t.bucketed && t.nb ≠ o.nb then .error .valueError
  else .ok ((List.range o.nb).flatMap fun b => (slotEntries o.slots b).flatMap fun oe =>
    (sim oe.kmer).flatMap fun q' => (lookup t q').map fun se => (oe.ref, oe.pos, se.ref, se.pos))

/-- the alphabet of a query sequence relative to the letter series the base alphabets are prefixes of:
a prefix alphabet of `m` symbols, or an alphabet with other symbols. -/
inductive QAlph where
  | pre (m : Nat)
  | foreign
  deriving DecidableEq, Repr

/-- `base_alphabet.extends(sequence.alphabet)`: the query alphabet's symbols are a prefix of the base alphabet's. -/
def QAlph.extendedBy (q : QAlph) (n : Nat) : Bool :=
  match q with
  | .pre m => decide (m ≤ n)
  | .foreign => false

/-- `match(sequence, ignore_mask=…)` including the alphabet guard: a query over an alphabet the table's
base alphabet does not extend is refused, even if all its symbol codes would be in range. -/
def matchSeqQ (t : Table) (qa : QAlph) (seq : List Nat) (mask : Option (List Bool)) :
    Except Err (List (Nat × Nat × Nat)) :=
  if seq.length < t.alph.k then .error .valueError
  else if ! qa.extendedBy t.alph.n then .error .valueError
  else matchSeq t seq mask

/-- `KmerAlphabet.__eq__` **as written**: base alphabet, `k`, then the spacing case distinction. -/
def kalphEq (a b : KAlph) : Bool :=
  if a.n ≠ b.n then false
  else if a.k ≠ b.k then false
  else match a.spacing with
    | none => b.spacing.isNone
    | some s => match b.spacing with
      | none => false
      | some s' => s == s'

/-- `match_kmer_selection(positions, kmers)`. -/
def matchSelection (t : Table) (positions kmers : List Nat) : Except Err (List (Nat × Nat × Nat)) :=
  if ! checkBounds t.alph kmers then .error .alphabetError
  else if positions.length ≠ kmers.length then .error .indexError
  else .ok ((positions.zip kmers).flatMap fun (p, q) => (lookup t q).map (fun e => (p, e.ref, e.pos)))

/-- `self.match_table(other)`: per slot the cartesian product (bucketed: of equal k-mers). -/
def matchTable (t o : Table) : Except Err (List (Nat × Nat × Nat × Nat)) :=
  if t.alph ≠ o.alph then .error .valueError
  else if t.bucketed && t.nb ≠ o.nb then .error .valueError
  else .ok ((List.range t.nb).flatMap fun b =>
    (slotEntries o.slots b).flatMap fun oe =>
      ((slotEntries t.slots b).filter (fun se => !t.bucketed || se.kmer == oe.kmer)).map fun se =>
        (oe.ref, oe.pos, se.ref, se.pos))

/-- `count(kmers)`. -/
def countKmers (t : Table) (kmers : List Nat) : Except Err (List Nat) :=
  if ! checkBounds t.alph kmers then .error .alphabetError
  else .ok (kmers.map fun q => (lookup t q).length)

/-- `KmerTable.count()` without argument: one number per slot. -/
def countAll (t : Table) : List Nat := (List.range t.nb).map fun b => (slotEntries t.slots b).length

def dedupSorted : List Nat → List Nat
  | x :: y :: r => if x == y then dedupSorted (y :: r) else x :: dedupSorted (y :: r)
  | l => l

/-- `get_kmers()`: direct — indices of non-NULL slots; bucketed — the sorted set of stored k-mers. -/
def getKmers (t : Table) : List Nat :=
  if t.bucketed then
    dedupSorted (sortNats ((List.range t.nb).flatMap fun b => (slotEntries t.slots b).map (·.kmer)))
  else (List.range t.nb).filter fun b => match t.slots[b]? with | some (some _) => true | _ => false

/-- `table[kmer]` **as written**: the bucketed variant compares only the low 32-bit word of the
stored int64 k-mer (`self_kmer = bucket_ptr[j]`) with the requested code. -/
def getItem (t : Table) (q : Nat) : Except Err (List (Nat × Nat)) :=
  if q ≥ t.alph.size then .error .alphabetError
  else if t.bucketed then
    .ok (((slotEntries t.slots (q % t.nb)).filter (fun e => e.kmer % 2 ^ 32 == q)).map fun e => (e.ref, e.pos))
  else .ok ((slotEntries t.slots q).map fun e => (e.ref, e.pos))

/-- all `(kmer, ref, pos)` stored in the table. -/
def contents (t : Table) : List Entry := (List.range t.nb).flatMap (slotEntries t.slots)

/-! ### pickling: concatenated 32-bit words + per-slot lengths -/

def entryWords (bucketed : Bool) (e : Entry) : List Nat :=
  if bucketed then [e.kmer % 2 ^ 32, e.kmer / 2 ^ 32, e.ref, e.pos] else [e.ref, e.pos]

def bucketWords (bucketed : Bool) (b : Bucket) : List Nat :=
  let len := 2 + (if bucketed then 4 else 2) * b.ents.length
  [len % 2 ^ 32, len / 2 ^ 32] ++ b.ents.flatMap (entryWords bucketed)

/-- `_pickle_c_arrays`: `(concatenated_array, lengths)`. -/
def pickleSlots (bucketed : Bool) : Slots → List Nat × List Nat
  | [] => ([], [])
  | none :: r => let (w, l) := pickleSlots bucketed r; (w, 0 :: l)
  | some b :: r =>
    let (w, l) := pickleSlots bucketed r
    let bw := bucketWords bucketed b
    (bw ++ w, bw.length :: l)

def parseEntries (bucketed : Bool) (slot : Nat) : List Nat → List Entry
  | lo :: hi :: r :: p :: rest =>
    if bucketed then ⟨lo + 2 ^ 32 * hi, r, p⟩ :: parseEntries bucketed slot rest
    else ⟨slot, lo, hi⟩ :: parseEntries bucketed slot (r :: p :: rest)
  | [r, p] => if bucketed then [] else [⟨slot, r, p⟩]
  | _ => []

/-- `_unpickle_c_arrays`: a block of exactly `length` words per non-zero length. -/
def unpickleSlots (bucketed : Bool) : Nat → List Nat → List Nat → Slots
  | _, _, [] => []
  | slot, words, len :: lens =>
    if len = 0 then none :: unpickleSlots bucketed (slot + 1) words lens
    else
      let ents := parseEntries bucketed slot ((words.take len).drop 2)
      some ⟨ents.length, ents⟩ :: unpickleSlots bucketed (slot + 1) (words.drop len) lens

/-- `_equal_c_arrays` for one slot: both `NULL`, or same stored length and the same 32-bit words. -/
def slotWordsEq (bucketed : Bool) : Option Bucket → Option Bucket → Bool
  | none, none => true
  | some b1, some b2 => bucketWords bucketed b1 == bucketWords bucketed b2
  | _, _ => false

/-- `table.__eq__(other)` **as written**: same class, equal base alphabet and `k` (and `n_buckets`), then
the C-arrays word by word.  The spacing model of the k-mer alphabet is *not* compared. -/
def tableEq (t o : Table) : Bool :=
  t.bucketed == o.bucketed && t.alph.n == o.alph.n && t.alph.k == o.alph.k && t.nb == o.nb &&
  t.slots.length == o.slots.length && (t.slots.zip o.slots).all fun x => slotWordsEq t.bucketed x.1 x.2

def pickleRoundTrip (t : Table) : Table :=
  let (w, l) := pickleSlots t.bucketed t.slots
  { t with slots := unpickleSlots t.bucketed 0 w l }

/-! ## ScoreThresholdRule (specification level: brute force over all k-mers) -/

/-- digits of a k-mer code (`split`). -/
def splitCode (n : Nat) : Nat → Nat → List Nat
  | 0, _ => []
  | k + 1, code => splitCode n k (code / n) ++ [code % n]

/-- number of symbols of the substitution matrix' alphabet (`mat` is the row-major `m × m` matrix; the
matrix alphabet may be larger than the base alphabet of the k-mers, which it must extend). -/
def matDim (mat : List Int) : Nat :=
  match (List.range (mat.length + 1)).find? (fun m => m * m == mat.length) with
  | some m => m
  | none => 0          -- not a square matrix (never generated): no symbols, i.e. incompatible

/-- similarity score of two split k-mers under the row-major `m × m` matrix `mat`. -/
def scoreOf (m : Nat) (mat : List Int) (a b : List Nat) : Int :=
  (a.zip b).foldl (fun s xy => s + (mat[xy.1 * m + xy.2]?.getD 0)) 0

/-- `ScoreThresholdRule(matrix, threshold).similar_kmers(kmer_alphabet, kmer)` as a set: all k-mers
**over the base alphabet** whose total substitution score with `q` reaches the threshold (the matrix
is trimmed to the base alphabet: symbols the matrix knows in addition never appear). -/
def scoreSim (a : KAlph) (mat : List Int) (thr : Int) (q : Nat) : List Nat :=
  (List.range a.size).filter fun q' =>
    decide (scoreOf (matDim mat) mat (splitCode a.n a.k q) (splitCode a.n a.k q') ≥ thr)

/-- `max_scores = np.max(score_matrix, axis=-1)`: the row maxima over the *whole* matrix row. -/
def rowMax (m : Nat) (mat : List Int) (x : Nat) : Int :=
  ((List.range m).map fun y => mat[x * m + y]?.getD 0).foldl max (mat[x * m]?.getD 0)

/-- the branch-and-bound search of `ScoreThresholdRule.similar_kmers` (the `while pos != -1` loop
written as the depth-first recursion it performs): `qs` are the remaining symbols of the query
k-mer, `score` the score of the prefix chosen so far; candidate symbols run over the `n` symbols of
the base alphabet (the matrix, of row length `m`, is trimmed to it); a symbol `c` is kept iff the
prefix score reaches `positional_thresholds[pos] = threshold - Σ_{j>pos} max_scores[q_j]`. -/
def bbSearch (n m : Nat) (mat : List Int) (maxS : Nat → Int) (thr : Int) : List Nat → Int → List (List Nat)
  | [], _ => [[]]
  | qd :: qs, score =>
    (List.range n).flatMap fun c =>
      let sc := score + mat[qd * m + c]?.getD 0
      if sc ≥ thr - (qs.map maxS).sum then (bbSearch n m mat maxS thr qs sc).map (c :: ·) else []

/-- `similar_kmers(kmer_alphabet, kmer)`: split, search, fuse. -/
def bbSim (a : KAlph) (mat : List Int) (thr : Int) (q : Nat) : List Nat :=
  (bbSearch a.n (matDim mat) mat (rowMax (matDim mat) mat) thr (splitCode a.n a.k q) 0).map (fuseCodes a.n)

/-- the guard of `similar_kmers`: the matrix alphabet must extend the base alphabet. -/
def ruleCompatible (a : KAlph) (mat : List Int) : Bool := a.n ≤ matDim mat

/-! ## Permutations -/

def int64Max : Int := 9223372036854775807

/-- `RandomPermutation.permute`: `(a * kmer + 1) mod 2^64` read as signed int64. -/
def lcg (kmer : Nat) : Int :=
  let u : Nat := (0xd1342543de82ef95 * kmer + 1) % 2 ^ 64
  if u < 2 ^ 63 then (u : Int) else (u : Int) - 2 ^ 64

def insertBy (key : Nat → Nat) (x : Nat) : List Nat → List Nat
  | [] => [x]
  | y :: ys => if key x ≤ key y then x :: y :: ys else y :: insertBy key x ys

/-- `np.argsort(counts, kind="stable")`: indices are inserted from the right, each before the
first element whose key is not smaller, so equal keys keep their index order. -/
def stableArgsort (counts : List Nat) : List Nat :=
  (List.range counts.length).foldr (insertBy (fun j => counts[j]?.getD 0)) []

/-- `_invert_mapping`. -/
def invertMapping (order : List Nat) : List Nat :=
  (List.range order.length).map fun v => (order.idxOf v)

inductive Perm where
  | ident
  | random
  | freq (counts : List Nat)
  | table (vals : List Int)
  deriving Repr

/-- `permutation.permute(kmers)` (`IndexError` for a table lookup outside the table). -/
def Perm.apply (p : Perm) (kmers : List Nat) : Except Err (List Int) :=
  match p with
  | .ident => .ok (kmers.map Int.ofNat)
  | .random => .ok (kmers.map lcg)
  | .freq counts =>
    let tab := invertMapping (stableArgsort counts)
    mapMExcept (fun q => match tab[q]? with | some v => .ok (Int.ofNat v) | none => .error .indexError) kmers
  | .table vals =>
    mapMExcept (fun q => match vals[q]? with | some v => .ok v | none => .error .indexError) kmers

/-! ## Selectors -/

/-- `_chunk_wise_forward_argcummin` **as written**: the running minimum is reset to
`MAX_INT_64` at chunk starts, the arg-min only moves on a strictly smaller value. -/
def fwdArgcummin (w : Nat) : Nat → Int → Nat → List Int → List Nat
  | _, _, _, [] => []
  | i, curMin, curI, v :: vs =>
    let curMin := if i % w = 0 then int64Max else curMin
    if v < curMin then i :: fwdArgcummin w (i + 1) v i vs
    else curI :: fwdArgcummin w (i + 1) curMin curI vs

/-- `_chunk_wise_reverse_argcummin` **as written**, right to left; `vs` is the reversed value
list and `i` the index of its head.  Returns the positions in reversed order. -/
def revArgcumminAux (w : Nat) : Nat → Int → Nat → List Int → List Nat
  | _, _, _, [] => []
  | i, curMin, curI, v :: vs =>
    let curMin := if i % w = w - 1 then int64Max else curMin
    if v ≤ curMin then i :: revArgcumminAux w (i - 1) v i vs
    else curI :: revArgcumminAux w (i - 1) curMin curI vs

def revArgcummin (w : Nat) (vals : List Int) : List Nat :=
  (revArgcumminAux w (vals.length - 1) int64Max 0 vals.reverse).reverse

/-- the per-window combination in `_minimize`: ties go to the reverse pass. -/
def combine (ord : List Int) (f r : Nat) : Option Nat :=
  match ord[f]?, ord[r]? with
  | some fv, some rv => some (if fv < rv then f else r)
  | _, _ => none

/-- `_minimize(kmers, ordering, window, include_duplicates=True)`: one position per window. -/
def minimizeAll (ord : List Int) (w : Nat) : Except Err (List Nat) :=
  let fwd := fwdArgcummin w 0 int64Max 0 ord
  let rev := revArgcummin w ord
  mapMExcept (fun i =>
      match fwd[i + w - 1]?, rev[i]? with
      | some f, some r => match combine ord f r with
        | some c => .ok c
        | none => .error ub
      | _, _ => .error ub)
    (List.range (ord.length - (w - 1)))

/-- dropping a position equal to the previously *emitted* one (`prev_argcummin`). -/
def dedupConsecutive : List Nat → List Nat
  | x :: y :: r => if x == y then dedupConsecutive (y :: r) else x :: dedupConsecutive (y :: r)
  | l => l

/-- `MinimizerSelector.select_from_kmers`. -/
def minimizerSelect (w : Nat) (p : Perm) (kmers : List Nat) : Except Err (List (Nat × Nat)) :=
  if w < 2 then .error .valueError else
  match p.apply kmers with
  | .error e => .error e
  | .ok ord =>
    if kmers.length < w then .error .valueError
    else match minimizeAll ord w with
      | .error e => .error e
      | .ok ps => mapMExcept (fun i => match kmers[i]? with | some q => .ok (i, q) | none => .error ub)
                    (dedupConsecutive ps)

/-- leftmost position of the minimum of `ord[lo .. lo+len-1]` (the specification). -/
def leftmostArgmin (ord : List Int) (lo : Nat) : Nat → Option Nat
  | 0 => none
  | len + 1 =>
    match ord[lo]? with
    | none => none
    | some v =>
      match leftmostArgmin ord (lo + 1) len with
      | none => some lo
      | some j => match ord[j]? with
        | some vj => if vj < v then some j else some lo
        | none => none

/-- `np.argmin`: leftmost minimum of a non-empty list. -/
def argminList (vals : List Int) : Option Nat := leftmostArgmin vals 0 vals.length

/-- `SyncmerSelector.__init__` offset normalisation. -/
def syncOffsets (window : Nat) (offsets : List Int) : Except Err (List Nat) :=
  let offs := offsets.map fun o => if o < 0 then (window : Int) + o else o
  if offs.any (fun o => o ≥ window || o < 0) then .error .indexError
  else
    let ns := offs.map Int.toNat
    if hasAdjDup (sortNats ns) then .error .valueError else .ok ns

/-- `_filter_syncmer_pos`: indices whose relative minimum position is one of the offsets. -/
def filterSyncmer (offs : List Nat) (rel : List Int) : List Nat :=
  (zipIdx rel).filterMap fun (i, r) => if offs.any (fun o => (o : Int) == r) then some i else none

/-- `SyncmerSelector.select(sequence)`. -/
def syncmerSelect (n k s : Nat) (p : Perm) (offsets : List Int) (seq : List Nat) :
    Except Err (List (Nat × Nat)) :=
  if ¬ s < k then .error .valueError else
  match mkAlph n k none, mkAlph n s none with
  | .ok ka, .ok sa =>
    match syncOffsets (k - s + 1) offsets with
    | .error e => .error e
    | .ok offs =>
      match createKmers ka seq, createKmers sa seq with
      | .ok kmers, .ok smers =>
        match p.apply smers with
        | .error e => .error e
        | .ok ord =>
          match minimizeAll ord (k - s + 1) with
          | .error e => .error e
          | .ok minPos =>
            let rel := (zipIdx minPos).map fun (i, m) => (m : Int) - (i : Int)
            -- `min_pos - np.arange(len(kmers))` needs equal lengths
            if minPos.length ≠ kmers.length then .error .valueError else
            mapMExcept (fun i => match kmers[i]? with | some q => .ok (i, q) | none => .error ub)
              (filterSyncmer offs rel)
      | .error e, _ => .error e
      | _, .error e => .error e
  | .error e, _ => .error e
  | _, .error e => .error e

/-- constructor part of `SyncmerSelector`: the s-mer alphabet and the normalised offsets. -/
def syncSetup (n k s : Nat) (offsets : List Int) : Except Err (KAlph × List Nat) :=
  if ¬ s < k then .error .valueError else
  match mkAlph n k none, mkAlph n s none with
  | .ok _, .ok sa =>
    match syncOffsets (k - s + 1) offsets with
    | .error e => .error e
    | .ok offs => .ok (sa, offs)
  | .error e, _ => .error e
  | _, .error e => .error e

/-- per-k-mer part of `select_from_kmers`: position of the (leftmost) minimal s-mer inside k-mer `q`. -/
def syncMinPos (n k : Nat) (sa : KAlph) (p : Perm) (q : Nat) : Except Err Int :=
  match createKmers sa (splitCode n k q) with
  | .error e => .error e
  | .ok smers => match p.apply smers with
    | .error e => .error e
    | .ok ord => match argminList ord with
      | some m => .ok (m : Int)
      | none => .error .valueError

/-- `kmers[syncmer_pos]`: the selected indices paired with the k-mer there. -/
def pairWithKmers (kmers : List Nat) (pos : List Nat) : Except Err (List (Nat × Nat)) :=
  mapMExcept (fun i => match kmers[i]? with | some q => .ok (i, q) | none => .error ub) pos

/-- `SyncmerSelector.select_from_kmers(kmers)`. -/
def syncmerFromKmers (n k s : Nat) (p : Perm) (offsets : List Int) (kmers : List Nat) :
    Except Err (List (Nat × Nat)) :=
  match syncSetup n k s offsets with
  | .error e => .error e
  | .ok (sa, offs) =>
    if ! kmers.all (· < n ^ k) then .error .alphabetError else
    match mapMExcept (syncMinPos n k sa p) kmers with
    | .error e => .error e
    | .ok minPos => pairWithKmers kmers (filterSyncmer offs minPos)

/-- `CachedSyncmerSelector.__init__`: `select_from_kmers` on all k-mer codes, stored as a boolean table. -/
def cachedSyncmerMask (n k s : Nat) (p : Perm) (offsets : List Int) : Except Err (List Bool) :=
  match syncmerFromKmers n k s p offsets (List.range (n ^ k)) with
  | .error e => .error e
  | .ok sel => .ok ((List.range (n ^ k)).map fun q => sel.any (fun x => x.1 == q))

/-- `self._syncmer_mask[kmer]` (numpy raises `IndexError` outside the table). -/
def maskLookup (mask : List Bool) (q : Nat) : Except Err Bool :=
  match mask[q]? with
  | some b => .ok b
  | none => .error .indexError

/-- `CachedSyncmerSelector.select_from_kmers(kmers)`: `np.where(mask[kmers])`, then `kmers[pos]`. -/
def cachedSyncmerFromKmers (n k s : Nat) (p : Perm) (offsets : List Int) (kmers : List Nat) :
    Except Err (List (Nat × Nat)) :=
  match cachedSyncmerMask n k s p offsets with
  | .error e => .error e
  | .ok mask =>
    match mapMExcept (maskLookup mask) kmers with
    | .error e => .error e
    | .ok flags => pairWithKmers kmers ((zipIdx flags).filterMap fun (i, b) => if b then some i else none)

/-- the permutation as a function on one k-mer code (`permute` applies it element-wise). -/
def Perm.fn (p : Perm) (q : Nat) : Except Err Int :=
  match p with
  | .ident => .ok (Int.ofNat q)
  | .random => .ok (lcg q)
  | .freq counts =>
    match (invertMapping (stableArgsort counts))[q]? with
    | some v => .ok (Int.ofNat v)
    | none => .error .indexError
  | .table vals =>
    match vals[q]? with
    | some v => .ok v
    | none => .error .indexError

/-- `permutation.min` (0 without permutation). -/
def Perm.offset : Perm → Int
  | .random => -(2 : Int) ^ 63
  | _ => 0

/-- `permutation.max - permutation.min + 1` (`len(kmer_alphabet)` without permutation). -/
def Perm.range (size : Nat) : Perm → Int
  | .ident => (size : Int)
  | .random => (2 : Int) ^ 64
  | .freq counts => (counts.length : Int)
  | .table vals => (vals.length : Int)

/-- `MincodeSelector`: positions whose permuted code is below
`offset + range / compression`, compared exactly as `(v - offset) * compression < range`. -/
def mincodeSelect (a : KAlph) (compression : Nat) (p : Perm) (kmers : List Nat) :
    Except Err (List (Nat × Nat)) :=
  if compression < 1 then .error .valueError else
  match p.apply kmers with
  | .error e => .error e
  | .ok ord =>
    .ok (((zipIdx kmers).zip ord).filterMap fun ((i, q), v) =>
      if (v - p.offset) * (compression : Int) < p.range a.size then some (i, q) else none)

/-! ## less-used entry points: `select(sequence, alphabet_check)`, table protocol methods, alphabet methods -/

/-- the alphabet test at the head of every `select(sequence, alphabet_check=True)`. -/
def selectGuard (a : KAlph) (qa : QAlph) (chk : Bool) : Bool := !chk || qa.extendedBy a.n

/-- `MinimizerSelector(kmer_alphabet, window, permutation).select(sequence, alphabet_check)`. -/
def minimizerSelectSeq (a : KAlph) (w : Nat) (p : Perm) (qa : QAlph) (chk : Bool) (seq : List Nat) :
    Except Err (List (Nat × Nat)) :=
  if w < 2 then .error .valueError
  else if ! selectGuard a qa chk then .error .valueError
  else match createKmers a seq with
    | .error e => .error e
    | .ok ks => minimizerSelect w p ks

/-- `MincodeSelector(kmer_alphabet, compression, permutation).select(sequence, alphabet_check)`. -/
def mincodeSelectSeq (a : KAlph) (c : Nat) (p : Perm) (qa : QAlph) (chk : Bool) (seq : List Nat) :
    Except Err (List (Nat × Nat)) :=
  if c < 1 then .error .valueError
  else if ! selectGuard a qa chk then .error .valueError
  else match createKmers a seq with
    | .error e => .error e
    | .ok ks => mincodeSelect a c p ks

/-- `SyncmerSelector(...).select(sequence, alphabet_check)` resp. `CachedSyncmerSelector(...).select(...)`:
constructor first (the cached one tabulates all k-mers), then the alphabet test, then the selection. -/
def syncmerSelectSeq (n k s : Nat) (p : Perm) (offsets : List Int) (cached : Bool) (qa : QAlph) (chk : Bool)
    (seq : List Nat) : Except Err (List (Nat × Nat)) :=
  match syncSetup n k s offsets with
  | .error e => .error e
  | .ok _ =>
    let ctor : Except Err Unit :=
      if cached then (match cachedSyncmerMask n k s p offsets with | .error e => .error e | .ok _ => .ok ())
      else .ok ()
    match ctor with
    | .error e => .error e
    | .ok _ =>
      if ! selectGuard ⟨n, k, none⟩ qa chk then .error .valueError
      else if cached then
        match createKmers ⟨n, k, none⟩ seq with
        | .error e => .error e
        | .ok ks => cachedSyncmerFromKmers n k s p offsets ks
      else syncmerSelect n k s p offsets seq

/-- `kmer in table` (`KmerTable.__contains__`; bounds-checked memoryview access). -/
def tableHas (t : Table) (q : Nat) : Except Err Bool :=
  if t.bucketed then .error .typeError
  else match t.slots[q]? with
    | none => .error .indexError
    | some s => .ok s.isSome

/-- letters of a k-mer (`decode` over a `LetterAlphabet` "ABC…"). -/
def kmerLetters (a : KAlph) (q : Nat) : String :=
  String.ofList ((splitCode a.n a.k q).map fun d => Char.ofNat (65 + d))

/-- `str(table)` with blanks removed and lines joined by `|`. -/
def tableStr (t : Table) : String :=
  Proto.joinWith "|" ((getKmers t).map fun q =>
    kmerLetters t.alph q ++ ":" ++ Proto.joinWith "," (match getItem t q with
      | .ok ps => ps.map fun (r, p) => s!"({r},{p})"
      | .error _ => []))

/-- `KmerAlphabet.split(kmer_code)`. -/
def splitChecked (a : KAlph) (q : Nat) : Except Err (List Nat) :=
  if q ≥ a.size then .error .alphabetError else .ok (splitCode a.n a.k q)

/-- `KmerAlphabet.encode(symbols)` on symbols given by their codes (a symbol outside the alphabet has code ≥ n). -/
def encodeChecked (a : KAlph) (codes : List Nat) : Except Err Nat :=
  if codes.any (· ≥ a.n) then .error .alphabetError
  else if codes.length ≠ a.k then .error .alphabetError
  else .ok (fuseCodes a.n codes)

/-! ## refusals found by the hypothesis audit (regions the first model abstained on) -/

/-- `MincodeSelector` with a fractional compression factor `num/den` (the documented type is a float):
`compression < 1` is refused; position selected iff `v < offset + range / (num/den)`, exactly. -/
def mincodeSelectQ (a : KAlph) (num den : Nat) (p : Perm) (kmers : List Nat) :
    Except Err (List (Nat × Nat)) :=
  if den = 0 ∨ num < den then .error .valueError else
  match p.apply kmers with
  | .error e => .error e
  | .ok ord =>
    .ok (((zipIdx kmers).zip ord).filterMap fun ((i, q), v) =>
      if (v - p.offset) * (num : Int) < p.range a.size * (den : Int) then some (i, q) else none)

/-- reference ids are stored as `uint32`: the typed argument conversion refuses anything else. -/
def refIdsOk (rs : List Int) : Bool := rs.all fun r => decide (0 ≤ r ∧ r < 2 ^ 32)

/-- a constructor that would otherwise succeed raises `OverflowError` in its second pass when a
reference id does not fit `uint32`. -/
def guardRefIds (rs : List Int) (r : Except Err Table) : Except Err Table :=
  match r with
  | .ok t => if refIdsOk rs then .ok t else .error .overflowError
  | .error e => .error e

def matSymmetric (mat : List Int) : Bool :=
  (List.range (matDim mat)).all fun i => (List.range (matDim mat)).all fun j =>
    mat[i * matDim mat + j]? == mat[j * matDim mat + i]?

/-- `ScoreThresholdRule(matrix, threshold)`: the threshold is a C `int32` argument, the matrix must be symmetric. -/
def ruleCtor (mat : List Int) (thr : Int) : Except Err Unit :=
  if thr < -(2 : Int) ^ 31 ∨ thr ≥ (2 : Int) ^ 31 then .error .overflowError
  else if ! matSymmetric mat then .error .valueError
  else .ok ()

/-- `rule.similar_kmers(kmer_alphabet, kmer)` with all its refusals, as a sorted-independent list. -/
def similarKmersChecked (a : KAlph) (mat : List Int) (thr : Int) (q : Nat) : Except Err (List Nat) :=
  match ruleCtor mat thr with
  | .error e => .error e
  | .ok _ =>
    if ! ruleCompatible a mat then .error .valueError
    else if q ≥ a.size then .error .alphabetError
    else .ok (bbSim a mat thr q)

/-- `match(sequence, similarity_rule=ScoreThresholdRule(mat, thr), ignore_mask)`: the rule is built first; an
incompatible matrix is only noticed when the rule is consulted, i.e. for the first unmasked query k-mer. -/
def matchSeqRule (t : Table) (mat : List Int) (thr : Int) (seq : List Nat) (mask : Option (List Bool)) :
    Except Err (List (Nat × Nat × Nat)) :=
  match ruleCtor mat thr with
  | .error e => .error e
  | .ok _ =>
    if seq.length < t.alph.k then .error .valueError else
    match createKmers t.alph seq with
    | .error e => .error e
    | .ok qk => match prepareMask t.alph mask seq.length with
      | .error e => .error e
      | .ok qm =>
        if ! ruleCompatible t.alph mat && ((qk.zip qm).any fun x => x.2) then .error .valueError
        else .ok (matchKmersSim (scoreSim t.alph mat thr) t qk qm)

/-- `self.match_table(other, similarity_rule=…)`: the rule is consulted for every stored k-mer of `other`. -/
def matchTableRule (t o : Table) (mat : List Int) (thr : Int) : Except Err (List (Nat × Nat × Nat × Nat)) :=
  match ruleCtor mat thr with
  | .error e => .error e
  | .ok _ =>
    match matchTableSim (scoreSim t.alph mat thr) t o with
    | .error e => .error e
    | .ok l => if ! ruleCompatible t.alph mat && ! (contents o).isEmpty then .error .valueError else .ok l

/-- `FrequencyPermutation(kmer_alphabet, counts)` refuses a count array of the wrong length. -/
def Perm.ctorOk (p : Perm) (size : Nat) : Bool :=
  match p with
  | .freq counts => counts.length == size
  | _ => true

end BiotiteModel.C10

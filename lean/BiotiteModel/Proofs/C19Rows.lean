import BiotiteModel.Proofs.C19Dist
import BiotiteModel.Proofs.C19Binary
/-! The compositional leaf-to-leaf distance matrix `T.rows` is the matrix of `distance_to` queries
between the leaves (in depth-first order). -/
namespace BiotiteModel.C19

/-- Path sum through the lowest common ancestor (the value `distance_to` returns, see
`distanceTo_path_sum`). -/
def psum (t : T Rat) (p q : List Nat) : Option Rat :=
  (t.sub? (commonPrefix p q)).bind fun u =>
    (downLen false u (p.drop (commonPrefix p q).length)).bind fun x =>
      (downLen false u (q.drop (commonPrefix p q).length)).map fun y => x + y

/-- For a list of node paths: depth of each, and path sums to all later ones. -/
def rowsOf (P : T Rat) : List (List Nat) → List (Option Rat × List (Option Rat))
  | [] => []
  | p :: L => (downLen false P p, L.map (psum P p)) :: rowsOf P L

def lift (r : Rat × List Rat) : Option Rat × List (Option Rat) := (some r.1, r.2.map some)

theorem distanceTo_eq_psum (t : T Rat) (p q : List Nat) (hp : (t.sub? p).isSome) (hq : (t.sub? q).isSome) :
    ∃ v, psum t p q = some v ∧ distanceTo t false p q = .ok v := by
  obtain ⟨u, x, y, hu, hx, hy, hd⟩ := distanceTo_path_sum t false p q hp hq
  exact ⟨x + y, by simp [psum, hu, hx, hy], hd⟩

theorem downLen_cons (P : T Rat) (k : Nat) (d : Rat) (c : T Rat) (h : childOf P k = some (d, c)) (p : List Nat) :
    downLen false P (k :: p) = (downLen false c p).map (fun x => d + x) := by
  simp only [downLen, h]
  cases downLen false c p <;> simp

theorem psum_same (P : T Rat) (k : Nat) (d : Rat) (c : T Rat) (h : childOf P k = some (d, c)) (p q : List Nat) :
    psum P (k :: p) (k :: q) = psum c p q := by
  simp [psum, commonPrefix, sub?_cons, h]

theorem psum_diff (P : T Rat) (k j : Nat) (hkj : k ≠ j) (p q : List Nat) :
    psum P (k :: p) (j :: q) =
      (downLen false P (k :: p)).bind fun x => (downLen false P (j :: q)).map fun y => x + y := by
  simp [psum, commonPrefix, hkj, T.sub?]

/-- The core step: the leaves of child `k` (paths `L1` inside `c`) followed by later paths `L2` that
start at other children. -/
theorem rowsOf_glue (P : T Rat) (k : Nat) (d : Rat) (c : T Rat) (hc : childOf P k = some (d, c))
    (L2 : List (List Nat)) (R2 : Rows) (h2 : rowsOf P L2 = R2.map lift)
    (hstart : ∀ p ∈ L2, ∃ j q, p = j :: q ∧ k ≠ j) :
    ∀ (L1 : List (List Nat)) (R1 : Rows), rowsOf c L1 = R1.map lift →
      rowsOf P (L1.map (k :: ·) ++ L2) = (glue (shift d R1) R2).map lift := by
  have hdepth2 : L2.map (downLen false P) = R2.map (fun r => some r.1) := by
    clear hstart
    induction L2 generalizing R2 with
    | nil => cases R2 <;> simp_all [rowsOf]
    | cons p L2 ih =>
      cases R2 with
      | nil => simp [rowsOf] at h2
      | cons r R2 =>
        simp only [rowsOf, List.map_cons, List.cons.injEq] at h2
        simp only [List.map_cons, List.cons.injEq]
        exact ⟨by have := h2.1; simp [lift] at this; exact this.1, ih R2 h2.2⟩
  intro L1
  induction L1 with
  | nil =>
    intro R1 h1
    cases R1 with
    | nil => simpa [glue, shift] using h2
    | cons r R1 => simp [rowsOf] at h1
  | cons p L1 ih =>
    intro R1 h1
    cases R1 with
    | nil => simp [rowsOf] at h1
    | cons r R1 =>
      simp only [rowsOf, List.map_cons, List.cons.injEq] at h1
      obtain ⟨hhead, htail⟩ := h1
      have hd : downLen false c p = some r.1 := by
        have := congrArg Prod.fst hhead; simpa [lift] using this
      have hrow : L1.map (psum c p) = r.2.map some := by
        have := congrArg Prod.snd hhead; simpa [lift] using this
      have hdP : downLen false P (k :: p) = some (r.1 + d) := by
        rw [downLen_cons P k d c hc, hd]; simp [add_comm]
      have ih' := ih R1 htail
      simp only [List.map_cons, List.cons_append, rowsOf, glue, shift, List.map_append, List.map_map]
        at ih' ⊢
      rw [ih']
      congr 1
      simp only [lift, hdP, List.map_append, Prod.mk.injEq, true_and]
      congr 1
      · rw [← hrow]
        apply List.map_congr_left
        intro q _
        simp [psum_same P k d c hc]
      · -- later children: depth + depth
        have : L2.map (psum P (k :: p)) = L2.map (fun q => (downLen false P q).map fun y => (r.1 + d) + y) := by
          apply List.map_congr_left
          intro q hq
          obtain ⟨j, q', rfl, hkj⟩ := hstart q hq
          rw [psum_diff P k j hkj, hdP]; simp
        rw [this]
        have e : L2.map (fun q => (downLen false P q).map fun y => (r.1 + d) + y)
            = (L2.map (downLen false P)).map (fun o => o.map fun y => (r.1 + d) + y) := by
          simp [List.map_map, Function.comp_def]
        rw [e, hdepth2]
        simp [ds, List.map_map, Function.comp_def]


theorem leafPaths_start : ∀ (f : F Rat) (k : Nat), ∀ p ∈ (f.leafPaths k).map (·.2),
    ∃ j q, p = j :: q ∧ k ≤ j
  | .nil, _, p, h => by simp [F.leafPaths] at h
  | .cons d c r, k, p, h => by
    simp only [F.leafPaths, List.map_append, List.map_map, List.mem_append, List.mem_map] at h
    rcases h with ⟨a, _, rfl⟩ | ⟨a, ha, rfl⟩
    · exact ⟨k, a.2, rfl, Nat.le_refl k⟩
    · obtain ⟨j, q, e, hj⟩ := leafPaths_start r (k + 1) a.2 (List.mem_map.mpr ⟨a, ha, rfl⟩)
      exact ⟨j, q, e, by omega⟩

mutual
theorem T.rowsOf_leafPaths : ∀ t : T Rat, rowsOf t (t.leafPaths.map (·.2)) = t.rows.map lift
  | .leaf i => by simp [T.leafPaths, rowsOf, downLen, T.rows, lift]
  | .node cs => by
    simpa [T.leafPaths, T.rows] using F.rowsOf_leafPaths cs (.node cs) 0 (by intro idx; simp [childOf])
theorem F.rowsOf_leafPaths : ∀ (f : F Rat) (P : T Rat) (k : Nat),
    (∀ idx, childOf P (k + idx) = f.get? idx) →
    rowsOf P ((f.leafPaths k).map (·.2)) = f.rows.map lift
  | .nil, _, _, _ => rfl
  | .cons d c r, P, k, H => by
    have hc : childOf P k = some (d, c) := by simpa [F.get?] using H 0
    have ihr := F.rowsOf_leafPaths r P (k + 1) (by
      intro idx
      have := H (idx + 1)
      simp only [F.get?] at this
      rw [← this]; congr 1; omega)
    have ihc := T.rowsOf_leafPaths c
    have e : ((F.cons d c r).leafPaths k).map (·.2)
        = (c.leafPaths.map (·.2)).map (k :: ·) ++ (r.leafPaths (k + 1)).map (·.2) := by
      simp [F.leafPaths, List.map_map, Function.comp_def]
    rw [e]
    have hstart : ∀ p ∈ (r.leafPaths (k + 1)).map (·.2), ∃ j q, p = j :: q ∧ k ≠ j := by
      intro p hp
      obtain ⟨j, q, e, hj⟩ := leafPaths_start r (k + 1) p hp
      exact ⟨j, q, e, by omega⟩
    simpa [F.rows] using rowsOf_glue P k d c hc _ r.rows ihr hstart _ c.rows ihc
end

/-! ### indexed form -/

theorem rowsOf_get (P : T Rat) : ∀ (L : List (List Nat)) (a b : Nat), a < b → b < L.length →
    ((rowsOf P L)[a]?).bind (fun r => r.2[b - a - 1]?) = (L[a]?).bind (fun p => (L[b]?).map (psum P p)) := by
  intro L
  induction L with
  | nil => intro a b _ hb; simp at hb
  | cons p L ih =>
    intro a b hab hb
    cases a with
    | zero =>
      cases b with
      | zero => omega
      | succ b =>
        simp only [rowsOf, List.getElem?_cons_zero, Option.bind_some, List.getElem?_cons_succ]
        simp
    | succ a =>
      cases b with
      | zero => omega
      | succ b =>
        simp only [rowsOf, List.getElem?_cons_succ]
        have := ih a b (by omega) (by simpa using hb)
        have e : b + 1 - (a + 1) - 1 = b - a - 1 := by omega
        rw [e, this]

theorem downLen_sub (topo : Bool) : ∀ (p : List Nat) (u : T Rat), (downLen topo u p).isSome → (u.sub? p).isSome := by
  intro p
  induction p with
  | nil => intro u _; rfl
  | cons k p ih =>
    intro u h
    rw [sub?_cons]
    simp only [downLen] at h
    cases hc : childOf u k with
    | none => simp [hc] at h
    | some dc =>
      obtain ⟨d, c⟩ := dc
      simp only [hc] at h ⊢
      apply ih c
      cases hd : downLen topo c p with
      | none => simp [hd] at h
      | some x => rfl

/-- Every leaf path of a tree addresses a node of that tree. -/
theorem leafPaths_valid (t : T Rat) : ∀ p ∈ t.leafPaths.map (·.2), (t.sub? p).isSome := by
  have h := T.rowsOf_leafPaths t
  have hfst : (t.leafPaths.map (·.2)).map (downLen false t) = t.rows.map (fun r => some r.1) := by
    have := congrArg (List.map Prod.fst) h
    generalize t.leafPaths.map (·.2) = L at this ⊢
    generalize t.rows = R at this ⊢
    induction L generalizing R with
    | nil => cases R <;> simp_all [rowsOf]
    | cons p L ih =>
      cases R with
      | nil => simp [rowsOf] at this
      | cons r R =>
        simp only [rowsOf, List.map_cons, List.cons.injEq, lift] at this ⊢
        exact ⟨this.1, ih R this.2⟩
  intro p hp
  apply downLen_sub false
  have : downLen false t p ∈ (t.leafPaths.map (·.2)).map (downLen false t) := List.mem_map.mpr ⟨p, hp, rfl⟩
  rw [hfst] at this
  obtain ⟨r, _, hr⟩ := List.mem_map.mp this
  rw [← hr]; rfl

/-- **`T.rows` is the matrix of distance queries.**  Let `p₀, p₁, …` be the leaf paths of `t` in
depth-first order.  For `a < b` the entry `b - a - 1` of row `a` of `t.rows` exists and equals
`distance_to(leaf a, leaf b)`. -/
theorem rows_eq_distance (t : T Rat) (a b : Nat) (hab : a < b) (hb : b < t.leafPaths.length) :
    ∃ (pa pb : List Nat) (v : Rat),
      (t.leafPaths.map (·.2))[a]? = some pa ∧ (t.leafPaths.map (·.2))[b]? = some pb ∧
      ((t.rows)[a]?).bind (fun r => r.2[b - a - 1]?) = some v ∧
      distanceTo t false pa pb = .ok v := by
  have hlen : b < (t.leafPaths.map (·.2)).length := by simpa using hb
  have ha : a < (t.leafPaths.map (·.2)).length := by omega
  have hget := rowsOf_get t (t.leafPaths.map (·.2)) a b hab hlen
  rw [T.rowsOf_leafPaths t] at hget
  let pa := (t.leafPaths.map (·.2))[a]
  let pb := (t.leafPaths.map (·.2))[b]
  have hpa : (t.leafPaths.map (·.2))[a]? = some pa := List.getElem?_eq_getElem ha
  have hpb : (t.leafPaths.map (·.2))[b]? = some pb := List.getElem?_eq_getElem hlen
  obtain ⟨v, hv, hd⟩ := distanceTo_eq_psum t pa pb
    (leafPaths_valid t pa (List.getElem_mem ha)) (leafPaths_valid t pb (List.getElem_mem hlen))
  refine ⟨pa, pb, v, hpa, hpb, ?_, hd⟩
  rw [hpa, hpb] at hget
  simp only [Option.bind_some, Option.map_some, hv] at hget
  -- transfer from the lifted rows
  cases hr : (t.rows)[a]? with
  | none => simp [List.getElem?_map, hr] at hget
  | some r =>
    simp only [List.getElem?_map, hr, Option.map_some, Option.bind_some, lift] at hget
    simp only [Option.bind_some]
    cases hrb : r.2[b - a - 1]? with
    | none => simp [hrb] at hget
    | some w => simp [hrb] at hget; rw [hget]


mutual
theorem T.leafPaths_fst : ∀ t : T Rat, t.leafPaths.map (·.1) = t.leaves
  | .leaf _ => rfl
  | .node cs => by simpa [T.leafPaths, T.leaves] using F.leafPaths_fst cs 0
theorem F.leafPaths_fst : ∀ (f : F Rat) (k : Nat), (f.leafPaths k).map (·.1) = f.leaves
  | .nil, _ => rfl
  | .cons d c r, k => by
    simp [F.leafPaths, F.leaves, List.map_map, Function.comp_def, ← T.leafPaths_fst c, F.leafPaths_fst r (k + 1)]
end

theorem leafPaths_length (t : T Rat) : t.leafPaths.length = t.leaves.length := by
  rw [← T.leafPaths_fst t]; simp

theorem rows_entry_map (R : Rows) (a k : Nat) :
    (R[a]?).bind (fun r => r.2[k]?) = ((R.map (·.2))[a]?).bind (·[k]?) := by
  simp only [List.getElem?_map]
  cases R[a]? <;> simp

/-- **`as_binary` keeps every `distance_to` answer between leaves**: the a-th and b-th leaf (depth-first
order, which `as_binary` keeps) are at the same distance in the binary tree as in the original. -/
theorem asBinary_distance_queries (t : T Rat) (hwf : t.WF = true) (ht : mkTree t = .ok t)
    (a b : Nat) (hab : a < b) (hb : b < t.leaves.length) :
    ∃ (bt : T Rat) (pa pb qa qb : List Nat) (v : Rat), asBinary t = .ok bt ∧ bt.isBin = true ∧
      bt.leaves = t.leaves ∧
      (t.leafPaths.map (·.2))[a]? = some pa ∧ (t.leafPaths.map (·.2))[b]? = some pb ∧
      (bt.leafPaths.map (·.2))[a]? = some qa ∧ (bt.leafPaths.map (·.2))[b]? = some qb ∧
      distanceTo t false pa pb = .ok v ∧ distanceTo bt false qa qb = .ok v := by
  obtain ⟨bt, hbt, hbin, hleaves, hrows⟩ := asBinary_spec t hwf ht
  obtain ⟨pa, pb, v, hpa, hpb, hv, hd⟩ := rows_eq_distance t a b hab (by rw [leafPaths_length]; exact hb)
  obtain ⟨qa, qb, w, hqa, hqb, hw, hd'⟩ := rows_eq_distance bt a b hab
    (by rw [leafPaths_length, hleaves]; exact hb)
  rw [rows_entry_map] at hv hw
  rw [hrows, hv] at hw
  cases hw
  exact ⟨bt, pa, pb, qa, qb, v, hbt, hbin, hleaves, hpa, hpb, hqa, hqb, hd, hd'⟩

end BiotiteModel.C19

import BiotiteModel.Proofs.C06Block
/-!
# C06 — cutting a file into blocks
-/
namespace BiotiteModel.C06

abbrev Block := Str × List (Str × Cols)

structure GoodBlock (b : Block) : Prop where
  name : NameOk b.1
  cats : ∀ c ∈ b.2, GoodCat c
  nodup : (b.2.map (·.1)).Nodup

theorem fileScan_cons (segs : List (Str × List Str)) (line : Str) (rest : List Str) :
    fileScan segs (line :: rest) =
      (if isEmptyLine line then fileScan (pushLine line segs) rest
       else match parseDataBlockName line with
         | some n => fileScan ((n, [line]) :: segs) rest
         | none => fileScan (pushLine line segs) rest) := by
  rw [fileScan.eq_def]
  rfl

/-- a line inside a block that does not start a new block -/
def BodyLine (l : Str) : Prop := isEmptyLine l = true ∨ parseDataBlockName l = none

theorem fileScan_body (n : Str) (L : List Str) (hL : ∀ l ∈ L, BodyLine l) (a : List Str)
    (acc : List (Str × List Str)) (more : List Str) :
    fileScan ((n, a) :: acc) (L ++ more) = fileScan ((n, L.reverse ++ a) :: acc) more := by
  induction L generalizing a with
  | nil => simp
  | cons l L ih =>
    have ih' := ih (fun x hx => hL x (by simp [hx])) (l :: a)
    simp only [List.cons_append, List.reverse_cons, List.append_assoc]
    rw [fileScan_cons]
    rcases hL l (by simp) with he | hd
    · simp only [he, if_true, pushLine]; exact ih'
    · by_cases he : isEmptyLine l = true
      · simp only [he, if_true, pushLine]; exact ih'
      · simp only [he, Bool.false_eq_true, if_false, hd, pushLine]; exact ih'

theorem segLines_facts (cats : List (Str × Cols)) (Ws : List (List Str)) (h : CatsLines cats Ws) :
    ∀ l ∈ segLines Ws, NoBreak l ∧ BodyLine l := by
  induction h with
  | nil => simp [segLines]
  | cons _ h2 _ _ ih =>
    intro l hl
    simp only [segLines, List.map_cons, List.flatten_cons, List.mem_append] at hl
    rcases hl with (hl | hl) | hl
    · exact ⟨h2.nonl l hl, Or.inr (h2.nodata l hl)⟩
    · simp at hl; subst hl; exact ⟨by decide, Or.inl (by decide)⟩
    · exact ih l hl

/-- blocks paired with their written lines (header first) -/
inductive BlocksLines : List Block → List (List Str) → Prop where
  | nil : BlocksLines [] []
  | cons {b : Block} {body : List Str} {bs : List Block} {BLs : List (List Str)} :
      NameOk b.1 →
      blockText b = .ok (unlines ((sData ++ b.1) :: body)) →
      (∀ l ∈ body, NoBreak l ∧ BodyLine l) →
      blockParse (unlines ((sData ++ b.1) :: body)) = .ok (b.2.map (fun c => (some c.1, c))) →
      BlocksLines bs BLs → BlocksLines (b :: bs) (((sData ++ b.1) :: body) :: BLs)

theorem blocksLines_exists (blocks : List Block) (h : ∀ b ∈ blocks, GoodBlock b) :
    ∃ BLs, BlocksLines blocks BLs := by
  induction blocks with
  | nil => exact ⟨[], BlocksLines.nil⟩
  | cons b bs ih =>
    obtain ⟨BLs, hBLs⟩ := ih (fun x hx => h x (by simp [hx]))
    have hb := h b (by simp)
    obtain ⟨Ws, hWs, hser, hparse⟩ := block_roundtrip b.1 b.2 hb.name hb.cats hb.nodup
    refine ⟨_, BlocksLines.cons (body := ['#'] :: segLines Ws) hb.name ?_ ?_ hparse hBLs⟩
    · simp only [blockText, hser]
    · intro l hl
      rcases List.mem_cons.mp hl with rfl | hl
      · exact ⟨by decide, Or.inl (by decide)⟩
      · exact segLines_facts b.2 Ws hWs l hl

def mkBSegs : List Block → List (List Str) → List (Str × List Str)
  | b :: bs, BL :: BLs => (b.1, BL.reverse) :: mkBSegs bs BLs
  | _, _ => []

theorem fileScan_all (blocks : List Block) (BLs : List (List Str)) (h : BlocksLines blocks BLs)
    (acc : List (Str × List Str)) :
    fileScan acc BLs.flatten = (mkBSegs blocks BLs).reverse ++ acc := by
  induction h generalizing acc with
  | nil => simp [mkBSegs, fileScan]
  | @cons b body bs BLs' hname _ hbody _ _ ih =>
    obtain ⟨hh1, _, _, hh4, _⟩ := header_facts b.1 hname
    simp only [List.flatten_cons, List.cons_append]
    rw [fileScan_cons]
    simp only [hh1, Bool.false_eq_true, if_false, hh4]
    rw [fileScan_body b.1 body (fun l hl => (hbody l hl).2) [sData ++ b.1] acc BLs'.flatten, ih]
    simp [mkBSegs]

theorem closeSegs_mkBSegs (blocks : List Block) (BLs : List (List Str)) (h : BlocksLines blocks BLs) :
    closeSegs ((mkBSegs blocks BLs).reverse) = (blocks.zip BLs).map (fun bw => (bw.1.1, unlines bw.2)) := by
  simp only [closeSegs, List.reverse_reverse]
  induction h with
  | nil => rfl
  | cons _ _ _ _ _ ih => simp [mkBSegs, ih]

/-- **A whole file.** -/
theorem file_roundtrip (blocks : List Block) (hb : ∀ b ∈ blocks, GoodBlock b) (hnd : (blocks.map (·.1)).Nodup) :
    ∃ text, fileSerialize blocks = .ok text ∧
      fileParse text = .ok (blocks.map (fun b => (b.1, b.2.map (fun c => (some c.1, c))))) := by
  obtain ⟨BLs, hBLs⟩ := blocksLines_exists blocks hb
  have hm : mapM' blockText blocks = .ok (BLs.map unlines) := by
    induction hBLs with
    | nil => rfl
    | cons _ h2 _ _ _ ih =>
      simp only [mapM', h2, ih (fun x hx => hb x (by simp [hx])) (List.nodup_cons.mp (by rw [List.map_cons] at hnd; exact hnd)).2,
        bind, Except.bind, List.map_cons]
  have hflat : (BLs.map unlines).flatten = unlines BLs.flatten := by
    clear hm hBLs
    induction BLs with
    | nil => rfl
    | cons B Bs ih => rw [List.map_cons, List.flatten_cons, ih, List.flatten_cons, unlines_append]
  refine ⟨unlines BLs.flatten, ?_, ?_⟩
  · unfold fileSerialize
    simp only [hm, bind, Except.bind, hflat]
  · have hnl : ∀ l ∈ BLs.flatten, NoBreak l := by
      clear hm hflat hb hnd
      induction hBLs with
      | nil => simp
      | cons hname _ hbody _ _ ih =>
        intro l hl
        simp only [List.flatten_cons, List.cons_append, List.mem_cons, List.mem_append] at hl
        rcases hl with rfl | hl | hl
        · exact (header_facts _ hname).2.2.2.2
        · exact (hbody l hl).1
        · exact ih l hl
    have hkeys : (((blocks.zip BLs).map (fun bw => (bw.1.1, unlines bw.2))).map (·.1)).Nodup := by
      have hlen : ∀ (bs : List Block) (ws : List (List Str)), BlocksLines bs ws →
          ((bs.zip ws).map (fun bw => (bw.1.1, unlines bw.2))).map (·.1) = bs.map (·.1) := by
        intro bs ws h
        induction h with
        | nil => rfl
        | cons _ _ _ _ _ ih => simp only [List.zip_cons_cons, List.map_cons, ih]
      rw [hlen blocks BLs hBLs]; exact hnd
    have hfd : fileDeserialize (unlines BLs.flatten) = (blocks.zip BLs).map (fun bw => (bw.1.1, unlines bw.2)) := by
      unfold fileDeserialize
      rw [splitLines_unlines _ hnl, fileScan_all blocks BLs hBLs [], List.append_nil,
        closeSegs_mkBSegs blocks BLs hBLs]
      unfold toDict
      exact foldl_dictSet_nodup _ hkeys
    unfold fileParse
    rw [hfd]
    clear hfd hkeys hnl hflat hm hb hnd
    induction hBLs with
    | nil => rfl
    | cons _ _ _ h4 _ ih =>
      simp only [List.zip_cons_cons, List.map_cons, mapM', h4, ih, bind, Except.bind]

end BiotiteModel.C06

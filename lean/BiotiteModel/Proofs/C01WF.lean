import BiotiteModel.Proofs.C01
/-! Well-formedness invariant of C01 containers and its preservation by every operation. -/
namespace BiotiteModel.C01

def WFBonds (n : Nat) (b : Bonds) : Prop := b.count = n ∧ ∀ x ∈ b.bs, x.1 < x.2.1 ∧ x.2.1 < n

/-- all annotation columns and coordinate blocks have length `n`, an atom array has one block, the box has
one entry per model, the bond list counts `n` atoms and every bond is `i < j < n`. -/
structure WF (a : Arr) : Prop where
  cols : ∀ p ∈ a.annot, p.2.length = a.n
  blocks : ∀ c ∈ a.coord, c.length = a.n
  single : a.stack = false → a.coord.length = 1
  box : ∀ b, a.box = some b → b.length = a.coord.length
  bonds : ∀ b, a.bonds = some b → WFBonds a.n b

def WFVal : Val → Prop
  | .arr a => WF a
  | _ => True

def WFState (st : State) : Prop := ∀ v ∈ st, WFVal v

/-! ### resolve stays in range -/

theorem resolve_lt {n : Nat} {ix : Index} {l : List Nat} (h : resolve n ix = .ok l) : ∀ k ∈ l, k < n := by
  intro k hk
  cases ix with
  | int i =>
    simp only [resolve] at h
    cases hn : normInt n i with
    | error e => rw [hn] at h; cases h
    | ok k' => rw [hn] at h; cases h; simp at hk; subst hk; exact (normInt_ok hn).1
  | slice a b c =>
    simp only [resolve] at h
    split at h
    · cases h
    · cases h
      unfold sliceSel at hk
      split at hk
      · rename_i hpos
        rw [mem_rangeUp (by omega)] at hk
        have := stopUp_le n b
        omega
      · rename_i hneg hz
        have hs : 0 < (-(c.getD 1)).toNat := by omega
        rw [mem_rangeDown hs] at hk
        have := startDown_le n a
        omega
  | mask bs kind =>
    simp only [resolve] at h
    split at h
    · cases h; simp at hk
    · split at h
      · cases h
        have := (maskSel_mem bs 0 k).1 hk
        rename_i hlen
        have h2 := this.2
        simp only [Nat.sub_zero] at h2
        have : k < bs.length := by
          rcases Nat.lt_or_ge k bs.length with h | h
          · exact h
          · rw [List.getElem?_eq_none h] at h2; cases h2
        omega
      · cases h
  | arr is nd =>
    simp only [resolve] at h
    have ⟨hl, hz⟩ := normAll_ok h
    obtain ⟨j, hj, rfl⟩ := List.getElem_of_mem hk
    have hj' : j < is.length := by omega
    have : (is[j], l[j]) ∈ is.zip l := by
      rw [List.mem_iff_getElem]
      exact ⟨j, by simp [hl]; omega, by simp⟩
    exact (normInt_ok (hz _ this)).1
  | ellipsis =>
    simp only [resolve] at h
    cases h; simpa using hk

/-! ### bonds -/

theorem pos_some : ∀ {l : List Nat} {i a : Nat}, pos l i = some a → l[a]? = some i
  | [], _, _, h => by cases h
  | x :: xs, i, a, h => by
    unfold pos at h
    split at h
    · cases h; simp [*]
    · cases hp : pos xs i with
      | none => rw [hp] at h; cases h
      | some a' => rw [hp] at h; cases h; simpa using pos_some hp

theorem pos_lt {l : List Nat} {i a : Nat} (h : pos l i = some a) : a < l.length := by
  have := pos_some h
  rcases Nat.lt_or_ge a l.length with h' | h'
  · exact h'
  · rw [List.getElem?_eq_none h'] at this; cases this

theorem relabel_wf (bs : List Bond) (sel : List Nat) (h : ∀ x ∈ bs, x.1 < x.2.1) :
    ∀ y ∈ relabel bs sel, y.1 < y.2.1 ∧ y.2.1 < sel.length := by
  intro y hy
  unfold relabel at hy
  rw [List.mem_filterMap] at hy
  obtain ⟨b, hb, hy⟩ := hy
  split at hy
  · rename_i a c ha hc
    cases hy
    have h1 := pos_some ha
    have h2 := pos_some hc
    have hac : a ≠ c := by
      intro e; subst e; rw [h1] at h2; have := Option.some.inj h2; have := h b hb; omega
    have := pos_lt ha; have := pos_lt hc
    simp only
    omega
  · cases hy

theorem select_wf {n : Nat} (b : Bonds) (sel : List Nat) (h : WFBonds n b) : WFBonds sel.length (b.select sel) :=
  ⟨rfl, relabel_wf b.bs sel (fun x hx => (h.2 x hx).1)⟩

theorem concat_wf : ∀ (l : List Bonds), (∀ b ∈ l, WFBonds b.count b) → WFBonds (Bonds.concat l).count (Bonds.concat l)
  | [], _ => ⟨rfl, by simp [Bonds.concat]⟩
  | b :: r, h => by
    have ih := concat_wf r (fun x hx => h x (by simp [hx]))
    have hb := h b (by simp)
    refine ⟨rfl, ?_⟩
    intro x hx
    simp only [Bonds.concat, List.mem_append, offsetBonds, List.mem_map] at hx ⊢
    rcases hx with hx | ⟨y, hy, rfl⟩
    · have := hb.2 x hx; omega
    · have := ih.2 y hy; simp only; omega

theorem concat_count : ∀ (l : List Bonds), (Bonds.concat l).count = (l.map (·.count)).foldr (· + ·) 0
  | [] => rfl
  | b :: r => by simp [Bonds.concat, concat_count r]

/-! ### single-container operations -/

theorem pick_length (xs : List Tok) (sel : List Nat) : (pick xs sel).length = sel.length := by simp [pick]

theorem subarray_wf {a a' : Arr} {ix : Index} (hw : WF a) (h : subarray a ix = .ok a') : WF a' := by
  unfold subarray at h
  split at h
  · cases h
  · split at h
    · cases h
    · rename_i sel hsel
      split at h
      · cases h
      · cases h
        refine ⟨?_, ?_, ?_, ?_, ?_⟩
        · intro p hp; simp only [List.mem_map] at hp; obtain ⟨q, _, rfl⟩ := hp; simp [pick]
        · intro c hc; simp only [List.mem_map] at hc; obtain ⟨q, _, rfl⟩ := hc; simp [pick]
        · intro hs; simpa using hw.single hs
        · intro b hb; simpa using hw.box b hb
        · intro b hb
          simp only [Option.map_eq_some_iff] at hb
          obtain ⟨b0, hb0, rfl⟩ := hb
          exact select_wf b0 sel (hw.bonds b0 hb0)

theorem selModels_wf {a : Arr} {ms : List Nat} (hw : WF a) (hms : ∀ m ∈ ms, m < a.coord.length)
    (hst : a.stack = true ∨ ms.length = 1) : WF (selModels a ms) := by
  refine ⟨hw.cols, ?_, ?_, ?_, hw.bonds⟩
  · intro c hc
    simp only [selModels, List.mem_map] at hc
    obtain ⟨m, hm, rfl⟩ := hc
    have := hms m hm
    rw [List.getD_eq_getElem?_getD, List.getElem?_eq_getElem this]
    exact hw.blocks _ (List.getElem_mem _)
  · intro hs
    simp only [selModels] at hs ⊢
    rcases hst with h | h
    · rw [h] at hs; cases hs
    · simpa using h
  · intro b hb
    simp only [selModels, Option.map_eq_some_iff] at hb
    obtain ⟨b0, _, rfl⟩ := hb
    simp [selModels, pick]

theorem getArray_wf {a a' : Arr} {i : Int} (hw : WF a) (h : getArray a i = .ok a') : WF a' := by
  unfold getArray at h
  split at h
  · cases h
  · rename_i m hm
    cases h
    have hlt := (normInt_ok hm).1
    have := selModels_wf (ms := [m]) hw (by simpa using hlt) (Or.inr rfl)
    exact ⟨this.cols, this.blocks, fun _ => by simp [selModels], this.box, this.bonds⟩

theorem arrayGet_wf {a : Arr} {ix : Index} {v : Val} (hw : WF a) (h : arrayGet a ix = .ok v) : WFVal v := by
  unfold arrayGet at h
  split at h
  · cases hn : normInt a.n _ with
    | error e => rw [hn] at h; cases h
    | ok k => rw [hn] at h; cases h; trivial
  · cases hs : subarray a ix with
    | error e => rw [hs] at h; cases h
    | ok a' => rw [hs] at h; cases h; exact subarray_wf hw hs

theorem getitem_wf {a : Arr} {ix : Index} {v : Val} (hw : WF a) (h : getitem a ix = .ok v) : WFVal v := by
  unfold getitem at h
  split at h
  · exact arrayGet_wf hw h
  · rename_i hst
    have hst' : a.stack = true := by simpa using hst
    split at h
    · cases hg : getArray a _ with
      | error e => rw [hg] at h; cases h
      | ok a' => rw [hg] at h; cases h; exact getArray_wf hw hg
    · cases hr : resolve a.coord.length ix with
      | error e => rw [hr] at h; cases h
      | ok ms => rw [hr] at h; cases h; exact selModels_wf hw (resolve_lt hr) (Or.inl hst')

theorem subarray_stack {a s : Arr} {ix : Index} (h : subarray a ix = .ok s) : s.stack = a.stack := by
  unfold subarray at h
  split at h
  · cases h
  · split at h
    · cases h
    · split at h
      · cases h
      · cases h; rfl

theorem subarrayKeep_wf {a s : Arr} {ix : Index} (hw : WF a) (h : subarrayKeep a ix = .ok s) : WF s := by
  unfold subarrayKeep at h
  split at h
  · cases hn : normInt a.n _ with
    | error e => rw [hn] at h; cases h
    | ok k => rw [hn] at h; exact subarray_wf hw h
  · exact subarray_wf hw h

theorem subarrayKeep_stack {a s : Arr} {ix : Index} (h : subarrayKeep a ix = .ok s) : s.stack = a.stack := by
  unfold subarrayKeep at h
  split at h
  · cases hn : normInt a.n _ with
    | error e => rw [hn] at h; cases h
    | ok k => rw [hn] at h; exact subarray_stack h
  · exact subarray_stack h

theorem getitem2_wf {a : Arr} {i0 i1 : Index} {v : Val} (hw : WF a) (h : getitem2 a i0 i1 = .ok v) : WFVal v := by
  unfold getitem2 at h
  split at h
  · split at h
    · exact arrayGet_wf hw h
    · cases h
  · rename_i hst
    have hst' : a.stack = true := by simpa using hst
    split at h
    · cases hg : getArray a _ with
      | error e => rw [hg] at h; cases h
      | ok a' =>
        rw [hg] at h
        exact arrayGet_wf (getArray_wf hw hg) h
    · split at h
      · cases h
      · rename_i s hs
        have hws : WF s := subarrayKeep_wf hw hs
        have hss : s.stack = true := by rw [subarrayKeep_stack hs]; exact hst'
        split at h
        · cases h; exact hws
        · cases hr : resolve s.coord.length i0 with
          | error e => rw [hr] at h; cases h
          | ok ms => rw [hr] at h; cases h; exact selModels_wf hws (resolve_lt hr) (Or.inl hss)

end BiotiteModel.C01

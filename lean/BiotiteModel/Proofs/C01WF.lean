import BiotiteModel.Proofs.C01
/-! Well-formedness invariant of C01 containers and its preservation by every operation. -/
namespace BiotiteModel.C01

def WFBonds (n : Nat) (b : Bonds) : Prop := b.count = n ∧ ∀ x ∈ b.bs, x.1 < x.2.1 ∧ x.2.1 < n

/-- all annotation columns and coordinate blocks have length `n`, an atom array has one block, the box has
one entry per model, the bond list counts `n` atoms and every bond is `i < j < n`. -/
structure WF (a : Arr) : Prop where
  cols : ∀ p ∈ a.annot, p.2.length = a.n
  blocks : ∀ c ∈ a.coord, c.length = a.n
  single : a.stack = false → a.coord.length = 1
  box : ∀ b, a.box = some b → b.length = a.coord.length
  bonds : ∀ b, a.bonds = some b → WFBonds a.n b

def WFVal : Val → Prop
  | .arr a => WF a
  | _ => True

def WFState (st : State) : Prop := ∀ v ∈ st, WFVal v

/-! ### resolve stays in range -/

theorem resolve_lt {n : Nat} {ix : Index} {l : List Nat} (h : resolve n ix = .ok l) : ∀ k ∈ l, k < n := by
  intro k hk
  cases ix with
  | int i =>
    simp only [resolve] at h
    cases hn : normInt n i with
    | error e => rw [hn] at h; cases h
    | ok k' => rw [hn] at h; cases h; simp at hk; subst hk; exact (normInt_ok hn).1
  | slice a b c =>
    simp only [resolve] at h
    split at h
    · cases h
    · cases h
      unfold sliceSel at hk
      split at hk
      · rename_i hpos
        rw [mem_rangeUp (by omega)] at hk
        have := stopUp_le n b
        omega
      · rename_i hneg hz
        have hs : 0 < (-(c.getD 1)).toNat := by omega
        rw [mem_rangeDown hs] at hk
        have := startDown_le n a
        omega
  | mask bs kind =>
    simp only [resolve] at h
    split at h
    · cases h; simp at hk
    · split at h
      · cases h
        have := (maskSel_mem bs 0 k).1 hk
        rename_i hlen
        have h2 := this.2
        simp only [Nat.sub_zero] at h2
        have : k < bs.length := by
          rcases Nat.lt_or_ge k bs.length with h | h
          · exact h
          · rw [List.getElem?_eq_none h] at h2; cases h2
        omega
      · cases h
  | arr is nd =>
    simp only [resolve] at h
    have ⟨hl, hz⟩ := normAll_ok h
    obtain ⟨j, hj, rfl⟩ := List.getElem_of_mem hk
    have hj' : j < is.length := by omega
    have : (is[j], l[j]) ∈ is.zip l := by
      rw [List.mem_iff_getElem]
      exact ⟨j, by simp [hl]; omega, by simp⟩
    exact (normInt_ok (hz _ this)).1
  | ellipsis =>
    simp only [resolve] at h
    cases h; simpa using hk


/-- `resolve` fails only with numpy's two index errors -/
theorem normAll_err {n : Nat} : ∀ {is : List Int} {e : Err}, normAll n is = .error e → e = .indexError
  | [], e, h => by cases h
  | i :: is, e, h => by
    unfold normAll at h
    split at h
    · cases h
    · cases h; rfl

theorem resolve_err {n : Nat} {ix : Index} {e : Err} (h : resolve n ix = .error e) :
    e = .indexError ∨ e = .valueError := by
  cases ix with
  | int i =>
    simp only [resolve] at h
    cases hn : normInt n i with
    | error e' => rw [hn] at h; cases h; exact Or.inl (normInt_err hn).1
    | ok k => rw [hn] at h; cases h
  | slice a b c =>
    simp only [resolve] at h
    split at h
    · cases h; exact Or.inr rfl
    · cases h
  | mask bs kind =>
    simp only [resolve] at h
    split at h
    · cases h
    · split at h
      · cases h
      · cases h; exact Or.inl rfl
  | arr is k => exact Or.inl (normAll_err h)
  | ellipsis => simp only [resolve] at h; cases h

/-! ### bonds -/

theorem pos_some : ∀ {l : List Nat} {i a : Nat}, pos l i = some a → l[a]? = some i
  | [], _, _, h => by cases h
  | x :: xs, i, a, h => by
    unfold pos at h
    split at h
    · cases h; simp [*]
    · cases hp : pos xs i with
      | none => rw [hp] at h; cases h
      | some a' => rw [hp] at h; cases h; simpa using pos_some hp

theorem pos_lt {l : List Nat} {i a : Nat} (h : pos l i = some a) : a < l.length := by
  have := pos_some h
  rcases Nat.lt_or_ge a l.length with h' | h'
  · exact h'
  · rw [List.getElem?_eq_none h'] at this; cases this

theorem relabel_wf (bs : List Bond) (sel : List Nat) (h : ∀ x ∈ bs, x.1 < x.2.1) :
    ∀ y ∈ relabel bs sel, y.1 < y.2.1 ∧ y.2.1 < sel.length := by
  intro y hy
  unfold relabel at hy
  rw [List.mem_filterMap] at hy
  obtain ⟨b, hb, hy⟩ := hy
  split at hy
  · rename_i a c ha hc
    cases hy
    have h1 := pos_some ha
    have h2 := pos_some hc
    have hac : a ≠ c := by
      intro e; subst e; rw [h1] at h2; have := Option.some.inj h2; have := h b hb; omega
    have := pos_lt ha; have := pos_lt hc
    simp only
    omega
  · cases hy

theorem select_wf {n : Nat} (b : Bonds) (sel : List Nat) (h : WFBonds n b) : WFBonds sel.length (b.select sel) :=
  ⟨rfl, relabel_wf b.bs sel (fun x hx => (h.2 x hx).1)⟩

theorem concat_wf : ∀ (l : List Bonds), (∀ b ∈ l, WFBonds b.count b) → WFBonds (Bonds.concat l).count (Bonds.concat l)
  | [], _ => ⟨rfl, by simp [Bonds.concat]⟩
  | b :: r, h => by
    have ih := concat_wf r (fun x hx => h x (by simp [hx]))
    have hb := h b (by simp)
    refine ⟨rfl, ?_⟩
    intro x hx
    simp only [Bonds.concat, List.mem_append, offsetBonds, List.mem_map] at hx ⊢
    rcases hx with hx | ⟨y, hy, rfl⟩
    · have := hb.2 x hx; omega
    · have := ih.2 y hy; simp only; omega

theorem concat_count : ∀ (l : List Bonds), (Bonds.concat l).count = (l.map (·.count)).foldr (· + ·) 0
  | [] => rfl
  | b :: r => by simp [Bonds.concat, concat_count r]

/-! ### single-container operations -/

theorem pick_length (xs : List Tok) (sel : List Nat) : (pick xs sel).length = sel.length := by simp [pick]

theorem subarray_wf {a a' : Arr} {ix : Index} (hw : WF a) (h : subarray a ix = .ok a') : WF a' := by
  unfold subarray at h
  split at h
  · cases h
  · split at h
    · cases h
    · rename_i sel hsel
      split at h
      · cases h
      · cases h
        refine ⟨?_, ?_, ?_, ?_, ?_⟩
        · intro p hp; simp only [List.mem_map] at hp; obtain ⟨q, _, rfl⟩ := hp; simp [pick]
        · intro c hc; simp only [List.mem_map] at hc; obtain ⟨q, _, rfl⟩ := hc; simp [pick]
        · intro hs; simpa using hw.single hs
        · intro b hb; simpa using hw.box b hb
        · intro b hb
          simp only [Option.map_eq_some_iff] at hb
          obtain ⟨b0, hb0, rfl⟩ := hb
          exact select_wf b0 sel (hw.bonds b0 hb0)

theorem selModels_wf {a : Arr} {ms : List Nat} (hw : WF a) (hms : ∀ m ∈ ms, m < a.coord.length)
    (hst : a.stack = true ∨ ms.length = 1) : WF (selModels a ms) := by
  refine ⟨hw.cols, ?_, ?_, ?_, hw.bonds⟩
  · intro c hc
    simp only [selModels, List.mem_map] at hc
    obtain ⟨m, hm, rfl⟩ := hc
    have := hms m hm
    rw [List.getD_eq_getElem?_getD, List.getElem?_eq_getElem this]
    exact hw.blocks _ (List.getElem_mem _)
  · intro hs
    simp only [selModels] at hs ⊢
    rcases hst with h | h
    · rw [h] at hs; cases hs
    · simpa using h
  · intro b hb
    simp only [selModels, Option.map_eq_some_iff] at hb
    obtain ⟨b0, _, rfl⟩ := hb
    simp [selModels, pick]

theorem getArray_wf {a a' : Arr} {i : Int} (hw : WF a) (h : getArray a i = .ok a') : WF a' := by
  unfold getArray at h
  split at h
  · cases h
  · rename_i m hm
    cases h
    have hlt := (normInt_ok hm).1
    have := selModels_wf (ms := [m]) hw (by simpa using hlt) (Or.inr rfl)
    exact ⟨this.cols, this.blocks, fun _ => by simp [selModels], this.box, this.bonds⟩

theorem arrayGet_wf {a : Arr} {ix : Index} {v : Val} (hw : WF a) (h : arrayGet a ix = .ok v) : WFVal v := by
  unfold arrayGet at h
  split at h
  · cases hn : normInt a.n _ with
    | error e => rw [hn] at h; cases h
    | ok k => rw [hn] at h; cases h; trivial
  · cases hs : subarray a ix with
    | error e => rw [hs] at h; cases h
    | ok a' => rw [hs] at h; cases h; exact subarray_wf hw hs

theorem getitem_wf {a : Arr} {ix : Index} {v : Val} (hw : WF a) (h : getitem a ix = .ok v) : WFVal v := by
  unfold getitem at h
  split at h
  · exact arrayGet_wf hw h
  · rename_i hst
    have hst' : a.stack = true := by simpa using hst
    split at h
    · cases hg : getArray a _ with
      | error e => rw [hg] at h; cases h
      | ok a' => rw [hg] at h; cases h; exact getArray_wf hw hg
    · cases hr : resolve a.coord.length ix with
      | error e => rw [hr] at h; cases h
      | ok ms => rw [hr] at h; cases h; exact selModels_wf hw (resolve_lt hr) (Or.inl hst')

theorem subarray_stack {a s : Arr} {ix : Index} (h : subarray a ix = .ok s) : s.stack = a.stack := by
  unfold subarray at h
  split at h
  · cases h
  · split at h
    · cases h
    · split at h
      · cases h
      · cases h; rfl

theorem subarrayKeep_wf {a s : Arr} {ix : Index} (hw : WF a) (h : subarrayKeep a ix = .ok s) : WF s := by
  unfold subarrayKeep at h
  split at h
  · cases hn : normInt a.n _ with
    | error e => rw [hn] at h; cases h
    | ok k => rw [hn] at h; exact subarray_wf hw h
  · exact subarray_wf hw h

theorem subarrayKeep_stack {a s : Arr} {ix : Index} (h : subarrayKeep a ix = .ok s) : s.stack = a.stack := by
  unfold subarrayKeep at h
  split at h
  · cases hn : normInt a.n _ with
    | error e => rw [hn] at h; cases h
    | ok k => rw [hn] at h; exact subarray_stack h
  · exact subarray_stack h

theorem getitem2_wf {a : Arr} {i0 i1 : Index} {v : Val} (hw : WF a) (h : getitem2 a i0 i1 = .ok v) : WFVal v := by
  unfold getitem2 at h
  split at h
  · split at h
    · exact arrayGet_wf hw h
    · cases h
  · rename_i hst
    have hst' : a.stack = true := by simpa using hst
    split at h
    · cases hg : getArray a _ with
      | error e => rw [hg] at h; cases h
      | ok a' =>
        rw [hg] at h
        exact arrayGet_wf (getArray_wf hw hg) h
    · unfold getitem2Rest at h
      split at h
      · cases h
      · rename_i s hs
        have hws : WF s := subarrayKeep_wf hw hs
        have hss : s.stack = true := by rw [subarrayKeep_stack hs]; exact hst'
        split at h
        · cases h; exact hws
        · cases hr : resolve s.coord.length i0 with
          | error e => rw [hr] at h; cases h
          | ok ms => rw [hr] at h; cases h; exact selModels_wf hws (resolve_lt hr) (Or.inl hss)

/-! ### assignment, deletion -/

theorem setAt_length (xs : List Tok) (sel : List Nat) (v : Tok) : (setAt xs sel v).length = xs.length := by
  simp [setAt]

theorem setElement_wf {a a' : Arr} {ix : Index} {v : AtomV} (hw : WF a) (h : setElement a ix v = .ok a') : WF a' := by
  unfold setElement at h
  split at h
  · cases h
  · split at h
    · cases h
    · split at h
      · cases h
      · cases h
        refine ⟨?_, ?_, fun hs => by simpa using hw.single hs, ?_, hw.bonds⟩
        · intro p hp; simp only [List.mem_map] at hp; obtain ⟨q, hq, rfl⟩ := hp
          simpa [setAt_length] using hw.cols q hq
        · intro c hc; simp only [List.mem_map] at hc; obtain ⟨q, hq, rfl⟩ := hc
          simpa [setAt_length] using hw.blocks q hq
        · intro b hb; simpa using hw.box b hb

theorem mem_set_imp {α} {l : List α} {m : Nat} {v x : α} (h : x ∈ l.set m v) : x ∈ l ∨ x = v := by
  rcases List.mem_or_eq_of_mem_set h with h | h
  · exact Or.inl h
  · exact Or.inr h

theorem setModel_wf {a a' : Arr} {ix : Index} {v : Val} (hw : WF a) (hv : WFVal v)
    (h : setModel a ix v = .ok a') : WF a' := by
  unfold setModel at h
  split at h
  · rename_i x
    have hx : WF x := hv
    split at h; · cases h
    split at h; · cases h
    split at h; · cases h
    split at h; · cases h
    rename_i hst hn _ _
    split at h
    · split at h
      · cases h
      · split at h
        · cases h
        · cases h
          have hxn : x.n = a.n := by simpa using hn
          have hx1 : x.coord.length = 1 := hx.single (by simpa using hst)
          refine ⟨hw.cols, ?_, ?_, ?_, hw.bonds⟩
          · intro c hc
            rcases mem_set_imp hc with hc | rfl
            · exact hw.blocks c hc
            · rw [List.getD_eq_getElem?_getD, List.getElem?_eq_getElem (by omega)]
              simpa [hxn] using hx.blocks _ (List.getElem_mem _)
          · intro hs; simpa [replaceAt] using hw.single hs
          · intro b hb
            simp only [Option.map_eq_some_iff] at hb
            obtain ⟨b0, hb0, rfl⟩ := hb
            simpa [replaceAt] using hw.box b0 hb0
    · cases h
  · cases h

theorem setitem_wf {a a' : Arr} {ix : Index} {v : Val} (hw : WF a) (hv : WFVal v)
    (h : setitem a ix v = .ok a') : WF a' := by
  unfold setitem at h
  split at h
  · exact setModel_wf hw hv h
  · split at h
    · exact setElement_wf hw h
    · cases h

theorem delitem_wf {a a' : Arr} {ix : Index} (hw : WF a) (h : delitem a ix = .ok a') : WF a' := by
  unfold delitem at h
  split at h
  · split at h
    · rename_i hst
      split at h
      · cases h
      · rename_i m hm
        cases h
        have hlt := (normInt_ok hm).1
        refine ⟨hw.cols, ?_, ?_, ?_, hw.bonds⟩
        · intro c hc; exact hw.blocks c (List.mem_of_mem_eraseIdx hc)
        · intro hs; simp only at hs; rw [hst] at hs; cases hs
        · intro b hb
          simp only [Option.map_eq_some_iff] at hb
          obtain ⟨b0, hb0, rfl⟩ := hb
          have := hw.box b0 hb0
          simp [List.length_eraseIdx, this, hlt]
    · split at h
      · cases h
      · rename_i k hk
        cases h
        have hlt := (normInt_ok hk).1
        refine ⟨?_, ?_, ?_, ?_, ?_⟩
        · intro p hp; simp only [List.mem_map] at hp; obtain ⟨q, hq, rfl⟩ := hp
          have := hw.cols q hq
          simp [List.length_eraseIdx, this, hlt]
        · intro c hc; simp only [List.mem_map] at hc; obtain ⟨q, hq, rfl⟩ := hc
          have := hw.blocks q hq
          simp [List.length_eraseIdx, this, hlt]
        · intro hs; simpa using hw.single hs
        · intro b hb; simpa using hw.box b hb
        · intro b hb
          simp only [Option.map_eq_some_iff] at hb
          obtain ⟨b0, hb0, rfl⟩ := hb
          have := select_wf b0 (List.range k ++ List.range' (k + 1) (a.n - 1 - k)) (hw.bonds b0 hb0)
          have hl : (List.range k ++ List.range' (k + 1) (a.n - 1 - k)).length = a.n - 1 := by
            simp; omega
          rw [hl] at this; exact this
  · cases h

/-! ### annotation edits, setters, constructors of one container -/

theorem insert_all {α} (P : α → Prop) (k : String) (v : α) : ∀ (d : List (String × α)),
    (∀ p ∈ d, P p.2) → P v → ∀ p ∈ insert k v d, P p.2
  | [], _, hv, p, hp => by simp [insert] at hp; subst hp; exact hv
  | (k', v') :: r, hd, hv, p, hp => by
    unfold insert at hp
    split at hp
    · simp only [List.mem_cons] at hp
      rcases hp with rfl | hp
      · exact hv
      · exact hd p (by simp [hp])
    · simp only [List.mem_cons] at hp
      rcases hp with rfl | hp
      · exact hd _ (by simp)
      · exact insert_all P k v r (fun q hq => hd q (by simp [hq])) hv p hp

theorem foldl_insert_all {α} (P : α → Prop) : ∀ (cols : List (String × α)) (d : List (String × α)),
    (∀ p ∈ d, P p.2) → (∀ p ∈ cols, P p.2) → ∀ p ∈ cols.foldl (fun d p => insert p.1 p.2 d) d, P p.2
  | [], d, hd, _ => by simpa using hd
  | c :: cs, d, hd, hc => by
    simp only [List.foldl_cons]
    exact foldl_insert_all P cs _ (insert_all P c.1 c.2 d hd (hc c (by simp))) (fun p hp => hc p (by simp [hp]))

theorem mandCols_len (n : Nat) : ∀ p ∈ mandCols n, p.2.length = n := by
  intro p hp; simp only [mandCols, List.mem_map] at hp; obtain ⟨k, _, rfl⟩ := hp; simp [zeros]

theorem addAnnotation_wf {a : Arr} (k : String) (hw : WF a) : WF (addAnnotation a k) := by
  unfold addAnnotation
  split
  · exact hw
  · refine ⟨?_, hw.blocks, hw.single, hw.box, hw.bonds⟩
    intro p hp
    simp only [List.mem_append, List.mem_singleton] at hp
    rcases hp with hp | rfl
    · exact hw.cols p hp
    · simp [zeros]

theorem setAnnotation_wf {a a' : Arr} {k : String} {c : List Tok} (hw : WF a)
    (h : setAnnotation a k c = .ok a') : WF a' := by
  unfold setAnnotation at h
  split at h
  · cases h
  · rename_i hc
    cases h
    refine ⟨?_, hw.blocks, hw.single, hw.box, hw.bonds⟩
    exact insert_all (fun c => c.length = a.n) k c a.annot hw.cols (by simpa using hc)

theorem delAnnotation_wf {a a' : Arr} {k : String} (hw : WF a) (h : delAnnotation a k = .ok a') : WF a' := by
  unfold delAnnotation at h
  split at h
  · cases h
  · cases h
    exact ⟨fun p hp => hw.cols p (List.mem_filter.1 hp).1, hw.blocks, hw.single, hw.box, hw.bonds⟩

theorem all_len {coord : List (List Tok)} {n : Nat} (h : coord.all (fun c => c.length == n) = true) :
    ∀ c ∈ coord, c.length = n := by
  intro c hc; have := List.all_eq_true.1 h c hc; simpa using this

theorem setCoord_wf {a a' : Arr} {coord : List (List Tok)} (hw : WF a) (h : setCoord a coord = .ok a') : WF a' := by
  unfold setCoord at h
  split at h; · cases h
  split at h; · cases h
  split at h; · cases h
  rename_i h1 h2 h3
  cases h
  refine ⟨hw.cols, all_len (by simpa using h2), ?_, ?_, hw.bonds⟩
  · intro hs
    simp only at hs ⊢
    simp only [hs, Bool.not_false, Bool.true_and, bne_iff_ne, ne_eq, Decidable.not_not] at h1
    exact h1
  · intro b hb
    have hb' : a.box = some b := hb
    have := hw.box b hb'
    simp [hb'] at h3
    show b.length = coord.length
    omega

theorem boxDepth_ok {box : Option (List Tok)} {d : Nat} (h : ¬ boxDepthBad box d = true) :
    ∀ b, box = some b → b.length = d := by
  intro b hb; subst hb; simpa [boxDepthBad] using h

theorem setBox_wf {a a' : Arr} {box : Option (List Tok)} (hw : WF a) (h : setBox a box = .ok a') : WF a' := by
  unfold setBox at h
  split at h; · cases h
  rename_i h1
  cases h
  exact ⟨hw.cols, hw.blocks, hw.single, boxDepth_ok h1, hw.bonds⟩

theorem bondsValid_wf {n : Nat} {l : List Bond} (h : bondsValid n l = true) : WFBonds n ⟨n, l⟩ := by
  refine ⟨rfl, ?_⟩
  intro x hx
  have := List.all_eq_true.1 h x hx
  simpa using this

theorem setBonds_wf {a a' : Arr} {bs : Option (List Bond)} (hw : WF a) (h : setBonds a bs = .ok a') : WF a' := by
  unfold setBonds at h
  split at h
  · cases h; exact ⟨hw.cols, hw.blocks, hw.single, hw.box, by intro b hb; cases hb⟩
  · split at h
    · rename_i hv
      cases h
      refine ⟨hw.cols, hw.blocks, hw.single, hw.box, ?_⟩
      intro b hb; simp only [Option.some.injEq] at hb; subst hb; exact bondsValid_wf hv
    · cases h

theorem fromTemplate_wf {a a' : Arr} {coord : List (List Tok)} {box : Option (List Tok)} (hw : WF a)
    (h : fromTemplate a coord box = .ok a') : WF a' := by
  unfold fromTemplate at h
  split at h; · cases h
  split at h; · cases h
  rename_i h1 h2
  cases h
  exact ⟨hw.cols, all_len (by simpa using h1), (fun hs => nomatch hs), boxDepth_ok h2, hw.bonds⟩

theorem mkNew_wf {stack : Bool} {n : Nat} {cols coord box bonds} {a : Arr}
    (h : mkNew stack n cols coord box bonds = .ok a) : WF a := by
  unfold mkNew at h
  split at h; · cases h
  split at h; · cases h
  split at h; · cases h
  split at h; · cases h
  rename_i h1 h2 h3 h4
  cases h
  simp only [Bool.or_eq_true, Bool.not_eq_true', not_or, Bool.not_eq_false] at h1
  refine ⟨?_, all_len (by simpa using h1.2), ?_, boxDepth_ok h3, ?_⟩
  · refine foldl_insert_all (fun (c : List Tok) => c.length = n) cols _ (mandCols_len n) ?_
    intro p hp; have := List.all_eq_true.1 h1.1 p hp; simpa using this
  · intro hs
    simp only at hs ⊢
    simp only [hs, Bool.not_false, Bool.true_and, bne_iff_ne, ne_eq, Decidable.not_not] at h2
    exact h2
  · intro b hb
    simp only [Option.map_eq_some_iff] at hb
    obtain ⟨l, rfl, rfl⟩ := hb
    refine ⟨rfl, ?_⟩
    intro x hx
    simp only [bondsBad, Bool.not_eq_true', Bool.not_eq_false] at h4
    have := List.all_eq_true.1 h4 x hx
    simpa using this

theorem arrayOf_wf {xs : List AtomV} {a : Arr} (h : arrayOf xs = .ok a) : WF a := by
  unfold arrayOf at h
  split at h
  · cases h
  · split at h
    · cases h
    · cases h
      refine ⟨?_, by simp, by simp, by simp, by simp⟩
      refine foldl_insert_all (fun (c : List Tok) => c.length = _) _ _ (mandCols_len _) ?_
      intro p hp; simp only [List.mem_map] at hp; obtain ⟨q, _, rfl⟩ := hp; simp

/-! ### several containers -/

theorem lookup_mem {α} {k : String} {v : α} : ∀ {d : List (String × α)}, lookup k d = some v → (k, v) ∈ d
  | [], h => by cases h
  | (k', v') :: r, h => by
    unfold lookup at h
    split at h
    · rename_i hk; cases h; simp [hk]
    · simp [lookup_mem h]

theorem concatCheck_ok {st : Bool} {d : Nat} : ∀ {xs : List Arr}, concatCheck st d xs = .ok () →
    ∀ a ∈ xs, a.stack = st ∧ a.coord.length = d
  | [], _, a, ha => by cases ha
  | x :: r, h, a, ha => by
    unfold concatCheck at h
    split at h; · cases h
    split at h; · cases h
    rename_i h1 h2
    simp only [List.mem_cons] at ha
    rcases ha with rfl | ha
    · simp at h1 h2; exact ⟨h1, h2⟩
    · exact concatCheck_ok h a ha

theorem joinCols_length (xs : List (List Tok)) : (joinCols xs).length = (xs.map List.length).foldr (· + ·) 0 := by
  induction xs with
  | nil => rfl
  | cons x r ih => simp [joinCols] at ih ⊢; omega

theorem concatCol_len {k : String} : ∀ {xs : List Arr} {c : List Tok}, (∀ a ∈ xs, WF a) →
    concatCol k xs = some c → c.length = totalLen xs
  | [], c, _, h => by cases h; rfl
  | a :: r, c, hw, h => by
    unfold concatCol at h
    split at h
    · rename_i c0 cs h0 hs
      cases h
      have : c0.length = a.n := (hw a (by simp)).cols _ (lookup_mem h0)
      have ih := concatCol_len (fun x hx => hw x (by simp [hx])) hs
      simp [totalLen] at ih ⊢; omega
    · cases h

theorem concatBlock_len (m : Nat) : ∀ (xs : List Arr), (∀ a ∈ xs, WF a ∧ m < a.coord.length) →
    (concatBlock m xs).length = totalLen xs
  | [], _ => rfl
  | a :: r, hw => by
    have ih := concatBlock_len m r (fun x hx => hw x (by simp [hx]))
    have ⟨hwa, hm⟩ := hw a (by simp)
    have : (a.coord.getD m []).length = a.n := by
      rw [List.getD_eq_getElem?_getD, List.getElem?_eq_getElem hm]
      exact hwa.blocks _ (List.getElem_mem _)
    simp only [concatBlock, joinCols, totalLen, List.map_cons, List.foldr_cons, List.length_append] at ih ⊢
    omega

theorem firstBox_mem : ∀ {xs : List Arr} {b : List Tok}, firstBox xs = some b → ∃ a ∈ xs, a.box = some b
  | [], _, h => by cases h
  | a :: r, b, h => by
    unfold firstBox at h
    split at h
    · rename_i b0 hb; cases h; exact ⟨a, by simp, hb⟩
    · obtain ⟨x, hx, hb⟩ := firstBox_mem h; exact ⟨x, by simp [hx], hb⟩

theorem head?_mem {α} {l : List α} {a : α} (h : l.head? = some a) : a ∈ l := by
  cases l with
  | nil => cases h
  | cons x r => simp only [List.head?_cons, Option.some.injEq] at h; subst h; simp

theorem concatenate_wf {xs : List Arr} {a' : Arr} (hw : ∀ a ∈ xs, WF a) (h : concatenate xs = .ok a') : WF a' := by
  unfold concatenate at h
  split at h
  · cases h
  · rename_i f hhead
    have hfm : f ∈ xs := head?_mem hhead
    split at h
    · cases h
    · rename_i hchk
      cases h
      have hall := concatCheck_ok hchk
      refine ⟨?_, ?_, ?_, ?_, ?_⟩
      · refine foldl_insert_all (fun (c : List Tok) => c.length = totalLen xs) _ _ (mandCols_len _) ?_
        intro p hp
        simp only [List.mem_filterMap, Option.map_eq_some_iff] at hp
        obtain ⟨q, _, c, hc, rfl⟩ := hp
        exact concatCol_len hw hc
      · intro c hc
        simp only [List.mem_map, List.mem_range] at hc
        obtain ⟨m, hm, rfl⟩ := hc
        exact concatBlock_len m _ (fun a ha => ⟨hw a ha, by rw [(hall a ha).2]; exact hm⟩)
      · intro hs
        simpa using (hw f hfm).single hs
      · intro b hb
        obtain ⟨x, hx, hxb⟩ := firstBox_mem hb
        have := (hw x hx).box b hxb
        simp [this, (hall x hx).2]
      · intro b hb
        simp only at hb
        split at hb
        · cases hb
          have hcnt : ∀ l : List Arr, (∀ a ∈ l, WF a) →
              ((l.map (fun a => a.bonds.getD ⟨a.n, []⟩)).map (·.count)).foldr (· + ·) 0 = totalLen l := by
            intro l
            induction l with
            | nil => intro _; rfl
            | cons a r ih =>
              intro hl
              have ihr := ih (fun x hx => hl x (by simp [hx]))
              have : (a.bonds.getD ⟨a.n, []⟩).count = a.n := by
                cases hb : a.bonds with
                | none => rfl
                | some b => exact ((hl a (by simp)).bonds b hb).1
              simp [totalLen] at ihr ⊢; omega
          have hwf := concat_wf (xs.map (fun a => a.bonds.getD ⟨a.n, []⟩)) (by
            intro b hb
            simp only [List.mem_map] at hb
            obtain ⟨a, ha, rfl⟩ := hb
            cases hab : a.bonds with
            | none => exact ⟨rfl, by simp⟩
            | some b0 =>
              have := (hw a ha).bonds b0 hab
              simp only [Option.getD_some]
              exact ⟨rfl, by rw [this.1]; exact this.2⟩)
          have hc := concat_count (xs.map (fun a => a.bonds.getD ⟨a.n, []⟩))
          rw [hcnt _ hw] at hc
          refine ⟨hc, ?_⟩
          rw [← hc]; exact hwf.2
        · cases hb

theorem stackArrays_wf {xs : List Arr} {a' : Arr} (hw : ∀ a ∈ xs, WF a) (h : stackArrays xs = .ok a') : WF a' := by
  unfold stackArrays at h
  split at h
  · cases h
  · rename_i f hhead
    split at h; · cases h
    split at h; · cases h
    split at h; · cases h
    rename_i hst hn _
    cases h
    have hf := hw f (head?_mem hhead)
    refine ⟨hf.cols, ?_, (fun hs => nomatch hs), ?_, hf.bonds⟩
    · intro c hc
      simp only [List.mem_map] at hc
      obtain ⟨a, ha, rfl⟩ := hc
      have h1 : a.stack = false := by
        have := hst; simp only [List.any_eq_true, not_exists, not_and, Bool.not_eq_true] at this
        exact this a ha
      have h2 : a.n = f.n := by
        have := hn; simp only [Bool.not_eq_true', Bool.not_eq_false, List.all_eq_true, beq_iff_eq] at this
        exact this a ha
      have h3 := (hw a ha).single h1
      rw [List.getD_eq_getElem?_getD, List.getElem?_eq_getElem (by omega)]
      simpa [h2] using (hw a ha).blocks _ (List.getElem_mem _)
    · intro b hb
      simp only at hb
      split at hb
      · cases hb; simp
      · cases hb

theorem tile_length (k : Nat) (xs : List Tok) : (tile k xs).length = k * xs.length := by
  unfold tile
  induction k with
  | zero => simp [joinCols]
  | succ k ih =>
    have : joinCols (List.replicate (k + 1) xs) = xs ++ joinCols (List.replicate k xs) := by
      simp [joinCols, List.replicate_succ]
    rw [this, List.length_append, ih, Nat.add_mul]; omega

theorem chunks_spec (size : Nat) : ∀ (cnt : Nat) (xs : List Tok), xs.length = cnt * size →
    (chunks size cnt xs).length = cnt ∧ ∀ c ∈ chunks size cnt xs, c.length = size
  | 0, _, _ => by simp [chunks]
  | c + 1, xs, h => by
    have hx : xs.length = size + c * size := by rw [h, Nat.add_mul]; omega
    have ih := chunks_spec size c (xs.drop size) (by simp; omega)
    refine ⟨by simp [chunks, ih.1], ?_⟩
    intro d hd
    simp only [chunks, List.mem_cons] at hd
    rcases hd with rfl | hd
    · simp; omega
    · exact ih.2 d hd

theorem repeatArr_wf {a a' : Arr} {k : Nat} {toks : List Tok} (hw : WF a) (h : repeatArr a k toks = .ok a') : WF a' := by
  unfold repeatArr at h
  split at h; · cases h
  rename_i hlen
  simp only at h
  split at h; · cases h
  rename_i hb
  cases h
  have hch : (repCoord a.n k a.coord.length toks).length = a.coord.length ∧
      ∀ c ∈ repCoord a.n k a.coord.length toks, c.length = a.n * k := by
    refine ⟨by simp [repCoord], ?_⟩
    intro c hc
    simp only [repCoord, List.mem_map] at hc
    obtain ⟨m, _, rfl⟩ := hc
    simp
  refine ⟨?_, hch.2, ?_, ?_, ?_⟩
  · intro p hp; simp only [List.mem_map] at hp; obtain ⟨q, hq, rfl⟩ := hp
    simp [tile_length, hw.cols q hq, Nat.mul_comm]
  · intro hs; simp only; rw [hch.1]; exact hw.single hs
  · intro b hb'; simp only; rw [hch.1]; exact hw.box b hb'
  · intro b hb'
    simp only [Option.map_eq_some_iff] at hb'
    obtain ⟨b0, hb0, rfl⟩ := hb'
    have hb00 : a.bonds = some b0 := hb0
    have hcount : (Bonds.concat (List.replicate (max k 1) b0)).count = a.n * k := by
      simpa [bondsCountBad, hb00] using hb
    have hwf := concat_wf (List.replicate (max k 1) b0) (by
      intro b hb
      have := (List.mem_replicate.1 hb).2
      subst this
      have := hw.bonds b hb00
      exact ⟨rfl, by rw [this.1]; exact this.2⟩)
    refine ⟨hcount, ?_⟩
    show ∀ x ∈ (Bonds.concat (List.replicate (max k 1) b0)).bs, x.1 < x.2.1 ∧ x.2.1 < a.n * k
    rw [← hcount]; exact hwf.2

/-! ### the register machine -/

theorem reg_wf {st : State} (h : WFState st) (i : Nat) : WFVal (reg st i) := by
  unfold reg
  rw [List.getD_eq_getElem?_getD]
  cases hg : st[i]? with
  | none => trivial
  | some v => exact h v (List.mem_of_getElem? hg)

theorem arrOf_wf {st : State} {i : Nat} {a : Arr} (h : WFState st) (ha : arrOf st i = .ok a) : WF a := by
  unfold arrOf at ha
  have := reg_wf h i
  split at ha
  · rename_i x hx; cases ha; rw [hx] at this; exact this
  · cases ha

theorem arrsOf_wf {st : State} (h : WFState st) : ∀ {is : List Nat} {as : List Arr}, arrsOf st is = .ok as →
    ∀ a ∈ as, WF a
  | [], as, ha => by cases ha; simp
  | i :: r, as, ha => by
    unfold arrsOf at ha
    split at ha
    · rename_i a0 as0 h0 hr
      cases ha
      intro a hm
      simp only [List.mem_cons] at hm
      rcases hm with rfl | hm
      · exact arrOf_wf h h0
      · exact arrsOf_wf h hr a hm
    · cases ha

theorem set_wf {st : State} {d : Nat} {v : Val} (h : WFState st) (hv : WFVal v) : WFState (st.set d v) := by
  intro x hx
  rcases mem_set_imp hx with hx | rfl
  · exact h x hx
  · exact hv

theorem put_wf {st : State} {d : Nat} {r : Except Err Val} (h : WFState st) (hr : ∀ v, r = .ok v → WFVal v) :
    WFState (put st d r).1 := by
  unfold put
  split
  · exact set_wf h (hr _ rfl)
  · exact h

theorem putArr_wf {st : State} {d : Nat} {r : Except Err Arr} (h : WFState st) (hr : ∀ a, r = .ok a → WF a) :
    WFState (putArr st d r).1 := by
  unfold putArr
  apply put_wf h
  intro v hv
  cases r with
  | error e => cases hv
  | ok a => cases hv; exact hr a rfl

theorem bind_ok {α β} {x : Except Err α} {f : α → Except Err β} {b : β} (h : x.bind f = .ok b) :
    ∃ a, x = .ok a ∧ f a = .ok b := by
  cases x with
  | error e => cases h
  | ok a => exact ⟨a, rfl, h⟩

theorem step_wf (st : State) (op : Op) (h : WFState st) : WFState (step st op).1 := by
  cases op with
  | new d stack n cols coord box bonds => exact putArr_wf h (fun a ha => mkNew_wf ha)
  | atom d cols c => exact put_wf h (fun v hv => by cases hv; trivial)
  | get d s ix =>
    refine put_wf h (fun v hv => ?_)
    obtain ⟨a, ha, hf⟩ := bind_ok hv
    exact getitem_wf (arrOf_wf h ha) hf
  | get2 d s i0 i1 =>
    refine put_wf h (fun v hv => ?_)
    obtain ⟨a, ha, hf⟩ := bind_ok hv
    exact getitem2_wf (arrOf_wf h ha) hf
  | set s ix v =>
    simp only [step]
    split
    · rename_i a hs
      obtain ⟨a0, ha, hf⟩ := bind_ok hs
      exact set_wf h (setitem_wf (arrOf_wf h ha) (reg_wf h v) hf)
    · exact h
  | del s ix =>
    refine putArr_wf h (fun a hv => ?_)
    obtain ⟨a0, ha, hf⟩ := bind_ok hv
    exact delitem_wf (arrOf_wf h ha) hf
  | concat d ss =>
    refine putArr_wf h (fun a hv => ?_)
    obtain ⟨as, ha, hf⟩ := bind_ok hv
    exact concatenate_wf (arrsOf_wf h ha) hf
  | stack d ss =>
    refine putArr_wf h (fun a hv => ?_)
    obtain ⟨as, ha, hf⟩ := bind_ok hv
    exact stackArrays_wf (arrsOf_wf h ha) hf
  | array d ss =>
    refine putArr_wf h (fun a hv => ?_)
    obtain ⟨as, _, hf⟩ := bind_ok hv
    exact arrayOf_wf hf
  | rep d s k toks =>
    refine putArr_wf h (fun a hv => ?_)
    obtain ⟨a0, ha, hf⟩ := bind_ok hv
    exact repeatArr_wf (arrOf_wf h ha) hf
  | tmpl d s coord box =>
    refine putArr_wf h (fun a hv => ?_)
    obtain ⟨a0, ha, hf⟩ := bind_ok hv
    exact fromTemplate_wf (arrOf_wf h ha) hf
  | addann s k =>
    refine putArr_wf h (fun a hv => ?_)
    cases ha : arrOf st s with
    | error e => rw [ha] at hv; cases hv
    | ok a0 => rw [ha] at hv; cases hv; exact addAnnotation_wf k (arrOf_wf h ha)
  | setann s k c =>
    refine putArr_wf h (fun a hv => ?_)
    obtain ⟨a0, ha, hf⟩ := bind_ok hv
    exact setAnnotation_wf (arrOf_wf h ha) hf
  | delann s k =>
    refine putArr_wf h (fun a hv => ?_)
    obtain ⟨a0, ha, hf⟩ := bind_ok hv
    exact delAnnotation_wf (arrOf_wf h ha) hf
  | setcoord s coord =>
    refine putArr_wf h (fun a hv => ?_)
    obtain ⟨a0, ha, hf⟩ := bind_ok hv
    exact setCoord_wf (arrOf_wf h ha) hf
  | setbox s box =>
    refine putArr_wf h (fun a hv => ?_)
    obtain ⟨a0, ha, hf⟩ := bind_ok hv
    exact setBox_wf (arrOf_wf h ha) hf
  | setbonds s bs =>
    refine putArr_wf h (fun a hv => ?_)
    obtain ⟨a0, ha, hf⟩ := bind_ok hv
    exact setBonds_wf (arrOf_wf h ha) hf
  | copy d s =>
    simp only [step]
    split
    · exact h
    · exact set_wf h (reg_wf h s)
  | eq s t =>
    simp only [step]
    split <;> exact h

end BiotiteModel.C01

import BiotiteModel.Model.C12
/-!
# C12 — proofs about the FASTA part of the model

* `wrap_flatten`, `wrap_chunk_ne_nil`, `wrap_chunk_sub` — `wrap_string` is a partition of the text
* `strip_of_noEdgeSpace`, `normHeader_of_ok`
* `fasta_roundtrip` — reading what was written returns the entries, for every wrap width ≥ 1
* `fasta_del_inv`, `fasta_set_inv` — `entries` is always the re-index of `lines`
* `fasta_print_eq_sets` — `write_iter` text = text produced by successive `__setitem__`
* `fasta_set_fresh_items` — dictionary spec of `__setitem__` on a fresh key
-/
namespace BiotiteModel.C12

/-- no whitespace at either end (so `strip s = s`) -/
def NoEdgeSpace (s : Str) : Prop :=
  (∀ c, s.head? = some c → isSpace c = false) ∧ (∀ c, s.getLast? = some c → isSpace c = false)
/-- a header the file format can hold on one line, already normalised -/
def HeaderOk (h : Str) : Prop := (∀ c ∈ h, isLineBreak c = false) ∧ NoEdgeSpace h
/-- sequence symbols: no whitespace, no '>' and no ';' (these start header / comment lines) -/
def SeqOk (s : Str) : Prop := ∀ c ∈ s, isSpace c = false ∧ c ≠ '>' ∧ c ≠ ';'

/-! ## 1. `wrap_string` -/

theorem wrapAux_flatten (w : Nat) (hw : 1 ≤ w) :
    ∀ (f : Nat) (s : Str), s.length ≤ f → (wrapAux w f s).flatten = s := by
  intro f
  induction f with
  | zero =>
    intro s hs
    have : s = [] := List.length_eq_zero_iff.mp (by omega)
    subst this; rfl
  | succ f ih =>
    intro s hs
    unfold wrapAux
    by_cases he : s.isEmpty
    · simp only [he, if_true]
      have : s = [] := by simpa using he
      subst this; rfl
    · simp only [he]
      have hl : (s.drop w).length ≤ f := by
        have hpos : 0 < s.length := by
          cases s with
          | nil => simp at he
          | cons => simp
        simp only [List.length_drop]; omega
      simp [ih _ hl]

theorem wrap_flatten (w : Nat) (hw : 1 ≤ w) (s : Str) : (wrap w s).flatten = s :=
  wrapAux_flatten w hw s.length s (Nat.le_refl _)

theorem wrapAux_chunk_ne_nil (w : Nat) (hw : 1 ≤ w) :
    ∀ (f : Nat) (s : Str), ∀ c ∈ wrapAux w f s, c ≠ [] := by
  intro f
  induction f with
  | zero => intro s c hc; simp [wrapAux] at hc
  | succ f ih =>
    intro s c hc
    unfold wrapAux at hc
    by_cases he : s.isEmpty
    · simp [he] at hc
    · simp only [he] at hc
      rcases List.mem_cons.mp hc with h | h
      · subst h
        cases s with
        | nil => simp at he
        | cons a t =>
          cases w with
          | zero => omega
          | succ w => simp
      · exact ih _ c h

theorem wrap_chunk_ne_nil (w : Nat) (hw : 1 ≤ w) (s : Str) : ∀ c ∈ wrap w s, c ≠ [] :=
  wrapAux_chunk_ne_nil w hw s.length s

theorem wrapAux_chunk_sub (w : Nat) :
    ∀ (f : Nat) (s : Str), ∀ c ∈ wrapAux w f s, ∀ x ∈ c, x ∈ s := by
  intro f
  induction f with
  | zero => intro s c hc; simp [wrapAux] at hc
  | succ f ih =>
    intro s c hc x hx
    unfold wrapAux at hc
    by_cases he : s.isEmpty
    · simp [he] at hc
    · simp only [he] at hc
      rcases List.mem_cons.mp hc with h | h
      · subst h; exact List.mem_of_mem_take hx
      · exact List.mem_of_mem_drop (ih _ c h x hx)

theorem wrap_chunk_sub (w : Nat) (s : Str) : ∀ c ∈ wrap w s, ∀ x ∈ c, x ∈ s :=
  wrapAux_chunk_sub w s.length s

example : wrap 3 "ACGTA".toList = ["ACG".toList, "TA".toList] := by decide

/-! ## 2. `strip`, `normHeader` -/

theorem dropWhile_of_head {p : Char → Bool} (s : Str)
    (h : ∀ c, s.head? = some c → p c = false) : s.dropWhile p = s := by
  cases s with
  | nil => rfl
  | cons a t => simp [h a (by simp)]

theorem lstrip_of_head (s : Str) (h : ∀ c, s.head? = some c → isSpace c = false) :
    lstrip s = s := dropWhile_of_head s h

theorem rstrip_of_last (s : Str) (h : ∀ c, s.getLast? = some c → isSpace c = false) :
    rstrip s = s := by
  unfold rstrip
  rw [dropWhile_of_head, List.reverse_reverse]
  intro c hc
  apply h
  simpa [List.head?_reverse] using hc

theorem strip_of_noEdgeSpace (s : Str) (h : NoEdgeSpace s) : strip s = s := by
  unfold strip
  rw [lstrip_of_head s h.1, rstrip_of_last s h.2]

theorem normHeader_of_ok (h : Str) (hh : HeaderOk h) : normHeader h = h := by
  unfold normHeader
  have : h.filter (fun c => !isLineBreak c) = h := by
    apply List.filter_eq_self.mpr
    intro a ha
    simp [hh.1 a ha]
  rw [this]
  exact strip_of_noEdgeSpace h hh.2

/-! ## 3. Round trip -/

/-- strip on a line with a non-space sentinel in front -/
theorem dropWhile_append_single {p : Char → Bool} (a : Str) (x : Char) (hx : p x = false) :
    (a ++ [x]).dropWhile p = a.dropWhile p ++ [x] := by
  induction a with
  | nil => simp [hx]
  | cons b t ih =>
    simp only [List.cons_append, List.dropWhile_cons]
    split
    · exact ih
    · rfl

theorem rstrip_cons_gt (t : Str) : rstrip ('>' :: t) = '>' :: rstrip t := by
  unfold rstrip
  rw [List.reverse_cons, dropWhile_append_single _ _ (by decide)]
  simp

theorem strip_cons_gt (t : Str) : strip ('>' :: t) = '>' :: rstrip t := by
  unfold strip
  rw [lstrip_of_head _ (by intro c hc; simp at hc; subst hc; decide), rstrip_cons_gt]

theorem headerOf_gt (t : Str) : headerOf ('>' :: t) = rstrip t := by
  simp [headerOf, strip_cons_gt]

theorem headerOf_ok (h : Str) (hh : HeaderOk h) : headerOf ('>' :: h) = h := by
  rw [headerOf_gt, rstrip_of_last h hh.2.2]

theorem rstrip_idem (u : Str) : rstrip (rstrip u) = rstrip u := by
  unfold rstrip
  rw [List.reverse_reverse]
  congr 1
  apply dropWhile_of_head
  intro c hc
  have := List.head?_dropWhile_not isSpace u.reverse
  rw [hc] at this
  simpa using this

theorem headerOf_strip (x : Str) : headerOf ('>' :: strip x) = strip x := by
  rw [headerOf_gt]; unfold strip; exact rstrip_idem _

theorem headerOf_normHeader (x : Str) : headerOf ('>' :: normHeader x) = normHeader x :=
  headerOf_strip _

/-- a wrapped chunk of an admissible sequence -/
theorem chunk_props (w : Nat) (hw : 1 ≤ w) (s : Str) (hs : SeqOk s) :
    ∀ c ∈ wrap w s, c ≠ [] ∧ strip c = c ∧ isHdr c = false ∧ c.head? ≠ some ';' := by
  intro c hc
  have hne := wrap_chunk_ne_nil w hw s c hc
  have hsub := wrap_chunk_sub w s c hc
  refine ⟨hne, ?_, ?_, ?_⟩
  · apply strip_of_noEdgeSpace
    constructor
    · intro x hx
      exact (hs x (hsub x (List.mem_of_mem_head? hx))).1
    · intro x hx
      exact (hs x (hsub x (List.mem_of_getLast? hx))).1
  · cases c with
    | nil => exact absurd rfl hne
    | cons a t =>
      have := (hs a (hsub a (by simp))).2.1
      simp [isHdr, this]
  · cases c with
    | nil => exact absurd rfl hne
    | cons a t =>
      have := (hs a (hsub a (by simp))).2.2
      simp [this]

/-! ### grouping -/

theorem groupR_body (body rest : List Str) (hb : ∀ l ∈ body, isHdr l = false) :
    groupR (body ++ rest) = (body ++ (groupR rest).1, (groupR rest).2) := by
  induction body with
  | nil => simp
  | cons l t ih =>
    have h1 := hb l (by simp)
    have h2 := ih (fun x hx => hb x (by simp [hx]))
    simp [groupR, h1, h2]

theorem isHdr_gt (t : Str) : isHdr ('>' :: t) = true := by simp [isHdr]

theorem groupR_append (xs ys : List Str) (hy : (groupR ys).1 = []) :
    groupR (xs ++ ys) = ((groupR xs).1, (groupR xs).2 ++ (groupR ys).2) := by
  induction xs with
  | nil =>
    show groupR ys = ([], [] ++ (groupR ys).2)
    rw [← hy]; rfl
  | cons l t ih =>
    simp only [List.cons_append, groupR, ih]
    split <;> simp

theorem groupR_new (h : Str) (body : List Str) (hb : ∀ l ∈ body, isHdr l = false) :
    groupR (('>' :: h) :: body) = ([], [('>' :: h, body)]) := by
  have := groupR_body body [] hb
  simp only [List.append_nil] at this
  simp [groupR, isHdr_gt, this]

/-- the groups of a printed file -/
def printGroups (w : Nat) (es : List (Str × Str)) : List (Str × List Str) :=
  es.map (fun e => ('>' :: normHeader e.1, wrap w e.2))

theorem groupR_print (w : Nat) (hw : 1 ≤ w) (es : List (Str × Str)) (hs : ∀ e ∈ es, SeqOk e.2) :
    groupR (fastaPrint w es) = ([], printGroups w es) := by
  induction es with
  | nil => rfl
  | cons e t ih =>
    obtain ⟨h, s⟩ := e
    have ih' := ih (fun x hx => hs x (by simp [hx]))
    have hb : ∀ l ∈ wrap w s, isHdr l = false :=
      fun l hl => (chunk_props w hw s (hs (h, s) (by simp)) l hl).2.2.1
    have hy : (groupR (fastaPrint w t)).1 = [] := by rw [ih']
    rw [fastaPrint, groupR_append _ _ hy, ih']
    simp [fastaNewLines, groupR_new _ _ hb, printGroups]

/-! ### ordered dictionaries -/

theorem any_key_false {ν : Type} (d : List (Str × ν)) (k : Str) (h : k ∉ d.map (·.1)) :
    d.any (fun p => p.1 == k) = false := by
  rw [List.any_eq_false]
  intro p hp hk
  apply h
  have : p.1 = k := by simpa using hk
  exact this ▸ List.mem_map_of_mem hp

theorem odInsert_fresh {ν : Type} (d : List (Str × ν)) (k : Str) (v : ν)
    (h : d.any (fun p => p.1 == k) = false) : odInsert d k v = d ++ [(k, v)] := by
  simp [odInsert, h]

theorem odFold_nodup {ν : Type} (l : List (Str × ν)) :
    ∀ acc : List (Str × ν), ((acc ++ l).map (·.1)).Nodup →
      l.foldl (fun d p => odInsert d p.1 p.2) acc = acc ++ l := by
  induction l with
  | nil => intro acc _; simp
  | cons p t ih =>
    intro acc hnd
    have hp : p.1 ∉ acc.map (·.1) := by
      intro hmem
      rw [List.map_append, List.map_cons] at hnd
      have := (List.nodup_append.mp hnd).2.2 _ hmem p.1 (by simp)
      exact this rfl
    rw [List.foldl_cons, odInsert_fresh _ _ _ (any_key_false _ _ hp), ih]
    · simp
    · simpa using hnd

theorem odOfList_nodup {ν : Type} (l : List (Str × ν)) (h : (l.map (·.1)).Nodup) :
    odOfList l = l := by
  have := odFold_nodup l [] (by simpa using h)
  simpa [odOfList] using this

theorem lookup_of_mem_nodup {ν : Type} (l : List (Str × ν)) (h : (l.map (·.1)).Nodup) :
    ∀ e ∈ l, l.lookup e.1 = some e.2 := by
  induction l with
  | nil => intro e he; cases he
  | cons p t ih =>
    intro e he
    obtain ⟨k, v⟩ := p
    rw [List.map_cons, List.nodup_cons] at h
    rcases List.mem_cons.mp he with rfl | he'
    · simp
    · have hne : (e.1 == k) = false := by
        apply beq_false_of_ne
        intro heq
        have hm : e.1 ∈ t.map (·.1) := List.mem_map_of_mem he'
        rw [heq] at hm; exact h.1 hm
      rw [List.lookup_cons, hne]
      exact ih h.2 e he'

theorem mapM_ok {α β : Type} (g : α → Except Err β) (v : α → β) (l : List α)
    (h : ∀ e ∈ l, g e = .ok (v e)) : l.mapM g = .ok (l.map v) := by
  induction l with
  | nil => rfl
  | cons a t ih =>
    rw [List.mapM_cons, h a (by simp), ih (fun e he => h e (by simp [he]))]
    rfl

/-! ### indexing -/

/-- the lines of a list of groups -/
def flatG (gs : List (Str × List Str)) : List Str := gs.flatMap (fun g => g.1 :: g.2)

theorem sliceL_mid {α : Type} (pre mid post : List α) (a b : Nat) (ha : a = pre.length)
    (hb : b = pre.length + mid.length) : sliceL (pre ++ mid ++ post) a b = mid := by
  subst ha hb
  unfold sliceL
  rw [← List.length_append, List.take_left', List.drop_left']
  rfl; rfl

theorem indexGroups_keys (gs : List (Str × List Str)) :
    ∀ i, (indexGroups i gs).map (·.1) = gs.map (fun g => headerOf g.1) := by
  induction gs with
  | nil => intro i; rfl
  | cons g t ih => intro i; obtain ⟨h, b⟩ := g; simp [indexGroups, ih]

theorem indexGroups_slice (gs : List (Str × List Str)) :
    ∀ (pre : List Str) (i : Nat), i = pre.length →
      (indexGroups i gs).map (fun e => (e.1, sliceL (pre ++ flatG gs) (e.2.1 + 1) e.2.2))
        = gs.map (fun g => (headerOf g.1, g.2)) := by
  induction gs with
  | nil => intro pre i _; rfl
  | cons g t ih =>
    intro pre i hi
    obtain ⟨h, b⟩ := g
    have hflat : flatG ((h, b) :: t) = h :: b ++ flatG t := by simp [flatG]
    simp only [indexGroups, List.map_cons]
    congr 1
    · congr 1
      have : pre ++ flatG ((h, b) :: t) = (pre ++ [h]) ++ b ++ flatG t := by simp [hflat]
      rw [this]
      apply sliceL_mid <;> simp [hi]
    · have : pre ++ flatG ((h, b) :: t) = (pre ++ h :: b) ++ flatG t := by simp [hflat]
      rw [this]
      apply ih
      simp [hi]; omega

theorem flatG_print (w : Nat) (es : List (Str × Str)) : flatG (printGroups w es) = fastaPrint w es := by
  induction es with
  | nil => rfl
  | cons e t ih =>
    obtain ⟨h, s⟩ := e
    simp only [printGroups, flatG] at ih
    simp [printGroups, flatG, fastaPrint, fastaNewLines, ih]

/-! ### the main theorem -/

theorem print_line_cases (w : Nat) (es : List (Str × Str)) :
    ∀ l ∈ fastaPrint w es,
      (∃ e ∈ es, l = '>' :: normHeader e.1) ∨ (∃ e ∈ es, l ∈ wrap w e.2) := by
  induction es with
  | nil => intro l hl; cases hl
  | cons e t ih =>
    obtain ⟨h, s⟩ := e
    intro l hl
    simp only [fastaPrint, fastaNewLines, List.cons_append, List.mem_cons, List.mem_append] at hl
    rcases hl with rfl | hl | hl
    · exact .inl ⟨(h, s), by simp, rfl⟩
    · exact .inr ⟨(h, s), by simp, hl⟩
    · rcases ih l hl with ⟨e, he, h1⟩ | ⟨e, he, h1⟩
      · exact .inl ⟨e, by simp [he], h1⟩
      · exact .inr ⟨e, by simp [he], h1⟩

/-- no printed line is dropped by the filter of `read`, and none is empty -/
theorem print_line_keep (w : Nat) (hw : 1 ≤ w) (es : List (Str × Str)) (hs : ∀ e ∈ es, SeqOk e.2) :
    ∀ l ∈ fastaPrint w es,
      (!(strip l).isEmpty && l.head? != some ';') = true ∧ l.isEmpty = false := by
  intro l hl
  rcases print_line_cases w es l hl with ⟨e, _, rfl⟩ | ⟨e, he, hc⟩
  · rw [strip_cons_gt]
    refine ⟨?_, rfl⟩
    simp
  · obtain ⟨h1, h2, _, h4⟩ := chunk_props w hw e.2 (hs e he) l hc
    rw [h2]
    cases l with
    | nil => exact absurd rfl h1
    | cons a t => simpa using h4

/-- every printed line is a fixed point of `strip` (what the repaired `read` applies first) -/
theorem print_line_strip (w : Nat) (hw : 1 ≤ w) (es : List (Str × Str)) (hs : ∀ e ∈ es, SeqOk e.2) :
    ∀ l ∈ fastaPrint w es, strip l = l := by
  intro l hl
  rcases print_line_cases w es l hl with ⟨e, _, rfl⟩ | ⟨e, he, hc⟩
  · rw [strip_cons_gt]
    congr 1
    unfold normHeader strip
    exact rstrip_idem _
  · exact (chunk_props w hw e.2 (hs e he) l hc).2.1

theorem print_keys (w : Nat) (es : List (Str × Str)) (i : Nat) :
    (indexGroups i (printGroups w es)).map (·.1) = es.map (fun e => normHeader e.1) := by
  rw [indexGroups_keys, printGroups, List.map_map]
  apply List.map_congr_left
  intro e _
  exact headerOf_normHeader e.1

theorem fastaFind_print (w : Nat) (hw : 1 ≤ w) (es : List (Str × Str)) (hs : ∀ e ∈ es, SeqOk e.2)
    (hnd : (es.map (fun e => normHeader e.1)).Nodup) :
    fastaFind (fastaPrint w es) = .ok (indexGroups 0 (printGroups w es)) := by
  have hany : (fastaPrint w es).any (·.isEmpty) = false := by
    rw [List.any_eq_false]
    intro l hl
    simp [(print_line_keep w hw es hs l hl).2]
  unfold fastaFind
  rw [hany, groupR_print w hw es hs]
  simp only [Bool.false_eq_true, if_false, List.isEmpty_nil, Bool.not_true]
  rw [odOfList_nodup]
  rw [print_keys]; exact hnd

theorem fastaRead_print (w cpl : Nat) (hw : 1 ≤ w) (es : List (Str × Str)) (hne : es ≠ [])
    (hs : ∀ e ∈ es, SeqOk e.2) (hnd : (es.map (fun e => normHeader e.1)).Nodup) :
    fastaRead (textRoundTrip (fastaPrint w es)) cpl
      = .ok ⟨fastaPrint w es, indexGroups 0 (printGroups w es), cpl⟩ := by
  have hne' : (fastaPrint w es).isEmpty = false := by
    cases es with
    | nil => exact absurd rfl hne
    | cons e t => obtain ⟨h, s⟩ := e; simp [fastaPrint, fastaNewLines]
  have hmap : (fastaPrint w es).map strip = fastaPrint w es := by
    conv => rhs; rw [← List.map_id (fastaPrint w es)]
    exact List.map_congr_left (fun l hl => by simpa using print_line_strip w hw es hs l hl)
  have hfilt : (fastaPrint w es).filter (fun l => !l.isEmpty && l.head? != some ';')
      = fastaPrint w es :=
    List.filter_eq_self.mpr (fun l hl => by
      have h1 := (print_line_keep w hw es hs l hl).1
      rw [print_line_strip w hw es hs l hl] at h1
      exact h1)
  unfold fastaRead textRoundTrip
  simp only [hne', Bool.false_eq_true, if_false, hmap, hfilt]
  rw [fastaFind_print w hw es hs hnd]

theorem fastaItems_print (w cpl : Nat) (hw : 1 ≤ w) (es : List (Str × Str))
    (hs : ∀ e ∈ es, SeqOk e.2) (hnd : (es.map (fun e => normHeader e.1)).Nodup) :
    fastaItems ⟨fastaPrint w es, indexGroups 0 (printGroups w es), cpl⟩
      = .ok (es.map (fun e => (normHeader e.1, e.2))) := by
  have hk : ((indexGroups 0 (printGroups w es)).map (·.1)).Nodup := by rw [print_keys]; exact hnd
  unfold fastaItems
  rw [mapM_ok _ (fun e => (e.1, ((sliceL (fastaPrint w es) (e.2.1 + 1) e.2.2).map strip).flatten))]
  · have h1 := indexGroups_slice (printGroups w es) [] 0 rfl
    rw [List.nil_append, flatG_print] at h1
    have h2 := congrArg (List.map (fun p : Str × List Str => (p.1, (p.2.map strip).flatten))) h1
    simp only [List.map_map] at h2
    congr 1
    refine Eq.trans (show _ = _ from h2) ?_
    rw [printGroups, List.map_map]
    apply List.map_congr_left
    intro e he
    have : (wrap w e.2).map strip = (wrap w e.2).map id :=
      List.map_congr_left (fun c hc => (chunk_props w hw e.2 (hs e he) c hc).2.1)
    simp only [Function.comp]
    rw [this, List.map_id, wrap_flatten w hw, headerOf_normHeader]
  · intro e he
    simp only [fastaGet]
    rw [lookup_of_mem_nodup _ hk e he]
    rfl

/-- Round trip, general form: headers are normalised (`replace("\n","").strip()`) on writing. -/
theorem fasta_roundtrip_norm (es : List (Str × Str)) (w cpl : Nat) (hw : 1 ≤ w) (hne : es ≠ [])
    (hs : ∀ e ∈ es, SeqOk e.2) (hnd : (es.map (fun e => normHeader e.1)).Nodup) :
    ∃ f, fastaRead (textRoundTrip (fastaPrint w es)) cpl = .ok f ∧
      fastaItems f = .ok (es.map (fun e => (normHeader e.1, e.2))) :=
  ⟨_, fastaRead_print w cpl hw es hne hs hnd, fastaItems_print w cpl hw es hs hnd⟩

theorem fasta_roundtrip (es : List (Str × Str)) (w cpl : Nat) (hw : 1 ≤ w) (hne : es ≠ [])
    (hh : ∀ e ∈ es, HeaderOk e.1) (hs : ∀ e ∈ es, SeqOk e.2) (hnd : (es.map (·.1)).Nodup) :
    ∃ f, fastaRead (textRoundTrip (fastaPrint w es)) cpl = .ok f ∧ fastaItems f = .ok es := by
  have hmap : es.map (fun e => normHeader e.1) = es.map (·.1) :=
    List.map_congr_left (fun e he => normHeader_of_ok e.1 (hh e he))
  obtain ⟨f, h1, h2⟩ := fasta_roundtrip_norm es w cpl hw hne hs (by rw [hmap]; exact hnd)
  refine ⟨f, h1, ?_⟩
  rw [h2]
  congr 1
  have : es.map (fun e => (normHeader e.1, e.2)) = es.map id :=
    List.map_congr_left (fun e he => by rw [normHeader_of_ok e.1 (hh e he)]; rfl)
  rw [this, List.map_id]

example : fastaPrint 3 [("a b".toList, "ACGTA".toList)]
    = [">a b".toList, "ACG".toList, "TA".toList] := by decide

example : (fastaRead (textRoundTrip (fastaPrint 3 [("a b".toList, "ACGTA".toList), ("c".toList, "GG".toList)])) 80).bind
    fastaItems = .ok [("a b".toList, "ACGTA".toList), ("c".toList, "GG".toList)] := by decide

/-! ## 4. Edit consistency -/

theorem fasta_del_inv (f f' : Fasta) (h : Str) (hd : fastaDel f h = .ok f') :
    fastaFind f'.lines = .ok f'.entries := by
  unfold fastaDel at hd
  split at hd
  · cases hd
  · simp only at hd
    split at hd
    · rename_i es hes
      cases hd
      exact hes
    · cases hd

/-- total number of lines of a list of groups -/
def glen : List (Str × List Str) → Nat
  | [] => 0
  | g :: gs => 1 + g.2.length + glen gs

theorem groupR_length (ls : List Str) : (groupR ls).1.length + glen (groupR ls).2 = ls.length := by
  induction ls with
  | nil => rfl
  | cons l t ih =>
    simp only [groupR]
    split
    · simp [glen]
      rw [← ih]; omega
    · simp
      rw [← ih]; omega

theorem indexGroups_append (gs gs' : List (Str × List Str)) :
    ∀ i, indexGroups i (gs ++ gs') = indexGroups i gs ++ indexGroups (i + glen gs) gs' := by
  induction gs with
  | nil => intro i; simp [indexGroups, glen]
  | cons g t ih =>
    intro i
    obtain ⟨h, b⟩ := g
    simp [indexGroups, glen, ih, Nat.add_assoc]

theorem lookup_none_any {ν : Type} (d : List (Str × ν)) (k : Str) (h : d.lookup k = none) :
    d.any (fun p => p.1 == k) = false := by
  induction d with
  | nil => rfl
  | cons p t ih =>
    obtain ⟨a, v⟩ := p
    rw [List.lookup_cons] at h
    split at h
    · cases h
    · rename_i hne
      have hne' : (a == k) = false := by
        have : k ≠ a := by simpa using hne
        exact beq_false_of_ne (Ne.symm this)
      simp [hne', ih h]

theorem odOfList_snoc {ν : Type} (l : List (Str × ν)) (k : Str) (v : ν) :
    odOfList (l ++ [(k, v)]) = odInsert (odOfList l) k v := by
  simp [odOfList, List.foldl_append]

/-- appending a fresh record to an indexed file -/
theorem fastaFind_append_fresh (lines : List Str) (ents : List (Str × Nat × Nat)) (cpl : Nat)
    (hc : 1 ≤ cpl) (x seq : Str) (hinv : fastaFind lines = .ok ents) (hs : SeqOk seq)
    (hfresh : ents.lookup (normHeader x) = none) :
    fastaFind (lines ++ fastaNewLines cpl (normHeader x) seq)
      = .ok (ents ++ [(normHeader x, lines.length,
                        lines.length + (fastaNewLines cpl (normHeader x) seq).length)]) := by
  unfold fastaFind at hinv
  split at hinv
  · cases hinv
  · rename_i hany
    simp only at hinv
    split at hinv
    · cases hinv
    · rename_i hg
      have hg1 : (groupR lines).1 = [] := by simpa using hg
      have hents : odOfList (indexGroups 0 (groupR lines).2) = ents := by
        injection hinv
      have hb : ∀ l ∈ wrap cpl seq, isHdr l = false :=
        fun l hl => (chunk_props cpl hc seq hs l hl).2.2.1
      have hnew := groupR_new (normHeader x) (wrap cpl seq) hb
      have hlen : glen (groupR lines).2 = lines.length := by
        have := groupR_length lines
        rw [hg1] at this
        simpa using this
      have hany' : (lines ++ fastaNewLines cpl (normHeader x) seq).any (·.isEmpty) = false := by
        rw [List.any_append, Bool.or_eq_false_iff]
        refine ⟨(Bool.not_eq_true _).mp hany, ?_⟩
        rw [List.any_eq_false]
        intro l hl
        simp only [fastaNewLines, List.mem_cons] at hl
        rcases hl with rfl | hl
        · simp
        · have := (chunk_props cpl hc seq hs l hl).1
          simpa using this
      unfold fastaFind
      rw [hany']
      simp only [Bool.false_eq_true, if_false]
      rw [fastaNewLines, groupR_append _ _ (by rw [hnew]), hnew, hg1]
      simp only [List.isEmpty_nil, Bool.not_true, Bool.false_eq_true, if_false]
      rw [indexGroups_append, hlen]
      simp only [indexGroups, Nat.zero_add, headerOf_normHeader]
      rw [odOfList_snoc, hents, odInsert_fresh _ _ _ (lookup_none_any _ _ hfresh)]
      simp only [List.length_cons]
      have e : lines.length + 1 + (wrap cpl seq).length
          = lines.length + ((wrap cpl seq).length + 1) := by omega
      rw [e]

theorem fasta_set_inv (f f' : Fasta) (h seq : Str) (hinv : fastaFind f.lines = .ok f.entries)
    (hs : SeqOk seq) (hset : fastaSet f h seq = .ok f') : fastaFind f'.lines = .ok f'.entries := by
  unfold fastaSet at hset
  split at hset
  · cases hset
  · rename_i hc
    simp only at hset
    split at hset
    · split at hset
      · cases hset
      · split at hset
        · rename_i es hes
          cases hset
          exact hes
        · cases hset
    · rename_i hl
      cases hset
      have hfresh : f.entries.lookup (normHeader h) = none := by
        cases hlk : f.entries.lookup (normHeader h) with
        | none => rfl
        | some v => simp [hlk] at hl
      exact fastaFind_append_fresh f.lines f.entries f.cpl (by omega) h seq hinv hs hfresh

example : ((fastaSet (Fasta.empty 3) " a\n".toList "ACGTA".toList).bind
      (fun f => fastaSet f "b".toList "GG".toList)).bind (fun f => fastaFind f.lines |>.map (· == f.entries))
    = .ok true := by decide

/-! ## 5. `write_iter` text = successive `__setitem__` -/

theorem lookup_none_of_not_mem {ν : Type} (d : List (Str × ν)) (k : Str) (h : k ∉ d.map (·.1)) :
    d.lookup k = none := by
  induction d with
  | nil => rfl
  | cons p t ih =>
    obtain ⟨a, v⟩ := p
    simp only [List.map_cons, List.mem_cons, not_or] at h
    have hne : (k == a) = false := beq_false_of_ne h.1
    rw [List.lookup_cons, hne]
    exact ih h.2

/-- `__setitem__` with a header that is not yet a key: the record is appended. -/
theorem fastaSet_fresh (f : Fasta) (h seq : Str) (hc : f.cpl ≠ 0)
    (hfresh : f.entries.lookup (normHeader h) = none) :
    fastaSet f h seq = .ok { f with
      lines := f.lines ++ fastaNewLines f.cpl (normHeader h) seq,
      entries := f.entries ++ [(normHeader h, f.lines.length,
                                f.lines.length + (fastaNewLines f.cpl (normHeader h) seq).length)] } := by
  unfold fastaSet
  simp [hc, hfresh]

theorem fasta_sets_lines (cpl : Nat) (hc : 1 ≤ cpl) (es : List (Str × Str)) :
    ∀ f0 : Fasta, f0.cpl = cpl →
      (f0.entries.map (·.1) ++ es.map (fun e => normHeader e.1)).Nodup →
      ∃ f, es.foldlM (fun f e => fastaSet f e.1 e.2) f0 = .ok f ∧
        f.lines = f0.lines ++ fastaPrint cpl es ∧ f.cpl = cpl ∧
        f.entries.map (·.1) = f0.entries.map (·.1) ++ es.map (fun e => normHeader e.1) := by
  induction es with
  | nil => intro f0 h0 _; exact ⟨f0, rfl, by simp [fastaPrint], h0, by simp⟩
  | cons e t ih =>
    intro f0 h0 hnd
    obtain ⟨h, s⟩ := e
    have hnotin : normHeader h ∉ f0.entries.map (·.1) := by
      intro hm
      exact (List.nodup_append.mp hnd).2.2 _ hm (normHeader h) (by simp) rfl
    have hstep := fastaSet_fresh f0 h s (by omega) (lookup_none_of_not_mem _ _ hnotin)
    obtain ⟨f, hf1, hf2, hf3, hf4⟩ := ih _ (show Fasta.cpl { f0 with
        lines := f0.lines ++ fastaNewLines f0.cpl (normHeader h) s,
        entries := f0.entries ++ [(normHeader h, f0.lines.length,
                    f0.lines.length + (fastaNewLines f0.cpl (normHeader h) s).length)] } = cpl from h0)
      (by simpa using hnd)
    refine ⟨f, ?_, ?_, hf3, ?_⟩
    · rw [List.foldlM_cons, hstep]
      exact hf1
    · rw [hf2, h0]; simp [fastaPrint]
    · rw [hf4]; simp

/-- general form: headers are normalised by `__setitem__` and by `write_iter` alike -/
theorem fasta_print_eq_sets_norm (es : List (Str × Str)) (cpl : Nat) (hc : 1 ≤ cpl)
    (hnd : (es.map (fun e => normHeader e.1)).Nodup) :
    ∃ f, es.foldlM (fun f e => fastaSet f e.1 e.2) (Fasta.empty cpl) = .ok f ∧
      f.lines = fastaPrint cpl es ∧ f.cpl = cpl ∧
      f.entries.map (·.1) = es.map (fun e => normHeader e.1) := by
  obtain ⟨f, h1, h2, h3, h4⟩ := fasta_sets_lines cpl hc es (Fasta.empty cpl) rfl
    (by simpa [Fasta.empty] using hnd)
  exact ⟨f, h1, by simpa [Fasta.empty] using h2, h3, by simpa [Fasta.empty] using h4⟩

theorem fasta_print_eq_sets (es : List (Str × Str)) (cpl : Nat) (hc : 1 ≤ cpl)
    (hh : ∀ e ∈ es, HeaderOk e.1) (hnd : (es.map (·.1)).Nodup) :
    ∃ f, es.foldlM (fun f e => fastaSet f e.1 e.2) (Fasta.empty cpl) = .ok f ∧
      f.lines = fastaPrint cpl es ∧ f.cpl = cpl ∧ f.entries.map (·.1) = es.map (·.1) := by
  have hmap : es.map (fun e => normHeader e.1) = es.map (·.1) :=
    List.map_congr_left (fun e he => normHeader_of_ok e.1 (hh e he))
  have := fasta_print_eq_sets_norm es cpl hc (by rw [hmap]; exact hnd)
  rw [hmap] at this
  exact this

example : ([("a b".toList, "ACGTA".toList), ("c".toList, "GG".toList)].foldlM
      (fun f e => fastaSet f e.1 e.2) (Fasta.empty 3)).map (·.lines)
    = .ok (fastaPrint 3 [("a b".toList, "ACGTA".toList), ("c".toList, "GG".toList)]) := by decide

/-! ## 6. Dictionary specification of `__setitem__` on a fresh key -/

theorem mem_odInsert {ν : Type} (d : List (Str × ν)) (k : Str) (v : ν) :
    ∀ p ∈ odInsert d k v, p ∈ d ∨ p = (k, v) := by
  intro p hp
  unfold odInsert at hp
  split at hp
  · rcases List.mem_map.mp hp with ⟨q, hq, rfl⟩
    split
    · exact .inr rfl
    · exact .inl hq
  · rcases List.mem_append.mp hp with h | h
    · exact .inl h
    · exact .inr (by simpa using h)

theorem mem_odFold {ν : Type} (l : List (Str × ν)) :
    ∀ acc : List (Str × ν), ∀ p ∈ l.foldl (fun d p => odInsert d p.1 p.2) acc, p ∈ acc ∨ p ∈ l := by
  induction l with
  | nil => intro acc p hp; exact .inl hp
  | cons q t ih =>
    intro acc p hp
    rw [List.foldl_cons] at hp
    rcases ih _ p hp with h | h
    · rcases mem_odInsert _ _ _ p h with h' | h'
      · exact .inl h'
      · exact .inr (by rw [h']; simp)
    · exact .inr (by simp [h])

theorem mem_odOfList {ν : Type} (l : List (Str × ν)) : ∀ p ∈ odOfList l, p ∈ l := by
  intro p hp
  rcases mem_odFold l [] p hp with h | h
  · cases h
  · exact h

theorem indexGroups_bound (gs : List (Str × List Str)) :
    ∀ i, ∀ p ∈ indexGroups i gs, p.2.2 ≤ i + glen gs := by
  induction gs with
  | nil => intro i p hp; cases hp
  | cons g t ih =>
    intro i p hp
    obtain ⟨h, b⟩ := g
    simp only [indexGroups, List.mem_cons] at hp
    rcases hp with rfl | hp
    · simp [glen]; omega
    · have := ih _ p hp
      simp [glen]; omega

/-- under the index invariant every stop index lies inside the text -/
theorem entries_bound (lines : List Str) (ents : List (Str × Nat × Nat))
    (hinv : fastaFind lines = .ok ents) : ∀ p ∈ ents, p.2.2 ≤ lines.length := by
  unfold fastaFind at hinv
  split at hinv
  · cases hinv
  · simp only at hinv
    split at hinv
    · cases hinv
    · rename_i hg
      have hg1 : (groupR lines).1 = [] := by simpa using hg
      have hents : odOfList (indexGroups 0 (groupR lines).2) = ents := by injection hinv
      have hlen : glen (groupR lines).2 = lines.length := by
        have := groupR_length lines
        rw [hg1] at this
        simpa using this
      intro p hp
      rw [← hents] at hp
      have := indexGroups_bound _ 0 p (mem_odOfList _ p hp)
      omega

theorem mem_of_lookup {ν : Type} (l : List (Str × ν)) (k : Str) (v : ν)
    (h : l.lookup k = some v) : (k, v) ∈ l := by
  induction l with
  | nil => cases h
  | cons p t ih =>
    obtain ⟨a, w⟩ := p
    rw [List.lookup_cons] at h
    split at h
    · rename_i hk
      have : k = a := by simpa using hk
      cases h; subst this; simp
    · simp [ih h]

theorem lookup_isSome_of_mem {ν : Type} (l : List (Str × ν)) : ∀ e ∈ l, ∃ v, l.lookup e.1 = some v := by
  induction l with
  | nil => intro e he; cases he
  | cons p t ih =>
    intro e he
    obtain ⟨a, w⟩ := p
    rw [List.lookup_cons]
    split
    · exact ⟨w, rfl⟩
    · rename_i hne
      rcases List.mem_cons.mp he with rfl | he'
      · simp at hne
      · exact ih e he'

theorem mapM_congr' {α β : Type} (g g' : α → Except Err β) (l : List α)
    (h : ∀ e ∈ l, g e = g' e) : l.mapM g = l.mapM g' := by
  induction l with
  | nil => rfl
  | cons a t ih =>
    rw [List.mapM_cons, List.mapM_cons, h a (by simp), ih (fun e he => h e (by simp [he]))]

theorem mapM_ok_exists {α β : Type} (g : α → Except Err β) (l : List α)
    (h : ∀ e ∈ l, ∃ v, g e = .ok v) : ∃ vs, l.mapM g = .ok vs := by
  induction l with
  | nil => exact ⟨[], rfl⟩
  | cons a t ih =>
    obtain ⟨v, hv⟩ := h a (by simp)
    obtain ⟨vs, hvs⟩ := ih (fun e he => h e (by simp [he]))
    exact ⟨v :: vs, by rw [List.mapM_cons, hv, hvs]; rfl⟩

/-- `items()` never fails: every key of `entries` is found by `lookup` -/
theorem fastaItems_ok (f : Fasta) : ∃ items, fastaItems f = .ok items := by
  unfold fastaItems
  apply mapM_ok_exists
  intro e he
  obtain ⟨v, hv⟩ := lookup_isSome_of_mem f.entries e he
  obtain ⟨a, b⟩ := v
  exact ⟨_, by simp only [fastaGet, hv]; rfl⟩

theorem sliceL_append_of_le {α : Type} (l r : List α) (a b : Nat) (hb : b ≤ l.length) :
    sliceL (l ++ r) a b = sliceL l a b := by
  unfold sliceL
  rw [List.take_append_of_le_length hb]

theorem fasta_set_fresh_items (f : Fasta) (h seq : Str)
    (hinv : fastaFind f.lines = .ok f.entries) (hs : SeqOk seq) (hc : 1 ≤ f.cpl)
    (hfresh : f.entries.lookup (normHeader h) = none) :
    ∃ f' items, fastaSet f h seq = .ok f' ∧ fastaItems f = .ok items ∧
      fastaItems f' = .ok (items ++ [(normHeader h, seq)]) := by
  obtain ⟨items, hitems⟩ := fastaItems_ok f
  refine ⟨_, items, fastaSet_fresh f h seq (by omega) hfresh, hitems, ?_⟩
  have hbound := entries_bound f.lines f.entries hinv
  unfold fastaItems at hitems ⊢
  simp only
  rw [List.mapM_append]
  -- old entries are read as before
  rw [mapM_congr' _ (fun e => (fastaGet f e.1).map (fun s => (e.1, s))) f.entries, hitems]
  · -- the new entry
    have hnew : fastaGet { f with
          lines := f.lines ++ fastaNewLines f.cpl (normHeader h) seq,
          entries := f.entries ++ [(normHeader h, f.lines.length,
              f.lines.length + (fastaNewLines f.cpl (normHeader h) seq).length)] } (normHeader h)
        = .ok seq := by
      simp only [fastaGet, List.lookup_append, hfresh, Option.none_or, List.lookup_cons, beq_self_eq_true]
      have hsl : sliceL (f.lines ++ fastaNewLines f.cpl (normHeader h) seq) (f.lines.length + 1)
          (f.lines.length + (fastaNewLines f.cpl (normHeader h) seq).length) = wrap f.cpl seq := by
        have : f.lines ++ fastaNewLines f.cpl (normHeader h) seq
            = (f.lines ++ ['>' :: normHeader h]) ++ wrap f.cpl seq ++ [] := by simp [fastaNewLines]
        rw [this]
        apply sliceL_mid <;> simp [fastaNewLines] <;> omega
      have hmap : (wrap f.cpl seq).map strip = (wrap f.cpl seq).map id :=
        List.map_congr_left (fun c hc' => (chunk_props f.cpl hc seq hs c hc').2.1)
      rw [hsl, hmap, List.map_id, wrap_flatten f.cpl hc]
    simp only [List.mapM_cons, List.mapM_nil, hnew]
    rfl
  · intro e he
    obtain ⟨v, hv⟩ := lookup_isSome_of_mem f.entries e he
    obtain ⟨a, b⟩ := v
    have hb : b ≤ f.lines.length := hbound _ (mem_of_lookup _ _ _ hv)
    simp only [fastaGet, List.lookup_append, hv, Option.some_or]
    rw [sliceL_append_of_le _ _ _ _ hb]

/-- the same, phrased on the result of a successful `__setitem__` -/
theorem fasta_set_fresh_items' (f f' : Fasta) (h seq : Str) (items : List (Str × Str))
    (hinv : fastaFind f.lines = .ok f.entries) (hs : SeqOk seq) (hc : 1 ≤ f.cpl)
    (hfresh : f.entries.lookup (normHeader h) = none)
    (hset : fastaSet f h seq = .ok f') (hit : fastaItems f = .ok items) :
    fastaItems f' = .ok (items ++ [(normHeader h, seq)]) := by
  obtain ⟨g, its, h1, h2, h3⟩ := fasta_set_fresh_items f h seq hinv hs hc hfresh
  rw [hset] at h1; rw [hit] at h2
  cases h1; cases h2
  exact h3

end BiotiteModel.C12

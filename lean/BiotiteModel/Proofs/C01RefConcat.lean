import BiotiteModel.Proofs.C01Ref
/-! Refinement of `concatenate` (n-ary append / locate lemma over `joinCols`) and of `==`. -/
namespace BiotiteModel.C01

theorem SconcatCheck_ref (st : Bool) (d : Nat) : ∀ (xs : List Arr), SconcatCheck st d (xs.map abs) = concatCheck st d xs
  | [] => rfl
  | a :: r => by
    simp only [List.map_cons, SconcatCheck, concatCheck, abs_stack, abs_depth, SconcatCheck_ref st d r]

theorem SfirstBox_ref : ∀ (xs : List Arr), SfirstBox (xs.map abs) = firstBox xs
  | [] => rfl
  | a :: r => by
    simp only [List.map_cons, SfirstBox, firstBox, abs_boxes]
    cases a.box with
    | none => exact SfirstBox_ref r
    | some b => rfl

/-- column `k` of `a` (empty if absent) -/
def colOf (k : String) (a : Arr) : List Tok := (lookup k a.annot).getD []

theorem concatCol_eq (k : String) : ∀ (xs : List Arr),
    concatCol k xs = if xs.all (fun a => hasKey k a.annot) then some (joinCols (xs.map (colOf k))) else none
  | [] => rfl
  | a :: r => by
    unfold concatCol
    rw [concatCol_eq k r]
    simp only [List.all_cons, List.map_cons, joinCols, List.foldr_cons, colOf]
    cases hl : lookup k a.annot with
    | none =>
      have : hasKey k a.annot = false := by
        cases hk : hasKey k a.annot with
        | false => rfl
        | true => obtain ⟨v, hv⟩ := (hasKey_iff_lookup k a.annot).1 hk; rw [hl] at hv; cases hv
      simp [this]
    | some c =>
      have : hasKey k a.annot = true := (hasKey_iff_lookup k a.annot).2 ⟨c, hl⟩
      simp only [this, Bool.true_and, Option.getD_some]
      by_cases hr : (r.all fun a => hasKey k a.annot) = true <;> simp [hr]

theorem filterMap_common (xs : List Arr) : ∀ (l : List (String × List Tok)),
    l.filterMap (fun p => (concatCol p.1 xs).map (fun c => (p.1, c))) =
      (l.filter (fun p => xs.all (fun a => hasKey p.1 a.annot))).map (fun p => (p.1, joinCols (xs.map (colOf p.1))))
  | [] => rfl
  | p :: r => by
    rw [List.filterMap_cons, List.filter_cons, concatCol_eq, filterMap_common xs r]
    by_cases h : (xs.all fun a => hasKey p.1 a.annot) = true
    · simp only [h, if_true, Option.map_some, List.map_cons]
    · simp only [h, Bool.false_eq_true, if_false, Option.map_none]

theorem foldl_insert_congr {β} (g h : String → Tok) : ∀ (K : List (String × β)) (init : List (String × Tok)),
    (∀ p ∈ K, g p.1 = h p.1) →
    K.foldl (fun d p => insert p.1 (g p.1) d) init = K.foldl (fun d p => insert p.1 (h p.1) d) init
  | [], _, _ => rfl
  | p :: r, init, hgh => by
    simp only [List.foldl_cons]
    rw [hgh p (by simp)]
    exact foldl_insert_congr g h r _ (fun q hq => hgh q (by simp [hq]))

theorem append_getD_left (c rs : List Tok) (t : Nat) (h : t < c.length) : (c ++ rs).getD t 0 = c.getD t 0 := by
  simp [List.getD_eq_getElem?_getD, List.getElem?_append_left h]

theorem append_getD_right (c rs : List Tok) (t : Nat) : (c ++ rs).getD (c.length + t) 0 = rs.getD t 0 := by
  simp [List.getD_eq_getElem?_getD, List.getElem?_append_right]

/-- the atom at global position `t` of the joined columns/blocks is atom `i` of the part it falls into -/
theorem rows_join {β} (K : List (String × β)) (D : Nat) (colf : Arr → String → List Tok) (blkf : Arr → Nat → List Tok) :
    ∀ (xs : List Arr), (∀ a ∈ xs, ∀ p ∈ K, (colf a p.1).length = a.n) →
      (∀ a ∈ xs, ∀ m, m < D → (blkf a m).length = a.n) →
    (List.range (totalLen xs)).map (fun t => (⟨K.foldl (fun d p => insert p.1 ((joinCols (xs.map (colf · p.1))).getD t 0) d) mandRow,
        (List.range D).map (fun m => (joinCols (xs.map (blkf · m))).getD t 0)⟩ : SAtom)) =
    xs.flatMap (fun a => (List.range a.n).map (fun i =>
      (⟨K.foldl (fun d p => insert p.1 ((colf a p.1).getD i 0) d) mandRow,
        (List.range D).map (fun m => (blkf a m).getD i 0)⟩ : SAtom)))
  | [], _, _ => rfl
  | a :: r, hc, hb => by
    have ih := rows_join K D colf blkf r (fun x hx => hc x (by simp [hx])) (fun x hx => hb x (by simp [hx]))
    have htl : totalLen (a :: r) = a.n + totalLen r := by simp [totalLen]
    rw [htl, List.range_add, List.map_append, List.flatMap_cons, ← ih, List.map_map]
    congr 1
    · apply List.map_congr_left
      intro t ht
      have ht' : t < a.n := by simpa using ht
      congr 1
      · refine foldl_insert_congr (fun k => (joinCols (List.map (fun x => colf x k) (a :: r))).getD t 0)
          (fun k => (colf a k).getD t 0) K _ (fun p hp => ?_)
        simp only [List.map_cons, joinCols, List.foldr_cons]
        exact append_getD_left _ _ _ (by rw [hc a (by simp) p hp]; exact ht')
      · apply List.map_congr_left
        intro m hm
        simp only [List.map_cons, joinCols, List.foldr_cons]
        exact append_getD_left _ _ _ (by rw [hb a (by simp) m (by simpa using hm)]; exact ht')
    · apply List.map_congr_left
      intro t _
      simp only [Function.comp_def]
      congr 1
      · refine foldl_insert_congr (fun k => (joinCols (List.map (fun x => colf x k) (a :: r))).getD (a.n + t) 0)
          (fun k => (joinCols (List.map (fun x => colf x k) r)).getD t 0) K _ (fun p hp => ?_)
        simp only [List.map_cons, joinCols, List.foldr_cons]
        rw [← hc a (by simp) p hp]
        exact append_getD_right _ _ _
      · apply List.map_congr_left
        intro m hm
        simp only [List.map_cons, joinCols, List.foldr_cons]
        rw [← hb a (by simp) m (by simpa using hm)]
        exact append_getD_right _ _ _

theorem lookup_row (k : String) (a : Arr) (i : Nat) :
    (lookup k (row a i).ann).getD 0 = (colOf k a).getD i 0 := by
  simp only [row, lookup_mapVals, colOf]
  cases lookup k a.annot <;> simp

theorem map_eq_range_getD {α β} (l : List α) (d : α) (f : α → β) :
    l.map f = (List.range l.length).map (fun m => f (l.getD m d)) := by
  conv => lhs; rw [← map_range_id l d]
  rw [List.map_map]; rfl

theorem flatMap_congr_mem {α β} (f g : α → List β) : ∀ (l : List α), (∀ a ∈ l, f a = g a) → l.flatMap f = l.flatMap g
  | [], _ => rfl
  | a :: r, h => by
    simp only [List.flatMap_cons]
    rw [h a (by simp), flatMap_congr_mem f g r (fun x hx => h x (by simp [hx]))]

theorem bondsJoin_ref (xs : List Arr) (hw : ∀ a ∈ xs, WF a) :
    (bondsJoin ((xs.map abs).map (fun x => (x.atoms.length, x.bonds.getD [])))).2 =
      (Bonds.concat (xs.map (fun a => a.bonds.getD ⟨a.n, []⟩))).bs := by
  have h := bondsJoin_concat (xs.map (fun a => a.bonds.getD ⟨a.n, []⟩))
  rw [List.map_map] at h
  have hmap : (xs.map abs).map (fun x => (x.atoms.length, x.bonds.getD [])) =
      xs.map ((fun b => (b.count, b.bs)) ∘ fun a => a.bonds.getD ⟨a.n, []⟩) := by
    rw [List.map_map]
    apply List.map_congr_left
    intro a ha
    simp only [Function.comp_def, abs_length, abs_bonds]
    cases hb : a.bonds with
    | none => rfl
    | some b => simp [((hw a ha).bonds b hb).1]
  rw [hmap, h]

theorem Sconcatenate_ref (xs : List Arr) (hw : ∀ a ∈ xs, WF a) :
    Sconcatenate (xs.map abs) = (concatenate xs).map abs := by
  unfold Sconcatenate concatenate
  rw [List.head?_map]
  cases hh : xs.head? with
  | none => rfl
  | some f =>
    simp only [Option.map_some, abs_stack, abs_depth, SconcatCheck_ref]
    cases hchk : concatCheck f.stack f.coord.length xs with
    | error e => rfl
    | ok u =>
      have hall := concatCheck_ok hchk
      have hkeys : (List.filter (fun p => (List.map abs xs).all fun x => hasKey p.1 x.names) (abs f).names).map (·.1) =
          (f.annot.filter (fun p => xs.all fun a => hasKey p.1 a.annot)).map (·.1) := by
        have hq : (fun (p : String × Unit) => (List.map abs xs).all fun x => hasKey p.1 x.names) =
            (fun p => (fun k => xs.all fun a => hasKey k a.annot) p.1) := by
          funext p
          simp [List.all_map, Function.comp_def, abs, hasKey_mapVals]
        rw [hq]
        simp only [abs]
        rw [← mapVals_filterKey (fun _ => ()) (fun k => xs.all fun a => hasKey k a.annot) f.annot, mapVals_keys]
      simp only [Except.map, hkeys]
      congr 1
      simp only [abs]
      congr 1
      · -- names
        rw [mapVals_foldl_insert, mandCols_hdr, filterMap_common, List.foldl_map, List.foldl_map]
      · -- atoms
        rw [List.flatMap_map]
        have hrows := rows_join (f.annot.filter (fun p => xs.all fun a => hasKey p.1 a.annot)) f.coord.length
          (fun a k => colOf k a) (fun a m => a.coord.getD m []) xs
          (by
            intro a ha p hp
            have hk : hasKey p.1 a.annot = true := by
              have := (List.mem_filter.1 hp).2
              exact List.all_eq_true.1 this a ha
            obtain ⟨c, hc⟩ := (hasKey_iff_lookup _ _).1 hk
            simp only [colOf, hc, Option.getD_some]
            exact (hw a ha).cols _ (lookup_mem hc))
          (by
            intro a ha m hm
            have hd := (hall a ha).2
            rw [List.getD_eq_getElem?_getD, List.getElem?_eq_getElem (by omega)]
            exact (hw a ha).blocks _ (List.getElem_mem _))
        have hR : (List.range (totalLen xs)).map (row
              { stack := f.stack, n := totalLen xs,
                annot := List.foldl (fun d p => insert p.1 p.2 d) (mandCols (totalLen xs))
                  (List.filterMap (fun p => Option.map (fun c => (p.1, c)) (concatCol p.1 xs)) f.annot),
                coord := List.map (fun m => concatBlock m xs) (List.range f.coord.length),
                box := firstBox xs,
                bonds := if (xs.any fun x => x.bonds.isSome) = true then
                    some (Bonds.concat (List.map (fun a => a.bonds.getD { count := a.n, bs := [] }) xs)) else none }) =
            (List.range (totalLen xs)).map (fun t => (⟨(f.annot.filter (fun p => xs.all fun a => hasKey p.1 a.annot)).foldl
                (fun d p => insert p.1 ((joinCols (xs.map (fun a => colOf p.1 a))).getD t 0) d) mandRow,
              (List.range f.coord.length).map (fun m => (joinCols (xs.map (fun a => a.coord.getD m []))).getD t 0)⟩ : SAtom)) := by
          apply List.map_congr_left
          intro t _
          simp only [row]
          rw [mapVals_foldl_insert, mandCols_row, filterMap_common, List.foldl_map, List.map_map]
          rfl
        rw [hR, hrows]
        apply flatMap_congr_mem
        intro a ha
        simp only [Function.comp_def, abs, List.map_map]
        apply List.map_congr_left
        intro i _
        simp only [Function.comp_def, restrictRow, List.foldl_map, lookup_row]
        congr 1
        simp only [row]
        rw [map_eq_range_getD a.coord [] (fun c => c.getD i 0), (hall a ha).2]
      · simp
      · exact SfirstBox_ref xs
      · -- bonds
        have hany : ((List.map abs xs).any fun x => x.bonds.isSome) = xs.any fun x => x.bonds.isSome := by
          simp [List.any_map, Function.comp_def]
        rw [hany]
        by_cases hb : (xs.any fun x => x.bonds.isSome) = true
        · simp only [hb, if_true, Option.map_some]; rw [bondsJoin_ref xs hw]
        · simp only [hb, Bool.false_eq_true, if_false, Option.map_none]

/-! ## the `==` observation -/

theorem coord_eq_rows (a b : Arr) (hwa : WF a) (hwb : WF b) (hn : b.n = a.n) :
    (a.coord == b.coord) =
      ((a.coord.length == b.coord.length) &&
        (List.range a.n).all (fun i => a.coord.map (·.getD i 0) == b.coord.map (·.getD i 0))) := by
  rw [Bool.eq_iff_iff]
  simp only [beq_iff_eq, Bool.and_eq_true, List.all_eq_true, List.mem_range]
  constructor
  · intro h; rw [h]; exact ⟨rfl, fun _ _ => rfl⟩
  · rintro ⟨hl, hrows⟩
    apply List.ext_getElem hl
    intro m h1 h2
    have hla : (a.coord[m]).length = a.n := hwa.blocks _ (List.getElem_mem _)
    have hlb : (b.coord[m]).length = a.n := by rw [← hn]; exact hwb.blocks _ (List.getElem_mem _)
    apply List.ext_getElem (by rw [hla, hlb])
    intro i hi1 hi2
    have hi : i < a.n := by rw [← hla]; exact hi1
    have := congrArg (fun l => l[m]?) (hrows i hi)
    simp only [List.getElem?_map, List.getElem?_eq_getElem h1, List.getElem?_eq_getElem h2, Option.map_some,
      Option.some.injEq, List.getD_eq_getElem?_getD, List.getElem?_eq_getElem hi1, List.getElem?_eq_getElem hi2,
      Option.getD_some] at this
    exact this

theorem SequalArr_ref (a b : Arr) (hwa : WF a) (hwb : WF b) : SequalArr (abs a) (abs b) = equalArr a b := by
  unfold SequalArr equalArr
  simp only [abs_stack, abs_length, abs_boxes, abs_depth]
  by_cases hn : a.n = b.n
  · rw [SequalAnnot_ref a b hwa hwb hn.symm, SequalBonds_ref a b hwa hwb, coord_eq_rows a b hwa hwb hn.symm]
    have hco : (List.range a.n).all (fun i => ((abs a).at i).co == ((abs b).at i).co) =
        (List.range a.n).all (fun i => a.coord.map (·.getD i 0) == b.coord.map (·.getD i 0)) := by
      apply all_congr_mem
      intro i hi
      have hi' : i < a.n := by simpa using hi
      rw [abs_at a i hi', abs_at b i (by rw [← hn]; exact hi')]
      rfl
    rw [hco]
    simp only [Bool.and_assoc]
  · have : (a.n == b.n) = false := by simpa using hn
    simp [this]

end BiotiteModel.C01

import BiotiteModel.Proofs.C04Compose
/-! `get_structure`: model selection (`model=None`, positive and negative indices) on a written block. -/
namespace BiotiteModel.C04

/-! ### a model = the rows with its number -/

theorem blocksOk_not_seen : ∀ (bs : List (List SiteRow)) (seen : List Int), BlocksOk seen bs →
    ∀ x ∈ bs.flatten, x.model ∉ seen := by
  intro bs
  induction bs with
  | nil => intro seen _ x hx; simp at hx
  | cons b rest ih =>
    intro seen hok x hx
    obtain ⟨v, _, hv, hns, hrest⟩ := hok
    simp only [List.flatten_cons, List.mem_append] at hx
    rcases hx with hx | hx
    · rw [hv x hx]; exact hns
    · have := ih (v :: seen) hrest x hx
      intro hm; exact this (by simp [hm])

theorem filter_blocks : ∀ (bs : List (List SiteRow)) (seen : List Int), BlocksOk seen bs →
    ∀ (k : Nat) (r : SiteRow) (g : List SiteRow), bs[k]? = some (r :: g) →
    bs.flatten.filter (fun x => x.model == r.model) = r :: g := by
  intro bs
  induction bs with
  | nil => intro seen _ k r g h; simp at h
  | cons b rest ih =>
    intro seen hok k r g h
    obtain ⟨v, _, hv, _, hrest⟩ := hok
    cases k with
    | zero =>
      simp only [List.getElem?_cons_zero, Option.some.injEq] at h
      subst h
      have hrv : r.model = v := hv r (by simp)
      have h1 : (r :: g).filter (fun x => x.model == r.model) = r :: g := by
        rw [List.filter_eq_self]
        intro x hx; simp [hv x hx, hrv]
      have h2 : rest.flatten.filter (fun x => x.model == r.model) = [] := by
        rw [List.filter_eq_nil_iff]
        intro x hx
        have := blocksOk_not_seen rest (v :: seen) hrest x hx
        simp only [beq_iff_eq]
        intro e; apply this; rw [e, hrv]; simp
      simp only [List.flatten_cons, List.filter_append, h1, h2, List.append_nil]
    | succ k =>
      simp only [List.getElem?_cons_succ] at h
      have hr : r ∈ rest.flatten := List.mem_flatten.mpr ⟨r :: g, List.mem_of_getElem? h, by simp⟩
      have hne : r.model ≠ v := by
        have := blocksOk_not_seen rest (v :: seen) hrest r hr
        intro e; apply this; simp [e]
      have h1 : b.filter (fun x => x.model == r.model) = [] := by
        rw [List.filter_eq_nil_iff]
        intro x hx
        simp only [beq_iff_eq]
        rw [hv x hx]; exact fun e => hne e.symm
      simp only [List.flatten_cons, List.filter_append, h1, List.nil_append]
      exact ih (v :: seen) hrest k r g h

/-- On a table made of blocks, the k-th model is the k-th block. -/
theorem select_blocks (bs : List (List SiteRow)) (hok : BlocksOk [] bs) (k : Nat) (g : List SiteRow)
    (hg : bs[k]? = some g) : selectModel bs.flatten k = g := by
  unfold selectModel modelNumbers
  rw [split_blocks bs hok, List.getElem?_map, hg]
  cases g with
  | nil =>
    -- blocks are never empty
    exfalso
    have : ([] : List SiteRow) ∈ bs := List.mem_of_getElem? hg
    clear hg
    induction bs generalizing k with
    | nil => simp at this
    | cons b rest ih => exact absurd this (by
        intro hm
        have key : ∀ (l : List (List SiteRow)) (seen : List Int), BlocksOk seen l → ([] : List SiteRow) ∉ l := by
          intro l
          induction l with
          | nil => intro _ _ h; simp at h
          | cons x xs ihx =>
            intro seen hk h
            obtain ⟨v, hne, _, _, hr⟩ := hk
            simp only [List.mem_cons] at h
            rcases h with h | h
            · exact hne h.symm
            · exact ihx (v :: seen) hr h
        exact key _ _ hok hm)
  | cons r g' =>
    simp only [Option.map_some, List.head?_cons]
    exact filter_blocks bs [] hok k r g' hg

/-- The 1-based model index `get_structure` computes from `model` (negative = from the end). -/
def normModel (count : Nat) (m : Int) : Int := if m < 0 then (count : Int) + m + 1 else m

theorem readStructure_model (ccd : Ccd) (b : Block) (hc hi : Bool) (m : Int) (hm : m ≠ 0)
    (h1 : 1 ≤ normModel (distinctCount (b.site.map (·.model))) m)
    (h2 : normModel (distinctCount (b.site.map (·.model))) m ≤ (distinctCount (b.site.map (·.model)) : Int)) :
    readStructure ccd b ⟨some m, .first, true, hc, hi⟩ =
      readCore ccd (selectModel b.site ((normModel (distinctCount (b.site.map (·.model))) m).toNat - 1))
        [(selectModel b.site ((normModel (distinctCount (b.site.map (·.model))) m).toNat - 1)).map (·.xyz)]
        b.conn b.ccb b.cell hc hi := by
  have hm0 : (m == 0) = false := by simpa using hm
  unfold normModel at h1 h2 ⊢
  have hcond : (decide ((if m < 0 then (distinctCount (b.site.map (·.model)) : Int) + m + 1 else m) >
      (distinctCount (b.site.map (·.model)) : Int)) ||
      decide ((if m < 0 then (distinctCount (b.site.map (·.model)) : Int) + m + 1 else m) < 1)) = false := by
    simp only [Bool.or_eq_false_iff, decide_eq_false_iff_not]
    constructor <;> omega
  unfold readStructure readCore
  simp only [bind, Except.bind, pure, Except.pure, hm0, Bool.false_eq_true, if_false, hcond]
  cases b.conn with
  | none => simp
  | some c =>
    simp only []
    cases parseInter _ c <;> simp [Except.map]

theorem readStructure_model_rejected (ccd : Ccd) (b : Block) (o : ReadOpts) (m : Int) (hom : o.model = some m)
    (h : m = 0 ∨ normModel (distinctCount (b.site.map (·.model))) m > (distinctCount (b.site.map (·.model)) : Int) ∨
      normModel (distinctCount (b.site.map (·.model))) m < 1) :
    readStructure ccd b o = .error .valueError := by
  unfold readStructure
  simp only [hom, bind, Except.bind, pure, Except.pure]
  by_cases hm : m = 0
  · simp [hm]; rfl
  · have hm0 : (m == 0) = false := by simpa using hm
    have hcond : (decide ((if m < 0 then (distinctCount (b.site.map (·.model)) : Int) + m + 1 else m) >
        (distinctCount (b.site.map (·.model)) : Int)) ||
        decide ((if m < 0 then (distinctCount (b.site.map (·.model)) : Int) + m + 1 else m) < 1)) = true := by
      rcases h with h | h | h
      · exact absurd h hm
      · simp only [Bool.or_eq_true, decide_eq_true_eq]; left; exact h
      · simp only [Bool.or_eq_true, decide_eq_true_eq]; right; exact h
    simp only [hm0, Bool.false_eq_true, if_false, hcond, if_true]
    rfl

theorem readStructure_all (ccd : Ccd) (b : Block) (hc hi : Bool)
    (heq : ∀ g ∈ splitModels b.site, g.length = (selectModel b.site 0).length)
    (hconst : ∀ g ∈ splitModels b.site, ∀ r ∈ g, some r.model = g.head?.map (·.model)) :
    readStructure ccd b ⟨none, .first, true, hc, hi⟩ =
      readCore ccd (selectModel b.site 0)
        (chunks (selectModel b.site 0).length (distinctCount (b.site.map (·.model))) (b.site.map (·.xyz)))
        b.conn b.ccb b.cell hc hi := by
  have hany : (splitModels b.site).any (fun g => g.length != (selectModel b.site 0).length) = false := by
    rw [List.any_eq_false]
    intro g hg
    simpa using heq g hg
  have hany2 : (splitModels b.site).any (fun g => g.any (fun r => some r.model != g.head?.map (·.model))) = false := by
    rw [List.any_eq_false]
    intro g hg
    rw [Bool.not_eq_true, List.any_eq_false]
    intro r hr
    simpa using hconst g hg r hr
  unfold readStructure readCore
  simp only [bind, Except.bind, pure, Except.pure, hany, hany2, Bool.or_self, Bool.false_eq_true, if_false]
  cases b.conn with
  | none => simp
  | some c =>
    simp only []
    cases parseInter _ c <;> simp [Except.map]

/-- **Unequal model lengths and interleaved models are rejected** (repaired check): if some group has
another length than the first model, or a group contains rows of another model, `get_structure(model=None)`
raises `InvalidFileError`, whatever the total is. -/
theorem readStructure_unequal (ccd : Ccd) (b : Block) (o : ReadOpts) (hom : o.model = none)
    (h : (∃ g ∈ splitModels b.site, g.length ≠ (selectModel b.site 0).length) ∨
         (∃ g ∈ splitModels b.site, ∃ r ∈ g, some r.model ≠ g.head?.map (·.model))) :
    readStructure ccd b o = .error .invalidFile := by
  have hany : ((splitModels b.site).any (fun g => g.length != (selectModel b.site 0).length) ||
      (splitModels b.site).any (fun g => g.any (fun r => some r.model != g.head?.map (·.model)))) = true := by
    rw [Bool.or_eq_true]
    rcases h with ⟨g, hg, hne⟩ | ⟨g, hg, r, hr, hne⟩
    · left; rw [List.any_eq_true]; exact ⟨g, hg, by simpa using hne⟩
    · right; rw [List.any_eq_true]; refine ⟨g, hg, ?_⟩
      rw [List.any_eq_true]; exact ⟨r, hr, by simpa using hne⟩
  unfold readStructure
  simp only [hom, bind, Except.bind, pure, Except.pure, hany, if_true]
  rfl

/-! ### on a written block -/

theorem modelBlock_length' (h : Bool) (k : Int) : ∀ (rows : List SiteRow) (cs : List Tok) (i : Nat),
    cs.length = rows.length → (modelBlock h k i rows cs).length = rows.length := by
  intro rows
  induction rows with
  | nil => intro cs i _; simp [modelBlock]
  | cons r rs ih =>
    intro cs i hl
    cases cs with
    | nil => simp at hl
    | cons c cs => simp [modelBlock, ih cs (i + 1) (by simpa using hl)]

theorem modelBlock_xyz (h : Bool) (k : Int) : ∀ (rows : List SiteRow) (cs : List Tok) (i : Nat),
    cs.length = rows.length → (modelBlock h k i rows cs).map (·.xyz) = cs := by
  intro rows
  induction rows with
  | nil =>
    intro cs i hl
    have : cs = [] := by simpa using hl
    subst this; simp [modelBlock]
  | cons r rs ih =>
    intro cs i hl
    cases cs with
    | nil => simp at hl
    | cons c cs => simp [modelBlock, ih cs (i + 1) (by simpa using hl)]

theorem modelBlocks_xyz (h : Bool) (rows : List SiteRow) : ∀ (coords : List (List Tok)) (k0 : Nat),
    (∀ c ∈ coords, c.length = rows.length) →
    (modelBlocks h rows k0 coords).map (fun g => g.map (·.xyz)) = coords ∧
    ∀ g ∈ modelBlocks h rows k0 coords, g.length = rows.length := by
  intro coords
  induction coords with
  | nil => intro k0 _; simp [modelBlocks]
  | cons c cs ih =>
    intro k0 hc
    obtain ⟨i1, i2⟩ := ih (k0 + 1) (fun x hx => hc x (by simp [hx]))
    have hcl := hc c (by simp)
    have hx := modelBlock_xyz h ((k0 : Int) + 1) rows c (k0 * rows.length) hcl
    refine ⟨by simp only [modelBlocks, List.map_cons, hx, i1], ?_⟩
    intro g hg
    simp only [modelBlocks, List.mem_cons] at hg
    rcases hg with rfl | hg
    · exact modelBlock_length' _ _ _ _ _ hcl
    · exact i2 g hg

end BiotiteModel.C04

namespace BiotiteModel.C04

theorem stack_roundtrip (ccd : Ccd) (s : Structure) (bs : List Bond) (w : WFS ccd s bs) :
    ∃ blk bs', writeBlock s true = .ok blk ∧ (∀ b, b ∈ bs' ↔ b ∈ bs) ∧
      readStructure ccd blk ⟨none, .first, true, s.hasCharge, s.hasAtomId⟩ =
        .ok ⟨s.atoms, s.hasCharge, s.hasAtomId, s.coords, s.box, some bs'⟩ ∧
      (∀ (k : Nat) (hk : k < s.coords.length) (m : Int),
        (m = (k : Int) + 1 ∨ m = (k : Int) - (s.coords.length : Int)) →
        readStructure ccd blk ⟨some m, .first, true, s.hasCharge, s.hasAtomId⟩ =
          .ok ⟨s.atoms, s.hasCharge, s.hasAtomId, [s.coords[k]], s.box, some bs'⟩) ∧
      (∀ m : Int, (m = 0 ∨ m > (s.coords.length : Int) ∨ m < -(s.coords.length : Int)) →
        readStructure ccd blk ⟨some m, .first, true, s.hasCharge, s.hasAtomId⟩ = .error .valueError) := by
  obtain ⟨conn, ccb, bs', hw, hmem, hcore⟩ := written_block ccd s bs w
  have hgroups := split_writeSite s w.atoms_ne w.coords_len
  have hclen : ∀ c ∈ s.coords, c.length = (writeRows s).length := by
    intro c hc; rw [writeRows_length]; exact w.coords_len c hc
  obtain ⟨hxyz, hlen⟩ := modelBlocks_xyz s.hasAtomId (writeRows s) s.coords 0 hclen
  have hcnt : distinctCount ((writeSite s).map (·.model)) = s.coords.length := by
    rw [distinct_eq_groups, hgroups, modelBlocks_length]
  refine ⟨⟨writeSite s, conn, ccb, s.box⟩, bs', hw, hmem, ?_, ?_, ?_⟩
  · -- model=None
    obtain ⟨c0, cs, hcoords⟩ : ∃ c0 cs, s.coords = c0 :: cs := by
      cases hcs : s.coords with
      | nil => exact absurd hcs w.coords_ne
      | cons c0 cs => exact ⟨c0, cs, rfl⟩
    have hblocks : BlocksOk [] (modelBlocks s.hasAtomId (writeRows s) 0 s.coords) := by
      have hrows : writeRows s ≠ [] := by
        intro h
        have := writeRows_length s
        rw [h] at this
        exact w.atoms_ne (List.length_eq_zero_iff.mp this.symm)
      exact blocksOk_modelBlocks _ _ hrows _ (by
        intro c hc h
        have := w.coords_len c hc
        rw [h] at this
        exact w.atoms_ne (List.length_eq_zero_iff.mp this.symm)) 0 [] (by simp)
    have hhead : selectModel (writeSite s) 0 = modelBlock s.hasAtomId 1 0 (writeRows s) c0 := by
      unfold writeSite
      apply select_blocks _ hblocks 0
      rw [hcoords]; simp [modelBlocks]
    have hc0 : c0.length = s.atoms.length := w.coords_len c0 (by rw [hcoords]; simp)
    have hheadlen : (selectModel (writeSite s) 0).length = s.atoms.length := by
      rw [hhead, modelBlock_length' _ _ _ _ _ (by rw [hc0, writeRows_length]), writeRows_length]
    rw [readStructure_all ccd ⟨writeSite s, conn, ccb, s.box⟩ _ _ (by
      intro g hg
      rw [hheadlen]
      rw [hgroups] at hg
      rw [hlen g hg, writeRows_length]) (by
      intro g hg r hr
      rw [hgroups] at hg
      obtain ⟨k, hk⟩ := List.getElem?_of_mem hg
      rw [modelBlocks_getElem?] at hk
      cases hck : s.coords[k]? with
      | none => rw [hck] at hk; simp at hk
      | some c =>
        rw [hck] at hk
        simp only [Option.map_some, Option.some.injEq] at hk
        subst hk
        have hm := modelBlock_model s.hasAtomId (((0 + k : Nat) : Int) + 1) (writeRows s) c ((0 + k) * (writeRows s).length)
        cases hgl : modelBlock s.hasAtomId (((0 + k : Nat) : Int) + 1) ((0 + k) * (writeRows s).length) (writeRows s) c with
        | nil => rw [hgl] at hr; simp at hr
        | cons r0 rest =>
          rw [hgl] at hr
          have h1 := hm r (by rw [hgl]; exact hr)
          have h2 := hm r0 (by rw [hgl]; simp)
          simp [h1, h2])]
    have hchunks : chunks (selectModel (writeSite s) 0).length (distinctCount ((writeSite s).map (·.model)))
        ((writeSite s).map (·.xyz)) = s.coords := by
      rw [hheadlen, hcnt]
      have : (writeSite s).map (·.xyz) = s.coords.flatten := by
        unfold writeSite
        rw [List.map_flatten, hxyz]
      rw [this]
      exact chunks_flatten s.atoms.length s.coords w.coords_len
    simp only [hchunks]
    simp only [hhead]
    exact hcore 1 0 c0 s.coords hc0 w.coords_len
  · -- an explicit model, counted from the front or from the back
    intro k hk m hm
    have hnorm : normModel (distinctCount ((writeSite s).map (·.model))) m = (k : Int) + 1 := by
      rw [hcnt]
      unfold normModel
      rcases hm with rfl | rfl
      · have : ¬ ((k : Int) + 1 < 0) := by omega
        simp [this]
      · have : (k : Int) - (s.coords.length : Int) < 0 := by omega
        simp only [this, if_true]; omega
    have hm0 : m ≠ 0 := by rcases hm with rfl | rfl <;> omega
    rw [readStructure_model ccd ⟨writeSite s, conn, ccb, s.box⟩ _ _ m hm0 (by rw [hnorm]; omega)
      (by rw [hnorm, hcnt]; omega)]
    simp only [hnorm]
    have hidx : ((k : Int) + 1).toNat - 1 = k := by omega
    rw [hidx]
    have hblocks : BlocksOk [] (modelBlocks s.hasAtomId (writeRows s) 0 s.coords) := by
      have hrows : writeRows s ≠ [] := by
        intro h
        have := writeRows_length s
        rw [h] at this
        exact w.atoms_ne (List.length_eq_zero_iff.mp this.symm)
      exact blocksOk_modelBlocks _ _ hrows _ (by
        intro c hc h
        have := w.coords_len c hc
        rw [h] at this
        exact w.atoms_ne (List.length_eq_zero_iff.mp this.symm)) 0 [] (by simp)
    have hg : selectModel (writeSite s) k =
        modelBlock s.hasAtomId ((k : Int) + 1) (k * (writeRows s).length) (writeRows s) s.coords[k] := by
      unfold writeSite
      apply select_blocks _ hblocks k
      simp only [modelBlocks_getElem?, List.getElem?_eq_getElem hk, Option.map_some, Nat.zero_add]
    have hck : s.coords[k].length = s.atoms.length := w.coords_len _ (List.getElem_mem hk)
    rw [hg, modelBlock_xyz _ _ _ _ _ (by rw [hck, writeRows_length])]
    exact hcore _ _ _ [s.coords[k]] hck (by intro x hx; simp at hx; rw [hx]; exact hck)
  · intro m hm
    apply readStructure_model_rejected ccd _ _ m rfl
    rw [hcnt]
    unfold normModel
    rcases hm with h | h | h
    · left; exact h
    · right; left
      have : ¬ (m < 0) := by omega
      simp only [this, if_false]; exact h
    · right; right
      have : m < 0 := by omega
      simp only [this, if_true]; omega

end BiotiteModel.C04

import BiotiteModel.Proofs.C04Compose
/-! `get_structure`: model selection (`model=None`, positive and negative indices) on a written block. -/
namespace BiotiteModel.C04

/-- The 1-based model index `get_structure` computes from `model` (negative = from the end). -/
def normModel (count : Nat) (m : Int) : Int := if m < 0 then (count : Int) + m + 1 else m

theorem readStructure_model (ccd : Ccd) (b : Block) (hc hi : Bool) (m : Int) (hm : m ≠ 0)
    (h1 : 1 ≤ normModel (distinctCount (b.site.map (·.model))) m)
    (h2 : normModel (distinctCount (b.site.map (·.model))) m ≤ (distinctCount (b.site.map (·.model)) : Int)) :
    readStructure ccd b ⟨some m, .first, true, hc, hi⟩ =
      readCore ccd ((splitModels b.site).getD ((normModel (distinctCount (b.site.map (·.model))) m).toNat - 1) [])
        [((splitModels b.site).getD ((normModel (distinctCount (b.site.map (·.model))) m).toNat - 1) []).map (·.xyz)]
        b.conn b.ccb b.cell hc hi := by
  have hm0 : (m == 0) = false := by simpa using hm
  unfold normModel at h1 h2 ⊢
  have hcond : (decide ((if m < 0 then (distinctCount (b.site.map (·.model)) : Int) + m + 1 else m) >
      (distinctCount (b.site.map (·.model)) : Int)) ||
      decide ((if m < 0 then (distinctCount (b.site.map (·.model)) : Int) + m + 1 else m) < 1)) = false := by
    simp only [Bool.or_eq_false_iff, decide_eq_false_iff_not]
    constructor <;> omega
  unfold readStructure readCore
  simp only [bind, Except.bind, pure, Except.pure, hm0, Bool.false_eq_true, if_false, hcond]
  cases b.conn with
  | none => simp
  | some c =>
    simp only []
    cases parseInter _ c <;> simp [Except.map]

theorem readStructure_model_rejected (ccd : Ccd) (b : Block) (o : ReadOpts) (m : Int) (hom : o.model = some m)
    (h : m = 0 ∨ normModel (distinctCount (b.site.map (·.model))) m > (distinctCount (b.site.map (·.model)) : Int) ∨
      normModel (distinctCount (b.site.map (·.model))) m < 1) :
    readStructure ccd b o = .error .valueError := by
  unfold readStructure
  simp only [hom, bind, Except.bind, pure, Except.pure]
  by_cases hm : m = 0
  · simp [hm]; rfl
  · have hm0 : (m == 0) = false := by simpa using hm
    have hcond : (decide ((if m < 0 then (distinctCount (b.site.map (·.model)) : Int) + m + 1 else m) >
        (distinctCount (b.site.map (·.model)) : Int)) ||
        decide ((if m < 0 then (distinctCount (b.site.map (·.model)) : Int) + m + 1 else m) < 1)) = true := by
      rcases h with h | h | h
      · exact absurd h hm
      · simp only [Bool.or_eq_true, decide_eq_true_eq]; left; exact h
      · simp only [Bool.or_eq_true, decide_eq_true_eq]; right; exact h
    simp only [hm0, Bool.false_eq_true, if_false, hcond, if_true]
    rfl

theorem readStructure_all (ccd : Ccd) (b : Block) (hc hi : Bool)
    (heq : ∀ g ∈ splitModels b.site, g.length = ((splitModels b.site).headD []).length) :
    readStructure ccd b ⟨none, .first, true, hc, hi⟩ =
      readCore ccd ((splitModels b.site).headD [])
        (chunks ((splitModels b.site).headD []).length (distinctCount (b.site.map (·.model))) (b.site.map (·.xyz)))
        b.conn b.ccb b.cell hc hi := by
  have hany : (splitModels b.site).any (fun g => g.length != ((splitModels b.site).headD []).length) = false := by
    rw [List.any_eq_false]
    intro g hg
    simpa using heq g hg
  unfold readStructure readCore
  simp only [bind, Except.bind, pure, Except.pure, hany, Bool.false_eq_true, if_false]
  cases b.conn with
  | none => simp
  | some c =>
    simp only []
    cases parseInter _ c <;> simp [Except.map]

/-- **Unequal model lengths are rejected** (repaired check): if some model has another length than
the first one, `get_structure(model=None)` raises `InvalidFileError`, whatever the total is. -/
theorem readStructure_unequal (ccd : Ccd) (b : Block) (o : ReadOpts) (hom : o.model = none)
    (h : ∃ g ∈ splitModels b.site, g.length ≠ ((splitModels b.site).headD []).length) :
    readStructure ccd b o = .error .invalidFile := by
  have hany : (splitModels b.site).any (fun g => g.length != ((splitModels b.site).headD []).length) = true := by
    rw [List.any_eq_true]
    obtain ⟨g, hg, hne⟩ := h
    exact ⟨g, hg, by simpa using hne⟩
  unfold readStructure
  simp only [hom, bind, Except.bind, pure, Except.pure, hany, if_true]
  rfl

/-! ### on a written block -/

theorem modelBlock_length' (h : Bool) (k : Int) : ∀ (rows : List SiteRow) (cs : List Tok) (i : Nat),
    cs.length = rows.length → (modelBlock h k i rows cs).length = rows.length := by
  intro rows
  induction rows with
  | nil => intro cs i _; simp [modelBlock]
  | cons r rs ih =>
    intro cs i hl
    cases cs with
    | nil => simp at hl
    | cons c cs => simp [modelBlock, ih cs (i + 1) (by simpa using hl)]

theorem modelBlock_xyz (h : Bool) (k : Int) : ∀ (rows : List SiteRow) (cs : List Tok) (i : Nat),
    cs.length = rows.length → (modelBlock h k i rows cs).map (·.xyz) = cs := by
  intro rows
  induction rows with
  | nil =>
    intro cs i hl
    have : cs = [] := by simpa using hl
    subst this; simp [modelBlock]
  | cons r rs ih =>
    intro cs i hl
    cases cs with
    | nil => simp at hl
    | cons c cs => simp [modelBlock, ih cs (i + 1) (by simpa using hl)]

theorem modelBlocks_xyz (h : Bool) (rows : List SiteRow) : ∀ (coords : List (List Tok)) (k0 : Nat),
    (∀ c ∈ coords, c.length = rows.length) →
    (modelBlocks h rows k0 coords).map (fun g => g.map (·.xyz)) = coords ∧
    ∀ g ∈ modelBlocks h rows k0 coords, g.length = rows.length := by
  intro coords
  induction coords with
  | nil => intro k0 _; simp [modelBlocks]
  | cons c cs ih =>
    intro k0 hc
    obtain ⟨i1, i2⟩ := ih (k0 + 1) (fun x hx => hc x (by simp [hx]))
    have hcl := hc c (by simp)
    have hx := modelBlock_xyz h ((k0 : Int) + 1) rows c (k0 * rows.length) hcl
    refine ⟨by simp only [modelBlocks, List.map_cons, hx, i1], ?_⟩
    intro g hg
    simp only [modelBlocks, List.mem_cons] at hg
    rcases hg with rfl | hg
    · exact modelBlock_length' _ _ _ _ _ hcl
    · exact i2 g hg

end BiotiteModel.C04

namespace BiotiteModel.C04

theorem stack_roundtrip (ccd : Ccd) (s : Structure) (bs : List Bond) (w : WFS ccd s bs) :
    ∃ blk bs', writeBlock s true = .ok blk ∧ (∀ b, b ∈ bs' ↔ b ∈ bs) ∧
      readStructure ccd blk ⟨none, .first, true, s.hasCharge, s.hasAtomId⟩ =
        .ok ⟨s.atoms, s.hasCharge, s.hasAtomId, s.coords, s.box, some bs'⟩ ∧
      (∀ (k : Nat) (hk : k < s.coords.length) (m : Int),
        (m = (k : Int) + 1 ∨ m = (k : Int) - (s.coords.length : Int)) →
        readStructure ccd blk ⟨some m, .first, true, s.hasCharge, s.hasAtomId⟩ =
          .ok ⟨s.atoms, s.hasCharge, s.hasAtomId, [s.coords[k]], s.box, some bs'⟩) ∧
      (∀ m : Int, (m = 0 ∨ m > (s.coords.length : Int) ∨ m < -(s.coords.length : Int)) →
        readStructure ccd blk ⟨some m, .first, true, s.hasCharge, s.hasAtomId⟩ = .error .valueError) := by
  obtain ⟨conn, ccb, bs', hw, hmem, hcore⟩ := written_block ccd s bs w
  have hgroups := split_writeSite s w.atoms_ne w.coords_len
  have hclen : ∀ c ∈ s.coords, c.length = (writeRows s).length := by
    intro c hc; rw [writeRows_length]; exact w.coords_len c hc
  obtain ⟨hxyz, hlen⟩ := modelBlocks_xyz s.hasAtomId (writeRows s) s.coords 0 hclen
  have hcnt : distinctCount ((writeSite s).map (·.model)) = s.coords.length := by
    rw [distinct_eq_groups, hgroups, modelBlocks_length]
  refine ⟨⟨writeSite s, conn, ccb, s.box⟩, bs', hw, hmem, ?_, ?_, ?_⟩
  · -- model=None
    obtain ⟨c0, cs, hcoords⟩ : ∃ c0 cs, s.coords = c0 :: cs := by
      cases hcs : s.coords with
      | nil => exact absurd hcs w.coords_ne
      | cons c0 cs => exact ⟨c0, cs, rfl⟩
    have hhead : (splitModels (writeSite s)).headD [] = modelBlock s.hasAtomId 1 0 (writeRows s) c0 := by
      rw [hgroups, hcoords]; simp [modelBlocks]
    have hc0 : c0.length = s.atoms.length := w.coords_len c0 (by rw [hcoords]; simp)
    have hheadlen : ((splitModels (writeSite s)).headD []).length = s.atoms.length := by
      rw [hhead, modelBlock_length' _ _ _ _ _ (by rw [hc0, writeRows_length]), writeRows_length]
    rw [readStructure_all ccd ⟨writeSite s, conn, ccb, s.box⟩ _ _ (by
      intro g hg
      rw [hheadlen]
      rw [hgroups] at hg
      rw [hlen g hg, writeRows_length])]
    have hchunks : chunks ((splitModels (writeSite s)).headD []).length (distinctCount ((writeSite s).map (·.model)))
        ((writeSite s).map (·.xyz)) = s.coords := by
      rw [hheadlen, hcnt]
      have : (writeSite s).map (·.xyz) = s.coords.flatten := by
        unfold writeSite
        rw [List.map_flatten, hxyz]
      rw [this]
      exact chunks_flatten s.atoms.length s.coords w.coords_len
    simp only [hchunks]
    simp only [hhead]
    exact hcore 1 0 c0 s.coords hc0 w.coords_len
  · -- an explicit model, counted from the front or from the back
    intro k hk m hm
    have hnorm : normModel (distinctCount ((writeSite s).map (·.model))) m = (k : Int) + 1 := by
      rw [hcnt]
      unfold normModel
      rcases hm with rfl | rfl
      · have : ¬ ((k : Int) + 1 < 0) := by omega
        simp [this]
      · have : (k : Int) - (s.coords.length : Int) < 0 := by omega
        simp only [this, if_true]; omega
    have hm0 : m ≠ 0 := by rcases hm with rfl | rfl <;> omega
    rw [readStructure_model ccd ⟨writeSite s, conn, ccb, s.box⟩ _ _ m hm0 (by rw [hnorm]; omega)
      (by rw [hnorm, hcnt]; omega)]
    simp only [hnorm]
    have hidx : ((k : Int) + 1).toNat - 1 = k := by omega
    rw [hidx]
    have hg : (splitModels (writeSite s)).getD k [] =
        modelBlock s.hasAtomId ((k : Int) + 1) (k * (writeRows s).length) (writeRows s) s.coords[k] := by
      rw [hgroups]
      simp only [List.getD, modelBlocks_getElem?, List.getElem?_eq_getElem hk, Option.map_some, Option.getD_some,
        Nat.zero_add]
    have hck : s.coords[k].length = s.atoms.length := w.coords_len _ (List.getElem_mem hk)
    rw [hg, modelBlock_xyz _ _ _ _ _ (by rw [hck, writeRows_length])]
    exact hcore _ _ _ [s.coords[k]] hck (by intro x hx; simp at hx; rw [hx]; exact hck)
  · intro m hm
    apply readStructure_model_rejected ccd _ _ m rfl
    rw [hcnt]
    unfold normModel
    rcases hm with h | h | h
    · left; exact h
    · right; left
      have : ¬ (m < 0) := by omega
      simp only [this, if_false]; exact h
    · right; right
      have : m < 0 := by omega
      simp only [this, if_true]; omega

end BiotiteModel.C04

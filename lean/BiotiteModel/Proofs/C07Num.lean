import BiotiteModel.Proofs.C07Misc
/-! Reading the writer's number text back: `float()` on fixed-point text, the charge field. -/
namespace BiotiteModel.C07

def dfold (acc : Nat) (s : List Char) : Nat := s.foldl (fun acc c => acc * 10 + (c.toNat - 48)) acc

theorem digVal_eq (s : List Char) : digVal s = dfold 0 s := rfl

theorem dfold_append (acc : Nat) (a b : List Char) : dfold acc (a ++ b) = dfold (dfold acc a) b := by
  simp [dfold, List.foldl_append]

theorem dfold_digit (acc d : Nat) (hd : d < 10) : dfold acc [Char.ofNat (48 + d)] = acc * 10 + d := by
  have h := toNat_ofNat_small (48 + d) (by omega)
  simp [dfold, h]

theorem dfold_natDec (n : Nat) : ∀ acc, dfold acc (natDec n) = acc * 10 ^ (natDec n).length + n := by
  induction n using Nat.strongRecOn with
  | ind n ih =>
    intro acc
    rw [natDec_unfold]
    split
    · rename_i h; rw [dfold_digit acc n h]; simp
    · rename_i h
      rw [dfold_append, ih (n / 10) (by omega) acc, dfold_digit _ _ (by omega)]
      simp only [List.length_append, List.length_singleton, Nat.pow_succ]
      have : n / 10 * 10 + n % 10 = n := by omega
      rw [Nat.add_mul, Nat.mul_assoc, Nat.add_assoc, this]

theorem dfold_zeros (z : Nat) : ∀ acc, dfold acc (List.replicate z '0') = acc * 10 ^ z := by
  induction z with
  | zero => intro acc; simp [dfold]
  | succ z ih =>
    intro acc
    rw [List.replicate_succ]
    show dfold (acc * 10 + ('0'.toNat - 48)) (List.replicate z '0') = _
    rw [ih]
    have : ('0'.toNat - 48) = 0 := by decide
    rw [this, Nat.add_zero, Nat.pow_succ, Nat.mul_assoc, Nat.mul_comm 10]

/-- value of `digits(q) ++ zero-padded digits(r)` -/
theorem digVal_fixed (d q r : Nat) (hr : (natDec r).length ≤ d) :
    digVal (natDec q ++ zpad d (natDec r)) = q * 10 ^ d + r := by
  rw [digVal_eq, dfold_append, dfold_natDec, zpad, dfold_append, dfold_zeros, dfold_natDec]
  simp only [Nat.zero_mul, Nat.zero_add]
  rw [Nat.mul_assoc, ← Nat.pow_add]
  congr 3
  omega

theorem isDig_dot : isDig '.' = false := by decide

theorem takeWhile_digits (ds rest : List Char) (h : ∀ c ∈ ds, isDig c = true) :
    (ds ++ '.' :: rest).takeWhile isDig = ds ∧ (ds ++ '.' :: rest).dropWhile isDig = '.' :: rest := by
  induction ds with
  | nil => simp [isDig_dot]
  | cons c cs ih =>
    have hc := h c List.mem_cons_self
    have := ih (fun x hx => h x (List.mem_cons_of_mem _ hx))
    simp [hc, this.1, this.2]

theorem zpad_all_digits (d : Nat) (s : List Char) (h : ∀ c ∈ s, isDig c = true) : ∀ c ∈ zpad d s, isDig c = true := by
  intro c hc
  simp only [zpad, List.mem_append] at hc
  rcases hc with hc | hc
  · have := List.eq_of_mem_replicate hc; subst this; decide
  · exact h c hc

/-- the unsigned core `digits '.' digits` -/
theorem parseFixed_core (neg : Bool) (t ds fs : List Char) (hds : ∀ c ∈ ds, isDig c = true) (hne : ds ≠ [])
    (hfs : ∀ c ∈ fs, isDig c = true) (hfne : fs ≠ [])
    (ht : t = (if neg then ['-'] else []) ++ (ds ++ '.' :: fs)) (s : List Char) (hs : strip s = t) :
    parseFixed s = .val neg (digVal (ds ++ fs)) fs.length := by
  obtain ⟨c, cs, rfl⟩ := List.exists_cons_of_ne_nil hne
  have hc := hds c List.mem_cons_self
  have hcm : c ≠ '-' := by intro h; subst h; exact absurd hc (by decide)
  have hcp : c ≠ '+' := by intro h; subst h; exact absurd hc (by decide)
  have htw := takeWhile_digits (c :: cs) fs hds
  have hall : allDig fs = true := by simpa [allDig, List.all_eq_true] using hfs
  have hsplit : signSplit t = (neg, c :: cs ++ '.' :: fs) := by
    rw [ht]
    cases neg
    · simp only [Bool.false_eq_true, if_false, List.nil_append, List.cons_append]
      unfold signSplit
      split
      · rename_i r heq; injection heq with h1 _; exact absurd h1 hcm
      · rename_i r heq; injection heq with h1 _; exact absurd h1 hcp
      · rfl
    · rfl
  have hte : t.isEmpty = false := by rw [ht]; cases neg <;> simp
  unfold parseFixed
  simp only [hs, hte, hsplit, htw.1, htw.2, Bool.false_eq_true, if_false]
  simp [hall, hfne]

theorem parseFixed_fmtFixed (d a b : Nat) (hd : 1 ≤ d) (x : Fx) :
    parseFixed (List.replicate a ' ' ++ fmtFixed d x ++ List.replicate b ' ') = .val x.neg (x.scaled d) d := by
  have hstrip := strip_pad a b (fmtFixed d x) (fmtFixed_no_ws d x)
  have hr : (natDec (x.scaled d % 10 ^ d)).length ≤ d :=
    natDec_length_le _ _ (Nat.mod_lt _ (Nat.pow_pos (by decide))) hd
  have hcore := parseFixed_core x.neg (fmtFixed d x) (natDec (x.scaled d / 10 ^ d)) (zpad d (natDec (x.scaled d % 10 ^ d)))
    (natDec_all_digits _) (natDec_ne_nil _) (zpad_all_digits d _ (natDec_all_digits _))
    (by simp [zpad]; intro _; exact natDec_ne_nil _)
    (by unfold fmtFixed; cases x.neg <;> simp) _ hstrip
  rw [hcore, digVal_fixed d _ _ hr, zpad_length d _ hr, Nat.div_add_mod']

theorem units_parse_fmtFixed (d w : Nat) (hd : 1 ≤ d) (x : Fx) :
    (parseFixed (rjust w (fmtFixed d x))).units d = some (.ok (x.units d)) := by
  have := parseFixed_fmtFixed d (w - (fmtFixed d x).length) 0 hd x
  simp only [List.replicate_zero, List.append_nil] at this
  unfold rjust
  rw [this]
  simp [PF.units, Fx.units]

theorem parse_default_occ : (parseFixed "  1.00".toList).units 2 = some (.ok 100) := by decide
theorem parse_default_bf : (parseFixed "  0.00".toList).units 2 = some (.ok 0) := by decide

theorem parseCharge_all : ∀ n : Fin 19,
    parseCharge (rjust 2 (chargeText ((n.val : Int) - 9))) = some (.ok ((n.val : Int) - 9)) := by decide

theorem parseCharge_chargeField (fl : Flags) (a : Atom) (h : fl.hasQ = true → a.charge.natAbs ≤ 9) :
    parseCharge (chargeField fl a) = some (.ok (if fl.hasQ then a.charge else 0)) := by
  unfold chargeField
  cases hf : fl.hasQ
  · simp only [Bool.false_eq_true, if_false]; decide
  · have hq := h hf
    have := parseCharge_all ⟨(a.charge + 9).toNat, by omega⟩
    have e : (((a.charge + 9).toNat : Nat) : Int) - 9 = a.charge := by omega
    simp only [e] at this
    simpa using this

/-- `parseAtomLine` in terms of what the column slices contain -/
theorem parseAtomLine_of_slices (l : List Char) (r : AtomRead)
    (h1 : decodeH36 (slice 22 26 l) = .ok r.resId) (h2 : slice 16 17 l = [' '])
    (h3 : (strip (slice 76 78 l)).isEmpty = false) (h4 : parseCharge (slice 78 80 l) = some (.ok r.charge))
    (h5 : (parseFixed (slice 54 60 l)).units 2 = some (.ok r.occ))
    (h6 : (parseFixed (slice 60 66 l)).units 2 = some (.ok r.bf))
    (h7 : decodeH36 (slice 6 11 l) = .ok r.atomId) (h8 : (slice 0 6 l == "HETATM".toList) = r.hetero)
    (h9 : strip (slice 21 22 l) = r.chain) (h10 : strip (slice 26 27 l) = r.insCode)
    (h11 : strip (slice 17 20 l) = r.resName) (h12 : strip (slice 12 16 l) = r.name)
    (h13 : strip (slice 76 78 l) = r.element) : parseAtomLine l = some (.ok r) := by
  unfold parseAtomLine parseAtomLineAny
  rw [h13] at h3
  simp only [h1, h2, h4, h5, h6, h7, h8, h9, h10, h11, h12, h13, h3, bne_self_eq_false, Bool.false_eq_true, if_false]

theorem parseCoordLine_of_slices (l : List Char) (x y z : Int)
    (hx : (parseFixed (slice 30 38 l)).units 3 = some (.ok x)) (hy : (parseFixed (slice 38 46 l)).units 3 = some (.ok y))
    (hz : (parseFixed (slice 46 54 l)).units 3 = some (.ok z)) : parseCoordLine l = some (.ok (x, y, z)) := by
  unfold parseCoordLine
  simp only [hx, hy, hz]

end BiotiteModel.C07

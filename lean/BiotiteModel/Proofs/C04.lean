import BiotiteModel.Model.C04
/-! Helper lemmas for `Props/C04.lean`. -/
namespace BiotiteModel.C04

/-! ### rows -/

/-- What `readRow` returns: the atom with `charge`/`atom_id` only when requested. -/
def normAtom (hc hi : Bool) (a : Atom) : Atom :=
  { a with charge := if hc then a.charge else 0, atomId := if hi then a.atomId else 0 }

theorem readRow_writeRow (hc hi : Bool) (a : Atom) (e : Nat) (k : Int) (c : Tok) (i : Int) :
    readRow hc hi { writeRow hc a e with model := k, xyz := c, id := i } =
      { a with charge := if hc then a.charge else 0, atomId := if hi then i else 0 } := by
  cases a with
  | mk chain resId ins resName hetero atomName element charge atomId opt =>
    simp only [readRow, writeRow]
    congr 1
    · by_cases h : ins = "" <;> simp [h]
    · cases hetero <;> simp <;> decide
    · cases hc <;> simp
      by_cases h : charge = 0 <;> simp [h]

/-! ### model blocks -/

theorem splitAux_same (seen : List Int) (b : List SiteRow) (cur rest : List SiteRow)
    (h : ∀ r ∈ b, r.model ∈ seen) :
    splitModelsAux seen cur (b ++ rest) = splitModelsAux seen (b.reverse ++ cur) rest := by
  induction b generalizing cur with
  | nil => simp
  | cons r b ih =>
    have hr : seen.contains r.model = true := by simpa using h r (by simp)
    simp only [List.cons_append, splitModelsAux, hr, if_true]
    rw [ih (r :: cur) (fun x hx => h x (by simp [hx]))]
    simp

/-- A table made of blocks: every block is non-empty, constant in its model number, and the
numbers of different blocks differ (and are not in `seen`). -/
def BlocksOk : List Int → List (List SiteRow) → Prop
  | _, [] => True
  | seen, b :: bs => ∃ v, b ≠ [] ∧ (∀ r ∈ b, r.model = v) ∧ v ∉ seen ∧ BlocksOk (v :: seen) bs

theorem splitAux_blocks (bs : List (List SiteRow)) : ∀ (seen : List Int) (cur : List SiteRow),
    cur ≠ [] → BlocksOk seen bs → splitModelsAux seen cur bs.flatten = cur.reverse :: bs := by
  induction bs with
  | nil =>
    intro seen cur hc _
    cases cur with
    | nil => exact absurd rfl hc
    | cons x xs => simp [splitModelsAux]
  | cons b bs ih =>
    intro seen cur hc hok
    obtain ⟨v, hne, hv, hns, hrest⟩ := hok
    cases b with
    | nil => exact absurd rfl hne
    | cons r b' =>
      have hrv : r.model = v := hv r (by simp)
      have hnot : seen.contains r.model = false := by
        rw [hrv]; simpa using hns
      have hcur : cur.isEmpty = false := by cases cur <;> simp_all
      simp only [List.flatten_cons, List.cons_append, splitModelsAux, hnot, hcur]
      simp only [Bool.false_eq_true, if_false]
      rw [hrv, splitAux_same (v :: seen) b' [r] bs.flatten (fun x hx => by simp [hv x (by simp [hx])])]
      rw [ih (v :: seen) (b'.reverse ++ [r]) (by simp) hrest]
      simp

theorem split_blocks (bs : List (List SiteRow)) (h : BlocksOk [] bs) : splitModels bs.flatten = bs := by
  cases bs with
  | nil => simp [splitModels, splitModelsAux]
  | cons b bs =>
    obtain ⟨v, hne, hv, _, hrest⟩ := h
    cases b with
    | nil => exact absurd rfl hne
    | cons r b' =>
      have hrv : r.model = v := hv r (by simp)
      simp only [splitModels, List.flatten_cons, List.cons_append, splitModelsAux]
      simp only [List.contains_nil, Bool.false_eq_true, if_false, List.isEmpty_nil, if_true]
      rw [hrv, splitAux_same [v] b' [r] bs.flatten (fun x hx => by simp [hv x (by simp [hx])])]
      rw [splitAux_blocks bs [v] (b'.reverse ++ [r]) (by simp) hrest]
      simp

/-! ### the written table is made of blocks -/

theorem entityIdsAux_length (cs : List String) : ∀ tbl next, (entityIdsAux tbl next cs).length = cs.length := by
  induction cs with
  | nil => intros; rfl
  | cons c cs ih =>
    intro tbl next
    simp only [entityIdsAux]
    split <;> simp [ih]

theorem writeRows_length (s : Structure) : (writeRows s).length = s.atoms.length := by
  simp [writeRows, entityIds, entityIdsAux_length]

theorem modelBlock_model (h : Bool) (k : Int) : ∀ (rows : List SiteRow) (cs : List Tok) (i : Nat),
    ∀ r ∈ modelBlock h k i rows cs, r.model = k := by
  intro rows
  induction rows with
  | nil => intro cs i r hr; simp [modelBlock] at hr
  | cons x xs ih =>
    intro cs i r hr
    cases cs with
    | nil => simp [modelBlock] at hr
    | cons c cs =>
      simp only [modelBlock, List.mem_cons] at hr
      rcases hr with rfl | hr
      · rfl
      · exact ih cs (i + 1) r hr

theorem modelBlock_ne_nil (h : Bool) (k : Int) (i : Nat) (rows : List SiteRow) (cs : List Tok)
    (hr : rows ≠ []) (hc : cs ≠ []) : modelBlock h k i rows cs ≠ [] := by
  cases rows with
  | nil => exact absurd rfl hr
  | cons x xs => cases cs with
    | nil => exact absurd rfl hc
    | cons c cs => simp [modelBlock]

theorem blocksOk_modelBlocks (h : Bool) (rows : List SiteRow) (hr : rows ≠ []) (coords : List (List Tok)) :
    (∀ c ∈ coords, c ≠ []) → ∀ (k : Nat) (seen : List Int), (∀ v ∈ seen, v ≤ (k : Int)) →
    BlocksOk seen (modelBlocks h rows k coords) := by
  induction coords with
  | nil => intros; trivial
  | cons c cs ih =>
    intro hc k seen hseen
    refine ⟨(k : Int) + 1, modelBlock_ne_nil _ _ _ _ _ hr (hc c (by simp)), modelBlock_model _ _ _ _ _, ?_, ?_⟩
    · intro hmem
      have := hseen _ hmem
      omega
    · apply ih (fun x hx => hc x (by simp [hx])) (k + 1)
      intro v hv
      simp only [List.mem_cons] at hv
      rcases hv with rfl | hv
      · omega
      · have := hseen v hv
        omega

theorem modelBlocks_getElem? (h : Bool) (rows : List SiteRow) (coords : List (List Tok)) :
    ∀ (k0 k : Nat), (modelBlocks h rows k0 coords)[k]? =
      coords[k]?.map (fun c => modelBlock h (((k0 + k : Nat) : Int) + 1) ((k0 + k) * rows.length) rows c) := by
  induction coords with
  | nil => intro k0 k; simp [modelBlocks]
  | cons c cs ih =>
    intro k0 k
    cases k with
    | zero => simp [modelBlocks]
    | succ k =>
      simp only [modelBlocks, List.getElem?_cons_succ]
      rw [ih (k0 + 1) k]
      have : k0 + 1 + k = k0 + (k + 1) := by omega
      rw [this]

theorem modelBlocks_length (h : Bool) (rows : List SiteRow) (coords : List (List Tok)) :
    ∀ k0, (modelBlocks h rows k0 coords).length = coords.length := by
  induction coords with
  | nil => intro; rfl
  | cons c cs ih => intro k0; simp [modelBlocks, ih]

/-- Reading one written block gives back the atoms and the coordinates of that model. -/
theorem read_modelBlock (hc hasId : Bool) (k : Int) : ∀ (atoms : List Atom) (es : List Nat) (cs : List Tok) (i : Nat),
    es.length = atoms.length → cs.length = atoms.length →
    (modelBlock hasId k i (List.zipWith (writeRow hc) atoms es) cs).map (readRow hc hasId) = atoms.map (normAtom hc hasId) ∧
    (modelBlock hasId k i (List.zipWith (writeRow hc) atoms es) cs).map (·.xyz) = cs := by
  intro atoms
  induction atoms with
  | nil =>
    intro es cs i _ h2
    have : cs = [] := by simpa using h2
    subst this
    simp [modelBlock]
  | cons a as ih =>
    intro es cs i h1 h2
    cases es with
    | nil => simp at h1
    | cons e es =>
      cases cs with
      | nil => simp at h2
      | cons c cs =>
        obtain ⟨ih1, ih2⟩ := ih es cs (i + 1) (by simpa using h1) (by simpa using h2)
        simp only [List.zipWith_cons_cons, modelBlock, List.map_cons, ih1, ih2, and_true]
        congr 1
        have hw : (writeRow hc a e).id = a.atomId := rfl
        rw [readRow_writeRow]
        cases hasId <;> simp [normAtom, hw]

/-! ### `_find_matches_by_dict` = `_find_matches_by_dense_array` -/

theorem lookup_snoc (d : List (Key × Nat)) (r q : Key) (k : Nat) :
    (d ++ [(r, k)]).lookup q = (d.lookup q).or (if r = q then some k else none) := by
  induction d with
  | nil =>
    by_cases h : r = q
    · subst h; simp [List.lookup]
    · have : (q == r) = false := by simpa using fun h' => h h'.symm
      simp [List.lookup, this, h]
  | cons x d ih =>
    obtain ⟨a, b⟩ := x
    by_cases h : q = a
    · subst h; simp [List.lookup]
    · have : (q == a) = false := by simpa using h
      simp [List.lookup, this, ih]

theorem buildDict_spec (q : Key) : ∀ (rs : List Key) (k : Nat) (d : List (Key × Nat)) (amb : List Key),
    ((buildDict k rs (d, amb)).1.lookup q = (d.lookup q).or (idxsFrom q k rs).head?) ∧
    (q ∈ (buildDict k rs (d, amb)).2 ↔ q ∈ amb ∨ ((d.lookup q).isSome ∧ idxsFrom q k rs ≠ []) ∨
      ((d.lookup q).isNone ∧ 2 ≤ (idxsFrom q k rs).length)) := by
  intro rs
  induction rs with
  | nil => intro k d amb; simp [buildDict, idxsFrom]
  | cons r rs ih =>
    intro k d amb
    by_cases hd : (d.lookup r).isSome = true
    · have hb : buildDict k (r :: rs) (d, amb) = buildDict (k + 1) rs (d, r :: amb) := by
        simp [buildDict, hd]
      rw [hb]
      obtain ⟨i1, i2⟩ := ih (k + 1) d (r :: amb)
      by_cases hrq : r = q
      · subst hrq
        obtain ⟨x, hx⟩ := Option.isSome_iff_exists.mp hd
        simp [idxsFrom, i1, i2, hx]
      · simp [idxsFrom, i1, i2, hrq]
        have : ¬ q = r := fun h => hrq h.symm
        simp [this]
    · have hn : d.lookup r = none := by
        cases h : d.lookup r with
        | none => rfl
        | some x => simp [h] at hd
      have hb : buildDict k (r :: rs) (d, amb) = buildDict (k + 1) rs (d ++ [(r, k)], amb) := by
        simp [buildDict, hn]
      rw [hb]
      obtain ⟨i1, i2⟩ := ih (k + 1) (d ++ [(r, k)]) amb
      by_cases hrq : r = q
      · subst hrq
        simp [idxsFrom, i1, i2, lookup_snoc, hn]
        have : ¬idxsFrom r (k + 1) rs = [] ↔ 1 ≤ (idxsFrom r (k + 1) rs).length := by
          cases idxsFrom r (k + 1) rs <;> simp
        rw [this]
      · simp [idxsFrom, i1, i2, lookup_snoc, hrq]

/-- Per query: what both implementations compute. -/
def lookupOne (refs : List Key) (q : Key) : Except Err Int :=
  match idxsFrom q 0 refs with
  | [] => .ok (-1)
  | [i] => .ok i
  | _ => .error .invalidFile

theorem dictLookup_eq (refs : List Key) (q : Key) :
    dictLookup (buildDict 0 refs ([], [])) q = lookupOne refs q := by
  obtain ⟨h1, h2⟩ := buildDict_spec q refs 0 [] []
  simp only [List.lookup, Option.none_or] at h1
  unfold dictLookup lookupOne
  rw [h1]
  have h2' : (buildDict 0 refs ([], [])).2.contains q = decide (2 ≤ (idxsFrom q 0 refs).length) := by
    have := h2
    simp only [List.lookup] at this
    rw [Bool.eq_iff_iff]
    simp [this]
  rw [h2']
  rcases h : idxsFrom q 0 refs with _ | ⟨i, _ | ⟨j, t⟩⟩ <;> simp

theorem mapM_lookup (refs : List Key) (qs : List Key) :
    qs.mapM (lookupOne refs) =
      if qs.any (fun q => decide ((idxsFrom q 0 refs).length > 1)) then .error .invalidFile
      else .ok (qs.map fun q => match idxsFrom q 0 refs with | [] => -1 | i :: _ => (i : Int)) := by
  induction qs with
  | nil => simp; rfl
  | cons q qs ih =>
    rw [List.mapM_cons, ih]
    unfold lookupOne
    rcases h : idxsFrom q 0 refs with _ | ⟨i, _ | ⟨j, t⟩⟩
    · simp [h]; split <;> rfl
    · simp [h]; split <;> rfl
    · simp [h]; rfl

/-! ### `struct_conn`: written rows are matched back -/

theorem idxsFrom_not_mem (q : Key) : ∀ (rs : List Key) (k : Nat), q ∉ rs → idxsFrom q k rs = [] := by
  intro rs
  induction rs with
  | nil => intros; rfl
  | cons r rs ih =>
    intro k h
    have h1 : r ≠ q := fun e => h (by simp [e])
    have h2 : q ∉ rs := fun e => h (by simp [e])
    simp [idxsFrom, h1, ih (k + 1) h2]

theorem idxsFrom_nodup : ∀ (refs : List Key) (k i : Nat) (h : i < refs.length), refs.Nodup →
    idxsFrom refs[i] k refs = [k + i] := by
  intro refs
  induction refs with
  | nil => intro k i h; simp at h
  | cons r rs ih =>
    intro k i h hnd
    have hr : r ∉ rs := (List.nodup_cons.mp hnd).1
    have hrs : rs.Nodup := (List.nodup_cons.mp hnd).2
    cases i with
    | zero => simp [idxsFrom, idxsFrom_not_mem r rs (k + 1) hr]
    | succ i =>
      have hi : i < rs.length := by simpa using h
      have hne : r ≠ rs[i] := fun e => hr (e ▸ List.getElem_mem hi)
      simp only [List.getElem_cons_succ, idxsFrom, hne, if_false]
      rw [ih (k + 1) i hi hrs]
      congr 1; omega

/-- The row `connRows` writes for bond `b` as row number `k+1`. -/
def mkConnRow (site : List SiteRow) (k : Nat) (b : Bond) : ConnRow :=
  let key := fun (i : Nat) => match site[i]? with
    | some r => siteKeyRaw r
    | none => ⟨"", "", 0, "", ""⟩
  ⟨k + 1, (interTypeId b.t).getD "", ⟨(interOrder b.t).getD "", if interOrderMasked b.t then .missing else .present⟩,
   key b.i, key b.j⟩

def mkConnRows (site : List SiteRow) : Nat → List Bond → List ConnRow
  | _, [] => []
  | k, b :: bs => mkConnRow site k b :: mkConnRows site (k + 1) bs

def InterOk (t : Nat) : Prop := t = 1 ∨ t = 2 ∨ t = 3 ∨ t = 4 ∨ t = 8
instance (t : Nat) : Decidable (InterOk t) := by unfold InterOk; infer_instance

theorem connRows_eq (site : List SiteRow) : ∀ (bs : List Bond) (k : Nat), (∀ b ∈ bs, InterOk b.t) →
    connRows k site bs = .ok (mkConnRows site k bs) := by
  intro bs
  induction bs with
  | nil => intros; rfl
  | cons b bs ih =>
    intro k h
    have hb := h b (by simp)
    have ih' := ih (k + 1) (fun x hx => h x (by simp [hx]))
    rcases hb with e | e | e | e | e <;>
      (simp [connRows, ih', e, interTypeId, interOrder, mkConnRows, mkConnRow, bind, Except.bind, pure, Except.pure]
       refine ⟨?_, ?_⟩
       · cases site[b.i]? <;> rfl
       · cases site[b.j]? <;> rfl)

theorem lower_orders : lowerAscii "sing" = "sing" ∧ lowerAscii "doub" = "doub" ∧ lowerAscii "trip" = "trip" ∧
    lowerAscii "quad" = "quad" ∧ lowerAscii "" = "" := by decide +kernel

theorem connType_mk (site : List SiteRow) (k : Nat) (b : Bond) (h : InterOk b.t) :
    connType (mkConnRow site k b) = some b.t ∧ (typeIdToType (mkConnRow site k b).typeId).isSome = true := by
  obtain ⟨l1, l2, l3, l4, _⟩ := lower_orders
  rcases h with e | e | e | e | e <;>
    simp [mkConnRow, connType, e, interTypeId, interOrder, interOrderMasked, typeIdToType, orderToType, btSingle,
      l1, l2, l3, l4]

theorem pick_mk (site : List SiteRow) : ∀ (bs : List Bond) (k : Nat), (∀ b ∈ bs, InterOk b.t) →
    pickBonds (mkConnRows site k bs) (bs.map fun b => (b.i : Int)) (bs.map fun b => (b.j : Int)) = bs := by
  intro bs
  induction bs with
  | nil => intros; rfl
  | cons b bs ih =>
    intro k h
    have hc := (connType_mk site k b (h b (by simp))).1
    have h1 : ((b.i : Int) != -1) = true := by simp
    have h2 : ((b.j : Int) != -1) = true := by simp
    simp only [mkConnRows, List.map_cons, pickBonds, h1, h2, Bool.and_self, if_true, hc]
    rw [ih (k + 1) (fun x hx => h x (by simp [hx]))]
    simp

theorem filter_cov_mk (site : List SiteRow) : ∀ (bs : List Bond) (k : Nat), (∀ b ∈ bs, InterOk b.t) →
    (mkConnRows site k bs).filter (fun r => (typeIdToType r.typeId).isSome) = mkConnRows site k bs := by
  intro bs
  induction bs with
  | nil => intros; rfl
  | cons b bs ih =>
    intro k h
    simp only [mkConnRows, List.filter_cons, (connType_mk site k b (h b (by simp))).2, if_true]
    rw [ih (k + 1) (fun x hx => h x (by simp [hx]))]

theorem keys_mk (site : List SiteRow) : ∀ (bs : List Bond) (k : Nat), (∀ b ∈ bs, b.i < site.length ∧ b.j < site.length) →
    (mkConnRows site k bs).map (fun r => normKey r.p1) = bs.map (fun b => (site.map siteKey).getD b.i ⟨"", "", 0, "", ""⟩) ∧
    (mkConnRows site k bs).map (fun r => normKey r.p2) = bs.map (fun b => (site.map siteKey).getD b.j ⟨"", "", 0, "", ""⟩) := by
  intro bs
  induction bs with
  | nil => intros; exact ⟨rfl, rfl⟩
  | cons b bs ih =>
    intro k h
    obtain ⟨hi, hj⟩ := h b (by simp)
    obtain ⟨i1, i2⟩ := ih (k + 1) (fun x hx => h x (by simp [hx]))
    simp only [mkConnRows, List.map_cons, i1, i2]
    constructor <;> congr 1 <;> simp [mkConnRow, hi, hj, siteKey]

theorem dense_nodup (refs : List Key) (hnd : refs.Nodup) (d : Key) : ∀ (is : List Nat), (∀ i ∈ is, i < refs.length) →
    findDense (is.map fun i => refs.getD i d) refs = .ok (is.map fun (i : Nat) => (i : Int)) := by
  intro is h
  have hone : ∀ i ∈ is, idxsFrom (refs.getD i d) 0 refs = [i] := by
    intro i hi
    have hlt := h i hi
    have : refs.getD i d = refs[i] := by simp [List.getD, hlt]
    rw [this, idxsFrom_nodup refs 0 i hlt hnd]; simp
  unfold findDense
  have hany : (is.map fun i => refs.getD i d).any (fun q => decide ((idxsFrom q 0 refs).length > 1)) = false := by
    rw [List.any_eq_false]
    intro q hq
    obtain ⟨i, hi, rfl⟩ := List.mem_map.mp hq
    rw [hone i hi]; simp
  rw [hany]
  simp only [Bool.false_eq_true, if_false, List.map_map]
  congr 1
  apply List.map_congr_left
  intro i hi
  show (match idxsFrom (refs.getD i d) 0 refs with | [] => (-1 : Int) | j :: _ => (j : Int)) = (i : Int)
  rw [hone i hi]


/-- `_parse_inter_residue_bonds` on the rows the writer produces returns the written bonds. -/
theorem parseInter_mk (site : List SiteRow) (bs : List Bond)
    (hnd : (site.map siteKey).Nodup)
    (hb : ∀ b ∈ bs, b.i < site.length ∧ b.j < site.length ∧ InterOk b.t) :
    parseInter site (mkConnRows site 0 bs) = .ok (normBonds bs) := by
  have hok : ∀ b ∈ bs, InterOk b.t := fun b h => (hb b h).2.2
  obtain ⟨k1, k2⟩ := keys_mk site bs 0 (fun b h => ⟨(hb b h).1, (hb b h).2.1⟩)
  have d1 := dense_nodup (site.map siteKey) hnd ⟨"", "", 0, "", ""⟩ (bs.map (·.i))
    (by intro i hi; obtain ⟨b, hbm, rfl⟩ := List.mem_map.mp hi; simpa using (hb b hbm).1)
  have d2 := dense_nodup (site.map siteKey) hnd ⟨"", "", 0, "", ""⟩ (bs.map (·.j))
    (by intro i hi; obtain ⟨b, hbm, rfl⟩ := List.mem_map.mp hi; simpa using (hb b hbm).2.1)
  simp only [List.map_map] at d1 d2
  simp only [Function.comp_def] at d1 d2
  have hp := pick_mk site bs 0 hok
  simp only [parseInter, filter_cov_mk site bs 0 hok, k1, k2, d1, d2, bind, Except.bind, pure, Except.pure, hp]

theorem parseInter_congr (site site' : List SiteRow) (conn : List ConnRow)
    (h : site.map siteKey = site'.map siteKey) : parseInter site conn = parseInter site' conn := by
  simp only [parseInter, h]

end BiotiteModel.C04

import BiotiteModel.Model.C06Containers
/-! # C06 — refinement lemmas for the lazily parsed containers -/
namespace BiotiteModel.C06

section
variable {κ ρ ν : Type} [BEq κ] [LawfulBEq κ]

theorem lookup_abs (parse : ρ → Option ν) (k : κ) (st : Store κ ρ ν) :
    lookup k (absStore parse st) = (lookup k st).map (Entry.force parse) := by
  induction st with
  | nil => rfl
  | cons x xs ih =>
    obtain ⟨k', e⟩ := x
    by_cases h : (k' == k) = true
    · simp [absStore, lookup, h]
    · have h' : (k' == k) = false := by simpa using h
      simpa [absStore, lookup, h'] using ih

theorem abs_dictSet (parse : ρ → Option ν) (k : κ) (e : Entry ρ ν) (st : Store κ ρ ν) :
    absStore parse (dictSet k e st) = dictSet k (e.force parse) (absStore parse st) := by
  induction st with
  | nil => rfl
  | cons x xs ih =>
    obtain ⟨k', e'⟩ := x
    by_cases h : (k' == k) = true
    · simp [absStore, dictSet, h]
    · have h' : (k' == k) = false := by simpa using h
      simpa [absStore, dictSet, h'] using ih

theorem abs_erase (parse : ρ → Option ν) (k : κ) (st : Store κ ρ ν) :
    absStore parse (erase k st) = erase k (absStore parse st) := by
  induction st with
  | nil => rfl
  | cons x xs ih =>
    obtain ⟨k', e'⟩ := x
    by_cases h : (k' == k) = true
    · simp [absStore, erase, h]
    · have h' : (k' == k) = false := by simpa using h
      simpa [absStore, erase, h'] using ih

theorem dictSet_same {α : Type} (k : κ) (x : α) (l : List (κ × α)) (h : lookup k l = some x) :
    dictSet k x l = l := by
  induction l with
  | nil => simp [lookup] at h
  | cons y ys ih =>
    obtain ⟨k', v'⟩ := y
    by_cases hk : (k' == k) = true
    · have e : k' = k := by simpa using hk
      simp only [lookup, hk, if_true, Option.some.injEq] at h
      simp [dictSet, hk, e, h]
    · have hk' : (k' == k) = false := by simpa using hk
      simp only [lookup, hk', Bool.false_eq_true, if_false] at h
      simp [dictSet, hk', ih h]

theorem abs_length (parse : ρ → Option ν) (st : Store κ ρ ν) : (absStore parse st).length = st.length := by
  simp [absStore]

theorem abs_keys (parse : ρ → Option ν) (st : Store κ ρ ν) :
    (absStore parse st).map (·.1) = st.map (·.1) := by
  simp [absStore]

/-- One operation: the lazily parsed container and the plain mapping give the same output and
stay related. -/
theorem step_refines (kind : Kind) (parse : ρ → Option ν) (st : Store κ ρ ν) (op : Op κ ρ ν) :
    specStep kind parse (absStore parse st) op = (absStore parse (step kind parse st op).1, (step kind parse st op).2) := by
  cases op with
  | get k =>
    simp only [specStep, step, lookup_abs]
    cases hl : lookup k st with
    | none => simp
    | some e =>
      cases e with
      | parsed v => simp [Entry.force]
      | raw r =>
        cases hp : parse r with
        | none => simp [Entry.force, hp]
        | some v =>
          have hla : lookup k (absStore parse st) = some (some v) := by
            rw [lookup_abs, hl]; simp [Entry.force, hp]
          simp [Entry.force, hp, abs_dictSet, dictSet_same k (some v) _ hla]
  | set k v => simp [specStep, step, abs_dictSet, Entry.force]
  | setRaw k r =>
    simp only [specStep, step]
    cases kind.rawSetEager with
    | false => simp
    | true =>
      cases hp : parse r with
      | none => simp
      | some v => simp [abs_dictSet, Entry.force]
  | del k =>
    simp only [specStep, step, abs_length, lookup_abs]
    cases hg : (kind.delGuard && st.length == 1) with
    | true => simp
    | false =>
      cases hl : lookup k st with
      | none => simp
      | some e => simp [abs_erase]
  | has k =>
    simp only [specStep, step, lookup_abs]
    cases lookup k st <;> simp
  | iter => simp [specStep, step, abs_keys]
  | len => simp [specStep, step, abs_length]

theorem run_refines (kind : Kind) (parse : ρ → Option ν) (ops : List (Op κ ρ ν)) (st : Store κ ρ ν) :
    specRun kind parse (absStore parse st) ops =
      (absStore parse (run kind parse st ops).1, (run kind parse st ops).2) := by
  induction ops generalizing st with
  | nil => rfl
  | cons op ops ih =>
    simp only [specRun, run, step_refines kind parse st op, ih]

/-! ### equality -/

theorem get_abs (kind : Kind) (parse : ρ → Option ν) (a : Store κ ρ ν) (k : κ) :
    absStore parse (step kind parse a (.get k)).1 = absStore parse a ∧
    (step kind parse a (.get k)).2 =
      (match lookup k (absStore parse a) with
       | none => Out.err .keyError
       | some none => Out.err derr
       | some (some v) => Out.val v) := by
  have h := step_refines kind parse a (.get k)
  simp only [specStep] at h
  cases hl : lookup k (absStore parse a) with
  | none => rw [hl] at h; simp only [Prod.mk.injEq] at h; exact ⟨h.1.symm, h.2.symm⟩
  | some o =>
    cases o with
    | none => rw [hl] at h; simp only [Prod.mk.injEq] at h; exact ⟨h.1.symm, h.2.symm⟩
    | some v => rw [hl] at h; simp only [Prod.mk.injEq] at h; exact ⟨h.1.symm, h.2.symm⟩

theorem eqLoop_refines [BEq ν] (parse : ρ → Option ν) (ks : List κ) (a b : Store κ ρ ν) :
    absStore parse (eqLoop parse ks a b).1 = absStore parse a ∧
    absStore parse (eqLoop parse ks a b).2.1 = absStore parse b ∧
    (eqLoop parse ks a b).2.2 = specEqLoop ks (absStore parse a) (absStore parse b) := by
  induction ks generalizing a b with
  | nil => simp [eqLoop, specEqLoop]
  | cons k ks ih =>
    obtain ⟨ha1, ha2⟩ := get_abs ⟨false, false⟩ parse a k
    obtain ⟨hb1, hb2⟩ := get_abs ⟨false, false⟩ parse b k
    generalize hra : step ⟨false, false⟩ parse a (.get k) = ra at ha1 ha2
    generalize hrb : step ⟨false, false⟩ parse b (.get k) = rb at hb1 hb2
    obtain ⟨a', oa⟩ := ra
    obtain ⟨b', ob⟩ := rb
    simp only at ha1 ha2 hb1 hb2
    unfold eqLoop specEqLoop
    rw [hra]
    cases hla : lookup k (absStore parse a) with
    | none => rw [hla] at ha2; subst ha2; simp [ha1]
    | some o =>
      cases o with
      | none => rw [hla] at ha2; subst ha2; simp [ha1]
      | some x =>
        rw [hla] at ha2; subst ha2
        simp only
        rw [hrb]
        cases hlb : lookup k (absStore parse b) with
        | none => rw [hlb] at hb2; subst hb2; simp [ha1, hb1]
        | some o =>
          cases o with
          | none => rw [hlb] at hb2; subst hb2; simp [ha1, hb1]
          | some y =>
            rw [hlb] at hb2; subst hb2
            simp only
            by_cases hxy : (x == y) = true
            · simp only [hxy, if_true]
              have := ih a' b'
              rw [ha1, hb1] at this
              exact this
            · simp [hxy, ha1, hb1]

theorem eq_refines [BEq ν] (parse : ρ → Option ν) (a b : Store κ ρ ν) :
    absStore parse (eqContainers parse a b).1 = absStore parse a ∧
    absStore parse (eqContainers parse a b).2.1 = absStore parse b ∧
    (eqContainers parse a b).2.2 = specEq (absStore parse a) (absStore parse b) := by
  unfold eqContainers specEq
  rw [abs_keys, abs_keys]
  by_cases h : sameKeySet (a.map (·.1)) (b.map (·.1)) = true
  · simp only [h, if_true]; exact eqLoop_refines parse _ a b
  · simp [h]

end

/-! ### the lazily held text file -/

theorem mapM'_map_eq {α β γ : Type} (f : α → Except Err β) (g : α → γ) (h : β → γ) (xs : List α) (ys : List β)
    (hm : mapM' f xs = .ok ys) (hfg : ∀ x y, f x = .ok y → g x = h y) : xs.map g = ys.map h := by
  induction xs generalizing ys with
  | nil => simp [mapM'] at hm; subst hm; rfl
  | cons x xs ih =>
    simp only [mapM', bind, Except.bind] at hm
    cases hx : f x with
    | error e => rw [hx] at hm; simp at hm
    | ok y =>
      rw [hx] at hm
      cases hxs : mapM' f xs with
      | error e => rw [hxs] at hm; simp at hm
      | ok ys' =>
        rw [hxs] at hm
        simp only [Except.ok.injEq] at hm
        subst hm
        simp [hfg x y hx, ih ys' hxs]

theorem lazy_file_abs (text : Str) (r : List (Str × List (Option Str × (Str × Cols))))
    (h : fileParse text = .ok r) : deepAbs (lazyFile text) = deepAbs (parsedFile r) := by
  have hR : deepAbs (parsedFile r) = r.map (fun b => (b.1, some (b.2.map (fun c => (c.1, some c.2))))) := by
    simp [deepAbs, parsedFile, absStore, Entry.force, List.map_map, Function.comp_def]
  have hL : deepAbs (lazyFile text) = (fileDeserialize text).map (fun b =>
      (b.1, (parseBlockStore b.2).map (absStore parseCatOpt))) := by
    simp [deepAbs, lazyFile, absStore, Entry.force, List.map_map, Function.comp_def]
  rw [hR, hL]
  unfold fileParse at h
  refine mapM'_map_eq _ _ _ _ _ h ?_
  intro b rb hb
  cases hbp : blockParse b.2 with
  | error e => rw [hbp] at hb; simp at hb
  | ok cats' =>
    rw [hbp] at hb
    simp only [Except.ok.injEq] at hb
    subst hb
    simp only [Prod.mk.injEq, true_and]
    unfold blockParse at hbp
    simp only [bind, Except.bind] at hbp
    cases hbd : blockDeserialize b.2 with
    | error e => rw [hbd] at hbp; simp at hbp
    | ok cats =>
      rw [hbd] at hbp
      simp only [parseBlockStore, hbd, Option.map_some, Option.some.injEq]
      simp only [absStore, List.map_map, Function.comp_def, Entry.force]
      refine mapM'_map_eq _ _ _ _ _ hbp ?_
      intro c rc hc
      cases hcd : categoryDeserialize c.2 with
      | error e => rw [hcd] at hc; simp at hc
      | ok cat =>
        rw [hcd] at hc
        simp only [Except.ok.injEq] at hc
        subst hc
        simp [parseCatOpt, hcd]

theorem lookup_mapVal {κ α β : Type} [BEq κ] (f : α → β) (k : κ) (l : List (κ × α)) :
    lookup k (l.map (fun kv => (kv.1, f kv.2))) = (lookup k l).map f := by
  induction l with
  | nil => rfl
  | cons x xs ih =>
    by_cases h : (x.1 == k) = true
    · simp [lookup, h]
    · have h' : (x.1 == k) = false := by simpa using h
      simp [lookup, h', ih]

theorem lazyGet_eq (fs : FileStore) (b : Str) (c : Option Str) :
    (match (step ⟨false, false⟩ parseBlockStore fs (.get b)).2 with
      | .val bs =>
        (match (step ⟨false, false⟩ parseCatOpt bs (.get c)).2 with
          | .val cat => Except.ok cat
          | .err e => .error e
          | _ => .error .typeError)
      | .err e => .error e
      | _ => .error .typeError) = deepGet (deepAbs fs) b c := by
  have h1 := (get_abs ⟨false, false⟩ parseBlockStore fs b).2
  rw [h1]
  unfold deepGet deepAbs
  rw [lookup_mapVal]
  cases lookup b (absStore parseBlockStore fs) with
  | none => rfl
  | some o =>
    cases o with
    | none => rfl
    | some bs =>
      simp only [Option.map_some]
      have h2 := (get_abs ⟨false, false⟩ parseCatOpt bs c).2
      rw [h2]
      cases lookup c (absStore parseCatOpt bs) with
      | none => rfl
      | some o2 => cases o2 <;> rfl

/-! ### encoded keys (`BinaryCIFBlock`) -/

section
variable {κ κ' ρ ν : Type} [BEq κ] [LawfulBEq κ] [BEq κ'] [LawfulBEq κ']

/-- every stored key is an encoded user key -/
def Img {α : Type} (enc : κ → κ') (l : List (κ' × α)) : Prop := ∀ kv ∈ l, ∃ k, kv.1 = enc k

theorem enc_beq (enc : κ → κ') (dec : κ' → κ) (hdec : ∀ k, dec (enc k) = k) (j k : κ) :
    (enc j == enc k) = (j == k) := by
  by_cases h : j = k
  · subst h; simp
  · have : enc j ≠ enc k := fun e => h (by rw [← hdec j, ← hdec k, e])
    rw [beq_eq_false_iff_ne.mpr this, beq_eq_false_iff_ne.mpr h]

theorem lookup_mapKeys {α : Type} (enc : κ → κ') (dec : κ' → κ) (hdec : ∀ k, dec (enc k) = k)
    (l : List (κ' × α)) (hl : Img enc l) (k : κ) : lookup k (mapKeys dec l) = lookup (enc k) l := by
  induction l with
  | nil => rfl
  | cons x xs ih =>
    obtain ⟨j, hj⟩ := hl x (by simp)
    obtain ⟨k', v⟩ := x
    simp only at hj
    subst hj
    have := ih (fun kv h => hl kv (by simp [h]))
    simp only [mapKeys, List.map_cons, lookup, hdec, enc_beq enc dec hdec] at this ⊢
    rw [this]

theorem dictSet_mapKeys {α : Type} (enc : κ → κ') (dec : κ' → κ) (hdec : ∀ k, dec (enc k) = k)
    (l : List (κ' × α)) (hl : Img enc l) (k : κ) (v : α) :
    mapKeys dec (dictSet (enc k) v l) = dictSet k v (mapKeys dec l) := by
  induction l with
  | nil => simp [mapKeys, dictSet, hdec]
  | cons x xs ih =>
    obtain ⟨j, hj⟩ := hl x (by simp)
    obtain ⟨k', w⟩ := x
    simp only at hj
    subst hj
    have := ih (fun kv h => hl kv (by simp [h]))
    by_cases h : (j == k) = true
    · simp [mapKeys, dictSet, hdec, enc_beq enc dec hdec, h]
    · have h' : (j == k) = false := by simpa using h
      simp only [mapKeys, List.map_cons, dictSet, hdec, enc_beq enc dec hdec, h', Bool.false_eq_true, if_false] at this ⊢
      rw [this]

theorem erase_mapKeys {α : Type} (enc : κ → κ') (dec : κ' → κ) (hdec : ∀ k, dec (enc k) = k)
    (l : List (κ' × α)) (hl : Img enc l) (k : κ) :
    mapKeys dec (erase (enc k) l) = erase k (mapKeys dec l) := by
  induction l with
  | nil => rfl
  | cons x xs ih =>
    obtain ⟨j, hj⟩ := hl x (by simp)
    obtain ⟨k', w⟩ := x
    simp only at hj
    subst hj
    have := ih (fun kv h => hl kv (by simp [h]))
    by_cases h : (j == k) = true
    · simp [mapKeys, erase, hdec, enc_beq enc dec hdec, h]
    · have h' : (j == k) = false := by simpa using h
      simp only [mapKeys, List.map_cons, erase, hdec, enc_beq enc dec hdec, h', Bool.false_eq_true, if_false] at this ⊢
      rw [this]

theorem img_dictSet {α : Type} (enc : κ → κ') (l : List (κ' × α)) (hl : Img enc l) (k : κ) (v : α) :
    Img enc (dictSet (enc k) v l) := by
  induction l with
  | nil => intro kv h; simp [dictSet] at h; exact ⟨k, by rw [h]⟩
  | cons x xs ih =>
    obtain ⟨k', w⟩ := x
    intro kv h
    by_cases hk : (k' == enc k) = true
    · simp only [dictSet, hk, if_true, List.mem_cons] at h
      rcases h with rfl | h
      · exact ⟨k, rfl⟩
      · exact hl kv (by simp [h])
    · have hk' : (k' == enc k) = false := by simpa using hk
      simp only [dictSet, hk', Bool.false_eq_true, if_false, List.mem_cons] at h
      rcases h with rfl | h
      · exact hl _ (by simp)
      · exact ih (fun kv h => hl kv (by simp [h])) kv h

theorem img_erase {α : Type} (enc : κ → κ') (l : List (κ' × α)) (hl : Img enc l) (k' : κ') :
    Img enc (erase k' l) := by
  induction l with
  | nil => intro kv h; simp [erase] at h
  | cons x xs ih =>
    obtain ⟨j, w⟩ := x
    intro kv h
    by_cases hk : (j == k') = true
    · simp only [erase, hk, if_true] at h
      exact hl kv (by simp [h])
    · have hk' : (j == k') = false := by simpa using hk
      simp only [erase, hk', Bool.false_eq_true, if_false, List.mem_cons] at h
      rcases h with rfl | h
      · exact hl _ (by simp)
      · exact ih (fun kv h => hl kv (by simp [h])) kv h

theorem img_abs (enc : κ → κ') (parse : ρ → Option ν) (st : Store κ' ρ ν) (h : Img enc st) :
    Img enc (absStore parse st) := by
  intro kv hkv
  simp only [absStore, List.mem_map] at hkv
  obtain ⟨x, hx, rfl⟩ := hkv
  exact h x hx

theorem specStep_mapKeys (enc : κ → κ') (dec : κ' → κ) (hdec : ∀ k, dec (enc k) = k) (kind : Kind)
    (parse : ρ → Option ν) (sp : Spec κ' ν) (hsp : Img enc sp) (op : Op κ ρ ν) :
    specStep kind parse (mapKeys dec sp) op =
      (mapKeys dec (specStep kind parse sp (encOp enc op)).1, decOut dec (specStep kind parse sp (encOp enc op)).2) := by
  have hlen : (mapKeys dec sp).length = sp.length := by simp [mapKeys]
  cases op with
  | get k =>
    simp only [specStep, encOp, lookup_mapKeys enc dec hdec sp hsp]
    cases lookup (enc k) sp with
    | none => rfl
    | some o => cases o <;> rfl
  | set k v => simp [specStep, encOp, dictSet_mapKeys enc dec hdec sp hsp, decOut]
  | setRaw k r =>
    simp only [specStep, encOp]
    cases kind.rawSetEager with
    | false => rfl
    | true =>
      cases parse r with
      | none => rfl
      | some v => simp [dictSet_mapKeys enc dec hdec sp hsp, decOut]
  | del k =>
    simp only [specStep, encOp, hlen, lookup_mapKeys enc dec hdec sp hsp]
    cases (kind.delGuard && sp.length == 1) with
    | true => rfl
    | false =>
      cases lookup (enc k) sp with
      | none => rfl
      | some _ => simp [erase_mapKeys enc dec hdec sp hsp, decOut]
  | has k =>
    simp only [specStep, encOp, lookup_mapKeys enc dec hdec sp hsp]
    rfl
  | iter => simp [specStep, encOp, decOut, mapKeys, List.map_map, Function.comp_def]
  | len => simp [specStep, encOp, decOut, hlen]

theorem img_step (enc : κ → κ') (kind : Kind) (parse : ρ → Option ν) (st : Store κ' ρ ν) (h : Img enc st)
    (op : Op κ ρ ν) : Img enc (step kind parse st (encOp enc op)).1 := by
  cases op with
  | get k =>
    simp only [step, encOp]
    split
    · exact h
    · exact h
    · split
      · exact img_dictSet enc st h k _
      · exact h
  | set k v => exact img_dictSet enc st h k _
  | setRaw k r =>
    simp only [step, encOp]
    cases kind.rawSetEager with
    | false => exact h
    | true =>
      cases parse r with
      | none => exact h
      | some v => exact img_dictSet enc st h k _
  | del k =>
    simp only [step, encOp]
    cases (kind.delGuard && st.length == 1) with
    | true => exact h
    | false =>
      cases lookup (enc k) st with
      | none => exact h
      | some _ => exact img_erase enc st h _
  | has k => exact h
  | iter => exact h
  | len => exact h

theorem stepP_refines (enc : κ → κ') (dec : κ' → κ) (hdec : ∀ k, dec (enc k) = k) (kind : Kind)
    (parse : ρ → Option ν) (st : Store κ' ρ ν) (h : Img enc st) (op : Op κ ρ ν) :
    specStep kind parse (absP dec parse st) op =
      (absP dec parse (stepP enc dec kind parse st op).1, (stepP enc dec kind parse st op).2) := by
  unfold absP stepP
  rw [specStep_mapKeys enc dec hdec kind parse _ (img_abs enc parse st h) op, step_refines]

theorem runP_refines (enc : κ → κ') (dec : κ' → κ) (hdec : ∀ k, dec (enc k) = k) (kind : Kind)
    (parse : ρ → Option ν) (ops : List (Op κ ρ ν)) (st : Store κ' ρ ν) (h : Img enc st) :
    specRun kind parse (absP dec parse st) ops =
      (absP dec parse (runP enc dec kind parse st ops).1, (runP enc dec kind parse st ops).2) := by
  induction ops generalizing st with
  | nil => rfl
  | cons op ops ih =>
    have h' : Img enc (stepP enc dec kind parse st op).1 := img_step enc kind parse st h op
    simp only [specRun, runP, stepP_refines enc dec hdec kind parse st h op, ih _ h']

end

/-! ### cached row count -/

section
variable {κ : Type} [BEq κ]

/-- The cache is empty or holds the length of the current first column. -/
def RCInv (s : RC κ) : Prop := s.cache = none ∨ ∃ k n rest, s.cols = (k, n) :: rest ∧ s.cache = some n

theorem rcSerLoop_some (m : Nat) (cols : List (κ × Nat)) :
    rcSerLoop (some m) cols = (some m, cols.all (fun kv => kv.2 == m)) := by
  induction cols with
  | nil => rfl
  | cons x xs ih =>
    obtain ⟨k, n⟩ := x
    by_cases h : (n == m) = true
    · have : (n != m) = false := by simp [bne, h]
      simp [rcSerLoop, this, ih, h]
    · have h' : (n == m) = false := by simpa using h
      have : (n != m) = true := by simp [bne, h']
      simp [rcSerLoop, this, h']

theorem rcStep_refines (binary : Bool) (s : RC κ) (hinv : RCInv s) (op : RCOp κ) :
    RCInv (rcStep binary s op).1 ∧
    rcSpecStep binary s.cols op = ((rcStep binary s op).1.cols, (rcStep binary s op).2) := by
  cases op with
  | set k n => exact ⟨Or.inl rfl, rfl⟩
  | del k =>
    simp only [rcStep, rcSpecStep]
    by_cases hg : (!binary && s.cols.length == 1) = true
    · simp only [hg, if_true]; exact ⟨hinv, trivial⟩
    · simp only [hg, Bool.false_eq_true, if_false]
      cases lookup k s.cols with
      | none => exact ⟨hinv, rfl⟩
      | some _ => exact ⟨Or.inl rfl, rfl⟩
  | ser =>
    simp only [rcStep, rcSpecStep]
    cases hc : s.cols with
    | nil => simp only [List.isEmpty_nil, if_true, rcSpecSer]; exact ⟨hinv, by rw [hc]⟩
    | cons x xs =>
      obtain ⟨k, n⟩ := x
      have hloop : rcSerLoop s.cache ((k, n) :: xs) = (some n, xs.all (fun kv => kv.2 == n)) := by
        rcases hinv with h | ⟨k', n', rest, h1, h2⟩
        · rw [h]; simp [rcSerLoop, rcSerLoop_some]
        · rw [hc] at h1
          simp only [List.cons.injEq, Prod.mk.injEq] at h1
          rw [h2, rcSerLoop_some]
          simp [h1.1.2]
      simp only [List.isEmpty_cons, Bool.false_eq_true, if_false, hloop, rcSpecSer]
      by_cases hall : xs.all (fun kv => kv.2 == n) = true
      · simp only [hall, if_true]
        exact ⟨Or.inr ⟨k, n, xs, rfl, rfl⟩, trivial⟩
      · simp only [hall, Bool.false_eq_true, if_false]
        exact ⟨Or.inr ⟨k, n, xs, rfl, rfl⟩, trivial⟩
  | count =>
    simp only [rcStep, rcSpecStep]
    rcases hinv with h | ⟨k, n, rest, h1, h2⟩
    · rw [h]
      cases hc : s.cols with
      | nil => exact ⟨Or.inl h, by simp [hc]⟩
      | cons x xs =>
        obtain ⟨k, n⟩ := x
        exact ⟨Or.inr ⟨k, n, xs, rfl, rfl⟩, rfl⟩
    · rw [h2, h1]
      exact ⟨Or.inr ⟨k, n, rest, h1, h2⟩, by simp [h1]⟩

theorem rcRun_refines (binary : Bool) (ops : List (RCOp κ)) (s : RC κ) (hinv : RCInv s) :
    rcSpecRun binary s.cols ops = ((rcRun binary s ops).1.cols, (rcRun binary s ops).2) := by
  induction ops generalizing s with
  | nil => rfl
  | cons op ops ih =>
    obtain ⟨h1, h2⟩ := rcStep_refines binary s hinv op
    simp only [rcSpecRun, rcRun, h2, ih _ h1]

end
end BiotiteModel.C06

import BiotiteModel.Model.C06Containers
/-! # C06 — refinement lemmas for the lazily parsed containers -/
namespace BiotiteModel.C06

section
variable {κ ρ ν : Type} [BEq κ] [LawfulBEq κ]

theorem lookup_abs (parse : ρ → Option ν) (k : κ) (st : Store κ ρ ν) :
    lookup k (absStore parse st) = (lookup k st).map (Entry.force parse) := by
  induction st with
  | nil => rfl
  | cons x xs ih =>
    obtain ⟨k', e⟩ := x
    by_cases h : (k' == k) = true
    · simp [absStore, lookup, h]
    · have h' : (k' == k) = false := by simpa using h
      simpa [absStore, lookup, h'] using ih

theorem abs_dictSet (parse : ρ → Option ν) (k : κ) (e : Entry ρ ν) (st : Store κ ρ ν) :
    absStore parse (dictSet k e st) = dictSet k (e.force parse) (absStore parse st) := by
  induction st with
  | nil => rfl
  | cons x xs ih =>
    obtain ⟨k', e'⟩ := x
    by_cases h : (k' == k) = true
    · simp [absStore, dictSet, h]
    · have h' : (k' == k) = false := by simpa using h
      simpa [absStore, dictSet, h'] using ih

theorem abs_erase (parse : ρ → Option ν) (k : κ) (st : Store κ ρ ν) :
    absStore parse (erase k st) = erase k (absStore parse st) := by
  induction st with
  | nil => rfl
  | cons x xs ih =>
    obtain ⟨k', e'⟩ := x
    by_cases h : (k' == k) = true
    · simp [absStore, erase, h]
    · have h' : (k' == k) = false := by simpa using h
      simpa [absStore, erase, h'] using ih

theorem dictSet_same {α : Type} (k : κ) (x : α) (l : List (κ × α)) (h : lookup k l = some x) :
    dictSet k x l = l := by
  induction l with
  | nil => simp [lookup] at h
  | cons y ys ih =>
    obtain ⟨k', v'⟩ := y
    by_cases hk : (k' == k) = true
    · have e : k' = k := by simpa using hk
      simp only [lookup, hk, if_true, Option.some.injEq] at h
      simp [dictSet, hk, e, h]
    · have hk' : (k' == k) = false := by simpa using hk
      simp only [lookup, hk', Bool.false_eq_true, if_false] at h
      simp [dictSet, hk', ih h]

theorem abs_length (parse : ρ → Option ν) (st : Store κ ρ ν) : (absStore parse st).length = st.length := by
  simp [absStore]

theorem abs_keys (parse : ρ → Option ν) (st : Store κ ρ ν) :
    (absStore parse st).map (·.1) = st.map (·.1) := by
  simp [absStore]

/-- One operation: the lazily parsed container and the plain mapping give the same output and
stay related. -/
theorem step_refines (kind : Kind) (parse : ρ → Option ν) (st : Store κ ρ ν) (op : Op κ ρ ν) :
    specStep kind parse (absStore parse st) op = (absStore parse (step kind parse st op).1, (step kind parse st op).2) := by
  cases op with
  | get k =>
    simp only [specStep, step, lookup_abs]
    cases hl : lookup k st with
    | none => simp
    | some e =>
      cases e with
      | parsed v => simp [Entry.force]
      | raw r =>
        cases hp : parse r with
        | none => simp [Entry.force, hp]
        | some v =>
          have hla : lookup k (absStore parse st) = some (some v) := by
            rw [lookup_abs, hl]; simp [Entry.force, hp]
          simp [Entry.force, hp, abs_dictSet, dictSet_same k (some v) _ hla]
  | set k v => simp [specStep, step, abs_dictSet, Entry.force]
  | setRaw k r =>
    simp only [specStep, step]
    cases kind.rawSetEager with
    | false => simp
    | true =>
      cases hp : parse r with
      | none => simp
      | some v => simp [abs_dictSet, Entry.force]
  | del k =>
    simp only [specStep, step, abs_length, lookup_abs]
    cases hg : (kind.delGuard && st.length == 1) with
    | true => simp
    | false =>
      cases hl : lookup k st with
      | none => simp
      | some e => simp [abs_erase]
  | has k =>
    simp only [specStep, step, lookup_abs]
    cases lookup k st <;> simp
  | iter => simp [specStep, step, abs_keys]
  | len => simp [specStep, step, abs_length]

theorem run_refines (kind : Kind) (parse : ρ → Option ν) (ops : List (Op κ ρ ν)) (st : Store κ ρ ν) :
    specRun kind parse (absStore parse st) ops =
      (absStore parse (run kind parse st ops).1, (run kind parse st ops).2) := by
  induction ops generalizing st with
  | nil => rfl
  | cons op ops ih =>
    simp only [specRun, run, step_refines kind parse st op, ih]

end
end BiotiteModel.C06
